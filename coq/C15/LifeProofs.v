(* C15/LifeProofs.v — invariants of the worker pool machine, for every event sequence. *)
From Coq Require Import Permutation.
From Relic Require Import Base.Prelude Generated.C15_gen C15.Model C15.Time C15.Life.

Lemma life_shape : life_shape_ok = true.
Proof. vm_compute. reflexivity. Qed.
Lemma delay_pos : 0 < restart_delay_ns.
Proof. reflexivity. Qed.

(* ------------------------------------------------------------------ lists *)
Lemma zin_In x l : zin x l = true <-> In x l.
Proof.
  unfold zin. rewrite existsb_exists. split.
  - intros (y & Hy & E). apply Z.eqb_eq in E. subst. exact Hy.
  - intros H. exists x. split; [exact H | apply Z.eqb_refl].
Qed.
Lemma filter_perm {A} (f : A -> bool) l : Permutation l (filter f l ++ filter (fun x => negb (f x)) l).
Proof.
  induction l as [|a l IH]; [constructor|]. cbn [filter]. destruct (f a); cbn [negb app].
  - constructor. exact IH.
  - apply Permutation_cons_app. exact IH.
Qed.
Lemma filter_eq_single x l : NoDup l -> In x l -> filter (fun y => y =? x) l = [x].
Proof.
  induction l as [|a l IH]; intros Hn Hi; [destruct Hi|]. inversion Hn as [|? ? Hna Hn']; subst. cbn [filter].
  destruct (a =? x) eqn:E.
  - apply Z.eqb_eq in E. subst. f_equal.
    clear IH Hi Hn. induction l as [|b l IH]; [reflexivity|]. cbn [filter].
    destruct (b =? x) eqn:Eb; [apply Z.eqb_eq in Eb; subst; exfalso; apply Hna; left; reflexivity|].
    apply IH; [intro H; apply Hna; right; exact H | inversion Hn'; assumption].
  - apply Z.eqb_neq in E. destruct Hi as [->|Hi]; [congruence|]. apply IH; assumption.
Qed.
Lemma zremove_perm x l : NoDup l -> In x l -> Permutation l (x :: zremove x l).
Proof.
  intros Hn Hi. unfold zremove. rewrite (filter_perm (fun y => y =? x) l) at 1. rewrite (filter_eq_single x l Hn Hi). reflexivity.
Qed.
Lemma filter_snd_single (f : Z * Z -> bool) rid l :
  NoDup (map snd l) -> (forall x, f x = true -> snd x = rid) -> existsb f l = true -> map snd (filter f l) = [rid].
Proof.
  induction l as [|a l IH]; intros Hn Hf He; [discriminate|]. cbn [map] in Hn. inversion Hn as [|? ? Hna Hn']; subst.
  cbn [existsb filter] in *. destruct (f a) eqn:Fa.
  - cbn [map]. rewrite (Hf a Fa). f_equal.
    assert (Hnone : forall y, In y l -> f y = false).
    { intros y Hy. destruct (f y) eqn:Fy; [|reflexivity]. exfalso. apply Hna. rewrite (Hf a Fa), <- (Hf y Fy). apply in_map. exact Hy. }
    clear -Hnone. induction l as [|b l IH]; [reflexivity|]. cbn [filter]. rewrite (Hnone b (or_introl eq_refl)).
    apply IH. intros y Hy. apply Hnone. right. exact Hy.
  - cbn [orb] in He. apply IH; assumption.
Qed.
Lemma pair_filter_perm (f : Z * Z -> bool) rid l :
  NoDup (map snd l) -> (forall x, f x = true -> snd x = rid) -> existsb f l = true ->
  Permutation (map snd l) (rid :: map snd (filter (fun x => negb (f x)) l)).
Proof.
  intros Hn Hf He. rewrite (filter_perm f l) at 1. rewrite map_app, (filter_snd_single f rid l Hn Hf He). reflexivity.
Qed.

Lemma status_cons c pid s pid' : status ((pid, s) :: c) pid' = if pid =? pid' then s else status c pid'.
Proof. reflexivity. Qed.

(* ------------------------------------------------------------------ the invariant *)
Record LInv (s : lstate) : Prop := mkLInv {
  inv_nodup : NoDup (l_seen (snd s));
  inv_places : Permutation (l_seen (snd s)) (places (snd s));
  inv_inflight : forall pid rid, In (pid, rid) (l_inflight (snd s)) -> serving (status (l_child (fst s)) pid) = true;
  inv_unknown : forall pid, l_next (fst s) <= pid -> status (l_child (fst s)) pid = CDead;
  inv_procs : forall pid, In pid (l_procs (fst s)) -> alive (status (l_child (fst s)) pid) = true \/ In pid (l_exitq (fst s));
  inv_spawn_le : forall t pid, In (t, pid) (l_spawns (fst s)) -> t <= l_now (fst s);
  inv_backoff : forall f, In f (l_fails (fst s)) ->
                match l_mon (fst s) with
                | MIdle | MSpawning _ _ => f + restart_delay_ns <= l_now (fst s)
                | MBackoff u => f + restart_delay_ns <= u
                | MDone => True
                end;
  inv_spaced : forall f t pid, In f (l_fails (fst s)) -> In (t, pid) (l_spawns (fst s)) -> t <= f \/ f + restart_delay_ns <= t;
  inv_spawning : forall pid dl, l_mon (fst s) = MSpawning pid dl -> pid < l_next (fst s) }.

Lemma linv_init : LInv linit.
Proof.
  constructor; cbn; try (intros; contradiction); try constructor; try reflexivity.
  intros pid dl H. discriminate.
Qed.

Lemma places_nodup q : NoDup (l_seen q) -> Permutation (l_seen q) (places q) -> NoDup (places q).
Proof. intros Hn Hp. eapply Permutation_NoDup; eassumption. Qed.
Lemma nodup_app_l {A} (a b : list A) : NoDup (a ++ b) -> NoDup a.
Proof.
  induction a as [|x a IH]; intros H; [constructor|]. cbn [app] in H. inversion H as [|? ? Hx Hn]; subst.
  constructor; [intro Hi; apply Hx; apply in_or_app; left; exact Hi | apply IH; exact Hn].
Qed.
Lemma nodup_app_r {A} (a b : list A) : NoDup (a ++ b) -> NoDup b.
Proof. induction a as [|x a IH]; intros H; [exact H|]. cbn [app] in H. inversion H; subst. apply IH. assumption. Qed.

(* the requests held by a dying worker move to `done`; nothing else changes place *)
Lemma drop_places q pid reset : Permutation (places q) (places (drop_inflight q pid reset)).
Proof.
  unfold places, drop_inflight. cbn [l_backlog l_inflight l_done]. apply Permutation_app_head.
  rewrite map_app.
  assert (Hm : forall l : list (Z * Z), map fst (map (fun x : Z * Z => (snd x, FDropped pid reset)) l) = map snd l).
  { intros l. rewrite map_map. apply map_ext. reflexivity. }
  rewrite Hm.
  assert (Hp : Permutation (map snd (l_inflight q))
                 (map snd (filter (fun x => fst x =? pid) (l_inflight q)) ++ map snd (filter (fun x => negb (fst x =? pid)) (l_inflight q)))).
  { rewrite <- map_app. apply Permutation_map. apply filter_perm. }
  eapply perm_trans; [apply Permutation_app_tail; exact Hp|].
  rewrite <- app_assoc. apply Permutation_app_swap_app.
Qed.
Lemma drop_inflight_in q pid reset p r : In (p, r) (l_inflight (drop_inflight q pid reset)) -> In (p, r) (l_inflight q) /\ p <> pid.
Proof.
  unfold drop_inflight. cbn [l_inflight]. intros H. apply filter_In in H as [H1 H2]. split; [exact H1|].
  cbn [fst] in H2. apply negb_true_iff, Z.eqb_neq in H2. exact H2.
Qed.

Ltac inv_pool H :=
  destruct H as [Hnd Hpl Hin Hun Hpr Hsl Hbo Hsp Hsg]; cbn [fst snd] in *.

(* the pool part of a state after the death of a child *)
Lemma dies_status p pid pid' : status (l_child (child_dies p pid)) pid' = if pid =? pid' then CDead else status (l_child p) pid'.
Proof. reflexivity. Qed.

Ltac tclose Hsl Hbo Hsp Hsg Hin Hun Hpr :=
  try solve [intros; discriminate];
  try solve [let t := fresh in let q := fresh in let Hq := fresh in intros t q Hq; specialize (Hsl _ _ Hq); lia];
  try solve [let f := fresh in let Hf := fresh in intros f Hf; specialize (Hbo _ Hf); cbn in *; lia];
  try solve [let f := fresh in let Hf := fresh in intros f Hf; exact I];
  try solve [exact Hsp]; try solve [exact Hsg]; try solve [exact Hin]; try solve [exact Hun]; try solve [exact Hpr].

Lemma linv_step target s e : LInv s -> LInv (lstep target s e).
Proof.
  intros H. destruct s as [p q]. unfold lstep. rewrite life_shape. cbn [negb].
  pose proof delay_pos as Hd.
  destruct e as [d|pid|pid reset|pid|b| |rid|pid rid|pid rid|rid].
  - (* LTick *)
    inv_pool H.
    destruct (l_mon p) as [|spid dl|u|] eqn:Hm; rewrite ?Hm in Hbo.
    + constructor; cbn [fst snd set_mon set_child spawn_failed child_dies l_now l_procs l_exitq l_stopq l_child l_next l_mon l_cancel l_spawns l_fails l_seen l_backlog l_inflight l_done]; auto; tclose Hsl Hbo Hsp Hsg Hin Hun Hpr. (*REST*)
      (*END*)
    + destruct (dl <=? l_now p + Z.max 0 d) eqn:Edl.
      * (* the start timeout fires: the child is killed, the spawn fails *)
        constructor; cbn [fst snd set_mon set_child spawn_failed child_dies l_now l_procs l_exitq l_stopq l_child l_next l_mon l_cancel l_spawns l_fails l_seen l_backlog l_inflight l_done]; auto; tclose Hsl Hbo Hsp Hsg Hin Hun Hpr. (*REST*)
        -- etransitivity; [exact Hpl | apply drop_places].
        -- intros p0 r0 Hx. apply drop_inflight_in in Hx as [Hx Hne]. rewrite status_cons.
           replace (spid =? p0) with false by (symmetry; apply Z.eqb_neq; congruence). apply (Hin p0 r0 Hx).
        -- intros pid Hp0. rewrite status_cons. destruct (spid =? pid) eqn:E; [|apply Hun; exact Hp0].
           reflexivity.
        -- intros pid Hp0. rewrite status_cons. destruct (spid =? pid) eqn:E.
           ++ right. apply Z.eqb_eq in E. subst. apply in_or_app. right. left. reflexivity.
           ++ destruct (Hpr pid Hp0) as [Ha|Ha]; [left; exact Ha | right; apply in_or_app; left; exact Ha].
        -- intros f [<-|Hf]; [lia|]. specialize (Hbo f Hf). lia.
        -- intros f t pid [<-|Hf] Ht; [left; specialize (Hsl t pid Ht); lia | apply (Hsp f t pid Hf Ht)].
        (*END*)
      * constructor; cbn [fst snd set_mon set_child spawn_failed child_dies l_now l_procs l_exitq l_stopq l_child l_next l_mon l_cancel l_spawns l_fails l_seen l_backlog l_inflight l_done]; auto; tclose Hsl Hbo Hsp Hsg Hin Hun Hpr. (*REST*)
        (*END*)
    + destruct (u <=? l_now p + Z.max 0 d) eqn:Eu.
      * apply Z.leb_le in Eu.
        constructor; cbn [fst snd set_mon set_child spawn_failed child_dies l_now l_procs l_exitq l_stopq l_child l_next l_mon l_cancel l_spawns l_fails l_seen l_backlog l_inflight l_done]; auto; tclose Hsl Hbo Hsp Hsg Hin Hun Hpr. (*REST*)
        (*END*)
      * constructor; cbn [fst snd set_mon set_child spawn_failed child_dies l_now l_procs l_exitq l_stopq l_child l_next l_mon l_cancel l_spawns l_fails l_seen l_backlog l_inflight l_done]; auto; tclose Hsl Hbo Hsp Hsg Hin Hun Hpr. (*REST*)
        (*END*)
    + constructor; cbn [fst snd set_mon set_child spawn_failed child_dies l_now l_procs l_exitq l_stopq l_child l_next l_mon l_cancel l_spawns l_fails l_seen l_backlog l_inflight l_done]; auto; tclose Hsl Hbo Hsp Hsg Hin Hun Hpr. (*REST*)
      (*END*)
  - (* LReady *)
    destruct (status (l_child p) pid) eqn:Hst; try exact H.
    destruct (l_mon p) as [|spid dl|u|] eqn:Hm; try exact H.
    destruct (spid =? pid) eqn:E; [|exact H]. apply Z.eqb_eq in E. subst spid.
    inv_pool H. rewrite ?Hm in Hbo.
    constructor; cbn [fst snd set_mon set_child spawn_failed child_dies l_now l_procs l_exitq l_stopq l_child l_next l_mon l_cancel l_spawns l_fails l_seen l_backlog l_inflight l_done]; auto; tclose Hsl Hbo Hsp Hsg Hin Hun Hpr. (*REST*)
    + intros p0 r0 Hx. rewrite status_cons. destruct (pid =? p0); [reflexivity | apply (Hin p0 r0 Hx)].
    + intros p0 Hp0. rewrite status_cons. destruct (pid =? p0) eqn:E; [|apply Hun; exact Hp0].
      apply Z.eqb_eq in E. subst. specialize (Hsg p0 dl Hm). lia.
    + intros p0 Hp0. rewrite status_cons. destruct (pid =? p0); [left; reflexivity | apply Hpr; exact Hp0].
    (*END*)
  - (* LExit *)
    destruct (alive (status (l_child p) pid)) eqn:Hal; [|exact H].
    inv_pool H.
    assert (Hcommon : forall p2, l_child p2 = l_child (child_dies p pid) -> l_exitq p2 = l_exitq (child_dies p pid) ->
                      l_procs p2 = l_procs p -> l_next p2 = l_next p -> l_now p2 = l_now p -> l_spawns p2 = l_spawns p ->
                      (forall f, In f (l_fails p2) -> match l_mon p2 with MIdle | MSpawning _ _ => f + restart_delay_ns <= l_now p | MBackoff u => f + restart_delay_ns <= u | MDone => True end) ->
                      (forall f t pid0, In f (l_fails p2) -> In (t, pid0) (l_spawns p) -> t <= f \/ f + restart_delay_ns <= t) ->
                      (forall pid0 dl, l_mon p2 = MSpawning pid0 dl -> pid0 < l_next p) ->
                      LInv (p2, drop_inflight q pid reset)).
    { intros p2 Hc He Hp2 Hn2 Hnow Hs2 Hb2 Hsp2 Hsg2.
      constructor; cbn [fst snd]; auto.
      - etransitivity; [exact Hpl | apply drop_places].
      - intros p0 r0 Hx. apply drop_inflight_in in Hx as [Hx Hne]. rewrite Hc, dies_status.
        replace (pid =? p0) with false by (symmetry; apply Z.eqb_neq; congruence). apply (Hin p0 r0 Hx).
      - intros p0 Hp0. rewrite Hc, dies_status. destruct (pid =? p0); [reflexivity | apply Hun; rewrite Hn2 in Hp0; exact Hp0].
      - intros p0 Hp0. rewrite Hc, He, dies_status. cbn [child_dies l_exitq]. rewrite Hp2 in Hp0. destruct (pid =? p0) eqn:E.
        + right. apply Z.eqb_eq in E. subst. apply in_or_app. right. left. reflexivity.
        + destruct (Hpr p0 Hp0) as [Ha|Ha]; [left; exact Ha | right; apply in_or_app; left; exact Ha].
      - intros t p0 Ht. rewrite Hs2 in Ht. rewrite Hnow. apply (Hsl t p0 Ht).
      - intros f Hf. specialize (Hb2 f Hf). rewrite Hnow. exact Hb2.
      - intros f t p0 Hf Ht. rewrite Hs2 in Ht. apply (Hsp2 f t p0 Hf Ht).
      - intros p0 dl Hx. rewrite Hn2. apply (Hsg2 p0 dl Hx). }
    destruct (l_mon p) as [|spid dl|u|] eqn:Hm; rewrite ?Hm in Hbo.
    + apply Hcommon; try reflexivity; cbn [child_dies l_mon l_fails]; rewrite ?Hm; tclose Hsl Hbo Hsp Hsg Hin Hun Hpr. (*REST*)
      (*END*)
    + destruct (spid =? pid) eqn:E.
      * apply Hcommon; try reflexivity; cbn [spawn_failed child_dies l_mon l_fails l_now]; tclose Hsl Hbo Hsp Hsg Hin Hun Hpr. (*REST*)
        -- intros f [<-|Hf]; [lia|]. specialize (Hbo f Hf). lia.
        -- intros f t p0 [<-|Hf] Ht; [left; apply (Hsl t p0 Ht) | apply (Hsp f t p0 Hf Ht)].
        (*END*)
      * apply Hcommon; try reflexivity; cbn [child_dies l_mon l_fails]; rewrite ?Hm; tclose Hsl Hbo Hsp Hsg Hin Hun Hpr. (*REST*)
        (*END*)
    + apply Hcommon; try reflexivity; cbn [child_dies l_mon l_fails]; rewrite ?Hm; tclose Hsl Hbo Hsp Hsg Hin Hun Hpr. (*REST*)
      (*END*)
    + apply Hcommon; try reflexivity; cbn [child_dies l_mon l_fails]; rewrite ?Hm; tclose Hsl Hbo Hsp Hsg Hin Hun Hpr.
  - (* LStopping *)
    destruct (status (l_child p) pid) eqn:Hst; try exact H.
    inv_pool H.
    constructor; cbn [fst snd set_mon set_child spawn_failed child_dies l_now l_procs l_exitq l_stopq l_child l_next l_mon l_cancel l_spawns l_fails l_seen l_backlog l_inflight l_done]; auto; tclose Hsl Hbo Hsp Hsg Hin Hun Hpr. (*REST*)
    + intros p0 r0 Hx. rewrite status_cons. destruct (pid =? p0); [reflexivity | apply (Hin p0 r0 Hx)].
    + intros p0 Hp0. rewrite status_cons. destruct (pid =? p0) eqn:E; [|apply Hun; exact Hp0].
      apply Z.eqb_eq in E. subst. rewrite (Hun p0 Hp0) in Hst. discriminate.
    + intros p0 Hp0. rewrite status_cons. destruct (pid =? p0); [left; reflexivity | apply Hpr; exact Hp0].
    (*END*)
  - (* LMonitor *)
    inv_pool H. unfold monitor_step.
    assert (Hrm : forall p1 x, l_child p1 = l_child p -> l_next p1 = l_next p -> l_now p1 = l_now p -> l_spawns p1 = l_spawns p ->
                  l_fails p1 = l_fails p -> l_mon p1 = l_mon p -> l_procs p1 = l_procs p ->
                  (forall y, In y (l_exitq p) -> y = x \/ In y (l_exitq p1)) ->
                  LInv (remove_pid p1 x, q)).
    { intros p1 x Hc Hn Hnow Hs Hf Hmon Hprocs Hq.
      constructor; cbn [fst snd remove_pid l_now l_procs l_exitq l_stopq l_child l_next l_mon l_cancel l_spawns l_fails];
        rewrite ?Hc, ?Hn, ?Hnow, ?Hs, ?Hf, ?Hmon; auto.
      intros p0 Hp0. unfold zremove in Hp0. apply filter_In in Hp0 as [Hp0 Hne]. apply negb_true_iff, Z.eqb_neq in Hne.
      rewrite Hprocs in Hp0. destruct (Hpr p0 Hp0) as [Ha|Ha]; [left; exact Ha|].
      destruct (Hq p0 Ha) as [->|Hq']; [congruence | right; exact Hq']. }
    assert (Hsame : LInv (p, q)) by (constructor; cbn [fst snd]; assumption).
    destruct (l_mon p) as [|spid dl|u|] eqn:Hm; rewrite ?Hm in Hbo.
    + destruct (negb (monitor_runs (negb (l_cancel p)))).
      { constructor; cbn [fst snd set_mon set_child spawn_failed child_dies l_now l_procs l_exitq l_stopq l_child l_next l_mon l_cancel l_spawns l_fails l_seen l_backlog l_inflight l_done]; auto; tclose Hsl Hbo Hsp Hsg Hin Hun Hpr. }
      destruct (monitor_needs_worker (zlen (l_procs p)) target).
      { (* spawn *)
        constructor; cbn [fst snd set_mon set_child spawn_failed child_dies l_now l_procs l_exitq l_stopq l_child l_next l_mon l_cancel l_spawns l_fails l_seen l_backlog l_inflight l_done]; auto; tclose Hsl Hbo Hsp Hsg Hin Hun Hpr. (*REST*)
        - intros p0 r0 Hx. rewrite status_cons. destruct (l_next p =? p0) eqn:E; [|apply (Hin p0 r0 Hx)].
          apply Z.eqb_eq in E. specialize (Hin p0 r0 Hx). rewrite (Hun p0) in Hin by lia. discriminate.
        - intros p0 Hp0. rewrite status_cons. replace (l_next p =? p0) with false by (symmetry; apply Z.eqb_neq; lia). apply Hun. lia.
        - intros p0 [<-|Hp0]; rewrite status_cons.
          + rewrite Z.eqb_refl. left. reflexivity.
          + destruct (l_next p =? p0); [left; reflexivity | apply Hpr; exact Hp0].
        - intros t p0 [Hx|Hx]; [injection Hx as <- <-; lia | apply (Hsl t p0 Hx)].
        - intros f t p0 Hf [Hx|Hx]; [injection Hx as <- <-; right; specialize (Hbo f Hf); exact Hbo | apply (Hsp f t p0 Hf Hx)].
        - intros p0 dl Hx. injection Hx as <- <-. lia.
        (*END*) }
      destruct (l_exitq p) as [|e er] eqn:Heq; destruct (l_stopq p) as [|st sr] eqn:Hsq.
      * exact Hsame.
      * apply Hrm; try reflexivity; cbn [l_exitq]; try (rewrite Hm; reflexivity). intros y Hy. destruct Hy.
      * apply Hrm; try reflexivity; cbn [l_exitq]; try (rewrite Hm; reflexivity). intros y Hy. destruct Hy as [<-|Hy]; [left; reflexivity | right; exact Hy].
      * destruct b.
        -- apply Hrm; try reflexivity; cbn [l_exitq]; try (rewrite Hm; reflexivity). intros y Hy. right. exact Hy.
        -- apply Hrm; try reflexivity; cbn [l_exitq]; try (rewrite Hm; reflexivity). intros y Hy. destruct Hy as [<-|Hy]; [left; reflexivity | right; exact Hy].
    + exact Hsame.
    + destruct (l_cancel p).
      * constructor; cbn [fst snd set_mon set_child spawn_failed child_dies l_now l_procs l_exitq l_stopq l_child l_next l_mon l_cancel l_spawns l_fails l_seen l_backlog l_inflight l_done]; auto; tclose Hsl Hbo Hsp Hsg Hin Hun Hpr.
      * exact Hsame.
    + exact Hsame.
  - (* LClose *)
    inv_pool H. constructor; cbn [fst snd set_mon set_child spawn_failed child_dies l_now l_procs l_exitq l_stopq l_child l_next l_mon l_cancel l_spawns l_fails l_seen l_backlog l_inflight l_done]; auto.
  - (* LArrive *)
    destruct (zin rid (l_seen q)) eqn:Hz; [exact H|].
    inv_pool H. constructor; cbn [fst snd set_mon set_child spawn_failed child_dies l_now l_procs l_exitq l_stopq l_child l_next l_mon l_cancel l_spawns l_fails l_seen l_backlog l_inflight l_done]; auto.
    + constructor; [|exact Hnd]. intro Hx. apply zin_In in Hx. congruence.
    + unfold places in *. cbn [l_backlog l_inflight l_done]. rewrite <- app_assoc. cbn [app].
      apply Permutation_cons_app. exact Hpl.
  - (* LAccept *)
    destruct (status (l_child p) pid) eqn:Hst; try exact H.
    destruct (zin rid (l_backlog q)) eqn:Hz; [|exact H]. apply zin_In in Hz.
    inv_pool H. pose proof (places_nodup q Hnd Hpl) as Hpn.
    constructor; cbn [fst snd set_mon set_child spawn_failed child_dies l_now l_procs l_exitq l_stopq l_child l_next l_mon l_cancel l_spawns l_fails l_seen l_backlog l_inflight l_done]; auto.
    + etransitivity; [exact Hpl|]. unfold places in *. cbn [l_backlog l_inflight l_done map snd].
      eapply perm_trans; [apply Permutation_app_tail; apply (zremove_perm rid (l_backlog q) (nodup_app_l _ _ Hpn) Hz)|]. cbn [app].
      apply Permutation_cons_app. reflexivity.
    + intros p0 r0 [Hx|Hx]; [injection Hx as <- <-; rewrite Hst; reflexivity | apply (Hin p0 r0 Hx)].
  - (* LReply *)
    destruct (existsb (fun x => (fst x =? pid) && (snd x =? rid)) (l_inflight q)) eqn:Hex; [|exact H].
    inv_pool H. pose proof (places_nodup q Hnd Hpl) as Hpn.
    constructor; cbn [fst snd set_mon set_child spawn_failed child_dies l_now l_procs l_exitq l_stopq l_child l_next l_mon l_cancel l_spawns l_fails l_seen l_backlog l_inflight l_done]; auto.
    + etransitivity; [exact Hpl|]. unfold places in *. cbn [l_backlog l_inflight l_done map fst].
      apply Permutation_app_head.
      eapply perm_trans; [apply Permutation_app_tail; apply (pair_filter_perm (fun x => (fst x =? pid) && (snd x =? rid)) rid (l_inflight q))|]; auto.
      * apply nodup_app_l with (b := map fst (l_done q)). apply nodup_app_r with (a := l_backlog q). exact Hpn.
      * intros x Hx. apply andb_true_iff in Hx as [_ Hx]. apply Z.eqb_eq in Hx. exact Hx.
      * cbn [app]. apply Permutation_cons_app. reflexivity.
    + intros p0 r0 Hx. apply filter_In in Hx as [Hx _]. apply (Hin p0 r0 Hx).
  - (* LGiveUp *)
    inv_pool H. pose proof (places_nodup q Hnd Hpl) as Hpn.
    assert (Hsame : LInv (p, q)) by (constructor; cbn [fst snd]; assumption).
    destruct (zin rid (l_backlog q)) eqn:Hz.
    + apply zin_In in Hz.
      constructor; cbn [fst snd set_mon set_child spawn_failed child_dies l_now l_procs l_exitq l_stopq l_child l_next l_mon l_cancel l_spawns l_fails l_seen l_backlog l_inflight l_done]; auto.
      etransitivity; [exact Hpl|]. unfold places in *. cbn [l_backlog l_inflight l_done map fst].
      eapply perm_trans; [apply Permutation_app_tail; apply (zremove_perm rid (l_backlog q) (nodup_app_l _ _ Hpn) Hz)|]. cbn [app].
      replace (zremove rid (l_backlog q) ++ map snd (l_inflight q) ++ rid :: map fst (l_done q))
        with ((zremove rid (l_backlog q) ++ map snd (l_inflight q)) ++ rid :: map fst (l_done q)) by (rewrite <- app_assoc; reflexivity).
      apply Permutation_cons_app. rewrite <- app_assoc. reflexivity.
    + destruct (existsb (fun x => snd x =? rid) (l_inflight q)) eqn:Hex; [|exact Hsame].
      constructor; cbn [fst snd set_mon set_child spawn_failed child_dies l_now l_procs l_exitq l_stopq l_child l_next l_mon l_cancel l_spawns l_fails l_seen l_backlog l_inflight l_done]; auto.
      * etransitivity; [exact Hpl|]. unfold places in *. cbn [l_backlog l_inflight l_done map fst].
        apply Permutation_app_head.
        eapply perm_trans; [apply Permutation_app_tail; apply (pair_filter_perm (fun x => snd x =? rid) rid (l_inflight q))|]; auto.
        -- apply nodup_app_l with (b := map fst (l_done q)). apply nodup_app_r with (a := l_backlog q). exact Hpn.
        -- intros x Hx. apply Z.eqb_eq in Hx. exact Hx.
        -- cbn [app]. apply Permutation_cons_app. reflexivity.
      * intros p0 r0 Hx. apply filter_In in Hx as [Hx _]. apply (Hin p0 r0 Hx).
Qed.

Lemma linv_run target evs : LInv (lrun target evs).
Proof.
  unfold lrun. assert (G : forall s, LInv s -> LInv (fold_left (lstep target) evs s)).
  { induction evs as [|e r IH]; intros s Hs; [exact Hs|]. cbn [fold_left]. apply IH. apply linv_step. exact Hs. }
  apply G. apply linv_init.
Qed.

(* ------------------------------------------------------------------ consequences *)
(* a request is never lost and never in two places: it waits, is being served, or has exactly one fate *)
Lemma life_requests_conserved : forall target evs,
  let q := snd (lrun target evs) in
  NoDup (places q) /\ (forall rid, In rid (l_seen q) <-> In rid (places q)).
Proof.
  intros target evs q. destruct (linv_run target evs) as [Hnd Hpl _ _ _ _ _ _ _]. fold q in Hnd, Hpl. split.
  - eapply Permutation_NoDup; eassumption.
  - intros rid. split; intro Hx; [eapply Permutation_in; eassumption | eapply Permutation_in; [apply Permutation_sym|]; eassumption].
Qed.
Lemma life_one_fate : forall target evs, NoDup (map fst (l_done (snd (lrun target evs)))).
Proof.
  intros target evs. destruct (life_requests_conserved target evs) as [Hn _]. unfold places in Hn.
  apply nodup_app_r in Hn. apply nodup_app_r in Hn. exact Hn.
Qed.
(* only a worker that is alive (ready or draining) holds or answers requests *)
Lemma life_served_by_live_worker : forall target evs pid rid,
  In (pid, rid) (l_inflight (snd (lrun target evs))) -> serving (status (l_child (fst (lrun target evs))) pid) = true.
Proof. intros target evs pid rid. destruct (linv_run target evs) as [_ _ Hin _ _ _ _ _ _]. apply Hin. Qed.
Lemma life_answer_needs_live_worker : forall target evs pid rid,
  let s := lrun target evs in
  l_done (snd (lstep target s (LReply pid rid))) <> l_done (snd s) -> serving (status (l_child (fst s)) pid) = true.
Proof.
  intros target evs pid rid. cbv zeta. intros Hx.
  apply (life_served_by_live_worker target evs pid rid).
  destruct (lrun target evs) as [p q]. unfold lstep in Hx. rewrite life_shape in Hx. cbn [negb fst snd] in *.
  destruct (existsb (fun x => (fst x =? pid) && (snd x =? rid)) (l_inflight q)) eqn:Hex; [|cbn [snd] in Hx; congruence].
  apply existsb_exists in Hex as ([p0 r0] & Hin & Hc). cbn [fst snd] in Hc. apply andb_true_iff in Hc as [H1 H2].
  apply Z.eqb_eq in H1, H2. subst. exact Hin.
Qed.
(* the monitor's bookkeeping: a pid it counts is alive, or its exit is already queued for it *)
Lemma life_procs_accounted : forall target evs pid,
  let p := fst (lrun target evs) in
  In pid (l_procs p) -> alive (status (l_child p) pid) = true \/ In pid (l_exitq p).
Proof. intros target evs pid. destruct (linv_run target evs) as [_ _ _ _ Hpr _ _ _ _]. apply Hpr. Qed.
(* no silent stall: with nothing alive and nothing queued, the idle monitor starts a worker *)
Lemma life_no_stall : forall target evs b,
  let p := fst (lrun target evs) in
  1 <= target -> l_mon p = MIdle -> l_cancel p = false -> l_exitq p = [] ->
  (forall pid, alive (status (l_child p) pid) = false) ->
  exists pid dl, l_mon (monitor_step target p b) = MSpawning pid dl /\ status (l_child (monitor_step target p b)) pid = CStarting.
Proof.
  intros target evs b p Ht Hm Hc Hq Hdead.
  assert (Hnil : l_procs p = []).
  { destruct (l_procs p) as [|x l] eqn:E; [reflexivity|]. exfalso.
    pose proof (life_procs_accounted target evs x) as Hacc. cbv zeta in Hacc. fold p in Hacc.
    rewrite E, Hdead, Hq in Hacc. destruct (Hacc (or_introl eq_refl)) as [Ha|Ha]; [discriminate | destruct Ha]. }
  unfold monitor_step. rewrite Hm, Hc, Hnil. cbn [negb monitor_runs zlen length Z.of_nat]. unfold monitor_needs_worker.
  replace (0 <? target) with true by (symmetry; apply Z.ltb_lt; lia).
  eexists _, _. cbn [l_mon l_child status]. rewrite Z.eqb_refl. split; reflexivity.
Qed.
(* backoff: a spawn that follows a failed spawn starts at least restartDelay after the failure *)
Lemma life_backoff : forall target evs f t pid,
  let p := fst (lrun target evs) in
  In f (l_fails p) -> In (t, pid) (l_spawns p) -> t <= f \/ f + restart_delay_ns <= t.
Proof. intros target evs f t pid. destruct (linv_run target evs) as [_ _ _ _ _ _ _ Hsp _]. apply Hsp. Qed.

(* what a request that was not answered looks like to the retry loop *)
Lemma fate_retryable : forall f, (forall pid, f <> FAnswered pid) -> (forall pid, f <> FDropped pid false) -> temporary (fate_outcome f) = true.
Proof. intros [pid|pid [|]|] H1 H2; try reflexivity; [exfalso; apply (H1 pid); reflexivity | exfalso; apply (H2 pid); reflexivity]. Qed.
(* ... but a worker that dies after reading a request and closes (rather than resets) its connections leaves the client
   with io.EOF, which is not in the transient list: the operation fails at once although a new worker is being started *)
Lemma life_dropped_always_retryable_refuted :
  exists target evs rid pid, In (rid, FDropped pid false) (l_done (snd (lrun target evs))) /\ temporary (fate_outcome (FDropped pid false)) = false.
Proof.
  exists 1, [LMonitor false; LReady 1; LArrive 7; LAccept 1 7; LExit 1 false], 7, 1.
  split; [vm_compute; left; reflexivity | reflexivity].
Qed.
