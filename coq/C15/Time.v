(* C15/Time.v — token/worker/retry.go doRetry WITH TIME.

   Time is an integer number of nanoseconds since the call of doRetry. The caller's (base) context ends at an instant
   `bc_at` (cancellation or deadline) or never. An attempt is described by what the worker would answer and after how long;
   doOnce cuts it short when the per-attempt timeout or the base context ends first. The wait in front of attempt i > 0 is
   `context.WithTimeout(baseCtx, time.Duration(delay)); <-ctx.Done()`: it ends at the earlier of now + delay and the end of
   the base context. `delay` is a float32: the arithmetic below is IEEE-754 single precision (round to nearest even) on
   values that are integers (>= 2^23), which is what `delay *= scaleFactor` computes on amd64/arm64.

   Every comparison, constant and the statement skeleton come from Generated/C15_gen.v. *)
From Relic Require Import Base.Prelude Generated.C15_gen C15.Model.

(* ------------------------------------------------------------------ float32 on positive values *)
(* nearest-even rounding of n / 2^s to 24 significant bits; the result is an integer whenever n / 2^s >= 2^23 *)
Definition f32_round (n s : Z) : Z :=
  let t := Z.log2 n - 23 in
  if t <=? 0 then Z.shiftr n s
  else
    let q := Z.shiftr n t in
    let r := n - Z.shiftl q t in
    let half := Z.shiftl 1 (t - 1) in
    let q' := if (half <? r) || ((r =? half) && Z.odd q) then q + 1 else q in
    Z.shiftl q' (t - s).
Definition f32_of_Z (n : Z) : Z := f32_round n 0.                        (* float32(n) for an integer constant *)
Definition f32_scale (d : Z) : Z := f32_round (d * scale_f32_mant) scale_f32_shift.   (* d * float32(scaleFactor) *)

(* delay *= scaleFactor; if delay > float32(maxDelay) { delay = float32(maxDelay) } *)
Definition next_delay_ns (d : Z) : Z :=
  let d' := if retry_delay_scaled_by_factor then f32_scale d else d in
  if retry_delay_over_cap f32_of_Z d' then retry_delay_cap f32_of_Z else d'.
Definition initial_delay_f32 : Z := retry_delay_init f32_of_Z.
Fixpoint delay_ns_at (k : nat) : Z := match k with O => initial_delay_f32 | S j => next_delay_ns (delay_ns_at j) end.

(* ------------------------------------------------------------------ configuration *)
Definition eff_timeout (conf_timeout_s : Z) : Z :=
  let t := retry_timeout_of_conf conf_timeout_s in
  if retry_timeout_use_default t then retry_timeout_default else t.
Definition eff_retries_t (r : Z) : Z := if retry_use_default r then retry_retries_default else r.

(* ------------------------------------------------------------------ statement skeleton the model was written against *)
Definition skel_eqb (a b : list (Z * Z)) : bool :=
  list_eqb (fun x y => (fst x =? fst y) && (snd x =? snd y)) a b.
Definition retry_skeleton_expected : list (Z * Z) :=
  [(0, 1); (0, 2); (1, 3); (0, 4); (0, 5); (1, 6); (0, 7); (0, 8); (0, 9);
   (0, 10);                                     (* for i := 0; i < retries; i++ *)
     (1, 11);                                   (*   if i != 0 *)
       (2, 12); (2, 13); (2, 14);               (*     wait: WithTimeout(baseCtx, delay); <-ctx.Done(); cancel() *)
       (2, 15); (3, 16);                        (*     if baseCtx.Err() != nil { return nil, baseCtx.Err() } *)
       (2, 17); (2, 18); (3, 19);               (*     delay *= scaleFactor; cap *)
     (1, 20);                                   (*   rresp, err := t.doOnce(req, timeout) *)
     (1, 21); (2, 22);                          (*   if err == nil { return rresp, nil } *)
     (1, 23); (1, 24); (2, 25); (1, 98); (2, 26); (1, 27); (1, 15); (1, 98); (2, 28);   (* retry flag (and metric code) *)
     (1, 29); (2, 30);                          (*   if !retry { return nil, err } *)
     (1, 31);                                   (*   last = err *)
   (0, 32)].                                    (* return nil, last *)
Definition once_skeleton_expected : list (Z * Z) :=
  [(0, 1); (0, 2);                              (* ctx, cancel := WithTimeout(req.Context(), timeout); defer cancel() *)
   (0, 3); (1, 4); (1, 5); (1, 6); (2, 7);      (* body rewound through GetBody *)
   (0, 8); (0, 6); (1, 7); (0, 9);              (* http.DefaultClient.Do(req.WithContext(ctx)) *)
   (0, 10); (1, 11);                            (* status != 200 -> httperror.FromResponse *)
   (0, 12); (0, 6); (1, 7);                     (* io.ReadAll *)
   (0, 13); (0, 14); (1, 7);                    (* json.Unmarshal *)
   (0, 15); (1, 16); (0, 98); (1, 17); (2, 18); (0, 19)].
Definition retry_shape_ok : bool :=
  skel_eqb retry_skeleton retry_skeleton_expected && skel_eqb once_skeleton once_skeleton_expected.

(* ------------------------------------------------------------------ the base context and one attempt *)
Inductive ctxkind := KCanceled | KDeadline.
Record basectx := mkBase { bc_at : option Z; bc_kind : ctxkind }.
Definition never : basectx := mkBase None KCanceled.
Definition ctx_done (b : basectx) (t : Z) : bool := match bc_at b with Some c => c <=? t | None => false end.
Definition ctx_class (k : ctxkind) : Z := match k with KCanceled => 2 | KDeadline => 3 end.

(* what the worker would answer, and after how long *)
Record att := mkAtt { at_out : outcome; at_dur : Z }.
Definition default_att : att := mkAtt OSuccess 0.

(* doOnce started at s with per-attempt timeout T: (what doRetry sees, when) *)
Definition attempt_result (b : basectx) (T s : Z) (a : att) : outcome * Z :=
  let T' := Z.max 0 T in
  let d := Z.max 0 (at_dur a) in
  let own := if d <? T' then (at_out a, s + d) else (OErrClass 3, s + T') in
  match bc_at b with
  | Some c => if c <=? snd own then (OErrClass (ctx_class (bc_kind b)), Z.max s c) else own
  | None => own
  end.

(* the wait in front of a retry, started at `now`: when it ends *)
Definition wait_end (b : basectx) (now delay : Z) : Z :=
  let full := now + Z.max 0 delay in
  match bc_at b with Some c => if c <=? full then Z.max now c else full | None => full end.

(* ------------------------------------------------------------------ the loop *)
Record arec := mkA { ar_start : Z; ar_end : Z; ar_out : outcome }.
Inductive tres := TSuccess | TFail (o : outcome) | TCtx (k : ctxkind) | TNil | TOutOfFuel.
(* result, instant of return, the attempts that were made *)
Definition trun := (tres * Z * list arec)%type.
Definition err_code (o : outcome) : Z := match o with OSuccess => 0 | _ => 1 end.

Fixpoint tloop (fuel : nat) (b : basectx) (retries T : Z) (script : list att)
         (i delay now : Z) (last : option outcome) : trun :=
  match fuel with
  | O => (TOutOfFuel, now, [])
  | S f =>
      if retry_loop_cond i retries then
        let wend := if retry_wait_first i then wait_end b now delay else now in
        if retry_wait_first i && retry_base_done (if ctx_done b wend then 1 else 0) then (TCtx (bc_kind b), wend, [])
        else
          let delay' := if retry_wait_first i then next_delay_ns delay else delay in
          let '(o, aend) := attempt_result b T wend (nth (Z.to_nat i) script default_att) in
          let rec := mkA wend aend o in
          if retry_attempt_ok (err_code o) then (TSuccess, aend, [rec])
          else if retry_give_up (retry_is_retryable (temporary o)) then (TFail o, aend, [rec])
          else let '(r, t, l) := tloop f b retries T script (i + 1) delay' aend (Some o) in (r, t, rec :: l)
      else (match last with Some o => TFail o | None => TNil end, now, [])
  end.

Definition do_retry_timed (conf_retries conf_timeout_s : Z) (b : basectx) (script : list att) : trun :=
  if retry_shape_ok then
    let r := eff_retries_t conf_retries in
    tloop (S (Z.to_nat r)) b r (eff_timeout conf_timeout_s) script 0 initial_delay_f32 0 None
  else (TOutOfFuel, 0, []).

(* ====================================================================================================================
   SPECIFICATION, written from the property text (independent of the loop above): a retried operation is a chain of
   attempts. Attempt k starts when the previous one ended plus the k-th backoff delay D k; it is made only while attempts
   remain and the caller's context is alive at the moment it would start. A success, a permanent failure, exhaustion or
   the end of the caller's context ends the chain; the answer is the last attempt's, or the context's error. *)
Definition spec_transient (o : outcome) : bool :=
  match o with
  | OSuccess => false
  | OHttp c => existsb (Z.eqb c) [500; 502; 503; 504; 507]
  | OErrClass c => existsb (Z.eqb c) [1; 2; 3; 4]
  | OTokErr r => r
  | OUsage => false
  end.
(* one attempt as the caller's side sees it *)
Definition spec_attempt (b : basectx) (T s : Z) (a : att) : outcome * Z :=
  let T' := Z.max 0 T in
  let d := Z.max 0 (at_dur a) in
  let e := s + Z.min d T' in                              (* when it would end on its own *)
  match bc_at b with
  | Some c => if c <=? e then (OErrClass (ctx_class (bc_kind b)), Z.max s c)
              else (if d <? T' then at_out a else OErrClass 3, e)
  | None => (if d <? T' then at_out a else OErrClass 3, e)
  end.
Fixpoint spec_chain (D : nat -> Z) (b : basectx) (T : Z) (left : nat) (k : nat) (start : Z) (script : list att) : trun :=
  match left with
  | O => (TNil, start, [])
  | S left' =>
      let '(o, e) := spec_attempt b T start (hd default_att script) in
      let rec := mkA start e o in
      match o with
      | OSuccess => (TSuccess, e, [rec])
      | _ =>
          if negb (spec_transient o) then (TFail o, e, [rec])
          else match left' with
               | O => (TFail o, e, [rec])                                        (* attempts exhausted *)
               | S _ =>
                   let next := e + Z.max 0 (D k) in
                   match bc_at b with
                   | Some c => if c <=? next then (TCtx (bc_kind b), Z.max e c, [rec])    (* the caller gave up during the wait *)
                               else let '(r, t, l) := spec_chain D b T left' (S k) next (tl script) in (r, t, rec :: l)
                   | None => let '(r, t, l) := spec_chain D b T left' (S k) next (tl script) in (r, t, rec :: l)
                   end
               end
      end
  end.
Definition spec_retry (D : nat -> Z) (retries T : Z) (b : basectx) (script : list att) : trun :=
  spec_chain D b T (Z.to_nat retries) 0 0 script.

(* the specification of the backoff schedule: capped exponential, in exact rational arithmetic *)
Definition spec_delay (k : nat) : Z :=
  Z.min max_delay_ns (initial_delay_ns * scale_factor_milli ^ Z.of_nat k / 1000 ^ Z.of_nat k).

(* ------------------------------------------------------------------ observations on a run *)
Definition tr_result (r : trun) : tres := fst (fst r).
Definition tr_end (r : trun) : Z := snd (fst r).
Definition tr_atts (r : trun) : list arec := snd r.
Fixpoint chain_ok (D : nat -> Z) (k : nat) (l : list arec) : Prop :=
  match l with
  | a :: ((a' :: _) as r) => ar_start a' = ar_end a + Z.max 0 (D k) /\ chain_ok D (S k) r
  | _ => True
  end.
Fixpoint last_rec (l : list arec) : option arec :=
  match l with [] => None | [a] => Some a | _ :: r => last_rec r end.
Definition last_out (l : list arec) : option outcome := option_map ar_out (last_rec l).

(* the answer is the last attempt's, or the caller's context's; the operation returns when that attempt ended, or when the
   context ended during the following wait *)
Definition result_ok (b : basectx) (r : trun) : Prop :=
  match tr_result r with
  | TSuccess => exists a, last_rec (tr_atts r) = Some a /\ ar_out a = OSuccess /\ tr_end r = ar_end a
  | TFail o => exists a, last_rec (tr_atts r) = Some a /\ ar_out a = o /\ o <> OSuccess /\ tr_end r = ar_end a
  | TCtx kd => kd = bc_kind b /\ (exists c, bc_at b = Some c /\ c <= tr_end r) /\
               exists a, last_rec (tr_atts r) = Some a /\ ar_out a <> OSuccess /\ spec_transient (ar_out a) = true /\ ar_end a <= tr_end r
  | TNil | TOutOfFuel => False
  end.
