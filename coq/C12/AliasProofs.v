(* C12/AliasProofs.v — Add never writes through a caller-owned slice; the patch set denotes the calls' blobs as they
   were at call time, for arbitrary (overlapping) views of shared buffers. *)
From Relic Require Import Base.Prelude Base.Enc Generated.C12_gen C12.Model C12.Proofs C12.AliasModel.

Notation vok := view_ok.
Definition inv (st : state) : Prop := Forall (fun p => vok (fst st) (hp_view p)) (snd st).

Lemma read_ext h ext v : ((v_buf v < length h)%nat \/ v_len v <= 0) -> read (h ++ ext) v = read h v.
Proof.
  intros [H | H]; unfold read, buf_at.
  - rewrite app_nth1; auto.
  - rewrite !ztake_neg; auto.
Qed.
Lemma vok_ext h ext v : vok h v -> vok (h ++ ext) v.
Proof.
  intros [A B]. split.
  - destruct A; [left; rewrite app_length; lia | right; auto].
  - rewrite read_ext; auto.
Qed.
Lemma vok_nil h : vok h nil_view.
Proof. split; [right; simpl; lia | reflexivity]. Qed.
Lemma dp_ext h ext p : vok h (hp_view p) -> dp (h ++ ext) p = dp h p.
Proof. intros [A _]. unfold dp. rewrite read_ext; auto. Qed.

Lemma read_alloc h d : read (fst (alloc h d)) (snd (alloc h d)) = d.
Proof.
  unfold alloc, read, buf_at; simpl. rewrite app_nth2, Nat.sub_diag; [| lia]. simpl.
  rewrite zdrop_0. apply ztake_all. lia.
Qed.
Lemma vok_alloc h d : vok (fst (alloc h d)) (snd (alloc h d)).
Proof.
  split; [left; unfold alloc; simpl; rewrite app_length; simpl; lia |].
  rewrite read_alloc. reflexivity.
Qed.

(* the generated make length / copy offsets build exactly lastBlob ++ blob *)
Lemma fresh_merge_gen a b :
  fresh_merge (add_merge_make_len (zlen a) (zlen b) (add_new_combo (zlen a) (zlen b)))
              (add_merge_dst1 (zlen a) (zlen b)) (add_merge_dst2 (zlen a) (zlen b)) a b = a ++ b.
Proof.
  unfold fresh_merge, add_merge_make_len, add_merge_dst1, add_merge_dst2, add_new_combo.
  rewrite !Z.eqb_refl. reflexivity.
Qed.

(* the merge allocates: the heap only grows, the merged view shows lastBlob ++ blob *)
Lemma merge_sound h last blob :
  vok h last -> vok h blob ->
  exists ext, fst (merge_mode add_merge_mode h last blob) = h ++ ext /\
              vok (h ++ ext) (snd (merge_mode add_merge_mode h last blob)) /\
              read (h ++ ext) (snd (merge_mode add_merge_mode h last blob)) = read h last ++ read h blob.
Proof.
  intros [_ L] [_ B]. unfold merge_mode. change (add_merge_mode =? 0) with true. cbv iota.
  rewrite <- L, <- B, fresh_merge_gen.
  set (d := read h last ++ read h blob).
  exists [d]. split; [reflexivity |]. split.
  - exact (vok_alloc h d).
  - exact (read_alloc h d).
Qed.

Lemma dp_split h k off : map (dp h) (hsplit_pieces k off) = split_pieces k off.
Proof. revert off; induction k; intros; simpl; [reflexivity |]. rewrite IHk. reflexivity. Qed.
Lemma dp_fresh h off old bv : map (dp h) (hadd_fresh off old bv) = add_fresh off old (read h bv).
Proof. unfold hadd_fresh, add_fresh. rewrite map_app, dp_split. reflexivity. Qed.
Lemma inv_split h k off : Forall (fun p => vok h (hp_view p)) (hsplit_pieces k off).
Proof. revert off; induction k; intros; simpl; constructor; auto. apply vok_nil. Qed.
Lemma inv_fresh h off old bv : vok h bv -> Forall (fun p => vok h (hp_view p)) (hadd_fresh off old bv).
Proof. intros. unfold hadd_fresh. apply Forall_app. split; [apply inv_split | constructor; auto]. Qed.

Lemma zlen_le0_nil {A} (l : list A) : zlen l <= 0 -> l = [].
Proof. destruct l; auto. rewrite zlen_cons. pose proof (zlen_nonneg l). lia. Qed.

(* ONE Add: the heap is only extended (no byte of any existing buffer changes), the invariant is kept, and the new patch
   set denotes Model.add of the old one with the blob's current content *)
Lemma hadd_step h ps off old bv :
  inv (h, ps) -> vok h bv ->
  exists ext, fst (hadd (h, ps) off old bv) = h ++ ext /\ inv (hadd (h, ps) off old bv) /\
              denote (hadd (h, ps) off old bv) = add (denote (h, ps)) off old (read h bv).
Proof.
  intros I B. unfold inv in I; simpl in I. unfold hadd, hadd_mode, denote, add. simpl fst; simpl snd.
  rewrite <- map_rev. destruct (rev ps) as [| last fr] eqn:E.
  - exists []. rewrite app_nil_r. simpl. split; [reflexivity |]. split.
    + apply inv_fresh; auto.
    + apply dp_fresh.
  - assert (P : ps = rev fr ++ [last]) by (rewrite <- (rev_involutive ps), E; reflexivity).
    assert (IL : vok h (hp_view last)).
    { rewrite Forall_forall in I. apply I. rewrite P. apply in_or_app. right. left. reflexivity. }
    assert (IF : Forall (fun p => vok h (hp_view p)) (rev fr)).
    { rewrite P in I. apply Forall_app in I. tauto. }
    simpl map. unfold htry_coalesce, try_coalesce. unfold p_new. simpl p_off; simpl p_old; simpl p_blob.
    destruct IL as [IL1 IL2]. destruct B as [B1 B2]. rewrite IL2, B2.
    destruct (add_coalesce_cond _ _ _ _ _ _ _ _ _).
    + destruct (add_merge_guard (v_len bv)) eqn:G.
      * destruct (merge_sound h (hp_view last) bv) as [ext [M1 [M2 M3]]]; [split; auto | split; auto |].
        destruct (merge_mode add_merge_mode h (hp_view last) bv) as [h' m]. simpl in M1, M2, M3. subst h'.
        exists ext. simpl. split; [reflexivity |]. split.
        -- unfold inv; simpl. apply Forall_app. split.
           ++ eapply Forall_impl; [| exact IF]. intros. apply vok_ext; auto.
           ++ constructor; auto.
        -- rewrite map_app, map_rev. simpl. unfold dp at 2. simpl. rewrite M3.
           f_equal. rewrite <- !map_rev. apply map_ext_in. intros p Hp. apply dp_ext.
           rewrite Forall_forall in IF. apply IF; auto.
      * exists []. rewrite app_nil_r. simpl. split; [reflexivity |]. split.
        -- unfold inv; simpl. apply Forall_app. split; auto. constructor; auto. simpl. split; auto.
        -- rewrite map_app, map_rev. simpl. unfold dp at 2. simpl.
           unfold add_merge_guard in G.
           assert (Z : read h bv = []) by (apply zlen_le0_nil; lia).
           rewrite Z, app_nil_r. reflexivity.
    + exists []. rewrite app_nil_r. simpl. split; [reflexivity |]. split.
      * unfold inv; simpl. apply Forall_app. split; auto. apply inv_fresh; split; auto.
      * rewrite map_app, dp_fresh. reflexivity.
Qed.

(* the source facts the model relies on *)
Lemma add_allocates_merged_blob : add_merge_mode = 0 /\ add_writes_through_caller = false /\ add_stores_caller_slice = true.
Proof. repeat split; reflexivity. Qed.

Arguments hadd : simpl never.
(* ALL sequences of Add calls over arbitrary views of the caller's buffers h0 *)
Lemma hadd_all_from h0 cs : forall st ext0,
  fst st = h0 ++ ext0 -> inv st ->
  Forall (fun c => vok h0 (hc_view c)) cs ->
  let st' := fold_left (fun st c => hadd st (hc_off c) (hc_old c) (hc_view c)) cs st in
  (exists ext, fst st' = h0 ++ ext) /\ inv st' /\
  denote st' = fold_left (fun ps c => add ps (c_off c) (c_old c) (c_blob c)) (map (snap h0) cs) (denote st).
Proof.
  induction cs as [| c cs IH]; intros st ext0 H I F; simpl.
  - split; [exists ext0; auto | split; auto].
  - inversion F as [| ? ? Fc Fcs]; subst. destruct st as [h ps]. simpl in H. subst h.
    destruct (hadd_step (h0 ++ ext0) ps (hc_off c) (hc_old c) (hc_view c) I (vok_ext _ _ _ Fc)) as [ext [S1 [S2 S3]]].
    assert (S1' : fst (hadd (h0 ++ ext0, ps) (hc_off c) (hc_old c) (hc_view c)) = h0 ++ (ext0 ++ ext))
      by (rewrite app_assoc; exact S1).
    specialize (IH _ _ S1' S2 Fcs). cbv zeta in IH.
    destruct IH as [A [B C]]. split; auto. split; auto.
    rewrite C. f_equal. rewrite <- (read_ext h0 ext0 (hc_view c)); [exact S3 | destruct Fc; auto].
Qed.

Theorem add_never_writes_caller_bytes : forall h0 cs,
  Forall (fun c => vok h0 (hc_view c)) cs ->
  (exists ext, fst (hadd_all h0 cs) = h0 ++ ext) /\
  (forall v, ((v_buf v < length h0)%nat \/ v_len v <= 0) -> read (fst (hadd_all h0 cs)) v = read h0 v) /\
  denote (hadd_all h0 cs) = add_all (map (snap h0) cs).
Proof.
  intros h0 cs F.
  destruct (hadd_all_from h0 cs (h0, []) [] (eq_sym (app_nil_r h0)) (Forall_nil _) F) as [[ext A] [B C]].
  split; [exists ext; exact A |]. split.
  - intros v Hv. replace (fst (hadd_all h0 cs)) with (h0 ++ ext) by (symmetry; exact A). apply read_ext; auto.
  - exact C.
Qed.

(* with the rest of the pipeline (C12/Proofs.v): Mach-O style builders (any order, distinct offsets) *)
Theorem apply_anyorder_aliased : forall h0 cs file,
  Forall (fun c => vok h0 (hc_view c)) cs ->
  asc_disjoint 0 (isort (map call_patch (map (snap h0) cs))) (zlen file) = true ->
  strictly_asc (isort (map call_patch (map (snap h0) cs))) = true ->
  rewrite (isort (denote (hadd_all h0 cs))) file = Ok (splice_calls (map (snap h0) cs) file).
Proof.
  intros h0 cs file F A S. destruct (add_never_writes_caller_bytes h0 cs F) as [_ [_ D]].
  rewrite D. apply apply_anyorder; auto.
Qed.
(* builders that add in file order *)
Theorem add_fileorder_aliased : forall h0 cs file,
  Forall (fun c => vok h0 (hc_view c)) cs ->
  asc_disjoint 0 (map call_patch (map (snap h0) cs)) (zlen file) = true ->
  splice (denote (hadd_all h0 cs)) file = splice (map call_patch (map (snap h0) cs)) file.
Proof.
  intros h0 cs file F A. destruct (add_never_writes_caller_bytes h0 cs F) as [_ [_ D]].
  rewrite D. apply add_fileorder_sound; auto.
Qed.
