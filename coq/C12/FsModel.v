(* C12/FsModel.v — which file does PatchSet.Apply write to?  Executable model of the strategy choice of
   lib/binpatch Apply as a function of the FILE-SYSTEM HISTORY between opening the input and calling Apply:
   paths -> inodes -> bytes, one open handle -> inode (with the name it was opened under and its offset), and the
   operations create-by-rename / overwrite / unlink / hard-link / rename / mkdir / symlink / open / seek.
   Every decision Apply takes (default for an empty outpath, fstat of the handle vs Lstat of the path, canOverwrite,
   hasLinks, canWrite, fall-backs to applyRewrite) is the srcgen translation of the Go statements (Generated/C12_gen.v:
   apply_prefix, can_overwrite_io, has_links, apply_writes_handle, apply_truncates, rewrite_seeks_start,
   rewrite_returns_commit); the byte-level effect of the two strategies is C12/Model.v (rewrite, write_at, truncate,
   eligible_from).  Definitions only. *)
From Relic Require Import Base.Prelude Generated.C12_gen C12.Model.

(* ------------------------------------------------------------------ file-system state *)
Definition K_REG : Z := 0.     (* regular file *)
Definition K_DIR : Z := 1.     (* directory (always empty here) *)
Definition K_OTHER : Z := 2.   (* anything else a name can refer to without following it: symbolic link, fifo, ... *)

Record inode := mkInode { n_kind : Z; n_data : bytes }.
(* an os.FileInfo as far as binpatch looks at it: identity (os.SameFile), Mode().IsRegular(), Sys().Nlink, Size() *)
Record info := mkInfo { i_ino : Z; i_kind : Z; i_nlink : Z; i_size : Z }.
Definition info0 : info := mkInfo (-1) K_OTHER 0 0.   (* an os.FileInfo variable that was never assigned *)
Record handle := mkHandle { h_ino : Z; h_name : bytes; h_pos : Z; h_rw : bool }.   (* h_rw: opened O_RDWR (false: O_RDONLY) *)
Record fs := mkFs {
  f_inodes : list (Z * inode);     (* inode number -> inode; an inode without a name lives on while the handle is open *)
  f_names : list (bytes * Z);      (* directory entries of the one directory: name -> inode number *)
  f_next : Z;                      (* next unused inode number *)
  f_handle : option handle }.      (* the *os.File later given to Apply *)
Definition fs0 : fs := mkFs [] [] 1 None.

(* "./name" and "name" are the same directory entry but different strings (Apply compares strings in one place) *)
Definition canon (p : bytes) : bytes :=
  match p with a :: b :: r => if (a =? 46) && (b =? 47) then r else p | _ => p end.

Fixpoint ilookup (i : Z) (l : list (Z * inode)) : option inode :=
  match l with [] => None | (j, n) :: r => if j =? i then Some n else ilookup i r end.
Fixpoint iset (i : Z) (n : inode) (l : list (Z * inode)) : list (Z * inode) :=
  match l with [] => [(i, n)] | (j, m) :: r => if j =? i then (i, n) :: r else (j, m) :: iset i n r end.
Fixpoint nlookup (p : bytes) (l : list (bytes * Z)) : option Z :=
  match l with [] => None | (q, i) :: r => if bytes_eqb q p then Some i else nlookup p r end.
Definition nremove (p : bytes) (l : list (bytes * Z)) : list (bytes * Z) :=
  filter (fun e => negb (bytes_eqb (fst e) p)) l.
Definition nset (p : bytes) (i : Z) (l : list (bytes * Z)) : list (bytes * Z) := (p, i) :: nremove p l.
(* link count = number of directory entries that refer to the inode (0 for an unlinked, still open inode) *)
Definition nlink_of (i : Z) (l : list (bytes * Z)) : Z := zlen (filter (fun e => snd e =? i) l).

Definition lookup (s : fs) (p : bytes) : option Z := nlookup (canon p) (f_names s).
Definition kind_of (s : fs) (i : Z) : Z := match ilookup i (f_inodes s) with Some n => n_kind n | None => -1 end.
Definition data_of (s : fs) (i : Z) : bytes := match ilookup i (f_inodes s) with Some n => n_data n | None => [] end.
(* what a reader of the path sees *)
Definition read_path (s : fs) (p : bytes) : option bytes :=
  match lookup s p with
  | Some i => if kind_of s i =? K_REG then Some (data_of s i) else None
  | None => None
  end.

(* ------------------------------------------------------------------ operations before Apply *)
Inductive op :=
| OCreate (p d : bytes)      (* write d to a temporary file and rename it over p (atomicfile, editors, installers) *)
| OWrite (p d : bytes)       (* open p with O_WRONLY|O_TRUNC and write d: same inode, new content *)
| OUnlink (p : bytes)
| OLink (src dst : bytes)    (* hard link *)
| ORename (src dst : bytes)
| OMkdir (p : bytes)
| OSymlink (p : bytes)       (* dangling symbolic link at p *)
| OOpen (p : bytes)          (* os.OpenFile(p, O_RDWR): the handle later given to Apply *)
| OOpenRO (p : bytes)        (* os.Open(p): read-only handle (what relic's OpenForPatching uses when -o differs from -f) *)
| OSeek (n : Z).             (* reading through the handle leaves its offset at n *)

Definition with_names (s : fs) (l : list (bytes * Z)) : fs := mkFs (f_inodes s) l (f_next s) (f_handle s).
Definition with_inodes (s : fs) (l : list (Z * inode)) : fs := mkFs l (f_names s) (f_next s) (f_handle s).
Definition with_handle (s : fs) (h : option handle) : fs := mkFs (f_inodes s) (f_names s) (f_next s) h.
Definition alloc (s : fs) (k : Z) (d : bytes) : fs :=
  mkFs ((f_next s, mkInode k d) :: f_inodes s) (f_names s) (f_next s + 1) (f_handle s).

(* rename(2) of an entry for inode i over dst: a directory is only replaced by a directory and vice versa *)
Definition may_replace (s : fs) (i : Z) (dst : bytes) : bool :=
  match lookup s dst with
  | None => true
  | Some j => Bool.eqb (kind_of s i =? K_DIR) (kind_of s j =? K_DIR)
  end.
(* a freshly written temporary file (inode i, its own name not modelled) renamed over dst *)
Definition commit_over (s : fs) (i : Z) (dst : bytes) : option fs :=
  if may_replace s i dst then Some (with_names s (nset (canon dst) i (f_names s))) else None.

Definition step (o : op) (s : fs) : fs :=
  match o with
  | OCreate p d =>
      let s1 := alloc s K_REG d in
      match commit_over s1 (f_next s) p with Some s2 => s2 | None => s end
  | OWrite p d =>
      match lookup s p with
      | Some i => if kind_of s i =? K_REG then with_inodes s (iset i (mkInode K_REG d) (f_inodes s)) else s
      | None => s
      end
  | OUnlink p => with_names s (nremove (canon p) (f_names s))
  | OLink src dst =>
      match lookup s src, lookup s dst with
      | Some i, None => if kind_of s i =? K_DIR then s else with_names s (nset (canon dst) i (f_names s))
      | _, _ => s
      end
  | ORename src dst =>
      match lookup s src with
      | None => s
      | Some i =>
          match lookup s dst with
          | Some j => if j =? i then s   (* two names of one inode: rename does nothing *)
                      else if may_replace s i dst
                      then with_names s (nset (canon dst) i (nremove (canon src) (f_names s))) else s
          | None => with_names s (nset (canon dst) i (nremove (canon src) (f_names s)))
          end
      end
  | OMkdir p =>
      match lookup s p with
      | Some _ => s
      | None => let s1 := alloc s K_DIR [] in with_names s1 (nset (canon p) (f_next s) (f_names s1))
      end
  | OSymlink p =>
      match lookup s p with
      | Some _ => s
      | None => let s1 := alloc s K_OTHER [] in with_names s1 (nset (canon p) (f_next s) (f_names s1))
      end
  | OOpen p =>
      match lookup s p with
      | Some i => if kind_of s i =? K_REG then with_handle s (Some (mkHandle i p 0 true)) else s
      | None => s
      end
  | OOpenRO p =>
      match lookup s p with
      | Some i => if kind_of s i =? K_REG then with_handle s (Some (mkHandle i p 0 false)) else s
      | None => s
      end
  | OSeek n =>
      match f_handle s with
      | Some h => if 0 <=? n then with_handle s (Some (mkHandle (h_ino h) (h_name h) n (h_rw h))) else s
      | None => s
      end
  end.
Definition run_history (hist : list op) (s : fs) : fs := fold_left (fun s o => step o s) hist s.

(* ------------------------------------------------------------------ Apply *)
Definition stat_of (s : fs) (i : Z) : info :=
  mkInfo i (kind_of s i) (nlink_of i (f_names s)) (zlen (data_of s i)).
(* canOverwrite(ininfo, outinfo); os.SameFile compares (device, inode number) of the two stat results *)
Definition can_ow (a b : info) : bool :=
  can_overwrite_io (i_kind a =? K_REG) (i_kind b =? K_REG) (i_ino a =? i_ino b)
                   (has_links true (i_nlink a)) (has_links true (i_nlink b)).

Inductive outcome :=
| SRewrite (outpath : bytes)                           (* return p.applyRewrite(infile, outpath) *)
| SInplace (outpath : bytes) (ininfo outinfo : info) (size : Z)   (* control reaches the eligibility loop *)
| SReturn (err : bool).                                (* any other return before the loop *)

Definition strategy (s : fs) (h : handle) (outpath : bytes) : outcome :=
  apply_prefix SRewrite SInplace SReturn
    (stat_of s (h_ino h)) false                                              (* infile.Stat() *)
    (fun p => match lookup s p with Some i => stat_of s i | None => info0 end)   (* os.Lstat(p) *)
    (fun p => match lookup s p with Some _ => false | None => true end)
    can_ow i_size info0 (h_rw h)                                            (* canWrite(infile): F_GETFL access mode *)
    (h_name h) outpath.

Definition E_RENAME := 5.     (* the final rename of applyRewrite fails (destination is a directory) *)
Definition E_NOHANDLE := 6.
Definition E_BADF := 7.       (* WriteAt / Truncate on a handle that was not opened for writing *)
Definition E_OTHER := 9.

(* applyRewrite(infile, outpath): read the handle from the start, splice sequentially into a temporary file,
   rename it over outpath; on any error the temporary file is discarded and nothing else has changed *)
Definition do_rewrite (ps : list patch) (s : fs) (h : handle) (outpath : bytes) : result fs :=
  let whole := data_of s (h_ino h) in
  let src := if rewrite_seeks_start then whole else zdrop (h_pos h) whole in
  d <- rewrite ps src ;;
  match commit_over (alloc s K_REG d) (f_next s) outpath with
  | Some s2 => Ok s2
  | None => if rewrite_returns_commit then Err E_RENAME else Ok s
  end.

Definition inplace_data (ps : list patch) (file : bytes) (size : Z) : bytes :=
  let w := if apply_writes_handle then fold_left (fun f p => write_at f (p_off p) (p_blob p)) ps file else file in
  if apply_truncates then truncate w size else w.

(* did Apply write through the handle (true) or go through write-then-rename (false)? *)
Definition chose_inplace (ps : list patch) (outpath : bytes) (s : fs) : bool :=
  match f_handle s with
  | None => false
  | Some h =>
      match strategy s h outpath with
      | SInplace _ ininfo _ size =>
          match eligible_from 0 (zlen ps) ps (i_size ininfo) size with Some _ => true | None => false end
      | _ => false
      end
  end.

Definition apply_fs (ps : list patch) (outpath : bytes) (s : fs) : result fs :=
  match f_handle s with
  | None => Err E_NOHANDLE
  | Some h =>
      match strategy s h outpath with
      | SReturn e => if e then Err E_OTHER else Ok s
      | SRewrite op => do_rewrite ps s h op
      | SInplace op ininfo outinfo size =>
          match eligible_from 0 (zlen ps) ps (i_size ininfo) size with
          | None => do_rewrite ps s h op
          | Some sz =>
              let i := h_ino h in
              if h_rw h
              then Ok (with_inodes s (iset i (mkInode (kind_of s i) (inplace_data ps (data_of s i) sz)) (f_inodes s)))
              else Err E_BADF
          end
      end
  end.

(* ------------------------------------------------------------------ SPEC (from the property text and the
   documentation of Apply / Transformer.Apply: "writing the result to outpath"; an empty outpath means the name the
   input was opened under).  Independent of the strategy: the file NAMED by the output path afterwards holds the
   bytes of the file the HANDLE refers to, with each listed range replaced. *)
Definition spec_outpath (outpath hname : bytes) : bytes := match outpath with [] => hname | _ => outpath end.
Definition spec_content (ps : list patch) (s : fs) : option bytes :=
  match f_handle s with Some h => Some (splice ps (data_of s (h_ino h))) | None => None end.
(* writing through the handle is only the same thing as writing to the path when the handle's inode IS what the
   path names, and touches no other name only when that is its single link *)
Definition spec_inplace_allowed (outpath : bytes) (s : fs) : bool :=
  match f_handle s with
  | Some h =>
      match lookup s (spec_outpath outpath (h_name h)) with
      | Some i => (i =? h_ino h) && (nlink_of (h_ino h) (f_names s) =? 1)
      | None => false
      end
  | None => false
  end.
