(* C12/Run.v — evaluation of the model on harness cases (correspondence + spec oracle). *)
From Relic Require Import Base.Prelude Base.Enc Base.Val Generated.C12_gen C12.Model C12.FsModel C12.AliasModel.

Definition hdr (p : patch) : Z * Z * Z := (p_off p, p_old p, p_new p).
Definition hdr_eqb (a b : Z * Z * Z) : bool :=
  let '(x1, y1, z1) := a in let '(x2, y2, z2) := b in (x1 =? x2) && (y1 =? y2) && (z1 =? z2).
Definition vhdr (v : val) : Z * Z * Z := (vz (vnth 0 v), vz (vnth 1 v), vz (vnth 2 v)).
Definition vcall (v : val) : call := mkCall (vz (vnth 0 v)) (vz (vnth 1 v)) (vb (vnth 2 v)).

(* domain of the property: the sorted call list is ascending, disjoint, inside the file, and the patch set
   the calls produce has pairwise distinct offsets (so the unstable sort of Dump is deterministic) *)
Definition sort_deterministic (cs : list call) : bool := strictly_asc (isort (add_all cs)).
(* calls either come in file order (then equal offsets are consecutive and coalesce), or in any order with
   pairwise distinct start offsets (the Mach-O builder) *)
Definition in_domain (cs : list call) (file : bytes) : bool :=
  asc_disjoint 0 (isort (map call_patch cs)) (zlen file) && sort_deterministic cs
  && (nondecreasing (map call_patch cs) || strictly_asc (isort (map call_patch cs))).

Definition status_of (r : result bytes) : Z :=
  match r with Ok _ => 0 | Err e => e | Panic _ => 99 end.

(* input: [file calls dest_exists same links  o_patches o_dump o_load_err o_loaded o_status o_out o_renamed]
   output: [ [failed-check codes] in_domain ]
   codes: 1 headers after Add, 2 Dump bytes, 3 Load, 4 Apply status, 5 Apply bytes, 6 rename path,
          7 SPEC: in-domain case did not produce the reference splice *)
Definition check_case (v : val) : list Z * bool :=
  let file := vb (vnth 0 v) in
  let cs := map vcall (vl (vnth 1 v)) in
  let dest_exists := vbool (vnth 2 v) in
  let same := vbool (vnth 3 v) in
  let links := vbool (vnth 4 v) in
  let o_patches := map vhdr (vl (vnth 5 v)) in
  let o_dump := vb (vnth 6 v) in
  let o_load_err := vz (vnth 7 v) in
  let o_loaded := map vhdr (vl (vnth 8 v)) in
  let o_status := vz (vnth 9 v) in
  let o_out := vb (vnth 10 v) in
  let o_renamed := vbool (vnth 11 v) in
  let ps := add_all cs in
  let dom := in_domain cs file in
  let c1 := if list_eqb hdr_eqb (map hdr ps) o_patches then [] else [1] in
  if negb (sort_deterministic cs) then (c1, dom) else
  let d := dump ps in
  let c2 := if bytes_eqb d o_dump then [] else [2] in
  let l := load o_dump in
  let c3 := match l with
            | Ok q => if (o_load_err =? 0) && list_eqb hdr_eqb (map hdr q) o_loaded then [] else [3]
            | Err e => if o_load_err =? e then [] else [3]
            | Panic _ => [3] end in
  match l with
  | Ok q =>
      let r := apply dest_exists true same links q file in
      let c4 := if status_of r =? o_status then [] else [4] in
      let c5 := match r with Ok b => if bytes_eqb b o_out then [] else [5] | _ => [] end in
      let c6 := match r with
                | Ok _ => if Bool.eqb (apply_renames dest_exists true same links q file) o_renamed then [] else [6]
                | _ => [] end in
      let c7 := if dom then
                  if (o_status =? 0) && bytes_eqb o_out (splice_calls cs file) then [] else [7]
                else [] in
      (c1 ++ c2 ++ c3 ++ c4 ++ c5 ++ c6 ++ c7, dom)
  | _ => (c1 ++ c2 ++ c3, dom)
  end.

(* merge every run of adjacent headers (unbounded sizes): the set of replaced ranges a header list denotes *)
Fixpoint merge_runs (l : list (Z * Z * Z)) : list (Z * Z * Z) :=
  match l with
  | [] => []
  | (o, a, b) :: r =>
      match merge_runs r with
      | (o2, a2, b2) :: r2 => if o + a =? o2 then (o, a + a2, b + b2) :: r2 else (o, a, b) :: (o2, a2, b2) :: r2
      | [] => [(o, a, b)]
      end
  end.
(* header-only cases (> 4 GiB, calls in file order): input [calls o_patches]
   codes: 1 model headers differ; 7 SPEC: observed headers do not denote the ranges the calls asked for *)
Definition check_headers (v : val) : list Z :=
  let cs := map vcall (vl (vnth 0 v)) in
  let obs := map vhdr (vl (vnth 1 v)) in
  let ps := add_all cs in
  (if list_eqb hdr_eqb (map hdr ps) obs then [] else [1]) ++
  (if list_eqb hdr_eqb (merge_runs obs) (merge_runs (map (fun c => (c_off c, c_old c, zlen (c_blob c))) cs)) then [] else [7]).

(* ------------------------------------------------------------------ histories (C12/FsModel.v)
   input  [ops patches outpath]   ops: [tag a b n], tag 1 create 2 write 3 unlink 4 link 5 rename 6 mkdir 7 symlink 8 open 9 seek 10 open read-only
   output [status chose_inplace in_domain spec_inplace_allowed handle_bytes_before spec_bytes effective_outpath
           listing_after handle_bytes_after]   listing: [name kind bytes is_handle_inode nlink] per directory entry *)
Definition vop (v : val) : op :=
  let t := vz (vnth 0 v) in let a := vb (vnth 1 v) in let b := vb (vnth 2 v) in let n := vz (vnth 3 v) in
  if t =? 1 then OCreate a b else if t =? 2 then OWrite a b else if t =? 3 then OUnlink a else
  if t =? 4 then OLink a b else if t =? 5 then ORename a b else if t =? 6 then OMkdir a else
  if t =? 7 then OSymlink a else if t =? 8 then OOpen a else if t =? 10 then OOpenRO a else OSeek n.
Definition vpatch (v : val) : patch := mkPatch (vz (vnth 0 v)) (vz (vnth 1 v)) (vb (vnth 2 v)).
Definition status_fs (r : result fs) : Z := match r with Ok _ => 0 | Err e => e | Panic _ => 99 end.
Definition listing (s : fs) (hi : Z) : val :=
  VL (map (fun e => VL [VB (fst e); VZ (kind_of s (snd e)); VB (data_of s (snd e)); of_bool (snd e =? hi);
                        VZ (nlink_of (snd e) (f_names s))]) (f_names s)).
Definition run_history_case (v : val) : val :=
  let hist := map vop (vl (vnth 0 v)) in
  let ps := map vpatch (vl (vnth 1 v)) in
  let outpath := vb (vnth 2 v) in
  let s := run_history hist fs0 in
  match f_handle s with
  | None => VL [VZ E_NOHANDLE]
  | Some h =>
      let file := data_of s (h_ino h) in
      let r := apply_fs ps outpath s in
      let s' := match r with Ok x => x | _ => s end in
      VL [VZ (status_fs r); of_bool (chose_inplace ps outpath s); of_bool (asc_disjoint 0 ps (zlen file));
          of_bool (spec_inplace_allowed outpath s); VB file; VB (splice ps file);
          VB (canon (spec_outpath outpath (h_name h))); listing s' (h_ino h); VB (data_of s' (h_ino h))]
  end.

(* ------------------------------------------------------------------ aliased blobs (C12/AliasModel.v)
   input  [bufs calls file]   calls: [off old buf i j k]  = Add(off, old, bufs[buf][i:j:k])
   output [patches buffers_after status out spec in_domain views_ok]   patches: [off old new blob] in Add order *)
Definition vhcall (v : val) : hcall :=
  let i := vz (vnth 3 v) in
  mkHC (vz (vnth 0 v)) (vz (vnth 1 v)) (mkView (Z.to_nat (vz (vnth 2 v))) i (vz (vnth 4 v) - i) (vz (vnth 5 v) - i)).
Definition run_alias_case (v : val) : val :=
  let h0 := map vb (vl (vnth 0 v)) in
  let cs := map vhcall (vl (vnth 1 v)) in
  let file := vb (vnth 2 v) in
  let st := hadd_all h0 cs in
  let ps := denote st in
  let snaps := map (snap h0) cs in
  let r := rewrite (isort ps) file in
  VL [VL (map (fun p => VL [VZ (p_off p); VZ (p_old p); VZ (p_new p); VB (p_blob p)]) ps);
      VL (map VB (firstn (length h0) (fst st)));
      VZ (status_of r); VB (match r with Ok b => b | _ => [] end);
      VB (splice_calls snaps file); of_bool (in_domain snaps file);
      of_bool (forallb (fun c => view_okb h0 (hc_view c)) cs)].

(* entry point: [0 case], [1 hdrcase], [2 histcase] or [3 aliascase] *)
Definition run (v : val) : val :=
  if vz (vnth 0 v) =? 0 then
    let '(codes, dom) := check_case (vnth 1 v) in VL [VZs codes; of_bool dom]
  else if vz (vnth 0 v) =? 2 then run_history_case (vnth 1 v)
  else if vz (vnth 0 v) =? 3 then run_alias_case (vnth 1 v)
  else VL [VZs (check_headers (vnth 1 v)); VZ 0].
