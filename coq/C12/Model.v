(* C12/Model.v — executable model of lib/binpatch (Add, Dump, Load, Apply) and the reference splice.
   Definitions only; constants and branch conditions come from Generated/C12_gen.v (srcgen). *)
From Relic Require Import Base.Prelude Base.Enc Generated.C12_gen.

Record patch := mkPatch { p_off : Z; p_old : Z; p_blob : bytes }.
Definition p_new (p : patch) : Z := zlen (p_blob p).
Definition p_end (p : patch) : Z := p_off p + p_old p.

(* ------------------------------------------------------------------ Add *)
(* The Go PatchSet appends at the end; the model keeps the list in the same order. *)

(* the 4 GiB splitting loop: k pieces of (off + i*M, M, []) then the remainder *)
Definition split_count (old : Z) : Z :=
  if add_split_cond old then (old - 1) / uint32Max else 0.
Fixpoint split_pieces (k : nat) (off : Z) : list patch :=
  match k with
  | O => []
  | S k' => mkPatch off uint32Max [] :: split_pieces k' (off + uint32Max)
  end.
Definition add_fresh (off old : Z) (blob : bytes) : list patch :=
  let k := split_count old in
  split_pieces (Z.to_nat k) off ++ [mkPatch (off + k * uint32Max) (old - k * uint32Max) blob].

Definition try_coalesce (last : patch) (off old : Z) (blob : bytes) : option patch :=
  let last_end := add_last_end (p_off last) (p_old last) in
  let old_combo := add_old_combo (p_old last) old in
  let new_combo := add_new_combo (p_new last) (zlen blob) in
  if add_coalesce_cond off last_end old_combo new_combo old (zlen blob) (p_off last) (p_old last) (p_new last)
  then Some (mkPatch (p_off last) old_combo (p_blob last ++ blob))
  else None.

Definition add (ps : list patch) (off old : Z) (blob : bytes) : list patch :=
  match rev ps with
  | last :: front_rev =>
      match try_coalesce last off old blob with
      | Some m => rev front_rev ++ [m]
      | None => ps ++ add_fresh off old blob
      end
  | [] => add_fresh off old blob
  end.

Record call := mkCall { c_off : Z; c_old : Z; c_blob : bytes }.
Definition add_all (cs : list call) : list patch :=
  fold_left (fun ps c => add ps (c_off c) (c_old c) (c_blob c)) cs [].

(* ------------------------------------------------------------------ sort (stable insertion sort by offset) *)
Fixpoint insert (p : patch) (l : list patch) : list patch :=
  match l with
  | [] => [p]
  | q :: r => if p_off q <? p_off p then q :: insert p r else p :: l
  end.
Definition isort (l : list patch) : list patch := fold_right insert [] l.

(* ------------------------------------------------------------------ Dump / Load *)
Definition enc_header (p : patch) : bytes :=
  be_enc 8 (p_off p) ++ be_enc 4 (p_old p) ++ be_enc 4 (p_new p).
Definition dump_sorted (ps : list patch) : bytes :=
  be_enc 4 1 ++ be_enc 4 (zlen ps) ++ concat (map enc_header ps) ++ concat (map p_blob ps).
Definition dump (ps : list patch) : bytes := dump_sorted (isort ps).

Definition E_SHORT := 1.     (* unexpected EOF / EOF while reading *)
Definition E_VERSION := 2.
Definition E_ORDER := 3.     (* "patches out of order" *)
Definition E_COPY := 4.      (* CopyN hit EOF *)

(* signed int64 from 8 big-endian bytes *)
Definition to_i64 (n : Z) : Z := if n >=? 2 ^ 63 then n - 2 ^ 64 else n.

Fixpoint read_headers (n : nat) (l : bytes) : result (list (Z * Z * Z) * bytes) :=
  match n with
  | O => Ok ([], l)
  | S n' =>
      if zlen l <? ph_size then Err E_SHORT else
      let off := to_i64 (be_dec (zslice 0 8 l)) in
      let old := be_dec (zslice 8 12 l) in
      let new := be_dec (zslice 12 16 l) in
      r <- read_headers n' (zdrop ph_size l) ;;
      Ok ((off, old, new) :: fst r, snd r)
  end.
Fixpoint read_blobs (hs : list (Z * Z * Z)) (l : bytes) : result (list patch) :=
  match hs with
  | [] => Ok []
  | (off, old, new) :: hs' =>
      if zlen l <? new then Err E_SHORT else
      r <- read_blobs hs' (zdrop new l) ;;
      Ok (mkPatch off old (ztake new l) :: r)
  end.
Definition load (l : bytes) : result (list patch) :=
  if zlen l <? psh_size then Err E_SHORT else
  let version := be_dec (zslice 0 4 l) in
  let num := be_dec (zslice 4 8 l) in
  if load_version_bad version then Err E_VERSION else
  r <- read_headers (Z.to_nat num) (zdrop psh_size l) ;;
  read_blobs (fst r) (snd r).

(* ------------------------------------------------------------------ Apply *)
(* write-then-rename: sequential copy; pos is the read position in the input *)
Fixpoint rewrite_from (pos : Z) (ps : list patch) (file : bytes) : result bytes :=
  match ps with
  | [] => Ok (zdrop pos file)
  | p :: ps' =>
      let delta := p_off p - pos in
      if rewrite_out_of_order delta then Err E_ORDER else
      if rewrite_copy_before delta && (zlen file <? pos + delta) then Err E_COPY else
      r <- rewrite_from (p_off p + p_old p) ps' file ;;
      Ok ((if rewrite_copy_before delta then zslice pos (p_off p) file else []) ++ p_blob p ++ r)
  end.
Definition rewrite (ps : list patch) (file : bytes) : result bytes := rewrite_from 0 ps file.

(* in place: WriteAt each blob (extending with zeros), then Truncate *)
Definition write_at (file : bytes) (off : Z) (blob : bytes) : bytes :=
  match blob with
  | [] => file
  | _ => let padded := file ++ repeat 0 (Z.to_nat (off - zlen file)) in
         ztake off padded ++ blob ++ zdrop (off + zlen blob) padded
  end.
Definition truncate (file : bytes) (size : Z) : bytes :=
  ztake size file ++ repeat 0 (Z.to_nat (size - zlen file)).

(* the eligibility loop of Apply: None = fall back to rewrite, Some size = in place with final size *)
Fixpoint eligible_from (i n : Z) (ps : list patch) (in_size size : Z) : option Z :=
  match ps with
  | [] => Some size
  | p :: ps' =>
      if apply_same_size (p_old p) (p_new p) then eligible_from (i + 1) n ps' in_size size
      else if apply_not_last i n then None
      else if apply_not_at_eof (apply_old_end (p_off p) (p_old p)) in_size then None
      else eligible_from (i + 1) n ps' in_size (apply_new_size (p_off p) (p_new p))
  end.
Definition eligible (ps : list patch) (file : bytes) : option Z :=
  eligible_from 0 (zlen ps) ps (zlen file) (zlen file).
Definition inplace (ps : list patch) (file : bytes) (size : Z) : bytes :=
  truncate (fold_left (fun f p => write_at f (p_off p) (p_blob p)) ps file) size.

(* Apply(infile, outpath): is_regular/same_file/has_links describe outpath relative to infile *)
Definition apply (dest_exists is_regular same_file has_links : bool) (ps : list patch) (file : bytes) : result bytes :=
  if dest_exists && can_overwrite is_regular same_file has_links then
    match eligible ps file with
    | Some size => Ok (inplace ps file size)
    | None => rewrite ps file
    end
  else rewrite ps file.
(* did Apply go through the rename path? (observable: inode changes) *)
Definition apply_renames (dest_exists is_regular same_file has_links : bool) (ps : list patch) (file : bytes) : bool :=
  negb (dest_exists && can_overwrite is_regular same_file has_links &&
        match eligible ps file with Some _ => true | None => false end).

(* ------------------------------------------------------------------ reference semantics *)
Definition replace1 (off old : Z) (blob : bytes) (file : bytes) : bytes :=
  ztake off file ++ blob ++ zdrop (off + old) file.
(* right-to-left application of a list given in ascending offset order *)
Definition splice (ps : list patch) (file : bytes) : bytes :=
  fold_right (fun p f => replace1 (p_off p) (p_old p) (p_blob p) f) file ps.
Definition call_patch (c : call) : patch := mkPatch (c_off c) (c_old c) (c_blob c).
Definition splice_calls (cs : list call) (file : bytes) : bytes := splice (isort (map call_patch cs)) file.

(* the builder domain: ranges inside the file, pairwise disjoint, ascending after sorting,
   and distinct start offsets except for an immediately following adjacent call *)
Fixpoint asc_disjoint (pos : Z) (ps : list patch) (flen : Z) : bool :=
  match ps with
  | [] => true
  | p :: r => (pos <=? p_off p) && (0 <=? p_old p) && (p_off p + p_old p <=? flen)
              && asc_disjoint (p_off p + p_old p) r flen
  end.
Fixpoint strictly_asc (ps : list patch) : bool :=
  match ps with
  | p :: ((q :: _) as r) => (p_off p <? p_off q) && strictly_asc r
  | _ => true
  end.

Fixpoint nondecreasing (ps : list patch) : bool :=
  match ps with
  | p :: ((q :: _) as r) => (p_off p <=? p_off q) && nondecreasing r
  | _ => true
  end.
(* fields representable in the wire format *)
Definition patch_ok (p : patch) : Prop :=
  0 <= p_off p < 2 ^ 63 /\ 0 <= p_old p < 2 ^ 32 /\ zlen (p_blob p) < 2 ^ 32 /\ all_bytes (p_blob p) = true.
