(* C12/Proofs.v — lemmas behind C12/Properties.v *)
From Relic Require Import Base.Prelude Base.Enc Generated.C12_gen C12.Model.
From Coq Require Import Permutation.

(* ------------------------------------------------------------------ list / slice helpers *)
Lemma zdrop_ztake {A} a b (l : list A) : 0 <= a -> zdrop a (ztake b l) = ztake (b - a) (zdrop a l).
Proof.
  intros Ha. unfold zdrop, ztake. rewrite skipn_firstn_comm. f_equal. lia.
Qed.
Lemma ztake_ztake {A} a b (l : list A) : a <= b -> ztake a (ztake b l) = ztake a l.
Proof.
  intros H. unfold ztake. rewrite firstn_firstn. f_equal. lia.
Qed.
Lemma ztake_le {A} a b (x y : list A) : a <= b -> ztake b x = ztake b y -> ztake a x = ztake a y.
Proof.
  intros H E. rewrite <- (ztake_ztake a b x), <- (ztake_ztake a b y) by exact H. now rewrite E.
Qed.
Lemma ztake_app_exact {A} n (a b : list A) : zlen a = n -> ztake n (a ++ b) = a.
Proof.
  intros H. rewrite ztake_app_l by lia. apply ztake_all. lia.
Qed.
Lemma zdrop_app_exact {A} n (a b : list A) : zlen a = n -> zdrop n (a ++ b) = b.
Proof.
  intros H. rewrite zdrop_app_r by lia. replace (n - zlen a) with 0 by lia. apply zdrop_0.
Qed.
Lemma zlen_ztake_le {A} n (l : list A) : zlen (ztake n l) <= zlen l.
Proof. unfold zlen, ztake. rewrite firstn_length. lia. Qed.
Lemma zlen_ztake_min {A} n (l : list A) : 0 <= n -> zlen (ztake n l) = Z.min n (zlen l).
Proof. intros H. unfold zlen, ztake. rewrite firstn_length. lia. Qed.
Lemma zlen_zdrop_gen {A} n (l : list A) : 0 <= n -> zlen (zdrop n l) = Z.max 0 (zlen l - n).
Proof. intros H. unfold zlen, zdrop. rewrite skipn_length. lia. Qed.
Lemma zlen_repeat {A} (x : A) n : zlen (repeat x n) = Z.of_nat n.
Proof. unfold zlen. now rewrite repeat_length. Qed.
Lemma zlen_0_nil {A} (l : list A) : zlen l = 0 -> l = [].
Proof. destruct l; [reflexivity|]. rewrite zlen_cons. pose proof (zlen_nonneg l). lia. Qed.

(* ------------------------------------------------------------------ splice / asc_disjoint basics *)
Lemma splice_cons p r f : splice (p :: r) f = replace1 (p_off p) (p_old p) (p_blob p) (splice r f).
Proof. reflexivity. Qed.
Lemma splice_app a b f : splice (a ++ b) f = splice a (splice b f).
Proof. unfold splice. apply fold_right_app. Qed.

Lemma asc_cons pos p r flen :
  asc_disjoint pos (p :: r) flen = true <->
  (pos <= p_off p /\ 0 <= p_old p /\ p_off p + p_old p <= flen /\
   asc_disjoint (p_off p + p_old p) r flen = true).
Proof. cbn [asc_disjoint]. rewrite !andb_true_iff, !Z.leb_le. tauto. Qed.

Fixpoint endpos (pos : Z) (ps : list patch) : Z :=
  match ps with [] => pos | p :: r => endpos (p_off p + p_old p) r end.

Lemma asc_app pos a b flen :
  asc_disjoint pos (a ++ b) flen = true <->
  (asc_disjoint pos a flen = true /\ asc_disjoint (endpos pos a) b flen = true).
Proof.
  revert pos; induction a as [|p a IH]; intros pos.
  - cbn [app endpos asc_disjoint]. tauto.
  - rewrite <- app_comm_cons, !asc_cons, IH. cbn [endpos]. tauto.
Qed.
Lemma asc_endpos_ge pos a flen : asc_disjoint pos a flen = true -> pos <= endpos pos a.
Proof.
  revert pos; induction a as [|p a IH]; intros pos H; cbn [endpos]; [lia|].
  apply asc_cons in H as (H1 & H2 & H3 & H4). specialize (IH _ H4). lia.
Qed.
Lemma asc_endpos_le pos a flen : asc_disjoint pos a flen = true -> pos <= flen -> endpos pos a <= flen.
Proof.
  revert pos; induction a as [|p a IH]; intros pos H Hp; cbn [endpos]; [lia|].
  apply asc_cons in H as (H1 & H2 & H3 & H4). apply IH; assumption.
Qed.
Lemma asc_shrink pos a flen m :
  asc_disjoint pos a flen = true -> endpos pos a <= m -> asc_disjoint pos a m = true.
Proof.
  revert pos; induction a as [|p a IH]; intros pos H Hm; [reflexivity|].
  apply asc_cons in H as (H1 & H2 & H3 & H4). cbn [endpos] in Hm.
  apply asc_cons. pose proof (asc_endpos_ge _ _ _ H4). repeat split; try lia. now apply IH.
Qed.

Lemma splice_shape ps : forall f pos,
  0 <= pos <= zlen f -> asc_disjoint pos ps (zlen f) = true ->
  ztake pos (splice ps f) = ztake pos f /\ pos <= zlen (splice ps f).
Proof.
  induction ps as [|p r IH]; intros f pos Hpos H.
  - cbn. split; [reflexivity|lia].
  - apply asc_cons in H as (H1 & H2 & H3 & H4).
    destruct (IH f (p_off p + p_old p)) as [E L]; [lia|assumption|].
    rewrite splice_cons. unfold replace1. set (S := splice r f) in *.
    assert (Ht : zlen (ztake (p_off p) S) = p_off p) by (apply zlen_ztake; lia).
    split.
    + rewrite ztake_app_l by lia. rewrite ztake_ztake by lia.
      apply (ztake_le pos (p_off p + p_old p)); [lia|exact E].
    + rewrite zlen_app, Ht. pose proof (zlen_nonneg (p_blob p ++ zdrop (p_off p + p_old p) S)). lia.
Qed.

(* ------------------------------------------------------------------ 1. rewrite = splice *)
Lemma rewrite_from_sorted ps : forall file pos,
  0 <= pos -> asc_disjoint pos ps (zlen file) = true ->
  rewrite_from pos ps file = Ok (zdrop pos (splice ps file)).
Proof.
  induction ps as [|p r IH]; intros f pos Hpos H.
  - reflexivity.
  - apply asc_cons in H as (H1 & H2 & H3 & H4).
    cbn [rewrite_from]. unfold rewrite_out_of_order, rewrite_copy_before.
    replace (p_off p - pos <? 0) with false by lia.
    replace (zlen f <? pos + (p_off p - pos)) with false by lia.
    rewrite andb_false_r. rewrite IH by (assumption || lia). cbn [bind].
    destruct (splice_shape r f (p_off p + p_old p)) as [E L]; [lia|assumption|].
    rewrite splice_cons. unfold replace1. set (S := splice r f) in *.
    assert (Et : ztake (p_off p) S = ztake (p_off p) f)
      by (apply (ztake_le _ (p_off p + p_old p)); [lia|exact E]).
    assert (Ht : zlen (ztake (p_off p) S) = p_off p) by (apply zlen_ztake; lia).
    f_equal. rewrite zdrop_app_l by lia. f_equal.
    rewrite Et, zdrop_ztake by lia.
    destruct (p_off p - pos >? 0) eqn:D.
    + reflexivity.
    + rewrite ztake_neg by lia. reflexivity.
Qed.

Lemma rewrite_sorted : forall ps file,
  asc_disjoint 0 ps (zlen file) = true -> rewrite ps file = Ok (splice ps file).
Proof.
  intros ps file H. unfold rewrite. rewrite rewrite_from_sorted by (assumption || lia).
  now rewrite zdrop_0.
Qed.

(* ------------------------------------------------------------------ sortedness *)
Lemma nondecreasing_cons a r :
  nondecreasing (a :: r) = true <->
  (Forall (fun b => p_off a <= p_off b) r /\ nondecreasing r = true).
Proof.
  revert a; induction r as [|q r IH]; intros a.
  - cbn. split; [intros _; split; [constructor|reflexivity]|reflexivity].
  - change (nondecreasing (a :: q :: r)) with ((p_off a <=? p_off q) && nondecreasing (q :: r)).
    rewrite andb_true_iff, Z.leb_le. split.
    + intros [H1 H2]. split; [|exact H2]. constructor; [exact H1|].
      apply IH in H2 as [H2 _]. eapply Forall_impl; [|exact H2]. cbn. intros; lia.
    + intros [H1 H2]. inversion H1; subst. tauto.
Qed.
Lemma strictly_asc_cons a r :
  strictly_asc (a :: r) = true <->
  (Forall (fun b => p_off a < p_off b) r /\ strictly_asc r = true).
Proof.
  revert a; induction r as [|q r IH]; intros a.
  - cbn. split; [intros _; split; [constructor|reflexivity]|reflexivity].
  - change (strictly_asc (a :: q :: r)) with ((p_off a <? p_off q) && strictly_asc (q :: r)).
    rewrite andb_true_iff, Z.ltb_lt. split.
    + intros [H1 H2]. split; [|exact H2]. constructor; [exact H1|].
      apply IH in H2 as [H2 _]. eapply Forall_impl; [|exact H2]. cbn. intros; lia.
    + intros [H1 H2]. inversion H1; subst. tauto.
Qed.

Lemma insert_perm p l : Permutation (insert p l) (p :: l).
Proof.
  induction l as [|q r IH]; cbn [insert]; [reflexivity|].
  destruct (p_off q <? p_off p); [|reflexivity].
  rewrite IH. apply perm_swap.
Qed.
Lemma isort_perm l : Permutation (isort l) l.
Proof.
  induction l as [|p l IH]; [reflexivity|].
  change (isort (p :: l)) with (insert p (isort l)). rewrite insert_perm. now constructor.
Qed.
Lemma insert_sorted p l : nondecreasing l = true -> nondecreasing (insert p l) = true.
Proof.
  induction l as [|q r IH]; intros H; [reflexivity|].
  cbn [insert]. destruct (p_off q <? p_off p) eqn:E.
  - apply nondecreasing_cons in H as [H1 H2]. apply nondecreasing_cons. split; [|now apply IH].
    eapply Permutation_Forall; [symmetry; apply insert_perm|]. constructor; [lia|exact H1].
  - apply nondecreasing_cons. split; [|exact H].
    apply nondecreasing_cons in H as [H1 H2]. constructor; [lia|].
    eapply Forall_impl; [|exact H1]. cbn. intros; lia.
Qed.
Lemma isort_sorted l : nondecreasing (isort l) = true.
Proof.
  induction l as [|p l IH]; [reflexivity|].
  change (isort (p :: l)) with (insert p (isort l)). now apply insert_sorted.
Qed.
Lemma isort_id l : nondecreasing l = true -> isort l = l.
Proof.
  induction l as [|p l IH]; intros H; [reflexivity|].
  change (isort (p :: l)) with (insert p (isort l)).
  apply nondecreasing_cons in H as [H1 H2]. rewrite IH by exact H2.
  destruct l as [|q r]; [reflexivity|]. cbn [insert]. inversion H1; subst.
  replace (p_off q <? p_off p) with false by lia. reflexivity.
Qed.

Lemma sorted_unique : forall b a,
  Permutation a b -> nondecreasing a = true -> strictly_asc b = true -> a = b.
Proof.
  induction b as [|y b IH]; intros a HP Ha Hb.
  - apply Permutation_sym, Permutation_nil in HP. exact HP.
  - destruct a as [|x a]; [apply Permutation_nil in HP; discriminate|].
    apply nondecreasing_cons in Ha as [Ha1 Ha2]. apply strictly_asc_cons in Hb as [Hb1 Hb2].
    assert (Hx : In x (y :: b)) by (eapply Permutation_in; [exact HP|now left]).
    destruct Hx as [Hx|Hx].
    + subst y. f_equal. apply IH; [|assumption|assumption]. eapply Permutation_cons_inv; exact HP.
    + exfalso. rewrite Forall_forall in Hb1, Ha1. specialize (Hb1 _ Hx).
      assert (Hy : In y (x :: a)) by (eapply Permutation_in; [symmetry; exact HP|now left]).
      destruct Hy as [Hy|Hy]; [subst; lia|]. specialize (Ha1 _ Hy). lia.
Qed.

(* ------------------------------------------------------------------ 3. sort uniqueness *)
Lemma sorted_perm_unique : forall q ps,
  Permutation q ps -> nondecreasing q = true -> strictly_asc (isort ps) = true -> q = isort ps.
Proof.
  intros q ps HP Hq Hs. apply sorted_unique; [|assumption|assumption].
  rewrite HP. symmetry. apply isort_perm.
Qed.

Lemma asc_all_ge ps : forall pos flen, asc_disjoint pos ps flen = true ->
  Forall (fun b => pos <= p_off b) ps.
Proof.
  induction ps as [|q r IH]; intros e flen H; [constructor|].
  apply asc_cons in H as (H1 & H2 & H3 & H4). constructor; [lia|].
  eapply Forall_impl; [|eapply IH; exact H4]. cbn. intros; lia.
Qed.
Lemma asc_nondecreasing ps : forall pos flen, asc_disjoint pos ps flen = true -> nondecreasing ps = true.
Proof.
  induction ps as [|p r IH]; intros pos flen H; [reflexivity|].
  apply asc_cons in H as (H1 & H2 & H3 & H4). apply nondecreasing_cons. split; [|eapply IH; eassumption].
  eapply Forall_impl; [|eapply asc_all_ge; exact H4]. cbn. intros; lia.
Qed.
