(* C12/Proofs.v — lemmas behind C12/Properties.v *)
From Relic Require Import Base.Prelude Base.Enc Generated.C12_gen C12.Model.
From Coq Require Import Permutation.

(* ------------------------------------------------------------------ list / slice helpers *)
Lemma zdrop_ztake {A} a b (l : list A) : 0 <= a -> zdrop a (ztake b l) = ztake (b - a) (zdrop a l).
Proof.
  intros Ha. unfold zdrop, ztake. rewrite skipn_firstn_comm. f_equal. lia.
Qed.
Lemma ztake_ztake {A} a b (l : list A) : a <= b -> ztake a (ztake b l) = ztake a l.
Proof.
  intros H. unfold ztake. rewrite firstn_firstn. f_equal. lia.
Qed.
Lemma ztake_le {A} a b (x y : list A) : a <= b -> ztake b x = ztake b y -> ztake a x = ztake a y.
Proof.
  intros H E. rewrite <- (ztake_ztake a b x), <- (ztake_ztake a b y) by exact H. now rewrite E.
Qed.
Lemma ztake_app_exact {A} n (a b : list A) : zlen a = n -> ztake n (a ++ b) = a.
Proof.
  intros H. rewrite ztake_app_l by lia. apply ztake_all. lia.
Qed.
Lemma zdrop_app_exact {A} n (a b : list A) : zlen a = n -> zdrop n (a ++ b) = b.
Proof.
  intros H. rewrite zdrop_app_r by lia. replace (n - zlen a) with 0 by lia. apply zdrop_0.
Qed.
Lemma zlen_ztake_le {A} n (l : list A) : zlen (ztake n l) <= zlen l.
Proof. unfold zlen, ztake. rewrite firstn_length. lia. Qed.
Lemma zlen_ztake_min {A} n (l : list A) : 0 <= n -> zlen (ztake n l) = Z.min n (zlen l).
Proof. intros H. unfold zlen, ztake. rewrite firstn_length. lia. Qed.
Lemma zlen_zdrop_gen {A} n (l : list A) : 0 <= n -> zlen (zdrop n l) = Z.max 0 (zlen l - n).
Proof. intros H. unfold zlen, zdrop. rewrite skipn_length. lia. Qed.
Lemma zlen_repeat {A} (x : A) n : zlen (repeat x n) = Z.of_nat n.
Proof. unfold zlen. now rewrite repeat_length. Qed.
Lemma zlen_0_nil {A} (l : list A) : zlen l = 0 -> l = [].
Proof. destruct l; [reflexivity|]. rewrite zlen_cons. pose proof (zlen_nonneg l). lia. Qed.

(* ------------------------------------------------------------------ splice / asc_disjoint basics *)
Lemma splice_cons p r f : splice (p :: r) f = replace1 (p_off p) (p_old p) (p_blob p) (splice r f).
Proof. reflexivity. Qed.
Lemma splice_app a b f : splice (a ++ b) f = splice a (splice b f).
Proof. unfold splice. apply fold_right_app. Qed.

Lemma asc_cons pos p r flen :
  asc_disjoint pos (p :: r) flen = true <->
  (pos <= p_off p /\ 0 <= p_old p /\ p_off p + p_old p <= flen /\
   asc_disjoint (p_off p + p_old p) r flen = true).
Proof. cbn [asc_disjoint]. rewrite !andb_true_iff, !Z.leb_le. tauto. Qed.

Fixpoint endpos (pos : Z) (ps : list patch) : Z :=
  match ps with [] => pos | p :: r => endpos (p_off p + p_old p) r end.

Lemma asc_app pos a b flen :
  asc_disjoint pos (a ++ b) flen = true <->
  (asc_disjoint pos a flen = true /\ asc_disjoint (endpos pos a) b flen = true).
Proof.
  revert pos; induction a as [|p a IH]; intros pos.
  - cbn [app endpos asc_disjoint]. tauto.
  - rewrite <- app_comm_cons, !asc_cons, IH. cbn [endpos]. tauto.
Qed.
Lemma asc_endpos_ge pos a flen : asc_disjoint pos a flen = true -> pos <= endpos pos a.
Proof.
  revert pos; induction a as [|p a IH]; intros pos H; cbn [endpos]; [lia|].
  apply asc_cons in H as (H1 & H2 & H3 & H4). specialize (IH _ H4). lia.
Qed.
Lemma asc_endpos_le pos a flen : asc_disjoint pos a flen = true -> pos <= flen -> endpos pos a <= flen.
Proof.
  revert pos; induction a as [|p a IH]; intros pos H Hp; cbn [endpos]; [lia|].
  apply asc_cons in H as (H1 & H2 & H3 & H4). apply IH; assumption.
Qed.
Lemma asc_shrink pos a flen m :
  asc_disjoint pos a flen = true -> endpos pos a <= m -> asc_disjoint pos a m = true.
Proof.
  revert pos; induction a as [|p a IH]; intros pos H Hm; [reflexivity|].
  apply asc_cons in H as (H1 & H2 & H3 & H4). cbn [endpos] in Hm.
  apply asc_cons. pose proof (asc_endpos_ge _ _ _ H4). repeat split; try lia. now apply IH.
Qed.

Lemma splice_shape ps : forall f pos,
  0 <= pos <= zlen f -> asc_disjoint pos ps (zlen f) = true ->
  ztake pos (splice ps f) = ztake pos f /\ pos <= zlen (splice ps f).
Proof.
  induction ps as [|p r IH]; intros f pos Hpos H.
  - cbn. split; [reflexivity|lia].
  - apply asc_cons in H as (H1 & H2 & H3 & H4).
    destruct (IH f (p_off p + p_old p)) as [E L]; [lia|assumption|].
    rewrite splice_cons. unfold replace1. set (S := splice r f) in *.
    assert (Ht : zlen (ztake (p_off p) S) = p_off p) by (apply zlen_ztake; lia).
    split.
    + rewrite ztake_app_l by lia. rewrite ztake_ztake by lia.
      apply (ztake_le pos (p_off p + p_old p)); [lia|exact E].
    + rewrite zlen_app, Ht. pose proof (zlen_nonneg (p_blob p ++ zdrop (p_off p + p_old p) S)). lia.
Qed.

(* ------------------------------------------------------------------ 1. rewrite = splice *)
Lemma rewrite_from_sorted ps : forall file pos,
  0 <= pos -> asc_disjoint pos ps (zlen file) = true ->
  rewrite_from pos ps file = Ok (zdrop pos (splice ps file)).
Proof.
  induction ps as [|p r IH]; intros f pos Hpos H.
  - reflexivity.
  - apply asc_cons in H as (H1 & H2 & H3 & H4).
    cbn [rewrite_from]. unfold rewrite_out_of_order, rewrite_copy_before.
    replace (p_off p - pos <? 0) with false by lia.
    replace (zlen f <? pos + (p_off p - pos)) with false by lia.
    rewrite andb_false_r. rewrite IH by (assumption || lia). cbn [bind].
    destruct (splice_shape r f (p_off p + p_old p)) as [E L]; [lia|assumption|].
    rewrite splice_cons. unfold replace1. set (S := splice r f) in *.
    assert (Et : ztake (p_off p) S = ztake (p_off p) f)
      by (apply (ztake_le _ (p_off p + p_old p)); [lia|exact E]).
    assert (Ht : zlen (ztake (p_off p) S) = p_off p) by (apply zlen_ztake; lia).
    f_equal. rewrite zdrop_app_l by lia. f_equal.
    rewrite Et, zdrop_ztake by lia.
    destruct (p_off p - pos >? 0) eqn:D.
    + reflexivity.
    + rewrite ztake_neg by lia. reflexivity.
Qed.

Lemma rewrite_sorted : forall ps file,
  asc_disjoint 0 ps (zlen file) = true -> rewrite ps file = Ok (splice ps file).
Proof.
  intros ps file H. unfold rewrite. rewrite rewrite_from_sorted by (assumption || lia).
  now rewrite zdrop_0.
Qed.

(* ------------------------------------------------------------------ sortedness *)
Lemma nondecreasing_cons a r :
  nondecreasing (a :: r) = true <->
  (Forall (fun b => p_off a <= p_off b) r /\ nondecreasing r = true).
Proof.
  revert a; induction r as [|q r IH]; intros a.
  - cbn. split; [intros _; split; [constructor|reflexivity]|reflexivity].
  - change (nondecreasing (a :: q :: r)) with ((p_off a <=? p_off q) && nondecreasing (q :: r)).
    rewrite andb_true_iff, Z.leb_le. split.
    + intros [H1 H2]. split; [|exact H2]. constructor; [exact H1|].
      apply IH in H2 as [H2 _]. eapply Forall_impl; [|exact H2]. cbn. intros; lia.
    + intros [H1 H2]. inversion H1; subst. tauto.
Qed.
Lemma strictly_asc_cons a r :
  strictly_asc (a :: r) = true <->
  (Forall (fun b => p_off a < p_off b) r /\ strictly_asc r = true).
Proof.
  revert a; induction r as [|q r IH]; intros a.
  - cbn. split; [intros _; split; [constructor|reflexivity]|reflexivity].
  - change (strictly_asc (a :: q :: r)) with ((p_off a <? p_off q) && strictly_asc (q :: r)).
    rewrite andb_true_iff, Z.ltb_lt. split.
    + intros [H1 H2]. split; [|exact H2]. constructor; [exact H1|].
      apply IH in H2 as [H2 _]. eapply Forall_impl; [|exact H2]. cbn. intros; lia.
    + intros [H1 H2]. inversion H1; subst. tauto.
Qed.

Lemma insert_perm p l : Permutation (insert p l) (p :: l).
Proof.
  induction l as [|q r IH]; cbn [insert]; [reflexivity|].
  destruct (p_off q <? p_off p); [|reflexivity].
  rewrite IH. apply perm_swap.
Qed.
Lemma isort_perm l : Permutation (isort l) l.
Proof.
  induction l as [|p l IH]; [reflexivity|].
  change (isort (p :: l)) with (insert p (isort l)). rewrite insert_perm. now constructor.
Qed.
Lemma insert_sorted p l : nondecreasing l = true -> nondecreasing (insert p l) = true.
Proof.
  induction l as [|q r IH]; intros H; [reflexivity|].
  cbn [insert]. destruct (p_off q <? p_off p) eqn:E.
  - apply nondecreasing_cons in H as [H1 H2]. apply nondecreasing_cons. split; [|now apply IH].
    eapply Permutation_Forall; [symmetry; apply insert_perm|]. constructor; [lia|exact H1].
  - apply nondecreasing_cons. split; [|exact H].
    apply nondecreasing_cons in H as [H1 H2]. constructor; [lia|].
    eapply Forall_impl; [|exact H1]. cbn. intros; lia.
Qed.
Lemma isort_sorted l : nondecreasing (isort l) = true.
Proof.
  induction l as [|p l IH]; [reflexivity|].
  change (isort (p :: l)) with (insert p (isort l)). now apply insert_sorted.
Qed.
Lemma isort_id l : nondecreasing l = true -> isort l = l.
Proof.
  induction l as [|p l IH]; intros H; [reflexivity|].
  change (isort (p :: l)) with (insert p (isort l)).
  apply nondecreasing_cons in H as [H1 H2]. rewrite IH by exact H2.
  destruct l as [|q r]; [reflexivity|]. cbn [insert]. inversion H1; subst.
  replace (p_off q <? p_off p) with false by lia. reflexivity.
Qed.

Lemma sorted_unique : forall b a,
  Permutation a b -> nondecreasing a = true -> strictly_asc b = true -> a = b.
Proof.
  induction b as [|y b IH]; intros a HP Ha Hb.
  - apply Permutation_sym, Permutation_nil in HP. exact HP.
  - destruct a as [|x a]; [apply Permutation_nil in HP; discriminate|].
    apply nondecreasing_cons in Ha as [Ha1 Ha2]. apply strictly_asc_cons in Hb as [Hb1 Hb2].
    assert (Hx : In x (y :: b)) by (eapply Permutation_in; [exact HP|now left]).
    destruct Hx as [Hx|Hx].
    + subst y. f_equal. apply IH; [|assumption|assumption]. eapply Permutation_cons_inv; exact HP.
    + exfalso. rewrite Forall_forall in Hb1, Ha1. specialize (Hb1 _ Hx).
      assert (Hy : In y (x :: a)) by (eapply Permutation_in; [symmetry; exact HP|now left]).
      destruct Hy as [Hy|Hy]; [subst; lia|]. specialize (Ha1 _ Hy). lia.
Qed.

(* ------------------------------------------------------------------ 3. sort uniqueness *)
Lemma sorted_perm_unique : forall q ps,
  Permutation q ps -> nondecreasing q = true -> strictly_asc (isort ps) = true -> q = isort ps.
Proof.
  intros q ps HP Hq Hs. apply sorted_unique; [|assumption|assumption].
  rewrite HP. symmetry. apply isort_perm.
Qed.

Lemma asc_all_ge ps : forall pos flen, asc_disjoint pos ps flen = true ->
  Forall (fun b => pos <= p_off b) ps.
Proof.
  induction ps as [|q r IH]; intros e flen H; [constructor|].
  apply asc_cons in H as (H1 & H2 & H3 & H4). constructor; [lia|].
  eapply Forall_impl; [|eapply IH; exact H4]. cbn. intros; lia.
Qed.
Lemma asc_nondecreasing ps : forall pos flen, asc_disjoint pos ps flen = true -> nondecreasing ps = true.
Proof.
  induction ps as [|p r IH]; intros pos flen H; [reflexivity|].
  apply asc_cons in H as (H1 & H2 & H3 & H4). apply nondecreasing_cons. split; [|eapply IH; eassumption].
  eapply Forall_impl; [|eapply asc_all_ge; exact H4]. cbn. intros; lia.
Qed.

(* ------------------------------------------------------------------ local rewriting lemmas for Add *)
Lemma replace1_coalesce lo lold cold lb cb f :
  0 <= lo -> 0 <= lold -> lo + lold <= zlen f ->
  replace1 lo (lold + cold) (lb ++ cb) f = replace1 lo lold lb (replace1 (lo + lold) cold cb f).
Proof.
  intros H1 H2 H3. unfold replace1.
  assert (Ht : zlen (ztake (lo + lold) f) = lo + lold) by (apply zlen_ztake; lia).
  rewrite ztake_app_l by lia. rewrite ztake_ztake by lia.
  rewrite zdrop_app_exact by exact Ht.
  rewrite <- app_assoc. now rewrite Z.add_assoc.
Qed.

Lemma split_local n : forall off rem blob pos B g,
  0 <= pos -> 0 <= rem ->
  asc_disjoint pos (mkPatch off (Z.of_nat n * uint32Max + rem) blob :: B) (zlen g) = true ->
  asc_disjoint pos ((split_pieces n off ++ [mkPatch (off + Z.of_nat n * uint32Max) rem blob]) ++ B) (zlen g) = true /\
  splice ((split_pieces n off ++ [mkPatch (off + Z.of_nat n * uint32Max) rem blob]) ++ B) g =
  splice (mkPatch off (Z.of_nat n * uint32Max + rem) blob :: B) g.
Proof.
  induction n as [|n IH]; intros off rem blob pos B g Hpos Hrem H.
  - cbn [split_pieces app]. replace (off + Z.of_nat 0 * uint32Max) with off by lia.
    replace (Z.of_nat 0 * uint32Max + rem) with rem in * by lia. split; [exact H|reflexivity].
  - cbn [split_pieces]. rewrite <- !app_comm_cons.
    replace (off + Z.of_nat (S n) * uint32Max) with ((off + uint32Max) + Z.of_nat n * uint32Max) by lia.
    apply asc_cons in H as (H1 & H2 & H3 & H4). cbn [p_off p_old p_blob] in *.
    assert (HM : 0 <= uint32Max) by (unfold uint32Max; lia).
    assert (Hn : 0 <= Z.of_nat n * uint32Max) by (unfold uint32Max; lia).
    assert (HS : Z.of_nat (S n) * uint32Max = uint32Max + Z.of_nat n * uint32Max) by lia.
    destruct (IH (off + uint32Max) rem blob (off + uint32Max) B g) as [A SE]; [lia|lia| |].
    { apply asc_cons. cbn [p_off p_old p_blob]. repeat split; try lia.
      replace (off + uint32Max + (Z.of_nat n * uint32Max + rem))
        with (off + (Z.of_nat (S n) * uint32Max + rem)) by lia. exact H4. }
    split.
    + apply asc_cons. cbn [p_off p_old p_blob]. repeat split; try lia. exact A.
    + rewrite splice_cons, SE, !splice_cons. cbn [p_off p_old p_blob].
      destruct (splice_shape B g (off + (Z.of_nat (S n) * uint32Max + rem))) as [_ L]; [lia|exact H4|].
      rewrite <- replace1_coalesce by lia. cbn [app]. f_equal. lia.
Qed.

Lemma split_count_facts old : 0 <= old ->
  0 <= split_count old /\ 0 <= old - split_count old * uint32Max /\
  (split_count old = 0 \/ split_count old * uint32Max < old).
Proof.
  intros H. unfold split_count, add_split_cond, uint32Max.
  destruct (old >? 4294967295) eqn:E; lia.
Qed.

Lemma local_fresh off old blob pos B g :
  0 <= pos ->
  asc_disjoint pos (mkPatch off old blob :: B) (zlen g) = true ->
  asc_disjoint pos (add_fresh off old blob ++ B) (zlen g) = true /\
  splice (add_fresh off old blob ++ B) g = splice (mkPatch off old blob :: B) g.
Proof.
  intros Hpos H. unfold add_fresh.
  assert (Hold : 0 <= old) by (apply asc_cons in H; cbn in H; lia).
  destruct (split_count_facts old Hold) as (K1 & K2 & _).
  set (k := split_count old) in *. cbv zeta.
  pose (n := Z.to_nat k). assert (Hk : k = Z.of_nat n) by (unfold n; lia).
  replace (Z.to_nat k) with n by reflexivity. rewrite Hk in *.
  replace old with (Z.of_nat n * uint32Max + (old - Z.of_nat n * uint32Max)) in H at 1 by lia.
  destruct (split_local n off (old - Z.of_nat n * uint32Max) blob pos B g Hpos K2 H) as [A S].
  split; [exact A|]. rewrite S. do 3 f_equal. lia.
Qed.

Lemma coalesce_inv last off old blob m :
  try_coalesce last off old blob = Some m ->
  off = p_off last + p_old last /\ m = mkPatch (p_off last) (p_old last + old) (p_blob last ++ blob).
Proof.
  unfold try_coalesce, add_coalesce_cond, add_last_end, add_old_combo, add_new_combo.
  destruct (_ && _ && _) eqn:E; [|discriminate].
  intros H. inversion H; subst. split; [lia|reflexivity].
Qed.

Lemma local_merge_fwd last off old blob m pos B g :
  try_coalesce last off old blob = Some m -> 0 <= pos ->
  asc_disjoint pos (last :: mkPatch off old blob :: B) (zlen g) = true ->
  asc_disjoint pos (m :: B) (zlen g) = true /\
  splice (m :: B) g = splice (last :: mkPatch off old blob :: B) g.
Proof.
  intros Hc Hpos H. apply coalesce_inv in Hc as [-> ->].
  apply asc_cons in H as (H1 & H2 & H3 & H4).
  apply asc_cons in H4 as (H5 & H6 & H7 & H8). cbn [p_off p_old p_blob] in *.
  split.
  - apply asc_cons. cbn [p_off p_old p_blob]. repeat split; try lia.
    now rewrite Z.add_assoc.
  - rewrite !splice_cons. cbn [p_off p_old p_blob].
    destruct (splice_shape B g (p_off last + p_old last + old)) as [_ L]; [lia|exact H8|].
    apply replace1_coalesce; lia.
Qed.
Lemma local_merge_bwd last off old blob m pos B flen :
  try_coalesce last off old blob = Some m -> 0 <= p_old last -> 0 <= old ->
  asc_disjoint pos (m :: B) flen = true ->
  asc_disjoint pos (last :: mkPatch off old blob :: B) flen = true.
Proof.
  intros Hc Hl Ho H. apply coalesce_inv in Hc as [-> ->].
  apply asc_cons in H as (H1 & H2 & H3 & H4). cbn [p_off p_old p_blob] in *.
  apply asc_cons. repeat split; try lia.
  apply asc_cons. cbn [p_off p_old p_blob]. repeat split; try lia.
  now rewrite <- Z.add_assoc.
Qed.

Lemma add_all_snoc cs c : add_all (cs ++ [c]) = add (add_all cs) (c_off c) (c_old c) (c_blob c).
Proof. unfold add_all. now rewrite fold_left_app. Qed.

Lemma add_cases ps off old blob :
  add ps off old blob = ps ++ add_fresh off old blob \/
  exists front last m, ps = front ++ [last] /\ try_coalesce last off old blob = Some m /\
                       add ps off old blob = front ++ [m].
Proof.
  unfold add. destruct (rev ps) as [|last fr] eqn:E.
  - left. rewrite <- (rev_involutive ps), E. reflexivity.
  - assert (Hps : ps = rev fr ++ [last]) by (rewrite <- (rev_involutive ps), E; reflexivity).
    destruct (try_coalesce last off old blob) as [m|] eqn:T.
    + right. exists (rev fr), last, m. auto.
    + left. reflexivity.
Qed.

(* ------------------------------------------------------------------ 2. Add in file order *)
Lemma fileorder_inv : forall cs g B,
  asc_disjoint 0 (map call_patch cs ++ B) (zlen g) = true ->
  asc_disjoint 0 (add_all cs ++ B) (zlen g) = true /\
  splice (add_all cs ++ B) g = splice (map call_patch cs ++ B) g.
Proof.
  induction cs as [|c cs IH] using rev_ind; intros g B H.
  - cbn. auto.
  - rewrite map_app in *. cbn [map] in *. rewrite <- app_assoc in *. cbn [app] in *.
    destruct (IH g (call_patch c :: B) H) as [A S]. rewrite <- S. clear S H IH.
    rewrite add_all_snoc. unfold call_patch in *.
    destruct (add_cases (add_all cs) (c_off c) (c_old c) (c_blob c)) as [E|(front & last & m & E1 & E2 & E3)].
    + rewrite E, <- !app_assoc. apply asc_app in A as [A1 A2].
      pose proof (asc_endpos_ge _ _ _ A1) as Hp.
      destruct (local_fresh _ _ _ _ _ _ Hp A2) as [A3 S3].
      split; [apply asc_app; auto|]. rewrite (splice_app (add_all cs)), S3. now rewrite <- splice_app.
    + rewrite E3. rewrite E1 in A |- *. rewrite <- !app_assoc in *. cbn [app] in *.
      apply asc_app in A as [A1 A2]. pose proof (asc_endpos_ge _ _ _ A1) as Hp.
      destruct (local_merge_fwd _ _ _ _ _ _ _ _ E2 Hp A2) as [A3 S3].
      split; [apply asc_app; auto|]. rewrite (splice_app front), S3. now rewrite <- splice_app.
Qed.

Lemma add_fileorder_sound : forall cs file,
  asc_disjoint 0 (map call_patch cs) (zlen file) = true ->
  asc_disjoint 0 (add_all cs) (zlen file) = true /\
  splice (add_all cs) file = splice (map call_patch cs) file.
Proof.
  intros cs file H. pose proof (fileorder_inv cs file []) as G. rewrite !app_nil_r in G. auto.
Qed.

(* ------------------------------------------------------------------ 4. pipeline, file order *)
Lemma apply_fileorder : forall cs file q,
  asc_disjoint 0 (map call_patch cs) (zlen file) = true ->
  Permutation q (add_all cs) -> nondecreasing q = true -> strictly_asc (isort (add_all cs)) = true ->
  rewrite q file = Ok (splice_calls cs file).
Proof.
  intros cs file q H HP Hq Hs.
  destruct (add_fileorder_sound cs file H) as [A S].
  rewrite (sorted_perm_unique q _ HP Hq Hs).
  rewrite (isort_id (add_all cs)) by (eapply asc_nondecreasing; exact A).
  unfold splice_calls. rewrite (isort_id (map call_patch cs)) by (eapply asc_nondecreasing; exact H).
  rewrite rewrite_sorted by exact A. now rewrite S.
Qed.

(* ------------------------------------------------------------------ 6/7. Dump / Load *)
Definition hdr3 (p : patch) : Z * Z * Z := (p_off p, p_old p, p_new p).

Lemma zslice_head {A} b (Y Z : list A) : zlen Y = b -> zslice 0 b (Y ++ Z) = Y.
Proof. intros H. unfold zslice. rewrite zdrop_0, Z.sub_0_r. now apply ztake_app_exact. Qed.
Lemma zslice_mid {A} a b (X Y Z : list A) :
  zlen X = a -> zlen Y = b - a -> zslice a b (X ++ Y ++ Z) = Y.
Proof.
  intros H1 H2. unfold zslice. rewrite zdrop_app_exact by exact H1. now apply ztake_app_exact.
Qed.

Lemma zlen_enc_header p : zlen (enc_header p) = 16.
Proof. unfold enc_header. rewrite !zlen_app, !be_enc_zlen. lia. Qed.
Lemma zlen_hdrs ps : zlen (concat (map enc_header ps)) = 16 * zlen ps.
Proof.
  induction ps as [|p ps IH]; [reflexivity|].
  cbn [map concat]. rewrite zlen_app, zlen_enc_header, IH, zlen_cons. lia.
Qed.

Lemma to_i64_small n : 0 <= n < 2 ^ 63 -> to_i64 n = n.
Proof.
  intros H. unfold to_i64. change (2 ^ 63) with 9223372036854775808 in *.
  replace (n >=? 9223372036854775808) with false by lia. reflexivity.
Qed.

Lemma read_headers_ok ps : forall rest,
  Forall patch_ok ps ->
  read_headers (length ps) (concat (map enc_header ps) ++ rest) = Ok (map hdr3 ps, rest).
Proof.
  induction ps as [|p ps IH]; intros rest H; [reflexivity|].
  inversion H as [|? ? Hp Hps]; subst. destruct Hp as (Ho & Hd & Hn & _).
  cbn [length map concat]. rewrite <- app_assoc.
  set (R := concat (map enc_header ps) ++ rest).
  assert (L8 : zlen (be_enc 8 (p_off p)) = 8) by (rewrite be_enc_zlen; reflexivity).
  assert (L4a : zlen (be_enc 4 (p_old p)) = 4) by (rewrite be_enc_zlen; reflexivity).
  assert (L4b : zlen (be_enc 4 (p_new p)) = 4) by (rewrite be_enc_zlen; reflexivity).
  assert (S1 : zslice 0 8 (enc_header p ++ R) = be_enc 8 (p_off p)).
  { unfold enc_header. rewrite <- !app_assoc. now apply zslice_head. }
  assert (S2 : zslice 8 12 (enc_header p ++ R) = be_enc 4 (p_old p)).
  { unfold enc_header. rewrite <- !app_assoc. apply zslice_mid; [exact L8|exact L4a]. }
  assert (S3 : zslice 12 16 (enc_header p ++ R) = be_enc 4 (p_new p)).
  { unfold enc_header. rewrite <- !app_assoc.
    rewrite (app_assoc (be_enc 8 (p_off p))). apply zslice_mid; [rewrite zlen_app; lia|exact L4b]. }
  assert (S4 : zdrop ph_size (enc_header p ++ R) = R).
  { apply zdrop_app_exact. apply zlen_enc_header. }
  cbn [read_headers]. cbv zeta. rewrite S1, S2, S3, S4.
  replace (zlen (enc_header p ++ R) <? ph_size) with false
    by (rewrite zlen_app, zlen_enc_header; unfold ph_size; pose proof (zlen_nonneg R); lia).
  unfold R. rewrite IH by exact Hps. cbn [bind fst snd].
  change (2 ^ 63) with 9223372036854775808 in Ho. change (2 ^ 32) with 4294967296 in Hd, Hn.
  rewrite !be_dec_enc.
  - rewrite to_i64_small by (change (2 ^ 63) with 9223372036854775808; lia). reflexivity.
  - change (256 ^ Z.of_nat 4) with 4294967296. unfold p_new. pose proof (zlen_nonneg (p_blob p)). lia.
  - change (256 ^ Z.of_nat 4) with 4294967296. lia.
  - change (256 ^ Z.of_nat 8) with 18446744073709551616. lia.
Qed.

Lemma read_blobs_ok ps : forall rest,
  read_blobs (map hdr3 ps) (concat (map p_blob ps) ++ rest) = Ok ps.
Proof.
  induction ps as [|p ps IH]; intros rest; [reflexivity|].
  cbn [map concat]. rewrite <- app_assoc. unfold hdr3 at 1. cbn [read_blobs].
  set (R := concat (map p_blob ps) ++ rest).
  replace (zlen (p_blob p ++ R) <? p_new p) with false
    by (rewrite zlen_app; unfold p_new; pose proof (zlen_nonneg R); lia).
  rewrite zdrop_app_exact by reflexivity. rewrite ztake_app_exact by reflexivity.
  unfold R. rewrite IH. cbn [bind]. destruct p; reflexivity.
Qed.

Lemma read_headers_short k : forall l,
  zlen l < 16 * Z.of_nat k -> read_headers k l = Err E_SHORT.
Proof.
  induction k as [|k IH]; intros l H.
  - pose proof (zlen_nonneg l). lia.
  - cbn [read_headers]. cbv zeta. destruct (zlen l <? ph_size) eqn:E; [reflexivity|].
    unfold ph_size in *. rewrite IH; [reflexivity|]. rewrite zlen_zdrop by lia. lia.
Qed.

Lemma read_blobs_short ps : forall l,
  zlen l < zlen (concat (map p_blob ps)) -> read_blobs (map hdr3 ps) l = Err E_SHORT.
Proof.
  induction ps as [|p ps IH]; intros l H.
  - cbn in H. pose proof (zlen_nonneg l). lia.
  - cbn [map concat] in *. unfold hdr3 at 1. cbn [read_blobs].
    destruct (zlen l <? p_new p) eqn:E; [reflexivity|].
    rewrite zlen_app in H. unfold p_new in *. pose proof (zlen_nonneg (p_blob p)).
    rewrite IH; [reflexivity|]. rewrite zlen_zdrop by lia. lia.
Qed.

Lemma be4_roundtrip n : 0 <= n < 2 ^ 32 -> be_dec (be_enc 4 n) = n.
Proof.
  intros H. apply be_dec_enc. change (256 ^ Z.of_nat 4) with 4294967296.
  change (2 ^ 32) with 4294967296 in H. lia.
Qed.

(* load on "header ++ body" where the header is the one dump_sorted writes *)
Lemma load_with_header n body :
  0 <= n < 2 ^ 32 ->
  load (be_enc 4 1 ++ be_enc 4 n ++ body) =
  (r <- read_headers (Z.to_nat n) body ;; read_blobs (fst r) (snd r)).
Proof.
  intros Hn. unfold load.
  assert (L1 : zlen (be_enc 4 1) = 4) by (rewrite be_enc_zlen; reflexivity).
  assert (L2 : zlen (be_enc 4 n) = 4) by (rewrite be_enc_zlen; reflexivity).
  replace (zlen (be_enc 4 1 ++ be_enc 4 n ++ body) <? psh_size) with false
    by (rewrite !zlen_app, L1, L2; unfold psh_size; pose proof (zlen_nonneg body); lia).
  cbv zeta. rewrite zslice_head by exact L1.
  rewrite zslice_mid by (rewrite ?L1, ?L2; reflexivity).
  rewrite be4_roundtrip by (change (2 ^ 32) with 4294967296; lia).
  rewrite be4_roundtrip by exact Hn.
  change (load_version_bad 1) with false. cbv iota.
  rewrite app_assoc. rewrite zdrop_app_exact by (rewrite zlen_app, L1, L2; reflexivity).
  reflexivity.
Qed.

Lemma load_dump : forall ps,
  Forall patch_ok ps -> zlen ps < 2 ^ 32 -> load (dump_sorted ps) = Ok ps.
Proof.
  intros ps H Hn. unfold dump_sorted.
  rewrite load_with_header by (pose proof (zlen_nonneg ps); lia).
  unfold zlen at 1. rewrite Nat2Z.id. rewrite read_headers_ok by exact H. cbn [bind fst snd].
  rewrite <- (app_nil_r (concat (map p_blob ps))). apply read_blobs_ok.
Qed.

Lemma load_rejects_version : forall l,
  8 <= zlen l -> be_dec (zslice 0 4 l) <> 1 -> load l = Err E_VERSION.
Proof.
  intros l H Hv. unfold load. unfold psh_size.
  replace (zlen l <? 8) with false by lia. cbv zeta.
  unfold load_version_bad. replace (be_dec (zslice 0 4 l) =? 1) with false by lia. reflexivity.
Qed.

Lemma load_rejects_prefix : forall ps n,
  Forall patch_ok ps -> zlen ps < 2 ^ 32 -> 0 <= n < zlen (dump_sorted ps) ->
  exists e, load (ztake n (dump_sorted ps)) = Err e.
Proof.
  intros ps n H Hps Hn. exists E_SHORT.
  destruct (Z.ltb_spec n 8) as [Hlt|Hge].
  - unfold load. rewrite zlen_ztake by lia. unfold psh_size.
    replace (n <? 8) with true by lia. reflexivity.
  - unfold dump_sorted in *.
    assert (L1 : zlen (be_enc 4 1) = 4) by (rewrite be_enc_zlen; reflexivity).
    assert (L2 : zlen (be_enc 4 (zlen ps)) = 4) by (rewrite be_enc_zlen; reflexivity).
    set (H1 := be_enc 4 1) in *. set (H2 := be_enc 4 (zlen ps)) in *.
    set (Hd := concat (map enc_header ps)) in *. set (Bl := concat (map p_blob ps)) in *.
    rewrite !zlen_app in Hn.
    rewrite (ztake_app_r n H1) by lia. rewrite (ztake_app_r (n - zlen H1) H2) by lia.
    rewrite L1, L2. unfold H1, H2.
    rewrite load_with_header by (pose proof (zlen_nonneg ps); lia).
    unfold zlen at 1. rewrite Nat2Z.id.
    assert (LH : zlen Hd = 16 * zlen ps) by apply zlen_hdrs.
    destruct (Z.ltb_spec (n - 4 - 4) (zlen Hd)) as [Hs|Hl].
    + rewrite read_headers_short; [reflexivity|].
      pose proof (zlen_ztake_le (n - 4 - 4) (Hd ++ Bl)).
      rewrite zlen_ztake_min by lia. unfold zlen in LH at 2. lia.
    + rewrite ztake_app_r by lia. unfold Hd. rewrite read_headers_ok by exact H.
      cbn [bind fst snd]. apply read_blobs_short.
      fold Hd Bl. rewrite zlen_ztake_min by lia. lia.
Qed.

(* ------------------------------------------------------------------ 8. in place = rewrite *)
Definition same_size (p : patch) : Prop := p_old p = p_new p.

Lemma write_at_same f off blob :
  0 <= off -> off + zlen blob <= zlen f -> write_at f off blob = replace1 off (zlen blob) blob f.
Proof.
  intros H1 H2. unfold write_at, replace1. destruct blob as [|b bl].
  - rewrite zlen_nil, Z.add_0_r. cbn [app]. symmetry. apply ztake_zdrop.
  - pose proof (zlen_nonneg (b :: bl)).
    replace (Z.to_nat (off - zlen f)) with 0%nat by lia. cbn [repeat]. rewrite app_nil_r. reflexivity.
Qed.

Lemma zlen_replace1_same off old blob f :
  0 <= off -> 0 <= old -> off + old <= zlen f -> zlen blob = old ->
  zlen (replace1 off old blob f) = zlen f.
Proof.
  intros H1 H2 H3 H4. unfold replace1. rewrite !zlen_app, zlen_ztake, zlen_zdrop by lia. lia.
Qed.

Lemma splice_len_same ps : forall f pos,
  0 <= pos <= zlen f -> Forall same_size ps -> asc_disjoint pos ps (zlen f) = true ->
  zlen (splice ps f) = zlen f.
Proof.
  induction ps as [|p r IH]; intros f pos Hpos Hs H; [reflexivity|].
  inversion Hs as [|? ? Hp Hr]; subst. apply asc_cons in H as (H1 & H2 & H3 & H4).
  rewrite splice_cons. specialize (IH f (p_off p + p_old p)).
  rewrite zlen_replace1_same; [apply IH; (assumption || lia)|lia|lia| |symmetry; exact Hp].
  rewrite IH by (assumption || lia). lia.
Qed.

Lemma splice_local r : forall pos g g',
  0 <= pos <= zlen g -> zlen g = zlen g' -> asc_disjoint pos r (zlen g) = true ->
  zdrop pos g = zdrop pos g' -> zdrop pos (splice r g) = zdrop pos (splice r g').
Proof.
  induction r as [|q r IH]; intros pos g g' Hpos Hl H E; [exact E|].
  apply asc_cons in H as (H1 & H2 & H3 & H4).
  set (e := p_off q + p_old q) in *.
  destruct (splice_shape r g e) as [T1 L1]; [lia|exact H4|].
  destruct (splice_shape r g' e) as [T2 L2]; [lia|rewrite <- Hl; exact H4|].
  assert (Ee : zdrop e g = zdrop e g').
  { replace e with ((e - pos) + pos) by lia. rewrite <- !zdrop_zdrop by lia. now rewrite E. }
  specialize (IH e g g' ltac:(lia) Hl H4 Ee).
  rewrite !splice_cons. unfold replace1. fold e.
  apply (ztake_le (p_off q)) in T1; [|lia]. apply (ztake_le (p_off q)) in T2; [|lia].
  rewrite T1, T2, IH.
  rewrite !zdrop_app_l by (rewrite zlen_ztake; lia).
  rewrite !zdrop_ztake by lia. now rewrite E.
Qed.

Lemma splice_commute_same p r f pos :
  0 <= pos -> same_size p -> asc_disjoint pos (p :: r) (zlen f) = true ->
  splice r (replace1 (p_off p) (p_old p) (p_blob p) f) =
  replace1 (p_off p) (p_old p) (p_blob p) (splice r f).
Proof.
  intros Hpos Hs H. apply asc_cons in H as (H1 & H2 & H3 & H4).
  unfold same_size, p_new in Hs.
  set (e := p_off p + p_old p) in *. set (f1 := replace1 (p_off p) (p_old p) (p_blob p) f).
  assert (Lf1 : zlen f1 = zlen f) by (apply zlen_replace1_same; lia).
  assert (La : zlen (ztake (p_off p) f ++ p_blob p) = e) by (rewrite zlen_app, zlen_ztake; lia).
  assert (Tf1 : ztake e f1 = ztake (p_off p) f ++ p_blob p).
  { unfold f1, replace1. rewrite app_assoc. now apply ztake_app_exact. }
  assert (Df1 : zdrop e f1 = zdrop e f).
  { unfold f1, replace1. rewrite app_assoc. now apply zdrop_app_exact. }
  destruct (splice_shape r f1 e) as [T1 L1]; [lia|rewrite Lf1; exact H4|].
  destruct (splice_shape r f e) as [T2 L2]; [lia|exact H4|].
  rewrite <- (ztake_zdrop e (splice r f1)). rewrite T1, Tf1.
  rewrite (splice_local r e f1 f) by (try rewrite Lf1; (assumption || lia)).
  unfold replace1. fold e. apply (ztake_le (p_off p)) in T2; [|lia]. rewrite T2.
  now rewrite <- app_assoc.
Qed.

Definition W (ps : list patch) (f : bytes) : bytes :=
  fold_left (fun f p => write_at f (p_off p) (p_blob p)) ps f.

Lemma W_same ps : forall f pos,
  0 <= pos -> Forall same_size ps -> asc_disjoint pos ps (zlen f) = true -> W ps f = splice ps f.
Proof.
  induction ps as [|p r IH]; intros f pos Hpos Hs H; [reflexivity|].
  inversion Hs as [|? ? Hp Hr]; subst.
  pose proof (splice_commute_same p r f pos Hpos Hp H) as C.
  apply asc_cons in H as (H1 & H2 & H3 & H4). unfold same_size, p_new in Hp.
  unfold W. cbn [fold_left]. fold (W r (write_at f (p_off p) (p_blob p))).
  rewrite write_at_same by lia. rewrite <- Hp.
  rewrite (IH _ (p_off p + p_old p)); [| lia | exact Hr |].
  - rewrite splice_cons. exact C.
  - rewrite zlen_replace1_same by lia. exact H4.
Qed.

Lemma splice_app_tail ps : forall a b pos,
  0 <= pos <= zlen a -> asc_disjoint pos ps (zlen a) = true -> splice ps (a ++ b) = splice ps a ++ b.
Proof.
  induction ps as [|p r IH]; intros a b pos Hpos H; [reflexivity|].
  apply asc_cons in H as (H1 & H2 & H3 & H4).
  destruct (splice_shape r a (p_off p + p_old p)) as [_ L]; [lia|exact H4|].
  rewrite !splice_cons, (IH a b (p_off p + p_old p)) by (assumption || lia).
  unfold replace1. rewrite ztake_app_l by lia. rewrite zdrop_app_l by lia.
  now rewrite <- !app_assoc.
Qed.

Lemma truncate_id g : truncate g (zlen g) = g.
Proof.
  unfold truncate. rewrite ztake_all by lia. rewrite Z.sub_diag. cbn [Z.to_nat repeat]. apply app_nil_r.
Qed.

Lemma truncate_write_at X d off blob :
  zlen X = off -> truncate (write_at (X ++ d) off blob) (off + zlen blob) = X ++ blob.
Proof.
  intros HX. pose proof (zlen_nonneg d). pose proof (zlen_nonneg X).
  unfold write_at. destruct blob as [|b bl].
  - rewrite zlen_nil, Z.add_0_r. unfold truncate. rewrite ztake_app_exact by exact HX.
    rewrite zlen_app. replace (Z.to_nat (off - (zlen X + zlen d))) with 0%nat by lia. reflexivity.
  - set (blob := b :: bl). pose proof (zlen_nonneg blob).
    rewrite zlen_app. replace (Z.to_nat (off - (zlen X + zlen d))) with 0%nat by lia.
    cbn [repeat]. rewrite app_nil_r. rewrite ztake_app_exact by exact HX.
    unfold truncate. rewrite app_assoc.
    rewrite ztake_app_exact by (rewrite zlen_app; lia).
    rewrite !zlen_app.
    replace (Z.to_nat (off + zlen blob - (zlen X + zlen blob + zlen (zdrop (off + zlen blob) (X ++ d)))))
      with 0%nat by (pose proof (zlen_nonneg (zdrop (off + zlen blob) (X ++ d))); lia).
    cbn [repeat]. apply app_nil_r.
Qed.

Lemma elig_shape ps : forall i n in_size size sz,
  i + zlen ps = n -> eligible_from i n ps in_size size = Some sz ->
  (Forall same_size ps /\ sz = size) \/
  (exists front last, ps = front ++ [last] /\ Forall same_size front /\
                      p_off last + p_old last = in_size /\ sz = p_off last + p_new last).
Proof.
  induction ps as [|p ps IH]; intros i n in_size size sz Hn H.
  - cbn in H. inversion H. left. split; [constructor|reflexivity].
  - cbn [eligible_from] in H. rewrite zlen_cons in Hn. unfold apply_same_size in H.
    destruct (p_old p =? p_new p) eqn:E.
    + apply IH in H; [|lia]. destruct H as [[H1 H2]|(front & last & H1 & H2 & H3 & H4)].
      * left. split; [constructor; [unfold same_size; lia|exact H1]|exact H2].
      * right. exists (p :: front), last. subst ps. repeat split; try assumption.
        constructor; [unfold same_size; lia|exact H2].
    + unfold apply_not_last in H. destruct (i =? n - 1) eqn:E2; [|discriminate]. cbn [negb] in H.
      assert (Hps : ps = []) by (apply zlen_0_nil; lia). subst ps.
      unfold apply_not_at_eof, apply_old_end in H.
      destruct (p_off p + p_old p =? in_size) eqn:E3; [|discriminate]. cbn [negb eligible_from] in H.
      inversion H. right. exists [], p. unfold apply_new_size. repeat split; try constructor. lia.
Qed.

Lemma inplace_eq_rewrite : forall ps file size,
  asc_disjoint 0 ps (zlen file) = true -> eligible ps file = Some size ->
  rewrite ps file = Ok (inplace ps file size).
Proof.
  intros ps file size H He. rewrite rewrite_sorted by exact H. f_equal.
  unfold eligible in He. apply elig_shape in He; [|lia].
  unfold inplace. fold (W ps file). pose proof (zlen_nonneg file) as Hf.
  destruct He as [[Hs ->]|(front & last & -> & Hs & Hend & ->)].
  - rewrite (W_same ps file 0) by (assumption || lia).
    rewrite <- (splice_len_same ps file 0) by (assumption || lia).
    symmetry. apply truncate_id.
  - apply asc_app in H as [A1 A2]. apply asc_cons in A2 as (B1 & B2 & B3 & _).
    pose proof (asc_endpos_ge _ _ _ A1) as Hp.
    set (off := p_off last) in *.
    assert (La : zlen (ztake off file) = off) by (apply zlen_ztake; lia).
    assert (A3 : asc_disjoint 0 front (zlen (ztake off file)) = true)
      by (rewrite La; eapply asc_shrink; [exact A1|lia]).
    assert (LX : zlen (splice front (ztake off file)) = off).
    { rewrite (splice_len_same front _ 0) by (assumption || lia). exact La. }
    unfold W. rewrite fold_left_app. cbn [fold_left]. fold (W front file). fold off.
    rewrite (W_same front file 0) by (assumption || lia).
    rewrite <- (ztake_zdrop off file) at 2.
    rewrite (splice_app_tail front _ _ 0) by (assumption || lia).
    unfold p_new. rewrite truncate_write_at by exact LX.
    rewrite splice_app. cbn [splice fold_right]. fold off. unfold replace1.
    rewrite (zdrop_all (off + p_old last)) by lia. rewrite app_nil_r.
    rewrite (splice_app_tail front _ _ 0) by (assumption || lia). reflexivity.
Qed.

(* ------------------------------------------------------------------ 5. pipeline, any order *)
(* permutation-invariant description of "sorts to an ascending, disjoint, in-bounds list
   with pairwise distinct offsets" *)
Definition inb (flen : Z) (p : patch) : Prop :=
  0 <= p_off p /\ 0 <= p_old p /\ p_off p + p_old p <= flen.
Definition sep (a b : patch) : Prop :=
  (p_off a < p_off b /\ p_off a + p_old a <= p_off b) \/
  (p_off b < p_off a /\ p_off b + p_old b <= p_off a).
Fixpoint pw (l : list patch) : Prop :=
  match l with [] => True | a :: r => Forall (sep a) r /\ pw r end.
Definition good (flen : Z) (l : list patch) : Prop :=
  asc_disjoint 0 (isort l) flen = true /\ strictly_asc (isort l) = true.

Lemma sep_sym a b : sep a b -> sep b a.
Proof. unfold sep. tauto. Qed.

Lemma pw_perm l l' : Permutation l l' -> pw l -> pw l'.
Proof.
  induction 1 as [|x l l' HP IH|x y l|l l' l'' H1 IH1 H2 IH2]; intros H.
  - exact I.
  - destruct H as [H1 H2]. split; [|now apply IH]. eapply Permutation_Forall; eassumption.
  - destruct H as [H1 [H2 H3]]. inversion H1; subst. cbn [pw]. repeat split; try assumption.
    constructor; [now apply sep_sym|assumption].
  - auto.
Qed.

Lemma pw_app l l' :
  pw (l ++ l') <-> (pw l /\ pw l' /\ Forall (fun a => Forall (sep a) l') l).
Proof.
  induction l as [|a l IH].
  - cbn. split; [intros H; repeat split; (assumption || constructor)|tauto].
  - cbn [app pw]. rewrite Forall_app, IH. split.
    + intros [[H1 H2] (H3 & H4 & H5)]. repeat split; try assumption. now constructor.
    + intros [[H1 H2] (H3 & H4)]. inversion H4; subst. tauto.
Qed.

Lemma sorted_to_pw S : forall pos flen,
  0 <= pos -> asc_disjoint pos S flen = true -> strictly_asc S = true ->
  Forall (inb flen) S /\ pw S.
Proof.
  induction S as [|a r IH]; intros pos flen Hpos HA HS.
  - split; [constructor|exact I].
  - apply asc_cons in HA as (H1 & H2 & H3 & H4). apply strictly_asc_cons in HS as [S1 S2].
    destruct (IH (p_off a + p_old a) flen) as [I1 I2]; [lia|assumption|assumption|].
    split; [constructor; [unfold inb; lia|exact I1]|]. split; [|exact I2].
    pose proof (asc_all_ge _ _ _ H4) as G. rewrite Forall_forall in *.
    intros b Hb. specialize (S1 b Hb). specialize (G b Hb). cbv beta in *. unfold sep. lia.
Qed.

Lemma pw_to_sorted S : forall pos flen,
  nondecreasing S = true -> Forall (inb flen) S -> pw S -> Forall (fun p => pos <= p_off p) S ->
  asc_disjoint pos S flen = true /\ strictly_asc S = true.
Proof.
  induction S as [|a r IH]; intros pos flen HN HI HP HG.
  - split; reflexivity.
  - apply nondecreasing_cons in HN as [N1 N2]. inversion HI as [|? ? I1 I2]; subst.
    destruct HP as [P1 P2]. inversion HG as [|? ? G1 G2]; subst.
    assert (Q : Forall (fun b => p_off a < p_off b /\ p_off a + p_old a <= p_off b) r).
    { rewrite Forall_forall in *. intros b Hb. specialize (N1 b Hb). specialize (P1 b Hb).
      cbv beta in *. unfold sep in P1. lia. }
    destruct (IH (p_off a + p_old a) flen N2 I2 P2) as [A1 A2].
    { eapply Forall_impl; [|exact Q]. cbv beta. intros; lia. }
    unfold inb in I1. split.
    + apply asc_cons. repeat split; (assumption || lia).
    + apply strictly_asc_cons. split; [|exact A2]. eapply Forall_impl; [|exact Q]. cbv beta. intros; lia.
Qed.

Lemma good_iff flen l : good flen l <-> (Forall (inb flen) l /\ pw l).
Proof.
  unfold good. split.
  - intros [H1 H2]. destruct (sorted_to_pw _ 0 flen ltac:(lia) H1 H2) as [I P]. split.
    + eapply Permutation_Forall; [apply isort_perm|exact I].
    + eapply pw_perm; [apply isort_perm|exact P].
  - intros [I P]. apply pw_to_sorted.
    + apply isort_sorted.
    + eapply Permutation_Forall; [symmetry; apply isort_perm|exact I].
    + eapply pw_perm; [symmetry; apply isort_perm|exact P].
    + eapply Permutation_Forall; [symmetry; apply isort_perm|].
      eapply Forall_impl; [|exact I]. unfold inb. intros; lia.
Qed.

Lemma good_perm_isort flen l l' : good flen l -> Permutation l l' -> isort l' = isort l.
Proof.
  intros [_ H] HP. apply sorted_unique; [|apply isort_sorted|exact H].
  rewrite (isort_perm l'), (isort_perm l). now symmetry.
Qed.
Lemma good_perm flen l l' : good flen l -> Permutation l l' -> good flen l'.
Proof.
  intros H HP. unfold good. rewrite (good_perm_isort flen l l' H HP). exact H.
Qed.

Lemma block_subst g Y z Z2 :
  good (zlen g) (Y ++ [z]) -> good (zlen g) (Y ++ Z2) ->
  (forall pos B, 0 <= pos -> asc_disjoint pos (z :: B) (zlen g) = true ->
     asc_disjoint pos (Z2 ++ B) (zlen g) = true /\ splice (Z2 ++ B) g = splice (z :: B) g) ->
  splice (isort (Y ++ Z2)) g = splice (isort (Y ++ [z])) g.
Proof.
  intros [G1 G1'] [G2 G2'] Hloc.
  pose proof (isort_perm (Y ++ [z])) as HP.
  assert (Hin : In z (isort (Y ++ [z]))).
  { eapply Permutation_in; [symmetry; exact HP|]. apply in_or_app. right. now left. }
  apply in_split in Hin as (A & B & E). rewrite E in *.
  apply asc_app in G1 as [A1 A2]. pose proof (asc_endpos_ge _ _ _ A1) as Hp.
  destruct (Hloc _ _ Hp A2) as [A3 S3].
  assert (PY : Permutation (A ++ B) Y).
  { apply (Permutation_cons_inv (a := z)).
    rewrite (Permutation_middle A B z), HP. apply Permutation_sym, Permutation_cons_append. }
  assert (Pq : Permutation (A ++ Z2 ++ B) (Y ++ Z2)).
  { rewrite <- PY. rewrite app_assoc, (Permutation_app_comm A Z2), <- app_assoc.
    apply Permutation_app_comm. }
  assert (Aq : asc_disjoint 0 (A ++ Z2 ++ B) (zlen g) = true) by (apply asc_app; auto).
  rewrite <- (sorted_perm_unique _ _ Pq (asc_nondecreasing _ _ _ Aq) G2').
  rewrite (splice_app A), S3. now rewrite <- splice_app.
Qed.

Lemma split_struct n : forall off rem blob,
  0 <= rem -> (n = 0%nat \/ 0 < rem) ->
  Forall (fun p => off <= p_off p /\ 0 <= p_old p /\
                   p_off p + p_old p <= off + Z.of_nat n * uint32Max + rem /\
                   (p_off p = off \/ p_off p < off + Z.of_nat n * uint32Max + rem))
         (split_pieces n off ++ [mkPatch (off + Z.of_nat n * uint32Max) rem blob]) /\
  pw (split_pieces n off ++ [mkPatch (off + Z.of_nat n * uint32Max) rem blob]).
Proof.
  induction n as [|n IH]; intros off rem blob Hrem Hn.
  - cbn [split_pieces app]. split; [|cbn; auto]. constructor; [|constructor].
    cbn [p_off p_old]. lia.
  - destruct Hn as [Hn|Hn]; [discriminate|].
    cbn [split_pieces]. rewrite <- app_comm_cons.
    replace (off + Z.of_nat (S n) * uint32Max) with ((off + uint32Max) + Z.of_nat n * uint32Max) by lia.
    destruct (IH (off + uint32Max) rem blob Hrem (or_intror Hn)) as [F P].
    assert (HM : 0 < uint32Max) by (unfold uint32Max; lia).
    assert (Hn0 : 0 <= Z.of_nat n * uint32Max) by (unfold uint32Max; lia).
    assert (HS : Z.of_nat (S n) * uint32Max = uint32Max + Z.of_nat n * uint32Max) by lia.
    split.
    + constructor; [cbn [p_off p_old]; lia|].
      eapply Forall_impl; [|exact F]. cbv beta. intros p Hp. lia.
    + split; [|exact P]. eapply Forall_impl; [|exact F]. cbv beta. intros p Hp.
      unfold sep. cbn [p_off p_old]. lia.
Qed.

Lemma fresh_good g Y off old blob :
  good (zlen g) (Y ++ [mkPatch off old blob]) ->
  good (zlen g) (Y ++ add_fresh off old blob) /\
  splice (isort (Y ++ add_fresh off old blob)) g = splice (isort (Y ++ [mkPatch off old blob])) g.
Proof.
  intros G.
  assert (G2 : good (zlen g) (Y ++ add_fresh off old blob)).
  { apply good_iff in G as [I P]. apply good_iff.
    apply Forall_app in I as [IY Ic]. apply pw_app in P as (PY & _ & PYc).
    inversion Ic as [|? ? Ic1 _]; subst. unfold inb in Ic1. cbn [p_off p_old] in Ic1.
    destruct (split_count_facts old ltac:(lia)) as (K1 & K2 & K3).
    unfold add_fresh. set (k := split_count old) in *. cbv zeta.
    pose (n := Z.to_nat k). assert (Hk : k = Z.of_nat n) by (unfold n; lia).
    replace (Z.to_nat k) with n by reflexivity. rewrite Hk in *.
    destruct (split_struct n off (old - Z.of_nat n * uint32Max) blob K2) as [F P]; [lia|].
    set (Zs := split_pieces n off ++ _) in *.
    split.
    - apply Forall_app. split; [exact IY|]. eapply Forall_impl; [|exact F].
      cbv beta. unfold inb. intros p Hp. lia.
    - apply pw_app. repeat split; try assumption.
      eapply Forall_impl; [|exact PYc]. cbv beta. intros y Hy. inversion Hy as [|? ? Hyc _]; subst.
      eapply Forall_impl; [|exact F]. cbv beta. intros p Hp.
      unfold sep in *. cbn [p_off p_old] in Hyc. lia. }
  split; [exact G2|].
  apply block_subst; [exact G|exact G2|]. intros pos B Hpos HA. now apply local_fresh.
Qed.

Lemma merge_good g Y last off old blob m :
  try_coalesce last off old blob = Some m ->
  good (zlen g) (Y ++ [last; mkPatch off old blob]) ->
  good (zlen g) (Y ++ [m]) /\
  splice (isort (Y ++ [m])) g = splice (isort (Y ++ [last; mkPatch off old blob])) g.
Proof.
  intros Hc G. pose proof Hc as Hc'. apply coalesce_inv in Hc' as [Eo Em].
  pose proof G as G'. apply good_iff in G' as [I P].
  apply Forall_app in I as [IY Ic]. apply pw_app in P as (PY & _ & PYc).
  inversion Ic as [|? ? Il Ic']; subst x l. inversion Ic' as [|? ? Ic1 _]; subst x l.
  unfold inb in Il, Ic1. cbn [p_off p_old] in Ic1.
  assert (G1 : good (zlen g) (Y ++ [m])).
  { apply good_iff. split.
    - apply Forall_app. split; [exact IY|]. constructor; [|constructor].
      rewrite Em. unfold inb. cbn [p_off p_old]. lia.
    - apply pw_app. repeat split; try assumption; try constructor.
      eapply Forall_impl; [|exact PYc]. cbv beta. intros y Hy.
      inversion Hy as [|? ? Hy1 Hy']; subst x l. inversion Hy' as [|? ? Hy2 _]; subst x l.
      constructor; [|constructor]. rewrite Em. unfold sep in *. cbn [p_off p_old] in *. lia. }
  split; [exact G1|]. symmetry.
  apply block_subst; [exact G1|exact G|]. intros pos B Hpos HA.
  assert (HB : asc_disjoint pos (last :: mkPatch off old blob :: B) (zlen g) = true).
  { eapply local_merge_bwd; [exact Hc| | |exact HA]; lia. }
  destruct (local_merge_fwd _ _ _ _ _ _ _ _ Hc Hpos HB) as [_ S]. split; [exact HB|]. now symmetry.
Qed.

Lemma anyorder_inv g : forall cs X,
  good (zlen g) (X ++ map call_patch cs) ->
  good (zlen g) (X ++ add_all cs) /\
  splice (isort (X ++ add_all cs)) g = splice (isort (X ++ map call_patch cs)) g.
Proof.
  induction cs as [|c cs IH] using rev_ind; intros X G.
  - cbn [map add_all fold_left]. auto.
  - rewrite map_app in *. cbn [map] in *.
    set (C := map call_patch cs) in *. set (pc := call_patch c) in *.
    assert (P1 : Permutation (X ++ C ++ [pc]) ((X ++ [pc]) ++ C)).
    { rewrite <- app_assoc. apply Permutation_app_head. apply Permutation_app_comm. }
    pose proof (good_perm _ _ _ G P1) as G1.
    destruct (IH _ G1) as [G2 S2].
    assert (P2 : Permutation ((X ++ [pc]) ++ add_all cs) ((X ++ add_all cs) ++ [pc])).
    { rewrite <- !app_assoc. apply Permutation_app_head. apply Permutation_app_comm. }
    pose proof (good_perm _ _ _ G2 P2) as G3.
    rewrite (good_perm_isort _ _ _ G1 (Permutation_sym P1)).
    rewrite <- S2. rewrite <- (good_perm_isort _ _ _ G2 P2).
    clear G G1 G2 S2 P1 P2 IH.
    rewrite add_all_snoc. unfold pc, call_patch in *.
    destruct (add_cases (add_all cs) (c_off c) (c_old c) (c_blob c)) as [E|(front & last & m & E1 & E2 & E3)].
    + rewrite E, app_assoc. now apply fresh_good.
    + rewrite E3. rewrite E1 in G3 |- *. rewrite !app_assoc. rewrite app_assoc in G3.
      rewrite <- (app_assoc (X ++ front)) in G3 |- *. cbn [app] in *.
      now apply merge_good.
Qed.

Lemma apply_anyorder : forall cs file,
  asc_disjoint 0 (isort (map call_patch cs)) (zlen file) = true ->
  strictly_asc (isort (map call_patch cs)) = true ->
  rewrite (isort (add_all cs)) file = Ok (splice_calls cs file).
Proof.
  intros cs file H1 H2.
  destruct (anyorder_inv file cs []) as [[A _] S]; [split; assumption|].
  cbn [app] in *. rewrite rewrite_sorted by exact A. unfold splice_calls. now rewrite S.
Qed.
