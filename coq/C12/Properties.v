From Relic Require Import Base.Prelude C12.Model.
Theorem placeholder_c12 : True. Proof. exact I. Qed.
