(* C12/Properties.v — property theorems only. Each is closed by a lemma of C12/Proofs.v. *)
From Relic Require Import Base.Prelude Base.Enc Generated.C12_gen C12.Model C12.Proofs C12.FsModel C12.FsProofs C12.AliasModel C12.AliasProofs.
From Coq Require Import Permutation.

(* 1. write-then-rename on an ascending, disjoint, in-bounds patch list is the reference splice *)
Theorem rewrite_is_splice : forall ps file,
  asc_disjoint 0 ps (zlen file) = true -> rewrite ps file = Ok (splice ps file).
Proof. exact C12.Proofs.rewrite_sorted. Qed.

(* 2. Add in file order: coalescing and 4 GiB splitting never change the meaning *)
Theorem add_fileorder_sound : forall cs file,
  asc_disjoint 0 (map call_patch cs) (zlen file) = true ->
  asc_disjoint 0 (add_all cs) (zlen file) = true /\
  splice (add_all cs) file = splice (map call_patch cs) file.
Proof. exact C12.Proofs.add_fileorder_sound. Qed.

(* 3. the sort in Dump: with distinct offsets every offset-sorted permutation is the insertion sort *)
Theorem sorted_perm_unique : forall q ps,
  Permutation q ps -> nondecreasing q = true -> strictly_asc (isort ps) = true -> q = isort ps.
Proof. exact C12.Proofs.sorted_perm_unique. Qed.

(* 4. whole pipeline, builders that add in file order (PE, CAB, JAR, XAP, ...) *)
Theorem apply_fileorder : forall cs file q,
  asc_disjoint 0 (map call_patch cs) (zlen file) = true ->
  Permutation q (add_all cs) -> nondecreasing q = true -> strictly_asc (isort (add_all cs)) = true ->
  rewrite q file = Ok (splice_calls cs file).
Proof. exact C12.Proofs.apply_fileorder. Qed.

(* 5. whole pipeline, builders that add in any order with distinct offsets (Mach-O) *)
Theorem apply_anyorder : forall cs file,
  asc_disjoint 0 (isort (map call_patch cs)) (zlen file) = true ->
  strictly_asc (isort (map call_patch cs)) = true ->
  rewrite (isort (add_all cs)) file = Ok (splice_calls cs file).
Proof. exact C12.Proofs.apply_anyorder. Qed.

(* 6. serialise / parse round trip *)
Theorem load_dump : forall ps,
  Forall patch_ok ps -> zlen ps < 2 ^ 32 -> load (dump_sorted ps) = Ok ps.
Proof. exact C12.Proofs.load_dump. Qed.

(* 7. truncated or wrong-version patches are rejected (Load precedes any access to the target) *)
Theorem load_rejects_prefix : forall ps n,
  Forall patch_ok ps -> zlen ps < 2 ^ 32 -> 0 <= n < zlen (dump_sorted ps) ->
  exists e, load (ztake n (dump_sorted ps)) = Err e.
Proof. exact C12.Proofs.load_rejects_prefix. Qed.
Theorem load_rejects_version : forall l,
  8 <= zlen l -> be_dec (zslice 0 4 l) <> 1 -> load l = Err E_VERSION.
Proof. exact C12.Proofs.load_rejects_version. Qed.

(* 8. in-place and write-then-rename agree whenever Apply chooses in-place *)
Theorem inplace_eq_rewrite : forall ps file size,
  asc_disjoint 0 ps (zlen file) = true -> eligible ps file = Some size ->
  rewrite ps file = Ok (inplace ps file size).
Proof. exact C12.Proofs.inplace_eq_rewrite. Qed.

(* non-vacuity: a PE-like shape (checksum field, dir entry, appended table) and a JAR-like shape *)
Example pe_shape_in_domain :
  let file := repeat 7 40%nat in
  let cs := [mkCall 8 4 [1;2;3;4]; mkCall 20 8 [0;0;0;0;9;9;9;9]; mkCall 40 0 [5;5;5]] in
  asc_disjoint 0 (map call_patch cs) (zlen file) = true /\
  eligible (add_all cs) file = Some 43 /\
  rewrite (add_all cs) file = Ok (inplace (add_all cs) file 43).
Proof. vm_compute. repeat split. Qed.
Example coalesce_happens : add_all [mkCall 0 2 [1]; mkCall 2 3 [2; 3]] = [mkPatch 0 5 [1; 2; 3]].
Proof. reflexivity. Qed.

(* ------------------------------------------------------------------ which file Apply writes to (C12/FsModel.v)
   hist ranges over ALL sequences of create-by-rename / overwrite / unlink / hard link / rename / mkdir / symlink /
   open / seek performed before Apply; outpath over all strings ("" = the name the handle was opened under). *)

(* 9. after Apply returns nil the file NAMED by the output path holds the splice of the bytes of the file the HANDLE
      refers to — whichever strategy the stat results made Apply choose *)
Theorem apply_after_history : forall hist ps outpath h s',
  let s := run_history hist fs0 in
  f_handle s = Some h ->
  asc_disjoint 0 ps (zlen (data_of s (h_ino h))) = true ->
  apply_fs ps outpath s = Ok s' ->
  read_path s' (spec_outpath outpath (h_name h)) = Some (splice ps (data_of s (h_ino h))).
Proof. exact C12.FsProofs.apply_after_history. Qed.

(* 10. Apply writes through the handle only when the handle's inode is a regular file, is what the output path names
       now, and has exactly one link *)
Theorem inplace_only_when_safe : forall hist ps outpath h,
  let s := run_history hist fs0 in
  f_handle s = Some h -> chose_inplace ps outpath s = true ->
  lookup s (spec_outpath outpath (h_name h)) = Some (h_ino h) /\ nlink_of (h_ino h) (f_names s) = 1 /\
  kind_of s (h_ino h) = K_REG.
Proof. exact C12.FsProofs.inplace_only_when_safe. Qed.
Theorem inplace_matches_spec : forall hist ps outpath,
  let s := run_history hist fs0 in
  chose_inplace ps outpath s = true -> spec_inplace_allowed outpath s = true.
Proof. exact C12.FsProofs.inplace_matches_spec. Qed.

(* 11. no other name changes what it refers to or what a reader sees there (the reason for the one-link rule) *)
Theorem other_names_untouched : forall hist ps outpath h s' q,
  let s := run_history hist fs0 in
  f_handle s = Some h -> apply_fs ps outpath s = Ok s' ->
  canon q <> canon (spec_outpath outpath (h_name h)) ->
  read_path s' q = read_path s q.
Proof. exact C12.FsProofs.other_names_untouched. Qed.

(* 12. the in-place strategy and the write-then-rename strategy produce identical results: same history, same patch
       set, any two output paths *)
Theorem strategies_agree : forall hist ps o1 o2 h s1 s2,
  let s := run_history hist fs0 in
  f_handle s = Some h ->
  asc_disjoint 0 ps (zlen (data_of s (h_ino h))) = true ->
  apply_fs ps o1 s = Ok s1 -> apply_fs ps o2 s = Ok s2 ->
  read_path s1 (spec_outpath o1 (h_name h)) = read_path s2 (spec_outpath o2 (h_name h)).
Proof. exact C12.FsProofs.strategies_agree. Qed.

(* 13. a valid application is carried out: ranges inside the handle's file, the output path does not name a directory
       => Apply returns nil (with 9: and the output path then holds the splice) — for read-only handles as well: the
       in-place strategy is never chosen through a handle that cannot be written (fix: canWrite in Apply) *)
Theorem apply_total : forall hist ps outpath h,
  let s := run_history hist fs0 in
  f_handle s = Some h ->
  asc_disjoint 0 ps (zlen (data_of s (h_ino h))) = true ->
  (forall j, lookup s (spec_outpath outpath (h_name h)) = Some j -> kind_of s j <> K_DIR) ->
  exists s', apply_fs ps outpath s = Ok s'.
Proof. exact C12.FsProofs.apply_total. Qed.
Theorem inplace_needs_writable : forall s ps outpath h,
  f_handle s = Some h -> chose_inplace ps outpath s = true -> h_rw h = true.
Proof. exact C12.FsProofs.inplace_needs_writable. Qed.

(* non-vacuity: P = "in", Q = "out", L = "ln"; an in-place eligible patch set (size-preserving + append at EOF) *)
Definition xP : bytes := [105; 110].
Definition xQ : bytes := [111; 117; 116].
Definition xL : bytes := [108; 110].
Definition xps : list patch := [mkPatch 1 2 [8; 9]; mkPatch 4 0 [5; 5]].
Definition xd0 : bytes := [1; 2; 3; 4].
Definition xd1 : bytes := [7; 7; 7; 7; 7].
Definition after (hist : list op) (outpath : bytes) (p : bytes) : bool * option bytes :=
  let s := run_history hist fs0 in
  (chose_inplace xps outpath s, match apply_fs xps outpath s with Ok s' => read_path s' p | _ => None end).
(* fresh open, same name: in place *)
Example hist_fresh_inplace : after [OCreate xP xd0; OOpen xP] [] xP = (true, Some [1; 8; 9; 4; 5; 5]).
Proof. vm_compute. reflexivity. Qed.
(* the path was replaced by write-then-rename after the open (the handle's inode has 0 links): rewrite, and the
   path gets the splice of the HANDLE's bytes, not of the replacement *)
Example hist_replaced_rewrite :
  after [OCreate xP xd0; OOpen xP; OCreate xP xd1] [] xP = (false, Some [1; 8; 9; 4; 5; 5]) /\
  after [OCreate xP xd0; OOpen xP; OCreate xP xd1] xP xP = (false, Some [1; 8; 9; 4; 5; 5]).
Proof. vm_compute. split; reflexivity. Qed.
(* the file was renamed away and a new one created under the old name: the handle's inode still has ONE link *)
Example hist_renamed_away_rewrite :
  after [OCreate xP xd0; OOpen xP; ORename xP xQ; OCreate xP xd1] [] xP = (false, Some [1; 8; 9; 4; 5; 5]) /\
  after [OCreate xP xd0; OOpen xP; ORename xP xQ; OCreate xP xd1] [] xQ = (false, Some xd0) /\
  after [OCreate xP xd0; OOpen xP; ORename xP xQ; OCreate xP xd1] xQ xQ = (true, Some [1; 8; 9; 4; 5; 5]).
Proof. vm_compute. repeat split; reflexivity. Qed.
(* hard-linked: rewrite, the other name keeps the old bytes; unlinked: the name is created again *)
Example hist_hardlink_rewrite :
  after [OCreate xP xd0; OOpen xP; OLink xP xL] [] xP = (false, Some [1; 8; 9; 4; 5; 5]) /\
  after [OCreate xP xd0; OOpen xP; OLink xP xL] [] xL = (false, Some xd0) /\
  after [OCreate xP xd0; OOpen xP; OUnlink xP] [] xP = (false, Some [1; 8; 9; 4; 5; 5]).
Proof. vm_compute. repeat split; reflexivity. Qed.
(* a read-only handle on the single-link file at the output path (relic sign -f ./x -o x): write-then-rename *)
Example hist_readonly_rewrite :
  after [OCreate xP xd0; OOpenRO xP] [] xP = (false, Some [1; 8; 9; 4; 5; 5]) /\
  after [OCreate xP xd0; OOpenRO xP] xP xP = (false, Some [1; 8; 9; 4; 5; 5]).
Proof. vm_compute. split; reflexivity. Qed.
(* a directory at the output path: the rename fails, Apply returns an error (the theorems' hypothesis Ok is not vacuous
   only because this is the sole failing shape in the domain) *)
Example hist_dir_dest_error :
  apply_fs xps xQ (run_history [OCreate xP xd0; OOpen xP; OMkdir xQ] fs0) = Err E_RENAME.
Proof. vm_compute. reflexivity. Qed.

(* ------------------------------------------------------------------ aliasing of the blobs handed to Add (C12/AliasModel.v)
   h0 = the caller's buffers; every call's blob is an arbitrary view (buffer, offset, length, capacity) of them — views may
   overlap, share a buffer, and have spare capacity reaching into other blobs. *)

(* 14. no Add writes a byte of any existing buffer (the heap only grows), so every previously added blob and every caller
       slice still shows what it showed, and the patch set denotes Model.add_all of the blob CONTENTS AT CALL TIME *)
Theorem add_never_writes_caller_bytes : forall h0 cs,
  Forall (fun c => view_ok h0 (hc_view c)) cs ->
  (exists ext, fst (hadd_all h0 cs) = h0 ++ ext) /\
  (forall v, ((v_buf v < length h0)%nat \/ v_len v <= 0) -> read (fst (hadd_all h0 cs)) v = read h0 v) /\
  denote (hadd_all h0 cs) = add_all (map (snap h0) cs).
Proof. exact C12.AliasProofs.add_never_writes_caller_bytes. Qed.
Theorem add_allocates_merged_blob : add_merge_mode = 0 /\ add_writes_through_caller = false /\ add_stores_caller_slice = true.
Proof. exact C12.AliasProofs.add_allocates_merged_blob. Qed.

(* 15. hence the whole pipeline over aliased blobs: the result is the reference splice of the call-time contents *)
Theorem apply_anyorder_aliased : forall h0 cs file,
  Forall (fun c => view_ok h0 (hc_view c)) cs ->
  asc_disjoint 0 (isort (map call_patch (map (snap h0) cs))) (zlen file) = true ->
  strictly_asc (isort (map call_patch (map (snap h0) cs))) = true ->
  rewrite (isort (denote (hadd_all h0 cs))) file = Ok (splice_calls (map (snap h0) cs) file).
Proof. exact C12.AliasProofs.apply_anyorder_aliased. Qed.
Theorem add_fileorder_aliased : forall h0 cs file,
  Forall (fun c => view_ok h0 (hc_view c)) cs ->
  asc_disjoint 0 (map call_patch (map (snap h0) cs)) (zlen file) = true ->
  splice (denote (hadd_all h0 cs)) file = splice (map call_patch (map (snap h0) cs)) file.
Proof. exact C12.AliasProofs.add_fileorder_aliased. Qed.

(* non-vacuity: hdr = "AAAABBBBCCCCDDDD" (65..68 x4); Add(20,4,hdr[4:8]); Add(0,4,hdr[0:4]); Add(4,4,"XXXX") — the third call
   coalesces with the second, whose blob has spare capacity reaching into the first call's blob *)
Definition xhdr : bytes := [65;65;65;65;66;66;66;66;67;67;67;67;68;68;68;68].
Definition xh0 : heap := [xhdr; [88;88;88;88]].
Definition xcs : list hcall := [mkHC 20 4 (mkView 0 4 4 12); mkHC 0 4 (mkView 0 0 4 16); mkHC 4 4 (mkView 1 0 4 4)].
Example shared_header_in_domain :
  Forall (fun c => view_ok xh0 (hc_view c)) xcs /\
  denote (hadd_all xh0 xcs) = [mkPatch 20 4 [66;66;66;66]; mkPatch 0 8 [65;65;65;65;88;88;88;88]] /\
  fst (hadd_all xh0 xcs) = xh0 ++ [[65;65;65;65;88;88;88;88]].
Proof. split; [repeat constructor; vm_compute; (lia || reflexivity) | vm_compute; split; reflexivity]. Qed.
(* the theorem is about the source: the same calls under the OTHER merge (append onto the previous blob) overwrite the
   first call's content behind its back — this is what add_merge_mode = 0 excludes *)
Example append_merge_would_alias :
  denote (hadd_all_mode 1 xh0 xcs) = [mkPatch 20 4 [88;88;88;88]; mkPatch 0 8 [65;65;65;65;88;88;88;88]] /\
  buf_at (fst (hadd_all_mode 1 xh0 xcs)) 0 <> xhdr.
Proof. vm_compute. split; [reflexivity | discriminate]. Qed.
