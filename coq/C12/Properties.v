(* C12/Properties.v — property theorems only. Each is closed by a lemma of C12/Proofs.v. *)
From Relic Require Import Base.Prelude Base.Enc Generated.C12_gen C12.Model C12.Proofs.
From Coq Require Import Permutation.

(* 1. write-then-rename on an ascending, disjoint, in-bounds patch list is the reference splice *)
Theorem rewrite_is_splice : forall ps file,
  asc_disjoint 0 ps (zlen file) = true -> rewrite ps file = Ok (splice ps file).
Proof. exact C12.Proofs.rewrite_sorted. Qed.

(* 2. Add in file order: coalescing and 4 GiB splitting never change the meaning *)
Theorem add_fileorder_sound : forall cs file,
  asc_disjoint 0 (map call_patch cs) (zlen file) = true ->
  asc_disjoint 0 (add_all cs) (zlen file) = true /\
  splice (add_all cs) file = splice (map call_patch cs) file.
Proof. exact C12.Proofs.add_fileorder_sound. Qed.

(* 3. the sort in Dump: with distinct offsets every offset-sorted permutation is the insertion sort *)
Theorem sorted_perm_unique : forall q ps,
  Permutation q ps -> nondecreasing q = true -> strictly_asc (isort ps) = true -> q = isort ps.
Proof. exact C12.Proofs.sorted_perm_unique. Qed.

(* 4. whole pipeline, builders that add in file order (PE, CAB, JAR, XAP, ...) *)
Theorem apply_fileorder : forall cs file q,
  asc_disjoint 0 (map call_patch cs) (zlen file) = true ->
  Permutation q (add_all cs) -> nondecreasing q = true -> strictly_asc (isort (add_all cs)) = true ->
  rewrite q file = Ok (splice_calls cs file).
Proof. exact C12.Proofs.apply_fileorder. Qed.

(* 5. whole pipeline, builders that add in any order with distinct offsets (Mach-O) *)
Theorem apply_anyorder : forall cs file,
  asc_disjoint 0 (isort (map call_patch cs)) (zlen file) = true ->
  strictly_asc (isort (map call_patch cs)) = true ->
  rewrite (isort (add_all cs)) file = Ok (splice_calls cs file).
Proof. exact C12.Proofs.apply_anyorder. Qed.

(* 6. serialise / parse round trip *)
Theorem load_dump : forall ps,
  Forall patch_ok ps -> zlen ps < 2 ^ 32 -> load (dump_sorted ps) = Ok ps.
Proof. exact C12.Proofs.load_dump. Qed.

(* 7. truncated or wrong-version patches are rejected (Load precedes any access to the target) *)
Theorem load_rejects_prefix : forall ps n,
  Forall patch_ok ps -> zlen ps < 2 ^ 32 -> 0 <= n < zlen (dump_sorted ps) ->
  exists e, load (ztake n (dump_sorted ps)) = Err e.
Proof. exact C12.Proofs.load_rejects_prefix. Qed.
Theorem load_rejects_version : forall l,
  8 <= zlen l -> be_dec (zslice 0 4 l) <> 1 -> load l = Err E_VERSION.
Proof. exact C12.Proofs.load_rejects_version. Qed.

(* 8. in-place and write-then-rename agree whenever Apply chooses in-place *)
Theorem inplace_eq_rewrite : forall ps file size,
  asc_disjoint 0 ps (zlen file) = true -> eligible ps file = Some size ->
  rewrite ps file = Ok (inplace ps file size).
Proof. exact C12.Proofs.inplace_eq_rewrite. Qed.

(* non-vacuity: a PE-like shape (checksum field, dir entry, appended table) and a JAR-like shape *)
Example pe_shape_in_domain :
  let file := repeat 7 40%nat in
  let cs := [mkCall 8 4 [1;2;3;4]; mkCall 20 8 [0;0;0;0;9;9;9;9]; mkCall 40 0 [5;5;5]] in
  asc_disjoint 0 (map call_patch cs) (zlen file) = true /\
  eligible (add_all cs) file = Some 43 /\
  rewrite (add_all cs) file = Ok (inplace (add_all cs) file 43).
Proof. vm_compute. repeat split. Qed.
Example coalesce_happens : add_all [mkCall 0 2 [1]; mkCall 2 3 [2; 3]] = [mkPatch 0 5 [1; 2; 3]].
Proof. reflexivity. Qed.
