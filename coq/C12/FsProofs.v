(* C12/FsProofs.v — lemmas about C12/FsModel.v: whichever strategy Apply chooses after whatever happened to the
   path between open and Apply, the file named by the output path ends up holding the splice of the HANDLE's bytes;
   the in-place strategy is chosen only for the single name of the handle's own inode; no other name changes. *)
From Relic Require Import Base.Prelude Generated.C12_gen C12.Model C12.Proofs C12.FsModel.

Lemma bytes_eqb_refl p : bytes_eqb p p = true.
Proof. apply list_eqb_Z_eq. reflexivity. Qed.

(* what canOverwrite = true tells about two stat results *)
Lemma can_ow_true s i j :
  can_ow (stat_of s i) (stat_of s j) = true ->
  j = i /\ kind_of s i = K_REG /\ has_links true (nlink_of i (f_names s)) = false.
Proof.
  unfold can_ow, can_overwrite_io. cbn [stat_of i_kind i_ino i_nlink].
  destruct (kind_of s j =? K_REG) eqn:K; cbn [negb]; [|discriminate].
  destruct (i =? j) eqn:E; cbn [negb]; [|discriminate].
  apply Z.eqb_eq in E. subst j.
  destruct (has_links true (nlink_of i (f_names s))) eqn:L; [discriminate|].
  intros _. repeat split. now apply Z.eqb_eq in K.
Qed.

Ltac split_ifs := repeat match goal with
  | |- context[match lookup ?s ?p with _ => _ end] => destruct (lookup s p) eqn:?
  | |- context[if ?c then _ else _] => destruct c eqn:?
  end.

Lemma strategy_cases s h outpath :
  match strategy s h outpath with
  | SRewrite op => op = spec_outpath outpath (h_name h)
  | SInplace op a b sz =>
      op = spec_outpath outpath (h_name h) /\ a = stat_of s (h_ino h) /\ sz = i_size a /\
      lookup s op = Some (h_ino h) /\ kind_of s (h_ino h) = K_REG /\ has_links true (nlink_of (h_ino h) (f_names s)) = false /\
      h_rw h = true
  | SReturn _ => False
  end.
Proof.
  unfold strategy, apply_prefix.
  destruct outpath as [|c r]; cbn [bytes_eqb list_eqb spec_outpath]; cbv beta zeta iota;
  split_ifs; try reflexivity; try discriminate;
  repeat match goal with
  | H : (_ || _) = false |- _ => apply orb_false_iff in H; destruct H
  | H : negb _ = false |- _ => apply negb_false_iff in H
  | H : can_ow (stat_of _ _) (stat_of _ _) = true |- _ => apply can_ow_true in H; destruct H as (? & ? & ?); subst
  end; try discriminate; repeat split; try assumption; try reflexivity.
Qed.

Lemma has_links_one n : 1 <= n -> has_links true n = false -> n = 1.
Proof. unfold has_links. cbv beta zeta iota. cbn [negb]. intros H1 H2. lia. Qed.

Lemma nlink_cons q k i l : nlink_of i ((q, k) :: l) = (if k =? i then 1 else 0) + nlink_of i l.
Proof. unfold nlink_of. cbn [filter snd]. destruct (k =? i); [rewrite zlen_cons|]; lia. Qed.
Lemma nlink_nonneg i l : 0 <= nlink_of i l.
Proof. unfold nlink_of. apply zlen_nonneg. Qed.

Lemma nlookup_nlink_pos p l i : nlookup p l = Some i -> 1 <= nlink_of i l.
Proof.
  induction l as [|[q k] l IH]; cbn [nlookup]; [discriminate|].
  rewrite nlink_cons. pose proof (nlink_nonneg i l). destruct (bytes_eqb q p).
  - intros E. injection E as ->. rewrite Z.eqb_refl. lia.
  - intros E. apply IH in E. destruct (k =? i); lia.
Qed.

Lemma nlookup_nset_same p i l : nlookup p (nset p i l) = Some i.
Proof. unfold nset. cbn [nlookup]. now rewrite bytes_eqb_refl. Qed.

Lemma inplace_data_eq ps file size : inplace_data ps file size = inplace ps file size.
Proof. reflexivity. Qed.

(* write-then-rename: whatever the path referred to before, it now names a new regular file holding the splice *)
Lemma do_rewrite_exact ps s h op s' :
  asc_disjoint 0 ps (zlen (data_of s (h_ino h))) = true ->
  do_rewrite ps s h op = Ok s' ->
  read_path s' op = Some (splice ps (data_of s (h_ino h))).
Proof.
  intros Hd. unfold do_rewrite. change rewrite_seeks_start with true. cbv iota.
  rewrite (rewrite_sorted _ _ Hd). cbn [bind].
  unfold commit_over. destruct (may_replace _ _ _).
  - intros E. injection E as <-.
    unfold read_path, lookup, with_names, alloc. cbn [f_names f_inodes].
    rewrite nlookup_nset_same. unfold kind_of, data_of. cbn [f_inodes ilookup].
    rewrite Z.eqb_refl. cbn [n_kind n_data]. reflexivity.
  - change rewrite_returns_commit with true. cbv iota. discriminate.
Qed.

Lemma ilookup_iset_same i n l : ilookup i (iset i n l) = Some n.
Proof.
  induction l as [|[j m] l IH]; cbn [iset ilookup]; [now rewrite Z.eqb_refl|].
  destruct (j =? i) eqn:E; cbn [ilookup]; [now rewrite Z.eqb_refl|now rewrite E].
Qed.
Lemma ilookup_iset_other i j n l : j <> i -> ilookup j (iset i n l) = ilookup j l.
Proof.
  intros Hn. induction l as [|[k m] l IH]; cbn [iset ilookup].
  - destruct (i =? j) eqn:E; [lia|reflexivity].
  - destruct (k =? i) eqn:E; cbn [ilookup].
    + destruct (i =? j) eqn:E1; [lia|]. destruct (k =? j) eqn:E2; [lia|reflexivity].
    + destruct (k =? j); [reflexivity|exact IH].
Qed.

Lemma kind_of_iset s i n : kind_of (with_inodes s (iset i n (f_inodes s))) i = n_kind n.
Proof. unfold kind_of, with_inodes. cbn [f_inodes]. now rewrite ilookup_iset_same. Qed.
Lemma data_of_iset s i n : data_of (with_inodes s (iset i n (f_inodes s))) i = n_data n.
Proof. unfold data_of, with_inodes. cbn [f_inodes]. now rewrite ilookup_iset_same. Qed.

Theorem apply_fs_exact_any s ps outpath h s' :
  f_handle s = Some h ->
  asc_disjoint 0 ps (zlen (data_of s (h_ino h))) = true ->
  apply_fs ps outpath s = Ok s' ->
  read_path s' (spec_outpath outpath (h_name h)) = Some (splice ps (data_of s (h_ino h))).
Proof.
  intros Hh Hd. unfold apply_fs. rewrite Hh.
  pose proof (strategy_cases s h outpath) as SC.
  destruct (strategy s h outpath) as [op|op a b sz|e].
  - subst op. now apply do_rewrite_exact.
  - destruct SC as (-> & -> & -> & L & K & _ & _). cbn [stat_of i_size].
    destruct (eligible_from _ _ _ _ _) as [z|] eqn:E.
    + destruct (h_rw h); [|discriminate]. intros X. injection X as <-.
      unfold read_path. replace (lookup (with_inodes s _) (spec_outpath outpath (h_name h))) with (Some (h_ino h)) by (symmetry; exact L).
      rewrite kind_of_iset, data_of_iset. cbn [n_kind n_data]. rewrite K. change (K_REG =? K_REG) with true. cbv iota.
      f_equal. rewrite inplace_data_eq.
      pose proof (inplace_eq_rewrite ps _ z Hd E) as R. rewrite (rewrite_sorted _ _ Hd) in R. now injection R.
    + now apply do_rewrite_exact.
  - contradiction.
Qed.

Theorem inplace_only_when_safe_any s ps outpath h :
  f_handle s = Some h -> chose_inplace ps outpath s = true ->
  lookup s (spec_outpath outpath (h_name h)) = Some (h_ino h) /\ nlink_of (h_ino h) (f_names s) = 1 /\
  kind_of s (h_ino h) = K_REG.
Proof.
  intros Hh. unfold chose_inplace. rewrite Hh.
  pose proof (strategy_cases s h outpath) as SC.
  destruct (strategy s h outpath) as [op|op a b sz|e]; try discriminate.
  destruct SC as (-> & -> & -> & L & K & N & _). intros _. repeat split; try assumption.
  apply has_links_one; [|exact N]. unfold lookup in L. now apply nlookup_nlink_pos in L.
Qed.

(* ------------------------------------------------------------------ reachable states *)
Definition wf (s : fs) : Prop :=
  (forall p i, In (p, i) (f_names s) -> i < f_next s) /\ (forall i n, In (i, n) (f_inodes s) -> i < f_next s).

Lemma nlookup_in p l i : nlookup p l = Some i -> exists q, In (q, i) l.
Proof.
  induction l as [|[q k] l IH]; cbn [nlookup]; [discriminate|].
  destruct (bytes_eqb q p).
  - intros E. injection E as ->. exists q. now left.
  - intros E. destruct (IH E) as [q' H]. exists q'. now right.
Qed.
Lemma in_nremove e p l : In e (nremove p l) -> In e l.
Proof. unfold nremove. intros H. now apply filter_In in H. Qed.
Lemma in_nset q j p i l : In (q, j) (nset p i l) -> j = i \/ In (q, j) l.
Proof. unfold nset. intros [E|H]; [left; congruence|right; now apply in_nremove in H]. Qed.
Lemma in_iset j m i n l : In (j, m) (iset i n l) -> j = i \/ In (j, m) l.
Proof.
  induction l as [|[k x] l IH]; cbn [iset].
  - intros [E|[]]. left. congruence.
  - destruct (k =? i) eqn:E.
    + intros [H|H]; [left; congruence|right; now right].
    + intros [H|H]; [right; now left|]. destruct (IH H); [now left|right; now right].
Qed.

Lemma wf_fs0 : wf fs0.
Proof. split; intros ? ? []. Qed.

Lemma lookup_lt s p i : wf s -> lookup s p = Some i -> i < f_next s.
Proof. intros [W _] L. apply nlookup_in in L as [q H]. eauto. Qed.

Lemma wf_alloc s k d : wf s -> wf (alloc s k d).
Proof.
  intros [W1 W2]. split; cbn [alloc f_names f_inodes f_next].
  - intros p i H. apply W1 in H. lia.
  - intros i n [E|H]; [injection E as <- _; lia|apply W2 in H; lia].
Qed.
Lemma wf_nset s p i : wf s -> i < f_next s -> wf (with_names s (nset p i (f_names s))).
Proof.
  intros [W1 W2] Hi. split; cbn [with_names f_names f_inodes f_next]; [|exact W2].
  intros q j H. apply in_nset in H as [->|H]; [exact Hi|eauto].
Qed.
Lemma wf_names_sub s l : wf s -> (forall e, In e l -> In e (f_names s)) -> wf (with_names s l).
Proof. intros [W1 W2] Hs. split; cbn [with_names f_names f_inodes f_next]; [|exact W2]. intros p i H. eauto. Qed.
Lemma wf_handle s h : wf s -> wf (with_handle s h).
Proof. intros W. exact W. Qed.
Lemma wf_iset s i n : wf s -> i < f_next s -> wf (with_inodes s (iset i n (f_inodes s))).
Proof.
  intros [W1 W2] Hi. split; cbn [with_inodes f_names f_inodes f_next]; [exact W1|].
  intros j m H. apply in_iset in H as [->|H]; [exact Hi|eauto].
Qed.
Lemma wf_commit s i dst s' : wf s -> i < f_next s -> commit_over s i dst = Some s' -> wf s'.
Proof. unfold commit_over. intros W Hi. destruct (may_replace s i dst); [|discriminate]. intros E. injection E as <-. now apply wf_nset. Qed.

Lemma wf_rename s i src dst : wf s -> i < f_next s ->
  wf (with_names s (nset (canon dst) i (nremove (canon src) (f_names s)))).
Proof.
  intros [W1 W2] Hi. split; cbn [with_names f_names f_inodes f_next]; [|exact W2].
  intros q j H. apply in_nset in H as [->|H]; [exact Hi|]. apply in_nremove in H. eauto.
Qed.

Lemma step_wf o s : wf s -> wf (step o s).
Proof.
  intros W. destruct o as [p d|p d|p|src dst|src dst|p|p|p|p|n]; cbn [step].
  - destruct (commit_over _ _ _) as [s2|] eqn:E; [|exact W].
    eapply wf_commit; [apply wf_alloc; exact W| |exact E]. cbn [alloc f_next]. lia.
  - destruct (lookup s p) as [i|] eqn:L; [|exact W]. destruct (kind_of s i =? K_REG); [|exact W].
    apply wf_iset; [exact W|]. eapply lookup_lt; eauto.
  - apply wf_names_sub; [exact W|]. intros e. apply in_nremove.
  - destruct (lookup s src) as [i|] eqn:L; [|exact W]. destruct (lookup s dst); [exact W|].
    destruct (kind_of s i =? K_DIR); [exact W|]. apply wf_nset; [exact W|]. eapply lookup_lt; eauto.
  - destruct (lookup s src) as [i|] eqn:L; [|exact W].
    assert (Hi : i < f_next s) by (eapply lookup_lt; eauto).
    destruct (lookup s dst) as [j|].
    + destruct (j =? i); [exact W|]. destruct (may_replace s i dst); [|exact W]. now apply wf_rename.
    + now apply wf_rename.
  - destruct (lookup s p); [exact W|].
    apply (wf_nset (alloc s K_DIR [])); [now apply wf_alloc|]. cbn [alloc f_next]. lia.
  - destruct (lookup s p); [exact W|].
    apply (wf_nset (alloc s K_OTHER [])); [now apply wf_alloc|]. cbn [alloc f_next]. lia.
  - destruct (lookup s p) as [i|]; [|exact W]. destruct (kind_of s i =? K_REG); exact W.
  - destruct (lookup s p) as [i|]; [|exact W]. destruct (kind_of s i =? K_REG); exact W.
  - destruct (f_handle s) as [h|]; [|exact W]. destruct (0 <=? n); exact W.
Qed.

Lemma run_wf hist : forall s, wf s -> wf (run_history hist s).
Proof.
  unfold run_history. induction hist as [|o hist IH]; intros s W; cbn [fold_left]; [exact W|].
  apply IH. now apply step_wf.
Qed.

(* ------------------------------------------------------------------ other names keep what they had *)
Lemma nlookup_nremove_other p q l : q <> p -> nlookup q (nremove p l) = nlookup q l.
Proof.
  intros Hn. induction l as [|[r k] l IH]; [reflexivity|].
  unfold nremove. cbn [filter fst nlookup]. fold (nremove p l).
  destruct (bytes_eqb r p) eqn:E1; cbn [negb].
  - apply list_eqb_Z_eq in E1. subst r. destruct (bytes_eqb p q) eqn:E2; [apply list_eqb_Z_eq in E2; congruence|exact IH].
  - cbn [nlookup]. destruct (bytes_eqb r q); [reflexivity|exact IH].
Qed.
Lemma nlookup_nset_other p q i l : q <> p -> nlookup q (nset p i l) = nlookup q l.
Proof.
  intros Hn. unfold nset. cbn [nlookup]. destruct (bytes_eqb p q) eqn:E; [apply list_eqb_Z_eq in E; congruence|].
  now apply nlookup_nremove_other.
Qed.
Lemma two_names p q l i : nlookup p l = Some i -> nlookup q l = Some i -> p <> q -> 2 <= nlink_of i l.
Proof.
  intros Hp Hq Hn. induction l as [|[r k] l IH]; [discriminate|].
  cbn [nlookup] in Hp, Hq. rewrite nlink_cons. pose proof (nlink_nonneg i l).
  destruct (bytes_eqb r p) eqn:E1; destruct (bytes_eqb r q) eqn:E2.
  - apply list_eqb_Z_eq in E1, E2. congruence.
  - injection Hp as ->. rewrite Z.eqb_refl. apply nlookup_nlink_pos in Hq. lia.
  - injection Hq as ->. rewrite Z.eqb_refl. apply nlookup_nlink_pos in Hp. lia.
  - specialize (IH Hp Hq). destruct (k =? i); lia.
Qed.

Lemma do_rewrite_others ps s h op s' q :
  wf s -> do_rewrite ps s h op = Ok s' -> canon q <> canon op -> read_path s' q = read_path s q.
Proof.
  intros W. unfold do_rewrite. destruct (rewrite ps _) as [d| |]; cbn [bind]; try discriminate.
  unfold commit_over. destruct (may_replace _ _ _).
  - intros E Hn. injection E as <-.
    unfold read_path, lookup. cbn [with_names alloc f_names]. rewrite nlookup_nset_other by exact Hn.
    destruct (nlookup (canon q) (f_names s)) as [j|] eqn:L; [|reflexivity].
    assert (Hj : j < f_next s) by (eapply lookup_lt; eauto).
    unfold kind_of, data_of. cbn [with_names alloc f_inodes ilookup]. destruct (f_next s =? j) eqn:E; [lia|reflexivity].
  - change rewrite_returns_commit with true. cbv iota. discriminate.
Qed.

Theorem apply_fs_others_any s ps outpath h s' q :
  wf s -> f_handle s = Some h -> apply_fs ps outpath s = Ok s' ->
  canon q <> canon (spec_outpath outpath (h_name h)) ->
  read_path s' q = read_path s q.
Proof.
  intros W Hh. unfold apply_fs. rewrite Hh.
  pose proof (strategy_cases s h outpath) as SC.
  destruct (strategy s h outpath) as [op|op a b sz|e].
  - subst op. now apply do_rewrite_others.
  - destruct SC as (-> & -> & -> & L & K & N & _). cbn [stat_of i_size].
    destruct (eligible_from _ _ _ _ _) as [z|] eqn:E; [|now apply do_rewrite_others].
    destruct (h_rw h); [|discriminate]. intros X Hn. injection X as <-.
    unfold read_path, lookup. cbn [with_inodes f_names].
    destruct (nlookup (canon q) (f_names s)) as [j|] eqn:Lq; [|reflexivity].
    assert (Hj : j <> h_ino h).
    { intros ->. unfold lookup in L. pose proof (two_names _ _ _ _ Lq L Hn) as T.
      apply has_links_one in N; [lia|]. now apply nlookup_nlink_pos in L. }
    unfold kind_of, data_of. cbn [with_inodes f_inodes]. now rewrite ilookup_iset_other by exact Hj.
  - contradiction.
Qed.

(* ------------------------------------------------------------------ statements over histories *)
Theorem apply_after_history hist ps outpath h s' :
  let s := run_history hist fs0 in
  f_handle s = Some h ->
  asc_disjoint 0 ps (zlen (data_of s (h_ino h))) = true ->
  apply_fs ps outpath s = Ok s' ->
  read_path s' (spec_outpath outpath (h_name h)) = Some (splice ps (data_of s (h_ino h))).
Proof. intros s. apply apply_fs_exact_any. Qed.

Theorem inplace_only_when_safe hist ps outpath h :
  let s := run_history hist fs0 in
  f_handle s = Some h -> chose_inplace ps outpath s = true ->
  lookup s (spec_outpath outpath (h_name h)) = Some (h_ino h) /\ nlink_of (h_ino h) (f_names s) = 1 /\
  kind_of s (h_ino h) = K_REG.
Proof. intros s. apply inplace_only_when_safe_any. Qed.

Theorem inplace_matches_spec hist ps outpath :
  let s := run_history hist fs0 in
  chose_inplace ps outpath s = true -> spec_inplace_allowed outpath s = true.
Proof.
  intros s H. unfold spec_inplace_allowed. destruct (f_handle s) as [h|] eqn:Hh; [|unfold chose_inplace in H; now rewrite Hh in H].
  destruct (inplace_only_when_safe_any s ps outpath h Hh H) as (L & N & _). rewrite L, N, Z.eqb_refl. reflexivity.
Qed.

Theorem other_names_untouched hist ps outpath h s' q :
  let s := run_history hist fs0 in
  f_handle s = Some h -> apply_fs ps outpath s = Ok s' ->
  canon q <> canon (spec_outpath outpath (h_name h)) ->
  read_path s' q = read_path s q.
Proof. intros s. apply apply_fs_others_any. apply run_wf, wf_fs0. Qed.

(* in place and write-then-rename give the same bytes: any two output paths, same history, same patch *)
Theorem strategies_agree hist ps o1 o2 h s1 s2 :
  let s := run_history hist fs0 in
  f_handle s = Some h ->
  asc_disjoint 0 ps (zlen (data_of s (h_ino h))) = true ->
  apply_fs ps o1 s = Ok s1 -> apply_fs ps o2 s = Ok s2 ->
  read_path s1 (spec_outpath o1 (h_name h)) = read_path s2 (spec_outpath o2 (h_name h)).
Proof.
  intros s Hh Hd A1 A2.
  rewrite (apply_fs_exact_any s ps o1 h s1 Hh Hd A1), (apply_fs_exact_any s ps o2 h s2 Hh Hd A2). reflexivity.
Qed.


(* ------------------------------------------------------------------ a valid application is carried out *)
Lemma do_rewrite_succeeds ps s h op :
  asc_disjoint 0 ps (zlen (data_of s (h_ino h))) = true ->
  (forall j, lookup s op = Some j -> kind_of s j <> K_DIR) ->
  exists s', do_rewrite ps s h op = Ok s'.
Proof.
  intros Hd Hk. unfold do_rewrite. change rewrite_seeks_start with true. cbv iota.
  rewrite (rewrite_sorted _ _ Hd). cbn [bind]. unfold commit_over.
  assert (M : may_replace (alloc s K_REG (splice ps (data_of s (h_ino h)))) (f_next s) op = true).
  { unfold may_replace. unfold lookup at 1. cbn [alloc f_names]. fold (lookup s op).
    destruct (lookup s op) as [j|] eqn:L; [|reflexivity].
    unfold kind_of. cbn [alloc f_inodes ilookup]. rewrite Z.eqb_refl. cbn [n_kind].
    destruct (f_next s =? j) eqn:E; [reflexivity|].
    specialize (Hk j eq_refl). unfold kind_of in Hk.
    destruct (ilookup j (f_inodes s)) as [n|]; [|reflexivity].
    destruct (n_kind n =? K_DIR) eqn:E2; [apply Z.eqb_eq in E2; contradiction|reflexivity]. }
  rewrite M. eauto.
Qed.

Theorem apply_total_any s ps outpath h :
  f_handle s = Some h ->
  asc_disjoint 0 ps (zlen (data_of s (h_ino h))) = true ->
  (forall j, lookup s (spec_outpath outpath (h_name h)) = Some j -> kind_of s j <> K_DIR) ->
  exists s', apply_fs ps outpath s = Ok s'.
Proof.
  intros Hh Hd Hk. unfold apply_fs. rewrite Hh.
  pose proof (strategy_cases s h outpath) as SC.
  destruct (strategy s h outpath) as [op|op a b sz|e].
  - subst op. now apply do_rewrite_succeeds.
  - destruct SC as (-> & -> & -> & _ & _ & _ & Hrw).
    destruct (eligible_from _ _ _ _ _); [rewrite Hrw; eauto|now apply do_rewrite_succeeds].
  - contradiction.
Qed.

Theorem apply_total hist ps outpath h :
  let s := run_history hist fs0 in
  f_handle s = Some h ->
  asc_disjoint 0 ps (zlen (data_of s (h_ino h))) = true ->
  (forall j, lookup s (spec_outpath outpath (h_name h)) = Some j -> kind_of s j <> K_DIR) ->
  exists s', apply_fs ps outpath s = Ok s'.
Proof. intros s. apply apply_total_any. Qed.

(* the in-place strategy is only chosen through a handle that can be written *)
Theorem inplace_needs_writable s ps outpath h :
  f_handle s = Some h -> chose_inplace ps outpath s = true -> h_rw h = true.
Proof.
  intros Hh. unfold chose_inplace. rewrite Hh.
  pose proof (strategy_cases s h outpath) as SC.
  destruct (strategy s h outpath) as [op|op a b sz|e]; try discriminate.
  now destruct SC as (_ & _ & _ & _ & _ & _ & Hrw).
Qed.
