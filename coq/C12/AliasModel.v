(* C12/AliasModel.v — the byte slices handed to PatchSet.Add as VIEWS over a shared heap of buffers.
   Go: Add(offset, oldSize, blob) stores the caller's slice (no copy); the coalesce branch builds the merged blob.
   How it is built (fresh make + two copies, or append onto the previous blob) comes from Generated/C12_gen.v
   (add_merge_mode, add_merge_make_len, add_merge_dst1/2, add_merge_guard). Definitions only. *)
From Relic Require Import Base.Prelude Base.Enc Generated.C12_gen C12.Model.

(* a heap is a list of backing arrays; a slice value is (array id, offset, length, capacity) *)
Definition heap := list bytes.
Record view := mkView { v_buf : nat; v_off : Z; v_len : Z; v_cap : Z }.
Definition buf_at (h : heap) (i : nat) : bytes := nth i h [].
Definition read (h : heap) (v : view) : bytes := ztake (v_len v) (zdrop (v_off v) (buf_at h (v_buf v))).
Definition nil_view : view := mkView 0 0 0 0.
(* the view refers to an allocated array (or is empty) and really shows v_len bytes *)
Definition view_ok (h : heap) (v : view) : Prop :=
  ((v_buf v < length h)%nat \/ v_len v <= 0) /\ zlen (read h v) = v_len v.
Definition view_okb (h : heap) (v : view) : bool :=
  (Nat.ltb (v_buf v) (length h)) && (zlen (read h v) =? v_len v) && (0 <=? v_off v) && (v_len v <=? v_cap v)
  && (v_off v + v_cap v <=? zlen (buf_at h (v_buf v))).

Fixpoint set_nth {A} (n : nat) (x : A) (l : list A) : list A :=
  match l, n with
  | [], _ => []
  | _ :: r, O => x :: r
  | y :: r, S n' => y :: set_nth n' x r
  end.
(* Go copy(dst[off:], src): min(len) bytes *)
Definition copy_into (dst : bytes) (off : Z) (src : bytes) : bytes :=
  let n := Z.min (zlen dst - off) (zlen src) in
  ztake off dst ++ ztake n src ++ zdrop (off + n) dst.
(* allocate a new array holding data; the slice covers all of it *)
Definition alloc (h : heap) (data : bytes) : heap * view :=
  (h ++ [data], mkView (length h) 0 (zlen data) (zlen data)).
(* Go append(s, data...): in place when the capacity suffices (WRITES INTO THE BACKING ARRAY), else a new array *)
Definition go_append (h : heap) (s : view) (data : bytes) : heap * view :=
  if v_len s + zlen data <=? v_cap s then
    (set_nth (v_buf s) (copy_into (buf_at h (v_buf s)) (v_off s + v_len s) data) h,
     mkView (v_buf s) (v_off s) (v_len s + zlen data) (v_cap s))
  else alloc h (read h s ++ data).
(* make([]byte, n); copy(new[d1:], a); copy(new[d2:], b) *)
Definition fresh_merge (n d1 d2 : Z) (a b : bytes) : bytes :=
  if (n =? zlen a + zlen b) && (d1 =? 0) && (d2 =? zlen a) then a ++ b
  else copy_into (copy_into (repeat 0 (Z.to_nat n)) d1 a) d2 b.

(* the merged blob of the coalesce branch, by the mode the source has *)
Definition merge_mode (mode : Z) (h : heap) (last blob : view) : heap * view :=
  if mode =? 0 then
    alloc h (fresh_merge (add_merge_make_len (v_len last) (v_len blob) (add_new_combo (v_len last) (v_len blob)))
                         (add_merge_dst1 (v_len last) (v_len blob)) (add_merge_dst2 (v_len last) (v_len blob))
                         (read h last) (read h blob))
  else go_append h last (read h blob).

Record hpatch := mkHP { hp_off : Z; hp_old : Z; hp_view : view }.
Record hcall := mkHC { hc_off : Z; hc_old : Z; hc_view : view }.
Definition state := (heap * list hpatch)%type.

Fixpoint hsplit_pieces (k : nat) (off : Z) : list hpatch :=
  match k with
  | O => []
  | S k' => mkHP off uint32Max nil_view :: hsplit_pieces k' (off + uint32Max)
  end.
Definition hadd_fresh (off old : Z) (blob : view) : list hpatch :=
  let k := split_count old in
  hsplit_pieces (Z.to_nat k) off ++ [mkHP (off + k * uint32Max) (old - k * uint32Max) blob].

Definition htry_coalesce (mode : Z) (h : heap) (last : hpatch) (off old : Z) (blob : view) : option (heap * hpatch) :=
  let last_end := add_last_end (hp_off last) (hp_old last) in
  let old_combo := add_old_combo (hp_old last) old in
  let new_combo := add_new_combo (v_len (hp_view last)) (v_len blob) in
  if add_coalesce_cond off last_end old_combo new_combo old (v_len blob) (hp_off last) (hp_old last) (v_len (hp_view last))
  then if add_merge_guard (v_len blob)
       then let '(h', m) := merge_mode mode h (hp_view last) blob in Some (h', mkHP (hp_off last) old_combo m)
       else Some (h, mkHP (hp_off last) old_combo (hp_view last))
  else None.

Definition hadd_mode (mode : Z) (st : state) (off old : Z) (blob : view) : state :=
  let '(h, ps) := st in
  match rev ps with
  | last :: front_rev =>
      match htry_coalesce mode h last off old blob with
      | Some (h', m) => (h', rev front_rev ++ [m])
      | None => (h, ps ++ hadd_fresh off old blob)
      end
  | [] => (h, hadd_fresh off old blob)
  end.
Definition hadd := hadd_mode add_merge_mode.
Definition hadd_all_mode (mode : Z) (h0 : heap) (cs : list hcall) : state :=
  fold_left (fun st c => hadd_mode mode st (hc_off c) (hc_old c) (hc_view c)) cs (h0, []).
Definition hadd_all := hadd_all_mode add_merge_mode.

(* what a patch set over a heap denotes: the byte-level patch list of C12/Model.v *)
Definition dp (h : heap) (p : hpatch) : patch := mkPatch (hp_off p) (hp_old p) (read h (hp_view p)).
Definition denote (st : state) : list patch := map (dp (fst st)) (snd st).
(* SPEC side: the call with the blob CONTENT AS IT WAS AT THE CALL (the caller does not write to its buffers) *)
Definition snap (h0 : heap) (c : hcall) : call := mkCall (hc_off c) (hc_old c) (read h0 (hc_view c)).
