(* C11/Properties.v — property C11 (malformed input yields an error, never a crash or runaway resource use) for the parsers
   modelled in C11/Model.v.  Statements only; proofs are in C11/Proofs.v.  `Panic` covers: slice / index out of range,
   negative allocation size, a single allocation above alloc_limit(|input|) = 64·|input| + 1 MiB, and a loop that runs out of
   its fuel.  Every theorem quantifies over ALL byte strings (all_bytes l: every element is in 0..255). *)
From Relic Require Import Base.Prelude Base.Enc Generated.C11_gen C11.Model.
From Relic Require C11.Proofs C17.Model.
From Relic Require Import C11.Text.
From Relic Require C11.TextProofs C11.Sites.

(* binpatch.Load (request body of the patch endpoints, output of every remote signing) *)
Theorem load_no_panic : forall l p, all_bytes l = true -> load l <> Panic p.
Proof. exact C11.Proofs.load_no_panic. Qed.
(* csblob.parseSuper (Mach-O / DMG code signature blobs) *)
Theorem parse_super_no_panic : forall blob p, all_bytes blob = true -> parse_super blob <> Panic p.
Proof. exact C11.Proofs.parse_super_no_panic. Qed.
(* signxap.removeSignature (central directory blob of an uploaded XAP), and what it keeps is a prefix of its input *)
Theorem xap_remove_no_panic : forall cd p, all_bytes cd = true -> xap_remove cd <> Panic p.
Proof. exact C11.Proofs.xap_remove_no_panic. Qed.
Theorem xap_remove_range : forall cd n, all_bytes cd = true -> xap_remove cd = Ok n -> 0 <= n <= zlen cd.
Proof. exact C11.Proofs.xap_remove_range. Qed.
(* apk.unmarshal, for EVERY target type built from uint32, []byte, apkRaw, slices and structs (not only the four in use):
   no panic, and the recursion / the slice loop terminate within fuel = depth of the type / |blob|+1 iterations *)
Theorem unmarshal_no_panic : forall s blob p, all_bytes blob = true -> unmarshal s blob <> Panic p.
Proof. exact C11.Proofs.unmarshal_no_panic. Qed.
(* apk.getSigBlock + the ID-value pair loop of apk.verify + the parse of every v2 signer list, given that the central directory
   offset lies inside the file (established by zipslicer.Read) and that the block is what was read between the two offsets;
   vok is the (unmodelled) outcome of the cryptographic checks on each parsed signer list, quantified over *)
Theorem apk_v2_parse_no_panic : forall vok n sig_loc dir_loc gap p, all_bytes gap = true -> 0 <= n -> dir_loc <= n ->
  (0 <= sig_loc <= dir_loc -> zlen gap = dir_loc - sig_loc) -> apk_v2_parse vok n sig_loc dir_loc gap <> Panic p.
Proof. exact C11.Proofs.apk_v2_parse_no_panic. Qed.
(* apkSigner.Verify: indexing the computed digests by the position of the signed digest entries (any list of hash functions,
   duplicates included) — rests on the merkle hasher returning one digest per REQUESTED entry, which the harness checks on the real code *)
Theorem verify_digests_no_panic : forall hashes p, verify_digests hashes <> Panic p.
Proof. exact C11.Proofs.verify_digests_no_panic. Qed.
(* zipslicer.ReadWithDirectory (the byte-level model of C17): no panic, and the entry loop never runs out of fuel *)
Theorem zip_directory_no_panic : forall size cd p, C17.Model.read_with_directory size cd <> Panic p.
Proof. exact C11.Proofs.zip_directory_no_panic. Qed.
Theorem zip_entries_fuel : forall fuel cd, (length cd < fuel)%nat -> C17.Model.read_entries fuel cd <> Err C17.Model.E_FUEL.
Proof. exact C11.Proofs.zip_entries_fuel. Qed.

(* ================================================================== hand-written text / line parsers (C11/Text.v) *)
(* lib/signdeb parseControl — run by signdeb.Sign in a helper goroutine without recover, so a panic here ends the process:
   for EVERY control file text (any bytes: empty lines, no colon, only a colon, leading blanks, comments, CR LF, NUL, no final
   newline, lines of any length) the line loop returns a result or an error *)
Theorem parse_control_no_panic : forall text p, parse_control text <> Panic p.
Proof. exact C11.TextProofs.parse_control_no_panic. Qed.
Theorem parse_control_ok_fields : forall text i, parse_control text = Ok i -> pi_pkg i <> [] /\ pi_ver i <> [].
Proof. exact C11.TextProofs.parse_control_ok_fields. Qed.
(* ... also behind the io.Pipe: the goroutine drains its reader after an early return, so the producer never blocks *)
Theorem sign_control_pipe_no_panic : forall stream p, pipe_run c11_goroutines_releases_parseControl stream parse_control <> Panic p.
Proof. exact C11.TextProofs.sign_control_pipe_no_panic. Qed.
(* lib/signdeb checkSig: for EVERY signed body and digest table (any number of blanks in a digest line) a result or an
   error; the input that crashed it before relic d376f3c is rejected as malformed *)
Theorem check_sig_no_panic : forall digs body p, check_sig digs body <> Panic p.
Proof. exact C11.TextProofs.check_sig_no_panic. Qed.
Theorem cs_witness_is_error : check_sig [] C11.TextProofs.cs_witness = Err E_MALFORMED.
Proof. exact C11.TextProofs.cs_witness_is_error. Qed.
(* lib/signjar: splitManifest (cut positions from bytes.Index; the loop terminates), parseSection, parseManifest *)
Theorem split_manifest_no_panic : forall m p, split_manifest m <> Panic p.
Proof. exact C11.TextProofs.split_manifest_no_panic. Qed.
Theorem parse_section_no_panic : forall s p, parse_section s <> Panic p.
Proof. exact C11.TextProofs.parse_section_no_panic. Qed.
Theorem parse_manifest_no_panic : forall m p, parse_manifest m <> Panic p.
Proof. exact C11.TextProofs.parse_manifest_no_panic. Qed.
(* DigestManifest: sections[0] and sections[1:] sit behind the emptiness check, for every manifest; the empty manifest is
   the only input for which splitManifest reports neither a section nor a malformation (the case that check catches) *)
Theorem digest_manifest_no_panic : forall m p, digest_manifest m <> Panic p.
Proof. exact C11.TextProofs.digest_manifest_no_panic. Qed.
Theorem split_manifest_empty_iff : forall m secs, split_manifest m = Ok (secs, false) -> (secs = [] <-> m = []).
Proof. exact C11.TextProofs.split_manifest_empty_iff. Qed.
Theorem parse_manifest_guards_digest : forall m r p, parse_manifest m = Ok r -> digest_manifest m <> Panic p.
Proof. exact C11.TextProofs.parse_manifest_guards_digest. Qed.
(* lib/pgptools: the line scanners cannot panic, and the goroutines around them close the read side of the pipe before
   reporting, so DetachClearSign returns for EVERY message (a line at the scanner limit gives an error); without that
   release one line of 65536 bytes blocks the writer for ever *)
Theorem tail_clear_sign_no_panic : forall s p, tail_clear_sign s <> Panic p.
Proof. exact C11.TextProofs.tail_clear_sign_no_panic. Qed.
Theorem head_clear_sign_no_panic : forall s p, head_clear_sign s <> Panic p.
Proof. exact C11.TextProofs.head_clear_sign_no_panic. Qed.
Theorem detach_clear_sign_no_hang : forall msg p, detach_clear_sign msg <> Panic p.
Proof. exact C11.TextProofs.detach_clear_sign_no_hang. Qed.
Theorem released_pipe_scanners_no_panic : forall stream p,
  pipe_run cl_releases stream tail_clear_sign <> Panic p /\ pipe_run cl_releases stream head_clear_sign <> Panic p.
Proof. exact C11.TextProofs.released_pipe_scanners_no_panic. Qed.
Theorem unreleased_pipe_hangs : exists stream, pipe_run false stream tail_clear_sign = Panic P_HANG.
Proof. exact C11.TextProofs.unreleased_pipe_hangs. Qed.
Theorem detach_clear_sign_ok_when : forall msg,
  Forall (fun l => zlen l < max_token - 2) (raw_lines msg) -> detach_clear_sign msg = Ok tt.
Proof. exact C11.TextProofs.detach_clear_sign_ok_when. Qed.
(* the source as srcgen reads it NOW has exactly the reviewed index / slice / assertion sites in the modelled functions,
   the reviewed goroutines (none recovers; only signdeb.Sign drains), and the reviewed unguarded sites in every
   input-facing package of the list *)
Theorem modelled_sites_reviewed :
  c11_pc_sites = reviewed_pc_sites /\ c11_cs_sites = reviewed_cs_sites /\ c11_sign_sites = reviewed_sign_sites /\
  c11_sm_sites = reviewed_sm_sites /\ c11_ps_sites = reviewed_ps_sites /\ c11_pm_sites = reviewed_pm_sites /\
  c11_dm_sites = reviewed_dm_sites /\ c11_pc_fields = reviewed_pc_fields.
Proof.
  exact (conj C11.TextProofs.pc_sites_reviewed (conj C11.TextProofs.cs_sites_reviewed (conj C11.TextProofs.sign_sites_reviewed
        (conj C11.TextProofs.sm_sites_reviewed (conj C11.TextProofs.ps_sites_reviewed (conj C11.TextProofs.pm_sites_reviewed
        (conj C11.TextProofs.dm_sites_reviewed C11.TextProofs.pc_fields_reviewed))))))).
Qed.
Theorem goroutines_reviewed : c11_goroutines = reviewed_goroutines.
Proof. exact C11.TextProofs.goroutines_reviewed. Qed.
Theorem unguarded_sites_reviewed :
  c11_unguarded_signdeb = C11.Sites.reviewed_signdeb /\ c11_unguarded_pgptools = C11.Sites.reviewed_pgptools /\
  c11_unguarded_signjar = C11.Sites.reviewed_signjar /\ c11_unguarded_appmanifest = C11.Sites.reviewed_appmanifest /\
  c11_unguarded_signers_deb = C11.Sites.reviewed_signers_deb /\ c11_unguarded_signers_pgp = C11.Sites.reviewed_signers_pgp /\
  c11_unguarded_xmldsig = C11.Sites.reviewed_xmldsig /\ c11_unguarded_comdoc = C11.Sites.reviewed_comdoc /\
  c11_unguarded_csblob = C11.Sites.reviewed_csblob /\ c11_unguarded_xar = C11.Sites.reviewed_xar /\
  c11_unguarded_dmg = C11.Sites.reviewed_dmg /\ c11_unguarded_machos = C11.Sites.reviewed_machos.
Proof.
  exact (conj C11.Sites.sites_signdeb_reviewed (conj C11.Sites.sites_pgptools_reviewed (conj C11.Sites.sites_signjar_reviewed
        (conj C11.Sites.sites_appmanifest_reviewed (conj C11.Sites.sites_signers_deb_reviewed (conj C11.Sites.sites_signers_pgp_reviewed
        (conj C11.Sites.sites_xmldsig_reviewed (conj C11.Sites.sites_comdoc_reviewed (conj C11.Sites.sites_csblob_reviewed
        (conj C11.Sites.sites_xar_reviewed (conj C11.Sites.sites_dmg_reviewed C11.Sites.sites_machos_reviewed))))))))))).
Qed.

(* ------------------------------------------------------------------ non-vacuity: the models accept well-formed input *)
Example load_accepts : exists r, load ([0;0;0;1; 0;0;0;1] ++ [0;0;0;0;0;0;0;5; 0;0;0;2; 0;0;0;3] ++ [7;8;9]) = Ok r.
Proof. eexists. vm_compute. reflexivity. Qed.
Example super_accepts : exists r,
  parse_super ([250;222;12;192; 0;0;0;32; 0;0;0;1] ++ [0;0;0;2; 0;0;0;20] ++ [250;222;12;1; 0;0;0;12; 1;2;3;4]) = Ok r.
Proof. eexists. vm_compute. reflexivity. Qed.
Example xap_strips : xap_remove ([1;2;3;4;5] ++ [1;0; 1;0; 1;0;0;0] ++ [9] ++ [88;97;112;83; 1;0; 9;0;0;0]) = Ok 5.
Proof. vm_compute. reflexivity. Qed.
Example signers_accepts : exists r,
  unmarshal s_signer_list ([22;0;0;0] ++ [18;0;0;0] ++ ([2;0;0;0; 1;2]) ++ ([0;0;0;0]) ++ ([4;0;0;0; 5;6;7;8])) = Ok r.
Proof. eexists. vm_compute. reflexivity. Qed.
(* the guards are necessary: without the fix of relic commit 8f6be83 (`4+len(blob) < size`) this input sliced out of range *)
Example prefix_overrun_is_error : unmarshal SBytes [8;0;0;0; 1;2;3;4] = Err E_EOF.
Proof. vm_compute. reflexivity. Qed.

(* a control file as dpkg-deb writes it, with a folded description, a comment, an empty line and CR LF endings *)
Definition sample_control : bytes :=
  [80;97;99;107;97;103;101;58;32;100;101;109;111;13;10] ++ [86;101;114;115;105;111;110;58;9;49;46;48;10] ++
  [35;32;99;58;32;120;10] ++ [10] ++ [65;114;99;104;105;116;101;99;116;117;114;101;58;32;97;108;108;10] ++ [32;102;111;108;100;58;32;120;10].
Example control_accepts : parse_control sample_control = Ok (mkInfo [100;101;109;111] [49;46;48] [97;108;108]).
Proof. vm_compute. reflexivity. Qed.
Example control_matches_spec : spec_simple sample_control = true /\ spec_control sample_control = Some (mkInfo [100;101;109;111] [49;46;48] [97;108;108]).
Proof. split; vm_compute; reflexivity. Qed.
Example control_odd_lines_are_skipped : parse_control (sample_control ++ [58;10;58;32;10;32;10;0;58;0]) = parse_control sample_control.
Proof. vm_compute. reflexivity. Qed.
Example control_missing_is_error : parse_control [80;97;99;107;97;103;101;58;102;111;111;10] = Err E_MISSING.
Proof. vm_compute. reflexivity. Qed.
(* "Files:" then one digest line with md5, sha1, size, name — accepted *)
Definition sample_sums : bytes := repeat 48 32 ++ [32] ++ repeat 49 40.
Definition sample_body : bytes := [86;58;32;52;10] ++ [70;105;108;101;115;58;10] ++ [9] ++ sample_sums ++ [32;52;32;97;10] ++ [10].
Example check_sig_accepts : check_sig [([97], sample_sums)] sample_body = Ok tt.
Proof. vm_compute. reflexivity. Qed.
(* Manifest-Version: 1\r\n\r\nName: a\r\n\r\n *)
Definition sample_manifest : bytes :=
  [77;97;110;105;102;101;115;116;45;86;101;114;115;105;111;110;58;32;49;13;10;13;10] ++ [78;97;109;101;58;32;97;13;10;13;10].
Example manifest_accepts : parse_manifest sample_manifest = Ok (1, false) /\ digest_manifest sample_manifest = Ok 1.
Proof. split; vm_compute; reflexivity. Qed.
Example tail_keeps_signature : tail_clear_sign ([97;10] ++ c11_cl_sig_header ++ [10;98;10]) = Ok (c11_cl_sig_header ++ [13;10;98;13;10]).
Proof. vm_compute. reflexivity. Qed.
