(* C11/Properties.v — property C11 (malformed input yields an error, never a crash or runaway resource use) for the parsers
   modelled in C11/Model.v.  Statements only; proofs are in C11/Proofs.v.  `Panic` covers: slice / index out of range,
   negative allocation size, a single allocation above alloc_limit(|input|) = 64·|input| + 1 MiB, and a loop that runs out of
   its fuel.  Every theorem quantifies over ALL byte strings (all_bytes l: every element is in 0..255). *)
From Relic Require Import Base.Prelude Base.Enc Generated.C11_gen C11.Model.
From Relic Require C11.Proofs C17.Model.

(* binpatch.Load (request body of the patch endpoints, output of every remote signing) *)
Theorem load_no_panic : forall l p, all_bytes l = true -> load l <> Panic p.
Proof. exact C11.Proofs.load_no_panic. Qed.
(* csblob.parseSuper (Mach-O / DMG code signature blobs) *)
Theorem parse_super_no_panic : forall blob p, all_bytes blob = true -> parse_super blob <> Panic p.
Proof. exact C11.Proofs.parse_super_no_panic. Qed.
(* signxap.removeSignature (central directory blob of an uploaded XAP), and what it keeps is a prefix of its input *)
Theorem xap_remove_no_panic : forall cd p, all_bytes cd = true -> xap_remove cd <> Panic p.
Proof. exact C11.Proofs.xap_remove_no_panic. Qed.
Theorem xap_remove_range : forall cd n, all_bytes cd = true -> xap_remove cd = Ok n -> 0 <= n <= zlen cd.
Proof. exact C11.Proofs.xap_remove_range. Qed.
(* apk.unmarshal, for EVERY target type built from uint32, []byte, apkRaw, slices and structs (not only the four in use):
   no panic, and the recursion / the slice loop terminate within fuel = depth of the type / |blob|+1 iterations *)
Theorem unmarshal_no_panic : forall s blob p, all_bytes blob = true -> unmarshal s blob <> Panic p.
Proof. exact C11.Proofs.unmarshal_no_panic. Qed.
(* apk.getSigBlock + the ID-value pair loop of apk.verify + the parse of every v2 signer list, given that the central directory
   offset lies inside the file (established by zipslicer.Read) and that the block is what was read between the two offsets;
   vok is the (unmodelled) outcome of the cryptographic checks on each parsed signer list, quantified over *)
Theorem apk_v2_parse_no_panic : forall vok n sig_loc dir_loc gap p, all_bytes gap = true -> 0 <= n -> dir_loc <= n ->
  (0 <= sig_loc <= dir_loc -> zlen gap = dir_loc - sig_loc) -> apk_v2_parse vok n sig_loc dir_loc gap <> Panic p.
Proof. exact C11.Proofs.apk_v2_parse_no_panic. Qed.
(* apkSigner.Verify: indexing the computed digests by the position of the signed digest entries (any list of hash functions,
   duplicates included) — rests on the merkle hasher returning one digest per REQUESTED entry, which the harness checks on the real code *)
Theorem verify_digests_no_panic : forall hashes p, verify_digests hashes <> Panic p.
Proof. exact C11.Proofs.verify_digests_no_panic. Qed.
(* zipslicer.ReadWithDirectory (the byte-level model of C17): no panic, and the entry loop never runs out of fuel *)
Theorem zip_directory_no_panic : forall size cd p, C17.Model.read_with_directory size cd <> Panic p.
Proof. exact C11.Proofs.zip_directory_no_panic. Qed.
Theorem zip_entries_fuel : forall fuel cd, (length cd < fuel)%nat -> C17.Model.read_entries fuel cd <> Err C17.Model.E_FUEL.
Proof. exact C11.Proofs.zip_entries_fuel. Qed.

(* ------------------------------------------------------------------ non-vacuity: the models accept well-formed input *)
Example load_accepts : exists r, load ([0;0;0;1; 0;0;0;1] ++ [0;0;0;0;0;0;0;5; 0;0;0;2; 0;0;0;3] ++ [7;8;9]) = Ok r.
Proof. eexists. vm_compute. reflexivity. Qed.
Example super_accepts : exists r,
  parse_super ([250;222;12;192; 0;0;0;32; 0;0;0;1] ++ [0;0;0;2; 0;0;0;20] ++ [250;222;12;1; 0;0;0;12; 1;2;3;4]) = Ok r.
Proof. eexists. vm_compute. reflexivity. Qed.
Example xap_strips : xap_remove ([1;2;3;4;5] ++ [1;0; 1;0; 1;0;0;0] ++ [9] ++ [88;97;112;83; 1;0; 9;0;0;0]) = Ok 5.
Proof. vm_compute. reflexivity. Qed.
Example signers_accepts : exists r,
  unmarshal s_signer_list ([22;0;0;0] ++ [18;0;0;0] ++ ([2;0;0;0; 1;2]) ++ ([0;0;0;0]) ++ ([4;0;0;0; 5;6;7;8])) = Ok r.
Proof. eexists. vm_compute. reflexivity. Qed.
(* the guards are necessary: without the fix of relic commit 8f6be83 (`4+len(blob) < size`) this input sliced out of range *)
Example prefix_overrun_is_error : unmarshal SBytes [8;0;0;0; 1;2;3;4] = Err E_EOF.
Proof. vm_compute. reflexivity. Qed.
