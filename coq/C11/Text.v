(* C11/Text.v — the hand-written text / line parsers on signing and verification paths.
   Faithful executable models, written with CHECKED primitives only (cslice / cindex / cnth return Panic exactly where Go
   panics), of
     lib/signdeb  parseControl   (run by signdeb.Sign in a helper goroutine: a panic there kills the process)
     lib/signdeb  checkSig       (the "Files:" list of a verified _gpg member; field count checked since relic d376f3c)
     lib/signjar  splitManifest / parseSection / parseManifest / DigestManifest (section indexing)
     lib/pgptools tailClearSign / headClearSign and the io.Pipe protocol of DetachClearSign around them.
   Every constant, separator, comparison and slice bound is a definition of Generated/C11_gen.v, re-read from the Go source
   on every run.  The reviewed site tables / goroutine inventory at the end are compared with what srcgen finds in the AST.

   What is assumed (stdlib / third party, checked by the harness on the real code):
   * bufio.Scanner with ScanLines and the default buffer: lines are split at '\n', one trailing '\r' is dropped, an
     unterminated last line counts, and a line of max_token = 65536 or more bytes ends the scan with ErrTooLong;
   * strings.Index / IndexAny / Trim / SplitN, bytes.Index / ReplaceAll / Split / IndexRune on the ASCII separators used here;
   * strings.ToLower / TrimSpace are modelled on ASCII (they differ only on multi-byte Unicode letters / spaces);
   * ar, gzip/xz/bzip2 and tar readers in front of parseControl, the OpenPGP clearsign encoder in front of tailClearSign. *)
From Coq Require Import String.
From Relic Require Import Base.Prelude Generated.C11_gen C11.Model.

(* error classes of this file *)
Definition E_TOOLONG := 10.      (* bufio.Scanner: token too long *)
Definition E_MISSING := 11.      (* control file is missing package and/or version fields *)
Definition E_MALFORMED := 12.    (* malformed signature / jar manifest is malformed *)
Definition E_UNKNOWN_FILE := 13. (* signature references unknown file *)
Definition E_MISMATCH := 14.     (* signature mismatch on file *)
Definition E_UNCOVERED := 15.    (* signature does not cover file *)
Definition E_NOSECTIONS := 16.   (* manifest has no sections *)
Definition E_NONAME := 18.       (* section with no "Name" attribute *)
Definition E_LINEENDINGS := 19.  (* manifest has incorrect line ending sequence *)
Definition E_NOSIG := 20.        (* signature block not found *)

(* ================================================================== checked primitives *)
(* l[i] *)
Definition cindex (i : Z) (l : bytes) : result Z :=
  if (i <? 0) || (zlen l <=? i) then Panic P_SLICE else Ok (nth (Z.to_nat i) l 0).
(* l[i] on a slice of anything *)
Definition cnth {A} (i : Z) (l : list A) : result A :=
  if i <? 0 then Panic P_SLICE else
  match nth_error l (Z.to_nat i) with Some a => Ok a | None => Panic P_SLICE end.
(* l[a:b] on a slice of anything *)
Definition cslice_l {A} (a b : Z) (l : list A) : result (list A) :=
  if (a <? 0) || (b <? a) || (zlen l <? b) then Panic P_SLICE else Ok (zslice a b l).

(* ================================================================== byte-string functions of strings / bytes *)
(* list reversal in linear time (List.rev is quadratic; the models are run on 200 kB lines) *)
Definition frev (l : bytes) : bytes := rev_append l [].
Fixpoint has_prefix (l p : bytes) : bool :=
  match p, l with
  | [], _ => true
  | x :: p', y :: l' => (x =? y) && has_prefix l' p'
  | _ :: _, [] => false
  end.
(* strings.Index(l, sep) *)
Fixpoint index_from (k : Z) (l sep : bytes) {struct l} : Z :=
  if has_prefix l sep then k else
  match l with [] => -1 | _ :: r => index_from (k + 1) r sep end.
Definition index_sub (l sep : bytes) : Z := index_from 0 l sep.
Definition memz (c : Z) (set : bytes) : bool := existsb (Z.eqb c) set.
(* strings.IndexAny(l, set) for an ASCII set *)
Fixpoint index_any_from (k : Z) (l set : bytes) : Z :=
  match l with [] => -1 | c :: r => if memz c set then k else index_any_from (k + 1) r set end.
Definition index_any (l set : bytes) : Z := index_any_from 0 l set.
Fixpoint trim_left (l set : bytes) : bytes :=
  match l with [] => [] | c :: r => if memz c set then trim_left r set else l end.
Definition trim_set (l set : bytes) : bytes := frev (trim_left (frev (trim_left l set)) set).
Definition ascii_space : bytes := [9; 10; 11; 12; 13; 32].
Definition trim_space (l : bytes) : bytes := trim_set l ascii_space.
Definition lower1 (c : Z) : Z := if (65 <=? c) && (c <=? 90) then c + 32 else c.
Definition to_lower (l : bytes) : bytes := map lower1 l.
(* bytes.ReplaceAll(s, old, new), old non-empty: left to right, non-overlapping *)
Fixpoint replace_all (skip : nat) (s old new : bytes) : bytes :=
  match s with
  | [] => []
  | c :: r =>
      match skip with
      | S k => replace_all k r old new
      | O => if has_prefix s old then new ++ replace_all (length old - 1) r old new else c :: replace_all O r old new
      end
  end.
(* bytes.Split(s, [c]) *)
Fixpoint split_byte (c : Z) (cur : bytes) (s : bytes) : list bytes :=
  match s with
  | [] => [frev cur]
  | x :: r => if x =? c then frev cur :: split_byte c [] r else split_byte c (x :: cur) r
  end.
(* strings.SplitN(s, [c], n+1): at most n cuts *)
Fixpoint split_n_byte (c : Z) (n : nat) (cur : bytes) (s : bytes) : list bytes :=
  match s with
  | [] => [frev cur]
  | x :: r =>
      match n with
      | O => [rev_append cur s]
      | S n' => if x =? c then frev cur :: split_n_byte c n' [] r else split_n_byte c n (x :: cur) r
      end
  end.
Fixpoint count_z (c : Z) (l : bytes) : Z :=
  match l with [] => 0 | x :: r => (if x =? c then 1 else 0) + count_z c r end.

(* ================================================================== bufio.Scanner, ScanLines, default buffer *)
Definition max_token : Z := 65536.
Fixpoint split_nl (cur : bytes) (l : bytes) : list bytes :=
  match l with
  | [] => match cur with [] => [] | _ => [frev cur] end
  | c :: r => if c =? 10 then frev cur :: split_nl [] r else split_nl (c :: cur) r
  end.
Definition raw_lines (l : bytes) : list bytes := split_nl [] l.
Definition drop_cr (l : bytes) : bytes := match frev l with 13 :: r => frev r | _ => l end.
(* `for scanner.Scan() { st = step(st, scanner.Text()) }; scanner.Err()` *)
Fixpoint scan_fold {S} (step : S -> bytes -> result S) (st : S) (ls : list bytes) : result S :=
  match ls with
  | [] => Ok st
  | l :: r => if max_token <=? zlen l then Err E_TOOLONG else st' <- step st (drop_cr l) ;; scan_fold step st' r
  end.
(* the lines a loop sees when it never looks at scanner.Err(): everything before the first over-long line *)
Fixpoint scan_lines (ls : list bytes) : list bytes :=
  match ls with
  | [] => []
  | l :: r => if max_token <=? zlen l then [] else drop_cr l :: scan_lines r
  end.
Definition scan_too_long (ls : list bytes) : bool := existsb (fun l => max_token <=? zlen l) ls.

(* ================================================================== lib/signdeb parseControl: the line loop over the `control` member *)
Record pinfo := mkInfo { pi_pkg : bytes; pi_ver : bytes; pi_arch : bytes }.
Definition pc_target (key : bytes) : option Z :=
  option_map snd (find (fun e => bytes_eqb (fst e) key) c11_pc_fields_coded).
(* targets (positions in srcgen's table): 0 info.Package = value, 1 info.Version = value, 2 info.Arch = value *)
Definition pc_assign (key value : bytes) (st : pinfo) : pinfo :=
  match pc_target key with
  | Some t =>
      if t =? 0 then mkInfo value (pi_ver st) (pi_arch st)
      else if t =? 1 then mkInfo (pi_pkg st) value (pi_arch st)
      else if t =? 2 then mkInfo (pi_pkg st) (pi_ver st) value
      else st
  | None => st
  end.
Definition pc_step (st : pinfo) (line : bytes) : result pinfo :=
  let i := index_any line c11_pc_ws in
  let j := index_sub line c11_pc_colon in
  if c11_pc_skip i j then Ok st else
  let kb := c11_pc_key_bounds j (zlen line) in
  let vb := c11_pc_value_bounds j (zlen line) in
  key <- cslice (fst kb) (snd kb) line ;;
  rest <- cslice (fst vb) (snd vb) line ;;
  Ok (pc_assign (to_lower key) (trim_set rest c11_pc_trim) st).
Definition parse_control (text : bytes) : result pinfo :=
  st <- scan_fold pc_step (mkInfo [] [] []) (raw_lines text) ;;
  if c11_pc_missing (pi_pkg st) (pi_ver st) then Err E_MISSING else Ok st.

(* SPEC (Debian policy 5.1, written independently of relic): a control file is a sequence of lines; a field line is
   `Name:` followed by the value, continuation lines start with a space or tab, lines starting with '#' are comments.
   The value of field F is the text after the first colon of the LAST line whose name equals F ignoring case, with
   surrounding whitespace removed.  The property (C11) asks that every byte string gives an error or a result; for a
   well-formed file whose Package and Version lines have a blank after the colon the result must be those values. *)
Definition spec_ws : bytes := [32; 9].
Definition spec_field_of (line : bytes) : option (bytes * bytes) :=
  match line with
  | [] => None
  | c :: _ =>
      if (c =? 32) || (c =? 9) || (c =? 35) then None else
      let j := index_sub line [58] in
      if j <? 0 then None else Some (to_lower (ztake j line), trim_set (zdrop (j + 1) line) spec_ws)
  end.
Fixpoint spec_last (name : bytes) (ls : list bytes) (cur : bytes) : bytes :=
  match ls with
  | [] => cur
  | l :: r => match spec_field_of l with
              | Some (k, v) => spec_last name r (if bytes_eqb k name then v else cur)
              | None => spec_last name r cur
              end
  end.
Definition spec_lines (text : bytes) : list bytes := map drop_cr (raw_lines text).
(* the class of files on which relic's reading is REQUIRED to coincide with the policy's: in every field line a space or
   tab follows the colon at once and is the first whitespace of the line, values do not begin or end with other control
   whitespace, no line reaches the scanner limit (relic skips `Field:value` lines without a blank: an error, not a crash) *)
Definition spec_clean (v : bytes) : bool :=
  match v with [] => true | c :: _ => negb (memz c ascii_space) && negb (memz (last v 0) ascii_space) end.
Definition spec_simple_line (l : bytes) : bool :=
  match spec_field_of l with
  | None => true
  | Some (_, v) => (index_any l ascii_space =? index_sub l [58] + 1) && (index_any l spec_ws =? index_sub l [58] + 1) && spec_clean v
  end.
Definition spec_simple (text : bytes) : bool :=
  negb (scan_too_long (raw_lines text)) && forallb spec_simple_line (spec_lines text).
Definition spec_control (text : bytes) : option pinfo :=
  let ls := spec_lines text in
  let p := spec_last [112;97;99;107;97;103;101] ls [] in
  let v := spec_last [118;101;114;115;105;111;110] ls [] in
  let a := spec_last [97;114;99;104;105;116;101;99;116;117;114;101] ls [] in
  match p, v with [], _ | _, [] => None | _, _ => Some (mkInfo p v a) end.

(* ================================================================== lib/signdeb checkSig *)
Definition cs_sep_byte : Z := hd 32 c11_cs_sep.
Fixpoint cs_skip_header (ls : list bytes) : option (list bytes) :=
  match ls with
  | [] => None
  | l :: r => if c11_cs_is_files l then Some r else cs_skip_header r
  end.
Fixpoint lookup (name : bytes) (digs : list (bytes * bytes)) : bytes :=
  match digs with
  | [] => []                                                     (* digests[name] of a missing key: "" *)
  | (n, v) :: r => if bytes_eqb n name then v else lookup name r
  end.
Fixpoint cs_digests (digs : list (bytes * bytes)) (checked : list bytes) (ls : list bytes) : result (list bytes) :=
  match ls with
  | [] => Ok checked
  | line :: r =>
      if c11_cs_is_end line then Ok checked else
      c0 <- cindex 0 line ;;
      if c11_cs_malformed c0 (zlen line) then Err E_MALFORMED else
      let b := c11_cs_rest_bounds (zlen line) in
      rest <- cslice (fst b) (snd b) line ;;
      let parts := split_n_byte cs_sep_byte (Z.to_nat (c11_cs_nparts - 1)) [] rest in
      if c11_cs_parts_bad (zlen parts) then Err E_MALFORMED else
      p0 <- cnth (nth 0 c11_cs_part_indexes 0) parts ;;
      p1 <- cnth (nth 1 c11_cs_part_indexes 0) parts ;;
      name <- cnth (nth 2 c11_cs_part_indexes 0) parts ;;
      let sums := p0 ++ [32] ++ p1 in
      let calculated := lookup name digs in
      if bytes_eqb calculated [] then Err E_UNKNOWN_FILE
      else if negb (bytes_eqb calculated sums) then Err E_MISMATCH
      else cs_digests digs (name :: checked) r
  end.
Definition check_sig (digs : list (bytes * bytes)) (body : bytes) : result unit :=
  match cs_skip_header (scan_lines (raw_lines body)) with
  | None => Err E_MALFORMED
  | Some r =>
      checked <- cs_digests digs [] r ;;
      if forallb (fun d => existsb (bytes_eqb (fst d)) checked) digs then Ok tt else Err E_UNCOVERED
  end.
(* ================================================================== lib/signjar: splitManifest / parseSection / parseManifest / DigestManifest *)
Definition all_space (l : bytes) : bool := forallb (fun c => memz c ascii_space) l.
(* the `for len(manifest) != 0` loop; every iteration removes at least one byte, |manifest|+1 iterations always suffice *)
Fixpoint sm_loop (fuel : nat) (m : bytes) (acc : list bytes) (malformed : bool) : result (list bytes * bool) :=
  match fuel with
  | O => Panic P_HANG
  | S k =>
      if c11_sm_more (zlen m) then
        let i1 := index_sub m c11_sm_sep_crlf in
        let i2 := index_sub m c11_sm_sep_lf in
        let idx := if c11_sm_case_crlf i1 i2 then c11_sm_idx_crlf i1 else if c11_sm_case_lf i1 i2 then c11_sm_idx_lf i2 else c11_sm_idx_rest (zlen m) in
        let mal := if c11_sm_case_crlf i1 i2 then malformed else if c11_sm_case_lf i1 i2 then malformed else true in
        let sb := c11_sm_section_bounds idx (zlen m) in
        let rb := c11_sm_rest_bounds idx (zlen m) in
        section <- cslice (fst sb) (snd sb) m ;;
        rest <- cslice (fst rb) (snd rb) m ;;
        if c11_sm_empty_section (zlen (trim_space section)) then sm_loop k rest acc true
        else sm_loop k rest (section :: acc) mal
      else Ok (rev acc, malformed)
  end.
Definition split_manifest (m : bytes) : result (list bytes * bool) := sm_loop (S (length m)) m [] false.

(* textproto.CanonicalMIMEHeaderKey on a key made of token bytes; other keys are left alone *)
Definition is_token_byte (c : Z) : bool :=
  ((48 <=? c) && (c <=? 57)) || ((65 <=? c) && (c <=? 90)) || ((97 <=? c) && (c <=? 122)) ||
  memz c [33; 35; 36; 37; 38; 39; 42; 43; 45; 46; 94; 95; 96; 124; 126].
Definition upper1 (c : Z) : Z := if (97 <=? c) && (c <=? 122) then c - 32 else c.
Fixpoint canon_go (up : bool) (l : bytes) : bytes :=
  match l with
  | [] => []
  | c :: r => (if up then upper1 c else lower1 c) :: canon_go (c =? 45) r
  end.
Definition canon_key (k : bytes) : bytes := if forallb is_token_byte k then canon_go true k else k.
Definition hdr := list (bytes * bytes).
Fixpoint hdr_set (k v : bytes) (h : hdr) : hdr :=
  match h with
  | [] => [(k, v)]
  | (k', v') :: r => if bytes_eqb k' k then (k, v) :: r else (k', v') :: hdr_set k v r
  end.
Definition hdr_get (k : bytes) (h : hdr) : bytes := lookup (canon_key k) h.

Fixpoint ps_lines (ls : list bytes) (h : hdr) : result hdr :=
  match ls with
  | [] => Ok h
  | line :: r =>
      if c11_ps_skip_line (zlen line) then ps_lines r h else
      let idx := index_sub line c11_ps_colon in
      if c11_ps_no_colon idx then Err E_MALFORMED else
      let kb := c11_ps_key_bounds idx (zlen line) in
      let vb := c11_ps_value_bounds idx (zlen line) in
      key <- cslice (fst kb) (snd kb) line ;;
      value <- cslice (fst vb) (snd vb) line ;;
      ps_lines r (hdr_set (canon_key (trim_space key)) (trim_space value) h)
  end.
Definition parse_section (section : bytes) : result hdr :=
  let s1 := replace_all O section c11_ps_crlf c11_ps_crlf_to in
  let s2 := replace_all O s1 c11_ps_cont c11_ps_cont_to in
  ps_lines (split_byte (hd 10 c11_ps_line_sep) [] s2) [].

(* parseManifest: (number of named sections, malformed) *)
Fixpoint pm_sections (i : Z) (secs : list bytes) (names : Z) : result Z :=
  match secs with
  | [] => Ok names
  | s :: r =>
      if c11_pm_skip_section i (zlen s) then pm_sections (i + 1) r names else
      h <- parse_section s ;;
      if i =? 0 then pm_sections (i + 1) r names else
      if c11_pm_no_name (hdr_get c11_pm_name_attr h) then Err E_NONAME else pm_sections (i + 1) r (names + 1)
  end.
Definition parse_manifest (m : bytes) : result (Z * bool) :=
  sm <- split_manifest m ;;
  if c11_pm_no_sections (zlen (fst sm)) then Err E_NOSECTIONS else
  n <- pm_sections 0 (fst sm) 0 ;;
  Ok (n, snd sm).
(* DigestManifest (supported hash): sections[0], then every section of sections[1:] *)
Fixpoint dm_sections (secs : list bytes) (n : Z) : result Z :=
  match secs with
  | [] => Ok n
  | s :: r =>
      h <- parse_section s ;;
      if c11_pm_no_name (hdr_get c11_pm_name_attr h) then Err E_NONAME else dm_sections r (n + 1)
  end.
Definition digest_manifest (m : bytes) : result Z :=
  sm <- split_manifest m ;;
  if snd sm then Err E_LINEENDINGS else
  if c11_dm_empty (zlen (fst sm)) then Err E_NOSECTIONS else
  _ <- cnth 0 (fst sm) ;;                                        (* sections[0] *)
  rest <- cslice_l 1 (zlen (fst sm)) (fst sm) ;;                 (* sections[1:] *)
  dm_sections rest 0.

(* ================================================================== lib/pgptools: tailClearSign / headClearSign and the pipe around them *)
(* tailClearSign: (bytes written to the output, scanner error) *)
Fixpoint tail_lines (copying : bool) (ls : list bytes) : bytes :=
  match ls with
  | [] => []
  | l :: r =>
      let c := c11_cl_tail_copy copying (bytes_eqb l c11_cl_sig_header) in
      (if c then l ++ c11_cl_crlf else []) ++ tail_lines c r
  end.
Definition tail_clear_sign (stream : bytes) : result bytes :=
  if scan_too_long (raw_lines stream) then Err E_TOOLONG else Ok (tail_lines false (scan_lines (raw_lines stream))).
(* headClearSign: what is copied before the signature header *)
Fixpoint head_lines (ls : list bytes) : option bytes :=
  match ls with
  | [] => None
  | l :: r => if c11_cl_head_found (bytes_eqb l c11_cl_sig_header) then Some []
              else option_map (fun t => l ++ c11_cl_crlf ++ t) (head_lines r)
  end.
Definition head_clear_sign (stream : bytes) : result bytes :=
  match head_lines (scan_lines (raw_lines stream)) with
  | Some b => Ok b
  | None => if scan_too_long (raw_lines stream) then Err E_TOOLONG else Err E_NOSIG
  end.
(* A producer writes `stream` into an io.Pipe, a helper goroutine consumes it.  The pipe has no buffer: when the consumer
   stops reading before the producer has written everything and nobody drains or closes the read side, the producer blocks
   in Write for ever (and the consumer in `done <- err` when the channel is unbuffered): a hang no caller can recover from.
   The scanner gives up at a token that is too long — everything after that line is still to be written.
   releases: the goroutine drains the reader (io.Copy(Discard, r)) or closes the read side before it reports. *)
Definition pipe_run {A} (releases : bool) (stream : bytes) (consume : bytes -> result A) : result A :=
  if scan_too_long (raw_lines stream) && negb releases then Panic P_HANG else consume stream.
(* what clearsign.Encode writes for a message: armor header lines, then the message with lines starting with '-'
   dash-escaped ("- " in front), then the signature armor; only line LENGTHS matter to the scanner *)
Definition dash_escape (l : bytes) : bytes := match l with 45 :: _ => 45 :: 32 :: l | _ => l end.
Definition clearsigned_lines (msg : bytes) : list bytes := map dash_escape (raw_lines msg).
Definition cl_releases : bool := c11_goroutines_releases_tailClearSign && c11_goroutines_releases_headClearSign.
(* DetachClearSign on a message: Ok / Err = returns (the armor lines are short), Panic P_HANG = blocks for ever *)
Definition detach_clear_sign (msg : bytes) : result unit :=
  if existsb (fun l => max_token <=? zlen l) (clearsigned_lines msg) && negb cl_releases then Panic P_HANG
  else if existsb (fun l => max_token <=? zlen l) (clearsigned_lines msg) then Err E_TOOLONG else Ok tt.

(* ================================================================== reviewed site tables and goroutine inventory *)
Open Scope string_scope.
(* complete site tables of the modelled functions: (site, dominated by a bounds check according to srcgen's analysis) *)
Definition reviewed_pc_sites : list (string * bool) := [("slice line[:j]", true); ("slice line[j+1:]", true)].
Definition reviewed_cs_sites : list (string * bool) :=
  [("index line[0]", true); ("slice line[1:]", true); ("index parts[0]", true); ("index parts[1]", true); ("index parts[3]", true)].
Definition reviewed_sign_sites : list (string * bool) := [("slice name[11:]", true)].
Definition reviewed_sm_sites : list (string * bool) := [("slice manifest[:idx]", false); ("slice manifest[idx:]", false)].
Definition reviewed_ps_sites : list (string * bool) := [("slice line[:idx]", true); ("slice line[idx+1:]", true)].
Definition reviewed_pm_sites : list (string * bool) := [].
Definition reviewed_dm_sites : list (string * bool) := [("index sections[0]", true); ("slice sections[1:]", true)].
Definition reviewed_pc_fields : list (bytes * string) :=
  [([112; 97; 99; 107; 97; 103; 101], "info.Package=value"); ([118; 101; 114; 115; 105; 111; 110], "info.Version=value");
   ([97; 114; 99; 104; 105; 116; 101; 99; 116; 117; 114; 101], "info.Arch=value")].
(* go statements under lib/ and signers/: (where, package-local callees, recovers, releases its writer = drains the
   reader or closes the read side before reporting).
   None recovers: a panic in any of them ends the process, whatever RecoveryMiddleware does on the request goroutine.
   The three hand-written line parsers among them (parseControl, tailClearSign, headClearSign) are proved panic-free and
   all three release their writer after an early return (relic 311c650 added that to the two clearsign scanners). *)
Definition reviewed_goroutines : list (string * list string * bool * bool) := [
  ("lib/compresshttp:CompressRequest", ["compress"], false, false);
  ("lib/pgptools:DetachClearSign", ["tailClearSign"], false, true);
  ("lib/pgptools:MergeClearSign", ["headClearSign"], false, true);
  ("lib/signappx:setupPeDigest", [], false, false);
  ("lib/signdeb:Sign", ["parseControl"], false, true);
  ("signers/dmg:transformer.GetReader", [".send"], false, false);
  ("signers/macho:transformer.GetReader", [".send"], false, false);
  ("signers/msi:msiTransformer.GetReader", [], false, false);
  ("signers/xap:xapTransformer.GetReader", [], false, false);
  ("signers/zipbased:zipTransformer.GetReader", [], false, false)].
Close Scope string_scope.
