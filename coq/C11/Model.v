(* C11/Model.v — malformed input yields an error, never a crash or runaway resource use.
   Executable models of small, server-reachable parsers of relic, written with CHECKED primitives only: every slice
   expression, index, integer read and allocation of the Go code is a call that returns `Panic` exactly where Go panics
   (bounds, negative length) or where a single allocation exceeds a bound linear in the input; every loop carries fuel
   and returns `Panic P_HANG` when it runs out.  The guards in front of those calls are the generated definitions of
   Generated/C11_gen.v (translated from the Go source on every run), so a removed or weakened bounds check changes the
   model and the no-panic theorems of Proofs.v have to be re-proved against it. *)
From Relic Require Import Base.Prelude Base.Enc Generated.C11_gen.

(* panic classes *)
Definition P_SLICE := 1.   (* slice bounds / index out of range *)
Definition P_MAKE := 2.    (* makeslice: len out of range (negative) *)
Definition P_ALLOC := 4.   (* a single allocation larger than alloc_limit: "allocation sized by an unchecked header field" *)
Definition P_HANG := 5.    (* loop fuel exhausted *)
(* error classes (shared by all parsers of this file) *)
Definition E_EOF := 1.        (* io.EOF / io.ErrUnexpectedEOF / errShort / errTruncated *)
Definition E_VERSION := 2.    (* unsupported binpatch version *)
Definition E_INVALID := 3.    (* invalid length in signature blob / malformed APK signing block *)
Definition E_TRAILING := 4.   (* trailing data after structure *)
Definition E_EMPTY := 5.      (* empty APK signing block *)

(* the largest single allocation an input of n bytes may cause *)
Definition alloc_limit (n : Z) : Z := 64 * n + 1048576.

Definition alloc (input_len n : Z) : result unit :=
  if n <? 0 then Panic P_MAKE else if alloc_limit input_len <? n then Panic P_ALLOC else Ok tt.
(* l[a:b] *)
Definition cslice (a b : Z) (l : bytes) : result bytes :=
  if (a <? 0) || (b <? a) || (zlen l <? b) then Panic P_SLICE else Ok (zslice a b l).
(* binary.LittleEndian.UintNN(l[off:]) / BigEndian: needs w bytes at off *)
Definition cle (w off : Z) (l : bytes) : result Z :=
  if (off <? 0) || (zlen l <? off) then Panic P_SLICE            (* l[off:] *)
  else if zlen l - off <? w then Panic P_SLICE                   (* index out of range inside UintNN *)
  else Ok (le_dec (zslice off (off + w) l)).
Definition cbe (w off : Z) (l : bytes) : result Z :=
  if (off <? 0) || (zlen l <? off) then Panic P_SLICE
  else if zlen l - off <? w then Panic P_SLICE
  else Ok (be_dec (zslice off (off + w) l)).

(* ================================================================== binpatch.Load *)
Record phdr := mkPh { ph_off : Z; ph_old : Z; ph_new : Z }.
(* binary.Read(r, BigEndian, p.Patches): n headers of 16 bytes from the reader; (headers, rest) *)
Fixpoint load_headers (n : nat) (l : bytes) : result (list phdr * bytes) :=
  match n with
  | O => Ok ([], l)
  | S k =>
      if zlen l <? c11_ph_size then Err E_EOF else
      let h := mkPh (be_dec (zslice c11_ph_off_Offset (c11_ph_off_Offset + c11_ph_w_Offset) l))
                    (be_dec (zslice c11_ph_off_OldSize (c11_ph_off_OldSize + c11_ph_w_OldSize) l))
                    (be_dec (zslice c11_ph_off_NewSize (c11_ph_off_NewSize + c11_ph_w_NewSize) l)) in
      r <- load_headers k (zdrop c11_ph_size l) ;;
      Ok (h :: fst r, snd r)
  end.
Fixpoint load_blobs (input_len : Z) (hs : list phdr) (l : bytes) : result (list bytes) :=
  match hs with
  | [] => Ok []
  | h :: hs' =>
      if c11_load_blob_exceeds (ph_new h) (zlen l) then Err E_EOF else
      _ <- alloc input_len (ph_new h) ;;                         (* make([]byte, int(hdr.NewSize)) *)
      if zlen l <? ph_new h then Err E_EOF else                  (* io.ReadFull *)
      r <- load_blobs input_len hs' (zdrop (ph_new h) l) ;;
      Ok (ztake (ph_new h) l :: r)
  end.
Definition load (l : bytes) : result (list phdr * list bytes) :=
  if zlen l <? c11_psh_size then Err E_EOF else                  (* binary.Read of the 8 byte header *)
  let version := be_dec (zslice c11_psh_off_Version (c11_psh_off_Version + c11_psh_w_Version) l) in
  let num := be_dec (zslice c11_psh_off_NumPatches (c11_psh_off_NumPatches + c11_psh_w_NumPatches) l) in
  let rest := zdrop c11_psh_size l in
  if c11_load_version_bad version then Err E_VERSION else
  if c11_load_count_exceeds num (zlen rest) then Err E_EOF else
  _ <- alloc (zlen l) (num * c11_ph_size) ;;                     (* make([]PatchHeader, num) *)
  _ <- alloc (zlen l) (num * 24) ;;                              (* make([][]byte, num): 24 byte slice headers *)
  hr <- load_headers (Z.to_nat num) rest ;;
  bs <- load_blobs (zlen l) (fst hr) (snd hr) ;;
  Ok (fst hr, bs).

(* ================================================================== csblob.parseSuper *)
Record sitem := mkItem { it_type : Z; it_magic : Z; it_len : Z }.
Fixpoint super_items (n : nat) (i : Z) (indexes blob : bytes) (data_off : Z) : result (list sitem) :=
  match n with
  | O => Ok []
  | S k =>
      itype <- cbe 4 (8 * i) indexes ;;
      off0 <- cbe 4 (4 + 8 * i) indexes ;;
      let offset := off0 - data_off in
      if c11_super_off_bad offset (zlen blob) then Err E_EOF else
      length <- cbe 4 (offset + 4) blob ;;
      if c11_super_item_bad length offset (zlen blob) then Err E_EOF else
      magic <- cbe 4 offset blob ;;
      _ <- cslice offset (offset + length) blob ;;
      r <- super_items k (i + 1) indexes blob data_off ;;
      Ok (mkItem itype magic length :: r)
  end.
Definition parse_super (blob : bytes) : result (Z * list sitem) :=
  if c11_super_short (zlen blob) then Err E_EOF else
  magic <- cbe 4 0 blob ;;
  length <- cbe 4 4 blob ;;
  count <- cbe 4 8 blob ;;
  if c11_super_len_bad length (zlen blob) then Err E_INVALID else
  b1 <- cslice 12 (zlen blob) blob ;;
  if c11_super_index_short (zlen b1) count then Err E_EOF else
  indexes <- cslice 0 (8 * count) b1 ;;
  b2 <- cslice (8 * count) (zlen b1) b1 ;;
  let data_off := zlen blob - zlen b2 in
  items <- super_items (Z.to_nat count) 0 indexes b2 data_off ;;
  Ok (magic, items).

(* ================================================================== signxap.removeSignature (returns the kept length) *)
Definition xap_remove (cd : bytes) : result Z :=
  let size := zlen cd in
  if c11_xap_short size then Ok size else
  tr <- cslice (size - 10) size cd ;;
  let magic := le_dec (zslice c11_xtr_off_Magic (c11_xtr_off_Magic + c11_xtr_w_Magic) tr) in
  let tsize := le_dec (zslice c11_xtr_off_TrailerSize (c11_xtr_off_TrailerSize + c11_xtr_w_TrailerSize) tr) in
  if c11_xap_is_trailer magic tsize size then
    let size' := size - (tsize + 10) in
    _ <- cslice 0 size' cd ;;
    Ok size'
  else Ok size.

(* ================================================================== apk: length-prefixed structures (unmarshalR) *)
Inductive schema := SU32 | SBytes | SRaw | SSlice (e : schema) | SStruct (fs : list schema).
Inductive aval := AU32 (z : Z) | ABytes (b : bytes) | ARaw (b : bytes) | ASlice (l : list aval) | AStruct (l : list aval).

Definition rmap {A B} (f : A -> B) (r : result A) : result B :=
  match r with Ok a => Ok (f a) | Err e => Err e | Panic p => Panic p end.

(* the `for len(blob) > 0` loop of a slice: every item that returns normally has consumed at least four bytes, so |inner|+1
   iterations always suffice (Proofs.um_items_ok); the field loop of a struct *)
Definition um_items (rec : bytes -> result (aval * bytes)) : nat -> bytes -> result (list aval) :=
  fix items (n : nat) (b : bytes) : result (list aval) :=
    match n with
    | O => Panic P_HANG
    | S n' =>
        if c11_um_slice_more (zlen b) then
          x <- rec b ;;
          r <- items n' (snd x) ;;
          Ok (fst x :: r)
        else Ok []
    end.
Definition um_fields (rec : schema -> bytes -> result (aval * bytes)) : list schema -> bytes -> result (list aval) :=
  fix fields (fs : list schema) (b : bytes) : result (list aval) :=
    match fs with
    | [] => if c11_um_struct_trailing (zlen b) then Err E_TRAILING else Ok []
    | f :: fs' =>
        x <- rec f b ;;
        r <- fields fs' (snd x) ;;
        Ok (fst x :: r)
    end.
(* fuel bounds the nesting depth of unmarshalR activations (the schema depth suffices: Proofs.um_no_panic) *)
Fixpoint um (fuel : nat) (s : schema) (blob : bytes) : result (aval * bytes) :=
  match fuel with
  | O => Panic P_HANG
  | S k =>
      match s with
      | SU32 =>
          if c11_um_scalar_short (zlen blob) then Err E_EOF else
          v <- cle 4 0 blob ;;
          r <- cslice 4 (zlen blob) blob ;;
          Ok (AU32 v, r)
      | _ =>
          if c11_um_prefix_short (zlen blob) then Err E_EOF else
          size <- cle 4 0 blob ;;
          if c11_um_size_exceeds size (zlen blob) then Err E_EOF else
          remainder <- cslice (4 + size) (zlen blob) blob ;;
          raw <- cslice 0 (4 + size) blob ;;
          inner <- cslice 4 (zlen raw) raw ;;
          match s with
          | SU32 => Ok (AU32 0, remainder)
          | SBytes => Ok (ABytes inner, remainder)
          | SRaw => Ok (ARaw raw, remainder)
          | SSlice e => rmap (fun l => (ASlice l, remainder)) (um_items (um k e) (S (length inner)) inner)
          | SStruct fs => rmap (fun l => (AStruct l, remainder)) (um_fields (um k) fs inner)
          end
      end
  end.
Fixpoint depth (s : schema) : nat :=
  match s with
  | SSlice e => S (depth e)
  | SStruct fs => S (fold_right (fun f n => Nat.max (depth f) n) O fs)
  | _ => 1%nat
  end.
(* unmarshal(blob, &v): everything must be consumed *)
Definition unmarshal (s : schema) (blob : bytes) : result aval :=
  x <- um (depth s) s blob ;;
  if negb (zlen (snd x) =? 0) then Err E_TRAILING else Ok (fst x).

(* the types of signers/apk/structs.go *)
Definition s_attribute : schema := SStruct [SU32; SBytes].
Definition s_signer : schema := SStruct [SRaw; SSlice s_attribute; SBytes].
Definition s_signer_list : schema := SSlice s_signer.
Definition s_signed_data : schema := SStruct [SSlice s_attribute; SSlice SBytes; SSlice s_attribute].

(* ================================================================== apk: getSigBlock (the bytes between the last entry and the
   central directory) and the ID-value pair loop of verify, up to and including the parse of every v2 signer list *)
Definition sig_magic : bytes := [65; 80; 75; 32; 83; 105; 103; 32; 66; 108; 111; 99; 107; 32; 52; 50].   (* "APK Sig Block 42" *)
Definition has_suffix_b (l suf : bytes) : bool :=
  if zlen l <? zlen suf then false else
  (fix eqb (a b : bytes) : bool :=
     match a, b with [], [] => true | x :: a', y :: b' => (x =? y) && eqb a' b' | _, _ => false end)
    (zdrop (zlen l - zlen suf) l) suf.
(* Some None = not signed; Some (Some pairs) = the pairs region *)
Definition sig_block (input_len sig_loc dir_loc : Z) (gap : bytes) : result (option bytes) :=
  if c11_sb_unsigned sig_loc dir_loc then Ok None else
  if c11_sb_out_of_range sig_loc dir_loc then Err E_INVALID else
  _ <- alloc input_len (dir_loc - sig_loc) ;;                    (* make([]byte, inz.DirLoc-sigLoc) *)
  let blob := gap in
  if negb (has_suffix_b blob sig_magic) then Err E_INVALID else
  if c11_sb_too_short (zlen blob) (zlen sig_magic) then Err E_INVALID else
  let expected := zlen blob - 8 in
  size1 <- cle 8 0 blob ;;
  tail <- cslice (zlen blob - 24) (zlen blob) blob ;;
  size2 <- cle 8 0 tail ;;
  if c11_sb_size_bad size1 size2 expected then Err E_INVALID else
  r <- cslice 8 (zlen blob - 24) blob ;;
  Ok (Some r).
(* vok: the outcome of signer.Verify on a parsed signer list (signature, certificate and digest checks: not part of the parser);
   when it fails, verify returns that error at once and the remaining pairs are never looked at *)
Fixpoint pairs (vok : aval -> bool) (fuel : nat) (block : bytes) : result (list aval) :=
  match fuel with
  | O => Panic P_HANG
  | S k =>
      if c11_pair_more (zlen block) then
        if c11_pair_short (zlen block) then Err E_EOF else
        part_size <- cle 8 0 block ;;
        b1 <- cslice 8 (zlen block) block ;;
        if c11_pair_size_bad part_size (zlen b1) then Err E_EOF else
        part_type <- cle 4 0 b1 ;;
        part_blob <- cslice 4 part_size b1 ;;
        b2 <- cslice part_size (zlen b1) b1 ;;
        if c11_pair_other part_type then pairs vok k b2 else
        sl <- unmarshal s_signer_list part_blob ;;
        match sl with
        | ASlice [] => Err E_EMPTY
        | _ => if vok sl then r <- pairs vok k b2 ;; Ok (sl :: r) else Ok [sl]
        end
      else Ok []
  end.
Definition apk_v2_parse (vok : aval -> bool) (input_len sig_loc dir_loc : Z) (gap : bytes) : result (list aval) :=
  b <- sig_block input_len sig_loc dir_loc gap ;;
  match b with
  | None => Ok []
  | Some block => pairs vok (S (length block)) block
  end.

(* ================================================================== apk: apkSigner.Verify, the digest comparison loop.
   hashes has one entry per signedData.Digests entry; newMerkleHasher keeps that list as it is and Finish returns one digest per
   entry of its list (blocks: make([][]byte, len(hashes))); the loop then indexes digests[i] for every i < len(Digests). *)
Definition merkle_out_len (hashes : list Z) : Z := zlen hashes.
Fixpoint digest_loop (n_out : Z) (i : Z) (ds : list Z) : result unit :=
  match ds with
  | [] => Ok tt
  | _ :: r => if (i <? 0) || (n_out <=? i) then Panic P_SLICE else digest_loop n_out (i + 1) r     (* digests[i] *)
  end.
Definition verify_digests (hashes : list Z) : result Z :=
  _ <- digest_loop (merkle_out_len hashes) 0 hashes ;; Ok (merkle_out_len hashes).
