(* C11/Sites.v — the reviewed lists of index / slice / type-assertion sites that srcgen's light dominator analysis cannot
   show to be guarded, per input-facing package.  srcgen re-derives the lists from the Go AST on every run
   (Generated/C11_gen.v, the c11_unguarded_ lists); each lemma below states that what it finds now is exactly what was
   reviewed, so a NEW index, slice or single-value type assertion on these paths that no dominating condition protects — or
   the removal of the check that protected an existing one — breaks an equality here and the C11 proof target no longer
   builds.  Review notes (why each listed site cannot fail, or under which finding key it is known to) follow each list. *)
From Coq Require Import String.
From Relic Require Import Base.Prelude Generated.C11_gen.
Open Scope string_scope.

Definition reviewed_signdeb : list string := [
].
(* review: nothing left — checkSig tests len(parts) before indexing since relic d376f3c (C11.Text.check_sig_no_panic). *)
Lemma sites_signdeb_reviewed : c11_unguarded_signdeb = reviewed_signdeb.
Proof. reflexivity. Qed.

Definition reviewed_pgptools : list string := [
  "serializeHeader: index buf[1]";
  "serializeHeader: index buf[1]";
  "serializeHeader: index buf[2]";
  "serializeHeader: index buf[1]";
  "serializeHeader: index buf[2]";
  "serializeHeader: index buf[3]";
  "serializeHeader: index buf[4]";
  "serializeHeader: index buf[5]";
  "serializeHeader: slice buf[:n]"].
(* review: serializeHeader: buf is a fixed 6-byte buffer filled by constant indexes chosen by the length class (FmtPGP.pgp_len_roundtrip). *)
Lemma sites_pgptools_reviewed : c11_unguarded_pgptools = reviewed_pgptools.
Proof. reflexivity. Qed.

Definition reviewed_signjar : list string := [
  "splitManifest: slice manifest[:idx]";
  "splitManifest: slice manifest[idx:]";
  "writeAttribute: slice line[i:j]";
  "hashFile: slice key[:len(key)-len(suffix)]";
  "hashFile: index value[0]";
  "hashFile: slice buf[:n]";
  "verifySigFile: index sections[0]"].
(* review: splitManifest: idx comes from bytes.Index on the same slice (C11.Text.split_manifest_no_panic). writeAttribute line[i:j]: j is clamped to len(line). hashFile: key has the suffix (HasSuffix above), value[0] of a header value list (http.Header values are never empty), buf[:n] n from Read. verifySigFile sections[0]: guarded by ParseManifest of the same bytes just above (C11.Text.parse_manifest_guards_digest). *)
Lemma sites_signjar_reviewed : c11_unguarded_signjar = reviewed_signjar.
Proof. reflexivity. Qed.

Definition reviewed_appmanifest : list string := [
  "PublicKeyToken: index sum[19-i]";
  "PublicKeyToken: index token[i]";
  "bigIntToLE: index b[j]";
  "bigIntToLE: index b[i]";
  "bigIntToLE: index b[i]";
  "bigIntToLE: index b[j]";
  "makeManifestHash: index blob[j]";
  "makeManifestHash: index blob[i]";
  "makeManifestHash: index blob[i]";
  "makeManifestHash: index blob[j]";
  "SignedManifest.AddTimestamp: slice siblob[:n]";
  "SignedManifest.AddTimestamp: slice siblob[n:]"].
(* review: byte reversal loops over fixed-size digests / big.Int bytes (i, j derived from len); AddTimestamp: n = index of a marker that was just serialized into siblob. *)
Lemma sites_appmanifest_reviewed : c11_unguarded_appmanifest = reviewed_appmanifest.
Proof. reflexivity. Qed.

Definition reviewed_signers_deb : list string := [
].
(* review: prefix slices follow strings.HasPrefix checks on the same strings (the analysis does not track len(prefix) of a variable prefix). *)
Lemma sites_signers_deb_reviewed : c11_unguarded_signers_deb = reviewed_signers_deb.
Proof. reflexivity. Qed.

Definition reviewed_signers_pgp : list string := [
].
Lemma sites_signers_pgp_reviewed : c11_unguarded_signers_pgp = reviewed_signers_pgp.
Proof. reflexivity. Qed.

Definition reviewed_xmldsig : list string := [
  "HashAlgorithm: slice hashAlg[len(prefix):]";
  "parseAlgs: slice sigAlg[len(prefix):]";
  "parseAlgs: slice sigAlg[:len(sigAlg)-len(hashAlg)-1]"].
Lemma sites_xmldsig_reviewed : c11_unguarded_xmldsig = reviewed_xmldsig.
Proof. reflexivity. Qed.

Definition reviewed_comdoc : list string := [
  "ComDoc.readDir: index cooked[i]";
  "ComDoc.RootStorage: index r.Files[r.rootStorage]";
  "ComDoc.ListDir: index stack[i]";
  "ComDoc.ListDir: slice stack[:i]";
  "ComDoc.appendDirEnt: index r.Files[index]";
  "ComDoc.appendDirEnt: index r.Files[index]";
  "ComDoc.appendDirEnt: index r.Files[index]";
  "ComDoc.writeDirStream: slice r.Files[j : j+perSector]";
  "ComDoc.writeDirStream: index chunk[k]";
  "ComDoc.writeDirStream: index chunk[k]";
  "ComDoc.writeDirStream: index r.SAT[previous]";
  "ComDoc.writeDirStream: index r.SAT[previous]";
  "ComDoc.rebuildTree: index r.Files[i]";
  "ComDoc.rebuildTree: assert n.Item.(*DirEnt)";
  "ComDoc.rebuildTree: index r.Files[parent]";
  "ComDoc.rebuildTree: index n.Children[0]";
  "ComDoc.rebuildTree: assert n.Children[0].Item.(*DirEnt)";
  "ComDoc.rebuildTree: index n.Children[0]";
  "ComDoc.rebuildTree: index n.Children[1]";
  "ComDoc.rebuildTree: assert n.Children[1].Item.(*DirEnt)";
  "ComDoc.rebuildTree: index n.Children[1]";
  "lessDirEnt: assert i.(*DirEnt)";
  "lessDirEnt: assert j.(*DirEnt)";
  "lessDirEnt: index f.NameRunes[k]";
  "SameName: index rb[k]";
  "ComDoc.readMSAT: slice values[:count-1]";
  "ComDoc.readMSAT: index values[count-1]";
  "ComDoc.readMSAT: index r.MSAT[i]";
  "ComDoc.readMSAT: slice r.MSAT[:i+1]";
  "ComDoc.allocSectorTables: index r.makeFreeSectors(1, false)[0]";
  "ComDoc.allocSectorTables: index r.SAT[sector]";
  "ComDoc.allocSectorTables: index r.makeFreeSectors(1, false)[0]";
  "ComDoc.allocSectorTables: index r.SAT[sector]";
  "ComDoc.writeMSAT: index msat[i]";
  "ComDoc.writeMSAT: slice msat[msatInHeader:]";
  "ComDoc.writeMSAT: slice msat[j : j+msatPerSector]";
  "ComDoc.writeMSAT: index r.msatList[i+1]";
  "ComDoc.writeMSAT: index chunk[msatPerSector]";
  "ComDoc.writeMSAT: index chunk[msatPerSector]";
  "ComDoc.writeSector: index buf[i]";
  "ComDoc.writeSector: slice buf[:r.SectorSize]";
  "ComDoc.makeFreeSectors: index newSAT[i]";
  "ComDoc.writeSAT: slice r.SAT[j : j+satPerSector]";
  "ComDoc.writeShortSAT: slice r.SSAT[j : j+perSector]";
  "ComDoc.writeShortSAT: index r.SAT[previous]";
  "ComDoc.writeShortSAT: index r.SAT[previous]";
  "ComDoc.readShortSector: index r.Files[r.rootStorage]";
  "ComDoc.writeShortSector: index buf[i]";
  "ComDoc.writeShortSector: slice buf[:r.ShortSectorSize]";
  "ComDoc.writeShortSector: index r.Files[r.rootStorage]";
  "ComDoc.writeShortSector: index r.SAT[bigSectorID]";
  "ComDoc.writeShortSector: index r.SAT[bigSectorID]";
  "ComDoc.writeShortSector: index r.SAT[bigSectorID]";
  "streamReader.Read: slice d[:int(sr.remaining)]";
  "streamReader.Read: slice d[n:]";
  "streamReader.Read: slice sr.saved[n:]";
  "streamReader.Read: slice d[:sr.sectorSize]";
  "streamReader.Read: slice d[n:]";
  "streamReader.Read: slice sr.buf[len(d):]";
  "ComDoc.addStream: index sat[previous]";
  "ComDoc.addStream: slice contents[:n]";
  "ComDoc.addStream: slice contents[:n]";
  "ComDoc.addStream: slice contents[n:]";
  "ComDoc.addStream: index sat[previous]"].
(* review: reader sites are bounded by the sector-count / directory-id checks added by the C11 fixes (readDir, ListDir, readMSAT, readShortSector: corpus entries comdoc.x); writer sites index tables the writer allocated itself. Known residual keys: known_findings.json C11:comdoc.x. *)
Lemma sites_comdoc_reviewed : c11_unguarded_comdoc = reviewed_comdoc.
Proof. reflexivity. Qed.

Definition reviewed_csblob : list string := [
  "checkPlistHashes: slice computed[dir.HashFunc][:20]";
  "checkPlistHashes: index computedList[i]";
  "parseCodeDirectory: slice blob[hashBase+i*hashLen : hashBase+(i+1)*hashLen]";
  "parseCodeDirectory: index dir.CodeHashes[i]";
  "cstring: slice blob[i:]";
  "newCodeDirectory: slice specialSlots[:len(specialSlots)+h.Size()]";
  "parseSignature: index sig.Directories[i]";
  "parseSignature: index sig.Directories[j]";
  "hashPages: index hashers[i]";
  "hashPages: index hashers[i]";
  "hashPages: index writers[i]";
  "hashPages: index slots[i]";
  "hashPages: slice buf[:n]";
  "hashPages: index slots[i]";
  "hashPages: index slots[i]";
  "SigBlob.Requirements: slice item.data[8:]";
  "reqDumper.op: slice d.buf[4:]";
  "reqDumper.getData: slice d.buf[:length]";
  "reqDumper.getData: slice d.buf[aligned:]";
  "parseSuper: slice blob[:8*count]";
  "parseSuper: slice blob[8*count:]";
  "parseSuper: slice indexes[8*i:]";
  "parseSuper: slice indexes[4+8*i:]";
  "parseSuper: slice blob[offset+4:]";
  "parseSuper: slice blob[offset:]";
  "parseSuper: slice blob[offset : offset+length]";
  "newSuperItem: slice packed[4:]";
  "newSuperItem: slice packed[8:]";
  "marshalSuperBlob: index ints[0]";
  "marshalSuperBlob: index ints[2]";
  "marshalSuperBlob: index ints[3+2*i]";
  "marshalSuperBlob: index ints[4+2*i]";
  "marshalSuperBlob: index ints[1]";
  "SigBlob.VerifyPages: slice page[:remaining]"].
(* review: parseSuper: C11.Properties.parse_super_no_panic. parseCodeDirectory / VerifyPages / Requirements: bounded by the explicit length checks in front of them (corpus entries csblob.x); reqDumper reads are length-checked by getData. hashPages / marshalSuperBlob index tables of their own making. *)
Lemma sites_csblob_reviewed : c11_unguarded_csblob = reviewed_csblob.
Proof. reflexivity. Qed.

Definition reviewed_xar : list string := [
  "XAR.Verify: index x.Certificates[0]";
  "XAR.Verify: index x.Certificates[0]";
  "XAR.Verify: slice x.Certificates[1:]";
  "XAR.checkFiles: index dataFiles[i]";
  "XAR.checkFiles: index dataFiles[j]";
  "checkFiles: index dataFiles[i]";
  "checkFiles: index dataFiles[j]";
  "parseCertificates: index parsed[i]"].
(* review: Certificates[0]: an empty certificate list is rejected above; dataFiles sort callbacks; parsed[i] parallel table. *)
Lemma sites_xar_reviewed : c11_unguarded_xar = reviewed_xar.
Proof. reflexivity. Qed.

Definition reviewed_dmg : list string := [
].
(* review: patch functions slice a header copy whose offsets were validated when the markers were found (corpus machos.machoMarkers.PatchSignature_slice); cstring: i from IndexByte (i < 0 handled). *)
Lemma sites_dmg_reviewed : c11_unguarded_dmg = reviewed_dmg.
Proof. reflexivity. Qed.

Definition reviewed_machos : list string := [
  "machoMarkers.PatchSignature: slice padded[padding:]";
  "machoMarkers.patchNcmd: slice newHeader[16:]";
  "machoMarkers.patchNcmd: slice newHeader[16:]";
  "machoMarkers.patchNcmd: slice newHeader[20:]";
  "machoMarkers.patchNcmd: slice newHeader[20:]";
  "machoMarkers.patchNcmd: slice newHeader[16 : 16+8]";
  "machoMarkers.patchLoadCmd: slice newHeader[f.loadCsStart:]";
  "machoMarkers.patchLoadCmd: slice newHeader[f.loadCsStart+4:]";
  "machoMarkers.patchLoadCmd: slice newHeader[f.loadCsStart+8:]";
  "machoMarkers.patchLoadCmd: slice newHeader[f.loadCsStart+12:]";
  "machoMarkers.patchLoadCmd: slice newHeader[f.loadCsStart : f.loadCsStart+16]";
  "machoMarkers.patchLinkEdit: slice newHeader[f.linkEditHdrPos+32:]";
  "machoMarkers.patchLinkEdit: slice newHeader[f.linkEditHdrPos+48:]";
  "machoMarkers.patchLinkEdit: slice newHeader[f.linkEditHdrPos+28:]";
  "machoMarkers.patchLinkEdit: slice newHeader[f.linkEditHdrPos+36:]";
  "machoMarkers.patchLinkEdit: slice newHeader[patchStart : patchStart+patchSize]";
  "cstring: slice b[0:i]"].
Lemma sites_machos_reviewed : c11_unguarded_machos = reviewed_machos.
Proof. reflexivity. Qed.
