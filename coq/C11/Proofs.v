(* C11/Proofs.v — no parser model of C11/Model.v can return Panic: no slice/index out of range, no negative or runaway
   allocation, no loop that runs out of fuel — for EVERY byte string. *)
From Relic Require Import Base.Prelude Base.Enc Generated.C11_gen C11.Model.

(* ------------------------------------------------------------------ bytes and slices *)
Lemma all_bytes_split n l : all_bytes l = all_bytes (ztake n l) && all_bytes (zdrop n l).
Proof. rewrite <- all_bytes_app. unfold ztake, zdrop. now rewrite firstn_skipn. Qed.
Lemma all_bytes_ztake n l : all_bytes l = true -> all_bytes (ztake n l) = true.
Proof. intros H. rewrite (all_bytes_split n l) in H. now apply andb_true_iff in H. Qed.
Lemma all_bytes_zdrop n l : all_bytes l = true -> all_bytes (zdrop n l) = true.
Proof. intros H. rewrite (all_bytes_split n l) in H. now apply andb_true_iff in H. Qed.
Lemma all_bytes_zslice a b l : all_bytes l = true -> all_bytes (zslice a b l) = true.
Proof. intros H. unfold zslice. now apply all_bytes_ztake, all_bytes_zdrop. Qed.
Lemma le_dec_nonneg l : all_bytes l = true -> 0 <= le_dec l.
Proof. intros H. pose proof (le_dec_range l H). lia. Qed.
Lemma be_dec_nonneg l : all_bytes l = true -> 0 <= be_dec l.
Proof. intros H. unfold be_dec. apply le_dec_nonneg. now rewrite all_bytes_rev. Qed.
Lemma zlen_zslice a b (l : bytes) : 0 <= a <= b -> b <= zlen l -> zlen (zslice a b l) = b - a.
Proof.
  intros H1 H2. unfold zslice. rewrite zlen_ztake; [reflexivity|]. rewrite zlen_zdrop by lia. lia.
Qed.
Lemma zlen_zdrop_le n (l : bytes) : zlen (zdrop n l) <= zlen l.
Proof. unfold zlen, zdrop. rewrite skipn_length. lia. Qed.
Lemma zlen_zdrop_ge n (l : bytes) : 0 <= n -> zlen l - n <= zlen (zdrop n l).
Proof. intros H. unfold zlen, zdrop. rewrite skipn_length. lia. Qed.

Lemma cslice_ok a b l : 0 <= a <= b -> b <= zlen l -> cslice a b l = Ok (zslice a b l).
Proof.
  intros H1 H2. unfold cslice. replace (a <? 0) with false by lia. replace (b <? a) with false by lia.
  replace (zlen l <? b) with false by lia. reflexivity.
Qed.
Lemma cle_ok w off l : 0 <= off -> off + w <= zlen l -> 0 <= w -> cle w off l = Ok (le_dec (zslice off (off + w) l)).
Proof.
  intros H1 H2 H3. unfold cle. replace (off <? 0) with false by lia. replace (zlen l <? off) with false by lia.
  replace (zlen l - off <? w) with false by lia. reflexivity.
Qed.
Lemma cbe_ok w off l : 0 <= off -> off + w <= zlen l -> 0 <= w -> cbe w off l = Ok (be_dec (zslice off (off + w) l)).
Proof.
  intros H1 H2 H3. unfold cbe. replace (off <? 0) with false by lia. replace (zlen l <? off) with false by lia.
  replace (zlen l - off <? w) with false by lia. reflexivity.
Qed.
Lemma alloc_ok n k : 0 <= k -> k <= alloc_limit n -> alloc n k = Ok tt.
Proof. intros H1 H2. unfold alloc. replace (k <? 0) with false by lia. replace (alloc_limit n <? k) with false by lia. reflexivity. Qed.

(* ================================================================== binpatch.Load *)
Lemma load_headers_no_panic : forall n l p, load_headers n l <> Panic p.
Proof.
  induction n as [|n IH]; intros l p; cbn [load_headers]; [discriminate|].
  destruct (zlen l <? c11_ph_size); [discriminate|].
  specialize (IH (zdrop c11_ph_size l) p). destruct (load_headers n (zdrop c11_ph_size l)); cbn [bind]; try discriminate. exact IH.
Qed.
Definition hdrs_ok (hs : list phdr) : Prop := Forall (fun h => 0 <= ph_new h) hs.
Lemma load_headers_inv : forall n l hs rest, all_bytes l = true -> load_headers n l = Ok (hs, rest) ->
  hdrs_ok hs /\ zlen rest <= zlen l.
Proof.
  induction n as [|n IH]; intros l hs rest Hb H; cbn [load_headers] in H.
  - inversion H. split; [constructor|lia].
  - destruct (zlen l <? c11_ph_size); [discriminate|].
    destruct (load_headers n (zdrop c11_ph_size l)) as [[hs' rest']| |] eqn:E; cbn [bind fst snd] in H; try discriminate.
    inversion H; subst. destruct (IH _ _ _ (all_bytes_zdrop _ _ Hb) E) as [H1 H2]. split.
    + constructor; [|exact H1]. cbn [ph_new]. apply be_dec_nonneg. now apply all_bytes_zslice.
    + pose proof (zlen_zdrop_le c11_ph_size l). lia.
Qed.
Lemma load_blobs_no_panic n : forall hs l p, hdrs_ok hs -> zlen l <= n -> load_blobs n hs l <> Panic p.
Proof.
  induction hs as [|h hs IH]; intros l p Hh Hl; cbn [load_blobs]; [discriminate|].
  inversion Hh as [|? ? H0 Hh']; subst. pose proof (zlen_nonneg l) as Hl0.
  unfold c11_load_blob_exceeds. destruct (ph_new h >? zlen l) eqn:E; [discriminate|].
  rewrite alloc_ok by (unfold alloc_limit; lia). cbn [bind].
  destruct (zlen l <? ph_new h); [discriminate|].
  specialize (IH (zdrop (ph_new h) l) p Hh'). pose proof (zlen_zdrop_le (ph_new h) l).
  destruct (load_blobs n hs (zdrop (ph_new h) l)); cbn [bind]; try discriminate. apply IH. lia.
Qed.
Theorem load_no_panic l p : all_bytes l = true -> load l <> Panic p.
Proof.
  intros Hb. unfold load. destruct (zlen l <? c11_psh_size) eqn:E0; [discriminate|].
  destruct (c11_load_version_bad _); [discriminate|].
  set (num := be_dec _). set (rest := zdrop c11_psh_size l).
  assert (Hn : 0 <= num) by (apply be_dec_nonneg; now apply all_bytes_zslice).
  unfold c11_load_count_exceeds. destruct (num * 16 >? zlen rest) eqn:E1; [discriminate|].
  pose proof (zlen_zdrop_le c11_psh_size l) as Hr. fold rest in Hr. pose proof (zlen_nonneg rest) as Hr0.
  change c11_ph_size with 16.
  rewrite alloc_ok by (unfold alloc_limit; lia). cbn [bind].
  rewrite alloc_ok by (unfold alloc_limit; lia). cbn [bind].
  destruct (load_headers (Z.to_nat num) rest) as [[hs rest']| |q] eqn:E2; cbn [bind fst snd]; try discriminate.
  - destruct (load_headers_inv _ _ _ _ (all_bytes_zdrop _ _ Hb) E2) as [H1 H2].
    fold rest in H2. assert (Hle : zlen rest' <= zlen l) by lia.
    pose proof (load_blobs_no_panic (zlen l) hs rest' p H1 Hle) as H3.
    destruct (load_blobs (zlen l) hs rest'); cbn [bind]; try discriminate. intros X. apply H3. inversion X. reflexivity.
  - exfalso. eapply load_headers_no_panic; exact E2.
Qed.

(* ================================================================== csblob.parseSuper *)
Lemma super_items_no_panic indexes blob data_off count : all_bytes indexes = true -> all_bytes blob = true ->
  zlen indexes = 8 * count ->
  forall n i p, 0 <= i -> i + Z.of_nat n = count -> super_items n i indexes blob data_off <> Panic p.
Proof.
  intros Hbi Hbb Hlen. induction n as [|n IH]; intros i p Hi Hc; cbn [super_items]; [discriminate|].
  rewrite cbe_ok by lia. cbn [bind]. rewrite cbe_ok by lia. cbn [bind].
  unfold c11_super_off_bad. set (offset := _ - data_off).
  destruct ((offset <? 0) || (offset >? zlen blob - 8)) eqn:E1; [discriminate|]. apply orb_false_iff in E1 as [E1a E1b].
  rewrite cbe_ok by lia. cbn [bind]. set (length := be_dec _).
  unfold c11_super_item_bad. destruct ((length <? 8) || (offset + length >? zlen blob)) eqn:E2; [discriminate|].
  apply orb_false_iff in E2 as [E2a E2b].
  rewrite cbe_ok by lia. cbn [bind]. rewrite cslice_ok by lia. cbn [bind].
  specialize (IH (i + 1) p ltac:(lia) ltac:(lia)).
  destruct (super_items n (i + 1) indexes blob data_off); cbn [bind]; try discriminate. exact IH.
Qed.
Theorem parse_super_no_panic blob p : all_bytes blob = true -> parse_super blob <> Panic p.
Proof.
  intros Hb. unfold parse_super, c11_super_short. destruct (zlen blob <? 12) eqn:E0; [discriminate|].
  rewrite !cbe_ok by lia. cbn [bind].
  destruct (c11_super_len_bad _ _); [discriminate|].
  rewrite cslice_ok by lia. cbn [bind].
  set (count := be_dec (zslice 8 (8 + 4) blob)). set (b1 := zslice 12 (zlen blob) blob).
  assert (Hc : 0 <= count) by (apply be_dec_nonneg; now apply all_bytes_zslice).
  unfold c11_super_index_short. destruct (zlen b1 <? 8 * count) eqn:E1; [discriminate|].
  rewrite cslice_ok by lia. cbn [bind]. rewrite cslice_ok by lia. cbn [bind].
  pose proof (super_items_no_panic (zslice 0 (8 * count) b1) (zslice (8 * count) (zlen b1) b1)
                (zlen blob - zlen (zslice (8 * count) (zlen b1) b1)) count) as H.
  assert (Hb1 : all_bytes b1 = true) by (now apply all_bytes_zslice).
  specialize (H (all_bytes_zslice _ _ _ Hb1) (all_bytes_zslice _ _ _ Hb1)).
  rewrite zlen_zslice in H by lia. specialize (H ltac:(lia) (Z.to_nat count) 0 p ltac:(lia) ltac:(lia)).
  destruct (super_items _ _ _ _ _); cbn [bind]; try discriminate. intros X. apply H. inversion X. reflexivity.
Qed.

(* ================================================================== signxap.removeSignature *)
Theorem xap_remove_no_panic cd p : all_bytes cd = true -> xap_remove cd <> Panic p.
Proof.
  intros Hb. unfold xap_remove, c11_xap_short. destruct (zlen cd <? 10) eqn:E0; [discriminate|].
  rewrite cslice_ok by lia. cbn [bind].
  set (tr := zslice (zlen cd - 10) (zlen cd) cd). set (magic := le_dec _). set (tsize := le_dec _).
  assert (Ht : 0 <= tsize) by (apply le_dec_nonneg; now apply all_bytes_zslice, all_bytes_zslice).
  unfold c11_xap_is_trailer. destruct ((magic =? c11_xap_trailer_magic) && (tsize + 10 <=? zlen cd)) eqn:E1; [|discriminate].
  apply andb_true_iff in E1 as [_ E1]. rewrite cslice_ok by lia. discriminate.
Qed.
(* and what is kept is a prefix of the input (never longer) *)
Theorem xap_remove_range cd n : all_bytes cd = true -> xap_remove cd = Ok n -> 0 <= n <= zlen cd.
Proof.
  intros Hb. unfold xap_remove, c11_xap_short. pose proof (zlen_nonneg cd). destruct (zlen cd <? 10) eqn:E0; [intros E; inversion E; lia|].
  rewrite cslice_ok by lia. cbn [bind].
  set (tr := zslice (zlen cd - 10) (zlen cd) cd). set (magic := le_dec _). set (tsize := le_dec _).
  assert (Ht : 0 <= tsize) by (apply le_dec_nonneg; now apply all_bytes_zslice, all_bytes_zslice).
  unfold c11_xap_is_trailer. destruct ((magic =? c11_xap_trailer_magic) && (tsize + 10 <=? zlen cd)) eqn:E1; [|intros E; inversion E; lia].
  apply andb_true_iff in E1 as [_ E1]. rewrite cslice_ok by lia. cbn [bind]. intros E; inversion E; lia.
Qed.

(* ================================================================== apk: length-prefixed structures *)
(* what a well-behaved activation guarantees: no panic; on success at least four bytes were consumed *)
Definition good (r : result (aval * bytes)) (blob : bytes) : Prop :=
  match r with
  | Panic _ => False
  | Ok (_, rest) => zlen rest + 4 <= zlen blob /\ all_bytes rest = true
  | Err _ => True
  end.
Lemma um_items_ok rec : (forall b, all_bytes b = true -> good (rec b) b) ->
  forall n b p, (length b < n)%nat -> all_bytes b = true -> um_items rec n b <> Panic p.
Proof.
  intros Hrec. induction n as [|n IH]; intros b p Hn Hb; [lia|]. cbn [um_items].
  destruct (c11_um_slice_more (zlen b)); [|discriminate].
  specialize (Hrec b Hb). destruct (rec b) as [[v rest]| |]; cbn [bind fst snd good] in *; try discriminate; [|contradiction].
  destruct Hrec as [Hl Hr]. specialize (IH rest p). unfold zlen in Hl.
  destruct (um_items rec n rest); cbn [bind]; try discriminate. apply IH; [lia|exact Hr].
Qed.
Lemma um_fields_ok (rec : schema -> bytes -> result (aval * bytes)) : forall fs,
  (forall f b, In f fs -> all_bytes b = true -> good (rec f b) b) ->
  forall b p, all_bytes b = true -> um_fields rec fs b <> Panic p.
Proof.
  induction fs as [|f fs IH]; intros Hrec b p Hb; cbn [um_fields].
  - destruct (c11_um_struct_trailing _); discriminate.
  - pose proof (Hrec f b (or_introl eq_refl) Hb) as H. destruct (rec f b) as [[v rest]| |]; cbn [bind fst snd good] in *; try discriminate; [|contradiction].
    destruct H as [_ Hr]. specialize (IH (fun f' b' Hin => Hrec f' b' (or_intror Hin)) rest p Hr).
    destruct (um_fields rec fs rest); cbn [bind]; try discriminate. exact IH.
Qed.
Lemma depth_in f fs : In f fs -> (depth f <= fold_right (fun f n => Nat.max (depth f) n) O fs)%nat.
Proof.
  induction fs as [|g fs IH]; intros H; [contradiction|]. cbn [fold_right]. destruct H as [->|H]; [lia|]. specialize (IH H). lia.
Qed.
Lemma rmap_panic {A B} (f : A -> B) r p : rmap f r = Panic p -> r = Panic p.
Proof. destruct r; cbn; intros H; inversion H; reflexivity. Qed.

Lemma um_good : forall fuel s blob, (depth s <= fuel)%nat -> all_bytes blob = true -> good (um fuel s blob) blob.
Proof.
  induction fuel as [|k IH]; intros s blob Hd Hb.
  - destruct s; cbn [depth] in Hd; lia.
  - pose proof (zlen_nonneg blob) as Hl0.
    destruct s as [| | |e|fs]; cbn [um].
    + (* uint32 *)
      unfold c11_um_scalar_short. destruct (zlen blob <? 4) eqn:E; [exact I|].
      rewrite cle_ok by lia. cbn [bind]. rewrite cslice_ok by lia. cbn [bind good].
      split; [rewrite zlen_zslice by lia; lia|now apply all_bytes_zslice].
    + (* []byte *)
      unfold c11_um_prefix_short. destruct (zlen blob <? 4) eqn:E; [exact I|].
      rewrite cle_ok by lia. cbn [bind]. set (size := le_dec _).
      assert (Hs : 0 <= size) by (apply le_dec_nonneg; now apply all_bytes_zslice).
      unfold c11_um_size_exceeds. destruct (size >? zlen blob - 4) eqn:E2; [exact I|].
      rewrite cslice_ok by lia. cbn [bind]. rewrite cslice_ok by lia. cbn [bind].
      rewrite cslice_ok by (rewrite zlen_zslice by lia; lia). cbn [bind good].
      split; [rewrite zlen_zslice by lia; lia|now apply all_bytes_zslice].
    + (* apkRaw *)
      unfold c11_um_prefix_short. destruct (zlen blob <? 4) eqn:E; [exact I|].
      rewrite cle_ok by lia. cbn [bind]. set (size := le_dec _).
      assert (Hs : 0 <= size) by (apply le_dec_nonneg; now apply all_bytes_zslice).
      unfold c11_um_size_exceeds. destruct (size >? zlen blob - 4) eqn:E2; [exact I|].
      rewrite cslice_ok by lia. cbn [bind]. rewrite cslice_ok by lia. cbn [bind].
      rewrite cslice_ok by (rewrite zlen_zslice by lia; lia). cbn [bind good].
      split; [rewrite zlen_zslice by lia; lia|now apply all_bytes_zslice].
    + (* slice *)
      unfold c11_um_prefix_short. destruct (zlen blob <? 4) eqn:E; [exact I|].
      rewrite cle_ok by lia. cbn [bind]. set (size := le_dec _).
      assert (Hs : 0 <= size) by (apply le_dec_nonneg; now apply all_bytes_zslice).
      unfold c11_um_size_exceeds. destruct (size >? zlen blob - 4) eqn:E2; [exact I|].
      rewrite cslice_ok by lia. cbn [bind]. rewrite cslice_ok by lia. cbn [bind].
      rewrite cslice_ok by (rewrite zlen_zslice by lia; lia). cbn [bind].
      set (inner := zslice 4 _ _).
      assert (Hi : all_bytes inner = true) by (now apply all_bytes_zslice, all_bytes_zslice).
      cbn [depth] in Hd.
      pose proof (um_items_ok (um k e) (fun b Hb' => IH e b ltac:(lia) Hb') (S (length inner)) inner) as Hit.
      destruct (um_items (um k e) (S (length inner)) inner) as [l| |q] eqn:Eit; cbn [rmap good]; [|exact I|].
      * split; [rewrite zlen_zslice by lia; lia|now apply all_bytes_zslice].
      * exact (Hit q ltac:(lia) Hi eq_refl).
    + (* struct *)
      unfold c11_um_prefix_short. destruct (zlen blob <? 4) eqn:E; [exact I|].
      rewrite cle_ok by lia. cbn [bind]. set (size := le_dec _).
      assert (Hs : 0 <= size) by (apply le_dec_nonneg; now apply all_bytes_zslice).
      unfold c11_um_size_exceeds. destruct (size >? zlen blob - 4) eqn:E2; [exact I|].
      rewrite cslice_ok by lia. cbn [bind]. rewrite cslice_ok by lia. cbn [bind].
      rewrite cslice_ok by (rewrite zlen_zslice by lia; lia). cbn [bind].
      set (inner := zslice 4 _ _).
      assert (Hi : all_bytes inner = true) by (now apply all_bytes_zslice, all_bytes_zslice).
      cbn [depth] in Hd.
      assert (Hf : forall f b, In f fs -> all_bytes b = true -> good (um k f b) b).
      { intros f b Hin Hb'. apply IH; [|exact Hb']. pose proof (depth_in f fs Hin). lia. }
      pose proof (um_fields_ok (um k) fs Hf inner) as Hfs.
      destruct (um_fields (um k) fs inner) as [l| |q] eqn:Efs; cbn [rmap good]; [|exact I|].
      * split; [rewrite zlen_zslice by lia; lia|now apply all_bytes_zslice].
      * exact (Hfs q Hi eq_refl).
Qed.
Theorem unmarshal_no_panic s blob p : all_bytes blob = true -> unmarshal s blob <> Panic p.
Proof.
  intros Hb. unfold unmarshal. pose proof (um_good (depth s) s blob (le_n _) Hb) as H.
  destruct (um (depth s) s blob) as [[v rest]| |]; cbn [bind good fst snd] in *; try discriminate; [|contradiction].
  destruct (negb _); discriminate.
Qed.

(* ================================================================== apk: signing block and the pair loop *)
Lemma pairs_no_panic vok : forall fuel block p, (length block < fuel)%nat -> all_bytes block = true -> pairs vok fuel block <> Panic p.
Proof.
  induction fuel as [|k IH]; intros block p Hf Hb; [lia|]. cbn [pairs].
  unfold c11_pair_more, c11_pair_short. destruct (zlen block >? 0); [|discriminate].
  destruct (zlen block <? 12) eqn:E; [discriminate|].
  rewrite cle_ok by lia. cbn [bind]. rewrite cslice_ok by lia. cbn [bind].
  set (part_size := le_dec _). set (b1 := zslice 8 (zlen block) block).
  assert (Hb1 : all_bytes b1 = true) by (now apply all_bytes_zslice).
  assert (Hl1 : zlen b1 = zlen block - 8) by (unfold b1; rewrite zlen_zslice by lia; lia).
  unfold c11_pair_size_bad. destruct ((part_size <? 4) || (part_size >? zlen b1)) eqn:E2; [discriminate|].
  apply orb_false_iff in E2 as [E2a E2b].
  rewrite cle_ok by lia. cbn [bind]. rewrite cslice_ok by lia. cbn [bind]. rewrite cslice_ok by lia. cbn [bind].
  set (b2 := zslice part_size (zlen b1) b1).
  assert (Hb2 : all_bytes b2 = true) by (now apply all_bytes_zslice).
  assert (Hl2 : (length b2 < k)%nat).
  { assert (zlen b2 = zlen b1 - part_size) by (unfold b2; rewrite zlen_zslice by lia; lia). unfold zlen in *. lia. }
  destruct (c11_pair_other _); [apply IH; assumption|].
  pose proof (unmarshal_no_panic s_signer_list (zslice 4 part_size b1) p (all_bytes_zslice _ _ _ Hb1)) as Hu.
  destruct (unmarshal s_signer_list (zslice 4 part_size b1)) as [sl| |q]; cbn [bind]; try discriminate.
  - specialize (IH b2 p Hl2 Hb2).
    destruct sl as [| | |[|x xs]|]; try discriminate; (destruct (vok _); [|discriminate]); (destruct (pairs vok k b2); cbn [bind]; try discriminate; exact IH).
  - intros X. apply Hu. inversion X. reflexivity.
Qed.
(* DirLoc lies inside the file (zipslicer.Read, relic commit 30c2462) and the gap is what ReadAt returned for [sigLoc, DirLoc) *)
Theorem apk_v2_parse_no_panic vok n sig_loc dir_loc gap p : all_bytes gap = true -> 0 <= n -> dir_loc <= n ->
  (0 <= sig_loc <= dir_loc -> zlen gap = dir_loc - sig_loc) -> apk_v2_parse vok n sig_loc dir_loc gap <> Panic p.
Proof.
  intros Hb Hn Hd Hg. unfold apk_v2_parse, sig_block.
  destruct (c11_sb_unsigned _ _); [discriminate|].
  unfold c11_sb_out_of_range. destruct ((sig_loc <? 0) || (sig_loc >? dir_loc)) eqn:E; [discriminate|].
  apply orb_false_iff in E as [Ea Eb]. specialize (Hg ltac:(lia)).
  rewrite alloc_ok by (unfold alloc_limit; lia). cbn [bind].
  destruct (negb _); [discriminate|].
  unfold c11_sb_too_short. change (zlen sig_magic) with 16. destruct (zlen gap <? 8 + 8 + 16) eqn:E2; [discriminate|].
  rewrite cle_ok by lia. cbn [bind]. rewrite cslice_ok by lia. cbn [bind].
  rewrite cle_ok by (rewrite ?zlen_zslice; lia). cbn [bind].
  destruct (c11_sb_size_bad _ _ _); [discriminate|].
  rewrite cslice_ok by lia. cbn [bind].
  apply pairs_no_panic; [lia|now apply all_bytes_zslice].
Qed.

(* ================================================================== zipslicer.ReadWithDirectory (the model of C17) *)
From Relic Require C17.Model Generated.C17_gen.
Lemma zip_entries_no_panic : forall fuel cd p, C17.Model.read_entries fuel cd <> Panic p.
Proof.
  induction fuel as [|k IH]; intros cd p; cbn [C17.Model.read_entries]; [discriminate|].
  destruct (C17_gen.rwd_cd_short _); [discriminate|].
  destruct (C17_gen.rwd_not_cd_sig _); [discriminate|].
  destruct (C17_gen.rwd_hdr_short _); [discriminate|].
  destruct (C17_gen.rwd_ent_short _ _ _ _); [discriminate|].
  destruct (C17_gen.rwd_missing_z64 _ _); [discriminate|].
  match goal with |- context [C17.Model.read_entries k ?x] => specialize (IH x p); destruct (C17.Model.read_entries k x) end;
    cbn [bind]; try discriminate. exact IH.
Qed.
Theorem zip_directory_no_panic size cd p : C17.Model.read_with_directory size cd <> Panic p.
Proof.
  unfold C17.Model.read_with_directory.
  pose proof (zip_entries_no_panic (S (length cd)) cd p) as H.
  destruct (C17.Model.read_entries (S (length cd)) cd); cbn [bind]; try discriminate.
  - destruct (_ =? _); [discriminate|]. destruct (_ =? _); discriminate.
  - intros X. apply H. inversion X. reflexivity.
Qed.
(* ... nor can its loop run out of fuel ("hang"): every directory entry consumes at least 46 bytes *)
Lemma zip_entries_fuel : forall fuel cd, (length cd < fuel)%nat -> C17.Model.read_entries fuel cd <> Err C17.Model.E_FUEL.
Proof.
  induction fuel as [|k IH]; intros cd Hf; [lia|]. cbn [C17.Model.read_entries].
  destruct (C17_gen.rwd_cd_short _); [discriminate|].
  destruct (C17_gen.rwd_not_cd_sig _); [discriminate|].
  unfold C17_gen.rwd_hdr_short. destruct (zlen cd <? 46) eqn:E; [discriminate|].
  destruct (C17_gen.rwd_ent_short _ _ _ _); [discriminate|].
  destruct (C17_gen.rwd_missing_z64 _ _); [discriminate|].
  match goal with |- context [C17.Model.read_entries k ?x] => specialize (IH x); destruct (C17.Model.read_entries k x) eqn:Ex end;
    cbn [bind]; try discriminate.
  intros X. inversion X; subst. apply IH; [|reflexivity].
  change C17_gen.directoryHeaderLen with 46.
  pose proof (zlen_zdrop 46 cd ltac:(pose proof (zlen_nonneg cd); lia)) as H0.
  match goal with |- (length (zdrop ?c (zdrop ?e (zdrop ?n ?r))) < k)%nat =>
    pose proof (zlen_zdrop_le c (zdrop e (zdrop n r))); pose proof (zlen_zdrop_le e (zdrop n r)); pose proof (zlen_zdrop_le n r) end.
  unfold zlen in *. lia.
Qed.

(* ================================================================== apk: the digest comparison loop of apkSigner.Verify *)
Lemma digest_loop_ok n : forall ds i, 0 <= i -> i + zlen ds <= n -> digest_loop n i ds = Ok tt.
Proof.
  induction ds as [|d ds IH]; intros i Hi Hn; [reflexivity|]. cbn [digest_loop]. rewrite zlen_cons in Hn. pose proof (zlen_nonneg ds).
  replace ((i <? 0) || (n <=? i)) with false by lia. apply IH; lia.
Qed.
Theorem verify_digests_no_panic hashes p : verify_digests hashes <> Panic p.
Proof. unfold verify_digests, merkle_out_len. rewrite digest_loop_ok by lia. discriminate. Qed.
