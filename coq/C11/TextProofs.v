(* C11/TextProofs.v — the text / line parser models of C11/Text.v cannot return Panic (no index or slice out of range, no
   loop out of fuel) for ANY byte string, except where the Go code itself can: those are stated as `_refuted` witnesses
   together with the exact region in which the statement holds. *)
From Coq Require Import String.
From Relic Require Import Base.Prelude Generated.C11_gen C11.Model C11.Proofs C11.Text.

(* ------------------------------------------------------------------ strings.Index & co *)
Lemma has_prefix_len : forall p l, has_prefix l p = true -> zlen p <= zlen l.
Proof.
  induction p as [|x p IH]; intros l H; [rewrite zlen_nil; apply zlen_nonneg|].
  destruct l as [|y l]; cbn [has_prefix] in H; [discriminate|].
  apply andb_true_iff in H as [_ H]. specialize (IH l H). rewrite !zlen_cons. lia.
Qed.
Lemma index_from_range : forall l sep k,
  index_from k l sep = -1 \/ (k <= index_from k l sep /\ index_from k l sep - k + zlen sep <= zlen l).
Proof.
  induction l as [|a l IH]; intros sep k.
  - cbn [index_from]. destruct (has_prefix [] sep) eqn:E; [|left; reflexivity].
    right. apply has_prefix_len in E. lia.
  - cbn [index_from]. destruct (has_prefix (a :: l) sep) eqn:E.
    + right. apply has_prefix_len in E. lia.
    + destruct (IH sep (k + 1)) as [H|H]; [left; exact H|right]. rewrite zlen_cons. lia.
Qed.
Lemma index_sub_range l sep : index_sub l sep = -1 \/ (0 <= index_sub l sep /\ index_sub l sep + zlen sep <= zlen l).
Proof. unfold index_sub. destruct (index_from_range l sep 0) as [H|H]; [left; exact H|right; lia]. Qed.

(* ------------------------------------------------------------------ the scanner loop *)
Lemma scan_fold_no_panic {S} (step : S -> bytes -> result S) :
  (forall st l p, step st l <> Panic p) -> forall ls st p, scan_fold step st ls <> Panic p.
Proof.
  intros Hs. induction ls as [|l r IH]; intros st p; cbn [scan_fold]; [discriminate|].
  destruct (max_token <=? zlen l); [discriminate|].
  specialize (Hs st (drop_cr l) p). destruct (step st (drop_cr l)); cbn [bind]; [apply IH|discriminate|exact Hs].
Qed.

(* ================================================================== lib/signdeb parseControl *)
Lemma pc_step_no_panic st line p : pc_step st line <> Panic p.
Proof.
  unfold pc_step. set (i := index_any line c11_pc_ws). set (j := index_sub line c11_pc_colon).
  destruct (c11_pc_skip i j) eqn:E; [discriminate|]. unfold c11_pc_skip in E.
  destruct (index_sub_range line c11_pc_colon) as [H|[_ H]]; fold j in H; [lia|].
  change (zlen c11_pc_colon) with 1 in H. pose proof (zlen_nonneg line).
  unfold c11_pc_key_bounds, c11_pc_value_bounds. cbn [fst snd].
  rewrite cslice_ok by lia. cbn [bind]. rewrite cslice_ok by lia. discriminate.
Qed.
Theorem parse_control_no_panic text p : parse_control text <> Panic p.
Proof.
  unfold parse_control.
  pose proof (scan_fold_no_panic pc_step pc_step_no_panic (raw_lines text) (mkInfo [] [] []) p) as H.
  destruct (scan_fold pc_step _ _); cbn [bind]; [|discriminate|exact H].
  destruct (c11_pc_missing _ _); discriminate.
Qed.
(* a successful parse has a package name and a version (what signers/deb writes into the audit record) *)
Theorem parse_control_ok_fields text i : parse_control text = Ok i -> pi_pkg i <> [] /\ pi_ver i <> [].
Proof.
  unfold parse_control. destruct (scan_fold pc_step _ _) as [st| |]; cbn [bind]; try discriminate.
  unfold c11_pc_missing. destruct (bytes_eqb (pi_pkg st) []) eqn:E1; [discriminate|].
  destruct (bytes_eqb (pi_ver st) []) eqn:E2; [discriminate|]. cbn [orb]. intros H; inversion H; subst.
  split; intros X; rewrite X in *; discriminate.
Qed.

(* ================================================================== lib/signdeb checkSig *)
Lemma count_z_nonneg c l : 0 <= count_z c l.
Proof. induction l as [|x l IH]; cbn [count_z]; [lia|]. destruct (x =? c); lia. Qed.
Lemma split_n_byte_length c : forall s n cur, zlen (split_n_byte c n cur s) = Z.min (Z.of_nat n) (count_z c s) + 1.
Proof.
  induction s as [|x r IH]; intros n cur; cbn [split_n_byte count_z].
  - rewrite zlen_cons, zlen_nil. lia.
  - pose proof (count_z_nonneg c r). destruct n as [|n'].
    + rewrite zlen_cons, zlen_nil. destruct (x =? c); lia.
    + destruct (x =? c); [rewrite zlen_cons, IH|rewrite IH]; lia.
Qed.
Lemma cnth_ok {A} i (l : list A) : 0 <= i < zlen l -> exists a, cnth i l = Ok a.
Proof.
  intros H. unfold cnth. replace (i <? 0) with false by lia.
  destruct (nth_error l (Z.to_nat i)) eqn:E; [eexists; reflexivity|].
  apply nth_error_None in E. unfold zlen in H. lia.
Qed.
Lemma zslice_tail (c : Z) r : zslice 1 (zlen (c :: r)) (c :: r) = r.
Proof.
  unfold zslice, zdrop. change (Z.to_nat 1) with 1%nat. cbn [skipn]. apply ztake_all. rewrite zlen_cons. lia.
Qed.
Lemma cs_digests_no_panic digs : forall ls checked p, cs_digests digs checked ls <> Panic p.
Proof.
  induction ls as [|line r IH]; intros checked p; cbn [cs_digests]; [discriminate|].
  destruct (c11_cs_is_end line) eqn:Eend; [discriminate|].
  destruct line as [|c0 rest]; [discriminate|].
  unfold cindex. rewrite zlen_cons. pose proof (zlen_nonneg rest).
  assert (X : ((0 <? 0) || (1 + zlen rest <=? 0)) = false) by lia. rewrite X. clear X. cbn [bind nth Z.to_nat].
  destruct (c11_cs_malformed c0 (1 + zlen rest)); [discriminate|].
  unfold c11_cs_rest_bounds. cbn [fst snd].
  rewrite cslice_ok by (rewrite ?zlen_cons; lia). cbn [bind].
  rewrite <- zlen_cons with (x := c0). rewrite zslice_tail.
  set (parts := split_n_byte cs_sep_byte _ [] rest).
  destruct (c11_cs_parts_bad (zlen parts)) eqn:Ep; [discriminate|]. unfold c11_cs_parts_bad in Ep.
  assert (Hp : zlen parts = 4) by lia. clear Ep.
  change (nth 0 c11_cs_part_indexes 0) with 0. change (nth 1 c11_cs_part_indexes 0) with 1. change (nth 2 c11_cs_part_indexes 0) with 3.
  destruct (cnth_ok 0 parts ltac:(lia)) as [p0 ->]. destruct (cnth_ok 1 parts ltac:(lia)) as [p1 ->].
  destruct (cnth_ok 3 parts ltac:(lia)) as [nm ->]. cbn [bind].
  destruct (bytes_eqb _ []); [discriminate|]. destruct (negb _); [discriminate|]. apply IH.
Qed.
(* checkSig returns for EVERY body and digest table (the field count is checked before parts[1] / parts[3]: relic d376f3c) *)
Theorem check_sig_no_panic digs body p : check_sig digs body <> Panic p.
Proof.
  unfold check_sig. destruct (cs_skip_header _) as [r|]; [|discriminate].
  pose proof (cs_digests_no_panic digs r [] p) as H.
  destruct (cs_digests digs [] r); cbn [bind]; [|discriminate|intros X; apply H; inversion X; reflexivity].
  destruct (forallb _ _); discriminate.
Qed.
(* the former crasher ("Files:", then a tab and 75 letters: SplitN gives one field) is now a malformed signature *)
Definition cs_witness : bytes := [70; 105; 108; 101; 115; 58; 10; 9] ++ repeat 97 75 ++ [10].
Lemma cs_witness_is_error : check_sig [] cs_witness = Err E_MALFORMED.
Proof. vm_compute. reflexivity. Qed.
(* split count = blanks + 1 up to the limit: exactly the lines with at least three blanks pass the field-count check *)
Lemma cs_parts_count rest : zlen (split_n_byte cs_sep_byte (Z.to_nat (c11_cs_nparts - 1)) [] rest) = Z.min 3 (count_z cs_sep_byte rest) + 1.
Proof. rewrite split_n_byte_length. reflexivity. Qed.

(* ================================================================== lib/signjar *)
(* the cut position chosen by one iteration of splitManifest lies inside the (non-empty) manifest and is not 0 *)
Lemma sm_idx_range m : zlen m <> 0 ->
  let i1 := index_sub m c11_sm_sep_crlf in
  let i2 := index_sub m c11_sm_sep_lf in
  let idx := if c11_sm_case_crlf i1 i2 then c11_sm_idx_crlf i1 else if c11_sm_case_lf i1 i2 then c11_sm_idx_lf i2 else c11_sm_idx_rest (zlen m) in
  1 <= idx <= zlen m.
Proof.
  intros Hm i1 i2. pose proof (zlen_nonneg m).
  unfold c11_sm_idx_crlf, c11_sm_idx_lf, c11_sm_idx_rest.
  destruct (index_sub_range m c11_sm_sep_crlf) as [H1|[H1a H1b]]; fold i1 in H1 || (fold i1 in H1a, H1b);
  destruct (index_sub_range m c11_sm_sep_lf) as [H2|[H2a H2b]]; fold i2 in H2 || (fold i2 in H2a, H2b);
  change (zlen c11_sm_sep_crlf) with 4 in *; change (zlen c11_sm_sep_lf) with 2 in *;
  fold (c11_sm_case_crlf i1 i2); fold (c11_sm_case_lf i1 i2);
  destruct (c11_sm_case_crlf i1 i2) eqn:E1; destruct (c11_sm_case_lf i1 i2) eqn:E2; unfold c11_sm_case_crlf, c11_sm_case_lf in E1, E2; cbv zeta; lia.
Qed.
Lemma sm_loop_no_panic : forall fuel m acc mal p, (length m < fuel)%nat -> sm_loop fuel m acc mal <> Panic p.
Proof.
  induction fuel as [|k IH]; intros m acc mal p Hf; [lia|]. cbn [sm_loop].
  destruct (c11_sm_more (zlen m)) eqn:Em; [|discriminate]. unfold c11_sm_more in Em.
  assert (Hm : zlen m <> 0) by lia. pose proof (sm_idx_range m Hm) as Hi. cbv zeta in Hi.
  set (idx := if c11_sm_case_crlf _ _ then _ else _) in *.
  unfold c11_sm_section_bounds, c11_sm_rest_bounds. cbn [fst snd].
  rewrite cslice_ok by lia. cbn [bind]. rewrite cslice_ok by lia. cbn [bind].
  assert (Hr : (length (zslice idx (zlen m) m) < k)%nat).
  { pose proof (zlen_zslice idx (zlen m) m ltac:(lia) ltac:(lia)) as Hz. unfold zlen in *. lia. }
  destruct (c11_sm_empty_section _); apply IH; exact Hr.
Qed.
Theorem split_manifest_no_panic m p : split_manifest m <> Panic p.
Proof. unfold split_manifest. apply sm_loop_no_panic. lia. Qed.

Lemma ps_lines_no_panic : forall ls h p, ps_lines ls h <> Panic p.
Proof.
  induction ls as [|line r IH]; intros h p; cbn [ps_lines]; [discriminate|].
  destruct (c11_ps_skip_line _); [apply IH|].
  set (idx := index_sub line c11_ps_colon). destruct (c11_ps_no_colon idx) eqn:E; [discriminate|]. unfold c11_ps_no_colon in E.
  destruct (index_sub_range line c11_ps_colon) as [H|[_ H]]; fold idx in H; [lia|].
  change (zlen c11_ps_colon) with 1 in H. pose proof (zlen_nonneg line).
  unfold c11_ps_key_bounds, c11_ps_value_bounds. cbn [fst snd].
  rewrite cslice_ok by lia. cbn [bind]. rewrite cslice_ok by lia. cbn [bind]. apply IH.
Qed.
Theorem parse_section_no_panic s p : parse_section s <> Panic p.
Proof. unfold parse_section. apply ps_lines_no_panic. Qed.
Lemma pm_sections_no_panic : forall secs i n p, pm_sections i secs n <> Panic p.
Proof.
  induction secs as [|s r IH]; intros i n p; cbn [pm_sections]; [discriminate|].
  destruct (c11_pm_skip_section _ _); [apply IH|].
  pose proof (parse_section_no_panic s p) as H. destruct (parse_section s); cbn [bind]; [|discriminate|intros X; apply H; inversion X; reflexivity].
  destruct (i =? 0); [apply IH|]. destruct (c11_pm_no_name _); [discriminate|apply IH].
Qed.
Theorem parse_manifest_no_panic m p : parse_manifest m <> Panic p.
Proof.
  unfold parse_manifest. pose proof (split_manifest_no_panic m p) as H.
  destruct (split_manifest m) as [sm| |]; cbn [bind]; [|discriminate|intros X; apply H; inversion X; reflexivity].
  destruct (c11_pm_no_sections _); [discriminate|].
  pose proof (pm_sections_no_panic (fst sm) 0 0 p) as H2.
  destruct (pm_sections 0 (fst sm) 0); cbn [bind]; [discriminate|discriminate|intros X; apply H2; inversion X; reflexivity].
Qed.

(* DigestManifest: sections[0] *)
Lemma dm_sections_no_panic : forall secs n p, dm_sections secs n <> Panic p.
Proof.
  induction secs as [|s r IH]; intros n p; cbn [dm_sections]; [discriminate|].
  pose proof (parse_section_no_panic s p) as H. destruct (parse_section s); cbn [bind]; [|discriminate|intros X; apply H; inversion X; reflexivity].
  destruct (c11_pm_no_name _); [discriminate|apply IH].
Qed.
Lemma digest_tail_no_panic (secs : list bytes) p : secs <> [] ->
  (_ <- cnth 0 secs ;; rest <- cslice_l 1 (zlen secs) secs ;; dm_sections rest 0) <> Panic p.
Proof.
  intros Hs. destruct secs as [|s0 r]; [contradiction|]. cbn [cnth Z.ltb Z.to_nat nth_error bind Z.compare].
  unfold cslice_l. rewrite zlen_cons. pose proof (zlen_nonneg r).
  assert (X : ((1 <? 0) || (1 + zlen r <? 1) || (1 + zlen r <? 1 + zlen r)) = false) by lia. rewrite X. cbn [bind].
  apply dm_sections_no_panic.
Qed.
(* once the manifest was found malformed it stays so *)
Lemma sm_loop_sticky : forall fuel m acc s b, sm_loop fuel m acc true = Ok (s, b) -> b = true.
Proof.
  induction fuel as [|k IH]; intros m acc s b H; [discriminate|]. cbn [sm_loop] in H.
  destruct (c11_sm_more _); [|inversion H; reflexivity].
  destruct (cslice _ _ m) as [sec| |]; cbn [bind] in H; try discriminate.
  destruct (cslice _ _ m) as [rest| |]; cbn [bind] in H; try discriminate.
  destruct (c11_sm_empty_section _); [eapply IH; exact H|].
  destruct (c11_sm_case_crlf _ _); [eapply IH; exact H|]. destruct (c11_sm_case_lf _ _); eapply IH; exact H.
Qed.
Lemma sm_loop_nonempty : forall fuel m acc mal s, sm_loop fuel m acc mal = Ok (s, false) -> (m <> [] \/ acc <> []) -> s <> [].
Proof.
  induction fuel as [|k IH]; intros m acc mal s H Hne; [discriminate|]. cbn [sm_loop] in H.
  unfold c11_sm_more in H. destruct (negb (zlen m =? 0)) eqn:Em.
  - destruct (cslice _ _ m) as [sec| |]; cbn [bind] in H; try discriminate.
    destruct (cslice _ _ m) as [rest| |]; cbn [bind] in H; try discriminate.
    destruct (c11_sm_empty_section _).
    + apply sm_loop_sticky in H. discriminate.
    + eapply IH; [exact H|]. right. discriminate.
  - inversion H; subst. destruct Hne as [Hm|Ha].
    + destruct m; [contradiction|]. rewrite zlen_cons in Em. pose proof (zlen_nonneg m). lia.
    + intros X. apply (f_equal (@rev bytes)) in X. rewrite rev_involutive in X. cbn in X. contradiction.
Qed.
(* DigestManifest: sections[0] / sections[1:] behind the emptiness check (relic 37fd88a): no panic for any manifest *)
Theorem digest_manifest_no_panic m p : digest_manifest m <> Panic p.
Proof.
  unfold digest_manifest. pose proof (split_manifest_no_panic m p) as H.
  destruct (split_manifest m) as [[secs mal]| |] eqn:E; cbn [bind fst snd]; [|discriminate|intros X; apply H; inversion X; reflexivity].
  destruct mal; [discriminate|]. unfold c11_dm_empty. destruct (zlen secs =? 0) eqn:E0; [discriminate|].
  apply digest_tail_no_panic. intros ->. discriminate.
Qed.
(* every caller has parsed the same bytes first (updateManifest -> parseManifest, verifySigFile -> ParseManifest): that
   alone already excludes the empty section list *)
Theorem parse_manifest_guards_digest m r p : parse_manifest m = Ok r -> digest_manifest m <> Panic p.
Proof. intros _. apply digest_manifest_no_panic. Qed.
(* the empty manifest is the only input on which splitManifest reports no sections and no malformation *)
Theorem split_manifest_empty_iff m secs : split_manifest m = Ok (secs, false) -> (secs = [] <-> m = []).
Proof.
  intros E. split.
  - intros ->. destruct m as [|c r]; [reflexivity|]. exfalso.
    unfold split_manifest in E. eapply sm_loop_nonempty; [exact E|left; discriminate|reflexivity].
  - intros ->. vm_compute in E. inversion E. reflexivity.
Qed.

(* ================================================================== lib/pgptools: line scanners behind an io.Pipe *)
Theorem tail_clear_sign_no_panic s p : tail_clear_sign s <> Panic p.
Proof. unfold tail_clear_sign. destruct (scan_too_long _); discriminate. Qed.
Theorem head_clear_sign_no_panic s p : head_clear_sign s <> Panic p.
Proof. unfold head_clear_sign. destruct (head_lines _); [discriminate|]. destruct (scan_too_long _); discriminate. Qed.
(* a consumer that is drained (signdeb.Sign: io.Copy(ioutil.Discard, r) after parseControl) never blocks its producer *)
Theorem drained_pipe_never_hangs {A} stream (consume : bytes -> result A) : pipe_run true stream consume = consume stream.
Proof. unfold pipe_run. rewrite andb_false_r. reflexivity. Qed.
Lemma sign_goroutine_drains :
  In ("lib/signdeb:Sign"%string, ["parseControl"%string], false, true) c11_goroutines.
Proof. vm_compute. tauto. Qed.
Theorem sign_control_pipe_no_panic stream p : pipe_run c11_goroutines_releases_parseControl stream parse_control <> Panic p.
Proof. change c11_goroutines_releases_parseControl with true. rewrite drained_pipe_never_hangs. apply parse_control_no_panic. Qed.
(* DetachClearSign / MergeClearSign close the read side before reporting (relic 311c650): for EVERY message the call
   returns — with ErrTooLong when a line of the clearsigned text reaches the scanner limit *)
Theorem detach_clear_sign_no_hang msg p : detach_clear_sign msg <> Panic p.
Proof.
  unfold detach_clear_sign. change cl_releases with true. rewrite andb_false_r.
  destruct (existsb _ _); discriminate.
Qed.
Theorem released_pipe_scanners_no_panic stream p :
  pipe_run cl_releases stream tail_clear_sign <> Panic p /\ pipe_run cl_releases stream head_clear_sign <> Panic p.
Proof.
  change cl_releases with true. rewrite !drained_pipe_never_hangs.
  split; [apply tail_clear_sign_no_panic|apply head_clear_sign_no_panic].
Qed.
(* the guard matters: the same pipe without the release blocks on one line of 65536 bytes (relic before 311c650) *)
Theorem unreleased_pipe_hangs : exists stream, pipe_run false stream tail_clear_sign = Panic P_HANG.
Proof. exists (repeat 65 (Z.to_nat 65536)). vm_compute. reflexivity. Qed.
Lemma dash_escape_len l : zlen (dash_escape l) <= zlen l + 2.
Proof. unfold dash_escape. destruct l as [|c r]; [lia|]. destruct c as [|c|c]; try lia.
  do 6 (destruct c as [c|c|]; try lia). rewrite !zlen_cons. lia. Qed.
Theorem detach_clear_sign_ok_when msg :
  Forall (fun l => zlen l < max_token - 2) (raw_lines msg) -> detach_clear_sign msg = Ok tt.
Proof.
  intros HF. unfold detach_clear_sign, clearsigned_lines.
  assert (E : existsb (fun l => max_token <=? zlen l) (map dash_escape (raw_lines msg)) = false).
  { induction HF as [|l r Hl _ IH]; [reflexivity|]. cbn [map existsb]. rewrite IH.
    pose proof (dash_escape_len l). replace (max_token <=? zlen (dash_escape l)) with false by lia. reflexivity. }
  rewrite E. reflexivity.
Qed.

(* ================================================================== what srcgen finds in the source today = what was reviewed *)
Lemma pc_sites_reviewed : c11_pc_sites = reviewed_pc_sites. Proof. reflexivity. Qed.
Lemma cs_sites_reviewed : c11_cs_sites = reviewed_cs_sites. Proof. reflexivity. Qed.
Lemma sign_sites_reviewed : c11_sign_sites = reviewed_sign_sites. Proof. reflexivity. Qed.
Lemma sm_sites_reviewed : c11_sm_sites = reviewed_sm_sites. Proof. reflexivity. Qed.
Lemma ps_sites_reviewed : c11_ps_sites = reviewed_ps_sites. Proof. reflexivity. Qed.
Lemma pm_sites_reviewed : c11_pm_sites = reviewed_pm_sites. Proof. reflexivity. Qed.
Lemma dm_sites_reviewed : c11_dm_sites = reviewed_dm_sites. Proof. reflexivity. Qed.
Lemma pc_fields_reviewed : c11_pc_fields = reviewed_pc_fields. Proof. reflexivity. Qed.
Lemma goroutines_reviewed : c11_goroutines = reviewed_goroutines. Proof. reflexivity. Qed.
(* shape assumptions of the models about generated values *)
Lemma scanners_use_default_buffer : c11_pc_scanner_tuning = [] /\ c11_cl_tail_scanner_tuning = [] /\ c11_cl_head_scanner_tuning = [].
Proof. repeat split. Qed.
Lemma single_byte_separators : zlen c11_cs_sep = 1 /\ zlen c11_ps_line_sep = 1 /\ zlen c11_ps_colon = 1 /\ zlen c11_pc_colon = 1.
Proof. repeat split. Qed.
Lemma control_ext_slice_guarded : zlen c11_sign_control_prefix = 11.     (* name[11:] after HasPrefix(name, "control.tar") *)
Proof. reflexivity. Qed.
Lemma sign_channels_buffered : c11_sign_errch_cap = 1 /\ c11_sign_infoch_cap = 1.
Proof. split; reflexivity. Qed.
Lemma digest_manifest_call_order : c11_dm_order = [0; 1; 1; 2; 1].
Proof. reflexivity. Qed.
