(* C11/Run.v — evaluation of the parser models on harness inputs. input: [parser bytes args]; output: [class vals spec errclass]
   class: 0 ok, 1 error, 2 panic.  parsers: 0 binpatch_load 1 zip_cd 2 apk_signers 3 apk_signed_data 4 apk_v2 5 xap_trailer 6 csblob_super 7 apk_digest_loop *)
From Relic Require Import Base.Prelude Base.Enc Base.Val Generated.C11_gen C11.Model.
From Relic Require C17.Model C12.Model.
From Relic Require Import C11.Text.
(* text parsers: 8 deb_control 9 deb_checksig 10 jar_manifest 11 jar_digest 12 pgp_tail 13 pgp_head 14 pgp_detach 15 jar_split *)
Definition lp (b : bytes) : list Z := zlen b :: b.
Definition info_vals (i : pinfo) : list Z := lp (pi_pkg i) ++ lp (pi_ver i) ++ lp (pi_arch i).
(* the digest table the harness hands to checkSig *)
Definition run_digs : list (bytes * bytes) :=
  [([97], repeat 48 32 ++ [32] ++ repeat 49 40); ([98; 98], repeat 50 32 ++ [32] ++ repeat 51 40)].

Definition out {A} (r : result A) (f : A -> list Z) (spec : Z) : val :=
  match r with
  | Ok a => VL [VZ 0; VZs (f a); VZ spec; VZ 0]
  | Err e => VL [VZ 1; VZs []; VZ spec; VZ e]
  | Panic p => VL [VZ 2; VZs []; VZ spec; VZ p]
  end.
Definition spec_of {A} (r : result A) : Z := match r with Ok _ => 0 | _ => 1 end.
Fixpoint sum (l : list Z) : Z := match l with [] => 0 | x :: r => x + sum r end.
Definition signer_lens (v : aval) : list Z :=
  match v with
  | ASlice l => zlen l :: flat_map (fun s => match s with
                             | AStruct [ARaw sd; ASlice sigs; ABytes pk] => [zlen sd; zlen sigs; zlen pk]
                             | _ => [-1] end) l
  | _ => [-1]
  end.
Definition signed_data_lens (v : aval) : list Z :=
  match v with
  | AStruct [ASlice d; ASlice c; ASlice a] => [zlen d; zlen c; zlen a]
  | _ => [-1]
  end.
Definition run (v : val) : val :=
  let p := vz (vnth 0 v) in
  let b := vb (vnth 1 v) in
  let args := vl (vnth 2 v) in
  let arg (i : nat) := vz (nth i args (VZ 0)) in
  if p =? 0 then
    (* independent spec: the reader of C12's model (written from the format description, no allocation discipline) *)
    out (load b) (fun r => zlen (fst r) :: sum (map (fun x => zlen x) (snd r)) :: flat_map (fun h => [(if ph_off h <? 9223372036854775808 then ph_off h else ph_off h - 18446744073709551616); ph_old h; ph_new h]) (fst r))
        (if zlen b <? be_dec (zslice 4 8 b) then 1 else spec_of (C12.Model.load b))   (* the spec reader recurses on the count: keep it small *)
  else if p =? 1 then
    out (C17.Model.read_with_directory (arg 0%nat) b) (fun d => [zlen (C17.Model.d_files d); C17.Model.d_dirloc d]) 1
  else if p =? 2 then out (unmarshal s_signer_list b) signer_lens 1
  else if p =? 3 then out (unmarshal s_signed_data b) signed_data_lens 1
  else if p =? 4 then out (apk_v2_parse (fun _ => false) (arg 0%nat) (arg 1%nat) (arg 2%nat) b) (fun l => zlen l :: flat_map signer_lens l) 1
  else if p =? 5 then out (xap_remove b) (fun n => [n]) 1
  else if p =? 6 then out (parse_super b) (fun r => fst r :: zlen (snd r) :: flat_map (fun i => [it_type i; it_magic i; it_len i]) (snd r)) 1
  else if p =? 7 then out (verify_digests (map vz args)) (fun n => [n]) 1
  else if p =? 8 then
    (* spec: a policy-conformant simple control file with Package and Version must be accepted with exactly these values *)
    let sp := if spec_simple b then spec_control b else None in
    match out (parse_control b) info_vals (match sp with Some _ => 0 | None => 1 end) with
    | VL l => VL (l ++ [VZs (match sp with Some i => info_vals i | None => [] end)])
    | v => v
    end
  else if p =? 9 then out (check_sig run_digs b) (fun _ => []) 1
  else if p =? 10 then out (parse_manifest b) (fun r => [fst r; if snd r then 1 else 0]) 1
  else if p =? 11 then out (digest_manifest b) (fun n => [n]) 1
  else if p =? 12 then out (tail_clear_sign b) (fun o => o) 1
  else if p =? 13 then out (head_clear_sign b) (fun o => o) 1
  else if p =? 14 then out (detach_clear_sign b) (fun _ => []) 1
  else if p =? 15 then out (split_manifest b) (fun r => zlen (fst r) :: (if snd r then 1 else 0) :: map (fun x => zlen x) (fst r)) 1
  else VL [VZ 9; VZs []; VZ 1; VZ 0].
