(* FmtPE/Run.v — evaluation of the model and of the specification side on harness cases. *)
From Relic Require Import Base.Prelude Base.Enc Base.Val Generated.FmtPE_gen C12.Model FmtPE.Model.

Definition st_of {A} (r : result A) : Z := match r with Ok _ => 0 | Err e => e | Panic _ => 99 end.

(* op 0: a file.
   in : [0 file]
   out: [ dstatus orig certstart posdd oldsize preimage
          fstatus signed certstart certsize
          wstatus [entries]
          xstatus present blob
          spec_wf spec_contig spec_hashin payload_end protected spec_checksum ] *)
Definition run_file (f : bytes) : val :=
  let d := digest_pe f in
  let dv := match d with
            | Ok x => [VZ 0; VZ (dg_orig x); VZ (dg_certstart x); VZ (dg_posdd x); VZ (dg_oldsize x); VB (dg_pre x)]
            | _ => [VZ (st_of d); VZ 0; VZ 0; VZ 0; VZ 0; VB []]
            end in
  let hv := read_nt f in
  let fv := match hv with
            | Ok h => [VZ 0; of_bool (negb (pe_vf_not_signed (hv_certsize h))); VZ (hv_certstart h); VZ (hv_certsize h)]
            | _ => [VZ (st_of hv); VZ 0; VZ 0; VZ 0]
            end in
  let t := find_table f in
  let wv := match t with
            | Ok (Some blob) => let w := walk_table (S (length blob)) blob in [VZ (snd w); VL (map VB (fst w))]
            | Ok None => [VZ (-1); VL []]
            | _ => [VZ (st_of t); VL []]
            end in
  let x := extract f in
  let xv := match x with
            | Ok (Some b) => [VZ 0; VZ 1; VB b]
            | Ok None => [VZ 0; VZ 0; VB []]
            | _ => [VZ (st_of x); VZ 0; VB []]
            end in
  let sv := if spec_wf f
            then [VZ 1; of_bool (spec_contig f); VB (spec_hashin f); VZ (sp_payload_end f); VB (protected f); VZ (spec_checksum f)]
            else [VZ 0; VZ 0; VB []; VZ 0; VB []; VZ 0] in
  VL (dv ++ fv ++ wv ++ xv ++ sv).

(* op 1: an embedding.  in: [1 file blob]   out: [status bytes] *)
Definition run_embed (f sig : bytes) : val :=
  match embed f sig with
  | Ok g => VL [VZ 0; VB g]
  | r => VL [VZ (st_of r); VB []]
  end.

(* op 2: verdict of the model on a mutant of a signed file: does it keep the digest input and the extracted blob?
   in: [2 file mutant]  out: [same_hashin same_extract] *)
Definition res_bytes_eqb (a b : result bytes) : bool :=
  match a, b with
  | Ok x, Ok y => bytes_eqb x y
  | _, _ => false
  end.
Definition res_opt_eqb (a b : result (option bytes)) : bool :=
  match a, b with
  | Ok (Some x), Ok (Some y) => bytes_eqb x y
  | _, _ => false
  end.
Definition run_mutant (g m : bytes) : val :=
  VL [of_bool (res_bytes_eqb (hashin g) (hashin m)); of_bool (res_opt_eqb (extract g) (extract m))].

Definition run (v : val) : val :=
  let op := vz (vnth 0 v) in
  if op =? 0 then run_file (vb (vnth 1 v))
  else if op =? 1 then run_embed (vb (vnth 1 v)) (vb (vnth 2 v))
  else run_mutant (vb (vnth 1 v)) (vb (vnth 2 v)).
