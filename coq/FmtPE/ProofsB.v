(* FmtPE/ProofsB.v — further lemmas behind FmtPE/Properties.v: the optional-header checksum, the class of images relic
   accepts, byte-level forms of the protection and of the "only these ranges differ" statements, concrete witnesses. *)
From Relic Require Import Base.Prelude Base.Enc Generated.FmtPE_gen C12.Model C12.Proofs FmtPE.Model FmtPE.Proofs Laws.Pipeline.

(* ================================================================== checksum *)
Lemma land_shift8 hi lo : 0 <= hi -> 0 <= lo < 256 -> Z.land (hi * 2 ^ 8) lo = 0.
Proof.
  intros Hh Hl. apply Z.bits_inj'. intros n Hn. rewrite Z.land_spec, Z.bits_0.
  destruct (Z_lt_ge_dec n 8) as [L|G].
  - rewrite Z.mul_pow2_bits_low by lia. reflexivity.
  - replace (Z.testbit lo n) with false; [apply andb_false_r|].
    symmetry. apply Z.testbit_false; [lia|].
    assert (2 ^ 8 <= 2 ^ n) by (apply Z.pow_le_mono_r; lia). change (2 ^ 8) with 256 in *.
    rewrite Z.div_small by lia. reflexivity.
Qed.
Lemma ck_word_eq hi lo : 0 <= hi < 256 -> 0 <= lo < 256 -> pe_ck_word hi lo = lo + 256 * hi.
Proof.
  intros Hh Hl. unfold pe_ck_word. rewrite !Z.mod_small by lia. rewrite Z.shiftl_mul_pow2 by lia.
  rewrite <- Z.lxor_lor by (apply land_shift8; lia). rewrite <- Z.add_nocarry_lxor by (apply land_shift8; lia).
  change (2 ^ 8) with 256. lia.
Qed.
Lemma ck_fold_eq x : 0 <= x -> pe_ck_fold x = (x + x / 65536) mod 65536.
Proof.
  intros H. unfold pe_ck_fold. rewrite Z.land_comm. change 65535 with (Z.ones 16). rewrite Z.land_ones by lia.
  rewrite Z.shiftr_div_pow2 by lia. reflexivity.
Qed.
Lemma ck_step s w : 0 <= s <= 65535 -> 0 <= w <= 65535 ->
  pe_ck_fold (wrap32 (s + w)) = sp_add16 s w /\ 0 <= sp_add16 s w <= 65535.
Proof.
  intros Hs Hw. unfold wrap32. rewrite Z.mod_small by lia. rewrite ck_fold_eq by lia.
  unfold sp_add16, sp_fold16. lia.
Qed.

Lemma is_byte_range b : is_byte b = true -> 0 <= b < 256.
Proof. unfold is_byte. intros H. apply andb_true_iff in H. destruct H as [A B]. apply Z.leb_le in A. apply Z.ltb_lt in B. lia. Qed.

(* a stretch that does not contain the CheckSum field *)
Lemma ck_nofield ck n : forall d i s, (length d <= n)%nat -> all_bytes d = true -> 0 <= s <= 65535 ->
  (i + zlen d <= ck \/ ck + 4 <= i) ->
  ck_words d i ck s = fold_left sp_add16 (sp_words d) s /\ 0 <= fold_left sp_add16 (sp_words d) s <= 65535.
Proof.
  induction n as [|n IH]; intros d i s Hl Hb Hs Hp.
  - destruct d; [|cbn in Hl; lia]. cbn. split; [reflexivity|lia].
  - destruct d as [|lo [|hi r]].
    + cbn. split; [reflexivity|lia].
    + cbn [all_bytes forallb] in Hb. apply andb_true_iff in Hb. destruct Hb as [Bl _]. apply is_byte_range in Bl.
      cbn [ck_words sp_words fold_left]. rewrite zlen_cons, zlen_nil in Hp.
      replace (pe_ck_is_field_word (pe_ck_abs 0 i) ck) with false.
      2:{ symmetry. unfold pe_ck_is_field_word, pe_ck_abs. destruct (ck >=? 0); [cbn [andb]|reflexivity].
          apply orb_false_iff. split; apply Z.eqb_neq; lia. }
      change pe_ck_adds_word with true. cbv iota. rewrite ck_word_eq by lia.
      replace (lo + 256 * 0) with lo by lia. apply ck_step; lia.
    + cbn [all_bytes forallb] in Hb. apply andb_true_iff in Hb. destruct Hb as [Bl Hb]. apply andb_true_iff in Hb. destruct Hb as [Bh Hb].
      apply is_byte_range in Bl. apply is_byte_range in Bh.
      cbn [ck_words sp_words fold_left]. rewrite !zlen_cons in Hp. pose proof (zlen_nonneg r).
      replace (pe_ck_is_field_word (pe_ck_abs 0 i) ck) with false.
      2:{ symmetry. unfold pe_ck_is_field_word, pe_ck_abs. destruct (ck >=? 0); [cbn [andb]|reflexivity].
          apply orb_false_iff. split; apply Z.eqb_neq; lia. }
      change pe_ck_adds_word with true. cbv iota. rewrite ck_word_eq by lia.
      destruct (ck_step s (lo + 256 * hi) Hs ltac:(lia)) as [E R]. rewrite E.
      apply IH; [cbn in Hl |- *; lia|exact Hb|exact R|lia].
Qed.

(* an even-length prefix can be summed first *)
Lemma ck_app ck n : forall a b i s, (length a <= n)%nat -> Z.even (zlen a) = true ->
  ck_words (a ++ b) i ck s = ck_words b (i + zlen a) ck (ck_words a i ck s) /\ sp_words (a ++ b) = sp_words a ++ sp_words b.
Proof.
  induction n as [|n IH]; intros a b i s Hl He.
  - destruct a; [|cbn in Hl; lia]. cbn [app ck_words sp_words]. rewrite zlen_nil, Z.add_0_r. split; reflexivity.
  - destruct a as [|lo [|hi r]].
    + cbn [app ck_words sp_words]. rewrite zlen_nil, Z.add_0_r. split; reflexivity.
    + rewrite zlen_cons, zlen_nil in He. discriminate.
    + rewrite !zlen_cons in He. replace (1 + (1 + zlen r)) with (Z.succ (Z.succ (zlen r))) in He by lia.
      rewrite !Z.even_succ, <- Z.negb_even, Z.even_succ, <- Z.negb_even, negb_involutive in He.
      destruct (IH r b (i + 2) (pe_ck_fold (if pe_ck_adds_word then wrap32 (s + (if pe_ck_is_field_word (pe_ck_abs 0 i) ck then 0 else pe_ck_word hi lo)) else s)))
        as [E1 E2]; [cbn in Hl; lia|exact He|].
      cbn [app ck_words sp_words]. rewrite E1, E2. rewrite !zlen_cons. split; [|reflexivity].
      f_equal. lia.
Qed.

(* the field itself counts as zero *)
Lemma ck_field ck x0 x1 x2 x3 s : 0 <= ck -> 0 <= s <= 65535 -> ck_words [x0; x1; x2; x3] ck ck s = s.
Proof.
  intros Hc Hs. cbn [ck_words]. unfold pe_ck_is_field_word, pe_ck_abs.
  replace (ck >=? 0) with true by (symmetry; rewrite Z.geb_leb; apply Z.leb_le; lia). cbn [andb].
  replace (0 + ck =? ck) with true by (symmetry; apply Z.eqb_eq; lia). cbn [orb].
  replace (0 + (ck + 2) =? ck + 2) with true by (symmetry; apply Z.eqb_eq; lia). rewrite orb_true_r.
  change pe_ck_adds_word with true. cbv iota.
  destruct (ck_step s 0 Hs ltac:(lia)) as [E R].
  assert (A : sp_add16 s 0 = s) by (unfold sp_add16, sp_fold16; lia).
  rewrite E, A, E, A. reflexivity.
Qed.

Lemma len4 {A} (l : list A) : zlen l = 4 -> exists a b c d, l = [a; b; c; d].
Proof.
  destruct l as [|a [|b [|c [|d [|e r]]]]]; unfold zlen; cbn [length]; intros H; try lia.
  now exists a, b, c, d.
Qed.

Lemma checksum_eq_spec_pe g : all_bytes g = true -> 0 < sp_lfanew g -> Z.even (sp_lfanew g) = true ->
  sp_cksum g + 4 <= zlen g -> pe_checksum (sp_lfanew g) g = spec_checksum g.
Proof.
  intros Hb Hp He Hl. unfold pe_checksum, spec_checksum.
  assert (CK : sp_cksum g = sp_lfanew g + 88) by (unfold sp_cksum, sp_opt; lia).
  unfold pe_ck_no_field. replace (sp_lfanew g <=? 0) with false by (symmetry; apply Z.leb_gt; lia).
  unfold pe_ck_pos. rewrite <- CK. set (ck := sp_cksum g) in *.
  assert (Eck : Z.even ck = true).
  { rewrite CK. rewrite Z.even_add, He. reflexivity. }
  rewrite ztk_eq, zdp_eq.
  set (A := ztake ck g). set (F := zslice ck (ck + 4) g). set (C := zdrop (ck + 4) g).
  assert (G : g = A ++ F ++ C).
  { unfold A, F, C. rewrite <- (ztake_zdrop ck g) at 1. f_equal. unfold zslice. replace (ck + 4 - ck) with 4 by lia.
    rewrite <- (ztake_zdrop 4 (zdrop ck g)) at 1. f_equal. rewrite zdrop_zdrop by lia. f_equal. lia. }
  assert (LA : zlen A = ck) by (unfold A; apply zlen_ztake; lia).
  assert (LF : zlen F = 4) by (unfold F; rewrite zlen_zslice; lia).
  destruct (len4 F LF) as (x0 & x1 & x2 & x3 & EF).
  assert (BA : all_bytes A = true) by (apply all_bytes_ztake, Hb).
  assert (BC : all_bytes C = true) by (apply all_bytes_zdrop, Hb).
  (* relic's side *)
  rewrite G at 1.
  destruct (ck_app ck (length A) A (F ++ C) 0 0 (le_n _) ltac:(rewrite LA; exact Eck)) as [E1 W1]. rewrite E1.
  assert (P2 : 0 + zlen A <= ck \/ ck + 4 <= 0) by (left; lia).
  assert (S0 : 0 <= 0 <= 65535) by lia.
  destruct (ck_nofield ck (length A) A 0 0 (le_n _) BA S0 P2) as [E2 R2]. rewrite E2.
  set (s1 := fold_left sp_add16 (sp_words A) 0) in *.
  destruct (ck_app ck (length F) F C (0 + zlen A) s1 (le_n _) ltac:(rewrite LF; reflexivity)) as [E3 W3]. rewrite E3.
  rewrite LA, LF, EF. replace (0 + ck) with ck by lia. rewrite ck_field by lia.
  assert (P4 : ck + 4 + zlen C <= ck \/ ck + 4 <= ck + 4) by (right; lia).
  destruct (ck_nofield ck (length C) C (ck + 4) s1 (le_n _) BC R2 P4) as [E4 R4]. rewrite E4.
  (* the specification's side *)
  destruct (ck_app ck (length A) A (zeros 4 ++ C) 0 0 (le_n _) ltac:(rewrite LA; exact Eck)) as [_ W5]. rewrite W5.
  destruct (ck_app ck 4 (zeros 4) C 0 0 (le_n 4) eq_refl) as [_ W6]. rewrite W6.
  rewrite !fold_left_app. fold s1. change (sp_words (zeros 4)) with [0; 0]. cbn [fold_left].
  assert (Z1 : sp_add16 (sp_add16 s1 0) 0 = s1) by (unfold sp_add16, sp_fold16; lia). rewrite Z1.
  set (s2 := fold_left sp_add16 (sp_words C) s1) in *.
  change pe_ck_counts_len with true. change pe_ck_adds_size with true. cbv iota.
  unfold pe_ck_final_fold. fold (pe_ck_fold s2). rewrite ck_fold_eq by lia.
  unfold wrap32, sp_fold16. rewrite Z.add_mod_idemp_r by lia.
  f_equal. lia.
Qed.

(* FixPEChecksum leaves the image with the documented checksum in its CheckSum field *)
Lemma fix_checksum_spec g g' : all_bytes g = true -> fix_checksum g = Ok g' -> Z.even (sp_lfanew g) = true ->
  sp_cksum g + 4 <= zlen g ->
  g' = replace1 (sp_cksum g) 4 (le_enc 4 (spec_checksum g)) g /\ sp_lfanew g' = sp_lfanew g /\ zlen g' = zlen g /\
  spec_checksum g' = spec_checksum g /\ u32 g' (sp_cksum g') = spec_checksum g'.
Proof.
  intros Hb H He Hl. unfold fix_checksum in H.
  destruct (zlen g <? pe_dos_read_len); try discriminate.
  destruct (pe_dos_bad_magic _ _); try discriminate.
  destruct (pe_lfanew_overlaps_dos _) eqn:E; try discriminate.
  unfold pe_lfanew_overlaps_dos in E. apply Z.ltb_ge in E. change (u32 g pe_lfanew_off) with (sp_lfanew g) in *.
  assert (CK : sp_cksum g = sp_lfanew g + 88) by (unfold sp_cksum, sp_opt; lia).
  unfold pe_fix_write_off in H. rewrite <- CK in H. rewrite checksum_eq_spec_pe in H by (try assumption; lia).
  set (ck := sp_cksum g) in *. set (c := spec_checksum g) in *.
  assert (Rc : 0 <= c < 4294967296) by (unfold c, spec_checksum; apply Z.mod_pos_bound; lia).
  rewrite write_at_same in H by (rewrite ?le_enc_zlen4; lia). rewrite le_enc_zlen4 in H. assert (G : g' = replace1 ck 4 (le_enc 4 c) g) by congruence. clear H. subst g'.
  unfold replace1. set (A := ztake ck g). set (C := zdrop (ck + 4) g).
  assert (LA : zlen A = ck) by (unfold A; apply zlen_ztake; lia).
  assert (L' : zlen (A ++ le_enc 4 c ++ C) = zlen g).
  { rewrite !zlen_app, LA, le_enc_zlen4. unfold C. rewrite zlen_zdrop by lia. lia. }
  assert (LF : sp_lfanew (A ++ le_enc 4 c ++ C) = sp_lfanew g).
  { unfold sp_lfanew, u32. rewrite !zsl_eq. rewrite zslice_app1 by lia. unfold A. rewrite zslice_ztake by lia. reflexivity. }
  assert (CK' : sp_cksum (A ++ le_enc 4 c ++ C) = ck).
  { unfold sp_cksum, sp_opt. rewrite LF. unfold ck, sp_cksum, sp_opt. reflexivity. }
  assert (SC : spec_checksum (A ++ le_enc 4 c ++ C) = c).
  { unfold spec_checksum at 1. rewrite CK', L'. rewrite !ztk_eq, !zdp_eq.
    rewrite ztake_app_exact by exact LA. rewrite zdrop_app_r by lia. rewrite LA. replace (ck + 4 - ck) with 4 by lia.
    rewrite zdrop_app_exact by apply le_enc_zlen4. unfold c, spec_checksum. fold ck. rewrite ztk_eq, zdp_eq. reflexivity. }
  split; [reflexivity|]. split; [exact LF|]. split; [exact L'|]. split; [exact SC|].
  rewrite SC, CK'. unfold u32. rewrite zsl_eq. rewrite (zslice_exact A (le_enc 4 c) C) by (rewrite ?le_enc_zlen4; lia).
  apply le_dec_enc4. exact Rc.
Qed.

(* embed, up to the checksum fixup *)
Lemma embed_pre_fix f d sig : all_bytes f = true -> digest_pe f = Ok d -> dg_certstart d < 4294967296 ->
  exists hv, nt_facts f hv /\
    embed f sig = fix_checksum (shape f (hv_pe hv + 88) (hv_pe hv + 24 + hv_dd4 hv) (dg_orig d)
                                      (zslice (hv_pe hv + 88) (hv_pe hv + 88 + 4) f) (dd_entry d sig) (cert_table d sig)).
Proof.
  intros Hb H Hc. destruct (digest_inv f d Hb H) as (hv & Hnt & D1 & D2 & D3 & D4 & D5 & D6 & D7 & D8 & D9 & _).
  destruct (nt_basic f hv Hb Hnt) as (Hpe & Hd & Ho & Hn & Hst & Hpd & Hlen & Hsoh & Hcz & Hcs).
  exists hv. split; [exact Hnt|]. unfold embed. rewrite H. cbn [bind]. unfold make_patch.
  replace (pe_mp_too_big (dg_certstart d)) with false
    by (symmetry; unfold pe_mp_too_big; change (Z.shiftl 1 32) with 4294967296; rewrite Z.geb_leb; apply Z.leb_gt; lia).
  cbn [bind]. unfold apply_patch. autounfold with pegen. rewrite D3, D4.
  set (dde := dd_entry d sig). set (tbl := cert_table d sig).
  set (cs := [mkCall _ 8 dde; mkCall _ _ tbl]).
  assert (AS : asc_disjoint 0 (map call_patch cs) (zlen f) = true).
  { unfold cs. cbn [map call_patch c_off c_old c_blob]. apply asc2; cbn [c_off c_old c_blob]; lia. }
  destruct (add_fileorder_sound cs f AS) as [AS2 SP]. rewrite (rewrite_sorted _ _ AS2), SP.
  unfold cs. cbn [map call_patch c_off c_old c_blob splice fold_right p_off p_old p_blob].
  rewrite (patched_shape f (hv_pe hv + 88)) by lia. reflexivity.
Qed.

Lemma all_bytes_cert_table d sig : all_bytes sig = true -> all_bytes (cert_table d sig) = true.
Proof.
  intros H. unfold cert_table. destruct (pe_mp_has_pad2 _); rewrite !all_bytes_app, ?all_bytes_zeros, !le_enc_bytes, H; reflexivity.
Qed.

(* C05: the signed file carries the documented checksum (e_lfanew even, as every loadable image has it) *)
Lemma embed_checksum_spec f sig g : all_bytes f = true -> all_bytes sig = true -> sig_ok sig -> embed f sig = Ok g ->
  Z.even (sp_lfanew f) = true -> u32 g (sp_cksum g) = spec_checksum g.
Proof.
  intros Hb Hs Ho H He. destruct (embed_inv f sig g Hb Ho H) as (d & hv & [ED Hnt Hsm _ _ _]).
  destruct (embed_pre_fix f d sig Hb ED ltac:(lia)) as (hv' & Hnt' & E).
  assert (hv' = hv) by (eapply nt_facts_unique; eauto). subst hv'.
  destruct (digest_inv f d Hb ED) as (hv' & Hnt'' & D1 & D2 & _).
  assert (hv' = hv) by (eapply nt_facts_unique; eauto). subst hv'.
  destruct (nt_basic f hv Hb Hnt) as (Hpe & Hd & Ho' & Hn & Hst & Hpd & Hlen & Hsoh & Hcz & Hcs).
  destruct (sp_link f hv Hnt) as (Slf & Sck & _).
  rewrite H in E. symmetry in E.
  set (ck := hv_pe hv + 88) in *. set (dd := hv_pe hv + 24 + hv_dd4 hv) in *.
  set (g0 := shape f ck dd (dg_orig d) (zslice ck (ck + 4) f) (dd_entry d sig) (cert_table d sig)) in *.
  assert (L8 : zlen (dd_entry d sig) = 8) by (unfold dd_entry; rewrite zlen_app, !le_enc_zlen4; lia).
  assert (L4 : zlen (zslice ck (ck + 4) f) = 4) by (rewrite zlen_zslice; lia).
  assert (A : agree3 f g0 ck dd (dg_orig d)) by (apply shape_agree; lia).
  assert (Lg : zlen g0 = dg_orig d + zlen (cert_table d sig)) by (apply shape_len; lia).
  pose proof (zlen_nonneg (cert_table d sig)).
  assert (B0 : all_bytes g0 = true).
  { unfold g0, shape. rewrite !all_bytes_app, !all_bytes_zslice by exact Hb.
    unfold dd_entry. rewrite all_bytes_app, !le_enc_bytes, all_bytes_cert_table by exact Hs. reflexivity. }
  assert (LF : sp_lfanew g0 = sp_lfanew f) by (unfold sp_lfanew; apply (u32_same f g0 ck dd (dg_orig d)); [exact A|lia|lia]).
  assert (CK0 : sp_cksum g0 = ck) by (unfold sp_cksum, sp_opt; rewrite LF, Slf; unfold ck; lia).
  destruct (fix_checksum_spec g0 g B0 E ltac:(rewrite LF; exact He) ltac:(lia)) as (_ & _ & _ & _ & R). exact R.
Qed.

(* ================================================================== acceptance *)
Lemma read_secs_sp f n : forall i, 0 <= i ->
  read_secs f (sp_sectbl f) n i = map (fun k => sp_sec f (Z.of_nat k)) (seq (Z.to_nat i) n).
Proof.
  induction n as [|n IH]; intros i Hi; [reflexivity|].
  cbn [read_secs seq map]. f_equal.
  - unfold sec_entry, sp_sec. autounfold with pegen. rewrite Z2Nat.id by lia. f_equal; f_equal; lia.
  - rewrite IH by lia. replace (Z.to_nat (i + 1)) with (S (Z.to_nat i)) by lia. reflexivity.
Qed.

Lemma tiles_adjust secs : forall i nsec tblend falign soh pos e,
  tiles_tbl secs i nsec falign pos = Some e -> tblend <= soh -> soh <= pos -> nonneg_sizes secs ->
  adjust_secs secs i nsec tblend falign soh = Ok (secs, soh).
Proof.
  induction secs as [|[ptr size] r IH]; intros i nsec tblend falign soh pos e H Ht Hp Hn; [reflexivity|].
  inversion Hn as [|x l Hx Hr]; subst. cbn [snd] in Hx.
  cbn [tiles_tbl adjust_secs] in *. unfold pe_rs_skip_empty.
  destruct (size =? 0) eqn:Ez.
  - rewrite (IH _ _ _ _ _ _ _ H Ht Hp Hr). reflexivity.
  - destruct ((ptr =? pos) && _) eqn:Ec; try discriminate.
    apply andb_true_iff in Ec. destruct Ec as [Ep Ea]. apply Z.eqb_eq in Ep. subst ptr.
    unfold pe_sec_overlaps_table, pe_sec_before_hdr_end, pe_sec_not_last.
    replace (pos <? tblend) with false by (symmetry; apply Z.ltb_ge; lia).
    replace (pos <? soh) with false by (symmetry; apply Z.ltb_ge; lia). cbn [andb].
    rewrite (IH _ _ _ _ _ _ _ H Ht ltac:(lia) Hr). cbn [bind fst snd].
    destruct (i <? nsec - 1) eqn:El; cbn [andb].
    + change pe_aligns_mid_sections with true. cbv iota.
      apply Z.ltb_lt in El. replace (nsec - 1 <=? i) with false in Ea by (symmetry; apply Z.leb_gt; lia).
      cbn [orb] in Ea. apply andb_true_iff in Ea. destruct Ea as [Ef Er]. apply negb_true_iff in Ef.
      unfold align32, pe_align_zero, pe_align_rem, pe_align_needed. rewrite Ef, Er. reflexivity.
    + reflexivity.
Qed.

Lemma tiles_hash f secs : forall i nsec falign pos e,
  tiles_tbl secs i nsec falign pos = Some e -> 0 <= pos -> e <= zlen f -> nonneg_sizes secs ->
  pos <= e /\ exists bs, hash_secs f secs pos = Ok (e, bs).
Proof.
  induction secs as [|[ptr size] r IH]; intros i nsec falign pos e H Hp He Hn.
  - cbn in H. inversion H; subst. split; [lia|]. eexists. reflexivity.
  - inversion Hn as [|x l Hx Hr]; subst. cbn [snd] in Hx.
    cbn [tiles_tbl hash_secs] in *. unfold pe_dg_skip_empty.
    destruct (size =? 0) eqn:Ez; [exact (IH _ _ _ _ _ H Hp He Hr)|].
    destruct ((ptr =? pos) && _) eqn:Ec; try discriminate.
    apply andb_true_iff in Ec. destruct Ec as [Ep _]. apply Z.eqb_eq in Ep. subst ptr.
    destruct (IH _ _ _ _ _ H ltac:(lia) He Hr) as [B [bs E]].
    split; [lia|]. unfold pe_sec_not_contiguous. rewrite Z.eqb_refl. cbn [negb].
    replace (zlen f <? pos + size) with false by (symmetry; apply Z.ltb_ge; lia).
    change pe_next_advances with true. cbv iota. rewrite E. cbn [bind fst snd]. eexists. reflexivity.
Qed.

Definition dom_hv (f : bytes) : hvals :=
  let pe := sp_lfanew f in
  let dd4 := if sp_plus f then 144 else 128 in
  mkHv pe (sp_nsec f) (sp_optsize f) dd4 (pe + 24 + dd4) (pe + 24 + sp_optsize f) (sp_soh f) (sp_falign f)
       (page_of (u16 f (pe + 4))) (sp_cert_va f) (sp_cert_size f).

Ltac split_and H :=
  repeat match type of H with
  | (_ && _) = true => let H' := fresh "W" in apply andb_true_iff in H; destruct H as [H H']
  end.

Lemma wf_bounds f : spec_wf f = true ->
  sp_sectbl f + 40 * sp_nsec f <= sp_soh f /\ sp_soh f <= zlen f /\ 64 <= zlen f /\ sp_opt f + sp_optsize f <= zlen f.
Proof. intros W. unfold spec_wf in W. split_and W. zb. repeat split; lia. Qed.

Lemma dom_nt f : spec_wf f = true -> 64 <= sp_lfanew f -> (if sp_plus f then 240 else 224) <= sp_optsize f ->
  nt_facts f (dom_hv f).
Proof.
  intros W L O. unfold spec_wf in W. split_and W. zb.
  assert (M : (sp_magic f = 267 /\ sp_plus f = false) \/ (sp_magic f = 523 /\ sp_plus f = true)).
  { apply orb_true_iff in W4. unfold sp_plus. destruct W4 as [M|M]; apply Z.eqb_eq in M; rewrite M; [left|right]; split; reflexivity. }
  unfold nt_facts, dom_hv. cbn [hv_pe hv_nsec hv_optsize hv_dd4 hv_posdd hv_sectbl hv_soh hv_falign hv_page hv_certstart hv_certsize]. cbv zeta.
  unfold sp_numrva, sp_dd4, sp_ddir, sp_sectbl, sp_cert_va, sp_cert_size, sp_dd4, sp_ddir, sp_soh, sp_falign, sp_nsec, sp_optsize, sp_magic, sp_opt in *.
  destruct M as [[M P]|[M P]]; rewrite P in *; (repeat split; try lia; try reflexivity; try (f_equal; lia)).
  - left. repeat split; try lia; try (rewrite <- M; f_equal; lia).
    match goal with H : 5 <= u32 f ?a |- 5 <= u32 f ?b => replace b with a by lia; exact H end.
  - right. repeat split; try lia; try (rewrite <- M; f_equal; lia).
    match goal with H : 5 <= u32 f ?a |- 5 <= u32 f ?b => replace b with a by lia; exact H end.
Qed.

Lemma sp_secs_head f : 0 < sp_nsec f -> exists r, sp_secs f = sp_sec f 0 :: r.
Proof.
  intros H. unfold sp_secs. destruct (Z.to_nat (sp_nsec f)) as [|k] eqn:E; [lia|]. cbn [seq map]. eexists. reflexivity.
Qed.

(* C01: every image of the class relic_dom is accepted *)
Lemma accepts_wf_pe f : all_bytes f = true -> relic_dom f = true -> exists pre, hashin f = Ok pre.
Proof.
  intros Hb D. unfold relic_dom in D.
  apply andb_true_iff in D. destruct D as [D T]. apply andb_true_iff in D. destruct D as [D G0].
  apply andb_true_iff in D. destruct D as [D O]. apply andb_true_iff in D. destruct D as [W L].
  destruct (tiles_tbl _ _ _ _ _) as [e|] eqn:ET; try discriminate.
  apply andb_true_iff in T. destruct T as [Te Tc]. zb.
  pose proof (dom_nt f W L O) as Hnt. pose proof (read_nt_intro _ _ Hnt) as RN.
  destruct (wf_bounds f W) as (B1 & B2 & B3 & B4).
  pose proof (u16_range f (sp_lfanew f + 4 + 2) Hb) as Rn. fold (sp_nsec f) in Rn.
  pose proof (u32_range f (sp_dd4 f + 4) Hb) as Rz. fold (sp_cert_size f) in Rz.
  pose proof (sp_secs_nonneg f Hb) as Nn.
  assert (SO : 0 <= sp_sectbl f) by (unfold sp_sectbl, sp_opt; pose proof (u16_range f (sp_lfanew f + 4 + 16) Hb); unfold sp_optsize; lia).
  unfold hashin, digest_pe. rewrite RN. cbn [bind]. unfold dom_hv.
  cbn [hv_pe hv_nsec hv_optsize hv_dd4 hv_posdd hv_sectbl hv_soh hv_falign hv_page hv_certstart hv_certsize].
  replace (sp_lfanew f + 24 + sp_optsize f) with (sp_sectbl f) by (unfold sp_sectbl, sp_opt; lia).
  unfold pe_sectbl_end, pe_sectbl_size, pe_table_overlaps_hdr, pe_hdr_padding_len.
  set (tblend := sp_sectbl f + sp_nsec f * 40).
  replace (tblend >? sp_soh f) with false by (symmetry; rewrite Z.gtb_ltb; apply Z.ltb_ge; unfold tblend; lia).
  replace (zlen f <? tblend) with false by (symmetry; apply Z.ltb_ge; unfold tblend; lia).
  rewrite read_secs_sp by lia. change (Z.to_nat 0) with 0%nat.
  change (map (fun k : nat => sp_sec f (Z.of_nat k)) (seq 0 (Z.to_nat (sp_nsec f)))) with (sp_secs f).
  rewrite (tiles_adjust _ _ _ _ _ _ _ _ ET) by (try exact Nn; unfold tblend; lia). cbn [bind fst snd].
  replace (zlen f <? tblend + (sp_soh f - tblend)) with false by (symmetry; apply Z.ltb_ge; lia).
  assert (GAP : pe_has_gap (sp_nsec f) match sp_secs f with (p, _) :: _ => p | [] => 0 end (sp_soh f) = false).
  { unfold pe_has_gap. destruct (sp_nsec f =? 0) eqn:E0; zb.
    - rewrite E0. reflexivity.
    - cbn [orb] in G0. zb. destruct (sp_secs_head f ltac:(lia)) as [r ->]. destruct (sp_sec f 0) as [p s]. cbn [fst] in G0.
      replace (p >? sp_soh f) with false by (symmetry; rewrite Z.gtb_ltb; apply Z.ltb_ge; lia). apply andb_false_r. }
  rewrite GAP. cbn [andb]. cbv iota.
  destruct (tiles_hash f _ _ _ _ _ _ ET ltac:(lia) Te Nn) as [Be [bs EH]]. rewrite EH. cbn [bind fst snd].
  unfold read_trailer, pe_tr_unsigned, pe_tr_sig_overlaps, pe_tr_before_cert, pe_tr_garbage.
  destruct (sp_cert_size f =? 0) eqn:EZ.
  - cbn [bind]. eexists. reflexivity.
  - cbn [orb] in Tc. zb.
    replace (sp_cert_va f <? e) with false by (symmetry; apply Z.ltb_ge; lia).
    replace (zlen f <? e + (sp_cert_va f - e)) with false by (symmetry; apply Z.ltb_ge; lia).
    replace (zlen f <? sp_cert_va f + sp_cert_size f) with false by (symmetry; apply Z.ltb_ge; lia).
    replace (zlen f - (sp_cert_va f + sp_cert_size f) >? 0) with false by (symmetry; rewrite Z.gtb_ltb; apply Z.ltb_ge; lia).
    cbn [bind]. eexists. reflexivity.
Qed.

(* ================================================================== embedding is defined on whatever is accepted (< 4 GiB) *)
Lemma embed_defined_hashin f sig pre : all_bytes f = true -> hashin f = Ok pre -> zlen f <= 4294967296 - 8 ->
  exists g, embed f sig = Ok g.
Proof.
  intros Hb H Hl. unfold hashin in H. destruct (digest_pe f) as [d| |] eqn:ED; cbn [bind] in H; try discriminate.
  destruct (digest_inv f d Hb ED) as (hv & Hnt & D1 & D2 & D3 & D4 & D5 & D6 & D7 & D8 & _).
  destruct (nt_basic f hv Hb Hnt) as (Hpe & Hd & _).
  destruct (pad_of_spec (dg_orig d) ltac:(lia)) as (P1 & P2 & P3).
  apply (embed_defined_pe f sig d Hb ED). lia.
Qed.
Lemma embed_too_big_hashin f sig pre : all_bytes f = true -> hashin f = Ok pre ->
  4294967296 <= sp_payload_end f + (8 - sp_payload_end f mod 8) mod 8 -> embed f sig = Err E_TOOBIG.
Proof.
  intros Hb H Hl. destruct (hashin_inv f pre Hb H) as (d & hv & ED & Hnt & _ & _ & _ & _ & _ & PE & _). cbv zeta in PE.
  destruct (digest_inv f d Hb ED) as (hv' & Hnt' & D1 & D2 & D3 & D4 & D5 & D6 & D7 & D8 & _).
  destruct (nt_basic f hv' Hb Hnt') as (Hpe & Hd & _).
  destruct (pad_of_spec (dg_orig d) ltac:(lia)) as (P1 & P2 & P3).
  apply (embed_too_big_pe f sig d ED). rewrite PE in Hl. lia.
Qed.

(* ================================================================== what acceptance implies (the refusal class, contraposed) *)
Lemma accepted_facts f pre : all_bytes f = true -> hashin f = Ok pre ->
  64 <= zlen f /\ byte_at f 0 = 77 /\ byte_at f 1 = 90 /\ 64 <= sp_lfanew f /\
  byte_at f (sp_lfanew f) = 80 /\ byte_at f (sp_lfanew f + 1) = 69 /\ byte_at f (sp_lfanew f + 2) = 0 /\ byte_at f (sp_lfanew f + 3) = 0 /\
  (sp_magic f = 267 \/ sp_magic f = 523) /\ 5 <= sp_numrva f /\ (if sp_plus f then 240 else 224) <= sp_optsize f /\
  sp_opt f + sp_optsize f <= zlen f /\ sp_sectbl f + 40 * sp_nsec f <= sp_soh f /\
  sp_dd4 f + 8 <= sp_payload_end f /\ sp_payload_end f <= zlen f /\
  (sp_cert_size f = 0 \/ sp_cert_va f + sp_cert_size f = zlen f).
Proof.
  intros Hb H. unfold hashin in H. destruct (digest_pe f) as [d| |] eqn:ED; cbn [bind] in H; try discriminate.
  destruct (digest_inv f d Hb ED) as (hv & Hnt & D1 & D2 & D3 & D4 & D5 & D6 & D7 & D8 & D9 & last & bs & ES & EL & ET).
  pose proof (digest_payload_end f d hv Hb ED Hnt) as PE.
  destruct (sp_link f hv Hnt) as (Slf & Sck & Sdd & Sva & Ssz & Ssoh & Stbl & Snsec).
  destruct Hnt as (H1 & H2 & H3 & H4 & H5 & H6 & H7 & H8 & H9 & H10 & H11 & H12 & H13 & H14 & H15 & H16 & H17 & H18 & H19 & H20).
  cbv zeta in *. rewrite PE, Sdd, Sva, Ssz, Ssoh, Stbl, Snsec, Slf.
  assert (OS : sp_optsize f = hv_optsize hv) by (unfold sp_optsize; rewrite Slf, H11; f_equal; lia).
  assert (OP : sp_opt f = hv_pe hv + 24) by (unfold sp_opt; rewrite Slf; lia).
  assert (MG : sp_magic f = u16 f (hv_pe hv + 24)) by (unfold sp_magic; rewrite OP; reflexivity).
  unfold sp_numrva, sp_plus. rewrite OS, OP, MG.
  repeat (split; [first [assumption | lia]|]).
  destruct H13 as [(M & D & O & N)|(M & D & O & N)]; rewrite M; cbn [Z.eqb Pos.eqb];
  repeat (split; [first [assumption | lia]|]);
  (destruct (Z.eq_dec (hv_certsize hv) 0) as [Z0|Z0]; [left; exact Z0|right; rewrite <- (D6 Z0); lia]).
Qed.

(* ================================================================== C05: the digest input is three stretches of the file plus zero padding *)
Lemma hashin_linear f pre : all_bytes f = true -> hashin f = Ok pre ->
  let ck := sp_cksum f in let dd := sp_dd4 f in let e := sp_payload_end f in
  pre = zslice 0 ck f ++ zslice (ck + 4) dd f ++ zslice (dd + 8) e f ++ zeros ((8 - e mod 8) mod 8) /\
  0 <= ck /\ ck + 4 <= dd /\ dd + 8 <= e /\ e <= zlen f.
Proof.
  intros Hb H. destruct (hashin_inv f pre Hb H) as (d & hv & ED & Hnt & Hpe & Hd & Ho & Hl & P & PE & _). cbv zeta in *.
  destruct (sp_link f hv Hnt) as (_ & Sck & Sdd & _).
  destruct (pad_of_spec (dg_orig d) ltac:(lia)) as (_ & _ & Q).
  rewrite Sck, Sdd, PE, <- Q. split; [|lia]. rewrite P. unfold lin. rewrite <- !app_assoc. reflexivity.
Qed.

(* ================================================================== C03: byte-level account of what embedding changes *)
Lemma only_ranges_pe f sig g : all_bytes f = true -> sig_ok sig -> embed f sig = Ok g ->
  let ck := sp_cksum f in let dd := sp_dd4 f in let e := sp_payload_end f in let pad := (8 - e mod 8) mod 8 in
  sp_cksum g = ck /\ sp_dd4 g = dd /\ 0 <= ck /\ ck + 4 <= dd /\ dd + 8 <= e /\ e <= zlen f /\
  (forall i, 0 <= i < e -> ~ (ck <= i < ck + 4) -> ~ (dd <= i < dd + 8) -> byte_at g i = byte_at f i) /\
  zdrop e g = zeros pad ++ le_enc 4 (8 + pe_mp_padded (zlen sig)) ++ le_enc 2 512 ++ le_enc 2 2 ++ pad8 sig /\
  sp_cert_va g = e + pad /\ sp_cert_size g = 8 + pe_mp_padded (zlen sig) /\ sp_payload_end g = e + pad /\
  zlen g = e + pad + 8 + pe_mp_padded (zlen sig).
Proof.
  intros Hb Hs H. destruct (embed_inv f sig g Hb Hs H) as (d & hv & EM).
  destruct (embedded_bytes f sig g d hv Hb Hs EM) as (B1 & B2 & B3 & B4 & B5 & B6 & B7 & A & T & Lg & _).
  destruct EM as [ED Hnt Hsm _ N EG].
  destruct (sp_link f hv Hnt) as (_ & Sck & Sdd & _).
  destruct (sp_link g _ N) as (_ & Sck' & Sdd' & Sva' & Ssz' & _).
  unfold set_cert in Sck', Sdd', Sva', Ssz'. cbn [hv_pe hv_dd4 hv_certstart hv_certsize] in Sck', Sdd', Sva', Ssz'.
  pose proof (digest_payload_end f d hv Hb ED Hnt) as PE.
  destruct (pad_of_spec (dg_orig d) ltac:(lia)) as (_ & _ & Q).
  pose proof (padded_spec (zlen sig) (zlen_nonneg sig)) as [Q1 Q2]. pose proof (zlen_nonneg sig).
  cbv zeta. rewrite Sck, Sdd, PE, <- Q, Sck', Sdd', Sva', Ssz'.
  repeat (split; [first [reflexivity | lia]|]).
  split.
  { intros i Hi N1 N2. apply (byte_at_same f g _ _ _ i A); lia. }
  split; [exact T|].
  split; [lia|]. split; [reflexivity|].
  split; [|lia].
  unfold sp_payload_end. rewrite Ssz', Sva'. replace (8 + pe_mp_padded (zlen sig) =? 0) with false by (symmetry; apply Z.eqb_neq; lia). lia.
Qed.

(* ================================================================== C02: protection, byte by byte *)
Lemma ztake_zeros n p : 0 <= n <= p -> ztake n (zeros p) = zeros n.
Proof.
  intros H. replace (zeros p) with (zeros n ++ zeros (p - n)) by (rewrite zeros_app by lia; f_equal; lia).
  apply ztake_app_exact. apply zlen_zeros. lia.
Qed.
Lemma zslice_zeros a b n : 0 <= a <= b -> b <= n -> zslice a b (zeros n) = zeros (b - a).
Proof.
  intros H1 H2. replace (zeros n) with (zeros a ++ zeros (b - a) ++ zeros (n - b)) by (rewrite !zeros_app by lia; f_equal; lia).
  apply zslice_exact; rewrite !zlen_zeros by lia; lia.
Qed.

Lemma tail_pad (a b : bytes) p q : a ++ zeros p = b ++ zeros q -> zlen a <= zlen b -> 0 <= p -> 0 <= q ->
  b = a ++ zeros (zlen b - zlen a).
Proof.
  intros E L Hp Hq. assert (Ln : zlen a + p = zlen b + q) by (apply (f_equal zlen) in E; rewrite !zlen_app, !zlen_zeros in E by lia; exact E).
  rewrite <- (ztake_app_exact (zlen b) b (zeros q) eq_refl) at 1. rewrite <- E.
  rewrite ztake_app_r by lia. f_equal. apply ztake_zeros. pose proof (zlen_nonneg a). lia.
Qed.

Lemma tail_bytes g1 g2 lo e1 e2 p1 p2 : 0 <= lo -> lo <= e1 -> e1 <= e2 -> e1 <= zlen g1 -> e2 <= zlen g2 -> 0 <= p1 -> 0 <= p2 ->
  zslice lo e1 g1 ++ zeros p1 = zslice lo e2 g2 ++ zeros p2 ->
  forall i, lo <= i -> (i < e1 -> byte_at g1 i = byte_at g2 i) /\ (e1 <= i < e2 -> byte_at g2 i = 0).
Proof.
  intros H0 H1 H2 L1 L2 P1 P2 E i Hi.
  assert (LA : zlen (zslice lo e1 g1) = e1 - lo) by (apply zlen_zslice; lia).
  assert (LB : zlen (zslice lo e2 g2) = e2 - lo) by (apply zlen_zslice; lia).
  pose proof (tail_pad _ _ _ _ E ltac:(lia) P1 P2) as B. rewrite LA, LB in B.
  split; intros Hr.
  - rewrite !byte_at_slice by lia.
    rewrite <- (zslice_sub lo e2 i (i + 1) g2) by lia. rewrite B. rewrite zslice_app1 by lia.
    rewrite zslice_sub by lia. reflexivity.
  - rewrite byte_at_slice by lia.
    rewrite <- (zslice_sub lo e2 i (i + 1) g2) by lia. rewrite B. rewrite zslice_app2 by lia. rewrite LA.
    rewrite zslice_zeros by lia. replace (i + 1 - lo - (e1 - lo) - (i - lo - (e1 - lo))) with 1 by lia. reflexivity.
Qed.

Lemma protect_bytes_pe g1 g2 pre : all_bytes g1 = true -> all_bytes g2 = true -> hashin g1 = Ok pre -> hashin g2 = Ok pre ->
  let ck := sp_cksum g1 in let dd := sp_dd4 g1 in let e1 := sp_payload_end g1 in let e2 := sp_payload_end g2 in
  sp_cksum g2 = ck /\ sp_dd4 g2 = dd /\
  e1 + (8 - e1 mod 8) mod 8 = e2 + (8 - e2 mod 8) mod 8 /\
  forall i, 0 <= i -> ~ (ck <= i < ck + 4) -> ~ (dd <= i < dd + 8) ->
    (i < e1 -> i < e2 -> byte_at g1 i = byte_at g2 i) /\ (e1 <= i < e2 -> byte_at g2 i = 0) /\ (e2 <= i < e1 -> byte_at g1 i = 0).
Proof.
  intros Hb1 Hb2 H1 H2.
  destruct (hashin_linear g1 pre Hb1 H1) as (P1 & A1 & A2 & A3 & A4).
  destruct (hashin_linear g2 pre Hb2 H2) as (P2 & C1 & C2 & C3 & C4). cbv zeta in *.
  destruct (hashin_inv g1 pre Hb1 H1) as (d1 & hv1 & ED1 & N1 & Hp1 & Hd1 & _ & _ & Q1 & _).
  destruct (hashin_inv g2 pre Hb2 H2) as (d2 & hv2 & ED2 & N2 & Hp2 & Hd2 & _ & _ & Q2 & _). cbv zeta in *.
  destruct (sp_link g1 hv1 N1) as (_ & Sck1 & Sdd1 & _). destruct (sp_link g2 hv2 N2) as (_ & Sck2 & Sdd2 & _).
  (* same e_lfanew *)
  assert (Epe : hv_pe hv1 = hv_pe hv2).
  { destruct N1 as (_ & _ & _ & E1 & _). destruct N2 as (_ & _ & _ & E2 & _). rewrite E1, E2. unfold u32. rewrite !zsl_eq.
    rewrite <- (lin_prefix g1 (hv_pe hv1 + 88) (hv_pe hv1 + 24 + hv_dd4 hv1) (dg_orig d1) (zeros (pad_of (dg_orig d1))) 60 (60 + 4)) by lia.
    rewrite <- (lin_prefix g2 (hv_pe hv2 + 88) (hv_pe hv2 + 24 + hv_dd4 hv2) (dg_orig d2) (zeros (pad_of (dg_orig d2))) 60 (60 + 4)) by lia.
    rewrite <- Q1, <- Q2. reflexivity. }
  assert (Edd : hv_dd4 hv1 = hv_dd4 hv2).
  { assert (M : u16 g1 (hv_pe hv1 + 24) = u16 g2 (hv_pe hv2 + 24)).
    { unfold u16. rewrite !zsl_eq.
      rewrite <- (lin_prefix g1 (hv_pe hv1 + 88) (hv_pe hv1 + 24 + hv_dd4 hv1) (dg_orig d1) (zeros (pad_of (dg_orig d1))) (hv_pe hv1 + 24) (hv_pe hv1 + 24 + 2)) by lia.
      rewrite <- (lin_prefix g2 (hv_pe hv2 + 88) (hv_pe hv2 + 24 + hv_dd4 hv2) (dg_orig d2) (zeros (pad_of (dg_orig d2))) (hv_pe hv2 + 24) (hv_pe hv2 + 24 + 2)) by lia.
      rewrite <- Q1, <- Q2, Epe. reflexivity. }
    destruct N1 as (_ & _ & _ & _ & _ & _ & _ & _ & _ & _ & _ & _ & M1 & _).
    destruct N2 as (_ & _ & _ & _ & _ & _ & _ & _ & _ & _ & _ & _ & M2 & _). cbv zeta in M1, M2.
    destruct M1 as [(X1 & Y1 & _)|(X1 & Y1 & _)], M2 as [(X2 & Y2 & _)|(X2 & Y2 & _)]; lia. }
  assert (Eck : sp_cksum g2 = sp_cksum g1) by lia. assert (Edd' : sp_dd4 g2 = sp_dd4 g1) by lia.
  rewrite Eck, Edd' in *. clear Q1 Q2 ED1 ED2.
  set (ck := sp_cksum g1) in *. set (dd := sp_dd4 g1) in *. set (e1 := sp_payload_end g1) in *. set (e2 := sp_payload_end g2) in *.
  set (p1 := (8 - e1 mod 8) mod 8) in *. set (p2 := (8 - e2 mod 8) mod 8) in *.
  assert (R1 : 0 <= p1 < 8) by (unfold p1; apply Z.mod_pos_bound; lia).
  assert (R2 : 0 <= p2 < 8) by (unfold p2; apply Z.mod_pos_bound; lia).
  rewrite P1 in P2.
  apply app_eq_len in P2; [|rewrite !zlen_zslice; lia]. destruct P2 as [EA P2].
  apply app_eq_len in P2; [|rewrite !zlen_zslice; lia]. destruct P2 as [EB EC].
  split; [reflexivity|]. split; [reflexivity|]. split.
  { apply (f_equal zlen) in EC. rewrite !zlen_app, !zlen_zslice, !zlen_zeros in EC by lia. lia. }
  intros i Hi F1 F2.
  destruct (Z_lt_ge_dec i ck) as [I1|I1].
  { repeat split; try lia. intros _ _. rewrite !byte_at_slice by lia.
    rewrite <- (zslice_sub 0 ck i (i + 1) g1), <- (zslice_sub 0 ck i (i + 1) g2) by lia. rewrite EA. reflexivity. }
  destruct (Z_lt_ge_dec i dd) as [I2|I2].
  { repeat split; try lia. intros _ _. rewrite !byte_at_slice by lia.
    rewrite <- (zslice_sub (ck + 4) dd i (i + 1) g1), <- (zslice_sub (ck + 4) dd i (i + 1) g2) by lia. rewrite EB. reflexivity. }
  destruct (Z_le_gt_dec e1 e2) as [O|O].
  - destruct (tail_bytes g1 g2 (dd + 8) e1 e2 p1 p2 ltac:(lia) ltac:(lia) O ltac:(lia) ltac:(lia) ltac:(lia) ltac:(lia) EC i ltac:(lia)) as [T1 T2].
    repeat split; intros; try lia; auto.
  - symmetry in EC.
    destruct (tail_bytes g2 g1 (dd + 8) e2 e1 p2 p1 ltac:(lia) ltac:(lia) ltac:(lia) ltac:(lia) ltac:(lia) ltac:(lia) ltac:(lia) EC i ltac:(lia)) as [T1 T2].
    repeat split; intros; try lia; auto.
Qed.

(* ================================================================== concrete images (witnesses and non-vacuity) *)
(* a PE32 header: DOS header with e_lfanew = lf, "PE\0\0", COFF header (i386, nsec sections, 224-byte optional header),
   optional header (magic 0x10b, FileAlignment, SizeOfHeaders, CheckSum, 16 data directories, all empty), section table *)
Definition ex_hdr (lf nsec soh falign cksum : Z) (tbl : list (Z * Z)) : bytes :=
  [77; 90] ++ zeros 58 ++ le_enc 4 lf ++ zeros (lf - 64) ++ [80; 69; 0; 0] ++
  le_enc 2 332 ++ le_enc 2 nsec ++ zeros 12 ++ le_enc 2 224 ++ le_enc 2 2 ++
  le_enc 2 267 ++ zeros 34 ++ le_enc 4 falign ++ zeros 20 ++ le_enc 4 soh ++ le_enc 4 cksum ++ zeros 24 ++ le_enc 4 16 ++ zeros 128 ++
  concat (map (fun s => zeros 16 ++ le_enc 4 (snd s) ++ le_enc 4 (fst s) ++ zeros 16) tbl).
Definition iota (a n : Z) : bytes := map (fun k => a + Z.of_nat k) (seq 0 (Z.to_nat n)).
(* 423 bytes: headers padded to 400, a 16-byte section, a 5-byte last section, 2 bytes of overlay; stale CheckSum *)
Definition ex_pe : bytes :=
  ex_hdr 64 2 400 8 16909060 [(400, 16); (416, 5)] ++ zeros 8 ++ iota 1 16 ++ iota 21 5 ++ [31; 32].
(* the same image with the NT headers at the odd offset 65 *)
Definition ex_pe_odd : bytes :=
  ex_hdr 65 2 401 8 16909060 [(401, 16); (417, 5)] ++ zeros 8 ++ iota 1 16 ++ iota 21 5 ++ [31; 32].
(* section table not in file order *)
Definition ex_pe_unsorted : bytes :=
  ex_hdr 64 2 400 8 0 [(416, 5); (400, 16)] ++ zeros 8 ++ iota 1 16 ++ iota 21 5 ++ [31; 32].
(* a non-last section whose raw size is not a multiple of FileAlignment, data packed *)
Definition ex_pe_unaligned : bytes :=
  ex_hdr 64 2 400 8 0 [(400, 5); (405, 16)] ++ zeros 8 ++ iota 21 5 ++ iota 1 16 ++ [31; 32].

(* C02 at full strength fails by exactly the zero padding: appending a zero byte to an unsigned image whose length is not
   a multiple of 8 leaves the digest input unchanged *)
Lemma protect_exact_refuted : exists g1 g2 pre, all_bytes g1 = true /\ all_bytes g2 = true /\
  hashin g1 = Ok pre /\ hashin g2 = Ok pre /\ protected g1 <> protected g2.
Proof.
  exists ex_pe, (ex_pe ++ [0]). eexists. split; [vm_compute; reflexivity|]. split; [vm_compute; reflexivity|].
  split; [vm_compute; reflexivity|]. split; [vm_compute; reflexivity|].
  intros E. apply (f_equal zlen) in E. vm_compute in E. discriminate.
Qed.

(* C05: with the NT headers at an odd offset peChecksum does not blank the CheckSum field (it compares even word offsets
   with cksumPos), so the value written is not the documented checksum when the old field was non-zero *)
Lemma checksum_odd_lfanew_refuted : exists f sig g, all_bytes f = true /\ relic_dom f = true /\ embed f sig = Ok g /\
  u32 g (sp_cksum g) <> spec_checksum g.
Proof.
  exists ex_pe_odd, [1; 2; 3]. eexists. split; [vm_compute; reflexivity|]. split; [vm_compute; reflexivity|].
  split; [vm_compute; reflexivity|]. vm_compute. discriminate.
Qed.

(* C01/C05: the Authenticode algorithm is defined on every contiguous image (it sorts the sections); relic walks the
   section table in table order and rounds the raw size of every non-last entry up to FileAlignment, and refuses (cleanly) *)
Lemma accepts_all_contiguous_refuted : exists f1 f2,
  all_bytes f1 = true /\ spec_wf f1 = true /\ spec_contig f1 = true /\ is_ok (hashin f1) = false /\
  all_bytes f2 = true /\ spec_wf f2 = true /\ spec_contig f2 = true /\ hashin f2 = Err E_BEGINS.
Proof. exists ex_pe_unsorted, ex_pe_unaligned. vm_compute. repeat split; reflexivity. Qed.

(* ================================================================== L1 on blobs that are already 8-aligned: exactly the blob *)
Lemma law_extract_aligned_pe f b g : all_bytes f = true -> all_bytes b = true -> zlen b < 4294967296 - 32 -> zlen b mod 8 = 0 ->
  embed f b = Ok g -> extract g = Ok (Some b).
Proof.
  intros Hf Hb Hl Hm H. apply (pe_L1 f b g). cbn [f_embed pe_format]. unfold embed_dom, blob_dom. rewrite Hf, Hb.
  replace (zlen b <? 4294967296 - 32) with true by (symmetry; apply Z.ltb_lt; lia).
  replace (zlen b mod 8 =? 0) with true by (symmetry; apply Z.eqb_eq; exact Hm). exact H.
Qed.

(* ================================================================== the symbolic-crypto hypotheses are satisfiable *)
(* A self-delimiting byte encoding of sigblob Z Z (unary numbers), with a decoder that ignores whatever follows: an
   instance of the section hypotheses of pe_sign_then_verify / pe_resign_history (deser_padded, ser_bytes), to show they
   are consistent.  (A bound on the length of EVERY encoding, as an earlier version assumed, would not be.) *)
Definition encZ (z : Z) : bytes := (if z <? 0 then 2 else 1) :: repeat 3 (Z.abs_nat z) ++ [4].
Fixpoint count3 (l : bytes) : nat * bytes :=
  match l with
  | x :: r => if x =? 3 then (S (fst (count3 r)), snd (count3 r)) else (O, l)
  | [] => (O, [])
  end.
Definition decZ (l : bytes) : option (Z * bytes) :=
  match l with
  | s :: r => match snd (count3 r) with
              | t :: rest => if t =? 4 then Some ((if s =? 2 then - Z.of_nat (fst (count3 r)) else Z.of_nat (fst (count3 r))), rest) else None
              | [] => None
              end
  | [] => None
  end.
Fixpoint decN (n : nat) (l : bytes) : option (list Z * bytes) :=
  match n with
  | O => Some ([], l)
  | S k => match decZ l with
           | Some (x, r) => match decN k r with Some (xs, r') => Some (x :: xs, r') | None => None end
           | None => None
           end
  end.
Definition ex_ser (b : sigblob Z Z) : bytes :=
  encZ (sb_alg Z Z b) ++ encZ (sb_cert Z Z b) ++ encZ (sb_sig Z Z b) ++ encZ (zlen (sb_digest Z Z b)) ++ concat (map encZ (sb_digest Z Z b)).
Definition ex_deser (l : bytes) : option (sigblob Z Z) :=
  match decZ l with Some (a, r1) =>
  match decZ r1 with Some (c, r2) =>
  match decZ r2 with Some (s, r3) =>
  match decZ r3 with Some (n, r4) =>
  match decN (Z.to_nat n) r4 with Some (d, _) => Some (mkBlob Z Z a d c s) | None => None end
  | None => None end | None => None end | None => None end | None => None end.

Lemma count3_enc n rest : count3 (repeat 3 n ++ 4 :: rest) = (n, 4 :: rest).
Proof. induction n as [|n IH]; [reflexivity|]. cbn [repeat app count3]. rewrite IH. reflexivity. Qed.
Lemma decZ_enc z rest : decZ (encZ z ++ rest) = Some (z, rest).
Proof.
  unfold encZ, decZ. cbn [app]. rewrite <- app_assoc. cbn [app]. rewrite count3_enc. cbn [fst snd]. rewrite Z.eqb_refl.
  destruct (z <? 0) eqn:E; [apply Z.ltb_lt in E|apply Z.ltb_ge in E]; cbn [Z.eqb Pos.eqb]; do 2 f_equal; lia.
Qed.
Lemma decN_enc xs : forall rest, decN (length xs) (concat (map encZ xs) ++ rest) = Some (xs, rest).
Proof.
  induction xs as [|x xs IH]; intros rest; [reflexivity|].
  cbn [length map concat decN]. rewrite <- app_assoc, decZ_enc, IH. reflexivity.
Qed.
Lemma ex_deser_padded : forall b n, ex_deser (ex_ser b ++ zeros n) = Some b.
Proof.
  intros [a d c s] n. unfold ex_deser, ex_ser. cbn [sb_alg sb_digest sb_cert sb_sig].
  rewrite <- !app_assoc. rewrite !decZ_enc. unfold zlen. rewrite Nat2Z.id. rewrite decN_enc. reflexivity.
Qed.
Lemma all_bytes_encZ z : all_bytes (encZ z) = true.
Proof.
  unfold encZ. change (?x :: ?l ++ [4]) with ([x] ++ l ++ [4]). rewrite !all_bytes_app.
  replace (all_bytes (repeat 3 (Z.abs_nat z))) with true by (induction (Z.abs_nat z) as [|k IH]; [reflexivity|cbn; exact IH]).
  destruct (z <? 0); reflexivity.
Qed.
Lemma ex_ser_bytes : forall b, all_bytes (ex_ser b) = true.
Proof.
  intros b. unfold ex_ser. rewrite !all_bytes_app, !all_bytes_encZ. cbn [andb].
  induction (sb_digest Z Z b) as [|x l IH]; [reflexivity|]. cbn [map concat]. rewrite all_bytes_app, all_bytes_encZ. exact IH.
Qed.

(* key = certificate = Z, "signatures" that always verify, the identity as digest: all hypotheses of the Crypto section
   hold, the size premise holds for signing ex_pe with key 7 and algorithm 1, and signing succeeds *)
Definition ex_pre : bytes := match hashin ex_pe with Ok q => q | _ => [] end.
Lemma crypto_hypotheses_satisfiable :
  let H := fun (_ : Z) (m : bytes) => m in let pub := fun k : Z => k in let sign := fun (_ : Z) (_ : bytes) => 0 in
  let vrfy := fun (_ : Z) (_ : bytes) (_ : Z) => true in let tbs := fun (_ : Z) (d : bytes) => d in
  (forall k m, vrfy (pub k) m (sign k m) = true) /\
  (forall b n, ex_deser (ex_ser b ++ zeros n) = Some b) /\ (forall b, all_bytes (ex_ser b) = true) /\
  all_bytes ex_pe = true /\
  (forall pre, hashin ex_pe = Ok pre -> zlen (ex_ser (mksig Z Z Z pub sign tbs 7 1 (H 1 pre))) < 4294967296 - 40) /\
  exists g, (pre <- hashin ex_pe ;; embed ex_pe (ex_ser (mksig Z Z Z pub sign tbs 7 1 (H 1 pre)))) = Ok g.
Proof.
  cbv zeta. split; [reflexivity|]. split; [exact ex_deser_padded|]. split; [exact ex_ser_bytes|]. split; [vm_compute; reflexivity|].
  assert (E : hashin ex_pe = Ok ex_pre) by (vm_compute; reflexivity).
  split.
  - intros pre E'. assert (P : pre = ex_pre) by congruence. subst pre. vm_compute. reflexivity.
  - rewrite E. cbn [bind]. apply (embed_defined_hashin ex_pe _ ex_pre); [vm_compute; reflexivity|exact E|vm_compute; discriminate].
Qed.

(* ================================================================== C11: DigestPE never panics, on any byte string
   (after relic commits 53d79ae — optional header shorter than its magic — and 19efad9 — FileAlignment 0) *)
Lemma read_nt_no_panic f p : read_nt f <> Panic p.
Proof.
  unfold read_nt.
  repeat match goal with
         | |- (if ?c then _ else _) <> _ =>
             lazymatch c with
             | (_ <? pe_optmagic_len) => fail
             | _ => destruct c eqn:?; [discriminate|]
             end
         | |- (let _ := _ in _) <> _ => cbv zeta
         end.
  match goal with H : pe_opt_short ?n = false |- _ =>
    unfold pe_opt_short in H; replace (n <? pe_optmagic_len) with false by (change pe_optmagic_len with 2; lia) end.
  repeat match goal with
         | |- (if ?c then _ else _) <> _ => destruct c; try discriminate
         end.
Qed.
Lemma adjust_secs_no_panic : forall secs i nsec tblend falign soh p, adjust_secs secs i nsec tblend falign soh <> Panic p.
Proof.
  induction secs as [|[ptr size] r IH]; intros i nsec tblend falign soh p; cbn [adjust_secs]; [discriminate|].
  destruct (pe_rs_skip_empty size).
  - specialize (IH (i + 1) nsec tblend falign soh p). destruct (adjust_secs r (i + 1) nsec tblend falign soh); cbn [bind]; try discriminate. exact IH.
  - destruct (pe_sec_overlaps_table ptr tblend); [discriminate|].
    set (soh' := if pe_sec_before_hdr_end ptr soh && pe_hdr_shrinks_to_section then ptr else soh).
    destruct (pe_sec_not_last i nsec && pe_aligns_mid_sections);
      (specialize (IH (i + 1) nsec tblend falign soh' p); destruct (adjust_secs r (i + 1) nsec tblend falign soh'); cbn [bind]; try discriminate; exact IH).
Qed.
Lemma hash_secs_no_panic f : forall secs next p, hash_secs f secs next <> Panic p.
Proof.
  induction secs as [|[ptr size] r IH]; intros next p; cbn [hash_secs]; [discriminate|].
  destruct (pe_dg_skip_empty size); [apply IH|].
  destruct (pe_sec_not_contiguous ptr next); [discriminate|]. destruct (zlen f <? next + size); [discriminate|].
  match goal with |- context [hash_secs f r ?n] => specialize (IH n p); destruct (hash_secs f r n) end; cbn [bind]; try discriminate. exact IH.
Qed.
Lemma read_trailer_no_panic f last cs sz p : read_trailer f last cs sz <> Panic p.
Proof. unfold read_trailer. repeat match goal with |- (if ?c then _ else _) <> _ => destruct c; try discriminate end. Qed.
Theorem digest_pe_no_panic f p : digest_pe f <> Panic p.
Proof.
  unfold digest_pe. pose proof (read_nt_no_panic f p) as H1.
  destruct (read_nt f) as [hv| |]; cbn [bind]; try discriminate; [|intros X; apply H1; inversion X; reflexivity].
  cbv zeta. destruct (pe_table_overlaps_hdr _ _); [discriminate|]. destruct (zlen f <? _); [discriminate|].
  match goal with |- context [adjust_secs ?a ?b ?c ?d ?e ?g] => pose proof (adjust_secs_no_panic a b c d e g p) as H2; destruct (adjust_secs a b c d e g) as [adj| |] end;
    cbn [bind]; try discriminate; [|intros X; apply H2; inversion X; reflexivity].
  destruct (zlen f <? _); [discriminate|]. destruct (_ && _); [discriminate|].
  match goal with |- context [hash_secs f ?a ?b] => pose proof (hash_secs_no_panic f a b p) as H3; destruct (hash_secs f a b) as [hs| |] end;
    cbn [bind]; try discriminate; [|intros X; apply H3; inversion X; reflexivity].
  match goal with |- context [read_trailer f ?a ?b ?c] => pose proof (read_trailer_no_panic f a b c p) as H4; destruct (read_trailer f a b c) as [tr| |] end;
    cbn [bind]; try discriminate. intros X; apply H4; inversion X; reflexivity.
Qed.
