(* FmtPE/Model.v — executable byte-level model of relic's PE/COFF Authenticode code, and the independent specification side.

   Faithful model (constants, offsets, widths and branch conditions come from Generated/FmtPE_gen.v):
     read_nt       readDosHeader + readCoffHeader + readOptHeader   (lib/authenticode/pedigest.go; used by DigestPE and, via
                   findSignatures, by VerifyPE)
     digest_pe     DigestPE without page hashes: readSections, the section loop, readTrailer, 8-byte padding
     make_patch    PEDigest.MakePatch                                 (pesign.go)
     fix_checksum  FixPEChecksum / peChecksum.Write / Sum             (checksum.go)
     extract_all   VerifyPE up to and including the certificate-table walk of checkSignatures (peverify.go)
     hashin / embed / extract : the three functions of Laws/Pipeline.v
   The patch is applied with the C12 model of lib/binpatch (C12.Model.add_all / rewrite).

   Specification side (written from "Microsoft PE and COFF Specification" and "Windows Authenticode Portable Executable
   Signature Format", not from relic): sp_* field readers, spec_hashin (the document's hash algorithm, literally),
   spec_contig (the layout class that algorithm presupposes), spec_checksum, payload / protected.

   Definitions only. *)
From Relic Require Import Base.Prelude Base.Enc Generated.FmtPE_gen C12.Model.

(* ------------------------------------------------------------------ error classes (shared with the harness) *)
Definition E_EOF := 1.        (* io.EOF / io.ErrUnexpectedEOF out of ReadFull, CopyN, binary.Read *)
Definition E_NOTPE := 2.      (* "not a PE file" *)
Definition E_MAGIC := 3.      (* "unrecognized optional header magic" *)
Definition E_NOROOM := 4.     (* "PE header did not leave room for signature" *)
Definition E_TBLOVER := 5.    (* "PE section overlaps section table" *)
Definition E_SECOVER := 6.    (* "PE section %d at 0x%x overlaps section table at 0x%x" *)
Definition E_BEGINS := 7.     (* "PE section %d begins at 0x%x but expected 0x%x" *)
Definition E_GAPREAD := 8.    (* "failed to read data between header and first PE section" *)
Definition E_SIGOVER := 9.    (* "existing signature overlaps with PE sections" *)
Definition E_TRAILING := 10.  (* "trailing garbage after existing certificate" *)
Definition E_TOOBIG := 11.    (* "PE file is too big" *)
Definition E_BADTABLE := 12.  (* "invalid certificate table" *)
Definition E_LFANEW := 14.    (* "unsupported PE file: NT headers overlap the DOS header" *)
Definition E_OPTSHORT := 15.  (* "PE optional header is too short" (relic commit 53d79ae; a slice panic before it) *)
Definition E_PATCH := 100.    (* binpatch refused (cannot happen on patches built by make_patch; kept for totality) *)
Definition P_SLICE := 1.      (* Go panic: slice bounds out of range (buf[:2] on a shorter optional header) *)
Definition P_DIV0 := 2.       (* Go panic: integer divide by zero (align32 with FileAlignment = 0) *)

(* ------------------------------------------------------------------ byte access *)
(* slicing that stays cheap when an offset read from a hostile header is astronomically large (the extracted code is
   strict and Z.to_nat is unary); Proofs.v shows zsl = zslice, ztk = ztake, zdp = zdrop *)
Definition zsl (a b : Z) (f : bytes) : bytes := zslice (Z.min a (zlen f)) (Z.min b (zlen f)) f.
Definition ztk (n : Z) (f : bytes) : bytes := ztake (Z.min n (zlen f)) f.
Definition zdp (n : Z) (f : bytes) : bytes := zdrop (Z.min n (zlen f)) f.
Definition byte_at (f : bytes) (i : Z) : Z := if i <? zlen f then nth (Z.to_nat i) f 0 else 0.
Definition u16 (f : bytes) (off : Z) : Z := le_dec (zsl off (off + 2) f).
Definition u32 (f : bytes) (off : Z) : Z := le_dec (zsl off (off + 4) f).
Definition zeros (n : Z) : bytes := repeat 0 (Z.to_nat n).
Definition wrap32 (n : Z) : Z := n mod 4294967296.

(* field offsets of debug/pe's FileHeader, OptionalHeader32/64 and SectionHeader32 (Go standard library structs that
   relic decodes with encoding/binary; they coincide with the PE/COFF specification) *)
Definition coff_off_machine := 0.
Definition coff_off_nsec := 2.
Definition coff_off_optsize := 16.
Definition opt_off_filealign := 36.
Definition opt_off_sizeofheaders := 60.
Definition opt_off_numrva32 := 92.
Definition opt_off_numrva64 := 108.
Definition opt32_size := 224.
Definition opt64_size := 240.
Definition sec_off_rawsize := 16.
Definition sec_off_rawptr := 20.
Definition dd_off_size := 4.          (* pe.DataDirectory: VirtualAddress uint32, Size uint32 *)

(* ------------------------------------------------------------------ readDosHeader / readCoffHeader / readOptHeader *)
Record hvals := mkHv {
  hv_pe : Z;          (* peStart: e_lfanew *)
  hv_nsec : Z;        (* FileHeader.NumberOfSections *)
  hv_optsize : Z;     (* FileHeader.SizeOfOptionalHeader *)
  hv_dd4 : Z;         (* dd4Start: offset of data directory entry 4 inside the optional header *)
  hv_posdd : Z;       (* posDDCert *)
  hv_sectbl : Z;      (* secTblStart *)
  hv_soh : Z;         (* sizeOfHdr as read (SizeOfHeaders) *)
  hv_falign : Z;      (* fileAlign *)
  hv_page : Z;        (* pageSize *)
  hv_certstart : Z;   (* certStart: directory entry 4, address *)
  hv_certsize : Z     (* certSize: directory entry 4, size *)
}.

Definition opt_of (pe : Z) : Z := pe + pe_nt_magic_len + pe_coff_len.

(* DigestPE reads the file as a stream (so everything before the NT headers has to exist); findSignatures seeks to
   e_lfanew.  Both end up at the same position since e_lfanew < 64 is refused. *)
Definition read_nt (f : bytes) : result hvals :=
  if zlen f <? pe_dos_read_len then Err E_EOF else
  if pe_dos_bad_magic (byte_at f 0) (byte_at f 1) then Err E_NOTPE else
  let pe := u32 f pe_lfanew_off in
  if pe_lfanew_overlaps_dos pe then Err E_LFANEW else
  if zlen f <? pe_dos_read_len + pe_dos_stub_len pe then Err E_EOF else
  if zlen f <? pe + pe_nt_magic_len then Err E_EOF else
  if pe_nt_bad_magic (byte_at f pe) (byte_at f (pe + 1)) (byte_at f (pe + 2)) (byte_at f (pe + 3)) then Err E_NOTPE else
  let coff := pe + pe_nt_magic_len in
  if zlen f <? coff + pe_coff_len then Err E_EOF else
  let machine := u16 f (coff + coff_off_machine) in
  let nsec := u16 f (coff + coff_off_nsec) in
  let optsize := u16 f (coff + coff_off_optsize) in
  let opt := coff + pe_coff_len in
  if zlen f <? opt + optsize then Err E_EOF else
  if pe_opt_short optsize then Err E_OPTSHORT else
  if optsize <? pe_optmagic_len then Panic P_SLICE else   (* buf[:2]: excluded by the guard above *)
  let magic := u16 f opt in
  let page := if existsb (Z.eqb machine) pe_page_machines then pe_page_size_listed else pe_page_size_default in
  let finish (dd4 : Z) :=
    Ok (mkHv pe nsec optsize dd4 (pe_pos_ddcert pe dd4) (pe_sectbl_start pe optsize)
             (u32 f (opt + opt_off_sizeofheaders)) (u32 f (opt + opt_off_filealign)) page
             (u32 f (opt + dd4)) (u32 f (opt + dd4 + dd_off_size))) in
  if magic =? pe_magic_pe32 then
    if optsize <? opt32_size then Err E_EOF else
    if pe_no_room_32 (u32 f (opt + opt_off_numrva32)) then Err E_NOROOM else finish pe_dd4_start_32
  else if magic =? pe_magic_pe32plus then
    if optsize <? opt64_size then Err E_EOF else
    if pe_no_room_64 (u32 f (opt + opt_off_numrva64)) then Err E_NOROOM else finish pe_dd4_start_64
  else Err E_MAGIC.

(* ------------------------------------------------------------------ readSections *)
Definition sec_entry (f : bytes) (tbl i : Z) : Z * Z :=      (* (PointerToRawData, SizeOfRawData) of table entry i *)
  (u32 f (tbl + pe_sectbl_size i + sec_off_rawptr), u32 f (tbl + pe_sectbl_size i + sec_off_rawsize)).
Fixpoint read_secs (f : bytes) (tbl : Z) (n : nat) (i : Z) : list (Z * Z) :=
  match n with
  | O => []
  | S n' => sec_entry f tbl i :: read_secs f tbl n' (i + 1)
  end.

Definition align32 (addr align : Z) : Z :=
  if pe_align_zero align then addr else
  let n := pe_align_rem addr align in
  if pe_align_needed n then (if pe_align_adds then wrap32 (addr + (align - n)) else addr) else addr.

(* the loop of readSections: overlap check, SizeOfHeaders lowered to the first section that starts before it, raw sizes
   of all but the last table entry rounded up to FileAlignment.  Returns the adjusted table and the final sizeOfHdr. *)
Fixpoint adjust_secs (secs : list (Z * Z)) (i nsec tblend falign soh : Z) : result (list (Z * Z) * Z) :=
  match secs with
  | [] => Ok ([], soh)
  | (ptr, size) :: r =>
      if pe_rs_skip_empty size then
        x <- adjust_secs r (i + 1) nsec tblend falign soh ;; Ok ((ptr, size) :: fst x, snd x)
      else if pe_sec_overlaps_table ptr tblend then Err E_SECOVER
      else
        let soh' := if pe_sec_before_hdr_end ptr soh && pe_hdr_shrinks_to_section then ptr else soh in
        if pe_sec_not_last i nsec && pe_aligns_mid_sections then
          x <- adjust_secs r (i + 1) nsec tblend falign soh' ;; Ok ((ptr, align32 size falign) :: fst x, snd x)
        else
          x <- adjust_secs r (i + 1) nsec tblend falign soh' ;; Ok ((ptr, size) :: fst x, snd x)
  end.

(* ------------------------------------------------------------------ the section loop of DigestPE *)
(* returns the final nextSection and the bytes fed to the digest *)
Fixpoint hash_secs (f : bytes) (secs : list (Z * Z)) (next : Z) : result (Z * bytes) :=
  match secs with
  | [] => Ok (next, [])
  | (ptr, size) :: r =>
      if pe_dg_skip_empty size then hash_secs f r next
      else if pe_sec_not_contiguous ptr next then Err E_BEGINS
      else if zlen f <? next + size then Err E_EOF
      else x <- hash_secs f r (if pe_next_advances then next + size else next) ;;
           Ok (fst x, zslice next (next + size) f ++ snd x)
  end.

(* ------------------------------------------------------------------ readTrailer: returns origSize and the hashed bytes *)
Definition read_trailer (f : bytes) (last certstart certsize : Z) : result (Z * bytes) :=
  if pe_tr_unsigned certsize then
    Ok (pe_tr_orig_unsigned last (zlen f - last), zdrop last f)
  else if pe_tr_sig_overlaps certstart last then Err E_SIGOVER
  else if zlen f <? last + pe_tr_before_cert certstart last then Err E_EOF
  else if zlen f <? certstart + certsize then Err E_EOF
  else if pe_tr_garbage (zlen f - (certstart + certsize)) then Err E_TRAILING
  else Ok (pe_tr_orig_signed certstart, zslice last certstart f).

(* ------------------------------------------------------------------ DigestPE *)
Record dg := mkDg {
  dg_orig : Z;        (* PEDigest.OrigSize *)
  dg_certstart : Z;   (* PEDigest.CertStart *)
  dg_posdd : Z;       (* markers.posDDCert *)
  dg_oldsize : Z;     (* markers.certSize *)
  dg_pre : bytes      (* every byte written to imageDigest, in order *)
}.

(* the header buffer: DOS header, stub, signature, COFF header, optional header minus the two excluded fields,
   section table, padding up to sizeOfHdr — in the order the reads happen *)
Definition header_pieces (f : bytes) (hv : hvals) (soh : Z) : list bytes :=
  let pe := hv_pe hv in
  let coff := pe + pe_nt_magic_len in
  let opt := coff + pe_coff_len in
  let tbl := opt + hv_optsize hv in
  let tblend := tbl + pe_sectbl_size (hv_nsec hv) in
  [ zslice 0 pe_dos_read_len f;
    zslice pe_dos_read_len (pe_dos_read_len + pe_dos_stub_len pe) f;
    zslice pe coff f;
    zslice coff opt f;
    (if pe_hashes_before_cksum then zslice opt (opt + pe_cksum_start) f else []);
    (if pe_hashes_between then zslice (opt + pe_cksum_end pe_cksum_start) (opt + hv_dd4 hv) f else []);
    (if pe_hashes_after_dd4 then zslice (opt + pe_dd4_end (hv_dd4 hv)) tbl f else []);
    zslice tbl tblend f;
    zslice tblend (tblend + pe_hdr_padding_len soh tblend) f ].

Definition digest_pe (f : bytes) : result dg :=
  hv <- read_nt f ;;
  let tblend := pe_sectbl_end (hv_sectbl hv) (pe_sectbl_size (hv_nsec hv)) in
  if pe_table_overlaps_hdr tblend (hv_soh hv) then Err E_TBLOVER else
  if zlen f <? tblend then Err E_EOF else
  adj <- adjust_secs (read_secs f (hv_sectbl hv) (Z.to_nat (hv_nsec hv)) 0) 0 (hv_nsec hv) tblend (hv_falign hv) (hv_soh hv) ;;
  let secs := fst adj in
  let soh := snd adj in
  if zlen f <? tblend + pe_hdr_padding_len soh tblend then Err E_EOF else
  let hdr := concat (header_pieces f hv soh) in
  let ptr0 := match secs with (p, _) :: _ => p | [] => 0 end in
  let gap := pe_has_gap (hv_nsec hv) ptr0 soh in
  if gap && (zlen f <? soh + pe_gap_len ptr0 soh) then Err E_GAPREAD else
  let next := if gap then ptr0 else soh in
  let gapbytes := if gap then zslice soh (soh + pe_gap_len ptr0 soh) f else [] in
  hs <- hash_secs f secs next ;;
  tr <- read_trailer f (fst hs) (hv_certstart hv) (hv_certsize hv) ;;
  let orig := fst tr in
  let n := pe_pad_rem orig in
  let pad := if pe_pad_needed n then pe_pad_len n else 0 in
  Ok (mkDg orig (if pe_certstart_padded then orig + pad else orig) (hv_posdd hv) (hv_certsize hv)
           (hdr ++ gapbytes ++ snd hs ++ snd tr ++ (if pe_hashes_padding then zeros pad else []))).

(* ------------------------------------------------------------------ MakePatch *)
Definition cert_table (d : dg) (sig : bytes) : bytes :=
  let padded := pe_mp_padded (zlen sig) in
  let pad2 := pe_mp_pad2 (dg_certstart d) (dg_orig d) in
  (if pe_mp_has_pad2 pad2 then zeros pad2 else []) ++
  le_enc (Z.to_nat pe_certinfo_w_Length) (pe_mp_length padded) ++
  le_enc (Z.to_nat pe_certinfo_w_Revision) pe_mp_revision ++
  le_enc (Z.to_nat pe_certinfo_w_CertificateType) pe_mp_certtype ++
  sig ++ zeros (pe_mp_sig_pad padded (zlen sig)).
Definition dd_entry (d : dg) (sig : bytes) : bytes :=
  let pad2 := pe_mp_pad2 (dg_certstart d) (dg_orig d) in
  le_enc 4 (pe_mp_dd_va (dg_certstart d)) ++ le_enc 4 (wrap32 (pe_mp_dd_size (zlen (cert_table d sig)) pad2)).
Definition make_patch (d : dg) (sig : bytes) : result (list call) :=
  if pe_mp_too_big (dg_certstart d) then Err E_TOOBIG else
  Ok [ mkCall (pe_mp_patch1_off (dg_posdd d)) pe_mp_patch1_old (dd_entry d sig);
       mkCall (pe_mp_patch2_off (dg_orig d)) (pe_mp_patch2_old (dg_oldsize d)) (cert_table d sig) ].

(* binpatch: PatchSet.Add for every call, then Apply (C12 proves in-place application equal to this rewrite) *)
Definition apply_patch (cs : list call) (f : bytes) : result bytes :=
  match rewrite (add_all cs) f with
  | Ok g => Ok g
  | Err e => Err (E_PATCH + e)
  | Panic e => Panic e
  end.

(* ------------------------------------------------------------------ FixPEChecksum *)
(* peChecksum.Write over the whole file: 16-bit little-endian words, the two words at cksumPos count as zero, an odd
   final byte is zero-extended.  io.Copy delivers the file in 32 KiB writes; with the absolute position kept in h.pos
   the result does not depend on the (even) write boundaries, so the model folds over the file once. *)
Fixpoint ck_words (d : bytes) (i cksum_pos sum : Z) : Z :=
  match d with
  | lo :: hi :: r =>
      let val := if pe_ck_is_field_word (pe_ck_abs 0 i) cksum_pos then 0 else pe_ck_word hi lo in
      ck_words r (i + 2) cksum_pos (pe_ck_fold (if pe_ck_adds_word then wrap32 (sum + val) else sum))
  | [lo] =>
      let val := if pe_ck_is_field_word (pe_ck_abs 0 i) cksum_pos then 0 else pe_ck_word 0 lo in
      pe_ck_fold (if pe_ck_adds_word then wrap32 (sum + val) else sum)
  | [] => sum
  end.
Definition pe_checksum (pe : Z) (g : bytes) : Z :=
  let cksum_pos := if pe_ck_no_field pe then pe_ck_pos_none else pe_ck_pos pe in
  let sum := ck_words g 0 cksum_pos 0 in
  let size := if pe_ck_counts_len then wrap32 (zlen g) else 0 in
  wrap32 (pe_ck_final_fold sum + (if pe_ck_adds_size then size else 0)).
Definition fix_checksum (g : bytes) : result bytes :=
  if zlen g <? pe_dos_read_len then Err E_EOF else
  if pe_dos_bad_magic (byte_at g 0) (byte_at g 1) then Err E_NOTPE else
  let pe := u32 g pe_lfanew_off in
  if pe_lfanew_overlaps_dos pe then Err E_LFANEW else
  Ok (write_at g (pe_fix_write_off pe) (le_enc 4 (pe_checksum pe g))).

(* ------------------------------------------------------------------ sign-side pipeline: hashin / embed *)
Definition hashin (f : bytes) : result bytes := d <- digest_pe f ;; Ok (dg_pre d).
Definition embed (f sig : bytes) : result bytes :=
  d <- digest_pe f ;;
  cs <- make_patch d sig ;;
  g <- apply_patch cs f ;;
  fix_checksum g.

(* ------------------------------------------------------------------ VerifyPE: locating and walking the certificate table *)
(* the loop of checkSignatures without the per-entry PKCS#7 work: entries split off so far, and 0 or E_BADTABLE *)
Fixpoint walk_table (fuel : nat) (blob : bytes) : list bytes * Z :=
  match fuel with
  | O => ([], 0)
  | S k =>
      if negb (pe_cs_more (zlen blob)) then ([], 0) else
      if pe_cs_short (zlen blob) then ([], E_BADTABLE) else
      let wlen := le_dec (ztake pe_cs_wlen_len blob) in
      let e_end := pe_cs_end wlen in
      let e_size := pe_cs_size wlen in
      if pe_cs_invalid e_end e_size (zlen blob) then ([], E_BADTABLE) else
      let r := walk_table k (zdrop (pe_cs_rest_lo e_end) blob) in
      (zslice pe_cs_cert_lo (pe_cs_cert_hi e_size) blob :: fst r, snd r)
  end.

(* None: not signed (NotSignedError) *)
Definition find_table (g : bytes) : result (option bytes) :=
  hv <- read_nt g ;;
  if pe_vf_not_signed (hv_certsize hv) then Ok None else
  if zlen g <? hv_certstart hv + hv_certsize hv then Err E_EOF else
  Ok (Some (zslice (hv_certstart hv) (hv_certstart hv + hv_certsize hv) g)).
Definition extract_all (g : bytes) : result (option (list bytes)) :=
  t <- find_table g ;;
  match t with
  | None => Ok None
  | Some blob => let w := walk_table (S (length blob)) blob in
                 if snd w =? 0 then Ok (Some (fst w)) else Err (snd w)
  end.
(* the single-blob view used by the pipeline laws: the first entry (relic's MakePatch always writes exactly one) *)
Definition extract (g : bytes) : result (option bytes) :=
  a <- extract_all g ;;
  match a with
  | None => Ok None
  | Some [] => Err E_BADTABLE          (* unreachable: a non-empty table yields an entry or an error *)
  | Some (b :: _) => Ok (Some b)
  end.

(* what MakePatch's zero padding turns a blob into; this is what the verifier hands to the PKCS#7 parser *)
Definition pad8 (b : bytes) : bytes := b ++ zeros (pe_mp_padded (zlen b) - zlen b).

(* ================================================================== specification side ============================== *)
(* PE/COFF specification: offsets *)
Definition sp_lfanew (f : bytes) : Z := u32 f 60.                         (* e_lfanew at 0x3c *)
Definition sp_opt (f : bytes) : Z := sp_lfanew f + 4 + 20.                 (* signature, COFF file header *)
Definition sp_magic (f : bytes) : Z := u16 f (sp_opt f).
Definition sp_plus (f : bytes) : bool := sp_magic f =? 523.                (* 0x20b PE32+, 0x10b PE32 *)
Definition sp_cksum (f : bytes) : Z := sp_opt f + 64.                      (* CheckSum *)
Definition sp_numrva (f : bytes) : Z := u32 f (sp_opt f + (if sp_plus f then 108 else 92)).
Definition sp_ddir (f : bytes) : Z := sp_opt f + (if sp_plus f then 112 else 96).
Definition sp_dd4 (f : bytes) : Z := sp_ddir f + 8 * 4.                    (* IMAGE_DIRECTORY_ENTRY_SECURITY *)
Definition sp_soh (f : bytes) : Z := u32 f (sp_opt f + 60).                (* SizeOfHeaders *)
Definition sp_nsec (f : bytes) : Z := u16 f (sp_lfanew f + 4 + 2).
Definition sp_optsize (f : bytes) : Z := u16 f (sp_lfanew f + 4 + 16).
Definition sp_sectbl (f : bytes) : Z := sp_opt f + sp_optsize f.
Definition sp_sec (f : bytes) (i : Z) : Z * Z :=                          (* (PointerToRawData, SizeOfRawData) *)
  (u32 f (sp_sectbl f + 40 * i + 20), u32 f (sp_sectbl f + 40 * i + 16)).
Definition sp_secs (f : bytes) : list (Z * Z) :=
  map (fun i => sp_sec f (Z.of_nat i)) (seq 0 (Z.to_nat (sp_nsec f))).
Definition sp_cert_va (f : bytes) : Z := u32 f (sp_dd4 f).
Definition sp_cert_size (f : bytes) : Z := u32 f (sp_dd4 f + 4).

(* is this an image the two specifications talk about at all *)
Definition spec_wf (f : bytes) : bool :=
  (64 <=? zlen f) && (byte_at f 0 =? 77) && (byte_at f 1 =? 90) &&
  (sp_opt f + sp_optsize f <=? zlen f) &&
  (byte_at f (sp_lfanew f) =? 80) && (byte_at f (sp_lfanew f + 1) =? 69) &&
  (byte_at f (sp_lfanew f + 2) =? 0) && (byte_at f (sp_lfanew f + 3) =? 0) &&
  ((sp_magic f =? 267) || (sp_magic f =? 523)) &&
  (5 <=? sp_numrva f) && (sp_dd4 f + 8 <=? sp_sectbl f) &&
  (sp_sectbl f + 40 * sp_nsec f <=? sp_soh f) && (sp_soh f <=? zlen f).

(* Authenticode, "Calculating the PE Image Hash", steps 9–13: sections with SizeOfRawData <> 0, sorted by PointerToRawData *)
Fixpoint sp_insert (s : Z * Z) (l : list (Z * Z)) : list (Z * Z) :=
  match l with
  | [] => [s]
  | t :: r => if fst t <? fst s then t :: sp_insert s r else s :: l
  end.
Definition sp_sorted (f : bytes) : list (Z * Z) :=
  fold_right sp_insert [] (filter (fun s => negb (snd s =? 0)) (sp_secs f)).
Definition sp_sum (f : bytes) : Z := fold_left (fun a s => a + snd s) (sp_sorted f) (sp_soh f).   (* SUM_OF_BYTES_HASHED *)

(* the algorithm, literally (steps 3, 5, 7, 11–13, 14) *)
Definition spec_hashin (f : bytes) : bytes :=
  zsl 0 (sp_cksum f) f ++
  zsl (sp_cksum f + 4) (sp_dd4 f) f ++
  zsl (sp_dd4 f + 8) (sp_soh f) f ++
  concat (map (fun s => zsl (fst s) (fst s + snd s) f) (sp_sorted f)) ++
  (if zlen f >? sp_sum f then zsl (sp_sum f) (sp_sum f + (zlen f - sp_cert_size f - sp_sum f)) f else []).

(* the layout that algorithm presupposes: the sorted sections tile the file from SizeOfHeaders on, and the attribute
   certificate table, if any, is the tail of the file *)
Fixpoint sp_tiles (l : list (Z * Z)) (pos : Z) : bool :=
  match l with
  | [] => true
  | s :: r => (fst s =? pos) && sp_tiles r (pos + snd s)
  end.
Definition spec_contig (f : bytes) : bool :=
  sp_tiles (sp_sorted f) (sp_soh f) && (sp_sum f <=? zlen f) &&
  ((sp_cert_size f =? 0) || ((sp_sum f <=? sp_cert_va f) && (sp_cert_va f + sp_cert_size f =? zlen f))).

(* where the part of the file that is not signature ends *)
Definition sp_payload_end (f : bytes) : Z := if sp_cert_size f =? 0 then zlen f else sp_cert_va f.

(* the three regions the Authenticode document excludes from the hash; everything else is protected *)
Definition mask_fields (f : bytes) (ck dd : Z) : bytes :=
  ztk ck f ++ zeros 4 ++ zsl (ck + 4) dd f ++ zeros 8 ++ zdp (dd + 8) f.
Definition protected (f : bytes) : bytes :=
  mask_fields (ztk (sp_payload_end f) f) (sp_cksum f) (sp_dd4 f).
Definition pad_to8 (l : bytes) : bytes := l ++ zeros ((8 - zlen l mod 8) mod 8).

(* the independent reader's view used for C03: the image without checksum, directory entry and certificate table, brought
   to the 8-byte boundary the certificate table has to start on (the section table is part of it; sp_secs reads it) *)
Definition payload_view (f : bytes) : bytes := pad_to8 (protected f).
Definition payload (f : bytes) : result bytes := Ok (payload_view f).
Definition sp_section_data (f : bytes) (s : Z * Z) : bytes := zsl (fst s) (fst s + snd s) f.

(* optional-header checksum (ImageHlp CheckSumMappedFile): sum of the 16-bit little-endian words of the file with the
   CheckSum field read as zero and an odd last byte zero-extended, folded with end-around carry, plus the file length *)
Fixpoint sp_words (l : bytes) : list Z :=
  match l with
  | lo :: hi :: r => (lo + 256 * hi) :: sp_words r
  | [lo] => [lo]
  | [] => []
  end.
Definition sp_fold16 (s : Z) : Z := s mod 65536 + s / 65536.
Definition sp_add16 (a w : Z) : Z := sp_fold16 (a + w).
Definition spec_checksum (f : bytes) : Z :=
  let z := ztk (sp_cksum f) f ++ zeros 4 ++ zdp (sp_cksum f + 4) f in
  (sp_fold16 (fold_left sp_add16 (sp_words z) 0) + zlen f) mod 4294967296.

(* ------------------------------------------------------------------ the class of images relic's DigestPE accepts (domain of the
   acceptance theorem): a well-formed image whose non-empty sections, IN SECTION-TABLE ORDER, tile the file from SizeOfHeaders
   on, every non-empty section but the last table entry having a raw size that is a multiple of a non-zero FileAlignment;
   NT headers behind the DOS header; a full-size optional header (debug/pe's structs are decoded whole); the first table
   entry not pointing behind the headers when it is empty; the certificate table, if any, the tail of the file *)
Definition sp_falign (f : bytes) : Z := u32 f (sp_opt f + 36).               (* FileAlignment *)
Fixpoint tiles_tbl (secs : list (Z * Z)) (i nsec falign pos : Z) : option Z :=   (* Some end-of-sections *)
  match secs with
  | [] => Some pos
  | (ptr, size) :: r =>
      if size =? 0 then tiles_tbl r (i + 1) nsec falign pos
      else if (ptr =? pos) && ((nsec - 1 <=? i) || (negb (falign =? 0) && (Z.rem size falign =? 0)))
           then tiles_tbl r (i + 1) nsec falign (pos + size) else None
  end.
Definition relic_dom (f : bytes) : bool :=
  spec_wf f && (64 <=? sp_lfanew f) && ((if sp_plus f then 240 else 224) <=? sp_optsize f) &&
  ((sp_nsec f =? 0) || (fst (sp_sec f 0) <=? sp_soh f)) &&
  match tiles_tbl (sp_secs f) 0 (sp_nsec f) (sp_falign f) (sp_soh f) with
  | Some e => (e <=? zlen f) &&
              ((sp_cert_size f =? 0) || ((e <=? sp_cert_va f) && (sp_cert_va f + sp_cert_size f =? zlen f)))
  | None => false
  end.
