(* FmtPE/Properties.v — property theorems only, for the PE/COFF Authenticode format module (lib/authenticode pedigest / pesign /
   peverify / checksum).  Each is closed by a lemma of FmtPE/Proofs.v or FmtPE/ProofsB.v.  The functions are those of
   FmtPE/Model.v: hashin / embed / extract (relic's DigestPE, MakePatch + binpatch + FixPEChecksum, VerifyPE up to the
   certificate-table walk) and the specification side sp_*, spec_hashin, spec_contig, spec_checksum, protected, payload.
   Grouped by the property served (C01 C08 C03 C02 C05); checks/fmtpe.py ASPECT_THEOREMS carries the same table. *)
From Relic Require Import Base.Prelude Base.Enc Generated.FmtPE_gen C12.Model FmtPE.Model FmtPE.Proofs FmtPE.ProofsB Laws.Pipeline.

(* ====================================================================================================== C01 *)
(* C01 (L1, law_extract): the verifier finds exactly one entry in the output of embed: the blob, zero padded to the 8-byte
   boundary MakePatch pads to (pkcs7.Unmarshal ignores the padding) *)
Theorem pe_law_extract : forall f sig g,
  all_bytes f = true -> zlen sig < 4294967296 - 24 -> embed f sig = Ok g ->
  extract_all g = Ok (Some [pad8 sig]) /\ extract g = Ok (Some (pad8 sig)).
Proof. exact FmtPE.Proofs.law_extract_pe. Qed.

(* C01 (L1 literally): on blobs whose length is a multiple of 8 the verifier finds the blob itself *)
Theorem pe_law_extract_aligned : forall f b g,
  all_bytes f = true -> all_bytes b = true -> zlen b < 4294967296 - 32 -> zlen b mod 8 = 0 ->
  embed f b = Ok g -> extract g = Ok (Some b).
Proof. exact FmtPE.ProofsB.law_extract_aligned_pe. Qed.

(* C01 / C08 (L2, law_hashin): the digest input of the signed file is the digest input of the file: DigestPE skips the
   certificate table, the directory entry and the checksum that signing has just written *)
Theorem pe_law_hashin : forall f sig g,
  all_bytes f = true -> zlen sig < 4294967296 - 24 -> embed f sig = Ok g -> hashin g = hashin f.
Proof. exact FmtPE.Proofs.law_hashin_pe. Qed.

(* C01 / C03 / C08: the three laws of Laws/Pipeline.v for the format (embed restricted to byte strings and 8-aligned blobs
   below 4 GiB: pe_format, FmtPE/Proofs.v) *)
Theorem pe_format_laws :
  law_extract bytes pe_format /\ law_hashin bytes pe_format /\ law_payload bytes pe_format.
Proof. exact (conj FmtPE.Proofs.pe_L1 (conj FmtPE.Proofs.pe_L2 FmtPE.Proofs.pe_L3)). Qed.

Section Crypto.
  (* symbolic cryptography and CMS encoding, as in Laws/Pipeline.v; pkcs7.Unmarshal ignores trailing zero bytes *)
  Variables key pubk sigv : Type.
  Variable H : Z -> bytes -> bytes.
  Variable pub : key -> pubk.
  Variable sign : key -> bytes -> sigv.
  Variable vrfy : pubk -> bytes -> sigv -> bool.
  Hypothesis sign_correct : forall k m, vrfy (pub k) m (sign k m) = true.
  Variable tbs : Z -> bytes -> bytes.
  Variable ser0 : sigblob pubk sigv -> bytes.
  Variable deser0 : bytes -> option (sigblob pubk sigv).
  Hypothesis deser_padded : forall b n, deser0 (ser0 b ++ zeros n) = Some b.
  Hypothesis ser_bytes : forall b, all_bytes (ser0 b) = true.

  (* C01 (sign_then_verify instantiated): whatever relic signs — digest of the input, SignedData for it embedded by
     MakePatch — is accepted by the verifier under the signing key's certificate and the requested digest algorithm.
     The only premise besides the symbolic crypto: the SignedData fits a certificate table (< 4 GiB) *)
  Theorem pe_sign_then_verify : forall k a f g,
    all_bytes f = true ->
    (forall pre, hashin f = Ok pre -> zlen (ser0 (mksig key pubk sigv pub sign tbs k a (H a pre))) < 4294967296 - 40) ->
    (pre <- hashin f ;; embed f (ser0 (mksig key pubk sigv pub sign tbs k a (H a pre)))) = Ok g ->
    verify_file pubk sigv H vrfy tbs deser0 bytes pe_format g = Accept pubk (pub k) a.
  Proof. exact (FmtPE.Proofs.sign_then_verify_pe key pubk sigv H pub sign vrfy sign_correct tbs ser0 deser0 deser_padded ser_bytes). Qed.

  (* C08 (resign_history instantiated): after any history of signing and re-signing the file verifies under the LAST key,
     is signed, and has the payload and the digest input of the original *)
  Theorem pe_resign_history : forall hist f g k a,
    all_bytes f = true ->
    (forall pre k' a', hashin f = Ok pre -> In (k', a') (hist ++ [(k, a)]) ->
       zlen (ser0 (mksig key pubk sigv pub sign tbs k' a' (H a' pre))) < 4294967296 - 40) ->
    resign_pe key pubk sigv H pub sign tbs ser0 (hist ++ [(k, a)]) f = Ok g ->
    verify_file pubk sigv H vrfy tbs deser0 bytes pe_format g = Accept pubk (pub k) a /\
    is_signed bytes pe_format g = true /\ payload g = payload f /\ hashin g = hashin f.
  Proof. exact (FmtPE.Proofs.resign_history_pe key pubk sigv H pub sign vrfy sign_correct tbs ser0 deser0 deser_padded ser_bytes). Qed.

  (* C02 (tamper_rejected_preimage + pe_protect): under the symbolic idealisation (unforgeable signatures, collision-free
     digest), a file accepted under k's certificate has the protected bytes of the file k signed *)
  Variable issued : key -> Z -> bytes -> Prop.
  Hypothesis unforgeable : forall k a d s, vrfy (pub k) (tbs a d) s = true -> issued k a d.
  Theorem pe_tamper_rejected : forall g g' k a pre,
    all_bytes g = true -> all_bytes g' = true ->
    (forall d, issued k a d -> d = H a pre) -> (forall x y, H a x = H a y -> x = y) ->
    hashin g = Ok pre -> verify_file pubk sigv H vrfy tbs deser0 bytes pe_format g' = Accept pubk (pub k) a ->
    pad_to8 (protected g') = pad_to8 (protected g).
  Proof. exact (FmtPE.Proofs.tamper_rejected_pe key pubk sigv H pub vrfy tbs deser0 issued unforgeable). Qed.
End Crypto.

(* C01 (refusals): (1) whatever DigestPE refuses is not signed (embed returns no file; the harness checks the input is left
   untouched); (2) the only refusal after an accepted digest is the 4 GiB limit of MakePatch; (3) the refusal class of
   DigestPE, contraposed: an accepted file has MZ, e_lfanew >= 64, "PE\0\0", a PE32/PE32+ magic, NumberOfRvaAndSizes >= 5,
   a full-size optional header inside the file, the section table inside SizeOfHeaders, and its certificate table, if any,
   is the tail of the file *)
Theorem pe_refuses_clean :
  (forall f sig, is_ok (hashin f) = false -> is_ok (embed f sig) = false) /\
  (forall f sig pre, all_bytes f = true -> hashin f = Ok pre ->
     4294967296 <= sp_payload_end f + (8 - sp_payload_end f mod 8) mod 8 -> embed f sig = Err E_TOOBIG) /\
  (forall f pre, all_bytes f = true -> hashin f = Ok pre ->
     64 <= zlen f /\ byte_at f 0 = 77 /\ byte_at f 1 = 90 /\ 64 <= sp_lfanew f /\
     byte_at f (sp_lfanew f) = 80 /\ byte_at f (sp_lfanew f + 1) = 69 /\ byte_at f (sp_lfanew f + 2) = 0 /\ byte_at f (sp_lfanew f + 3) = 0 /\
     (sp_magic f = 267 \/ sp_magic f = 523) /\ 5 <= sp_numrva f /\ (if sp_plus f then 240 else 224) <= sp_optsize f /\
     sp_opt f + sp_optsize f <= zlen f /\ sp_sectbl f + 40 * sp_nsec f <= sp_soh f /\
     sp_dd4 f + 8 <= sp_payload_end f /\ sp_payload_end f <= zlen f /\
     (sp_cert_size f = 0 \/ sp_cert_va f + sp_cert_size f = zlen f)).
Proof. exact (conj FmtPE.Proofs.refuses_clean_pe (conj FmtPE.ProofsB.embed_too_big_hashin FmtPE.ProofsB.accepted_facts)). Qed.

(* C01 / C11: DigestPE (sign path, server side included) returns a digest or an ordinary error on EVERY byte string — no slice or
   divide panic (holds since relic commits 53d79ae and 19efad9; before them: optional header shorter than two bytes, FileAlignment 0) *)
Theorem pe_digest_no_panic : forall f p, digest_pe f <> Panic p.
Proof. exact FmtPE.ProofsB.digest_pe_no_panic. Qed.

(* C01 (no spurious refusal): every image of class relic_dom (Model.v: well-formed headers, e_lfanew >= 64, full-size
   optional header, non-empty sections tiling the file from SizeOfHeaders on IN TABLE ORDER with FileAlignment-multiple raw
   sizes except the last table entry, certificate table = tail of the file) is accepted *)
Theorem pe_accepts_wf : forall f,
  all_bytes f = true -> relic_dom f = true -> exists pre, hashin f = Ok pre.
Proof. exact FmtPE.ProofsB.accepts_wf_pe. Qed.

(* ... and the class cannot be widened to "every image the Authenticode algorithm is defined on": relic refuses (with an
   error, nothing written) a contiguous image whose section table is not in file order, and one whose non-last section has
   a raw size that is not a multiple of FileAlignment *)
Theorem pe_accepts_all_contiguous_refuted : exists f1 f2,
  all_bytes f1 = true /\ spec_wf f1 = true /\ spec_contig f1 = true /\ is_ok (hashin f1) = false /\
  all_bytes f2 = true /\ spec_wf f2 = true /\ spec_contig f2 = true /\ hashin f2 = Err E_BEGINS.
Proof. exact FmtPE.ProofsB.accepts_all_contiguous_refuted. Qed.

(* C01: an accepted file below 4 GiB - 8 can always be signed, whatever the blob *)
Theorem pe_embed_defined : forall f sig pre,
  all_bytes f = true -> hashin f = Ok pre -> zlen f <= 4294967296 - 8 -> exists g, embed f sig = Ok g.
Proof. exact FmtPE.ProofsB.embed_defined_hashin. Qed.

(* ====================================================================================================== C08 *)
(* C08: "signed" for the verifier (anything but NotSignedError) is exactly a non-empty certificate-table directory entry *)
Theorem pe_is_signed_spec : forall f hv,
  read_nt f = Ok hv -> (extract f = Ok None <-> sp_cert_size f = 0).
Proof. exact FmtPE.Proofs.is_signed_spec_pe. Qed.

(* C08: a certificate table that is not the tail of the file (bytes appended after a signature) is never re-signed *)
Theorem pe_refuses_trailing_garbage : forall f hv,
  all_bytes f = true -> read_nt f = Ok hv -> hv_certsize hv <> 0 ->
  hv_certstart hv + hv_certsize hv <> zlen f -> is_ok (hashin f) = false.
Proof. exact FmtPE.Proofs.refuses_trailing_pe. Qed.

(* ====================================================================================================== C03 *)
(* C03 (L3, law_payload): the independent reader's view — the image up to the certificate table with CheckSum and
   directory entry 4 blanked, brought to the 8-byte boundary — is unchanged by signing *)
Theorem pe_law_payload : forall f sig g,
  all_bytes f = true -> zlen sig < 4294967296 - 24 -> embed f sig = Ok g -> payload g = payload f.
Proof. intros f sig g Hf Hs He. unfold payload. f_equal. exact (FmtPE.Proofs.law_payload_pe f sig g Hf Hs He). Qed.

(* C03: byte for byte.  Signing keeps the header geometry, changes nothing below the old payload end except the 4 bytes of
   CheckSum and the 8 bytes of directory entry 4, and replaces everything from there on (an old certificate table) by:
   zero padding to 8, one WIN_CERTIFICATE header (length, revision 0x0200, type 2), the blob, zero padding to 8; the
   directory entry points at exactly that entry *)
Theorem pe_only_these_ranges_differ : forall f sig g,
  all_bytes f = true -> zlen sig < 4294967296 - 24 -> embed f sig = Ok g ->
  let ck := sp_cksum f in let dd := sp_dd4 f in let e := sp_payload_end f in let pad := (8 - e mod 8) mod 8 in
  sp_cksum g = ck /\ sp_dd4 g = dd /\ 0 <= ck /\ ck + 4 <= dd /\ dd + 8 <= e /\ e <= zlen f /\
  (forall i, 0 <= i < e -> ~ (ck <= i < ck + 4) -> ~ (dd <= i < dd + 8) -> byte_at g i = byte_at f i) /\
  zdrop e g = zeros pad ++ le_enc 4 (8 + pe_mp_padded (zlen sig)) ++ le_enc 2 512 ++ le_enc 2 2 ++ pad8 sig /\
  sp_cert_va g = e + pad /\ sp_cert_size g = 8 + pe_mp_padded (zlen sig) /\ sp_payload_end g = e + pad /\
  zlen g = e + pad + 8 + pe_mp_padded (zlen sig).
Proof. exact FmtPE.ProofsB.only_ranges_pe. Qed.

(* ====================================================================================================== C02 *)
(* C02: two files with the same digest input have the same protected bytes (everything up to the certificate table except
   CheckSum and directory entry 4), up to the zero padding in front of the certificate table *)
Theorem pe_protect : forall g1 g2 pre,
  all_bytes g1 = true -> all_bytes g2 = true -> hashin g1 = Ok pre -> hashin g2 = Ok pre ->
  pad_to8 (protected g1) = pad_to8 (protected g2).
Proof. exact FmtPE.Proofs.protect_pe. Qed.

(* C02, byte by byte: same header geometry, same 8-aligned payload end, equal bytes at every protected offset both files
   have, and where one payload is longer the extra bytes (fewer than 8) are zero *)
Theorem pe_protect_bytes : forall g1 g2 pre,
  all_bytes g1 = true -> all_bytes g2 = true -> hashin g1 = Ok pre -> hashin g2 = Ok pre ->
  let ck := sp_cksum g1 in let dd := sp_dd4 g1 in let e1 := sp_payload_end g1 in let e2 := sp_payload_end g2 in
  sp_cksum g2 = ck /\ sp_dd4 g2 = dd /\
  e1 + (8 - e1 mod 8) mod 8 = e2 + (8 - e2 mod 8) mod 8 /\
  forall i, 0 <= i -> ~ (ck <= i < ck + 4) -> ~ (dd <= i < dd + 8) ->
    (i < e1 -> i < e2 -> byte_at g1 i = byte_at g2 i) /\ (e1 <= i < e2 -> byte_at g2 i = 0) /\ (e2 <= i < e1 -> byte_at g1 i = 0).
Proof. exact FmtPE.ProofsB.protect_bytes_pe. Qed.

(* C02 at full strength (protected g1 = protected g2) fails, by exactly that padding: a zero byte appended to an unsigned
   image whose length is not a multiple of 8 does not change the digest (inherent in Authenticode's 8-byte padding) *)
Theorem pe_protect_exact_refuted : exists g1 g2 pre,
  all_bytes g1 = true /\ all_bytes g2 = true /\ hashin g1 = Ok pre /\ hashin g2 = Ok pre /\ protected g1 <> protected g2.
Proof. exact FmtPE.ProofsB.protect_exact_refuted. Qed.

(* ====================================================================================================== C05 *)
(* C05: on contiguous images (the layout the Authenticode document presupposes) relic's digest input is the document's,
   followed by the zero padding to 8 that the signed file will contain *)
Theorem pe_hashin_eq_spec : forall f pre,
  all_bytes f = true -> hashin f = Ok pre -> spec_contig f = true ->
  pre = spec_hashin f ++ zeros ((8 - sp_payload_end f mod 8) mod 8).
Proof. exact FmtPE.Proofs.hashin_eq_spec_pe. Qed.

(* C05: ... so the imprint relic embeds, computed on the INPUT, is the Authenticode digest input of the OUTPUT *)
Theorem pe_embedded_digest_is_spec_digest_of_output : forall f sig g,
  all_bytes f = true -> all_bytes sig = true -> zlen sig < 4294967296 - 24 -> embed f sig = Ok g ->
  spec_contig g = true -> hashin f = Ok (spec_hashin g).
Proof. exact FmtPE.Proofs.embedded_digest_spec. Qed.

(* C05: on EVERY accepted image (contiguous or not) the digest input is the file up to the certificate table minus
   CheckSum and directory entry 4, in file order, plus zero padding to 8 *)
Theorem pe_hashin_is_linear : forall f pre,
  all_bytes f = true -> hashin f = Ok pre ->
  let ck := sp_cksum f in let dd := sp_dd4 f in let e := sp_payload_end f in
  pre = zslice 0 ck f ++ zslice (ck + 4) dd f ++ zslice (dd + 8) e f ++ zeros ((8 - e mod 8) mod 8) /\
  0 <= ck /\ ck + 4 <= dd /\ dd + 8 <= e /\ e <= zlen f.
Proof. exact FmtPE.ProofsB.hashin_linear. Qed.

(* C05: FixPEChecksum (e_lfanew even) rewrites only the CheckSum field and leaves in it the documented checksum of the file *)
Theorem pe_checksum_eq_spec : forall g g',
  all_bytes g = true -> fix_checksum g = Ok g' -> Z.even (sp_lfanew g) = true -> sp_cksum g + 4 <= zlen g ->
  g' = replace1 (sp_cksum g) 4 (le_enc 4 (spec_checksum g)) g /\ sp_lfanew g' = sp_lfanew g /\ zlen g' = zlen g /\
  spec_checksum g' = spec_checksum g /\ u32 g' (sp_cksum g') = spec_checksum g'.
Proof. exact FmtPE.ProofsB.fix_checksum_spec. Qed.

(* C05: ... hence every signed file relic produces carries the documented checksum *)
Theorem pe_embed_checksum_is_spec : forall f sig g,
  all_bytes f = true -> all_bytes sig = true -> zlen sig < 4294967296 - 24 -> embed f sig = Ok g ->
  Z.even (sp_lfanew f) = true -> u32 g (sp_cksum g) = spec_checksum g.
Proof. exact FmtPE.ProofsB.embed_checksum_spec. Qed.

(* C05: without "e_lfanew even" it fails: peChecksum compares even word offsets with the field offset, so at an odd
   e_lfanew the stale CheckSum is summed instead of blanked (Windows requires an aligned e_lfanew; such an image does not load) *)
Theorem pe_checksum_odd_lfanew_refuted : exists f sig g,
  all_bytes f = true /\ relic_dom f = true /\ embed f sig = Ok g /\ u32 g (sp_cksum g) <> spec_checksum g.
Proof. exact FmtPE.ProofsB.checksum_odd_lfanew_refuted. Qed.

(* ====================================================================================================== non-vacuity *)
(* ex_pe (ProofsB.v): a 423-byte PE32 image, headers padded to 400, a 16-byte section, a 5-byte last section, 2 bytes of
   overlay, stale CheckSum.  It lies in the acceptance class, is contiguous, and its digest input is the specification's *)
Example ex_pe_in_domain :
  all_bytes ex_pe = true /\ zlen ex_pe = 423 /\ relic_dom ex_pe = true /\ spec_wf ex_pe = true /\ spec_contig ex_pe = true /\
  hashin ex_pe = Ok (spec_hashin ex_pe ++ zeros 1).
Proof. vm_compute. repeat split; reflexivity. Qed.

(* signing it, and re-signing the result with a longer blob: the hypotheses of every law hold on both steps and the
   conclusions are computed (blob found, digest input and payload unchanged, documented checksum, signed output again in the
   acceptance class, second signature replaces the first) *)
Example ex_pe_sign_twice :
  match embed ex_pe [1; 2; 3] with
  | Ok g1 =>
      extract g1 = Ok (Some [1; 2; 3; 0; 0; 0; 0; 0]) /\ hashin g1 = hashin ex_pe /\ payload g1 = payload ex_pe /\
      u32 g1 (sp_cksum g1) = spec_checksum g1 /\ relic_dom g1 = true /\ spec_contig g1 = true /\ zlen g1 = 440 /\
      match embed g1 [9; 8; 7; 6; 5; 4; 3; 2; 1] with
      | Ok g2 => extract_all g2 = Ok (Some [[9; 8; 7; 6; 5; 4; 3; 2; 1; 0; 0; 0; 0; 0; 0; 0]]) /\ hashin g2 = hashin ex_pe /\
                 payload g2 = payload ex_pe /\ u32 g2 (sp_cksum g2) = spec_checksum g2 /\ zlen g2 = 448 /\
                 hashin ex_pe = Ok (spec_hashin g2)
      | _ => False
      end
  | _ => False
  end.
Proof. vm_compute. repeat split; reflexivity. Qed.

(* the refusal theorems have inhabitants too: bytes appended after the certificate table of a signed file *)
Example ex_pe_trailing_refused :
  match embed ex_pe [1; 2; 3] with
  | Ok g1 => hashin (g1 ++ [0]) = Err E_TRAILING /\ is_ok (embed (g1 ++ [0]) [4]) = false /\
             extract ex_pe = Ok None /\ sp_cert_size ex_pe = 0
  | _ => False
  end.
Proof. vm_compute. repeat split; reflexivity. Qed.

(* the hypotheses of the Crypto section are consistent: an instance (keys and certificates = Z, always-valid signatures, the
   identity as digest, a self-delimiting unary encoding of the blob whose decoder ignores trailing bytes) satisfies all of
   them together with the size premise for signing ex_pe, and signing succeeds — so pe_sign_then_verify applies to it *)
Example crypto_hypotheses_satisfiable :
  let H := fun (_ : Z) (m : bytes) => m in let pub := fun k : Z => k in let sign := fun (_ : Z) (_ : bytes) => 0 in
  let vrfy := fun (_ : Z) (_ : bytes) (_ : Z) => true in let tbs := fun (_ : Z) (d : bytes) => d in
  (forall k m, vrfy (pub k) m (sign k m) = true) /\
  (forall b n, ex_deser (ex_ser b ++ zeros n) = Some b) /\ (forall b, all_bytes (ex_ser b) = true) /\
  all_bytes ex_pe = true /\
  (forall pre, hashin ex_pe = Ok pre -> zlen (ex_ser (mksig Z Z Z pub sign tbs 7 1 (H 1 pre))) < 4294967296 - 40) /\
  exists g, (pre <- hashin ex_pe ;; embed ex_pe (ex_ser (mksig Z Z Z pub sign tbs 7 1 (H 1 pre)))) = Ok g.
Proof. exact FmtPE.ProofsB.crypto_hypotheses_satisfiable. Qed.
