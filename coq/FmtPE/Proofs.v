(* FmtPE/Proofs.v — lemmas behind FmtPE/Properties.v *)
From Relic Require Import Base.Prelude Base.Enc Generated.FmtPE_gen C12.Model C12.Proofs FmtPE.Model Laws.Pipeline.

(* ------------------------------------------------------------------ slices *)
Lemma zslice_nil_ge {A} a b (l : list A) : b <= a -> zslice a b l = [].
Proof. intros H. unfold zslice. apply ztake_neg. lia. Qed.
Lemma zslice_all_past {A} a b (l : list A) : zlen l <= a -> zslice a b l = [].
Proof. intros H. unfold zslice. rewrite zdrop_all by lia. unfold ztake. apply firstn_nil. Qed.

Lemma zsl_eq a b f : zsl a b f = zslice a b f.
Proof.
  unfold zsl. pose proof (zlen_nonneg f) as Hn.
  destruct (Z_le_gt_dec b a) as [Hba|Hba].
  - rewrite (zslice_nil_ge a b) by lia. apply zslice_nil_ge. lia.
  - destruct (Z_le_gt_dec (zlen f) a) as [Ha|Ha].
    + rewrite (zslice_all_past a b) by lia. apply zslice_all_past. lia.
    + rewrite Z.min_l by lia. unfold zslice.
      destruct (Z_le_gt_dec b (zlen f)) as [Hb|Hb]; [now rewrite Z.min_l by lia|].
      rewrite Z.min_r by lia.
      destruct (Z_le_gt_dec a 0) as [Ha0|Ha0].
      * rewrite zdrop_neg by lia. rewrite !ztake_all by lia. reflexivity.
      * rewrite !ztake_all; [reflexivity| |]; rewrite zlen_zdrop by lia; lia.
Qed.
Lemma ztk_eq n f : ztk n f = ztake n f.
Proof.
  unfold ztk. destruct (Z_le_gt_dec n (zlen f)); [now rewrite Z.min_l by lia|].
  rewrite Z.min_r by lia. rewrite !ztake_all by lia. reflexivity.
Qed.
Lemma zdp_eq n f : zdp n f = zdrop n f.
Proof.
  unfold zdp. destruct (Z_le_gt_dec n (zlen f)); [now rewrite Z.min_l by lia|].
  rewrite Z.min_r by lia. rewrite !zdrop_all by lia. reflexivity.
Qed.

Lemma zslice_0 {A} n (l : list A) : zslice 0 n l = ztake n l.
Proof. unfold zslice. rewrite zdrop_0. f_equal. lia. Qed.
Lemma zslice_to_end {A} a (l : list A) : zslice a (zlen l) l = zdrop a l.
Proof.
  unfold zslice. destruct (Z_le_gt_dec a 0).
  - rewrite zdrop_neg by lia. apply ztake_all. lia.
  - destruct (Z_le_gt_dec a (zlen l)).
    + apply ztake_all. rewrite zlen_zdrop by lia. lia.
    + rewrite zdrop_all by lia. unfold ztake. apply firstn_nil.
Qed.
Lemma zlen_zslice {A} a b (l : list A) : 0 <= a <= b -> b <= zlen l -> zlen (zslice a b l) = b - a.
Proof. intros H1 H2. unfold zslice. rewrite zlen_ztake; [lia|]. rewrite zlen_zdrop by lia. lia. Qed.
Lemma zlen_zslice_le {A} a b (l : list A) : 0 <= a <= b -> zlen (zslice a b l) <= b - a.
Proof.
  intros H. unfold zslice. rewrite zlen_ztake_min by lia. lia.
Qed.

Lemma firstn_plus {A} (k m : nat) (l : list A) : firstn (k + m) l = firstn k l ++ firstn m (skipn k l).
Proof.
  revert l; induction k as [|k IH]; intros l; [reflexivity|].
  destruct l as [|x l]; [now rewrite !firstn_nil|]. cbn [Nat.add firstn skipn app]. f_equal. apply IH.
Qed.
Lemma ztake_split {A} k n (l : list A) : 0 <= k <= n -> ztake n l = ztake k l ++ ztake (n - k) (zdrop k l).
Proof.
  intros H. unfold ztake, zdrop. replace (Z.to_nat n) with (Z.to_nat k + Z.to_nat (n - k))%nat by lia.
  apply firstn_plus.
Qed.
(* adjacent slices concatenate *)
Lemma zslice_app_adj {A} a b c (l : list A) : 0 <= a <= b -> b <= c -> zslice a b l ++ zslice b c l = zslice a c l.
Proof.
  intros Hab Hbc. unfold zslice.
  rewrite (ztake_split (b - a) (c - a)) by lia.
  f_equal. rewrite zdrop_zdrop by lia. f_equal; [lia|]. f_equal. lia.
Qed.
(* a slice of a slice *)
Lemma zslice_sub {A} lo hi a b (l : list A) : 0 <= lo <= a -> a <= b -> b <= hi ->
  zslice (a - lo) (b - lo) (zslice lo hi l) = zslice a b l.
Proof.
  intros H1 H2 H3. unfold zslice.
  rewrite zdrop_ztake by lia. rewrite zdrop_zdrop by lia.
  rewrite ztake_ztake by lia. f_equal; [lia|]. f_equal. lia.
Qed.
Lemma zslice_ztake {A} a b n (l : list A) : 0 <= a -> b <= n -> zslice a b (ztake n l) = zslice a b l.
Proof.
  intros Ha Hb. rewrite <- (zslice_0 n l).
  replace a with (a - 0) at 1 by lia. replace b with (b - 0) at 1 by lia.
  destruct (Z_le_gt_dec a b); [apply zslice_sub; lia|].
  rewrite !zslice_nil_ge by lia. reflexivity.
Qed.
Lemma zslice_app1 {A} a b (x y : list A) : 0 <= a -> b <= zlen x -> zslice a b (x ++ y) = zslice a b x.
Proof.
  intros Ha Hb. unfold zslice. destruct (Z_le_gt_dec a b).
  - rewrite zdrop_app_l by lia. apply ztake_app_l. rewrite zlen_zdrop by lia. lia.
  - rewrite !ztake_neg by lia. reflexivity.
Qed.
Lemma zslice_app2 {A} a b (x y : list A) : zlen x <= a -> zslice a b (x ++ y) = zslice (a - zlen x) (b - zlen x) y.
Proof. intros Ha. unfold zslice. rewrite zdrop_app_r by lia. f_equal. lia. Qed.
Lemma zslice_exact {A} (x y z : list A) a b : a = zlen x -> b = zlen x + zlen y -> zslice a b (x ++ y ++ z) = y.
Proof.
  intros -> ->. rewrite zslice_app2 by lia. replace (zlen x - zlen x) with 0 by lia.
  replace (zlen x + zlen y - zlen x) with (zlen y) by lia. rewrite zslice_0. apply ztake_app_exact. reflexivity.
Qed.
Lemma ztake_as_slice {A} n (l : list A) : ztake n l = zslice 0 n l.
Proof. symmetry. apply zslice_0. Qed.
Lemma zslice_full {A} a b (l : list A) : 0 <= a -> zslice a b l = zslice a (Z.min b (zlen l)) l.
Proof.
  intros Ha. destruct (Z_le_gt_dec b (zlen l)); [now rewrite Z.min_l by lia|].
  rewrite Z.min_r by lia. rewrite zslice_to_end. unfold zslice.
  destruct (Z_le_gt_dec a (zlen l)).
  - apply ztake_all. rewrite zlen_zdrop by lia. lia.
  - rewrite zdrop_all by lia. unfold ztake. apply firstn_nil.
Qed.

Lemma zlen_zeros n : 0 <= n -> zlen (zeros n) = n.
Proof. intros H. unfold zeros. rewrite zlen_repeat. lia. Qed.
Lemma zeros_0 : zeros 0 = [].
Proof. reflexivity. Qed.
Lemma zeros_neg n : n <= 0 -> zeros n = [].
Proof. intros H. unfold zeros. replace (Z.to_nat n) with 0%nat by lia. reflexivity. Qed.
Lemma zeros_app a b : 0 <= a -> 0 <= b -> zeros a ++ zeros b = zeros (a + b).
Proof. intros Ha Hb. unfold zeros. rewrite <- repeat_app. f_equal. lia. Qed.
Lemma all_bytes_zeros n : all_bytes (zeros n) = true.
Proof.
  unfold zeros. induction (Z.to_nat n) as [|k IH]; [reflexivity|].
  cbn [repeat all_bytes forallb]. exact IH.
Qed.

(* ------------------------------------------------------------------ byte strings *)
Lemma all_bytes_ztake n l : all_bytes l = true -> all_bytes (ztake n l) = true.
Proof.
  intros H. rewrite <- (ztake_zdrop n l), all_bytes_app in H. apply andb_true_iff in H. tauto.
Qed.
Lemma all_bytes_zdrop n l : all_bytes l = true -> all_bytes (zdrop n l) = true.
Proof.
  intros H. rewrite <- (ztake_zdrop n l), all_bytes_app in H. apply andb_true_iff in H. tauto.
Qed.
Lemma all_bytes_zslice a b l : all_bytes l = true -> all_bytes (zslice a b l) = true.
Proof. intros H. unfold zslice. apply all_bytes_ztake, all_bytes_zdrop, H. Qed.

Lemma le_dec_nonneg l : all_bytes l = true -> 0 <= le_dec l.
Proof. intros H. pose proof (le_dec_range l H). lia. Qed.
Lemma u32_range f off : all_bytes f = true -> 0 <= u32 f off < 4294967296.
Proof.
  intros H. unfold u32. rewrite zsl_eq.
  pose proof (le_dec_range _ (all_bytes_zslice off (off + 4) f H)) as R.
  pose proof (zlen_nonneg (zslice off (off + 4) f)) as N.
  assert (L : zlen (zslice off (off + 4) f) <= 4).
  { unfold zslice. replace (off + 4 - off) with 4 by lia. rewrite zlen_ztake_min by lia. lia. }
  assert (256 ^ zlen (zslice off (off + 4) f) <= 256 ^ 4) by (apply Z.pow_le_mono_r; lia).
  change (256 ^ 4) with 4294967296 in *. lia.
Qed.
Lemma u16_range f off : all_bytes f = true -> 0 <= u16 f off < 65536.
Proof.
  intros H. unfold u16. rewrite zsl_eq.
  pose proof (le_dec_range _ (all_bytes_zslice off (off + 2) f H)) as R.
  pose proof (zlen_nonneg (zslice off (off + 2) f)) as N.
  assert (L : zlen (zslice off (off + 2) f) <= 2).
  { unfold zslice. replace (off + 2 - off) with 2 by lia. rewrite zlen_ztake_min by lia. lia. }
  assert (256 ^ zlen (zslice off (off + 2) f) <= 256 ^ 2) by (apply Z.pow_le_mono_r; lia).
  change (256 ^ 2) with 65536 in *. lia.
Qed.

(* byte_at through a one-byte slice *)
Lemma byte_at_slice f i : 0 <= i -> byte_at f i = le_dec (zslice i (i + 1) f).
Proof.
  intros Hi. unfold byte_at.
  destruct (i <? zlen f) eqn:E.
  - apply Z.ltb_lt in E. unfold zslice, ztake, zdrop. replace (i + 1 - i) with 1 by lia.
    change (Z.to_nat 1) with 1%nat.
    assert (Hl : (Z.to_nat i < length f)%nat) by (unfold zlen in E; lia).
    revert Hl. generalize (Z.to_nat i). clear. intros n. revert f.
    induction n as [|n IH]; intros [|x f] Hl; cbn in Hl; try lia.
    + cbn. lia.
    + cbn [nth skipn]. apply IH. lia.
  - apply Z.ltb_ge in E. rewrite zslice_all_past by lia. reflexivity.
Qed.

(* ------------------------------------------------------------------ unfolding of the generated definitions *)
Create HintDb pegen.
#[export] Hint Unfold pe_dos_header_size pe_magic_pe32 pe_magic_pe32plus pe_dos_bad_magic pe_lfanew_off pe_lfanew_overlaps_dos
  pe_dos_read_len pe_dos_stub_len pe_nt_bad_magic pe_nt_magic_len pe_coff_len pe_cksum_start pe_cksum_end pe_dd4_start_32
  pe_dd4_start_64 pe_dd4_end pe_optmagic_len pe_no_room_32 pe_no_room_64 pe_sectbl_start pe_pos_ddcert pe_hashes_before_cksum
  pe_hashes_between pe_hashes_after_dd4 pe_sectbl_size pe_sectbl_end pe_table_overlaps_hdr pe_rs_skip_empty pe_sec_overlaps_table
  pe_sec_before_hdr_end pe_sec_not_last pe_hdr_shrinks_to_section pe_aligns_mid_sections pe_hdr_padding_len pe_align_rem
  pe_align_zero pe_align_needed pe_align_adds pe_has_gap pe_gap_len pe_dg_skip_empty pe_sec_not_contiguous pe_next_advances pe_pad_rem
  pe_pad_needed pe_pad_len pe_certstart_padded pe_tr_unsigned pe_tr_sig_overlaps pe_tr_garbage pe_tr_orig_unsigned
  pe_tr_orig_signed pe_tr_before_cert pe_mp_padded pe_mp_length pe_mp_revision pe_mp_certtype pe_certinfo_w_Length
  pe_certinfo_w_Revision pe_certinfo_w_CertificateType pe_mp_pad2 pe_mp_has_pad2 pe_mp_too_big pe_mp_dd_va pe_mp_dd_size
  pe_mp_patch1_off pe_mp_patch1_old pe_mp_patch2_off pe_mp_patch2_old pe_mp_sig_pad pe_vf_not_signed pe_cs_more pe_cs_short
  pe_cs_end pe_cs_size pe_cs_invalid pe_cs_wlen_len pe_cs_cert_lo pe_cs_cert_hi pe_cs_rest_lo pe_fix_write_off
  coff_off_machine coff_off_nsec coff_off_optsize opt_off_filealign opt_off_sizeofheaders opt_off_numrva32 opt_off_numrva64
  opt32_size opt64_size sec_off_rawsize sec_off_rawptr dd_off_size
  E_EOF E_NOTPE E_MAGIC E_NOROOM E_TBLOVER E_SECOVER E_BEGINS E_GAPREAD E_SIGOVER E_TRAILING E_TOOBIG E_BADTABLE E_LFANEW : pegen.

Ltac break_if H :=
  match type of H with
  | context [if ?c then _ else _] => let E := fresh "E" in destruct c eqn:E; try discriminate H
  end.
Ltac zb :=
  repeat match goal with
  | H : (_ <? _) = true |- _ => apply Z.ltb_lt in H
  | H : (_ <? _) = false |- _ => apply Z.ltb_ge in H
  | H : (_ <=? _) = true |- _ => apply Z.leb_le in H
  | H : (_ <=? _) = false |- _ => apply Z.leb_gt in H
  | H : (_ >? _) = true |- _ => rewrite Z.gtb_ltb in H; apply Z.ltb_lt in H
  | H : (_ >? _) = false |- _ => rewrite Z.gtb_ltb in H; apply Z.ltb_ge in H
  | H : (_ >=? _) = true |- _ => rewrite Z.geb_leb in H; apply Z.leb_le in H
  | H : (_ >=? _) = false |- _ => rewrite Z.geb_leb in H; apply Z.leb_gt in H
  | H : (_ =? _) = true |- _ => apply Z.eqb_eq in H
  | H : (_ =? _) = false |- _ => apply Z.eqb_neq in H
  | H : negb _ = true |- _ => apply negb_true_iff in H
  | H : negb _ = false |- _ => apply negb_false_iff in H
  | H : (_ || _) = false |- _ => apply orb_false_iff in H; destruct H
  | H : (_ && _) = true |- _ => apply andb_true_iff in H; destruct H
  end.

(* ------------------------------------------------------------------ read_nt, characterised *)
Definition page_of (machine : Z) : Z :=
  if existsb (Z.eqb machine) pe_page_machines then pe_page_size_listed else pe_page_size_default.

Definition nt_facts (f : bytes) (hv : hvals) : Prop :=
  let pe := hv_pe hv in
  let opt := pe + 24 in
  64 <= zlen f /\ byte_at f 0 = 77 /\ byte_at f 1 = 90 /\ pe = u32 f 60 /\ 64 <= pe /\
  byte_at f pe = 80 /\ byte_at f (pe + 1) = 69 /\ byte_at f (pe + 2) = 0 /\ byte_at f (pe + 3) = 0 /\
  hv_nsec hv = u16 f (pe + 6) /\ hv_optsize hv = u16 f (pe + 20) /\ opt + hv_optsize hv <= zlen f /\
  ((u16 f opt = 267 /\ hv_dd4 hv = 128 /\ 224 <= hv_optsize hv /\ 5 <= u32 f (opt + 92)) \/
   (u16 f opt = 523 /\ hv_dd4 hv = 144 /\ 240 <= hv_optsize hv /\ 5 <= u32 f (opt + 108))) /\
  hv_posdd hv = opt + hv_dd4 hv /\ hv_sectbl hv = opt + hv_optsize hv /\
  hv_soh hv = u32 f (opt + 60) /\ hv_falign hv = u32 f (opt + 36) /\ hv_page hv = page_of (u16 f (pe + 4)) /\
  hv_certstart hv = u32 f (opt + hv_dd4 hv) /\ hv_certsize hv = u32 f (opt + hv_dd4 hv + 4).

Ltac is_num a := lazymatch a with Z0 => idtac | Zpos _ => idtac | Zneg _ => idtac end.
(* offsets of the form p + c1 + c2 (constants) are brought to p + c *)
Ltac norm_off :=
  repeat match goal with
  | |- context [?p + ?a + ?b] => is_num a; is_num b; let c := eval compute in (a + b) in replace (p + a + b) with (p + c) by lia
  | H : context [?p + ?a + ?b] |- _ => is_num a; is_num b; let c := eval compute in (a + b) in replace (p + a + b) with (p + c) in H by lia
  | |- context [?p + 0] => replace (p + 0) with p by lia
  | H : context [?p + 0] |- _ => replace (p + 0) with p in H by lia
  end.

Lemma read_nt_facts f hv : read_nt f = Ok hv -> nt_facts f hv.
Proof.
  unfold read_nt. intros H.
  repeat break_if H; autounfold with pegen in *; zb;
  inversion H; subst hv; clear H; unfold nt_facts; cbn [hv_pe hv_nsec hv_optsize hv_dd4 hv_posdd hv_sectbl hv_soh hv_falign hv_page hv_certstart hv_certsize];
  unfold page_of; norm_off;
  repeat match goal with H : existsb _ _ = _ |- _ => rewrite H end;
  repeat split; try lia; try reflexivity; try (left; repeat split; lia); try (right; repeat split; lia).
Qed.

Lemma hv_eta hv : hv = mkHv (hv_pe hv) (hv_nsec hv) (hv_optsize hv) (hv_dd4 hv) (hv_posdd hv) (hv_sectbl hv) (hv_soh hv)
                             (hv_falign hv) (hv_page hv) (hv_certstart hv) (hv_certsize hv).
Proof. destruct hv; reflexivity. Qed.

Ltac decide_if :=
  match goal with
  | |- context [if ?c then _ else _] =>
      first [ replace c with false by (symmetry; autounfold with pegen; first [apply Z.ltb_ge; lia | apply Z.eqb_neq; lia | apply Z.leb_gt; lia
                                        | apply orb_false_iff; repeat split; apply negb_false_iff, Z.eqb_eq; lia
                                        | apply orb_false_iff; repeat split; try apply orb_false_iff; repeat split; apply negb_false_iff, Z.eqb_eq; lia ])
            | replace c with true by (symmetry; autounfold with pegen; first [apply Z.ltb_lt; lia | apply Z.eqb_eq; lia | apply Z.leb_le; lia]) ]
  end.

Lemma read_nt_intro f hv : nt_facts f hv -> read_nt f = Ok hv.
Proof.
  unfold nt_facts. cbv zeta. intros (H1 & H2 & H3 & H4 & H5 & H6 & H7 & H8 & H9 & H10 & H11 & H12 & H13 & H14 & H15 & H16 & H17 & H18 & H19 & H20).
  rewrite (hv_eta hv). unfold read_nt.
  autounfold with pegen. rewrite <- H4. norm_off.
  rewrite H2, H3, H6, H7, H8, H9. cbn [Z.eqb Pos.eqb negb orb].
  rewrite <- H10, <- H11.
  destruct H13 as [(M & D & O & N)|(M & D & O & N)]; rewrite M;
  [change (267 =? 267) with true | change (523 =? 267) with false; change (523 =? 523) with true]; cbv iota;
  repeat decide_if; unfold page_of in H18; rewrite H14, H15, H16, H17, H18, H19, H20, D; norm_off; reflexivity.
Qed.

(* ------------------------------------------------------------------ DigestPE split into scan (headers + sections) and trailer *)
Definition scan_body (f : bytes) (hv : hvals) : result (Z * bytes) :=
  let tblend := pe_sectbl_end (hv_sectbl hv) (pe_sectbl_size (hv_nsec hv)) in
  if pe_table_overlaps_hdr tblend (hv_soh hv) then Err E_TBLOVER else
  if zlen f <? tblend then Err E_EOF else
  adj <- adjust_secs (read_secs f (hv_sectbl hv) (Z.to_nat (hv_nsec hv)) 0) 0 (hv_nsec hv) tblend (hv_falign hv) (hv_soh hv) ;;
  let secs := fst adj in
  let soh := snd adj in
  if zlen f <? tblend + pe_hdr_padding_len soh tblend then Err E_EOF else
  let hdr := concat (header_pieces f hv soh) in
  let ptr0 := match secs with (p, _) :: _ => p | [] => 0 end in
  let gap := pe_has_gap (hv_nsec hv) ptr0 soh in
  if gap && (zlen f <? soh + pe_gap_len ptr0 soh) then Err E_GAPREAD else
  let next := if gap then ptr0 else soh in
  let gapbytes := if gap then zslice soh (soh + pe_gap_len ptr0 soh) f else [] in
  hs <- hash_secs f secs next ;;
  Ok (fst hs, hdr ++ gapbytes ++ snd hs).

Definition pad_of (orig : Z) : Z := if pe_pad_needed (pe_pad_rem orig) then pe_pad_len (pe_pad_rem orig) else 0.

Lemma digest_unfold f :
  digest_pe f =
  (hv <- read_nt f ;; s <- scan_body f hv ;;
   tr <- read_trailer f (fst s) (hv_certstart hv) (hv_certsize hv) ;;
   Ok (mkDg (fst tr) (fst tr + pad_of (fst tr)) (hv_posdd hv) (hv_certsize hv) (snd s ++ snd tr ++ zeros (pad_of (fst tr))))).
Proof.
  unfold digest_pe, scan_body, pad_of.
  destruct (read_nt f) as [hv| |]; cbn [bind]; try reflexivity.
  destruct (pe_table_overlaps_hdr _ _); try reflexivity.
  destruct (zlen f <? _); try reflexivity.
  destruct (adjust_secs _ _ _ _ _ _) as [adj| |]; cbn [bind]; try reflexivity.
  destruct (zlen f <? _); try reflexivity.
  destruct (_ && _); try reflexivity.
  destruct (hash_secs _ _ _) as [hs| |]; cbn [bind fst snd]; try reflexivity.
  destruct (read_trailer _ _ _ _) as [tr| |]; cbn [bind]; try reflexivity.
  change pe_certstart_padded with true. change pe_hashes_padding with true. cbv iota. f_equal. f_equal. rewrite <- !app_assoc. reflexivity.
Qed.

Definition nonneg_sizes (secs : list (Z * Z)) : Prop := Forall (fun s => 0 <= snd s) secs.

Lemma wrap32_nonneg n : 0 <= wrap32 n.
Proof. unfold wrap32. pose proof (Z.mod_pos_bound n 4294967296). lia. Qed.
Lemma align32_nonneg a al : 0 <= a -> 0 <= align32 a al.
Proof.
  intros H. unfold align32. destruct (pe_align_zero _); [exact H|]. destruct (pe_align_needed _); [|exact H].
  change pe_align_adds with true. cbv iota. apply wrap32_nonneg.
Qed.

Lemma adjust_inv secs : forall i nsec tblend falign soh secs' soh',
  adjust_secs secs i nsec tblend falign soh = Ok (secs', soh') ->
  tblend <= soh -> nonneg_sizes secs ->
  tblend <= soh' <= soh /\ nonneg_sizes secs'.
Proof.
  induction secs as [|[ptr size] r IH]; intros i nsec tblend falign soh secs' soh' H Hs Hn.
  - cbn in H. inversion H; subst. split; [lia|constructor].
  - inversion Hn as [|x l Hx Hr]; subst. cbn [snd] in Hx.
    cbn [adjust_secs] in H.
    destruct (pe_rs_skip_empty size) eqn:E1.
    + destruct (adjust_secs r (i + 1) nsec tblend falign soh) as [[s2 h2]| |] eqn:E; cbn [bind fst snd] in H; try discriminate.
      inversion H; subst. destruct (IH _ _ _ _ _ _ _ E Hs Hr) as [B N]. split; [exact B|]. constructor; [exact Hx|exact N].
    + destruct (pe_sec_overlaps_table ptr tblend) eqn:E2; try discriminate.
      autounfold with pegen in E2. zb.
      set (soh1 := if pe_sec_before_hdr_end ptr soh && pe_hdr_shrinks_to_section then ptr else soh) in *.
      assert (B1 : tblend <= soh1 <= soh).
      { unfold soh1. destruct (pe_sec_before_hdr_end ptr soh) eqn:E3; cbn [andb]; autounfold with pegen in *; zb; cbv iota; lia. }
      destruct (pe_sec_not_last i nsec && pe_aligns_mid_sections).
      * destruct (adjust_secs r (i + 1) nsec tblend falign soh1) as [[s2 h2]| |] eqn:E; cbn [bind fst snd] in H; try discriminate.
        inversion H; subst. destruct (IH _ _ _ _ _ _ _ E (proj1 B1) Hr) as [B N]. split; [lia|].
        constructor; [cbn [snd]; apply align32_nonneg; exact Hx|exact N].
      * destruct (adjust_secs r (i + 1) nsec tblend falign soh1) as [[s2 h2]| |] eqn:E; cbn [bind fst snd] in H; try discriminate.
        inversion H; subst. destruct (IH _ _ _ _ _ _ _ E (proj1 B1) Hr) as [B N]. split; [lia|].
        constructor; [exact Hx|exact N].
Qed.

Lemma read_secs_nonneg f tbl n : forall i, all_bytes f = true -> nonneg_sizes (read_secs f tbl n i).
Proof.
  induction n as [|n IH]; intros i H; cbn [read_secs]; constructor.
  - unfold sec_entry. cbn [snd]. pose proof (u32_range f (tbl + pe_sectbl_size i + sec_off_rawsize) H). lia.
  - apply IH, H.
Qed.

Lemma hash_secs_inv f secs : forall next last bs,
  hash_secs f secs next = Ok (last, bs) -> 0 <= next -> next <= zlen f -> nonneg_sizes secs ->
  next <= last <= zlen f /\ bs = zslice next last f.
Proof.
  induction secs as [|[ptr size] r IH]; intros next last bs H H0 Hl Hn.
  - cbn in H. inversion H; subst. split; [lia|]. rewrite zslice_nil_ge by lia. reflexivity.
  - inversion Hn as [|x l Hx Hr]; subst. cbn [snd] in Hx. cbn [hash_secs] in H.
    destruct (pe_dg_skip_empty size); [exact (IH _ _ _ H H0 Hl Hr)|].
    destruct (pe_sec_not_contiguous ptr next); try discriminate.
    destruct (zlen f <? next + size) eqn:E; try discriminate. zb.
    change pe_next_advances with true in H. cbv iota in H.
    destruct (hash_secs f r (next + size)) as [[l2 b2]| |] eqn:E2; cbn [bind fst snd] in H; try discriminate.
    inversion H; subst. destruct (IH _ _ _ E2 ltac:(lia) ltac:(lia) Hr) as [B ->].
    split; [lia|]. apply zslice_app_adj; lia.
Qed.

Lemma hash_secs_same f g secs : forall next last bs,
  hash_secs f secs next = Ok (last, bs) -> 0 <= next -> next <= zlen f -> nonneg_sizes secs ->
  last <= zlen g ->
  (forall a b, next <= a -> a <= b -> b <= last -> zslice a b g = zslice a b f) ->
  hash_secs g secs next = Ok (last, bs).
Proof.
  induction secs as [|[ptr size] r IH]; intros next last bs H H0 Hl Hn Hg Hs.
  - exact H.
  - inversion Hn as [|x l Hx Hr]; subst. cbn [snd] in Hx. cbn [hash_secs] in H |- *.
    destruct (pe_dg_skip_empty size); [exact (IH _ _ _ H H0 Hl Hr Hg Hs)|].
    destruct (pe_sec_not_contiguous ptr next); try discriminate.
    destruct (zlen f <? next + size) eqn:E; try discriminate. zb.
    change pe_next_advances with true in *. cbv iota in *.
    destruct (hash_secs f r (next + size)) as [[l2 b2]| |] eqn:E2; cbn [bind fst snd] in H; try discriminate.
    inversion H; subst.
    destruct (hash_secs_inv _ _ _ _ _ E2 ltac:(lia) ltac:(lia) Hr) as [B _].
    replace (zlen g <? next + size) with false by (symmetry; apply Z.ltb_ge; lia).
    rewrite (IH _ _ _ E2 ltac:(lia) ltac:(lia) Hr Hg) by (intros; apply Hs; lia).
    cbn [bind fst snd]. rewrite Hs by lia. reflexivity.
Qed.

Lemma adj {A} a b b' c (l : list A) : b = b' -> 0 <= a <= b -> b <= c -> zslice a b l ++ zslice b' c l = zslice a c l.
Proof. intros <- H1 H2. apply zslice_app_adj; lia. Qed.

(* the three stretches of the file the digest covers *)
Definition lin (f : bytes) (ck dd orig : Z) : bytes := zslice 0 ck f ++ zslice (ck + 4) dd f ++ zslice (dd + 8) orig f.

Lemma header_concat f hv soh :
  64 <= hv_pe hv -> (hv_dd4 hv = 128 \/ hv_dd4 hv = 144) -> hv_dd4 hv + 8 <= hv_optsize hv -> 0 <= hv_nsec hv ->
  hv_pe hv + 24 + hv_optsize hv + 40 * hv_nsec hv <= soh ->
  concat (header_pieces f hv soh) = lin f (hv_pe hv + 88) (hv_pe hv + 24 + hv_dd4 hv) soh.
Proof.
  intros Hpe Hd Ho Hn Hs. unfold header_pieces, lin.
  change pe_hashes_before_cksum with true. change pe_hashes_between with true. change pe_hashes_after_dd4 with true. cbv iota.
  cbn [concat]. rewrite app_nil_r. autounfold with pegen. set (pe := hv_pe hv) in *. set (dd4 := hv_dd4 hv) in *.
  set (os := hv_optsize hv) in *. set (ns := hv_nsec hv) in *.
  assert (A : zslice 0 64 f ++ zslice 64 (64 + (pe - 64)) f ++ zslice pe (pe + 4) f ++ zslice (pe + 4) (pe + 4 + 20) f ++
              zslice (pe + 4 + 20) (pe + 4 + 20 + 64) f = zslice 0 (pe + 88) f).
  { repeat (erewrite adj by lia). f_equal; try lia. }
  assert (C : zslice (pe + 4 + 20 + (dd4 + 8)) (pe + 4 + 20 + os) f ++ zslice (pe + 4 + 20 + os) (pe + 4 + 20 + os + ns * 40) f ++
              zslice (pe + 4 + 20 + os + ns * 40) (pe + 4 + 20 + os + ns * 40 + (soh - (pe + 4 + 20 + os + ns * 40))) f
              = zslice (pe + 24 + dd4 + 8) soh f).
  { repeat (erewrite adj by lia). f_equal; try lia. }
  rewrite <- A, <- C. rewrite <- !app_assoc. repeat (f_equal; try lia).
Qed.

Lemma nt_basic f hv : all_bytes f = true -> nt_facts f hv ->
  64 <= hv_pe hv /\ (hv_dd4 hv = 128 \/ hv_dd4 hv = 144) /\ hv_dd4 hv + 96 <= hv_optsize hv /\ 0 <= hv_nsec hv /\
  hv_sectbl hv = hv_pe hv + 24 + hv_optsize hv /\ hv_posdd hv = hv_pe hv + 24 + hv_dd4 hv /\
  hv_pe hv + 24 + hv_optsize hv <= zlen f /\ 0 <= hv_soh hv /\ 0 <= hv_certsize hv < 4294967296 /\ 0 <= hv_certstart hv < 4294967296.
Proof.
  intros Hb (H1 & H2 & H3 & H4 & H5 & H6 & H7 & H8 & H9 & H10 & H11 & H12 & H13 & H14 & H15 & H16 & H17 & H18 & H19 & H20).
  cbv zeta in *.
  pose proof (u16_range f (hv_pe hv + 6) Hb). pose proof (u32_range f (hv_pe hv + 24 + 60) Hb).
  pose proof (u32_range f (hv_pe hv + 24 + hv_dd4 hv) Hb). pose proof (u32_range f (hv_pe hv + 24 + hv_dd4 hv + 4) Hb).
  repeat split; try lia; destruct H13 as [(M & D & O & N)|(M & D & O & N)]; lia.
Qed.

Lemma scan_inv f hv last bs : all_bytes f = true -> nt_facts f hv -> scan_body f hv = Ok (last, bs) ->
  hv_sectbl hv + 40 * hv_nsec hv <= hv_soh hv /\ hv_sectbl hv + 40 * hv_nsec hv <= last /\ last <= zlen f /\
  bs = lin f (hv_pe hv + 88) (hv_pe hv + 24 + hv_dd4 hv) last.
Proof.
  intros Hb Hnt H. destruct (nt_basic f hv Hb Hnt) as (Hpe & Hd & Ho & Hn & Hst & Hpd & Hlen & Hsoh & _).
  unfold scan_body in H.
  set (tblend := pe_sectbl_end (hv_sectbl hv) (pe_sectbl_size (hv_nsec hv))) in *.
  assert (Ht : tblend = hv_sectbl hv + 40 * hv_nsec hv) by (unfold tblend; autounfold with pegen; lia).
  destruct (pe_table_overlaps_hdr tblend (hv_soh hv)) eqn:E1; try discriminate.
  destruct (zlen f <? tblend) eqn:E2; try discriminate.
  destruct (adjust_secs _ _ _ _ _ _) as [[secs soh]| |] eqn:EA; cbn [bind fst snd] in H; try discriminate.
  autounfold with pegen in E1. zb.
  destruct (adjust_inv _ _ _ _ _ _ _ _ EA ltac:(lia) (read_secs_nonneg f _ _ 0 Hb)) as [Bs Nn].
  destruct (zlen f <? tblend + pe_hdr_padding_len soh tblend) eqn:E3; try discriminate.
  autounfold with pegen in E3. zb.
  rewrite header_concat in H by lia.
  set (ptr0 := match secs with (p, _) :: _ => p | [] => 0 end) in *.
  destruct (pe_has_gap (hv_nsec hv) ptr0 soh) eqn:EG; cbn [andb] in H.
  - destruct (zlen f <? soh + pe_gap_len ptr0 soh) eqn:E4; try discriminate.
    autounfold with pegen in EG, E4. zb.
    destruct (hash_secs f secs ptr0) as [[l2 b2]| |] eqn:EH; cbn [bind fst snd] in H; try discriminate.
    inversion H; subst. destruct (hash_secs_inv _ _ _ _ _ EH ltac:(lia) ltac:(lia) Nn) as [B ->].
    repeat split; try lia. unfold lin. rewrite <- !app_assoc. do 2 f_equal.
    autounfold with pegen. rewrite (adj soh (soh + (ptr0 - soh)) ptr0 last) by lia.
    apply adj; lia.
  - destruct (hash_secs f secs soh) as [[l2 b2]| |] eqn:EH; cbn [bind fst snd app] in H; try discriminate.
    inversion H; subst. destruct (hash_secs_inv _ _ _ _ _ EH ltac:(lia) ltac:(lia) Nn) as [B ->].
    repeat split; try lia. unfold lin. rewrite <- !app_assoc. do 2 f_equal. apply adj; lia.
Qed.

(* g coincides with f on the three stretches [0,ck) [ck+4,dd) [dd+8,lim) *)
Definition agree3 (f g : bytes) (ck dd lim : Z) : Prop :=
  forall a b, 0 <= a -> a <= b ->
    (b <= ck \/ (ck + 4 <= a /\ b <= dd) \/ (dd + 8 <= a /\ b <= lim)) -> zslice a b g = zslice a b f.

Lemma u32_same f g ck dd lim off : agree3 f g ck dd lim -> 0 <= off ->
  (off + 4 <= ck \/ (ck + 4 <= off /\ off + 4 <= dd) \/ (dd + 8 <= off /\ off + 4 <= lim)) -> u32 g off = u32 f off.
Proof. intros A H0 H. unfold u32. rewrite !zsl_eq. rewrite (A off (off + 4)) by lia. reflexivity. Qed.
Lemma u16_same f g ck dd lim off : agree3 f g ck dd lim -> 0 <= off ->
  (off + 2 <= ck \/ (ck + 4 <= off /\ off + 2 <= dd) \/ (dd + 8 <= off /\ off + 2 <= lim)) -> u16 g off = u16 f off.
Proof. intros A H0 H. unfold u16. rewrite !zsl_eq. rewrite (A off (off + 2)) by lia. reflexivity. Qed.
Lemma byte_at_same f g ck dd lim off : agree3 f g ck dd lim -> 0 <= off ->
  (off + 1 <= ck \/ (ck + 4 <= off /\ off + 1 <= dd) \/ (dd + 8 <= off /\ off + 1 <= lim)) -> byte_at g off = byte_at f off.
Proof. intros A H0 H. rewrite !byte_at_slice by lia. rewrite (A off (off + 1)) by lia. reflexivity. Qed.

Lemma read_secs_same f g ck dd lim tbl n : forall i, agree3 f g ck dd lim -> 0 <= i -> 0 <= tbl -> dd + 8 <= tbl ->
  tbl + 40 * (i + Z.of_nat n) <= lim -> read_secs g tbl n i = read_secs f tbl n i.
Proof.
  induction n as [|n IH]; intros i A Hi Ht0 Ht Hl; [reflexivity|].
  cbn [read_secs]. f_equal.
  - unfold sec_entry. autounfold with pegen. f_equal; eapply u32_same; eauto; lia.
  - apply IH; auto; lia.
Qed.

Lemma lin_same f g ck dd lim x : agree3 f g ck dd lim -> 0 <= ck -> ck + 4 <= dd -> dd + 8 <= x -> x <= lim ->
  lin g ck dd x = lin f ck dd x.
Proof.
  intros A H1 H2 H3 H4. unfold lin. rewrite (A 0 ck), (A (ck + 4) dd), (A (dd + 8) x) by lia. reflexivity.
Qed.

Lemma scan_same f g hv last bs : all_bytes f = true -> nt_facts f hv -> scan_body f hv = Ok (last, bs) ->
  last <= zlen g -> agree3 f g (hv_pe hv + 88) (hv_pe hv + 24 + hv_dd4 hv) last ->
  scan_body g hv = Ok (last, bs).
Proof.
  intros Hb Hnt H Hg A. destruct (nt_basic f hv Hb Hnt) as (Hpe & Hd & Ho & Hn & Hst & Hpd & Hlen & Hsoh & _).
  destruct (scan_inv f hv last bs Hb Hnt H) as (S1 & S2 & S3 & S4).
  unfold scan_body in H |- *.
  set (tblend := pe_sectbl_end (hv_sectbl hv) (pe_sectbl_size (hv_nsec hv))) in *.
  assert (Ht : tblend = hv_sectbl hv + 40 * hv_nsec hv) by (unfold tblend; autounfold with pegen; lia).
  destruct (pe_table_overlaps_hdr tblend (hv_soh hv)) eqn:E1; try discriminate.
  destruct (zlen f <? tblend) eqn:E2; try discriminate.
  replace (zlen g <? tblend) with false by (symmetry; apply Z.ltb_ge; lia).
  rewrite (read_secs_same f g _ _ last (hv_sectbl hv) (Z.to_nat (hv_nsec hv)) 0 A) by lia.
  destruct (adjust_secs _ _ _ _ _ _) as [[secs soh]| |] eqn:EA; cbn [bind fst snd] in H |- *; try discriminate.
  autounfold with pegen in E1. zb.
  destruct (adjust_inv _ _ _ _ _ _ _ _ EA ltac:(lia) (read_secs_nonneg f _ _ 0 Hb)) as [Bs Nn].
  destruct (zlen f <? tblend + pe_hdr_padding_len soh tblend) eqn:E3; try discriminate.
  autounfold with pegen in E3. zb.
  rewrite header_concat in H by lia. rewrite header_concat by lia.
  set (ptr0 := match secs with (p, _) :: _ => p | [] => 0 end) in *.
  destruct (pe_has_gap (hv_nsec hv) ptr0 soh) eqn:EG; cbn [andb] in H |- *.
  - destruct (zlen f <? soh + pe_gap_len ptr0 soh) eqn:E4; try discriminate.
    autounfold with pegen in EG, E4. zb.
    destruct (hash_secs f secs ptr0) as [[l2 b2]| |] eqn:EH; cbn [bind fst snd] in H; try discriminate.
    inversion H; subst l2. destruct (hash_secs_inv _ _ _ _ _ EH ltac:(lia) ltac:(lia) Nn) as [B _].
    replace (zlen g <? tblend + pe_hdr_padding_len soh tblend) with false by (symmetry; autounfold with pegen; apply Z.ltb_ge; lia).
    replace (zlen g <? soh + pe_gap_len ptr0 soh) with false by (symmetry; autounfold with pegen; apply Z.ltb_ge; lia).
    rewrite (hash_secs_same f g secs ptr0 last b2 EH) by (try lia; try exact Nn; intros; apply A; lia).
    cbn [bind fst snd]. rewrite (lin_same f g _ _ last soh A) by lia.
    autounfold with pegen. rewrite (A soh (soh + (ptr0 - soh))) by lia. reflexivity.
  - destruct (hash_secs f secs soh) as [[l2 b2]| |] eqn:EH; cbn [bind fst snd] in H; try discriminate.
    inversion H; subst l2. destruct (hash_secs_inv _ _ _ _ _ EH ltac:(lia) ltac:(lia) Nn) as [B _].
    replace (zlen g <? tblend + pe_hdr_padding_len soh tblend) with false by (symmetry; autounfold with pegen; apply Z.ltb_ge; lia).
    rewrite (hash_secs_same f g secs soh last b2 EH) by (try lia; try exact Nn; intros; apply A; lia).
    cbn [bind fst snd]. rewrite (lin_same f g _ _ last soh A) by lia. reflexivity.
Qed.

Lemma trailer_inv f last cs sz orig bs : read_trailer f last cs sz = Ok (orig, bs) -> 0 <= last <= zlen f -> 0 <= sz ->
  (sz = 0 /\ orig = zlen f /\ bs = zslice last (zlen f) f) \/
  (sz <> 0 /\ last <= cs /\ orig = cs /\ cs + sz = zlen f /\ bs = zslice last cs f).
Proof.
  unfold read_trailer. intros H Hl Hs. repeat break_if H; autounfold with pegen in *; zb; inversion H; subst.
  - left. repeat split; try lia. symmetry. apply zslice_to_end.
  - right. repeat split; lia.
Qed.

Lemma pad_of_spec orig : 0 <= orig -> 0 <= pad_of orig < 8 /\ (orig + pad_of orig) mod 8 = 0 /\ pad_of orig = (8 - orig mod 8) mod 8.
Proof.
  intros H. unfold pad_of. autounfold with pegen. rewrite Z.rem_mod_nonneg by lia.
  destruct (orig mod 8 =? 0) eqn:E; cbn [negb]; zb; lia.
Qed.

Lemma digest_inv f d : all_bytes f = true -> digest_pe f = Ok d ->
  exists hv, nt_facts f hv /\
    hv_pe hv + 24 + hv_dd4 hv + 8 <= dg_orig d /\ dg_orig d <= zlen f /\
    dg_posdd d = hv_pe hv + 24 + hv_dd4 hv /\ dg_oldsize d = hv_certsize hv /\
    (hv_certsize hv = 0 -> dg_orig d = zlen f) /\ (hv_certsize hv <> 0 -> dg_orig d = hv_certstart hv) /\
    dg_orig d + hv_certsize hv = zlen f /\
    dg_certstart d = dg_orig d + pad_of (dg_orig d) /\
    dg_pre d = lin f (hv_pe hv + 88) (hv_pe hv + 24 + hv_dd4 hv) (dg_orig d) ++ zeros (pad_of (dg_orig d)) /\
    exists last bs, scan_body f hv = Ok (last, bs) /\ last <= dg_orig d /\ hv_sectbl hv + 40 * hv_nsec hv <= hv_soh hv.
Proof.
  intros Hb H. rewrite digest_unfold in H.
  destruct (read_nt f) as [hv| |] eqn:EN; cbn [bind] in H; try discriminate.
  apply read_nt_facts in EN. exists hv. split; [exact EN|].
  destruct (nt_basic f hv Hb EN) as (Hpe & Hd & Ho & Hn & Hst & Hpd & Hlen & Hsoh & Hcz & Hcs).
  destruct (scan_body f hv) as [[last bs]| |] eqn:ES; cbn [bind fst snd] in H; try discriminate.
  destruct (scan_inv f hv last bs Hb EN ES) as (S1 & S2 & S3 & S4).
  destruct (read_trailer f last (hv_certstart hv) (hv_certsize hv)) as [[orig tb]| |] eqn:ET; cbn [bind fst snd] in H; try discriminate.
  inversion H; subst d; clear H. cbn [dg_orig dg_certstart dg_posdd dg_oldsize dg_pre].
  destruct (trailer_inv _ _ _ _ _ _ ET ltac:(lia) ltac:(lia)) as [(Z0 & -> & ->)|(Z0 & T1 & -> & T2 & ->)].
  - repeat (split; [lia|]). split.
    + rewrite S4. unfold lin. rewrite <- !app_assoc. do 2 f_equal. rewrite app_assoc. f_equal. apply adj; lia.
    + exists last, bs. split; [reflexivity|]. lia.
  - repeat (split; [lia|]). split.
    + rewrite S4. unfold lin. rewrite <- !app_assoc. do 2 f_equal. rewrite app_assoc. f_equal. apply adj; lia.
    + exists last, bs. split; [reflexivity|]. lia.
Qed.

(* ------------------------------------------------------------------ the shape of a signed file *)
Definition shape (f : bytes) (ck dd orig : Z) (c4 d8 tail : bytes) : bytes :=
  zslice 0 ck f ++ c4 ++ zslice (ck + 4) dd f ++ d8 ++ zslice (dd + 8) orig f ++ tail.

Section Shape.
  Variables (f c4 d8 tail : bytes) (ck dd orig : Z).
  Hypothesis Hc4 : zlen c4 = 4.
  Hypothesis Hd8 : zlen d8 = 8.
  Hypothesis Hck : 0 <= ck.
  Hypothesis Hdd : ck + 4 <= dd.
  Hypothesis Horig : dd + 8 <= orig <= zlen f.
  Let g := shape f ck dd orig c4 d8 tail.
  Let LA : zlen (zslice 0 ck f) = ck. Proof. rewrite zlen_zslice; lia. Qed.
  Let LB : zlen (zslice (ck + 4) dd f) = dd - ck - 4. Proof. rewrite zlen_zslice; lia. Qed.
  Let LC : zlen (zslice (dd + 8) orig f) = orig - dd - 8. Proof. rewrite zlen_zslice; lia. Qed.

  Lemma shape_len : zlen g = orig + zlen tail.
  Proof. unfold g, shape. rewrite !zlen_app, LA, LB, LC, Hc4, Hd8. lia. Qed.

  Lemma shape_r1 a b : 0 <= a -> a <= b -> b <= ck -> zslice a b g = zslice a b f.
  Proof.
    intros H1 H2 H3. unfold g, shape. rewrite zslice_app1 by lia.
    replace a with (a - 0) at 1 by lia. replace b with (b - 0) at 1 by lia. apply zslice_sub; lia.
  Qed.
  Lemma shape_ck : zslice ck (ck + 4) g = c4.
  Proof. unfold g, shape. apply zslice_exact; lia. Qed.
  Lemma shape_r2 a b : ck + 4 <= a -> a <= b -> b <= dd -> zslice a b g = zslice a b f.
  Proof.
    intros H1 H2 H3. unfold g, shape. rewrite zslice_app2 by lia. rewrite zslice_app2 by lia.
    rewrite zslice_app1 by lia. rewrite LA, Hc4.
    replace (a - ck - 4) with (a - (ck + 4)) by lia. replace (b - ck - 4) with (b - (ck + 4)) by lia. apply zslice_sub; lia.
  Qed.
  Lemma shape_dd : zslice dd (dd + 8) g = d8.
  Proof.
    unfold g, shape. rewrite zslice_app2 by lia. rewrite zslice_app2 by lia. rewrite LA, Hc4.
    apply zslice_exact; lia.
  Qed.
  Lemma shape_r3 a b : dd + 8 <= a -> a <= b -> b <= orig -> zslice a b g = zslice a b f.
  Proof.
    intros H1 H2 H3. unfold g, shape. rewrite zslice_app2 by lia. rewrite zslice_app2 by lia. rewrite zslice_app2 by lia.
    rewrite zslice_app2 by lia. rewrite zslice_app1 by lia. rewrite LA, Hc4, LB, Hd8.
    replace (a - ck - 4 - (dd - ck - 4) - 8) with (a - (dd + 8)) by lia.
    replace (b - ck - 4 - (dd - ck - 4) - 8) with (b - (dd + 8)) by lia. apply zslice_sub; lia.
  Qed.
  Lemma shape_tail a b : orig <= a -> zslice a b g = zslice (a - orig) (b - orig) tail.
  Proof.
    intros H1. unfold g, shape. rewrite zslice_app2 by lia. rewrite zslice_app2 by lia. rewrite zslice_app2 by lia.
    rewrite zslice_app2 by lia. rewrite zslice_app2 by lia. rewrite LA, Hc4, LB, Hd8, LC. f_equal; lia.
  Qed.
  Lemma shape_agree : agree3 f g ck dd orig.
  Proof.
    intros a b H1 H2 [H|[[H H']|[H H']]]; [apply shape_r1|apply shape_r2|apply shape_r3]; lia.
  Qed.
  Lemma shape_take_orig : ztake orig g = zslice 0 ck f ++ c4 ++ zslice (ck + 4) dd f ++ d8 ++ zslice (dd + 8) orig f.
  Proof.
    unfold g, shape.
    replace (zslice 0 ck f ++ c4 ++ zslice (ck + 4) dd f ++ d8 ++ zslice (dd + 8) orig f ++ tail)
      with ((zslice 0 ck f ++ c4 ++ zslice (ck + 4) dd f ++ d8 ++ zslice (dd + 8) orig f) ++ tail)
      by (rewrite <- !app_assoc; reflexivity).
    apply ztake_app_exact. rewrite !zlen_app, LA, LB, LC, Hc4, Hd8. lia.
  Qed.
End Shape.

Lemma patched_shape f ck dd orig old d8 tbl : 0 <= ck -> ck + 4 <= dd -> dd + 8 <= orig -> orig + old = zlen f -> 0 <= old ->
  replace1 dd 8 d8 (replace1 orig old tbl f) = shape f ck dd orig (zslice ck (ck + 4) f) d8 tbl.
Proof.
  intros H1 H2 H3 H4 H5. unfold replace1, shape.
  rewrite (zdrop_all (orig + old) f) by lia. rewrite app_nil_r.
  assert (L : zlen (ztake orig f) = orig) by (apply zlen_ztake; lia).
  rewrite ztake_app_l by lia. rewrite ztake_ztake by lia.
  rewrite zdrop_app_l by lia.
  rewrite <- ?app_assoc. rewrite (ztake_as_slice dd f).
  rewrite <- (adj 0 ck ck dd f) by lia. rewrite <- (adj ck (ck + 4) (ck + 4) dd f) by lia.
  rewrite <- !app_assoc. do 4 f_equal.
  unfold zslice. rewrite zdrop_ztake by lia. reflexivity.
Qed.

Lemma replace_ck f ck dd orig c4 c4' d8 tail : zlen c4 = 4 -> 0 <= ck <= zlen f ->
  replace1 ck 4 c4' (shape f ck dd orig c4 d8 tail) = shape f ck dd orig c4' d8 tail.
Proof.
  intros H4 Hck. unfold replace1, shape.
  assert (LA : zlen (zslice 0 ck f) = ck) by (rewrite zlen_zslice; lia).
  rewrite ztake_app_exact by exact LA.
  rewrite zdrop_app_r by lia. rewrite LA. replace (ck + 4 - ck) with 4 by lia.
  rewrite zdrop_app_exact by exact H4. reflexivity.
Qed.

Lemma le_enc_zlen4 n : zlen (le_enc 4 n) = 4.
Proof. apply le_enc_zlen. Qed.

Lemma asc2 off1 old1 b1 off2 old2 b2 L : 0 <= off1 -> 0 <= old1 -> off1 + old1 <= off2 -> 0 <= old2 -> off2 + old2 <= L ->
  asc_disjoint 0 [mkPatch off1 old1 b1; mkPatch off2 old2 b2] L = true.
Proof.
  intros. cbn [asc_disjoint p_off p_old]. repeat (apply andb_true_iff; split); try reflexivity; apply Z.leb_le; lia.
Qed.

Lemma embed_shape f d sig : all_bytes f = true -> digest_pe f = Ok d -> dg_certstart d < 4294967296 ->
  exists hv c4, nt_facts f hv /\ zlen c4 = 4 /\ all_bytes c4 = true /\
    embed f sig = Ok (shape f (hv_pe hv + 88) (hv_pe hv + 24 + hv_dd4 hv) (dg_orig d) c4 (dd_entry d sig) (cert_table d sig)).
Proof.
  intros Hb H Hc. destruct (digest_inv f d Hb H) as (hv & Hnt & D1 & D2 & D3 & D4 & D5 & D6 & D7 & D8 & D9 & _).
  destruct (nt_basic f hv Hb Hnt) as (Hpe & Hd & Ho & Hn & Hst & Hpd & Hlen & Hsoh & Hcz & Hcs).
  exists hv. unfold embed. rewrite H. cbn [bind]. unfold make_patch.
  replace (pe_mp_too_big (dg_certstart d)) with false
    by (symmetry; unfold pe_mp_too_big; change (Z.shiftl 1 32) with 4294967296; rewrite Z.geb_leb; apply Z.leb_gt; lia).
  cbn [bind]. unfold apply_patch. autounfold with pegen. rewrite D3, D4.
  set (dde := dd_entry d sig). set (tbl := cert_table d sig).
  set (cs := [mkCall _ 8 dde; mkCall _ _ tbl]).
  assert (AS : asc_disjoint 0 (map call_patch cs) (zlen f) = true).
  { unfold cs. cbn [map call_patch c_off c_old c_blob]. apply asc2; cbn [c_off c_old c_blob]; lia. }
  destruct (add_fileorder_sound cs f AS) as [AS2 SP]. rewrite (rewrite_sorted _ _ AS2), SP.
  unfold cs. cbn [map call_patch c_off c_old c_blob splice fold_right p_off p_old p_blob].
  rewrite (patched_shape f (hv_pe hv + 88)) by lia.
  set (g0 := shape f _ _ _ _ dde tbl). cbn [bind].
  assert (L8 : zlen dde = 8) by (unfold dde, dd_entry; rewrite zlen_app, !le_enc_zlen4; lia).
  assert (L4 : zlen (zslice (hv_pe hv + 88) (hv_pe hv + 88 + 4) f) = 4) by (rewrite zlen_zslice; lia).
  assert (A : agree3 f g0 (hv_pe hv + 88) (hv_pe hv + 24 + hv_dd4 hv) (dg_orig d)) by (apply shape_agree; lia).
  assert (Lg : zlen g0 = dg_orig d + zlen tbl) by (apply shape_len; lia).
  pose proof (zlen_nonneg tbl).
  pose proof Hnt as Hnt'. destruct Hnt as (N1 & N2 & N3 & N4 & _).
  unfold fix_checksum. autounfold with pegen.
  replace (zlen g0 <? 64) with false by (symmetry; apply Z.ltb_ge; lia).
  rewrite (byte_at_same f g0 _ _ _ 0 A), (byte_at_same f g0 _ _ _ 1 A), (u32_same f g0 _ _ _ 60 A) by lia.
  rewrite N2, N3, <- N4. cbn [Z.eqb Pos.eqb negb orb].
  replace (hv_pe hv <? 64) with false by (symmetry; apply Z.ltb_ge; lia).
  eexists. split; [|split; [|split]].
  4: { f_equal. rewrite write_at_same by (rewrite ?le_enc_zlen4; lia). rewrite le_enc_zlen4. unfold g0. apply replace_ck; [exact L4|lia]. }
  - exact Hnt'.
  - apply le_enc_zlen4.
  - apply le_enc_bytes.
Qed.

Definition set_cert (hv : hvals) (va sz : Z) : hvals :=
  mkHv (hv_pe hv) (hv_nsec hv) (hv_optsize hv) (hv_dd4 hv) (hv_posdd hv) (hv_sectbl hv) (hv_soh hv) (hv_falign hv) (hv_page hv) va sz.

Lemma scan_set_cert g hv va sz : scan_body g (set_cert hv va sz) = scan_body g hv.
Proof. reflexivity. Qed.

Lemma nt_facts_same f g hv lim va sz : all_bytes f = true -> nt_facts f hv ->
  agree3 f g (hv_pe hv + 88) (hv_pe hv + 24 + hv_dd4 hv) lim -> hv_pe hv + 24 + hv_optsize hv <= lim -> lim <= zlen g ->
  u32 g (hv_pe hv + 24 + hv_dd4 hv) = va -> u32 g (hv_pe hv + 24 + hv_dd4 hv + 4) = sz ->
  nt_facts g (set_cert hv va sz).
Proof.
  intros Hb Hnt A Hl Hg Hva Hsz.
  destruct (nt_basic f hv Hb Hnt) as (Hpe & Hd & Ho & Hn & Hst & Hpd & Hlen & Hsoh & Hcz & Hcs).
  destruct Hnt as (H1 & H2 & H3 & H4 & H5 & H6 & H7 & H8 & H9 & H10 & H11 & H12 & H13 & H14 & H15 & H16 & H17 & H18 & H19 & H20).
  cbv zeta in *. unfold nt_facts, set_cert. cbn [hv_pe hv_nsec hv_optsize hv_dd4 hv_posdd hv_sectbl hv_soh hv_falign hv_page hv_certstart hv_certsize].
  rewrite (byte_at_same f g _ _ _ 0 A), (byte_at_same f g _ _ _ 1 A), (u32_same f g _ _ _ 60 A) by lia.
  rewrite (byte_at_same f g _ _ _ (hv_pe hv) A), (byte_at_same f g _ _ _ (hv_pe hv + 1) A),
          (byte_at_same f g _ _ _ (hv_pe hv + 2) A), (byte_at_same f g _ _ _ (hv_pe hv + 3) A) by lia.
  rewrite (u16_same f g _ _ _ (hv_pe hv + 6) A), (u16_same f g _ _ _ (hv_pe hv + 20) A), (u16_same f g _ _ _ (hv_pe hv + 24) A),
          (u16_same f g _ _ _ (hv_pe hv + 4) A) by lia.
  rewrite (u32_same f g _ _ _ (hv_pe hv + 24 + 60) A), (u32_same f g _ _ _ (hv_pe hv + 24 + 36) A) by lia.
  repeat (split; [first [assumption | lia]|]).
  split.
  { destruct H13 as [(M & D & O & N)|(M & D & O & N)]; [left|right]; (split; [assumption|split; [assumption|split; [assumption|]]]).
    - rewrite (u32_same f g _ _ _ (hv_pe hv + 24 + 92) A) by lia; assumption.
    - rewrite (u32_same f g _ _ _ (hv_pe hv + 24 + 108) A) by lia; assumption. }
  repeat (split; [first [assumption | lia]|]). lia.
Qed.

Lemma nt_facts_unique f hv1 hv2 : nt_facts f hv1 -> nt_facts f hv2 -> hv1 = hv2.
Proof. intros A B. apply read_nt_intro in A. apply read_nt_intro in B. congruence. Qed.

Lemma le_dec_enc4 n : 0 <= n < 4294967296 -> le_dec (le_enc 4 n) = n.
Proof. intros H. apply le_dec_enc. exact H. Qed.

Lemma u32_of_slice g off x rest : 0 <= off -> zslice off (off + 8) g = le_enc 4 x ++ rest -> 0 <= x < 4294967296 -> u32 g off = x.
Proof.
  intros H0 H Hx. unfold u32. rewrite zsl_eq.
  replace (zslice off (off + 4) g) with (zslice (off - off) (off + 4 - off) (zslice off (off + 8) g)) by (apply zslice_sub; lia).
  rewrite H. replace (off - off) with 0 by lia. replace (off + 4 - off) with 4 by lia.
  rewrite zslice_0. rewrite ztake_app_exact by apply le_enc_zlen4. apply le_dec_enc4, Hx.
Qed.
Lemma u32_of_slice2 g off x y : 0 <= off -> zslice off (off + 8) g = le_enc 4 x ++ le_enc 4 y -> 0 <= y < 4294967296 -> u32 g (off + 4) = y.
Proof.
  intros H0 H Hy. unfold u32. rewrite zsl_eq.
  replace (zslice (off + 4) (off + 4 + 4) g) with (zslice (off + 4 - off) (off + 4 + 4 - off) (zslice off (off + 8) g)) by (apply zslice_sub; lia).
  rewrite H. rewrite zslice_app2 by (rewrite le_enc_zlen4; lia). rewrite le_enc_zlen4.
  replace (off + 4 - off - 4) with 0 by lia. replace (off + 4 + 4 - off - 4) with 4 by lia.
  rewrite zslice_0. rewrite ztake_all by (rewrite le_enc_zlen4; lia). apply le_dec_enc4, Hy.
Qed.

(* the digest of a file of the signed shape: same preimage *)
Lemma digest_of_shape f d c4 va sz rest : all_bytes f = true -> digest_pe f = Ok d ->
  zlen c4 = 4 -> 0 <= va < 4294967296 -> 0 < sz < 4294967296 ->
  va = dg_orig d + pad_of (dg_orig d) -> zlen rest = sz ->
  exists hv, nt_facts f hv /\
  let g := shape f (hv_pe hv + 88) (hv_pe hv + 24 + hv_dd4 hv) (dg_orig d) c4 (le_enc 4 va ++ le_enc 4 sz) (zeros (pad_of (dg_orig d)) ++ rest) in
  nt_facts g (set_cert hv va sz) /\
  digest_pe g = Ok (mkDg va va (hv_pe hv + 24 + hv_dd4 hv) sz (dg_pre d)).
Proof.
  intros Hb H Hc4 Hva Hsz Hv Hr.
  destruct (digest_inv f d Hb H) as (hv & Hnt & D1 & D2 & D3 & D4 & D5 & D6 & D7 & D8 & D9 & last & bs & ES & EL & ET).
  destruct (nt_basic f hv Hb Hnt) as (Hpe & Hd & Ho & Hn & Hst & Hpd & Hlen & Hsoh & Hcz & Hcs).
  destruct (scan_inv f hv last bs Hb Hnt ES) as (S1 & S2 & S3 & S4).
  exists hv. split; [exact Hnt|]. cbv zeta.
  set (ck := hv_pe hv + 88) in *. set (dd := hv_pe hv + 24 + hv_dd4 hv) in *. set (orig := dg_orig d) in *.
  destruct (pad_of_spec orig ltac:(lia)) as (P1 & P2 & P3).
  set (d8 := le_enc 4 va ++ le_enc 4 sz). set (tail := zeros (pad_of orig) ++ rest).
  set (g := shape f ck dd orig c4 d8 tail).
  assert (L8 : zlen d8 = 8) by (unfold d8; rewrite zlen_app, !le_enc_zlen4; lia).
  assert (A : agree3 f g ck dd orig) by (apply shape_agree; lia).
  assert (Lt : zlen tail = pad_of orig + sz) by (unfold tail; rewrite zlen_app, zlen_zeros; lia).
  assert (Lg : zlen g = orig + zlen tail) by (apply shape_len; lia).
  assert (Gdd : zslice dd (dd + 8) g = d8) by (apply shape_dd; lia).
  assert (N : nt_facts g (set_cert hv va sz)).
  { apply (nt_facts_same f g hv orig); try assumption; try lia.
    - eapply u32_of_slice; [lia|exact Gdd|lia].
    - eapply u32_of_slice2; [lia|exact Gdd|lia]. }
  split; [exact N|].
  rewrite digest_unfold. rewrite (read_nt_intro _ _ N). cbn [bind]. rewrite scan_set_cert.
  assert (A' : agree3 f g ck dd last) by (intros a b Ha Hab Hr'; apply A; lia).
  rewrite (scan_same f g hv last bs Hb Hnt ES ltac:(lia) A'). cbn [bind fst snd].
  unfold set_cert. cbn [hv_certstart hv_certsize hv_posdd].
  unfold read_trailer. autounfold with pegen.
  replace (sz =? 0) with false by (symmetry; apply Z.eqb_neq; lia).
  replace (va <? last) with false by (symmetry; apply Z.ltb_ge; lia).
  replace (zlen g <? last + (va - last)) with false by (symmetry; apply Z.ltb_ge; lia).
  replace (zlen g <? va + sz) with false by (symmetry; apply Z.ltb_ge; lia).
  replace (zlen g - (va + sz) >? 0) with false by (symmetry; rewrite Z.gtb_ltb; apply Z.ltb_ge; lia).
  cbn [bind fst snd].
  assert (Pv : pad_of va = 0).
  { destruct (pad_of_spec va ltac:(lia)) as (_ & _ & ->). rewrite Hv, P2. reflexivity. }
  rewrite Pv. replace (va + 0) with va by lia. f_equal. f_equal; [lia|].
  rewrite D9. change (zeros 0) with (@nil Z). rewrite app_nil_r.
  rewrite S4. unfold lin. rewrite <- !app_assoc. do 2 f_equal.
  rewrite <- (adj last orig orig va g) by lia.
  rewrite (A last orig) by lia.
  rewrite (shape_tail f c4 d8 tail ck dd orig) by lia.
  replace (orig - orig) with 0 by lia. rewrite zslice_0. unfold tail.
  rewrite ztake_app_exact by (rewrite zlen_zeros; lia).
  rewrite app_assoc. f_equal. apply adj; lia.
Qed.

(* ------------------------------------------------------------------ MakePatch's certificate table and directory entry *)
Lemma padded_spec n : 0 <= n -> n <= pe_mp_padded n < n + 8 /\ pe_mp_padded n mod 8 = 0.
Proof.
  intros H. unfold pe_mp_padded. rewrite Z.quot_div_nonneg by lia. split; [lia|]. apply Z_mod_mult.
Qed.

(* one WIN_CERTIFICATE entry as MakePatch writes it *)
Definition entry (sig : bytes) : bytes :=
  le_enc 4 (8 + pe_mp_padded (zlen sig)) ++ le_enc 2 512 ++ le_enc 2 2 ++ pad8 sig.

Lemma zlen_pad8 sig : zlen (pad8 sig) = pe_mp_padded (zlen sig).
Proof.
  pose proof (padded_spec (zlen sig) (zlen_nonneg sig)). unfold pad8. rewrite zlen_app, zlen_zeros by lia. lia.
Qed.
Lemma zlen_entry sig : zlen (entry sig) = 8 + pe_mp_padded (zlen sig).
Proof.
  unfold entry. rewrite !zlen_app, zlen_pad8, !le_enc_zlen. lia.
Qed.

Lemma cert_table_eq d sig : 0 <= dg_certstart d - dg_orig d -> zlen sig < 4294967296 - 16 ->
  cert_table d sig = zeros (dg_certstart d - dg_orig d) ++ entry sig.
Proof.
  intros Hp Hs. pose proof (padded_spec (zlen sig) (zlen_nonneg sig)) as [P1 P2]. pose proof (zlen_nonneg sig).
  unfold cert_table, entry, pad8. autounfold with pegen.
  change (Z.to_nat 4) with 4%nat. change (Z.to_nat 2) with 2%nat.
  rewrite Z.mod_small by (unfold pe_mp_padded in *; lia).
  f_equal. destruct (dg_certstart d - dg_orig d =? 0) eqn:E; cbn [negb]; zb; [rewrite E|]; reflexivity.
Qed.
Lemma dd_entry_eq d sig : 0 <= dg_certstart d - dg_orig d < 8 -> 0 <= dg_certstart d < 4294967296 -> zlen sig < 4294967296 - 24 ->
  dd_entry d sig = le_enc 4 (dg_certstart d) ++ le_enc 4 (8 + pe_mp_padded (zlen sig)).
Proof.
  intros Hp Hc Hs. pose proof (padded_spec (zlen sig) (zlen_nonneg sig)) as [P1 P2]. pose proof (zlen_nonneg sig).
  unfold dd_entry. rewrite cert_table_eq by lia. rewrite zlen_app, zlen_zeros, zlen_entry by lia.
  unfold pe_mp_dd_va, pe_mp_dd_size, pe_mp_pad2, wrap32.
  rewrite (Z.mod_small (dg_certstart d)) by lia.
  rewrite (Z.mod_small (dg_certstart d - dg_orig d + (8 + pe_mp_padded (zlen sig)))) by lia.
  rewrite (Z.mod_small (dg_certstart d - dg_orig d)) by lia.
  f_equal. f_equal. rewrite Z.mod_small by lia. lia.
Qed.

Lemma walk_entry sig k : zlen sig < 4294967296 - 16 -> walk_table (S k) (entry sig) = ([pad8 sig], 0).
Proof.
  intros Hs. pose proof (padded_spec (zlen sig) (zlen_nonneg sig)) as [P1 P2]. pose proof (zlen_nonneg sig).
  set (P := pe_mp_padded (zlen sig)) in *.
  assert (LE : zlen (entry sig) = 8 + P) by apply zlen_entry.
  cbn [walk_table]. autounfold with pegen. rewrite LE.
  replace (8 + P =? 0) with false by (symmetry; apply Z.eqb_neq; lia). cbn [negb].
  replace (8 + P <? 4) with false by (symmetry; apply Z.ltb_ge; lia).
  assert (W : le_dec (ztake 4 (entry sig)) = 8 + P).
  { unfold entry. fold P. rewrite ztake_app_exact by apply le_enc_zlen4. apply le_dec_enc4. lia. }
  rewrite W.
  assert (Q : Z.quot (8 + P + 7) 8 * 8 = 8 + P) by (rewrite Z.quot_div_nonneg by lia; lia).
  rewrite Q.
  replace ((8 + P >? 8 + P) || (8 + P - 8 <? 0)) with false
    by (symmetry; apply orb_false_iff; split; [rewrite Z.gtb_ltb; apply Z.ltb_ge; lia|apply Z.ltb_ge; lia]).
  rewrite zdrop_all by lia.
  assert (R : walk_table k [] = ([], 0)) by (destruct k; reflexivity).
  rewrite R. cbn [fst snd]. f_equal. f_equal.
  unfold entry. fold P. rewrite zslice_app2 by (rewrite le_enc_zlen4; lia). rewrite zslice_app2 by (rewrite !le_enc_zlen; lia).
  rewrite zslice_app2 by (rewrite !le_enc_zlen; lia). rewrite !le_enc_zlen. cbn [Z.of_nat Pos.of_succ_nat Pos.succ].
  replace (8 - 4 - 2 - 2) with 0 by lia. replace (8 + (8 + P - 8) - 4 - 2 - 2) with P by lia.
  rewrite zslice_0. apply ztake_all. rewrite zlen_pad8. fold P. lia.
Qed.

Definition sig_ok (sig : bytes) : Prop := zlen sig < 4294967296 - 24.

(* everything known about a successful embedding *)
Record embedded (f sig g : bytes) (d : dg) (hv : hvals) : Prop := mkEmb {
  em_digest : digest_pe f = Ok d;
  em_nt : nt_facts f hv;
  em_small : 0 <= dg_certstart d < 4294967296;
  em_shape : exists c4, zlen c4 = 4 /\ all_bytes c4 = true /\
     g = shape f (hv_pe hv + 88) (hv_pe hv + 24 + hv_dd4 hv) (dg_orig d) c4
           (le_enc 4 (dg_certstart d) ++ le_enc 4 (8 + pe_mp_padded (zlen sig)))
           (zeros (pad_of (dg_orig d)) ++ entry sig);
  em_nt_g : nt_facts g (set_cert hv (dg_certstart d) (8 + pe_mp_padded (zlen sig)));
  em_digest_g : digest_pe g = Ok (mkDg (dg_certstart d) (dg_certstart d) (hv_pe hv + 24 + hv_dd4 hv) (8 + pe_mp_padded (zlen sig)) (dg_pre d))
}.

Lemma embed_inv f sig g : all_bytes f = true -> sig_ok sig -> embed f sig = Ok g -> exists d hv, embedded f sig g d hv.
Proof.
  intros Hb Hs H. unfold sig_ok in Hs.
  destruct (digest_pe f) as [d| |] eqn:ED; try (unfold embed in H; rewrite ED in H; discriminate).
  destruct (digest_inv f d Hb ED) as (hv & Hnt & D1 & D2 & D3 & D4 & D5 & D6 & D7 & D8 & D9 & _).
  destruct (nt_basic f hv Hb Hnt) as (Hpe & Hd & Ho & Hn & Hst & Hpd & Hlen & Hsoh & Hcz & Hcs).
  destruct (pad_of_spec (dg_orig d) ltac:(lia)) as (P1 & P2 & P3).
  pose proof (padded_spec (zlen sig) (zlen_nonneg sig)) as [Q1 Q2]. pose proof (zlen_nonneg sig).
  assert (Hc : dg_certstart d < 4294967296).
  { destruct (Z_lt_ge_dec (dg_certstart d) 4294967296) as [L|L]; [exact L|].
    unfold embed in H. rewrite ED in H. cbn [bind] in H. unfold make_patch in H.
    replace (pe_mp_too_big (dg_certstart d)) with true in H
      by (symmetry; unfold pe_mp_too_big; change (Z.shiftl 1 32) with 4294967296; rewrite Z.geb_leb; apply Z.leb_le; lia).
    discriminate. }
  destruct (embed_shape f d sig Hb ED Hc) as (hv' & c4 & Hnt' & L4 & B4 & EQ).
  assert (hv' = hv) by (eapply nt_facts_unique; eauto). subst hv'.
  rewrite H in EQ. injection EQ as G.
  rewrite dd_entry_eq, cert_table_eq in G by lia.
  replace (dg_certstart d - dg_orig d) with (pad_of (dg_orig d)) in G by lia.
  destruct (digest_of_shape f d c4 (dg_certstart d) (8 + pe_mp_padded (zlen sig)) (entry sig) Hb ED L4) as (hv' & Hnt'' & N & DG);
    try lia; try apply zlen_entry.
  assert (hv' = hv) by (eapply nt_facts_unique; eauto). subst hv'. cbv zeta in N, DG. rewrite <- G in N, DG.
  exists d, hv. constructor; try assumption; try lia.
  exists c4. repeat split; assumption.
Qed.

(* L2: the digest input ignores the signature that was just embedded *)
Lemma law_hashin_pe f sig g : all_bytes f = true -> sig_ok sig -> embed f sig = Ok g -> hashin g = hashin f.
Proof.
  intros Hb Hs H. destruct (embed_inv f sig g Hb Hs H) as (d & hv & [ED _ _ _ _ EG]).
  unfold hashin. rewrite ED, EG. reflexivity.
Qed.

(* L1: the verifier finds the embedded blob (zero padded to the 8-byte boundary MakePatch pads to) *)
Lemma find_table_embedded f sig g : all_bytes f = true -> sig_ok sig -> embed f sig = Ok g -> find_table g = Ok (Some (entry sig)).
Proof.
  intros Hb Hs H. destruct (embed_inv f sig g Hb Hs H) as (d & hv & [ED Hnt Hsm (c4 & L4 & B4 & G) N EG]).
  unfold sig_ok in Hs.
  destruct (digest_inv f d Hb ED) as (hv' & Hnt' & D1 & D2 & D3 & D4 & D5 & D6 & D7 & D8 & D9 & _).
  assert (hv' = hv) by (eapply nt_facts_unique; eauto). subst hv'.
  destruct (nt_basic f hv Hb Hnt) as (Hpe & Hd & Ho & Hn & Hst & Hpd & Hlen & Hsoh & Hcz & Hcs).
  destruct (pad_of_spec (dg_orig d) ltac:(lia)) as (P1 & P2 & P3).
  pose proof (padded_spec (zlen sig) (zlen_nonneg sig)) as [Q1 Q2]. pose proof (zlen_nonneg sig).
  unfold find_table. rewrite (read_nt_intro _ _ N). cbn [bind]. unfold set_cert. cbn [hv_certstart hv_certsize].
  unfold pe_vf_not_signed.
  replace (8 + pe_mp_padded (zlen sig) =? 0) with false by (symmetry; apply Z.eqb_neq; lia).
  assert (Lg : zlen g = dg_orig d + (pad_of (dg_orig d) + (8 + pe_mp_padded (zlen sig)))).
  { rewrite G. rewrite shape_len; try lia; [|rewrite zlen_app, !le_enc_zlen4; lia]. rewrite zlen_app, zlen_zeros, zlen_entry by lia. lia. }
  replace (zlen g <? dg_certstart d + (8 + pe_mp_padded (zlen sig))) with false by (symmetry; apply Z.ltb_ge; lia).
  do 2 f_equal. rewrite G.
  rewrite shape_tail; try lia; [|rewrite zlen_app, !le_enc_zlen4; lia].
  rewrite zslice_app2 by (rewrite zlen_zeros; lia). rewrite zlen_zeros by lia.
  replace (dg_certstart d - dg_orig d - pad_of (dg_orig d)) with 0 by lia.
  rewrite zslice_0. apply ztake_all. rewrite zlen_entry. lia.
Qed.

Lemma law_extract_pe f sig g : all_bytes f = true -> sig_ok sig -> embed f sig = Ok g ->
  extract_all g = Ok (Some [pad8 sig]) /\ extract g = Ok (Some (pad8 sig)).
Proof.
  intros Hb Hs H. assert (E : extract_all g = Ok (Some [pad8 sig])).
  { unfold extract_all. rewrite (find_table_embedded f sig g Hb Hs H). cbn [bind].
    rewrite walk_entry by (unfold sig_ok in Hs; lia). reflexivity. }
  split; [exact E|]. unfold extract. rewrite E. reflexivity.
Qed.

(* ------------------------------------------------------------------ MakePatch pads: a blob and its padded form embed identically *)
Lemma padded_idem n : 0 <= n -> pe_mp_padded (pe_mp_padded n) = pe_mp_padded n.
Proof.
  intros H. pose proof (padded_spec n H) as [P1 P2]. unfold pe_mp_padded in *.
  rewrite !Z.quot_div_nonneg in * by lia. lia.
Qed.
Lemma embed_pad8 f sig : embed f (pad8 sig) = embed f sig.
Proof.
  pose proof (padded_spec (zlen sig) (zlen_nonneg sig)) as [P1 P2]. pose proof (zlen_nonneg sig).
  assert (C : forall d, cert_table d (pad8 sig) = cert_table d sig).
  { intros d. unfold cert_table. rewrite zlen_pad8, padded_idem by lia. do 4 f_equal.
    unfold pe_mp_sig_pad. replace (pe_mp_padded (zlen sig) - pe_mp_padded (zlen sig)) with 0 by lia.
    change (zeros 0) with (@nil Z). rewrite app_nil_r. reflexivity. }
  unfold embed. destruct (digest_pe f) as [d| |]; cbn [bind]; try reflexivity.
  unfold make_patch, dd_entry. rewrite C. reflexivity.
Qed.

(* ------------------------------------------------------------------ the specification's readers agree with relic's header walk *)
Lemma sp_link f hv : nt_facts f hv ->
  sp_lfanew f = hv_pe hv /\ sp_cksum f = hv_pe hv + 88 /\ sp_dd4 f = hv_pe hv + 24 + hv_dd4 hv /\
  sp_cert_va f = hv_certstart hv /\ sp_cert_size f = hv_certsize hv /\ sp_soh f = hv_soh hv /\
  sp_sectbl f = hv_sectbl hv /\ sp_nsec f = hv_nsec hv.
Proof.
  intros (H1 & H2 & H3 & H4 & H5 & H6 & H7 & H8 & H9 & H10 & H11 & H12 & H13 & H14 & H15 & H16 & H17 & H18 & H19 & H20).
  cbv zeta in *.
  assert (L : sp_lfanew f = hv_pe hv) by (unfold sp_lfanew; lia).
  assert (D : sp_dd4 f = hv_pe hv + 24 + hv_dd4 hv).
  { unfold sp_dd4, sp_ddir, sp_plus, sp_magic, sp_opt. rewrite L.
    replace (hv_pe hv + 4 + 20) with (hv_pe hv + 24) by lia.
    destruct H13 as [(M & D & O & N)|(M & D & O & N)]; rewrite M, D; cbn [Z.eqb Pos.eqb]; lia. }
  unfold sp_cert_va, sp_cert_size. rewrite D.
  unfold sp_cksum, sp_soh, sp_sectbl, sp_nsec, sp_optsize, sp_opt. rewrite L.
  replace (hv_pe hv + 4 + 20) with (hv_pe hv + 24) by lia. replace (hv_pe hv + 4 + 2) with (hv_pe hv + 6) by lia.
  replace (hv_pe hv + 4 + 16) with (hv_pe hv + 20) by lia.
  repeat split; lia.
Qed.

(* the protected bytes, as three stretches of the file with zeroed fields between them *)
Definition pmask (f : bytes) (ck dd lim : Z) : bytes :=
  zslice 0 ck f ++ zeros 4 ++ zslice (ck + 4) dd f ++ zeros 8 ++ zslice (dd + 8) lim f.

Lemma mask_fields_eq f ck dd lim : 0 <= ck -> ck + 4 <= dd -> dd + 8 <= lim ->
  mask_fields (ztake lim f) ck dd = pmask f ck dd lim.
Proof.
  intros H1 H2 H3. unfold mask_fields, pmask. rewrite ztk_eq, zsl_eq, zdp_eq.
  rewrite ztake_ztake by lia. rewrite zslice_ztake by lia. rewrite <- zslice_0.
  do 4 f_equal. unfold zslice. apply zdrop_ztake. lia.
Qed.

Lemma digest_payload_end f d hv : all_bytes f = true -> digest_pe f = Ok d -> nt_facts f hv -> sp_payload_end f = dg_orig d.
Proof.
  intros Hb H Hnt. destruct (digest_inv f d Hb H) as (hv' & Hnt' & D1 & D2 & D3 & D4 & D5 & D6 & D7 & _).
  assert (hv' = hv) by (eapply nt_facts_unique; eauto). subst hv'.
  destruct (sp_link f hv Hnt) as (_ & _ & _ & Sva & Ssz & _).
  unfold sp_payload_end. rewrite Sva, Ssz. destruct (hv_certsize hv =? 0) eqn:E; zb; [symmetry; auto|symmetry; auto].
Qed.

Lemma protected_eq f d hv : all_bytes f = true -> digest_pe f = Ok d -> nt_facts f hv ->
  protected f = pmask f (hv_pe hv + 88) (hv_pe hv + 24 + hv_dd4 hv) (dg_orig d).
Proof.
  intros Hb H Hnt. destruct (digest_inv f d Hb H) as (hv' & Hnt' & D1 & _).
  assert (hv' = hv) by (eapply nt_facts_unique; eauto). subst hv'.
  destruct (nt_basic f hv Hb Hnt) as (Hpe & Hd & _).
  destruct (sp_link f hv Hnt) as (_ & Sck & Sdd & _).
  unfold protected. rewrite (digest_payload_end f d hv Hb H Hnt), Sck, Sdd, ztk_eq. apply mask_fields_eq; lia.
Qed.

Lemma zlen_pmask f ck dd lim : 0 <= ck -> ck + 4 <= dd -> dd + 8 <= lim -> lim <= zlen f -> zlen (pmask f ck dd lim) = lim.
Proof.
  intros. unfold pmask. rewrite !zlen_app, !zlen_zslice, !zlen_zeros by lia. lia.
Qed.

(* what a successful embedding does to the file, byte for byte *)
Lemma embedded_bytes f sig g d hv : all_bytes f = true -> sig_ok sig -> embedded f sig g d hv ->
  let ck := hv_pe hv + 88 in let dd := hv_pe hv + 24 + hv_dd4 hv in let orig := dg_orig d in
  0 <= ck /\ ck + 4 <= dd /\ dd + 8 <= orig /\ orig <= zlen f /\ 0 <= pad_of orig < 8 /\ dg_certstart d = orig + pad_of orig /\
  (orig + pad_of orig) mod 8 = 0 /\
  agree3 f g ck dd orig /\ zdrop orig g = zeros (pad_of orig) ++ entry sig /\
  zlen g = orig + pad_of orig + 8 + pe_mp_padded (zlen sig) /\ zlen (zslice ck (ck + 4) g) = 4 /\ zlen (zslice dd (dd + 8) g) = 8.
Proof.
  intros Hb Hs [ED Hnt Hsm (c4 & L4 & B4 & G) N EG]. cbv zeta.
  destruct (digest_inv f d Hb ED) as (hv' & Hnt' & D1 & D2 & D3 & D4 & D5 & D6 & D7 & D8 & D9 & _).
  assert (hv' = hv) by (eapply nt_facts_unique; eauto). subst hv'.
  destruct (nt_basic f hv Hb Hnt) as (Hpe & Hd & Ho & Hn & Hst & Hpd & Hlen & Hsoh & Hcz & Hcs).
  destruct (pad_of_spec (dg_orig d) ltac:(lia)) as (P1 & P2 & P3).
  pose proof (padded_spec (zlen sig) (zlen_nonneg sig)) as [Q1 Q2]. pose proof (zlen_nonneg sig).
  assert (L8 : zlen (le_enc 4 (dg_certstart d) ++ le_enc 4 (8 + pe_mp_padded (zlen sig))) = 8) by (rewrite zlen_app, !le_enc_zlen4; lia).
  repeat (split; [lia|]).
  split; [rewrite G; apply shape_agree; lia|].
  split.
  { rewrite <- (zslice_to_end (dg_orig d) g). rewrite G at 2. rewrite shape_tail by lia.
    replace (dg_orig d - dg_orig d) with 0 by lia. rewrite zslice_0. apply ztake_all.
    rewrite G, shape_len by lia. lia. }
  split.
  { rewrite G, shape_len by lia. rewrite zlen_app, zlen_zeros, zlen_entry by lia. lia. }
  split.
  - rewrite G, shape_ck by lia. exact L4.
  - rewrite G, shape_dd by lia. exact L8.
Qed.

(* L3: the independent reader's view is unchanged *)
Lemma law_payload_pe f sig g : all_bytes f = true -> sig_ok sig -> embed f sig = Ok g -> payload_view g = payload_view f.
Proof.
  intros Hb Hs H. destruct (embed_inv f sig g Hb Hs H) as (d & hv & EM).
  destruct (embedded_bytes f sig g d hv Hb Hs EM) as (B1 & B2 & B3 & B4 & B5 & B6 & B7 & A & T & Lg & _).
  destruct EM as [ED Hnt Hsm _ N EG].
  set (ck := hv_pe hv + 88) in *. set (dd := hv_pe hv + 24 + hv_dd4 hv) in *. set (orig := dg_orig d) in *.
  pose proof (padded_spec (zlen sig) (zlen_nonneg sig)) as [Q1 Q2]. pose proof (zlen_nonneg sig).
  unfold payload_view. rewrite (protected_eq f d hv Hb ED Hnt). fold ck dd orig.
  (* the signed file *)
  destruct (sp_link g _ N) as (_ & Sck & Sdd & Sva & Ssz & _).
  unfold set_cert in Sck, Sdd, Sva, Ssz. cbn [hv_pe hv_dd4 hv_certstart hv_certsize] in Sck, Sdd, Sva, Ssz. fold ck dd in Sck, Sdd.
  assert (PE : sp_payload_end g = dg_certstart d).
  { unfold sp_payload_end. rewrite Ssz, Sva. replace (8 + pe_mp_padded (zlen sig) =? 0) with false by (symmetry; apply Z.eqb_neq; lia). reflexivity. }
  unfold protected. rewrite PE, Sck, Sdd, ztk_eq, mask_fields_eq by lia.
  assert (PM : pmask g ck dd (dg_certstart d) = pmask f ck dd orig ++ zeros (pad_of orig)).
  { unfold pmask. rewrite (A 0 ck), (A (ck + 4) dd) by lia. rewrite <- !app_assoc. do 4 f_equal.
    rewrite <- (adj (dd + 8) orig orig (dg_certstart d) g) by lia. rewrite (A (dd + 8) orig) by lia. f_equal.
    rewrite <- (zslice_sub orig (zlen g) orig (dg_certstart d) g) by lia. rewrite zslice_to_end, T.
    replace (orig - orig) with 0 by lia. rewrite zslice_0. apply ztake_app_exact. rewrite zlen_zeros; lia. }
  rewrite PM. unfold pad_to8. rewrite zlen_app, zlen_zeros, zlen_pmask by lia.
  replace ((8 - (orig + pad_of orig) mod 8) mod 8) with 0 by (rewrite B7; reflexivity).
  change (zeros 0) with (@nil Z). rewrite app_nil_r. f_equal.
  destruct (pad_of_spec orig ltac:(lia)) as (_ & _ & ->). reflexivity.
Qed.

Lemma app_eq_len {A} (a1 b1 a2 b2 : list A) : a1 ++ b1 = a2 ++ b2 -> zlen a1 = zlen a2 -> a1 = a2 /\ b1 = b2.
Proof.
  intros E L. split.
  - rewrite <- (ztake_app_exact (zlen a1) a1 b1 eq_refl), E. apply ztake_app_exact. lia.
  - rewrite <- (zdrop_app_exact (zlen a1) a1 b1 eq_refl), E. apply zdrop_app_exact. lia.
Qed.

(* what the digest input of an accepted file looks like *)
Lemma hashin_inv f pre : all_bytes f = true -> hashin f = Ok pre ->
  exists d hv, digest_pe f = Ok d /\ nt_facts f hv /\
    let ck := hv_pe hv + 88 in let dd := hv_pe hv + 24 + hv_dd4 hv in let orig := dg_orig d in
    64 <= hv_pe hv /\ (hv_dd4 hv = 128 \/ hv_dd4 hv = 144) /\ dd + 8 <= orig /\ orig <= zlen f /\
    pre = lin f ck dd orig ++ zeros (pad_of orig) /\ sp_payload_end f = orig /\
    protected f = pmask f ck dd orig.
Proof.
  intros Hb H. unfold hashin in H. destruct (digest_pe f) as [d| |] eqn:ED; cbn [bind] in H; try discriminate.
  inversion H; subst pre; clear H.
  destruct (digest_inv f d Hb ED) as (hv & Hnt & D1 & D2 & D3 & D4 & D5 & D6 & D7 & D8 & D9 & _).
  destruct (nt_basic f hv Hb Hnt) as (Hpe & Hd & _).
  exists d, hv. split; [reflexivity|]. split; [exact Hnt|]. cbv zeta.
  split; [lia|]. split; [assumption|]. split; [lia|]. split; [lia|]. split; [exact D9|].
  split; [exact (digest_payload_end f d hv Hb ED Hnt)|exact (protected_eq f d hv Hb ED Hnt)].
Qed.

Lemma lin_prefix f ck dd orig z a b : 0 <= a -> a <= b -> b <= ck -> ck <= zlen f ->
  zslice a b (lin f ck dd orig ++ z) = zslice a b f.
Proof.
  intros H1 H2 H3 H4. unfold lin. rewrite <- !app_assoc. rewrite zslice_app1 by (rewrite ?zlen_zslice; lia).
  replace a with (a - 0) at 1 by lia. replace b with (b - 0) at 1 by lia. apply zslice_sub; lia.
Qed.

(* L4: equal digest inputs force equal protected bytes (up to the zero padding in front of the certificate table) *)
Lemma protect_pe g1 g2 pre : all_bytes g1 = true -> all_bytes g2 = true -> hashin g1 = Ok pre -> hashin g2 = Ok pre ->
  pad_to8 (protected g1) = pad_to8 (protected g2).
Proof.
  intros Hb1 Hb2 H1 H2.
  destruct (hashin_inv g1 pre Hb1 H1) as (d1 & hv1 & ED1 & N1 & Hp1 & Hd1 & Ho1 & Hl1 & P1 & _ & R1).
  destruct (hashin_inv g2 pre Hb2 H2) as (d2 & hv2 & ED2 & N2 & Hp2 & Hd2 & Ho2 & Hl2 & P2 & _ & R2).
  cbv zeta in *.
  (* same e_lfanew *)
  assert (Epe : hv_pe hv1 = hv_pe hv2).
  { destruct N1 as (_ & _ & _ & E1 & _). destruct N2 as (_ & _ & _ & E2 & _). rewrite E1, E2. unfold u32. rewrite !zsl_eq.
    rewrite <- (lin_prefix g1 (hv_pe hv1 + 88) (hv_pe hv1 + 24 + hv_dd4 hv1) (dg_orig d1) (zeros (pad_of (dg_orig d1))) 60 (60 + 4)) by lia.
    rewrite <- (lin_prefix g2 (hv_pe hv2 + 88) (hv_pe hv2 + 24 + hv_dd4 hv2) (dg_orig d2) (zeros (pad_of (dg_orig d2))) 60 (60 + 4)) by lia.
    rewrite <- P1, <- P2. reflexivity. }
  (* same optional header magic, hence same directory offset *)
  assert (Edd : hv_dd4 hv1 = hv_dd4 hv2).
  { assert (M : u16 g1 (hv_pe hv1 + 24) = u16 g2 (hv_pe hv2 + 24)).
    { unfold u16. rewrite !zsl_eq.
      rewrite <- (lin_prefix g1 (hv_pe hv1 + 88) (hv_pe hv1 + 24 + hv_dd4 hv1) (dg_orig d1) (zeros (pad_of (dg_orig d1))) (hv_pe hv1 + 24) (hv_pe hv1 + 24 + 2)) by lia.
      rewrite <- (lin_prefix g2 (hv_pe hv2 + 88) (hv_pe hv2 + 24 + hv_dd4 hv2) (dg_orig d2) (zeros (pad_of (dg_orig d2))) (hv_pe hv2 + 24) (hv_pe hv2 + 24 + 2)) by lia.
      rewrite <- P1, <- P2, Epe. reflexivity. }
    destruct N1 as (_ & _ & _ & _ & _ & _ & _ & _ & _ & _ & _ & _ & M1 & _).
    destruct N2 as (_ & _ & _ & _ & _ & _ & _ & _ & _ & _ & _ & _ & M2 & _). cbv zeta in M1, M2.
    destruct M1 as [(A1 & B1 & _)|(A1 & B1 & _)], M2 as [(A2 & B2 & _)|(A2 & B2 & _)]; lia. }
  set (ck := hv_pe hv1 + 88) in *. set (dd := hv_pe hv1 + 24 + hv_dd4 hv1) in *.
  replace (hv_pe hv2 + 88) with ck in * by (unfold ck; lia).
  replace (hv_pe hv2 + 24 + hv_dd4 hv2) with dd in * by (unfold dd; lia).
  destruct (pad_of_spec (dg_orig d1) ltac:(lia)) as (Q1 & Q1' & Q1'').
  destruct (pad_of_spec (dg_orig d2) ltac:(lia)) as (Q2 & Q2' & Q2'').
  rewrite P1 in P2. unfold lin in P2. rewrite <- !app_assoc in P2.
  apply app_eq_len in P2; [|rewrite !zlen_zslice; lia]. destruct P2 as [EA P2].
  apply app_eq_len in P2; [|rewrite !zlen_zslice; lia]. destruct P2 as [EB EC].
  rewrite R1, R2. unfold pad_to8. rewrite !zlen_pmask by lia. rewrite <- Q1'', <- Q2''.
  unfold pmask. rewrite <- !app_assoc. rewrite EA, EB. do 4 f_equal. exact EC.
Qed.

(* ------------------------------------------------------------------ C05: the Authenticode algorithm on its own domain *)
Lemma sp_insert_forall (P : Z * Z -> Prop) s l : P s -> Forall P l -> Forall P (sp_insert s l).
Proof.
  intros Hs Hl. induction Hl as [|t r Ht Hr IH]; cbn [sp_insert]; [repeat constructor; exact Hs|].
  destruct (fst t <? fst s); constructor; auto.
Qed.
Lemma sp_sorted_forall (P : Z * Z -> Prop) f : Forall P (sp_secs f) -> Forall P (sp_sorted f).
Proof.
  unfold sp_sorted. generalize (sp_secs f). intros l H.
  induction H as [|s r Hs Hr IH]; cbn [filter fold_right]; [constructor|].
  destruct (negb (snd s =? 0)); cbn [fold_right]; [apply sp_insert_forall; assumption|exact IH].
Qed.
Lemma sp_secs_nonneg f : all_bytes f = true -> Forall (fun s => 0 <= snd s) (sp_secs f).
Proof.
  intros Hb. unfold sp_secs. apply Forall_forall. intros s Hs. apply in_map_iff in Hs. destruct Hs as (i & <- & _).
  unfold sp_sec. cbn [snd]. pose proof (u32_range f (sp_sectbl f + 40 * Z.of_nat i + 16) Hb). lia.
Qed.

Definition sum_from (l : list (Z * Z)) (pos : Z) : Z := fold_left (fun a s => a + snd s) l pos.
Lemma sum_from_ge l : forall pos, Forall (fun s => 0 <= snd s) l -> pos <= sum_from l pos.
Proof.
  induction l as [|s r IH]; intros pos H; [cbn; lia|].
  inversion H; subst. unfold sum_from in *. cbn [fold_left]. specialize (IH (pos + snd s) H3). lia.
Qed.
Lemma tiles_concat f l : forall pos, sp_tiles l pos = true -> Forall (fun s => 0 <= snd s) l -> 0 <= pos ->
  concat (map (fun s => zsl (fst s) (fst s + snd s) f) l) = zslice pos (sum_from l pos) f.
Proof.
  induction l as [|s r IH]; intros pos Ht Hn Hp.
  - cbn. rewrite zslice_nil_ge by lia. reflexivity.
  - inversion Hn; subst. cbn [sp_tiles] in Ht. apply andb_true_iff in Ht. destruct Ht as [E Ht]. zb.
    cbn [map concat]. rewrite zsl_eq, E. rewrite (IH (pos + snd s) Ht H2 ltac:(lia)).
    unfold sum_from. cbn [fold_left]. apply adj; [reflexivity|lia|]. apply (sum_from_ge r (pos + snd s) H2).
Qed.

Lemma hashin_eq_spec_pe f pre : all_bytes f = true -> hashin f = Ok pre -> spec_contig f = true ->
  pre = spec_hashin f ++ zeros ((8 - sp_payload_end f mod 8) mod 8).
Proof.
  intros Hb H Hc.
  destruct (hashin_inv f pre Hb H) as (d & hv & ED & Hnt & Hpe & Hd & Ho & Hl & P & PE & _). cbv zeta in *.
  destruct (digest_inv f d Hb ED) as (hv' & Hnt' & D1 & D2 & D3 & D4 & D5 & D6 & D7 & D8 & D9 & last & bs & ES & EL & ET).
  assert (hv' = hv) by (eapply nt_facts_unique; eauto). subst hv'.
  destruct (nt_basic f hv Hb Hnt) as (_ & _ & Hos & Hn & Hst & Hpd & Hlen & Hsoh & Hcz & Hcs).
  destruct (sp_link f hv Hnt) as (Slf & Sck & Sdd & Sva & Ssz & Ssoh & Stbl & Snsec).
  destruct (pad_of_spec (dg_orig d) ltac:(lia)) as (Q1 & Q2 & Q3).
  rewrite PE, <- Q3, P. f_equal.
  unfold spec_contig in Hc. apply andb_true_iff in Hc. destruct Hc as [Hc C3]. apply andb_true_iff in Hc. destruct Hc as [C1 C2]. zb.
  pose proof (sp_sorted_forall _ f (sp_secs_nonneg f Hb)) as Nn.
  unfold spec_hashin. rewrite (tiles_concat f _ _ C1 Nn ltac:(lia)).
  fold (sum_from (sp_sorted f) (sp_soh f)). change (sum_from (sp_sorted f) (sp_soh f)) with (sp_sum f) in *.
  pose proof (sum_from_ge _ (sp_soh f) Nn) as Sge. change (sum_from (sp_sorted f) (sp_soh f)) with (sp_sum f) in Sge.
  rewrite !zsl_eq, Sck, Sdd, Ssz, Ssoh in *. rewrite Sva in C3.
  unfold lin. do 2 f_equal.
  destruct (hv_certsize hv =? 0) eqn:EZ; zb.
  - rewrite (D5 EZ) in *. rewrite EZ.
    destruct (zlen f >? sp_sum f) eqn:EG; zb.
    + rewrite adj by lia. replace (sp_sum f + (zlen f - 0 - sp_sum f)) with (zlen f) by lia. rewrite adj by lia. reflexivity.
    + rewrite app_nil_r. rewrite adj by lia. f_equal. lia.
  - cbn [orb] in C3. zb. rewrite (D6 EZ) in *.
    replace (zlen f >? sp_sum f) with true by (symmetry; rewrite Z.gtb_ltb; apply Z.ltb_lt; lia).
    rewrite adj by lia. replace (sp_sum f + (zlen f - hv_certsize hv - sp_sum f)) with (hv_certstart hv) by lia.
    rewrite adj by lia. reflexivity.
Qed.

Lemma all_bytes_pad8 sig : all_bytes sig = true -> all_bytes (pad8 sig) = true.
Proof. intros H. unfold pad8. rewrite all_bytes_app, H, all_bytes_zeros. reflexivity. Qed.
Lemma all_bytes_entry sig : all_bytes sig = true -> all_bytes (entry sig) = true.
Proof.
  intros H. unfold entry. rewrite !all_bytes_app, !le_enc_bytes, all_bytes_pad8 by exact H. reflexivity.
Qed.

Lemma embed_bytes f sig g : all_bytes f = true -> all_bytes sig = true -> sig_ok sig -> embed f sig = Ok g -> all_bytes g = true.
Proof.
  intros Hb Hs Ho H. destruct (embed_inv f sig g Hb Ho H) as (d & hv & [_ _ _ (c4 & L4 & B4 & G) _ _]).
  rewrite G. unfold shape. rewrite !all_bytes_app, !all_bytes_zslice, B4, !le_enc_bytes, all_bytes_zeros, all_bytes_entry by assumption.
  reflexivity.
Qed.

(* C05: the imprint relic embeds (computed on the input) is the Authenticode digest input of the OUTPUT *)
Lemma embedded_digest_spec f sig g : all_bytes f = true -> all_bytes sig = true -> sig_ok sig -> embed f sig = Ok g ->
  spec_contig g = true -> hashin f = Ok (spec_hashin g).
Proof.
  intros Hb Hs Ho H Hc. pose proof (embed_bytes f sig g Hb Hs Ho H) as Hg.
  rewrite <- (law_hashin_pe f sig g Hb Ho H).
  destruct (embed_inv f sig g Hb Ho H) as (d & hv & EM).
  destruct (embedded_bytes f sig g d hv Hb Ho EM) as (B1 & B2 & B3 & B4 & B5 & B6 & B7 & _).
  destruct EM as [ED Hnt Hsm _ N EG].
  assert (HG : hashin g = Ok (dg_pre d)) by (unfold hashin; rewrite EG; reflexivity).
  rewrite HG. f_equal. rewrite (hashin_eq_spec_pe g (dg_pre d) Hg HG Hc).
  destruct (hashin_inv g (dg_pre d) Hg HG) as (d' & hv' & ED' & _ & _ & _ & _ & _ & _ & PE & _). cbv zeta in PE.
  rewrite EG in ED'. inversion ED'; subst d'. cbn [dg_orig] in PE. rewrite PE, B6, B7.
  change (zeros ((8 - 0) mod 8)) with (@nil Z). apply app_nil_r.
Qed.

(* ------------------------------------------------------------------ refusals *)
Lemma refuses_clean_pe f sig : is_ok (hashin f) = false -> is_ok (embed f sig) = false.
Proof.
  unfold hashin, embed. destruct (digest_pe f); cbn [bind is_ok]; [discriminate|reflexivity|reflexivity].
Qed.
Lemma embed_defined_pe f sig d : all_bytes f = true -> digest_pe f = Ok d -> dg_certstart d < 4294967296 -> exists g, embed f sig = Ok g.
Proof.
  intros Hb H Hc. destruct (embed_shape f d sig Hb H Hc) as (hv & c4 & _ & _ & _ & E). eexists. exact E.
Qed.
Lemma embed_too_big_pe f sig d : digest_pe f = Ok d -> 4294967296 <= dg_certstart d -> embed f sig = Err E_TOOBIG.
Proof.
  intros H Hc. unfold embed. rewrite H. cbn [bind]. unfold make_patch.
  replace (pe_mp_too_big (dg_certstart d)) with true
    by (symmetry; unfold pe_mp_too_big; change (Z.shiftl 1 32) with 4294967296; rewrite Z.geb_leb; apply Z.leb_le; lia).
  reflexivity.
Qed.
(* a certificate table that is not the tail of the file is never accepted *)
Lemma refuses_trailing_pe f hv : all_bytes f = true -> read_nt f = Ok hv -> hv_certsize hv <> 0 ->
  hv_certstart hv + hv_certsize hv <> zlen f -> is_ok (hashin f) = false.
Proof.
  intros Hb Hn Hz Ht. unfold hashin. destruct (digest_pe f) as [d| |] eqn:ED; cbn [bind is_ok]; try reflexivity.
  exfalso. destruct (digest_inv f d Hb ED) as (hv' & Hnt' & D1 & D2 & D3 & D4 & D5 & D6 & D7 & _).
  apply read_nt_facts in Hn. assert (hv' = hv) by (eapply nt_facts_unique; eauto). subst hv'.
  specialize (D6 Hz). lia.
Qed.

(* ------------------------------------------------------------------ is_signed *)
Lemma is_signed_spec_pe f hv : read_nt f = Ok hv -> (extract f = Ok None <-> sp_cert_size f = 0).
Proof.
  intros Hn. pose proof (read_nt_facts f hv Hn) as Hnt. destruct (sp_link f hv Hnt) as (_ & _ & _ & _ & Ssz & _).
  unfold extract, extract_all, find_table. rewrite Hn. cbn [bind]. unfold pe_vf_not_signed. rewrite Ssz.
  destruct (hv_certsize hv =? 0) eqn:E; zb.
  - cbn [bind]. split; [intros _; exact E|reflexivity].
  - split; [|intros; contradiction].
    destruct (zlen f <? hv_certstart hv + hv_certsize hv); cbn [bind]; [discriminate|].
    destruct (snd _ =? 0); cbn [bind]; [|discriminate].
    destruct (fst _) as [|b l]; discriminate.
Qed.

(* ------------------------------------------------------------------ the format, as an instance of Laws/Pipeline.v *)
Definition E_DOMAIN := 200.
(* embed restricted to the domain of the laws: byte strings, blob below 4 GiB and already 8-aligned (MakePatch pads every
   blob to 8 bytes, and the verifier returns the padded form; embed_pad8 lifts the restriction) *)
Definition blob_dom (b : bytes) : bool := (zlen b <? 4294967296 - 32) && (zlen b mod 8 =? 0).
Definition embed_dom (f b : bytes) : result bytes :=
  if all_bytes f && all_bytes b && blob_dom b then embed f b else Err E_DOMAIN.
Definition pe_format : format bytes := mkFormat bytes hashin embed_dom extract payload.

Lemma embed_dom_inv f b g : embed_dom f b = Ok g ->
  all_bytes f = true /\ all_bytes b = true /\ sig_ok b /\ pad8 b = b /\ embed f b = Ok g.
Proof.
  unfold embed_dom, blob_dom. destruct (all_bytes f); cbn [andb]; try discriminate.
  destruct (all_bytes b); cbn [andb]; try discriminate.
  destruct (zlen b <? 4294967296 - 32) eqn:E1; cbn [andb]; try discriminate.
  destruct (zlen b mod 8 =? 0) eqn:E2; try discriminate. zb. intros H.
  repeat split; try exact H. { unfold sig_ok. lia. }
  unfold pad8. pose proof (zlen_nonneg b).
  replace (pe_mp_padded (zlen b) - zlen b) with 0; [apply app_nil_r|].
  unfold pe_mp_padded. rewrite Z.quot_div_nonneg by lia. lia.
Qed.

Lemma pe_L1 : law_extract bytes pe_format.
Proof.
  intros f b g H. cbn [f_embed f_extract pe_format] in *. destruct (embed_dom_inv f b g H) as (Hf & Hb & Ho & Hp & E).
  rewrite <- Hp at 1. exact (proj2 (law_extract_pe f b g Hf Ho E)).
Qed.
Lemma pe_L2 : law_hashin bytes pe_format.
Proof.
  intros f b g H. cbn [f_embed f_hashin pe_format] in *. destruct (embed_dom_inv f b g H) as (Hf & Hb & Ho & Hp & E).
  exact (law_hashin_pe f b g Hf Ho E).
Qed.
Lemma pe_L3 : law_payload bytes pe_format.
Proof.
  intros f b g H. cbn [f_embed f_payload pe_format] in *. destruct (embed_dom_inv f b g H) as (Hf & Hb & Ho & Hp & E).
  unfold payload. f_equal. exact (law_payload_pe f b g Hf Ho E).
Qed.

Section PEPipeline.
  (* symbolic cryptography and CMS encoding, exactly as in Laws/Pipeline.v *)
  Variables key pubk sigv : Type.
  Variable H : Z -> bytes -> bytes.
  Variable pub : key -> pubk.
  Variable sign : key -> bytes -> sigv.
  Variable vrfy : pubk -> bytes -> sigv -> bool.
  Hypothesis sign_correct : forall k m, vrfy (pub k) m (sign k m) = true.
  Variable tbs : Z -> bytes -> bytes.
  Variable ser0 : sigblob pubk sigv -> bytes.                 (* DER encoding of the SignedData *)
  Variable deser0 : bytes -> option (sigblob pubk sigv).      (* pkcs7.Unmarshal: trailing zero bytes are ignored *)
  Hypothesis deser_padded : forall b n, deser0 (ser0 b ++ zeros n) = Some b.
  Hypothesis ser_bytes : forall b, all_bytes (ser0 b) = true.
  (* NOTE: no hypothesis bounds the length of EVERY encoding (with deser_padded that would be unsatisfiable: an injective
     encoding of infinitely many blobs cannot be bounded); the bound is a premise on the blobs actually embedded *)

  Let ser (b : sigblob pubk sigv) : bytes := pad8 (ser0 b).
  Let deser_ser : forall b, deser0 (ser b) = Some b.
  Proof. intros b. unfold ser, pad8. apply deser_padded. Qed.

  (* the SignedData produced for digest input pre by key k with algorithm a fits a certificate table (< 4 GiB) *)
  Definition small_for (pre : bytes) (k : key) (a : Z) : Prop :=
    zlen (ser0 (mksig key pubk sigv pub sign tbs k a (H a pre))) < 4294967296 - 40.

  (* relic's signing and re-signing on the faithful functions *)
  Definition sign_pe (k : key) (a : Z) (f : bytes) : result bytes :=
    pre <- hashin f ;; embed f (ser0 (mksig key pubk sigv pub sign tbs k a (H a pre))).
  Fixpoint resign_pe (hist : list (key * Z)) (f : bytes) : result bytes :=
    match hist with
    | [] => Ok f
    | (k, a) :: r => g <- sign_pe k a f ;; resign_pe r g
    end.
  Definition verify_pe (g : bytes) : verdict pubk := verify_file pubk sigv H vrfy tbs deser0 bytes pe_format g.

  Lemma blob_dom_ser b : zlen (ser0 b) < 4294967296 - 40 -> blob_dom (ser b) = true.
  Proof.
    intros Hs. unfold blob_dom, ser. rewrite zlen_pad8. pose proof (padded_spec _ (zlen_nonneg (ser0 b))) as [P1 P2].
    apply andb_true_iff. split; [apply Z.ltb_lt; lia|apply Z.eqb_eq; exact P2].
  Qed.
  Lemma sign_file_eq k a f : all_bytes f = true -> (forall pre, hashin f = Ok pre -> small_for pre k a) ->
    sign_file key pubk sigv H pub sign tbs ser bytes pe_format k a f = sign_pe k a f.
  Proof.
    intros Hf Hs. unfold sign_file, sign_pe. cbn [f_hashin f_embed pe_format].
    destruct (hashin f) as [pre| |]; cbn [bind]; try reflexivity.
    unfold embed_dom. rewrite Hf, blob_dom_ser by (apply Hs; reflexivity). unfold ser at 1. rewrite all_bytes_pad8 by apply ser_bytes. cbn [andb].
    unfold ser. apply embed_pad8.
  Qed.
  Lemma sign_pe_inv k a f g : all_bytes f = true -> (forall pre, hashin f = Ok pre -> small_for pre k a) -> sign_pe k a f = Ok g ->
    all_bytes g = true /\ hashin g = hashin f.
  Proof.
    intros Hf Hsm Hs. unfold sign_pe in Hs. destruct (hashin f) as [pre| |] eqn:E; cbn [bind] in Hs; try discriminate.
    assert (So : sig_ok (ser0 (mksig key pubk sigv pub sign tbs k a (H a pre)))) by (unfold sig_ok; pose proof (Hsm pre eq_refl) as S; unfold small_for in S; lia).
    split.
    - eapply embed_bytes; [exact Hf|apply ser_bytes|exact So|exact Hs].
    - rewrite <- E. eapply law_hashin_pe; [exact Hf|exact So|exact Hs].
  Qed.
  Lemma resign_eq hist : forall f, all_bytes f = true ->
    (forall pre k a, hashin f = Ok pre -> In (k, a) hist -> small_for pre k a) ->
    resign key pubk sigv H pub sign tbs ser bytes pe_format hist f = resign_pe hist f.
  Proof.
    induction hist as [|[k a] r IH]; intros f Hf Hs; [reflexivity|].
    cbn [resign resign_pe]. rewrite sign_file_eq by (try exact Hf; intros pre E; apply (Hs pre k a E); left; reflexivity).
    destruct (sign_pe k a f) as [g| |] eqn:E; cbn [bind]; try reflexivity.
    destruct (sign_pe_inv k a f g Hf ltac:(intros pre E'; apply (Hs pre k a E'); left; reflexivity) E) as [Bg Hg].
    apply IH; [exact Bg|]. intros pre k' a' E' I. apply (Hs pre k' a'); [rewrite <- Hg; exact E'|right; exact I].
  Qed.

  (* C01 *)
  Theorem sign_then_verify_pe k a f g : all_bytes f = true -> (forall pre, hashin f = Ok pre -> small_for pre k a) ->
    sign_pe k a f = Ok g -> verify_pe g = Accept pubk (pub k) a.
  Proof.
    intros Hf Hsm Hs. rewrite <- sign_file_eq in Hs by assumption.
    exact (sign_then_verify key pubk sigv H pub sign vrfy sign_correct tbs ser deser0 deser_ser bytes pe_format pe_L1 pe_L2 k a f g Hs).
  Qed.
  (* C08 *)
  Theorem resign_history_pe hist f g k a : all_bytes f = true ->
    (forall pre k' a', hashin f = Ok pre -> In (k', a') (hist ++ [(k, a)]) -> small_for pre k' a') ->
    resign_pe (hist ++ [(k, a)]) f = Ok g ->
    verify_pe g = Accept pubk (pub k) a /\ is_signed bytes pe_format g = true /\ payload g = payload f /\ hashin g = hashin f.
  Proof.
    intros Hf Hsm Hs. rewrite <- resign_eq in Hs by assumption.
    exact (resign_history key pubk sigv H pub sign vrfy sign_correct tbs ser deser0 deser_ser bytes pe_format pe_L1 pe_L2 pe_L3 hist f g k a Hs).
  Qed.

  (* C02: under the symbolic idealisation, an accepted file has the protected bytes of the file that was signed *)
  Variable issued : key -> Z -> bytes -> Prop.
  Hypothesis unforgeable : forall k a d s, vrfy (pub k) (tbs a d) s = true -> issued k a d.
  Theorem tamper_rejected_pe g g' k a pre : all_bytes g = true -> all_bytes g' = true ->
    (forall d, issued k a d -> d = H a pre) -> (forall x y, H a x = H a y -> x = y) ->
    hashin g = Ok pre -> verify_pe g' = Accept pubk (pub k) a ->
    pad_to8 (protected g') = pad_to8 (protected g).
  Proof.
    intros Hg Hg' Honly Hinj Hh Hv.
    pose proof (tamper_rejected_preimage key pubk sigv H pub vrfy tbs deser0 bytes pe_format issued unforgeable g g' k a pre Honly Hinj Hh Hv) as Hp.
    cbn [f_hashin pe_format] in Hp. exact (protect_pe g' g pre Hg' Hg Hp Hh).
  Qed.
End PEPipeline.
