(* FmtPE/Proofs.v — lemmas behind FmtPE/Properties.v *)
From Relic Require Import Base.Prelude Base.Enc Generated.FmtPE_gen C12.Model C12.Proofs FmtPE.Model Laws.Pipeline.

(* ------------------------------------------------------------------ slices *)
Lemma zslice_nil_ge {A} a b (l : list A) : b <= a -> zslice a b l = [].
Proof. intros H. unfold zslice. apply ztake_neg. lia. Qed.
Lemma zslice_all_past {A} a b (l : list A) : zlen l <= a -> zslice a b l = [].
Proof. intros H. unfold zslice. rewrite zdrop_all by lia. unfold ztake. apply firstn_nil. Qed.

Lemma zsl_eq a b f : zsl a b f = zslice a b f.
Proof.
  unfold zsl. pose proof (zlen_nonneg f) as Hn.
  destruct (Z_le_gt_dec b a) as [Hba|Hba].
  - rewrite (zslice_nil_ge a b) by lia. apply zslice_nil_ge. lia.
  - destruct (Z_le_gt_dec (zlen f) a) as [Ha|Ha].
    + rewrite (zslice_all_past a b) by lia. apply zslice_all_past. lia.
    + rewrite Z.min_l by lia. unfold zslice.
      destruct (Z_le_gt_dec b (zlen f)) as [Hb|Hb]; [now rewrite Z.min_l by lia|].
      rewrite Z.min_r by lia.
      destruct (Z_le_gt_dec a 0) as [Ha0|Ha0].
      * rewrite zdrop_neg by lia. rewrite !ztake_all by lia. reflexivity.
      * rewrite !ztake_all; [reflexivity| |]; rewrite zlen_zdrop by lia; lia.
Qed.
Lemma ztk_eq n f : ztk n f = ztake n f.
Proof.
  unfold ztk. destruct (Z_le_gt_dec n (zlen f)); [now rewrite Z.min_l by lia|].
  rewrite Z.min_r by lia. rewrite !ztake_all by lia. reflexivity.
Qed.
Lemma zdp_eq n f : zdp n f = zdrop n f.
Proof.
  unfold zdp. destruct (Z_le_gt_dec n (zlen f)); [now rewrite Z.min_l by lia|].
  rewrite Z.min_r by lia. rewrite !zdrop_all by lia. reflexivity.
Qed.

Lemma zslice_0 {A} n (l : list A) : zslice 0 n l = ztake n l.
Proof. unfold zslice. rewrite zdrop_0. f_equal. lia. Qed.
Lemma zslice_to_end {A} a (l : list A) : zslice a (zlen l) l = zdrop a l.
Proof.
  unfold zslice. destruct (Z_le_gt_dec a 0).
  - rewrite zdrop_neg by lia. apply ztake_all. lia.
  - destruct (Z_le_gt_dec a (zlen l)).
    + apply ztake_all. rewrite zlen_zdrop by lia. lia.
    + rewrite zdrop_all by lia. unfold ztake. apply firstn_nil.
Qed.
Lemma zlen_zslice {A} a b (l : list A) : 0 <= a <= b -> b <= zlen l -> zlen (zslice a b l) = b - a.
Proof. intros H1 H2. unfold zslice. rewrite zlen_ztake; [lia|]. rewrite zlen_zdrop by lia. lia. Qed.
Lemma zlen_zslice_le {A} a b (l : list A) : 0 <= a <= b -> zlen (zslice a b l) <= b - a.
Proof.
  intros H. unfold zslice. rewrite zlen_ztake_min by lia. lia.
Qed.

Lemma firstn_plus {A} (k m : nat) (l : list A) : firstn (k + m) l = firstn k l ++ firstn m (skipn k l).
Proof.
  revert l; induction k as [|k IH]; intros l; [reflexivity|].
  destruct l as [|x l]; [now rewrite !firstn_nil|]. cbn [Nat.add firstn skipn app]. f_equal. apply IH.
Qed.
Lemma ztake_split {A} k n (l : list A) : 0 <= k <= n -> ztake n l = ztake k l ++ ztake (n - k) (zdrop k l).
Proof.
  intros H. unfold ztake, zdrop. replace (Z.to_nat n) with (Z.to_nat k + Z.to_nat (n - k))%nat by lia.
  apply firstn_plus.
Qed.
(* adjacent slices concatenate *)
Lemma zslice_app_adj {A} a b c (l : list A) : 0 <= a <= b -> b <= c -> zslice a b l ++ zslice b c l = zslice a c l.
Proof.
  intros Hab Hbc. unfold zslice.
  rewrite (ztake_split (b - a) (c - a)) by lia.
  f_equal. rewrite zdrop_zdrop by lia. f_equal; [lia|]. f_equal. lia.
Qed.
(* a slice of a slice *)
Lemma zslice_sub {A} lo hi a b (l : list A) : 0 <= lo <= a -> a <= b -> b <= hi ->
  zslice (a - lo) (b - lo) (zslice lo hi l) = zslice a b l.
Proof.
  intros H1 H2 H3. unfold zslice.
  rewrite zdrop_ztake by lia. rewrite zdrop_zdrop by lia.
  rewrite ztake_ztake by lia. f_equal; [lia|]. f_equal. lia.
Qed.
Lemma zslice_ztake {A} a b n (l : list A) : 0 <= a -> b <= n -> zslice a b (ztake n l) = zslice a b l.
Proof.
  intros Ha Hb. rewrite <- (zslice_0 n l).
  replace a with (a - 0) at 1 by lia. replace b with (b - 0) at 1 by lia.
  destruct (Z_le_gt_dec a b); [apply zslice_sub; lia|].
  rewrite !zslice_nil_ge by lia. reflexivity.
Qed.
Lemma zslice_app1 {A} a b (x y : list A) : 0 <= a -> b <= zlen x -> zslice a b (x ++ y) = zslice a b x.
Proof.
  intros Ha Hb. unfold zslice. destruct (Z_le_gt_dec a b).
  - rewrite zdrop_app_l by lia. apply ztake_app_l. rewrite zlen_zdrop by lia. lia.
  - rewrite !ztake_neg by lia. reflexivity.
Qed.
Lemma zslice_app2 {A} a b (x y : list A) : zlen x <= a -> zslice a b (x ++ y) = zslice (a - zlen x) (b - zlen x) y.
Proof. intros Ha. unfold zslice. rewrite zdrop_app_r by lia. f_equal. lia. Qed.
Lemma zslice_exact {A} (x y z : list A) a b : a = zlen x -> b = zlen x + zlen y -> zslice a b (x ++ y ++ z) = y.
Proof.
  intros -> ->. rewrite zslice_app2 by lia. replace (zlen x - zlen x) with 0 by lia.
  replace (zlen x + zlen y - zlen x) with (zlen y) by lia. rewrite zslice_0. apply ztake_app_exact. reflexivity.
Qed.
Lemma ztake_as_slice {A} n (l : list A) : ztake n l = zslice 0 n l.
Proof. symmetry. apply zslice_0. Qed.
Lemma zslice_full {A} a b (l : list A) : 0 <= a -> zslice a b l = zslice a (Z.min b (zlen l)) l.
Proof.
  intros Ha. destruct (Z_le_gt_dec b (zlen l)); [now rewrite Z.min_l by lia|].
  rewrite Z.min_r by lia. rewrite zslice_to_end. unfold zslice.
  destruct (Z_le_gt_dec a (zlen l)).
  - apply ztake_all. rewrite zlen_zdrop by lia. lia.
  - rewrite zdrop_all by lia. unfold ztake. apply firstn_nil.
Qed.

Lemma zlen_zeros n : 0 <= n -> zlen (zeros n) = n.
Proof. intros H. unfold zeros. rewrite zlen_repeat. lia. Qed.
Lemma zeros_0 : zeros 0 = [].
Proof. reflexivity. Qed.
Lemma zeros_neg n : n <= 0 -> zeros n = [].
Proof. intros H. unfold zeros. replace (Z.to_nat n) with 0%nat by lia. reflexivity. Qed.
Lemma zeros_app a b : 0 <= a -> 0 <= b -> zeros a ++ zeros b = zeros (a + b).
Proof. intros Ha Hb. unfold zeros. rewrite <- repeat_app. f_equal. lia. Qed.
Lemma all_bytes_zeros n : all_bytes (zeros n) = true.
Proof.
  unfold zeros. induction (Z.to_nat n) as [|k IH]; [reflexivity|].
  cbn [repeat all_bytes forallb]. exact IH.
Qed.

(* ------------------------------------------------------------------ byte strings *)
Lemma all_bytes_ztake n l : all_bytes l = true -> all_bytes (ztake n l) = true.
Proof.
  intros H. rewrite <- (ztake_zdrop n l), all_bytes_app in H. apply andb_true_iff in H. tauto.
Qed.
Lemma all_bytes_zdrop n l : all_bytes l = true -> all_bytes (zdrop n l) = true.
Proof.
  intros H. rewrite <- (ztake_zdrop n l), all_bytes_app in H. apply andb_true_iff in H. tauto.
Qed.
Lemma all_bytes_zslice a b l : all_bytes l = true -> all_bytes (zslice a b l) = true.
Proof. intros H. unfold zslice. apply all_bytes_ztake, all_bytes_zdrop, H. Qed.

Lemma le_dec_nonneg l : all_bytes l = true -> 0 <= le_dec l.
Proof. intros H. pose proof (le_dec_range l H). lia. Qed.
Lemma u32_range f off : all_bytes f = true -> 0 <= u32 f off < 4294967296.
Proof.
  intros H. unfold u32. rewrite zsl_eq.
  pose proof (le_dec_range _ (all_bytes_zslice off (off + 4) f H)) as R.
  pose proof (zlen_nonneg (zslice off (off + 4) f)) as N.
  assert (L : zlen (zslice off (off + 4) f) <= 4).
  { unfold zslice. replace (off + 4 - off) with 4 by lia. rewrite zlen_ztake_min by lia. lia. }
  assert (256 ^ zlen (zslice off (off + 4) f) <= 256 ^ 4) by (apply Z.pow_le_mono_r; lia).
  change (256 ^ 4) with 4294967296 in *. lia.
Qed.
Lemma u16_range f off : all_bytes f = true -> 0 <= u16 f off < 65536.
Proof.
  intros H. unfold u16. rewrite zsl_eq.
  pose proof (le_dec_range _ (all_bytes_zslice off (off + 2) f H)) as R.
  pose proof (zlen_nonneg (zslice off (off + 2) f)) as N.
  assert (L : zlen (zslice off (off + 2) f) <= 2).
  { unfold zslice. replace (off + 2 - off) with 2 by lia. rewrite zlen_ztake_min by lia. lia. }
  assert (256 ^ zlen (zslice off (off + 2) f) <= 256 ^ 2) by (apply Z.pow_le_mono_r; lia).
  change (256 ^ 2) with 65536 in *. lia.
Qed.

(* byte_at through a one-byte slice *)
Lemma byte_at_slice f i : 0 <= i -> byte_at f i = le_dec (zslice i (i + 1) f).
Proof.
  intros Hi. unfold byte_at.
  destruct (i <? zlen f) eqn:E.
  - apply Z.ltb_lt in E. unfold zslice, ztake, zdrop. replace (i + 1 - i) with 1 by lia.
    change (Z.to_nat 1) with 1%nat.
    assert (Hl : (Z.to_nat i < length f)%nat) by (unfold zlen in E; lia).
    revert Hl. generalize (Z.to_nat i). clear. intros n. revert f.
    induction n as [|n IH]; intros [|x f] Hl; cbn in Hl; try lia.
    + cbn. lia.
    + cbn [nth skipn]. apply IH. lia.
  - apply Z.ltb_ge in E. rewrite zslice_all_past by lia. reflexivity.
Qed.

(* ------------------------------------------------------------------ unfolding of the generated definitions *)
Create HintDb pegen.
#[export] Hint Unfold pe_dos_header_size pe_magic_pe32 pe_magic_pe32plus pe_dos_bad_magic pe_lfanew_off pe_lfanew_overlaps_dos
  pe_dos_read_len pe_dos_stub_len pe_nt_bad_magic pe_nt_magic_len pe_coff_len pe_cksum_start pe_cksum_end pe_dd4_start_32
  pe_dd4_start_64 pe_dd4_end pe_optmagic_len pe_no_room_32 pe_no_room_64 pe_sectbl_start pe_pos_ddcert pe_hashes_before_cksum
  pe_hashes_between pe_hashes_after_dd4 pe_sectbl_size pe_sectbl_end pe_table_overlaps_hdr pe_rs_skip_empty pe_sec_overlaps_table
  pe_sec_before_hdr_end pe_sec_not_last pe_hdr_shrinks_to_section pe_aligns_mid_sections pe_hdr_padding_len pe_align_rem
  pe_align_needed pe_align_adds pe_has_gap pe_gap_len pe_dg_skip_empty pe_sec_not_contiguous pe_next_advances pe_pad_rem
  pe_pad_needed pe_pad_len pe_certstart_padded pe_tr_unsigned pe_tr_sig_overlaps pe_tr_garbage pe_tr_orig_unsigned
  pe_tr_orig_signed pe_tr_before_cert pe_mp_padded pe_mp_length pe_mp_revision pe_mp_certtype pe_certinfo_w_Length
  pe_certinfo_w_Revision pe_certinfo_w_CertificateType pe_mp_pad2 pe_mp_has_pad2 pe_mp_too_big pe_mp_dd_va pe_mp_dd_size
  pe_mp_patch1_off pe_mp_patch1_old pe_mp_patch2_off pe_mp_patch2_old pe_mp_sig_pad pe_vf_not_signed pe_cs_more pe_cs_short
  pe_cs_end pe_cs_size pe_cs_invalid pe_cs_wlen_len pe_cs_cert_lo pe_cs_cert_hi pe_cs_rest_lo pe_fix_write_off
  coff_off_machine coff_off_nsec coff_off_optsize opt_off_filealign opt_off_sizeofheaders opt_off_numrva32 opt_off_numrva64
  opt32_size opt64_size sec_off_rawsize sec_off_rawptr dd_off_size
  E_EOF E_NOTPE E_MAGIC E_NOROOM E_TBLOVER E_SECOVER E_BEGINS E_GAPREAD E_SIGOVER E_TRAILING E_TOOBIG E_BADTABLE E_LFANEW : pegen.

Ltac break_if H :=
  match type of H with
  | context [if ?c then _ else _] => let E := fresh "E" in destruct c eqn:E; try discriminate H
  end.
Ltac zb :=
  repeat match goal with
  | H : (_ <? _) = true |- _ => apply Z.ltb_lt in H
  | H : (_ <? _) = false |- _ => apply Z.ltb_ge in H
  | H : (_ <=? _) = true |- _ => apply Z.leb_le in H
  | H : (_ <=? _) = false |- _ => apply Z.leb_gt in H
  | H : (_ >? _) = true |- _ => rewrite Z.gtb_ltb in H; apply Z.ltb_lt in H
  | H : (_ >? _) = false |- _ => rewrite Z.gtb_ltb in H; apply Z.ltb_ge in H
  | H : (_ >=? _) = true |- _ => rewrite Z.geb_leb in H; apply Z.leb_le in H
  | H : (_ >=? _) = false |- _ => rewrite Z.geb_leb in H; apply Z.leb_gt in H
  | H : (_ =? _) = true |- _ => apply Z.eqb_eq in H
  | H : (_ =? _) = false |- _ => apply Z.eqb_neq in H
  | H : negb _ = true |- _ => apply negb_true_iff in H
  | H : negb _ = false |- _ => apply negb_false_iff in H
  | H : (_ || _) = false |- _ => apply orb_false_iff in H; destruct H
  | H : (_ && _) = true |- _ => apply andb_true_iff in H; destruct H
  end.

(* ------------------------------------------------------------------ read_nt, characterised *)
Definition page_of (machine : Z) : Z :=
  if existsb (Z.eqb machine) pe_page_machines then pe_page_size_listed else pe_page_size_default.

Definition nt_facts (f : bytes) (hv : hvals) : Prop :=
  let pe := hv_pe hv in
  let opt := pe + 24 in
  64 <= zlen f /\ byte_at f 0 = 77 /\ byte_at f 1 = 90 /\ pe = u32 f 60 /\ 64 <= pe /\
  byte_at f pe = 80 /\ byte_at f (pe + 1) = 69 /\ byte_at f (pe + 2) = 0 /\ byte_at f (pe + 3) = 0 /\
  hv_nsec hv = u16 f (pe + 6) /\ hv_optsize hv = u16 f (pe + 20) /\ opt + hv_optsize hv <= zlen f /\
  ((u16 f opt = 267 /\ hv_dd4 hv = 128 /\ 224 <= hv_optsize hv /\ 5 <= u32 f (opt + 92)) \/
   (u16 f opt = 523 /\ hv_dd4 hv = 144 /\ 240 <= hv_optsize hv /\ 5 <= u32 f (opt + 108))) /\
  hv_posdd hv = opt + hv_dd4 hv /\ hv_sectbl hv = opt + hv_optsize hv /\
  hv_soh hv = u32 f (opt + 60) /\ hv_falign hv = u32 f (opt + 36) /\ hv_page hv = page_of (u16 f (pe + 4)) /\
  hv_certstart hv = u32 f (opt + hv_dd4 hv) /\ hv_certsize hv = u32 f (opt + hv_dd4 hv + 4).

Ltac is_num a := lazymatch a with Z0 => idtac | Zpos _ => idtac | Zneg _ => idtac end.
(* offsets of the form p + c1 + c2 (constants) are brought to p + c *)
Ltac norm_off :=
  repeat match goal with
  | |- context [?p + ?a + ?b] => is_num a; is_num b; let c := eval compute in (a + b) in replace (p + a + b) with (p + c) by lia
  | H : context [?p + ?a + ?b] |- _ => is_num a; is_num b; let c := eval compute in (a + b) in replace (p + a + b) with (p + c) in H by lia
  | |- context [?p + 0] => replace (p + 0) with p by lia
  | H : context [?p + 0] |- _ => replace (p + 0) with p in H by lia
  end.

Lemma read_nt_facts f hv : read_nt f = Ok hv -> nt_facts f hv.
Proof.
  unfold read_nt. intros H.
  repeat break_if H; autounfold with pegen in *; zb;
  inversion H; subst hv; clear H; unfold nt_facts; cbn [hv_pe hv_nsec hv_optsize hv_dd4 hv_posdd hv_sectbl hv_soh hv_falign hv_page hv_certstart hv_certsize];
  unfold page_of; norm_off;
  repeat match goal with H : existsb _ _ = _ |- _ => rewrite H end;
  repeat split; try lia; try reflexivity; try (left; repeat split; lia); try (right; repeat split; lia).
Qed.

Lemma hv_eta hv : hv = mkHv (hv_pe hv) (hv_nsec hv) (hv_optsize hv) (hv_dd4 hv) (hv_posdd hv) (hv_sectbl hv) (hv_soh hv)
                             (hv_falign hv) (hv_page hv) (hv_certstart hv) (hv_certsize hv).
Proof. destruct hv; reflexivity. Qed.

Ltac decide_if :=
  match goal with
  | |- context [if ?c then _ else _] =>
      first [ replace c with false by (symmetry; autounfold with pegen; first [apply Z.ltb_ge; lia | apply Z.eqb_neq; lia | apply Z.leb_gt; lia
                                        | apply orb_false_iff; repeat split; apply negb_false_iff, Z.eqb_eq; lia
                                        | apply orb_false_iff; repeat split; try apply orb_false_iff; repeat split; apply negb_false_iff, Z.eqb_eq; lia ])
            | replace c with true by (symmetry; autounfold with pegen; first [apply Z.ltb_lt; lia | apply Z.eqb_eq; lia | apply Z.leb_le; lia]) ]
  end.

Lemma read_nt_intro f hv : nt_facts f hv -> read_nt f = Ok hv.
Proof.
  unfold nt_facts. cbv zeta. intros (H1 & H2 & H3 & H4 & H5 & H6 & H7 & H8 & H9 & H10 & H11 & H12 & H13 & H14 & H15 & H16 & H17 & H18 & H19 & H20).
  rewrite (hv_eta hv). unfold read_nt.
  autounfold with pegen. rewrite <- H4. norm_off.
  rewrite H2, H3, H6, H7, H8, H9. cbn [Z.eqb Pos.eqb negb orb].
  rewrite <- H10, <- H11.
  destruct H13 as [(M & D & O & N)|(M & D & O & N)]; rewrite M;
  [change (267 =? 267) with true | change (523 =? 267) with false; change (523 =? 523) with true]; cbv iota;
  repeat decide_if; unfold page_of in H18; rewrite H14, H15, H16, H17, H18, H19, H20, D; norm_off; reflexivity.
Qed.

(* ------------------------------------------------------------------ DigestPE split into scan (headers + sections) and trailer *)
Definition scan_body (f : bytes) (hv : hvals) : result (Z * bytes) :=
  let tblend := pe_sectbl_end (hv_sectbl hv) (pe_sectbl_size (hv_nsec hv)) in
  if pe_table_overlaps_hdr tblend (hv_soh hv) then Err E_TBLOVER else
  if zlen f <? tblend then Err E_EOF else
  adj <- adjust_secs (read_secs f (hv_sectbl hv) (Z.to_nat (hv_nsec hv)) 0) 0 (hv_nsec hv) tblend (hv_falign hv) (hv_soh hv) ;;
  let secs := fst adj in
  let soh := snd adj in
  if zlen f <? tblend + pe_hdr_padding_len soh tblend then Err E_EOF else
  let hdr := concat (header_pieces f hv soh) in
  let ptr0 := match secs with (p, _) :: _ => p | [] => 0 end in
  let gap := pe_has_gap (hv_nsec hv) ptr0 soh in
  if gap && (zlen f <? soh + pe_gap_len ptr0 soh) then Err E_GAPREAD else
  let next := if gap then ptr0 else soh in
  let gapbytes := if gap then zslice soh (soh + pe_gap_len ptr0 soh) f else [] in
  hs <- hash_secs f secs next ;;
  Ok (fst hs, hdr ++ gapbytes ++ snd hs).

Definition pad_of (orig : Z) : Z := if pe_pad_needed (pe_pad_rem orig) then pe_pad_len (pe_pad_rem orig) else 0.

Lemma digest_unfold f :
  digest_pe f =
  (hv <- read_nt f ;; s <- scan_body f hv ;;
   tr <- read_trailer f (fst s) (hv_certstart hv) (hv_certsize hv) ;;
   Ok (mkDg (fst tr) (fst tr + pad_of (fst tr)) (hv_posdd hv) (hv_certsize hv) (snd s ++ snd tr ++ zeros (pad_of (fst tr))))).
Proof.
  unfold digest_pe, scan_body, pad_of.
  destruct (read_nt f) as [hv| |]; cbn [bind]; try reflexivity.
  destruct (pe_table_overlaps_hdr _ _); try reflexivity.
  destruct (zlen f <? _); try reflexivity.
  destruct (adjust_secs _ _ _ _ _ _) as [adj| |]; cbn [bind]; try reflexivity.
  destruct (zlen f <? _); try reflexivity.
  destruct (_ && _); try reflexivity.
  destruct (hash_secs _ _ _) as [hs| |]; cbn [bind fst snd]; try reflexivity.
  destruct (read_trailer _ _ _ _) as [tr| |]; cbn [bind]; try reflexivity.
  change pe_certstart_padded with true. cbv iota. f_equal. f_equal. rewrite <- !app_assoc. reflexivity.
Qed.

Definition nonneg_sizes (secs : list (Z * Z)) : Prop := Forall (fun s => 0 <= snd s) secs.

Lemma wrap32_nonneg n : 0 <= wrap32 n.
Proof. unfold wrap32. pose proof (Z.mod_pos_bound n 4294967296). lia. Qed.
Lemma align32_nonneg a al : 0 <= a -> 0 <= align32 a al.
Proof.
  intros H. unfold align32. destruct (pe_align_needed _); [|exact H].
  change pe_align_adds with true. cbv iota. apply wrap32_nonneg.
Qed.

Lemma adjust_inv secs : forall i nsec tblend falign soh secs' soh',
  adjust_secs secs i nsec tblend falign soh = Ok (secs', soh') ->
  tblend <= soh -> nonneg_sizes secs ->
  tblend <= soh' <= soh /\ nonneg_sizes secs'.
Proof.
  induction secs as [|[ptr size] r IH]; intros i nsec tblend falign soh secs' soh' H Hs Hn.
  - cbn in H. inversion H; subst. split; [lia|constructor].
  - inversion Hn as [|x l Hx Hr]; subst. cbn [snd] in Hx.
    cbn [adjust_secs] in H.
    destruct (pe_rs_skip_empty size) eqn:E1.
    + destruct (adjust_secs r (i + 1) nsec tblend falign soh) as [[s2 h2]| |] eqn:E; cbn [bind fst snd] in H; try discriminate.
      inversion H; subst. destruct (IH _ _ _ _ _ _ _ E Hs Hr) as [B N]. split; [exact B|]. constructor; [exact Hx|exact N].
    + destruct (pe_sec_overlaps_table ptr tblend) eqn:E2; try discriminate.
      autounfold with pegen in E2. zb.
      set (soh1 := if pe_sec_before_hdr_end ptr soh && pe_hdr_shrinks_to_section then ptr else soh) in *.
      assert (B1 : tblend <= soh1 <= soh).
      { unfold soh1. destruct (pe_sec_before_hdr_end ptr soh) eqn:E3; cbn [andb]; autounfold with pegen in *; zb; cbv iota; lia. }
      destruct (pe_sec_not_last i nsec && pe_aligns_mid_sections).
      * destruct (falign =? 0); try discriminate.
        destruct (adjust_secs r (i + 1) nsec tblend falign soh1) as [[s2 h2]| |] eqn:E; cbn [bind fst snd] in H; try discriminate.
        inversion H; subst. destruct (IH _ _ _ _ _ _ _ E (proj1 B1) Hr) as [B N]. split; [lia|].
        constructor; [cbn [snd]; apply align32_nonneg; exact Hx|exact N].
      * destruct (adjust_secs r (i + 1) nsec tblend falign soh1) as [[s2 h2]| |] eqn:E; cbn [bind fst snd] in H; try discriminate.
        inversion H; subst. destruct (IH _ _ _ _ _ _ _ E (proj1 B1) Hr) as [B N]. split; [lia|].
        constructor; [exact Hx|exact N].
Qed.

Lemma read_secs_nonneg f tbl n : forall i, all_bytes f = true -> nonneg_sizes (read_secs f tbl n i).
Proof.
  induction n as [|n IH]; intros i H; cbn [read_secs]; constructor.
  - unfold sec_entry. cbn [snd]. pose proof (u32_range f (tbl + pe_sectbl_size i + sec_off_rawsize) H). lia.
  - apply IH, H.
Qed.

Lemma hash_secs_inv f secs : forall next last bs,
  hash_secs f secs next = Ok (last, bs) -> 0 <= next -> next <= zlen f -> nonneg_sizes secs ->
  next <= last <= zlen f /\ bs = zslice next last f.
Proof.
  induction secs as [|[ptr size] r IH]; intros next last bs H H0 Hl Hn.
  - cbn in H. inversion H; subst. split; [lia|]. rewrite zslice_nil_ge by lia. reflexivity.
  - inversion Hn as [|x l Hx Hr]; subst. cbn [snd] in Hx. cbn [hash_secs] in H.
    destruct (pe_dg_skip_empty size); [exact (IH _ _ _ H H0 Hl Hr)|].
    destruct (pe_sec_not_contiguous ptr next); try discriminate.
    destruct (zlen f <? next + size) eqn:E; try discriminate. zb.
    change pe_next_advances with true in H. cbv iota in H.
    destruct (hash_secs f r (next + size)) as [[l2 b2]| |] eqn:E2; cbn [bind fst snd] in H; try discriminate.
    inversion H; subst. destruct (IH _ _ _ E2 ltac:(lia) ltac:(lia) Hr) as [B ->].
    split; [lia|]. apply zslice_app_adj; lia.
Qed.

Lemma hash_secs_same f g secs : forall next last bs,
  hash_secs f secs next = Ok (last, bs) -> 0 <= next -> next <= zlen f -> nonneg_sizes secs ->
  last <= zlen g ->
  (forall a b, next <= a -> a <= b -> b <= last -> zslice a b g = zslice a b f) ->
  hash_secs g secs next = Ok (last, bs).
Proof.
  induction secs as [|[ptr size] r IH]; intros next last bs H H0 Hl Hn Hg Hs.
  - exact H.
  - inversion Hn as [|x l Hx Hr]; subst. cbn [snd] in Hx. cbn [hash_secs] in H |- *.
    destruct (pe_dg_skip_empty size); [exact (IH _ _ _ H H0 Hl Hr Hg Hs)|].
    destruct (pe_sec_not_contiguous ptr next); try discriminate.
    destruct (zlen f <? next + size) eqn:E; try discriminate. zb.
    change pe_next_advances with true in *. cbv iota in *.
    destruct (hash_secs f r (next + size)) as [[l2 b2]| |] eqn:E2; cbn [bind fst snd] in H; try discriminate.
    inversion H; subst.
    destruct (hash_secs_inv _ _ _ _ _ E2 ltac:(lia) ltac:(lia) Hr) as [B _].
    replace (zlen g <? next + size) with false by (symmetry; apply Z.ltb_ge; lia).
    rewrite (IH _ _ _ E2 ltac:(lia) ltac:(lia) Hr Hg) by (intros; apply Hs; lia).
    cbn [bind fst snd]. rewrite Hs by lia. reflexivity.
Qed.

Lemma adj {A} a b b' c (l : list A) : b = b' -> 0 <= a <= b -> b <= c -> zslice a b l ++ zslice b' c l = zslice a c l.
Proof. intros <- H1 H2. apply zslice_app_adj; lia. Qed.

(* the three stretches of the file the digest covers *)
Definition lin (f : bytes) (ck dd orig : Z) : bytes := zslice 0 ck f ++ zslice (ck + 4) dd f ++ zslice (dd + 8) orig f.

Lemma header_concat f hv soh :
  64 <= hv_pe hv -> (hv_dd4 hv = 128 \/ hv_dd4 hv = 144) -> hv_dd4 hv + 8 <= hv_optsize hv -> 0 <= hv_nsec hv ->
  hv_pe hv + 24 + hv_optsize hv + 40 * hv_nsec hv <= soh ->
  concat (header_pieces f hv soh) = lin f (hv_pe hv + 88) (hv_pe hv + 24 + hv_dd4 hv) soh.
Proof.
  intros Hpe Hd Ho Hn Hs. unfold header_pieces, lin.
  change pe_hashes_before_cksum with true. change pe_hashes_between with true. change pe_hashes_after_dd4 with true. cbv iota.
  cbn [concat]. rewrite app_nil_r. autounfold with pegen. set (pe := hv_pe hv) in *. set (dd4 := hv_dd4 hv) in *.
  set (os := hv_optsize hv) in *. set (ns := hv_nsec hv) in *.
  assert (A : zslice 0 64 f ++ zslice 64 (64 + (pe - 64)) f ++ zslice pe (pe + 4) f ++ zslice (pe + 4) (pe + 4 + 20) f ++
              zslice (pe + 4 + 20) (pe + 4 + 20 + 64) f = zslice 0 (pe + 88) f).
  { repeat (erewrite adj by lia). f_equal; try lia. }
  assert (C : zslice (pe + 4 + 20 + (dd4 + 8)) (pe + 4 + 20 + os) f ++ zslice (pe + 4 + 20 + os) (pe + 4 + 20 + os + ns * 40) f ++
              zslice (pe + 4 + 20 + os + ns * 40) (pe + 4 + 20 + os + ns * 40 + (soh - (pe + 4 + 20 + os + ns * 40))) f
              = zslice (pe + 24 + dd4 + 8) soh f).
  { repeat (erewrite adj by lia). f_equal; try lia. }
  rewrite <- A, <- C. rewrite <- !app_assoc. repeat (f_equal; try lia).
Qed.

Lemma nt_basic f hv : all_bytes f = true -> nt_facts f hv ->
  64 <= hv_pe hv /\ (hv_dd4 hv = 128 \/ hv_dd4 hv = 144) /\ hv_dd4 hv + 96 <= hv_optsize hv /\ 0 <= hv_nsec hv /\
  hv_sectbl hv = hv_pe hv + 24 + hv_optsize hv /\ hv_posdd hv = hv_pe hv + 24 + hv_dd4 hv /\
  hv_pe hv + 24 + hv_optsize hv <= zlen f /\ 0 <= hv_soh hv /\ 0 <= hv_certsize hv < 4294967296 /\ 0 <= hv_certstart hv < 4294967296.
Proof.
  intros Hb (H1 & H2 & H3 & H4 & H5 & H6 & H7 & H8 & H9 & H10 & H11 & H12 & H13 & H14 & H15 & H16 & H17 & H18 & H19 & H20).
  cbv zeta in *.
  pose proof (u16_range f (hv_pe hv + 6) Hb). pose proof (u32_range f (hv_pe hv + 24 + 60) Hb).
  pose proof (u32_range f (hv_pe hv + 24 + hv_dd4 hv) Hb). pose proof (u32_range f (hv_pe hv + 24 + hv_dd4 hv + 4) Hb).
  repeat split; try lia; destruct H13 as [(M & D & O & N)|(M & D & O & N)]; lia.
Qed.

Lemma scan_inv f hv last bs : all_bytes f = true -> nt_facts f hv -> scan_body f hv = Ok (last, bs) ->
  hv_sectbl hv + 40 * hv_nsec hv <= hv_soh hv /\ hv_sectbl hv + 40 * hv_nsec hv <= last /\ last <= zlen f /\
  bs = lin f (hv_pe hv + 88) (hv_pe hv + 24 + hv_dd4 hv) last.
Proof.
  intros Hb Hnt H. destruct (nt_basic f hv Hb Hnt) as (Hpe & Hd & Ho & Hn & Hst & Hpd & Hlen & Hsoh & _).
  unfold scan_body in H.
  set (tblend := pe_sectbl_end (hv_sectbl hv) (pe_sectbl_size (hv_nsec hv))) in *.
  assert (Ht : tblend = hv_sectbl hv + 40 * hv_nsec hv) by (unfold tblend; autounfold with pegen; lia).
  destruct (pe_table_overlaps_hdr tblend (hv_soh hv)) eqn:E1; try discriminate.
  destruct (zlen f <? tblend) eqn:E2; try discriminate.
  destruct (adjust_secs _ _ _ _ _ _) as [[secs soh]| |] eqn:EA; cbn [bind fst snd] in H; try discriminate.
  autounfold with pegen in E1. zb.
  destruct (adjust_inv _ _ _ _ _ _ _ _ EA ltac:(lia) (read_secs_nonneg f _ _ 0 Hb)) as [Bs Nn].
  destruct (zlen f <? tblend + pe_hdr_padding_len soh tblend) eqn:E3; try discriminate.
  autounfold with pegen in E3. zb.
  rewrite header_concat in H by lia.
  set (ptr0 := match secs with (p, _) :: _ => p | [] => 0 end) in *.
  destruct (pe_has_gap (hv_nsec hv) ptr0 soh) eqn:EG; cbn [andb] in H.
  - destruct (zlen f <? soh + pe_gap_len ptr0 soh) eqn:E4; try discriminate.
    autounfold with pegen in EG, E4. zb.
    destruct (hash_secs f secs ptr0) as [[l2 b2]| |] eqn:EH; cbn [bind fst snd] in H; try discriminate.
    inversion H; subst. destruct (hash_secs_inv _ _ _ _ _ EH ltac:(lia) ltac:(lia) Nn) as [B ->].
    repeat split; try lia. unfold lin. rewrite <- !app_assoc. do 2 f_equal.
    autounfold with pegen. rewrite (adj soh (soh + (ptr0 - soh)) ptr0 last) by lia.
    apply adj; lia.
  - destruct (hash_secs f secs soh) as [[l2 b2]| |] eqn:EH; cbn [bind fst snd app] in H; try discriminate.
    inversion H; subst. destruct (hash_secs_inv _ _ _ _ _ EH ltac:(lia) ltac:(lia) Nn) as [B ->].
    repeat split; try lia. unfold lin. rewrite <- !app_assoc. do 2 f_equal. apply adj; lia.
Qed.

(* g coincides with f on the three stretches [0,ck) [ck+4,dd) [dd+8,lim) *)
Definition agree3 (f g : bytes) (ck dd lim : Z) : Prop :=
  forall a b, 0 <= a -> a <= b ->
    (b <= ck \/ (ck + 4 <= a /\ b <= dd) \/ (dd + 8 <= a /\ b <= lim)) -> zslice a b g = zslice a b f.

Lemma u32_same f g ck dd lim off : agree3 f g ck dd lim -> 0 <= off ->
  (off + 4 <= ck \/ (ck + 4 <= off /\ off + 4 <= dd) \/ (dd + 8 <= off /\ off + 4 <= lim)) -> u32 g off = u32 f off.
Proof. intros A H0 H. unfold u32. rewrite !zsl_eq. rewrite (A off (off + 4)) by lia. reflexivity. Qed.
Lemma u16_same f g ck dd lim off : agree3 f g ck dd lim -> 0 <= off ->
  (off + 2 <= ck \/ (ck + 4 <= off /\ off + 2 <= dd) \/ (dd + 8 <= off /\ off + 2 <= lim)) -> u16 g off = u16 f off.
Proof. intros A H0 H. unfold u16. rewrite !zsl_eq. rewrite (A off (off + 2)) by lia. reflexivity. Qed.
Lemma byte_at_same f g ck dd lim off : agree3 f g ck dd lim -> 0 <= off ->
  (off + 1 <= ck \/ (ck + 4 <= off /\ off + 1 <= dd) \/ (dd + 8 <= off /\ off + 1 <= lim)) -> byte_at g off = byte_at f off.
Proof. intros A H0 H. rewrite !byte_at_slice by lia. rewrite (A off (off + 1)) by lia. reflexivity. Qed.

Lemma read_secs_same f g ck dd lim tbl n : forall i, agree3 f g ck dd lim -> 0 <= i -> 0 <= tbl -> dd + 8 <= tbl ->
  tbl + 40 * (i + Z.of_nat n) <= lim -> read_secs g tbl n i = read_secs f tbl n i.
Proof.
  induction n as [|n IH]; intros i A Hi Ht0 Ht Hl; [reflexivity|].
  cbn [read_secs]. f_equal.
  - unfold sec_entry. autounfold with pegen. f_equal; eapply u32_same; eauto; lia.
  - apply IH; auto; lia.
Qed.

Lemma lin_same f g ck dd lim x : agree3 f g ck dd lim -> 0 <= ck -> ck + 4 <= dd -> dd + 8 <= x -> x <= lim ->
  lin g ck dd x = lin f ck dd x.
Proof.
  intros A H1 H2 H3 H4. unfold lin. rewrite (A 0 ck), (A (ck + 4) dd), (A (dd + 8) x) by lia. reflexivity.
Qed.

Lemma scan_same f g hv last bs : all_bytes f = true -> nt_facts f hv -> scan_body f hv = Ok (last, bs) ->
  last <= zlen g -> agree3 f g (hv_pe hv + 88) (hv_pe hv + 24 + hv_dd4 hv) last ->
  scan_body g hv = Ok (last, bs).
Proof.
  intros Hb Hnt H Hg A. destruct (nt_basic f hv Hb Hnt) as (Hpe & Hd & Ho & Hn & Hst & Hpd & Hlen & Hsoh & _).
  destruct (scan_inv f hv last bs Hb Hnt H) as (S1 & S2 & S3 & S4).
  unfold scan_body in H |- *.
  set (tblend := pe_sectbl_end (hv_sectbl hv) (pe_sectbl_size (hv_nsec hv))) in *.
  assert (Ht : tblend = hv_sectbl hv + 40 * hv_nsec hv) by (unfold tblend; autounfold with pegen; lia).
  destruct (pe_table_overlaps_hdr tblend (hv_soh hv)) eqn:E1; try discriminate.
  destruct (zlen f <? tblend) eqn:E2; try discriminate.
  replace (zlen g <? tblend) with false by (symmetry; apply Z.ltb_ge; lia).
  rewrite (read_secs_same f g _ _ last (hv_sectbl hv) (Z.to_nat (hv_nsec hv)) 0 A) by lia.
  destruct (adjust_secs _ _ _ _ _ _) as [[secs soh]| |] eqn:EA; cbn [bind fst snd] in H |- *; try discriminate.
  autounfold with pegen in E1. zb.
  destruct (adjust_inv _ _ _ _ _ _ _ _ EA ltac:(lia) (read_secs_nonneg f _ _ 0 Hb)) as [Bs Nn].
  destruct (zlen f <? tblend + pe_hdr_padding_len soh tblend) eqn:E3; try discriminate.
  autounfold with pegen in E3. zb.
  rewrite header_concat in H by lia. rewrite header_concat by lia.
  set (ptr0 := match secs with (p, _) :: _ => p | [] => 0 end) in *.
  destruct (pe_has_gap (hv_nsec hv) ptr0 soh) eqn:EG; cbn [andb] in H |- *.
  - destruct (zlen f <? soh + pe_gap_len ptr0 soh) eqn:E4; try discriminate.
    autounfold with pegen in EG, E4. zb.
    destruct (hash_secs f secs ptr0) as [[l2 b2]| |] eqn:EH; cbn [bind fst snd] in H; try discriminate.
    inversion H; subst l2. destruct (hash_secs_inv _ _ _ _ _ EH ltac:(lia) ltac:(lia) Nn) as [B _].
    replace (zlen g <? tblend + pe_hdr_padding_len soh tblend) with false by (symmetry; autounfold with pegen; apply Z.ltb_ge; lia).
    replace (zlen g <? soh + pe_gap_len ptr0 soh) with false by (symmetry; autounfold with pegen; apply Z.ltb_ge; lia).
    rewrite (hash_secs_same f g secs ptr0 last b2 EH) by (try lia; try exact Nn; intros; apply A; lia).
    cbn [bind fst snd]. rewrite (lin_same f g _ _ last soh A) by lia.
    autounfold with pegen. rewrite (A soh (soh + (ptr0 - soh))) by lia. reflexivity.
  - destruct (hash_secs f secs soh) as [[l2 b2]| |] eqn:EH; cbn [bind fst snd] in H; try discriminate.
    inversion H; subst l2. destruct (hash_secs_inv _ _ _ _ _ EH ltac:(lia) ltac:(lia) Nn) as [B _].
    replace (zlen g <? tblend + pe_hdr_padding_len soh tblend) with false by (symmetry; autounfold with pegen; apply Z.ltb_ge; lia).
    rewrite (hash_secs_same f g secs soh last b2 EH) by (try lia; try exact Nn; intros; apply A; lia).
    cbn [bind fst snd]. rewrite (lin_same f g _ _ last soh A) by lia. reflexivity.
Qed.

Lemma trailer_inv f last cs sz orig bs : read_trailer f last cs sz = Ok (orig, bs) -> 0 <= last <= zlen f -> 0 <= sz ->
  (sz = 0 /\ orig = zlen f /\ bs = zslice last (zlen f) f) \/
  (sz <> 0 /\ last <= cs /\ orig = cs /\ cs + sz = zlen f /\ bs = zslice last cs f).
Proof.
  unfold read_trailer. intros H Hl Hs. repeat break_if H; autounfold with pegen in *; zb; inversion H; subst.
  - left. repeat split; try lia. symmetry. apply zslice_to_end.
  - right. repeat split; lia.
Qed.

Lemma pad_of_spec orig : 0 <= orig -> 0 <= pad_of orig < 8 /\ (orig + pad_of orig) mod 8 = 0 /\ pad_of orig = (8 - orig mod 8) mod 8.
Proof.
  intros H. unfold pad_of. autounfold with pegen. rewrite Z.rem_mod_nonneg by lia.
  destruct (orig mod 8 =? 0) eqn:E; cbn [negb]; zb; lia.
Qed.

Lemma digest_inv f d : all_bytes f = true -> digest_pe f = Ok d ->
  exists hv, nt_facts f hv /\
    hv_pe hv + 24 + hv_dd4 hv + 8 <= dg_orig d /\ dg_orig d <= zlen f /\
    dg_posdd d = hv_pe hv + 24 + hv_dd4 hv /\ dg_oldsize d = hv_certsize hv /\
    (hv_certsize hv = 0 -> dg_orig d = zlen f) /\ (hv_certsize hv <> 0 -> dg_orig d = hv_certstart hv) /\
    dg_orig d + hv_certsize hv = zlen f /\
    dg_certstart d = dg_orig d + pad_of (dg_orig d) /\
    dg_pre d = lin f (hv_pe hv + 88) (hv_pe hv + 24 + hv_dd4 hv) (dg_orig d) ++ zeros (pad_of (dg_orig d)) /\
    exists last bs, scan_body f hv = Ok (last, bs) /\ last <= dg_orig d /\ hv_sectbl hv + 40 * hv_nsec hv <= hv_soh hv.
Proof.
  intros Hb H. rewrite digest_unfold in H.
  destruct (read_nt f) as [hv| |] eqn:EN; cbn [bind] in H; try discriminate.
  apply read_nt_facts in EN. exists hv. split; [exact EN|].
  destruct (nt_basic f hv Hb EN) as (Hpe & Hd & Ho & Hn & Hst & Hpd & Hlen & Hsoh & Hcz & Hcs).
  destruct (scan_body f hv) as [[last bs]| |] eqn:ES; cbn [bind fst snd] in H; try discriminate.
  destruct (scan_inv f hv last bs Hb EN ES) as (S1 & S2 & S3 & S4).
  destruct (read_trailer f last (hv_certstart hv) (hv_certsize hv)) as [[orig tb]| |] eqn:ET; cbn [bind fst snd] in H; try discriminate.
  inversion H; subst d; clear H. cbn [dg_orig dg_certstart dg_posdd dg_oldsize dg_pre].
  destruct (trailer_inv _ _ _ _ _ _ ET ltac:(lia) ltac:(lia)) as [(Z0 & -> & ->)|(Z0 & T1 & -> & T2 & ->)].
  - repeat (split; [lia|]). split.
    + rewrite S4. unfold lin. rewrite <- !app_assoc. do 2 f_equal. rewrite app_assoc. f_equal. apply adj; lia.
    + exists last, bs. split; [reflexivity|]. lia.
  - repeat (split; [lia|]). split.
    + rewrite S4. unfold lin. rewrite <- !app_assoc. do 2 f_equal. rewrite app_assoc. f_equal. apply adj; lia.
    + exists last, bs. split; [reflexivity|]. lia.
Qed.

(* ------------------------------------------------------------------ the shape of a signed file *)
Definition shape (f : bytes) (ck dd orig : Z) (c4 d8 tail : bytes) : bytes :=
  zslice 0 ck f ++ c4 ++ zslice (ck + 4) dd f ++ d8 ++ zslice (dd + 8) orig f ++ tail.

Section Shape.
  Variables (f c4 d8 tail : bytes) (ck dd orig : Z).
  Hypothesis Hc4 : zlen c4 = 4.
  Hypothesis Hd8 : zlen d8 = 8.
  Hypothesis Hck : 0 <= ck.
  Hypothesis Hdd : ck + 4 <= dd.
  Hypothesis Horig : dd + 8 <= orig <= zlen f.
  Let g := shape f ck dd orig c4 d8 tail.
  Let LA : zlen (zslice 0 ck f) = ck. Proof. rewrite zlen_zslice; lia. Qed.
  Let LB : zlen (zslice (ck + 4) dd f) = dd - ck - 4. Proof. rewrite zlen_zslice; lia. Qed.
  Let LC : zlen (zslice (dd + 8) orig f) = orig - dd - 8. Proof. rewrite zlen_zslice; lia. Qed.

  Lemma shape_len : zlen g = orig + zlen tail.
  Proof. unfold g, shape. rewrite !zlen_app, LA, LB, LC, Hc4, Hd8. lia. Qed.

  Lemma shape_r1 a b : 0 <= a -> a <= b -> b <= ck -> zslice a b g = zslice a b f.
  Proof.
    intros H1 H2 H3. unfold g, shape. rewrite zslice_app1 by lia.
    replace a with (a - 0) at 1 by lia. replace b with (b - 0) at 1 by lia. apply zslice_sub; lia.
  Qed.
  Lemma shape_ck : zslice ck (ck + 4) g = c4.
  Proof. unfold g, shape. apply zslice_exact; lia. Qed.
  Lemma shape_r2 a b : ck + 4 <= a -> a <= b -> b <= dd -> zslice a b g = zslice a b f.
  Proof.
    intros H1 H2 H3. unfold g, shape. rewrite zslice_app2 by lia. rewrite zslice_app2 by lia.
    rewrite zslice_app1 by lia. rewrite LA, Hc4.
    replace (a - ck - 4) with (a - (ck + 4)) by lia. replace (b - ck - 4) with (b - (ck + 4)) by lia. apply zslice_sub; lia.
  Qed.
  Lemma shape_dd : zslice dd (dd + 8) g = d8.
  Proof.
    unfold g, shape. rewrite zslice_app2 by lia. rewrite zslice_app2 by lia. rewrite LA, Hc4.
    apply zslice_exact; lia.
  Qed.
  Lemma shape_r3 a b : dd + 8 <= a -> a <= b -> b <= orig -> zslice a b g = zslice a b f.
  Proof.
    intros H1 H2 H3. unfold g, shape. rewrite zslice_app2 by lia. rewrite zslice_app2 by lia. rewrite zslice_app2 by lia.
    rewrite zslice_app2 by lia. rewrite zslice_app1 by lia. rewrite LA, Hc4, LB, Hd8.
    replace (a - ck - 4 - (dd - ck - 4) - 8) with (a - (dd + 8)) by lia.
    replace (b - ck - 4 - (dd - ck - 4) - 8) with (b - (dd + 8)) by lia. apply zslice_sub; lia.
  Qed.
  Lemma shape_tail a b : orig <= a -> zslice a b g = zslice (a - orig) (b - orig) tail.
  Proof.
    intros H1. unfold g, shape. rewrite zslice_app2 by lia. rewrite zslice_app2 by lia. rewrite zslice_app2 by lia.
    rewrite zslice_app2 by lia. rewrite zslice_app2 by lia. rewrite LA, Hc4, LB, Hd8, LC. f_equal; lia.
  Qed.
  Lemma shape_agree : agree3 f g ck dd orig.
  Proof.
    intros a b H1 H2 [H|[[H H']|[H H']]]; [apply shape_r1|apply shape_r2|apply shape_r3]; lia.
  Qed.
  Lemma shape_take_orig : ztake orig g = zslice 0 ck f ++ c4 ++ zslice (ck + 4) dd f ++ d8 ++ zslice (dd + 8) orig f.
  Proof.
    unfold g, shape.
    replace (zslice 0 ck f ++ c4 ++ zslice (ck + 4) dd f ++ d8 ++ zslice (dd + 8) orig f ++ tail)
      with ((zslice 0 ck f ++ c4 ++ zslice (ck + 4) dd f ++ d8 ++ zslice (dd + 8) orig f) ++ tail)
      by (rewrite <- !app_assoc; reflexivity).
    apply ztake_app_exact. rewrite !zlen_app, LA, LB, LC, Hc4, Hd8. lia.
  Qed.
End Shape.

Lemma patched_shape f ck dd orig old d8 tbl : 0 <= ck -> ck + 4 <= dd -> dd + 8 <= orig -> orig + old = zlen f -> 0 <= old ->
  replace1 dd 8 d8 (replace1 orig old tbl f) = shape f ck dd orig (zslice ck (ck + 4) f) d8 tbl.
Proof.
  intros H1 H2 H3 H4 H5. unfold replace1, shape.
  rewrite (zdrop_all (orig + old) f) by lia. rewrite app_nil_r.
  assert (L : zlen (ztake orig f) = orig) by (apply zlen_ztake; lia).
  rewrite ztake_app_l by lia. rewrite ztake_ztake by lia.
  rewrite zdrop_app_l by lia.
  rewrite <- ?app_assoc. rewrite (ztake_as_slice dd f).
  rewrite <- (adj 0 ck ck dd f) by lia. rewrite <- (adj ck (ck + 4) (ck + 4) dd f) by lia.
  rewrite <- !app_assoc. do 4 f_equal.
  unfold zslice. rewrite zdrop_ztake by lia. reflexivity.
Qed.

Lemma replace_ck f ck dd orig c4 c4' d8 tail : zlen c4 = 4 -> 0 <= ck <= zlen f ->
  replace1 ck 4 c4' (shape f ck dd orig c4 d8 tail) = shape f ck dd orig c4' d8 tail.
Proof.
  intros H4 Hck. unfold replace1, shape.
  assert (LA : zlen (zslice 0 ck f) = ck) by (rewrite zlen_zslice; lia).
  rewrite ztake_app_exact by exact LA.
  rewrite zdrop_app_r by lia. rewrite LA. replace (ck + 4 - ck) with 4 by lia.
  rewrite zdrop_app_exact by exact H4. reflexivity.
Qed.

Lemma le_enc_zlen4 n : zlen (le_enc 4 n) = 4.
Proof. apply le_enc_zlen. Qed.

Lemma asc2 off1 old1 b1 off2 old2 b2 L : 0 <= off1 -> 0 <= old1 -> off1 + old1 <= off2 -> 0 <= old2 -> off2 + old2 <= L ->
  asc_disjoint 0 [mkPatch off1 old1 b1; mkPatch off2 old2 b2] L = true.
Proof.
  intros. cbn [asc_disjoint p_off p_old]. repeat (apply andb_true_iff; split); try reflexivity; apply Z.leb_le; lia.
Qed.

Lemma embed_shape f d sig : all_bytes f = true -> digest_pe f = Ok d -> dg_certstart d < 4294967296 ->
  exists hv c4, nt_facts f hv /\ zlen c4 = 4 /\ all_bytes c4 = true /\
    embed f sig = Ok (shape f (hv_pe hv + 88) (hv_pe hv + 24 + hv_dd4 hv) (dg_orig d) c4 (dd_entry d sig) (cert_table d sig)).
Proof.
  intros Hb H Hc. destruct (digest_inv f d Hb H) as (hv & Hnt & D1 & D2 & D3 & D4 & D5 & D6 & D7 & D8 & D9 & _).
  destruct (nt_basic f hv Hb Hnt) as (Hpe & Hd & Ho & Hn & Hst & Hpd & Hlen & Hsoh & Hcz & Hcs).
  exists hv. unfold embed. rewrite H. cbn [bind]. unfold make_patch.
  replace (pe_mp_too_big (dg_certstart d)) with false
    by (symmetry; unfold pe_mp_too_big; change (Z.shiftl 1 32) with 4294967296; rewrite Z.geb_leb; apply Z.leb_gt; lia).
  cbn [bind]. unfold apply_patch. autounfold with pegen. rewrite D3, D4.
  set (dde := dd_entry d sig). set (tbl := cert_table d sig).
  set (cs := [mkCall _ 8 dde; mkCall _ _ tbl]).
  assert (AS : asc_disjoint 0 (map call_patch cs) (zlen f) = true).
  { unfold cs. cbn [map call_patch c_off c_old c_blob]. apply asc2; cbn [c_off c_old c_blob]; lia. }
  destruct (add_fileorder_sound cs f AS) as [AS2 SP]. rewrite (rewrite_sorted _ _ AS2), SP.
  unfold cs. cbn [map call_patch c_off c_old c_blob splice fold_right p_off p_old p_blob].
  rewrite (patched_shape f (hv_pe hv + 88)) by lia.
  set (g0 := shape f _ _ _ _ dde tbl). cbn [bind].
  assert (L8 : zlen dde = 8) by (unfold dde, dd_entry; rewrite zlen_app, !le_enc_zlen4; lia).
  assert (L4 : zlen (zslice (hv_pe hv + 88) (hv_pe hv + 88 + 4) f) = 4) by (rewrite zlen_zslice; lia).
  assert (A : agree3 f g0 (hv_pe hv + 88) (hv_pe hv + 24 + hv_dd4 hv) (dg_orig d)) by (apply shape_agree; lia).
  assert (Lg : zlen g0 = dg_orig d + zlen tbl) by (apply shape_len; lia).
  pose proof (zlen_nonneg tbl).
  pose proof Hnt as Hnt'. destruct Hnt as (N1 & N2 & N3 & N4 & _).
  unfold fix_checksum. autounfold with pegen.
  replace (zlen g0 <? 64) with false by (symmetry; apply Z.ltb_ge; lia).
  rewrite (byte_at_same f g0 _ _ _ 0 A), (byte_at_same f g0 _ _ _ 1 A), (u32_same f g0 _ _ _ 60 A) by lia.
  rewrite N2, N3, <- N4. cbn [Z.eqb Pos.eqb negb orb].
  replace (hv_pe hv <? 64) with false by (symmetry; apply Z.ltb_ge; lia).
  eexists. split; [|split; [|split]].
  4: { f_equal. rewrite write_at_same by (rewrite ?le_enc_zlen4; lia). rewrite le_enc_zlen4. unfold g0. apply replace_ck; [exact L4|lia]. }
  - exact Hnt'.
  - apply le_enc_zlen4.
  - apply le_enc_bytes.
Qed.
