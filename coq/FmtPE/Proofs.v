(* FmtPE/Proofs.v — lemmas behind FmtPE/Properties.v *)
From Relic Require Import Base.Prelude Base.Enc Generated.FmtPE_gen C12.Model C12.Proofs FmtPE.Model Laws.Pipeline.

(* ------------------------------------------------------------------ slices *)
Lemma zslice_nil_ge {A} a b (l : list A) : b <= a -> zslice a b l = [].
Proof. intros H. unfold zslice. apply ztake_neg. lia. Qed.
Lemma zslice_all_past {A} a b (l : list A) : zlen l <= a -> zslice a b l = [].
Proof. intros H. unfold zslice. rewrite zdrop_all by lia. unfold ztake. apply firstn_nil. Qed.

Lemma zsl_eq a b f : zsl a b f = zslice a b f.
Proof.
  unfold zsl. pose proof (zlen_nonneg f) as Hn.
  destruct (Z_le_gt_dec b a) as [Hba|Hba].
  - rewrite (zslice_nil_ge a b) by lia. apply zslice_nil_ge. lia.
  - destruct (Z_le_gt_dec (zlen f) a) as [Ha|Ha].
    + rewrite (zslice_all_past a b) by lia. apply zslice_all_past. lia.
    + rewrite Z.min_l by lia. unfold zslice.
      destruct (Z_le_gt_dec b (zlen f)) as [Hb|Hb]; [now rewrite Z.min_l by lia|].
      rewrite Z.min_r by lia.
      destruct (Z_le_gt_dec a 0) as [Ha0|Ha0].
      * rewrite zdrop_neg by lia. rewrite !ztake_all by lia. reflexivity.
      * rewrite !ztake_all; [reflexivity| |]; rewrite zlen_zdrop by lia; lia.
Qed.
Lemma ztk_eq n f : ztk n f = ztake n f.
Proof.
  unfold ztk. destruct (Z_le_gt_dec n (zlen f)); [now rewrite Z.min_l by lia|].
  rewrite Z.min_r by lia. rewrite !ztake_all by lia. reflexivity.
Qed.
Lemma zdp_eq n f : zdp n f = zdrop n f.
Proof.
  unfold zdp. destruct (Z_le_gt_dec n (zlen f)); [now rewrite Z.min_l by lia|].
  rewrite Z.min_r by lia. rewrite !zdrop_all by lia. reflexivity.
Qed.

Lemma zslice_0 {A} n (l : list A) : zslice 0 n l = ztake n l.
Proof. unfold zslice. rewrite zdrop_0. f_equal. lia. Qed.
Lemma zslice_to_end {A} a (l : list A) : zslice a (zlen l) l = zdrop a l.
Proof.
  unfold zslice. destruct (Z_le_gt_dec a 0).
  - rewrite zdrop_neg by lia. apply ztake_all. lia.
  - destruct (Z_le_gt_dec a (zlen l)).
    + apply ztake_all. rewrite zlen_zdrop by lia. lia.
    + rewrite zdrop_all by lia. unfold ztake. apply firstn_nil.
Qed.
Lemma zlen_zslice {A} a b (l : list A) : 0 <= a <= b -> b <= zlen l -> zlen (zslice a b l) = b - a.
Proof. intros H1 H2. unfold zslice. rewrite zlen_ztake; [lia|]. rewrite zlen_zdrop by lia. lia. Qed.
Lemma zlen_zslice_le {A} a b (l : list A) : 0 <= a <= b -> zlen (zslice a b l) <= b - a.
Proof.
  intros H. unfold zslice. rewrite zlen_ztake_min by lia. lia.
Qed.

Lemma firstn_plus {A} (k m : nat) (l : list A) : firstn (k + m) l = firstn k l ++ firstn m (skipn k l).
Proof.
  revert l; induction k as [|k IH]; intros l; [reflexivity|].
  destruct l as [|x l]; [now rewrite !firstn_nil|]. cbn [Nat.add firstn skipn app]. f_equal. apply IH.
Qed.
Lemma ztake_split {A} k n (l : list A) : 0 <= k <= n -> ztake n l = ztake k l ++ ztake (n - k) (zdrop k l).
Proof.
  intros H. unfold ztake, zdrop. replace (Z.to_nat n) with (Z.to_nat k + Z.to_nat (n - k))%nat by lia.
  apply firstn_plus.
Qed.
(* adjacent slices concatenate *)
Lemma zslice_app_adj {A} a b c (l : list A) : 0 <= a <= b -> b <= c -> zslice a b l ++ zslice b c l = zslice a c l.
Proof.
  intros Hab Hbc. unfold zslice.
  rewrite (ztake_split (b - a) (c - a)) by lia.
  f_equal. rewrite zdrop_zdrop by lia. f_equal; [lia|]. f_equal. lia.
Qed.
(* a slice of a slice *)
Lemma zslice_sub {A} lo hi a b (l : list A) : 0 <= lo <= a -> a <= b -> b <= hi ->
  zslice (a - lo) (b - lo) (zslice lo hi l) = zslice a b l.
Proof.
  intros H1 H2 H3. unfold zslice.
  rewrite zdrop_ztake by lia. rewrite zdrop_zdrop by lia.
  rewrite ztake_ztake by lia. f_equal; [lia|]. f_equal. lia.
Qed.
Lemma zslice_ztake {A} a b n (l : list A) : 0 <= a -> b <= n -> zslice a b (ztake n l) = zslice a b l.
Proof.
  intros Ha Hb. rewrite <- (zslice_0 n l).
  replace a with (a - 0) at 1 by lia. replace b with (b - 0) at 1 by lia.
  destruct (Z_le_gt_dec a b); [apply zslice_sub; lia|].
  rewrite !zslice_nil_ge by lia. reflexivity.
Qed.
Lemma zslice_app1 {A} a b (x y : list A) : 0 <= a -> b <= zlen x -> zslice a b (x ++ y) = zslice a b x.
Proof.
  intros Ha Hb. unfold zslice. destruct (Z_le_gt_dec a b).
  - rewrite zdrop_app_l by lia. apply ztake_app_l. rewrite zlen_zdrop by lia. lia.
  - rewrite !ztake_neg by lia. reflexivity.
Qed.
Lemma zslice_app2 {A} a b (x y : list A) : zlen x <= a -> zslice a b (x ++ y) = zslice (a - zlen x) (b - zlen x) y.
Proof. intros Ha. unfold zslice. rewrite zdrop_app_r by lia. f_equal. lia. Qed.
Lemma zslice_exact {A} (x y z : list A) a b : a = zlen x -> b = zlen x + zlen y -> zslice a b (x ++ y ++ z) = y.
Proof.
  intros -> ->. rewrite zslice_app2 by lia. replace (zlen x - zlen x) with 0 by lia.
  replace (zlen x + zlen y - zlen x) with (zlen y) by lia. rewrite zslice_0. apply ztake_app_exact. reflexivity.
Qed.
Lemma ztake_as_slice {A} n (l : list A) : ztake n l = zslice 0 n l.
Proof. symmetry. apply zslice_0. Qed.
Lemma zslice_full {A} a b (l : list A) : 0 <= a -> zslice a b l = zslice a (Z.min b (zlen l)) l.
Proof.
  intros Ha. destruct (Z_le_gt_dec b (zlen l)); [now rewrite Z.min_l by lia|].
  rewrite Z.min_r by lia. rewrite zslice_to_end. unfold zslice.
  destruct (Z_le_gt_dec a (zlen l)).
  - apply ztake_all. rewrite zlen_zdrop by lia. lia.
  - rewrite zdrop_all by lia. unfold ztake. apply firstn_nil.
Qed.

Lemma zlen_zeros n : 0 <= n -> zlen (zeros n) = n.
Proof. intros H. unfold zeros. rewrite zlen_repeat. lia. Qed.
Lemma zeros_0 : zeros 0 = [].
Proof. reflexivity. Qed.
Lemma zeros_neg n : n <= 0 -> zeros n = [].
Proof. intros H. unfold zeros. replace (Z.to_nat n) with 0%nat by lia. reflexivity. Qed.
Lemma zeros_app a b : 0 <= a -> 0 <= b -> zeros a ++ zeros b = zeros (a + b).
Proof. intros Ha Hb. unfold zeros. rewrite <- repeat_app. f_equal. lia. Qed.
Lemma all_bytes_zeros n : all_bytes (zeros n) = true.
Proof.
  unfold zeros. induction (Z.to_nat n) as [|k IH]; [reflexivity|].
  cbn [repeat all_bytes forallb]. exact IH.
Qed.

(* ------------------------------------------------------------------ byte strings *)
Lemma all_bytes_ztake n l : all_bytes l = true -> all_bytes (ztake n l) = true.
Proof.
  intros H. rewrite <- (ztake_zdrop n l), all_bytes_app in H. apply andb_true_iff in H. tauto.
Qed.
Lemma all_bytes_zdrop n l : all_bytes l = true -> all_bytes (zdrop n l) = true.
Proof.
  intros H. rewrite <- (ztake_zdrop n l), all_bytes_app in H. apply andb_true_iff in H. tauto.
Qed.
Lemma all_bytes_zslice a b l : all_bytes l = true -> all_bytes (zslice a b l) = true.
Proof. intros H. unfold zslice. apply all_bytes_ztake, all_bytes_zdrop, H. Qed.

Lemma le_dec_nonneg l : all_bytes l = true -> 0 <= le_dec l.
Proof. intros H. pose proof (le_dec_range l H). lia. Qed.
Lemma u32_range f off : all_bytes f = true -> 0 <= u32 f off < 4294967296.
Proof.
  intros H. unfold u32. rewrite zsl_eq.
  pose proof (le_dec_range _ (all_bytes_zslice off (off + 4) f H)) as R.
  pose proof (zlen_nonneg (zslice off (off + 4) f)) as N.
  assert (L : zlen (zslice off (off + 4) f) <= 4).
  { unfold zslice. replace (off + 4 - off) with 4 by lia. rewrite zlen_ztake_min by lia. lia. }
  assert (256 ^ zlen (zslice off (off + 4) f) <= 256 ^ 4) by (apply Z.pow_le_mono_r; lia).
  change (256 ^ 4) with 4294967296 in *. lia.
Qed.
Lemma u16_range f off : all_bytes f = true -> 0 <= u16 f off < 65536.
Proof.
  intros H. unfold u16. rewrite zsl_eq.
  pose proof (le_dec_range _ (all_bytes_zslice off (off + 2) f H)) as R.
  pose proof (zlen_nonneg (zslice off (off + 2) f)) as N.
  assert (L : zlen (zslice off (off + 2) f) <= 2).
  { unfold zslice. replace (off + 2 - off) with 2 by lia. rewrite zlen_ztake_min by lia. lia. }
  assert (256 ^ zlen (zslice off (off + 2) f) <= 256 ^ 2) by (apply Z.pow_le_mono_r; lia).
  change (256 ^ 2) with 65536 in *. lia.
Qed.

(* byte_at through a one-byte slice *)
Lemma byte_at_slice f i : 0 <= i -> byte_at f i = le_dec (zslice i (i + 1) f).
Proof.
  intros Hi. unfold byte_at.
  destruct (i <? zlen f) eqn:E.
  - apply Z.ltb_lt in E. unfold zslice, ztake, zdrop. replace (i + 1 - i) with 1 by lia.
    change (Z.to_nat 1) with 1%nat.
    assert (Hl : (Z.to_nat i < length f)%nat) by (unfold zlen in E; lia).
    revert Hl. generalize (Z.to_nat i). clear. intros n. revert f.
    induction n as [|n IH]; intros [|x f] Hl; cbn in Hl; try lia.
    + cbn. lia.
    + cbn [nth skipn]. apply IH. lia.
  - apply Z.ltb_ge in E. rewrite zslice_all_past by lia. reflexivity.
Qed.

(* ------------------------------------------------------------------ unfolding of the generated definitions *)
Create HintDb pegen.
#[export] Hint Unfold pe_dos_header_size pe_magic_pe32 pe_magic_pe32plus pe_dos_bad_magic pe_lfanew_off pe_lfanew_overlaps_dos
  pe_dos_read_len pe_dos_stub_len pe_nt_bad_magic pe_nt_magic_len pe_coff_len pe_cksum_start pe_cksum_end pe_dd4_start_32
  pe_dd4_start_64 pe_dd4_end pe_optmagic_len pe_no_room_32 pe_no_room_64 pe_sectbl_start pe_pos_ddcert pe_hashes_before_cksum
  pe_hashes_between pe_hashes_after_dd4 pe_sectbl_size pe_sectbl_end pe_table_overlaps_hdr pe_rs_skip_empty pe_sec_overlaps_table
  pe_sec_before_hdr_end pe_sec_not_last pe_hdr_shrinks_to_section pe_aligns_mid_sections pe_hdr_padding_len pe_align_rem
  pe_align_needed pe_align_adds pe_has_gap pe_gap_len pe_dg_skip_empty pe_sec_not_contiguous pe_next_advances pe_pad_rem
  pe_pad_needed pe_pad_len pe_certstart_padded pe_tr_unsigned pe_tr_sig_overlaps pe_tr_garbage pe_tr_orig_unsigned
  pe_tr_orig_signed pe_tr_before_cert pe_mp_padded pe_mp_length pe_mp_revision pe_mp_certtype pe_certinfo_w_Length
  pe_certinfo_w_Revision pe_certinfo_w_CertificateType pe_mp_pad2 pe_mp_has_pad2 pe_mp_too_big pe_mp_dd_va pe_mp_dd_size
  pe_mp_patch1_off pe_mp_patch1_old pe_mp_patch2_off pe_mp_patch2_old pe_mp_sig_pad pe_vf_not_signed pe_cs_more pe_cs_short
  pe_cs_end pe_cs_size pe_cs_invalid pe_cs_wlen_len pe_cs_cert_lo pe_cs_cert_hi pe_cs_rest_lo pe_fix_write_off
  coff_off_machine coff_off_nsec coff_off_optsize opt_off_filealign opt_off_sizeofheaders opt_off_numrva32 opt_off_numrva64
  opt32_size opt64_size sec_off_rawsize sec_off_rawptr dd_off_size
  E_EOF E_NOTPE E_MAGIC E_NOROOM E_TBLOVER E_SECOVER E_BEGINS E_GAPREAD E_SIGOVER E_TRAILING E_TOOBIG E_BADTABLE E_LFANEW : pegen.

Ltac break_if H :=
  match type of H with
  | context [if ?c then _ else _] => let E := fresh "E" in destruct c eqn:E; try discriminate H
  end.
Ltac zb :=
  repeat match goal with
  | H : (_ <? _) = true |- _ => apply Z.ltb_lt in H
  | H : (_ <? _) = false |- _ => apply Z.ltb_ge in H
  | H : (_ <=? _) = true |- _ => apply Z.leb_le in H
  | H : (_ <=? _) = false |- _ => apply Z.leb_gt in H
  | H : (_ >? _) = true |- _ => rewrite Z.gtb_ltb in H; apply Z.ltb_lt in H
  | H : (_ >? _) = false |- _ => rewrite Z.gtb_ltb in H; apply Z.ltb_ge in H
  | H : (_ >=? _) = true |- _ => rewrite Z.geb_leb in H; apply Z.leb_le in H
  | H : (_ >=? _) = false |- _ => rewrite Z.geb_leb in H; apply Z.leb_gt in H
  | H : (_ =? _) = true |- _ => apply Z.eqb_eq in H
  | H : (_ =? _) = false |- _ => apply Z.eqb_neq in H
  | H : negb _ = true |- _ => apply negb_true_iff in H
  | H : negb _ = false |- _ => apply negb_false_iff in H
  | H : (_ || _) = false |- _ => apply orb_false_iff in H; destruct H
  | H : (_ && _) = true |- _ => apply andb_true_iff in H; destruct H
  end.

(* ------------------------------------------------------------------ read_nt, characterised *)
Definition page_of (machine : Z) : Z :=
  if existsb (Z.eqb machine) pe_page_machines then pe_page_size_listed else pe_page_size_default.

Definition nt_facts (f : bytes) (hv : hvals) : Prop :=
  let pe := hv_pe hv in
  let opt := pe + 24 in
  64 <= zlen f /\ byte_at f 0 = 77 /\ byte_at f 1 = 90 /\ pe = u32 f 60 /\ 64 <= pe /\
  byte_at f pe = 80 /\ byte_at f (pe + 1) = 69 /\ byte_at f (pe + 2) = 0 /\ byte_at f (pe + 3) = 0 /\
  hv_nsec hv = u16 f (pe + 6) /\ hv_optsize hv = u16 f (pe + 20) /\ opt + hv_optsize hv <= zlen f /\
  ((u16 f opt = 267 /\ hv_dd4 hv = 128 /\ 224 <= hv_optsize hv /\ 5 <= u32 f (opt + 92)) \/
   (u16 f opt = 523 /\ hv_dd4 hv = 144 /\ 240 <= hv_optsize hv /\ 5 <= u32 f (opt + 108))) /\
  hv_posdd hv = opt + hv_dd4 hv /\ hv_sectbl hv = opt + hv_optsize hv /\
  hv_soh hv = u32 f (opt + 60) /\ hv_falign hv = u32 f (opt + 36) /\ hv_page hv = page_of (u16 f (pe + 4)) /\
  hv_certstart hv = u32 f (opt + hv_dd4 hv) /\ hv_certsize hv = u32 f (opt + hv_dd4 hv + 4).

Ltac is_num a := lazymatch a with Z0 => idtac | Zpos _ => idtac | Zneg _ => idtac end.
(* offsets of the form p + c1 + c2 (constants) are brought to p + c *)
Ltac norm_off :=
  repeat match goal with
  | |- context [?p + ?a + ?b] => is_num a; is_num b; let c := eval compute in (a + b) in replace (p + a + b) with (p + c) by lia
  | H : context [?p + ?a + ?b] |- _ => is_num a; is_num b; let c := eval compute in (a + b) in replace (p + a + b) with (p + c) in H by lia
  | |- context [?p + 0] => replace (p + 0) with p by lia
  | H : context [?p + 0] |- _ => replace (p + 0) with p in H by lia
  end.

Lemma read_nt_facts f hv : read_nt f = Ok hv -> nt_facts f hv.
Proof.
  unfold read_nt. intros H.
  repeat break_if H; autounfold with pegen in *; zb;
  inversion H; subst hv; clear H; unfold nt_facts; cbn [hv_pe hv_nsec hv_optsize hv_dd4 hv_posdd hv_sectbl hv_soh hv_falign hv_page hv_certstart hv_certsize];
  unfold page_of; norm_off;
  repeat match goal with H : existsb _ _ = _ |- _ => rewrite H end;
  repeat split; try lia; try reflexivity; try (left; repeat split; lia); try (right; repeat split; lia).
Qed.

Lemma hv_eta hv : hv = mkHv (hv_pe hv) (hv_nsec hv) (hv_optsize hv) (hv_dd4 hv) (hv_posdd hv) (hv_sectbl hv) (hv_soh hv)
                             (hv_falign hv) (hv_page hv) (hv_certstart hv) (hv_certsize hv).
Proof. destruct hv; reflexivity. Qed.

Ltac decide_if :=
  match goal with
  | |- context [if ?c then _ else _] =>
      first [ replace c with false by (symmetry; autounfold with pegen; first [apply Z.ltb_ge; lia | apply Z.eqb_neq; lia | apply Z.leb_gt; lia
                                        | apply orb_false_iff; repeat split; apply negb_false_iff, Z.eqb_eq; lia
                                        | apply orb_false_iff; repeat split; try apply orb_false_iff; repeat split; apply negb_false_iff, Z.eqb_eq; lia ])
            | replace c with true by (symmetry; autounfold with pegen; first [apply Z.ltb_lt; lia | apply Z.eqb_eq; lia | apply Z.leb_le; lia]) ]
  end.

Lemma read_nt_intro f hv : nt_facts f hv -> read_nt f = Ok hv.
Proof.
  unfold nt_facts. cbv zeta. intros (H1 & H2 & H3 & H4 & H5 & H6 & H7 & H8 & H9 & H10 & H11 & H12 & H13 & H14 & H15 & H16 & H17 & H18 & H19 & H20).
  rewrite (hv_eta hv). unfold read_nt.
  autounfold with pegen. rewrite <- H4. norm_off.
  rewrite H2, H3, H6, H7, H8, H9. cbn [Z.eqb Pos.eqb negb orb].
  rewrite <- H10, <- H11.
  destruct H13 as [(M & D & O & N)|(M & D & O & N)]; rewrite M;
  [change (267 =? 267) with true | change (523 =? 267) with false; change (523 =? 523) with true]; cbv iota;
  repeat decide_if; unfold page_of in H18; rewrite H14, H15, H16, H17, H18, H19, H20, D; norm_off; reflexivity.
Qed.
