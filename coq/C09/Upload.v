(* C09/Upload.v — executable model of the error path of an upload (lib/compresshttp compress / CompressRequest /
   DecompressRequest / Middleware, cmdline/remotecmd buildRequest / doRequest): how an error from reading the upload
   source, from the compressor or from Close reaches the pipe, the HTTP request and the server's view of the body.
   Definitions only.  The Go functions are NOT re-written by hand: srcgen translates their bodies into programs of the
   small statement language ef_stmt (Generated/C09_gen.v: compress_prog, creq_goroutine_prog, dreq_prog, middleware_prog,
   br_prog, taraddstream_prog) and this file interprets them.
   Sections:  1 interpreter of error-flow programs   2 reference semantics of the translated functions
              3 source, pipe, codec   4 client side of one attempt   5 server side   6 SPEC   7 standalone reading
              8 attempts inside doRequest   9 a concrete framed codec (for evaluation and witnesses) *)
From Relic Require Import Base.Prelude Base.Enc Generated.C09_gen C09.Model.

(* ================================================================== 1. interpreter *)
(* error values: 0 is nil, anything else is an error.  Variables are numbered by srcgen; -1 discards, the result variable
   of a function with an unnamed error result is -2 (no statement can assign it except `return e`). *)
Definition venv := list (Z * Z).
Fixpoint vget (m : venv) (v : Z) : Z :=
  match m with [] => 0 | (k, x) :: r => if k =? v then x else vget r v end.
Definition vput (m : venv) (v x : Z) : venv := if v =? -1 then m else (v, x) :: m.
Definition ef_eval (m : venv) (e : ef_expr) : Z :=
  match e with ENil => 0 | EVar v => vget m v | EConst k => k end.

Section Exec.
  Variable W : Type.
  Variable eff : Z -> list Z -> W -> Z * W.   (* effect number, error-valued arguments, world -> returned error, world *)
  Variable opq : Z -> bool.                   (* conditions the translation does not look into *)

  Fixpoint ef_cond_eval (m : venv) (c : ef_cond) : bool :=
    match c with
    | CNil v => vget m v =? 0
    | CNotNil v => negb (vget m v =? 0)
    | CAnd a b => ef_cond_eval m a && ef_cond_eval m b
    | COr a b => ef_cond_eval m a || ef_cond_eval m b
    | CNot a => negb (ef_cond_eval m a)
    | COpaque k => opq k
    end.

  Record fstate := mkF { f_vars : venv; f_defers : list (list ef_stmt); f_world : W }.

  (* (returned?, state).  Structural recursion on the program (no fuel): a statement list nested in an `if` is run by the
     local copy `go` of exec_block *)
  Fixpoint exec_stmt (res : Z) (s : ef_stmt) (st : fstate) : bool * fstate :=
    let go := fix go (b : list ef_stmt) (st : fstate) : bool * fstate :=
      match b with
      | [] => (false, st)
      | s :: r => let '(ret, st') := exec_stmt res s st in if ret then (true, st') else go r st'
      end in
    match s with
    | EfCall dst fn args =>
        let '(e, w') := eff fn (map (ef_eval (f_vars st)) args) (f_world st) in
        (false, mkF (vput (f_vars st) dst e) (f_defers st) w')
    | EfSet dst e => (false, mkF (vput (f_vars st) dst (ef_eval (f_vars st) e)) (f_defers st) (f_world st))
    | EfIf c th el => if ef_cond_eval (f_vars st) c then go th st else go el st
    | EfDefer body => (false, mkF (f_vars st) (body :: f_defers st) (f_world st))
    | EfReturn None => (true, st)
    | EfReturn (Some e) => (true, mkF ((res, ef_eval (f_vars st) e) :: f_vars st) (f_defers st) (f_world st))
    end.
  Fixpoint exec_block (res : Z) (b : list ef_stmt) (st : fstate) : bool * fstate :=
    match b with
    | [] => (false, st)
    | s :: r => let '(ret, st') := exec_stmt res s st in if ret then (true, st') else exec_block res r st'
    end.

  (* Go: deferred calls run last-in first-out after the result has been set; a deferred closure sees and may assign the
     named results.  (A defer inside a deferred closure is refused by the translator.) *)
  Fixpoint run_defers (res : Z) (ds : list (list ef_stmt)) (vars : venv) (w : W) : venv * W :=
    match ds with
    | [] => (vars, w)
    | d :: r => let '(_, st') := exec_block res d (mkF vars [] w) in run_defers res r (f_vars st') (f_world st')
    end.

  Definition exec_fn (prog : list ef_stmt) (res : Z) (w : W) : Z * W :=
    let '(_, st) := exec_block res prog (mkF [] [] w) in
    let '(vars, w') := run_defers res (f_defers st) (f_vars st) (f_world st) in
    (vget vars res, w').

  (* ================================================================ 2. reference semantics of the translated functions *)
  (* what each function has to do for the property, written without looking at the programs *)
  (* compress: set up the compressor, copy the whole source through it, close it; the first failure is the result, and the
     stream is terminated (Close) only after a complete copy *)
  Definition spec_compress (w : W) : Z * W :=
    let '(e0, w0) := eff 0 [] w in
    if e0 =? 0 then
      let '(e1, w1) := eff 1 [] w0 in
      if e1 =? 0 then eff 2 [] w1 else (e1, w1)
    else (e0, w0).
  (* the goroutine of CompressRequest: run compress, release the source, close the pipe WITH compress's result *)
  Definition spec_goroutine (w : W) : Z * W :=
    let '(e, w1) := eff 0 [] w in
    let '(_, w2) := eff 1 [] w1 in
    let '(_, w3) := eff 2 [e] w2 in (0, w3).
  (* DecompressRequest: the body is replaced by the decoder exactly when decompress succeeded; its error is returned *)
  Definition spec_dreq (w : W) : Z * W :=
    let '(e, w1) := eff 0 [] w in
    if e =? 0 then let '(_, w2) := eff 1 [] w1 in (0, w2) else (e, w1).
  (* Middleware: a request whose body cannot be decoded is answered with an error and never reaches the handler;
     otherwise the handler runs exactly once *)
  Definition spec_middleware (w : W) : Z * W :=
    let '(e, w1) := eff 0 [] w in
    if e =? 0 then
      if opq 1 || opq 2 then let '(_, w2) := eff 2 [] w1 in (0, w2)
      else let '(_, w2) := eff 2 [] w1 in let '(_, w3) := eff 3 [] w2 in (0, w3)
    else let '(_, w2) := eff 1 [] w1 in (0, w2).
  (* buildRequest: any failure (in particular of GetReader and CompressRequest) is returned and no request exists *)
  Definition spec_build (w : W) : Z * W :=
    let '(e0, w0) := eff 0 [0] w in
    if negb (e0 =? 0) then (e0, w0) else
    let '(e1, w1) := eff 1 [] w0 in
    if negb (e1 =? 0) then (e1, w1) else
    let '(e2, w2) := if opq 2 then eff 2 [] w1 else (0, w1) in
    if negb (e2 =? 0) then (e2, w2) else
    if opq 3 then
      let '(e3, w3) := eff 3 [] w2 in
      if negb (e3 =? 0) then (e3, w3) else
      let '(e4, w4) := eff 4 [] w3 in
      if negb (e4 =? 0) then (e4, w4) else (0, w4)
    else (0, w2).
  (* tarAddStream: header, then exactly `size` bytes; a short or failing source is an error *)
  Definition spec_taradd (w : W) : Z * W :=
    let '(e0, w0) := eff 0 [] w in
    if negb (e0 =? 0) then (e0, w0) else
    let '(e1, w1) := eff 1 [] w0 in
    if negb (e1 =? 0) then (e1, w1) else (0, w1).
End Exec.
Arguments mkF {W}.
Arguments f_vars {W}.
Arguments f_defers {W}.
Arguments f_world {W}.

Definition E_FUEL : Z := 999.            (* a loop of the model ran out of fuel (never: theorems) *)
Definition E_UNKNOWN_EFFECT : Z := 998.  (* a call the model has no semantics for *)
Definition E_UNACCEPTABLE : Z := 415.    (* ErrUnacceptableEncoding *)
Definition E_CLOSED_PIPE : Z := 901.     (* io.ErrClosedPipe: the reading side of the pipe went away *)
Definition run_prog {W} (eff : Z -> list Z -> W -> Z * W) (opq : Z -> bool) (prog : list ef_stmt) (res : Z) (w : W) : Z * W :=
  exec_fn W eff opq prog res w.

(* ================================================================== 3. source, pipe, codec *)
(* the client-side stream as one attempt reads it: u_data is delivered (in reads of the scripted sizes), then the source
   reports end of file (u_fail = 0) or a read error (u_fail <> 0).  "A source that fails after k bytes" of a stream s is
   mkUS (ztake k s) e script. *)
Record usrc := mkUS { u_data : bytes; u_fail : Z; u_script : list Z }.

(* io.Pipe: p_term = None while open, Some 0 after Close / CloseWithError(nil), Some e after CloseWithError(e).
   p_cut >= 0: the reading side goes away (request abandoned) once it has taken that many bytes; -1: it stays *)
Record pipe := mkP { p_bytes : bytes; p_cut : Z; p_term : option Z }.
Definition pipe_write (p : pipe) (out : bytes) : pipe * Z :=
  if (0 <=? p_cut p) && (p_cut p <? zlen (p_bytes p) + zlen out)
  then (mkP (p_bytes p ++ ztake (p_cut p - zlen (p_bytes p)) out) (p_cut p) (p_term p), E_CLOSED_PIPE)
  else (mkP (p_bytes p ++ out) (p_cut p) (p_term p), 0).
Definition pipe_close (p : pipe) (e : Z) : pipe := mkP (p_bytes p) (p_cut p) (Some e).

Inductive sview := SErr | SOk (b : bytes).   (* what the signing handler gets to digest: nothing, or this byte string *)

Section Upload.
  (* the stream codecs (compress/gzip, golang/snappy) are not modelled: any streaming encoder/decoder pair *)
  Variable St : Type.
  Variable enc_init : Z -> St.
  Variable enc_write : St -> bytes -> St * bytes.
  Variable enc_close : St -> bytes.
  Variable dec : Z -> bytes -> option bytes.    (* Some b: decodes to b and ends cleanly; None: any decoding error *)

  (* kind 0 (identity / no Content-Encoding) is nopCloseWriter / ioutil.NopCloser *)
  Definition xwrite (k : Z) (s : St) (d : bytes) : St * bytes := if k =? 0 then (s, d) else enc_write s d.
  Definition xclose (k : Z) (s : St) : bytes := if k =? 0 then [] else enc_close s.
  Definition xdec (k : Z) (b : bytes) : option bytes := if k =? 0 then Some b else dec k b.
  Fixpoint enc_run (k : Z) (s : St) (cs : list bytes) : St * bytes :=
    match cs with
    | [] => (s, [])
    | c :: r => let '(s1, o1) := xwrite k s c in let '(s2, o2) := enc_run k s1 r in (s2, o1 ++ o2)
    end.
  (* the library assumption under which the theorems are stated: a completely written and closed stream decodes to what
     was written, whatever the write sizes (up to io.Copy's buffer) *)
  Definition codec_roundtrip : Prop :=
    forall k cs, 0 < k -> Forall (fun c => zlen c <= io_copy_buf) cs ->
      dec k (snd (enc_run k (enc_init k) cs) ++ enc_close (fst (enc_run k (enc_init k) cs))) = Some (concat cs).

  (* ================================================================ 4. client side of one attempt *)
  Record uw := mkUW { w_encname : bytes; w_kind : Z; w_src : rd; w_fail : Z; w_enc : St; w_pipe : pipe }.

  (* io.Copy(compr, r): read (at most 32 KiB, as many bytes as the script says), write to the compressor, which writes to
     the pipe; end of file ends the copy with nil, any other read error or any write error ends it with that error *)
  Fixpoint copy_loop (fuel : nat) (k : Z) (r : rd) (fail : Z) (s : St) (p : pipe) : Z * (rd * St * pipe) :=
    match fuel with
    | O => (E_FUEL, (r, s, p))
    | S f =>
        match r_data r with
        | [] => (fail, (r, s, p))
        | _ => let '(got, r') := rd_read r io_copy_buf in
               let '(s', out) := xwrite k s got in
               let '(p', e) := pipe_write p out in
               if e =? 0 then copy_loop f k r' fail s' p' else (e, (r', s', p'))
        end
    end.

  (* effects of compress_prog: 0 setupCompression(encoding, w)  1 io.Copy(compr, r)  2 compr.Close() *)
  Definition eff_compress (fn : Z) (args : list Z) (w : uw) : Z * uw :=
    if fn =? 0 then
      let k := setup_kind (w_encname w) in
      if k <? 0 then (E_UNACCEPTABLE, w)
      else (0, mkUW (w_encname w) k (w_src w) (w_fail w) (enc_init k) (w_pipe w))
    else if fn =? 1 then
      let '(e, (r', s', p')) := copy_loop (S (length (r_data (w_src w)))) (w_kind w) (w_src w) (w_fail w) (w_enc w) (w_pipe w) in
      (e, mkUW (w_encname w) (w_kind w) r' (w_fail w) s' p')
    else if fn =? 2 then
      let '(p', e) := pipe_write (w_pipe w) (xclose (w_kind w) (w_enc w)) in
      (e, mkUW (w_encname w) (w_kind w) (w_src w) (w_fail w) (w_enc w) p')
    else (E_UNKNOWN_EFFECT, w).
  Definition no_opaque (k : Z) : bool := false.
  (* parameterised by the program so that a variant of compress can be run through the same model (witnesses) *)
  Definition run_compress_with (cprog : list ef_stmt) (cres : Z) (w : uw) : Z * uw := run_prog eff_compress no_opaque cprog cres w.
  Definition run_compress : uw -> Z * uw := run_compress_with compress_prog compress_prog_result.

  (* effects of creq_goroutine_prog: 0 compress(encoding, plain, pw)  1 plain.Close()  2 pw.CloseWithError(arg)  3 pw.Close() *)
  Definition eff_goroutine_with (cprog : list ef_stmt) (cres : Z) (fn : Z) (args : list Z) (w : uw) : Z * uw :=
    if fn =? 0 then run_compress_with cprog cres w
    else if fn =? 1 then (0, w)
    else if fn =? 2 then (0, mkUW (w_encname w) (w_kind w) (w_src w) (w_fail w) (w_enc w) (pipe_close (w_pipe w) (hd 0 args)))
    else if fn =? 3 then (0, mkUW (w_encname w) (w_kind w) (w_src w) (w_fail w) (w_enc w) (pipe_close (w_pipe w) 0))
    else (E_UNKNOWN_EFFECT, w).
  Definition eff_goroutine := eff_goroutine_with compress_prog compress_prog_result.

  (* CompressRequest's wiring (statement facts re-read by srcgen): the source of the goroutine is the request body, the new
     body is the reading end of the pipe, and the Content-Encoding header names the encoding *)
  Definition creq_wired : bool :=
    creq_uses_pipe && creq_body_is_pipe_reader && creq_source_is_request_body && creq_sets_content_encoding.

  (* what leaves the client in one attempt: (Content-Encoding, body bytes, how the body ended: Some 0 = normal end,
     Some e = the body reader failed with e, None = never ended) *)
  Definition wire : Type := bytes * bytes * option Z.
  Definition client_wire_with (cprog : list ef_stmt) (cres : Z) (advertised : list bytes) (src : usrc) (cut : Z) : wire :=
    let e := select_encoding advertised in
    if creq_plain_cond e then
      (* no compression: request.Body is the stream itself (br_body_is_stream); the transport reads it to EOF or error *)
      if br_body_is_stream then ([], u_data src, Some (u_fail src)) else ([], [], Some 0)
    else if creq_wired then
      let w0 := mkUW e 0 (mkRd (u_data src) (u_script src)) (u_fail src) (enc_init 0) (mkP [] cut None) in
      let '(_, w1) := run_prog (eff_goroutine_with cprog cres) no_opaque creq_goroutine_prog creq_goroutine_prog_result w0 in
      (e, p_bytes (w_pipe w1), p_term (w_pipe w1))
    else (e, [], Some 0).
  Definition client_wire := client_wire_with compress_prog compress_prog_result.

  (* ================================================================ 5. server side *)
  (* world of the middleware: the Content-Encoding header, whether request.Body has been replaced by the decoder, how
     often the handler was called *)
  Record mw := mkMW { m_ce : bytes; m_decoded : bool; m_ran : Z; m_refused : Z }.
  (* effects of dreq_prog: 0 decompress(header, body)  1 request.Body = decoder *)
  Definition eff_dreq (fn : Z) (args : list Z) (w : mw) : Z * mw :=
    if fn =? 0 then (if decompress_kind (m_ce w) <? 0 then E_UNACCEPTABLE else 0, w)
    else if fn =? 1 then (0, mkMW (m_ce w) true (m_ran w) (m_refused w))
    else (E_UNKNOWN_EFFECT, w).
  (* effects of middleware_prog: 0 DecompressRequest(r)  1 http.Error  2 next.ServeHTTP  3 wrapped.Close *)
  Definition eff_middleware (opq : Z -> bool) (fn : Z) (args : list Z) (w : mw) : Z * mw :=
    if fn =? 0 then run_prog eff_dreq opq dreq_prog dreq_prog_result w
    else if fn =? 1 then (0, mkMW (m_ce w) (m_decoded w) (m_ran w) (m_refused w + 1))
    else if fn =? 2 then (0, mkMW (m_ce w) (m_decoded w) (m_ran w + 1) (m_refused w))
    else if fn =? 3 then (0, w)
    else (E_UNKNOWN_EFFECT, w).
  (* the handler digests request.Body to its end.  net/http (assumption, observed by the harness): a request whose body
     reader failed on the client is aborted, and the handler's read of the body fails; a body that ended normally is
     delivered completely *)
  Definition server_view (opq : Z -> bool) (x : wire) : sview :=
    let '(ce, body, term) := x in
    let '(_, w) := run_prog (eff_middleware opq) opq middleware_prog middleware_prog_result (mkMW ce false 0 0) in
    if m_ran w <=? 0 then SErr else
    match term with
    | Some 0 =>
        if m_decoded w then match xdec (decompress_kind ce) body with Some b => SOk b | None => SErr end
        else SOk body
    | _ => SErr
    end.

  (* the result the client's transport reports for the attempt's body: 0 or the body reader's error *)
  Definition client_body_error (x : wire) : Z := match snd x with Some e => e | None => E_FUEL end.
End Upload.

(* ================================================================== 6. SPEC *)
(* from the property text: the server may digest (and sign) only the complete client-side stream; a stream whose reading
   fails yields no signature — whatever encoding was negotiated *)
Definition spec_view (src : usrc) : sview := if u_fail src =? 0 then SOk (u_data src) else SErr.

(* ================================================================== 7. standalone signing reads the same stream directly *)
Fixpoint read_all (fuel : nat) (r : rd) (fail : Z) (acc : bytes) : sview :=
  match fuel with
  | O => SErr
  | S f =>
      match r_data r with
      | [] => if fail =? 0 then SOk acc else SErr
      | _ => let '(got, r') := rd_read r 512 in read_all f r' fail (acc ++ got)
      end
  end.
Definition standalone_view (src : usrc) : sview :=
  read_all (S (length (u_data src))) (mkRd (u_data src) (u_script src)) (u_fail src) [].

(* ================================================================== 8. attempts inside doRequest *)
(* one entry per attempt: what the host would answer, the stream as this attempt's GetReader delivers it, and whether
   httperror.Temporary holds for its read error.  net/http (assumption): when the body reader fails, cli.Do returns that
   error.  buildRequest failing (GetReader error) ends doRequest (dr_build_error_returns); it is the OConnPerm case. *)
Record att_in := mkAI { ai_beh : outcome; ai_src : usrc; ai_temp : bool }.
Definition attempt_outcome (a : att_in) : outcome :=
  if u_fail (ai_src a) =? 0 then ai_beh a
  else if ai_temp a && dr_build_error_returns then OConnTemp else OConnPerm.
Definition healthy_default : att_in := mkAI (OStatus 200) (mkUS [] 0 []) false.
Fixpoint pad_take {A} (d : A) (n : nat) (l : list A) : list A :=
  match n with O => [] | S n' => hd d l :: pad_take d n' (tl l) end.

(* every pipe-backed transform closes its pipe with the producer's error (so a failing producer is a failing source) *)
Definition producers_propagate_errors : bool :=
  list_eqb Z.eqb zip_producer_close [0] && list_eqb Z.eqb msi_producer_close [0] &&
  list_eqb Z.eqb macho_producer_close [0] && list_eqb Z.eqb dmg_producer_close [0].

(* ================================================================== 9. a concrete framed codec *)
(* stands in for gzip (kind 1: the stream ends with a trailer carrying the total length) and snappy-framed (kind 2: a
   sequence of frames, no trailer: every frame boundary is a valid end).  Frame = 1 ‖ u32le length ‖ data; trailer =
   0 ‖ u32le (total mod 2^32). *)
Definition fc_state := Z.     (* bytes written so far *)
Definition fc_init (k : Z) : fc_state := 0.
Definition fc_frame (d : bytes) : bytes := match d with [] => [] | _ => 1 :: le_enc 4 (zlen d) ++ d end.
Definition fc_write (s : fc_state) (d : bytes) : fc_state * bytes := (s + zlen d, fc_frame d).
Definition fc_trailer (total : Z) : bytes := 0 :: le_enc 4 (total mod 2 ^ 32).
Definition fc_close1 (s : fc_state) : bytes := fc_trailer s.
(* the codec record passes the kind through the state: kind 2 has no trailer *)
Definition fc2_state := (Z * Z)%type.
Definition fc2_init (k : Z) : fc2_state := (k, 0).
Definition fc2_write (s : fc2_state) (d : bytes) : fc2_state * bytes := ((fst s, snd s + zlen d), fc_frame d).
Definition fc2_close (s : fc2_state) : bytes := if fst s =? 1 then fc_trailer (snd s) else [].
Fixpoint fc2_dec_loop (fuel : nat) (k : Z) (w : bytes) (acc : bytes) : option bytes :=
  match fuel with
  | O => None
  | S f =>
      match w with
      | [] => if k =? 1 then None else Some acc                 (* kind 1 needs its trailer *)
      | t :: rest =>
          if t =? 1 then
            let n := le_dec (ztake 4 rest) in
            let body := zdrop 4 rest in
            if (zlen rest <? 4) || (n <=? 0) || (zlen body <? n) then None
            else fc2_dec_loop f k (zdrop n body) (acc ++ ztake n body)
          else if (t =? 0) && (k =? 1) then
            if (zlen rest =? 4) && (le_dec rest =? zlen acc mod 2 ^ 32) then Some acc else None
          else None
      end
  end.
Definition fc2_dec (k : Z) (w : bytes) : option bytes := fc2_dec_loop (S (length w)) k w [].

Definition fc_client_wire := client_wire fc2_state fc2_init fc2_write fc2_close.
Definition fc_client_wire_with := client_wire_with fc2_state fc2_init fc2_write fc2_close.
Definition fc_server_view := server_view fc2_dec.

(* the change that C09 excludes, kept as a witness program: Close in a deferred closure that overwrites the result
   (seeded/C09-compress-swallows-read-error) *)
Definition compress_prog_deferred_close : list ef_stmt :=
  [EfCall 0 0 []; EfIf (CNotNil 0) [EfReturn (Some (EVar 0))] []; EfDefer [EfCall 0 2 []]; EfCall 0 1 []; EfReturn (Some (EVar 0))].
