(* C09/Proofs.v — lemmas for C09 (chunk library, split independence of the block hashers, transport state machine). *)
From Relic Require Import Base.Prelude Base.Enc Generated.C09_gen C09.Model.

(* ================================================================== list helpers *)
Lemma ztake_split {A} k n (l : list A) : 0 <= k <= n -> ztake n l = ztake k l ++ ztake (n - k) (zdrop k l).
Proof.
  intros H. unfold ztake, zdrop.
  replace (Z.to_nat n) with (Z.to_nat k + Z.to_nat (n - k))%nat by lia.
  generalize (Z.to_nat k) (Z.to_nat (n - k)). clear. intros a b. revert l.
  induction a as [|a IH]; intros l; cbn [Nat.add firstn skipn app].
  - reflexivity.
  - destruct l as [|x t]; cbn [firstn skipn app].
    + now rewrite firstn_nil.
    + f_equal. apply IH.
Qed.

Lemma zlen_ztake_min {A} n (l : list A) : 0 <= n -> zlen (ztake n l) = Z.min n (zlen l).
Proof. intros H. unfold zlen, ztake. rewrite firstn_length. lia. Qed.

Lemma zlen_zdrop_max {A} n (l : list A) : 0 <= n -> zlen (zdrop n l) = Z.max 0 (zlen l - n).
Proof. intros H. unfold zlen, zdrop. rewrite skipn_length. lia. Qed.

Lemma length_zdrop {A} n (l : list A) : length (zdrop n l) = (length l - Z.to_nat n)%nat.
Proof. unfold zdrop. apply skipn_length. Qed.

Lemma zlen_pos_cons {A} (l : list A) : 0 < zlen l -> exists x t, l = x :: t.
Proof. destruct l as [|x t]; [cbn; lia|]. intros _. now exists x, t. Qed.

Lemma zlen_zero_nil {A} (l : list A) : zlen l = 0 -> l = [].
Proof. destruct l; [reflexivity|]. rewrite zlen_cons. pose proof (zlen_nonneg l). lia. Qed.

Lemma app_inv_zlen {A} (a b c d : list A) : zlen a = zlen c -> a ++ b = c ++ d -> a = c /\ b = d.
Proof.
  intros Hl H. assert (length a = length c) by (unfold zlen in Hl; lia).
  revert c H0 Hl H. induction a as [|x a IH]; intros [|y c] Hn Hl H; cbn in *; try discriminate.
  - now split.
  - inversion H; subst. destruct (IH c) as [-> ->]; auto. unfold zlen in *. cbn in Hl. lia.
Qed.

(* ================================================================== 1. chunk library *)
Section Chunks.
  Variable B : Z.
  Hypothesis HB : 0 < B.

  Lemma chunks_aux_any fuel1 : forall fuel2 l,
    (length l <= fuel1)%nat -> (length l <= fuel2)%nat -> chunks_aux fuel1 B l = chunks_aux fuel2 B l.
  Proof.
    induction fuel1 as [|f1 IH]; intros fuel2 l H1 H2.
    - destruct l; [|cbn in H1; lia]. destruct fuel2; reflexivity.
    - destruct l as [|x t]; [destruct fuel2; reflexivity|].
      destruct fuel2 as [|f2]; [cbn in H2; lia|].
      cbn [chunks_aux]. f_equal. apply IH; rewrite length_zdrop; cbn [length] in *; lia.
  Qed.

  Lemma chunks_nil : chunks B [] = [].
  Proof. reflexivity. Qed.

  Lemma chunks_step l : l <> [] -> chunks B l = ztake B l :: chunks B (zdrop B l).
  Proof.
    intros Hne. destruct l as [|x t]; [congruence|].
    unfold chunks at 1. cbn [length chunks_aux]. f_equal. unfold chunks.
    apply chunks_aux_any; rewrite ?length_zdrop; cbn [length]; lia.
  Qed.

  Lemma chunks_app_full a l : zlen a = B -> chunks B (a ++ l) = a :: chunks B l.
  Proof.
    intros Ha. rewrite chunks_step.
    - rewrite ztake_app_l by lia. rewrite ztake_all by lia.
      rewrite zdrop_app_r by lia. replace (B - zlen a) with 0 by lia. now rewrite zdrop_0.
    - destruct a; [cbn in Ha; lia|discriminate].
  Qed.

  Lemma chunks_small a : 0 < zlen a <= B -> chunks B a = [a].
  Proof.
    intros Ha. rewrite chunks_step.
    - rewrite ztake_all by lia. rewrite zdrop_all by lia. reflexivity.
    - destruct a; [cbn in Ha; lia|discriminate].
  Qed.

  Definition is_full (b : bytes) : Prop := zlen b = B.
  Notation full := is_full.

  (* the shape every block-buffered hasher produces: full blocks followed by a flushed short remainder *)
  Lemma chunks_blocks bs r : Forall full bs -> zlen r < B ->
    chunks B (concat bs ++ r) = bs ++ (match r with [] => [] | _ => [r] end).
  Proof.
    intros Hf Hr. induction Hf as [|b bs Hb Hf IH]; cbn [concat app].
    - destruct r as [|x t]; [reflexivity|]. apply chunks_small. rewrite zlen_cons in *. pose proof (zlen_nonneg t). lia.
    - rewrite <- app_assoc. rewrite chunks_app_full by exact Hb. now rewrite IH.
  Qed.

  Lemma concat_chunks_aux fuel : forall l, (length l <= fuel)%nat -> concat (chunks_aux fuel B l) = l.
  Proof.
    induction fuel as [|f IH]; intros l H.
    - destruct l; [reflexivity|cbn in H; lia].
    - destruct l as [|x t]; [reflexivity|]. cbn [chunks_aux concat].
      rewrite IH by (rewrite length_zdrop; cbn [length] in *; lia). apply ztake_zdrop.
  Qed.
  Lemma concat_chunks l : concat (chunks B l) = l.
  Proof. apply concat_chunks_aux. lia. Qed.

  Lemma wf_chunks_aux fuel : forall l, (length l <= fuel)%nat -> wf_chunks B (chunks_aux fuel B l).
  Proof.
    induction fuel as [|f IH]; intros l H.
    - exact I.
    - destruct l as [|x t]; [exact I|].
      cbn [chunks_aux]. set (l := x :: t) in *.
      assert (Hl : 0 < zlen l) by (subst l; rewrite zlen_cons; pose proof (zlen_nonneg t); lia).
      assert (Hd : (length (zdrop B l) <= f)%nat) by (rewrite length_zdrop; subst l; cbn [length] in *; lia).
      specialize (IH (zdrop B l) Hd).
      destruct (zdrop B l) as [|y t'] eqn:Ez.
      + destruct f; cbn [chunks_aux wf_chunks]; rewrite zlen_ztake_min by lia; lia.
      + destruct f as [|f']; [cbn in Hd; lia|].
        cbn [chunks_aux] in *. cbn [wf_chunks]. split; [|exact IH].
        rewrite zlen_ztake_min by lia.
        assert (0 < zlen (zdrop B l)) by (rewrite Ez, zlen_cons; pose proof (zlen_nonneg t'); lia).
        rewrite zlen_zdrop_max in H0 by lia. lia.
  Qed.
  Lemma wf_chunks_chunks l : wf_chunks B (chunks B l).
  Proof. apply wf_chunks_aux. lia. Qed.

  Lemma wf_chunks_cons c r : wf_chunks B (c :: r) -> 0 < zlen c <= B /\ wf_chunks B r.
  Proof. cbn [wf_chunks]. destruct r; [intros H; split; [lia|exact I]|]. intros [H1 H2]. split; [lia|exact H2]. Qed.
  Lemma wf_chunks_concat_pos c r : wf_chunks B (c :: r) -> 0 < zlen (concat (c :: r)).
  Proof.
    intros H. apply wf_chunks_cons in H as [H _]. cbn [concat]. rewrite zlen_app.
    pose proof (zlen_nonneg (concat r)). lia.
  Qed.

  (* uniqueness: a byte string has exactly one decomposition into full blocks followed by one short non-empty block *)
  Lemma chunks_unique a : forall b, wf_chunks B a -> wf_chunks B b -> concat a = concat b -> a = b.
  Proof.
    induction a as [|c ra IH]; intros b Ha Hb H.
    - destruct b as [|d rb]; [reflexivity|].
      apply wf_chunks_concat_pos in Hb. rewrite <- H in Hb. cbn in Hb. lia.
    - destruct b as [|d rb].
      + apply wf_chunks_concat_pos in Ha. rewrite H in Ha. cbn in Ha. lia.
      + pose proof (wf_chunks_cons _ _ Ha) as [Hc Hra]. pose proof (wf_chunks_cons _ _ Hb) as [Hd Hrb].
        cbn [concat] in H.
        destruct ra as [|c2 ra']; destruct rb as [|d2 rb'].
        * cbn [concat] in H. rewrite !app_nil_r in H. now subst.
        * cbn [wf_chunks] in Hb. destruct Hb as [Hd' Hb']. apply wf_chunks_concat_pos in Hb'.
          cbn [concat] in Hb', H. apply (f_equal zlen) in H. rewrite !zlen_app, ?zlen_nil in *. lia.
        * cbn [wf_chunks] in Ha. destruct Ha as [Hc' Ha']. apply wf_chunks_concat_pos in Ha'.
          cbn [concat] in Ha', H. apply (f_equal zlen) in H. rewrite !zlen_app, ?zlen_nil in *. lia.
        * cbn [wf_chunks] in Ha, Hb. destruct Ha as [Hc' Ha']. destruct Hb as [Hd' Hb'].
          apply app_inv_zlen in H as [-> H]; [|lia]. f_equal. now apply IH.
  Qed.

  Theorem chunks_characterised cs l : wf_chunks B cs -> concat cs = l -> cs = chunks B l.
  Proof.
    intros Hw Hc. apply chunks_unique; [exact Hw|apply wf_chunks_chunks|]. now rewrite concat_chunks.
  Qed.

  Lemma zlen_concat_full bs : Forall full bs -> zlen (concat bs) = B * zlen bs.
  Proof.
    induction 1 as [|b bs Hb _ IH]; [cbn; lia|]. cbn [concat]. rewrite zlen_app, zlen_cons, IH. unfold is_full in Hb. lia.
  Qed.
End Chunks.

(* ================================================================== 2. scripted reader: transfers do not depend on the script *)
Lemma rd_read_spec r want : 0 < want -> r_data r <> [] ->
  let '(got, r') := rd_read r want in
  exists k, 0 < k <= want /\ got = ztake k (r_data r) /\ r_data r' = zdrop k (r_data r).
Proof.
  intros Hw Hne. unfold rd_read. cbn [r_data].
  destruct (r_script r) as [|s sc].
  - exists want. repeat split; lia.
  - exists (Z.min want (Z.max 1 s)). repeat split; lia.
Qed.

Lemma pull_spec bufsz : 0 < bufsz -> forall fuel r n acc, (Z.to_nat n < fuel)%nat ->
  fst (pull fuel bufsz r n acc) = acc ++ ztake n (r_data r) /\ r_data (snd (pull fuel bufsz r n acc)) = zdrop n (r_data r).
Proof.
  intros Hb. induction fuel as [|f IH]; intros r n acc Hf; [lia|].
  cbn [pull]. destruct (n <=? 0) eqn:En.
  - cbn [fst snd]. rewrite ztake_neg, zdrop_neg by lia. now rewrite app_nil_r.
  - destruct (r_data r) as [|x t] eqn:Ed.
    + cbn [fst snd]. rewrite Ed. unfold ztake, zdrop. rewrite firstn_nil, skipn_nil. now rewrite app_nil_r.
    + assert (Hne : r_data r <> []) by (rewrite Ed; discriminate).
      pose proof (rd_read_spec r (Z.min bufsz n) ltac:(lia) Hne) as Hs.
      destruct (rd_read r (Z.min bufsz n)) as [got r'] eqn:Er.
      destruct Hs as (k & Hk & Hgot & Hr'). rewrite <- Ed.
      assert (Hlg : zlen got = Z.min k (zlen (r_data r))) by (subst got; apply zlen_ztake_min; lia).
      assert (0 < zlen (r_data r)) by (rewrite Ed, zlen_cons; pose proof (zlen_nonneg t); lia).
      destruct (IH r' (n - zlen got) (acc ++ got) ltac:(lia)) as [H1 H2].
      rewrite H1, H2, Hr'. clear H1 H2 IH. rewrite <- app_assoc. split.
      * f_equal. destruct (Z.le_gt_cases k (zlen (r_data r))).
        -- replace (zlen got) with k by lia. subst got. symmetry. apply ztake_split. lia.
        -- rewrite (zdrop_all k) by lia. subst got. rewrite (ztake_all k) by lia.
           unfold ztake at 1. rewrite firstn_nil, app_nil_r. symmetry. apply ztake_all. lia.
      * destruct (Z.le_gt_cases k (zlen (r_data r))).
        -- replace (zlen got) with k by lia. rewrite zdrop_zdrop by lia. f_equal. lia.
        -- rewrite (zdrop_all k) by lia. unfold zdrop at 1. rewrite skipn_nil. symmetry. apply zdrop_all. lia.
Qed.

Lemma read_full_spec r n : 0 < n ->
  fst (read_full r n) = ztake n (r_data r) /\ r_data (snd (read_full r n)) = zdrop n (r_data r).
Proof. intros H. unfold read_full. apply (pull_spec n H (S (Z.to_nat n)) r n []). lia. Qed.
Lemma copy_n_spec r n :
  fst (copy_n r n) = ztake n (r_data r) /\ r_data (snd (copy_n r n)) = zdrop n (r_data r).
Proof. unfold copy_n. apply (pull_spec io_copy_buf ltac:(reflexivity) (S (Z.to_nat n)) r n []). lia. Qed.

(* ================================================================== 3. APK merkle hasher *)
Section Merkle.
  Variable B : Z.
  Hypothesis HB : 0 < B.
  Notation full := (is_full B).

  Definition minv (h : mh) : Prop := Forall full (m_blocks h) /\ zlen (m_buf h) < B.
  Definition mabs (h : mh) : bytes := concat (m_blocks h) ++ m_buf h.

  Lemma direct_loop_spec fuel : forall d acc, (length d < fuel)%nat ->
    exists bs r, direct_loop fuel B d acc = (acc ++ bs, r) /\ Forall full bs /\ zlen r < B /\ concat bs ++ r = d.
  Proof.
    induction fuel as [|f IH]; intros d acc Hf; [lia|].
    cbn [direct_loop]. unfold merkle_direct_cond. destruct (zlen d >=? B) eqn:E.
    - destruct (IH (zdrop B d) (acc ++ [ztake B d])) as (bs & r & H1 & H2 & H3 & H4).
      { rewrite length_zdrop. unfold zlen in E. lia. }
      exists (ztake B d :: bs), r. rewrite H1. rewrite <- app_assoc. cbn [app concat]. repeat split; auto.
      + constructor; [|exact H2]. unfold is_full. rewrite zlen_ztake_min by lia. lia.
      + rewrite <- app_assoc, H4. apply ztake_zdrop.
    - exists [], d. rewrite app_nil_r. repeat split; auto. lia.
  Qed.

  Lemma full_short_nil bs r d : Forall full bs -> concat bs ++ r = d -> zlen d < B -> bs = [].
  Proof.
    intros Hf Hc Hd. destruct bs as [|b bs]; [reflexivity|]. exfalso.
    inversion Hf as [|? ? Hb _]; subst. unfold is_full in Hb.
    cbn [concat] in Hd. rewrite !zlen_app in Hd. pose proof (zlen_nonneg (concat bs)). pose proof (zlen_nonneg r). lia.
  Qed.

  Lemma Forall_full_app a b : Forall full a -> Forall full b -> Forall full (a ++ b).
  Proof. intros. apply Forall_app. now split. Qed.

  (* one Write: never fails on a consistent state, keeps the invariant, appends d to the abstract stream *)
  Lemma mwrite_spec h d : minv h ->
    exists h', mwrite B h d = Ok h' /\ minv h' /\ mabs h' = mabs h ++ d.
  Proof.
    intros [Hbl Hbuf]. unfold mwrite, m_n, merkle_complete_cond, merkle_save_cond.
    pose proof (zlen_nonneg (m_buf h)) as Hn0. pose proof (zlen_nonneg d) as Hd0.
    destruct (negb (zlen (m_buf h) =? 0) && (zlen (m_buf h) + zlen d >=? B)) eqn:E1.
    - (* phase 1 completes the buffered block *)
      replace ((B - zlen (m_buf h) <? 0) || (zlen d <? B - zlen (m_buf h))) with false by lia.
      cbn [bind].
      destruct (direct_loop_spec (S (length (zdrop (B - zlen (m_buf h)) d))) (zdrop (B - zlen (m_buf h)) d) [] ltac:(lia))
        as (bs & r & H1 & H2 & H3 & H4).
      rewrite H1. cbn [app m_blocks m_buf]. change (zlen (@nil Z)) with 0.
      assert (Hfb : full (m_buf h ++ ztake (B - zlen (m_buf h)) d)).
      { unfold is_full. rewrite zlen_app, zlen_ztake_min by lia. lia. }
      assert (Hall : Forall full ((m_blocks h ++ [m_buf h ++ ztake (B - zlen (m_buf h)) d]) ++ bs)).
      { apply Forall_full_app; [apply Forall_full_app; [exact Hbl|constructor; [exact Hfb|constructor]]|exact H2]. }
      assert (Habs : concat ((m_blocks h ++ [m_buf h ++ ztake (B - zlen (m_buf h)) d]) ++ bs) ++ r = mabs h ++ d).
      { unfold mabs. rewrite !concat_app. cbn [concat]. rewrite app_nil_r, <- !app_assoc. f_equal. f_equal.
        rewrite H4. apply ztake_zdrop. }
      destruct (negb (zlen r =? 0)) eqn:E3.
      + replace (0 + zlen r >? B) with false by lia.
        eexists. split; [reflexivity|]. split.
        * split; cbn [m_blocks m_buf app]; [exact Hall|exact H3].
        * unfold mabs at 1. cbn [m_blocks m_buf app]. exact Habs.
      + eexists. split; [reflexivity|]. split.
        * split; cbn [m_blocks m_buf]; [exact Hall|rewrite zlen_nil; lia].
        * unfold mabs at 1. cbn [m_blocks m_buf]. rewrite <- Habs.
          replace r with (@nil Z) by (symmetry; apply zlen_zero_nil; lia). reflexivity.
    - cbn [bind].
      destruct (direct_loop_spec (S (length d)) d [] ltac:(lia)) as (bs & r & H1 & H2 & H3 & H4).
      rewrite H1. cbn [app m_blocks m_buf].
      destruct (zlen (m_buf h) =? 0) eqn:En.
      + (* empty buffer: full blocks straight from d, remainder saved *)
        assert (Hb0 : m_buf h = []) by (apply zlen_zero_nil; lia).
        assert (Hall : Forall full (m_blocks h ++ bs)) by (apply Forall_full_app; assumption).
        assert (Habs : concat (m_blocks h ++ bs) ++ r = mabs h ++ d).
        { unfold mabs. rewrite Hb0, concat_app, app_nil_r, <- app_assoc. now rewrite H4. }
        destruct (negb (zlen r =? 0)) eqn:E3.
        * replace (zlen (m_buf h) + zlen r >? B) with false by lia.
          eexists. split; [reflexivity|]. split.
          -- split; cbn [m_blocks m_buf]; [exact Hall|rewrite Hb0; exact H3].
          -- unfold mabs at 1. cbn [m_blocks m_buf]. rewrite Hb0. exact Habs.
        * eexists. split; [reflexivity|]. split.
          -- split; cbn [m_blocks m_buf]; [exact Hall|exact Hbuf].
          -- unfold mabs at 1. cbn [m_blocks m_buf]. rewrite Hb0, app_nil_r, <- Habs.
             replace r with (@nil Z) by (symmetry; apply zlen_zero_nil; lia). now rewrite app_nil_r.
      + (* non-empty buffer that d does not fill: d is shorter than a block *)
        assert (Hsmall : zlen d < B) by lia.
        pose proof (full_short_nil bs r d H2 H4 Hsmall) as ->. cbn [concat app] in H4. subst r.
        rewrite app_nil_r.
        destruct (negb (zlen d =? 0)) eqn:E3.
        * replace (zlen (m_buf h) + zlen d >? B) with false by lia.
          eexists. split; [reflexivity|]. split.
          -- split; cbn [m_blocks m_buf]; [exact Hbl|rewrite zlen_app; lia].
          -- unfold mabs. cbn [m_blocks m_buf]. now rewrite app_assoc.
        * eexists. split; [reflexivity|]. split.
          -- split; cbn [m_blocks m_buf]; [exact Hbl|exact Hbuf].
          -- unfold mabs. cbn [m_blocks m_buf].
             replace d with (@nil Z) by (symmetry; apply zlen_zero_nil; lia). now rewrite app_nil_r.
  Qed.

  Lemma mwrite_all_spec ds : forall h, minv h ->
    exists h', mwrite_all B h ds = Ok h' /\ minv h' /\ mabs h' = mabs h ++ concat ds.
  Proof.
    induction ds as [|d ds IH]; intros h Hi.
    - exists h. cbn. now rewrite app_nil_r.
    - destruct (mwrite_spec h d Hi) as (h1 & E1 & Hi1 & A1).
      destruct (IH h1 Hi1) as (h2 & E2 & Hi2 & A2).
      exists h2. cbn [mwrite_all bind]. rewrite E1. cbn [bind]. split; [exact E2|]. split; [exact Hi2|].
      rewrite A2, A1. cbn [concat]. now rewrite app_assoc.
  Qed.

  (* flushing a consistent state yields exactly the chunks of everything written so far, and an empty buffer *)
  Lemma mflush_spec h : minv h ->
    m_blocks (mflush h) = chunks B (mabs h) /\ m_buf (mflush h) = [].
  Proof.
    intros [Hbl Hbuf]. unfold mflush, m_n, merkle_flush_cond, mabs.
    rewrite (chunks_blocks B HB _ _ Hbl Hbuf).
    destruct (m_buf h) as [|x t] eqn:Eb.
    - cbn. rewrite Eb. now rewrite app_nil_r.
    - replace (negb (zlen (x :: t) =? 0)) with true by (rewrite zlen_cons; pose proof (zlen_nonneg t); lia).
      cbn [m_blocks m_buf]. split; reflexivity.
  Qed.


  (* blocks already emitted are never touched again: Write and flush commute with prefixing the block list *)
  Definition frame (P : list bytes) (h : mh) : mh := mkMH (P ++ m_blocks h) (m_buf h).
  Definition rmap {X Y} (f : X -> Y) (r : result X) : result Y :=
    match r with Ok a => Ok (f a) | Err e => Err e | Panic e => Panic e end.

  Lemma mwrite_frame P h d : mwrite B (frame P h) d = rmap (frame P) (mwrite B h d).
  Proof.
    unfold mwrite, m_n, frame. cbn [m_blocks m_buf].
    destruct (merkle_complete_cond B (zlen (m_buf h)) (zlen d)).
    - destruct ((B - zlen (m_buf h) <? 0) || (zlen d <? B - zlen (m_buf h))); [reflexivity|].
      cbn [bind m_blocks m_buf].
      destruct (direct_loop (S (length (zdrop (B - zlen (m_buf h)) d))) B (zdrop (B - zlen (m_buf h)) d) []) as [bs d2].
      cbn [m_blocks m_buf].
      destruct (merkle_save_cond (zlen d2)); [destruct (zlen [] + zlen d2 >? B)|]; cbn [rmap m_blocks m_buf];
        rewrite <- ?app_assoc; reflexivity.
    - cbn [bind m_blocks m_buf].
      destruct (direct_loop (S (length d)) B d []) as [bs d2]. cbn [m_blocks m_buf].
      destruct (merkle_save_cond (zlen d2)); [destruct (zlen (m_buf h) + zlen d2 >? B)|]; cbn [rmap m_blocks m_buf];
        rewrite <- ?app_assoc; reflexivity.
  Qed.

  Lemma mflush_frame P h : mflush (frame P h) = frame P (mflush h).
  Proof.
    unfold mflush, m_n, frame. cbn [m_blocks m_buf].
    destruct (merkle_flush_cond (zlen (m_buf h))); cbn [m_blocks m_buf]; rewrite <- ?app_assoc; reflexivity.
  Qed.

  Lemma minv_init : minv mh_init.
  Proof. split; cbn; [constructor|lia]. Qed.

  (* one section of the v2 scheme: written into a flushed hasher and flushed again, it contributes exactly its own chunks *)
  Lemma section_spec P d :
    exists h', mwrite B (mkMH P []) d = Ok h' /\ mflush h' = mkMH (P ++ chunks B d) [].
  Proof.
    destruct (mwrite_spec mh_init d minv_init) as (h1 & E1 & Hi1 & A1).
    exists (frame P h1). split.
    - replace (mkMH P []) with (frame P mh_init) by (unfold frame; cbn; now rewrite app_nil_r).
      rewrite mwrite_frame, E1. reflexivity.
    - rewrite mflush_frame. destruct (mflush_spec h1 Hi1) as [Hb Hn]. unfold frame. rewrite Hb, Hn, A1. reflexivity.
  Qed.

  Lemma rf_flush ops args c e h : run_finish B (0 :: ops) args c e h = run_finish B ops args c e (mflush h).
  Proof. reflexivity. Qed.
  Lemma rf_write0 ops args c e h :
    run_finish B (1 :: ops) (0 :: args) c e h = (h' <- mwrite B h c ;; run_finish B ops args c e h').
  Proof. reflexivity. Qed.
  Lemma rf_write1 ops args c e h :
    run_finish B (1 :: ops) (1 :: args) c e h = (h' <- mwrite B h e ;; run_finish B ops args c e h').
  Proof. reflexivity. Qed.
  Lemma rf_skip ops args c e h : run_finish B (2 :: ops) args c e h = run_finish B ops args c e h.
  Proof. reflexivity. Qed.

  (* the whole computation for the call sequence flush; Write cdir; flush; Write eocd; flush *)
  Lemma merkle_run_spec ds cdir eocd :
    finish_calls = [0; 1; 0; 1; 0; 2; 2] -> finish_write_args = [0; 1] ->
    merkle_run B ds cdir eocd = Ok (chunks B (concat ds) ++ chunks B cdir ++ chunks B eocd).
  Proof.
    intros Hc Ha. unfold merkle_run, merkle_finish. rewrite Hc, Ha.
    destruct (mwrite_all_spec ds mh_init minv_init) as (h0 & E0 & Hi0 & A0). rewrite E0. cbn [bind].
    cbn [mabs mh_init m_blocks m_buf concat app] in A0.
    destruct (mflush_spec h0 Hi0) as [Hb0 Hn0].
    rewrite rf_flush.
    replace (mflush h0) with (mkMH (chunks B (concat ds)) []) by (destruct (mflush h0); cbn in *; subst; now rewrite A0).
    destruct (section_spec (chunks B (concat ds)) cdir) as (h1 & E1 & F1).
    rewrite rf_write0, E1. cbn [bind]. rewrite rf_flush, F1.
    destruct (section_spec (chunks B (concat ds) ++ chunks B cdir) eocd) as (h2 & E2 & F2).
    rewrite rf_write1, E2. cbn [bind]. rewrite rf_flush, F2, !rf_skip.
    cbn [run_finish bind m_n m_buf m_blocks]. change (zlen (@nil Z)) with 0. cbn [Z.eqb negb].
    now rewrite <- app_assoc.
  Qed.
End Merkle.

(* ================================================================== 4. AppX block map *)
Lemma bm_limit_val : bm_limit = appx_block_size.
Proof. reflexivity. Qed.

Lemma zlen_cons_pos {A} (x : A) t : 0 < zlen (x :: t).
Proof. rewrite zlen_cons. pose proof (zlen_nonneg t). lia. Qed.

Lemma addfile_loop_spec fuel : forall r acc, (length (r_data r) < fuel)%nat ->
  addfile_loop fuel r acc = acc ++ chunks bm_limit (r_data r).
Proof.
  assert (HB : 0 < bm_limit) by (rewrite bm_limit_val; reflexivity).
  induction fuel as [|f IH]; intros r acc Hf; [lia|].
  cbn [addfile_loop]. destruct (copy_n_spec r bm_limit) as [H1 H2].
  destruct (copy_n r bm_limit) as [got r']. cbn [fst snd] in H1, H2. subst got.
  unfold bm_block_cond.
  destruct (r_data r) as [|x t] eqn:Ed.
  - unfold ztake. rewrite firstn_nil. change (zlen (@nil Z)) with 0.
    replace (0 >? 0) with false by lia. replace (0 <? bm_limit) with true by lia.
    rewrite chunks_nil. now rewrite app_nil_r.
  - rewrite <- Ed in *. assert (Hpos : 0 < zlen (r_data r)) by (rewrite Ed; apply zlen_cons_pos).
    rewrite zlen_ztake_min by lia.
    replace (Z.min bm_limit (zlen (r_data r)) >? 0) with true by lia.
    destruct (Z.min bm_limit (zlen (r_data r)) <? bm_limit) eqn:El.
    + rewrite ztake_all by lia. rewrite chunks_small by lia. reflexivity.
    + rewrite IH by (rewrite H2, length_zdrop; unfold zlen in *; lia).
      rewrite H2, <- app_assoc. cbn [app]. f_equal. symmetry. apply chunks_step; [exact HB|].
      rewrite Ed. discriminate.
Qed.

(* ================================================================== 5. Mach-O code pages *)
Lemma cs_page_size_val : cs_page_size = macho_page_size.
Proof. reflexivity. Qed.

Lemma hashpages_loop_spec fuel : forall r acc, (length (r_data r) < fuel)%nat ->
  hashpages_loop fuel r acc = acc ++ chunks cs_page_size (r_data r).
Proof.
  assert (HB : 0 < cs_page_size) by (rewrite cs_page_size_val; reflexivity).
  induction fuel as [|f IH]; intros r acc Hf; [lia|].
  cbn [hashpages_loop]. destruct (read_full_spec r cs_page_size HB) as [H1 H2].
  destruct (read_full r cs_page_size) as [got r']. cbn [fst snd] in H1, H2. subst got.
  unfold hp_stop_cond.
  destruct (r_data r) as [|x t] eqn:Ed.
  - unfold ztake. rewrite firstn_nil. change (zlen (@nil Z)) with 0.
    replace (0 <=? 0) with true by lia. rewrite chunks_nil. now rewrite app_nil_r.
  - rewrite <- Ed in *. assert (Hpos : 0 < zlen (r_data r)) by (rewrite Ed; apply zlen_cons_pos).
    rewrite zlen_ztake_min by lia.
    replace (Z.min cs_page_size (zlen (r_data r)) <=? 0) with false by lia.
    rewrite IH by (rewrite H2, length_zdrop; unfold zlen in *; lia).
    rewrite H2, <- app_assoc. cbn [app]. f_equal. symmetry. apply chunks_step; [exact HB|].
    rewrite Ed. discriminate.
Qed.

(* ================================================================== 6. PE section pages *)
Lemma pe_section_loop_spec pagesz : 0 < pagesz -> forall fuel r position remaining acc,
  0 <= remaining <= zlen (r_data r) -> 0 <= position -> position + remaining < 2 ^ 32 ->
  (Z.to_nat remaining < fuel)%nat ->
  exists r', pe_section_loop fuel pagesz r position remaining acc =
               Ok (acc ++ number_pages position (chunks pagesz (ztake remaining (r_data r))), r', position + remaining)
             /\ r_data r' = zdrop remaining (r_data r).
Proof.
  intros HP. induction fuel as [|f IH]; intros r position remaining acc Hr Hp Hw Hf; [lia|].
  cbn [pe_section_loop]. unfold pe_sec_loop_cond, pe_sec_clip_cond.
  destruct (remaining >? 0) eqn:Er.
  - set (n := if remaining >? pagesz then pagesz else remaining).
    assert (Hn : 0 < n <= remaining /\ n <= pagesz /\ (n = pagesz \/ n = remaining))
      by (subst n; destruct (remaining >? pagesz) eqn:E; lia).
    clearbody n.
    destruct (read_full_spec r n ltac:(lia)) as [H1 H2].
    destruct (read_full r n) as [got r']. cbn [fst snd] in H1, H2.
    assert (Hg : zlen got = n) by (subst got; rewrite zlen_ztake_min by lia; lia).
    replace (zlen got <? n) with false by lia.
    unfold wrap32. rewrite Z.mod_small by lia.
    destruct (IH r' (position + n) (remaining - n) (acc ++ [(position, got)])) as (r'' & E & Hd).
    { rewrite H2, zlen_zdrop_max by lia. lia. }
    { lia. } { lia. } { lia. }
    exists r''. rewrite E. split.
    + f_equal. f_equal; [|lia]. f_equal. rewrite <- app_assoc. f_equal. cbn [app].
      rewrite (ztake_split n remaining) by lia. rewrite <- H1, H2.
      destruct (Z.eq_dec n pagesz) as [->|Hne].
      * rewrite chunks_app_full by lia. cbn [number_pages]. now rewrite Hg.
      * assert (remaining = n) by lia.
        replace (remaining - n) with 0 by lia. rewrite ztake_neg by lia. rewrite app_nil_r.
        rewrite (chunks_small pagesz HP got) by lia. cbn [number_pages]. rewrite chunks_nil. reflexivity.
    + rewrite Hd, H2. rewrite zdrop_zdrop by lia. f_equal. lia.
  - exists r. assert (remaining = 0) by lia. subst remaining. rewrite ztake_neg by lia. rewrite chunks_nil.
    cbn [number_pages]. rewrite app_nil_r, Z.add_0_r. split; [reflexivity|]. now rewrite zdrop_0.
Qed.

Lemma concat_number_pages pos cs : concat (map snd (number_pages pos cs)) = concat cs.
Proof. revert pos. induction cs as [|c r IH]; intros pos; cbn; [reflexivity|]. now rewrite IH. Qed.

(* ================================================================== 8. tar framing *)
Lemma zip_tar_roundtrip dirloc f : 0 <= dirloc <= zlen f ->
  exists ms, zip_to_tar dirloc f = Ok ms /\ read_zip_tar ms = Ok (zdrop dirloc f, f).
Proof.
  intros H. unfold zip_to_tar, tar_member, ziptotar_members, ziptotar_sizes, ziptotar_offsets, ziptotar_lengths.
  cbn [length seq map nth]. unfold tar_name, off_of, size_of. cbn [Z.eqb Pos.eqb].
  rewrite zdrop_0.
  rewrite (ztake_all (zlen f - dirloc)) by (rewrite zlen_zdrop by lia; lia).
  rewrite (ztake_all (zlen f)) by lia.
  replace (zlen (zdrop dirloc f) <? zlen f - dirloc) with false by (rewrite zlen_zdrop by lia; lia).
  replace (zlen f <? zlen f) with false by lia.
  cbn [collect bind].
  rewrite (ztake_all (zlen f - dirloc)) by (rewrite zlen_zdrop by lia; lia).
  rewrite (ztake_all (zlen f)) by lia.
  eexists. split; [reflexivity|]. unfold read_zip_tar.
  replace (readziptar_first_bad tar_member_cd) with false by reflexivity.
  replace (readziptar_second_bad tar_member_zip) with false by reflexivity. reflexivity.
Qed.

(* ================================================================== 9. encoding negotiation *)
Definition snappy_name : bytes := [120; 45; 115; 110; 97; 112; 112; 121; 45; 102; 114; 97; 109; 101; 100].
Definition gzip_name : bytes := [103; 122; 105; 112].

Lemma bytes_eqb_eq a b : bytes_eqb a b = true <-> a = b.
Proof. apply list_eqb_Z_eq. Qed.
Lemma bytes_eqb_neq a b : bytes_eqb a b = false <-> a <> b.
Proof. split; intros H. - intros E. apply bytes_eqb_eq in E. congruence. - destruct (bytes_eqb a b) eqn:E; [apply bytes_eqb_eq in E; congruence|reflexivity]. Qed.

Lemma pref_of_cases e :
  pref_of enc_prefs e = (if bytes_eqb gzip_name e then 1 else if bytes_eqb snappy_name e then 2 else 0).
Proof. reflexivity. Qed.

Lemma sel_loop_spec items : forall pref best,
  (pref = 0 /\ best = []) \/ (pref = 1 /\ best = gzip_name) \/ (pref = 2 /\ best = snappy_name) ->
  sel_loop items pref best =
    if (pref =? 2) || mem_bytes snappy_name items then snappy_name
    else if (pref =? 1) || mem_bytes gzip_name items then gzip_name else [].
Proof.
  induction items as [|e r IH]; intros pref best Hst.
  - cbn [sel_loop mem_bytes existsb]. rewrite !orb_false_r.
    destruct Hst as [[-> ->]|[[-> ->]|[-> ->]]]; reflexivity.
  - cbn [sel_loop mem_bytes existsb]. rewrite pref_of_cases. unfold sel_better_cond.
    fold (mem_bytes snappy_name r). fold (mem_bytes gzip_name r).
    destruct (bytes_eqb gzip_name e) eqn:Eg.
    + apply bytes_eqb_eq in Eg. subst e.
      replace (bytes_eqb snappy_name gzip_name) with false by reflexivity. cbn [orb].
      destruct Hst as [[-> ->]|[[-> ->]|[-> ->]]]; cbn [Z.gtb Z.compare Pos.compare Pos.compare_cont Z.eqb orb].
      * rewrite IH by (right; left; split; reflexivity). cbn [Z.eqb Pos.eqb orb]. reflexivity.
      * rewrite IH by (right; left; split; reflexivity). cbn [Z.eqb Pos.eqb orb]. reflexivity.
      * rewrite IH by (right; right; split; reflexivity). reflexivity.
    + destruct (bytes_eqb snappy_name e) eqn:Es.
      * apply bytes_eqb_eq in Es. subst e. rewrite orb_true_r.
        destruct Hst as [[-> ->]|[[-> ->]|[-> ->]]]; cbn [Z.gtb Z.compare Pos.compare Pos.compare_cont];
          rewrite IH by (right; right; split; reflexivity); reflexivity.
      * cbn [orb].
        destruct Hst as [[-> ->]|[[-> ->]|[-> ->]]]; cbn [Z.gtb Z.compare Pos.compare Pos.compare_cont].
        -- apply IH. left. split; reflexivity.
        -- apply IH. right. left. split; reflexivity.
        -- apply IH. right. right. split; reflexivity.
Qed.

Lemma select_encoding_spec items : select_encoding items = spec_select items.
Proof. unfold select_encoding. rewrite sel_loop_spec by (left; split; reflexivity). reflexivity. Qed.

(* ================================================================== 10. client doRequest *)
Definition o_success (o : outcome) : bool := match o with OStatus c => c <? 300 | _ => false end.
Definition o_is_406 (o : outcome) : bool := match o with OStatus c => c =? 406 | _ => false end.

(* SPEC, written from the property statement: servers are tried in list order; only a transient failure moves on to the
   next server; a 406 while compression was offered restarts from the first server without compression; the accepted
   response comes from a server that answered below 300; anything else ends the request with that failure *)
Inductive good_trace (L nb : Z) : Z -> bool -> list (attempt * outcome) -> dr_result -> Prop :=
| GT_accept i enc c : 0 <= i < L -> c < 300 ->
    good_trace L nb i enc [(mkAtt (i mod nb) enc, OStatus c)] (DrAccepted (i mod nb) enc c)
| GT_fallback i rest res : 0 <= i < L -> good_trace L nb 0 false rest res ->
    good_trace L nb i true ((mkAtt (i mod nb) true, OStatus 406) :: rest) res
| GT_next i enc o rest res : 0 <= i -> i + 1 < L -> outcome_temporary o = true -> o_success o = false ->
    o_is_406 o && enc = false -> good_trace L nb (i + 1) enc rest res ->
    good_trace L nb i enc ((mkAtt (i mod nb) enc, o) :: rest) res
| GT_fail i enc o : 0 <= i < L -> o_success o = false -> o_is_406 o && enc = false ->
    outcome_temporary o = false \/ L <= i + 1 ->
    good_trace L nb i enc [(mkAtt (i mod nb) enc, o)] (DrFailed o).

Definition dr_measure (L i : Z) (enc : bool) : Z := (L - i) + (if enc then L else 0).

Lemma dr_loop_spec L nb : forall fuel i enc script acc, 0 <= i < L ->
  (Z.to_nat (dr_measure L i enc) < fuel)%nat ->
  exists t res, dr_loop fuel L nb i enc script acc = (acc ++ t, res) /\ good_trace L nb i enc t res.
Proof.
  induction fuel as [|f IH]; intros i enc script acc Hi Hf; [lia|].
  cbn [dr_loop]. replace (L <=? i) with false by lia.
  unfold dr_success_cond, dr_fallback_cond, dr_next_cond, dr_success_breaks, dr_fallback_restarts, dr_fallback_clears_encoding.
  unfold dr_measure in *.
  destruct (hd (OStatus 200) script) as [| |c] eqn:Eo.
  - (* connection error, transient *)
    cbn [andb outcome_temporary]. destruct (i + 1 <? L) eqn:En.
    + destruct (IH (i + 1) enc (tl script) (acc ++ [(mkAtt (i mod nb) enc, OConnTemp)])) as (t & res & E & G);
        [lia|destruct enc; lia|].
      exists ((mkAtt (i mod nb) enc, OConnTemp) :: t), res. rewrite E, <- app_assoc. split; [reflexivity|].
      apply GT_next; auto; lia.
    + exists [(mkAtt (i mod nb) enc, OConnTemp)], (DrFailed OConnTemp). split; [reflexivity|].
      apply GT_fail; auto. right. lia.
  - cbn [andb outcome_temporary].
    exists [(mkAtt (i mod nb) enc, OConnPerm)], (DrFailed OConnPerm). split; [reflexivity|].
    apply GT_fail; auto.
  - cbn [andb outcome_temporary]. destruct (c <? 300) eqn:Ec.
    + exists [(mkAtt (i mod nb) enc, OStatus c)], (DrAccepted (i mod nb) enc c). split; [reflexivity|].
      apply GT_accept; lia.
    + destruct ((c =? 406) && enc) eqn:E4.
      * apply andb_true_iff in E4 as [E4 ->]. assert (c = 406) by lia. subst c.
        destruct (IH 0 false (tl script) (acc ++ [(mkAtt (i mod nb) true, OStatus 406)])) as (t & res & E & G); [lia|lia|].
        exists ((mkAtt (i mod nb) true, OStatus 406) :: t), res. rewrite E, <- app_assoc. split; [reflexivity|].
        apply GT_fallback; auto.
      * destruct (status_is_temporary c && (i + 1 <? L)) eqn:En.
        -- apply andb_true_iff in En as [Et En].
           destruct (IH (i + 1) enc (tl script) (acc ++ [(mkAtt (i mod nb) enc, OStatus c)])) as (t & res & E & G);
             [lia|destruct enc; lia|].
           exists ((mkAtt (i mod nb) enc, OStatus c) :: t), res. rewrite E, <- app_assoc. split; [reflexivity|].
           apply GT_next; auto; try lia.
        -- exists [(mkAtt (i mod nb) enc, OStatus c)], (DrFailed (OStatus c)). split; [reflexivity|].
           apply GT_fail; auto. cbn [outcome_temporary]. apply andb_false_iff in En as [En|En]; [left; exact En|right; lia].
Qed.

Lemma good_trace_length L nb i enc t res : good_trace L nb i enc t res -> 0 < zlen t <= dr_measure L i enc.
Proof.
  unfold dr_measure. induction 1; rewrite ?zlen_cons; change (zlen (@nil (attempt * outcome))) with 0; try (destruct enc; lia).
  lia.
Qed.

(* what a good trace guarantees, in the words of the property *)
Lemma good_trace_accept L nb i enc t res s e c : good_trace L nb i enc t res -> res = DrAccepted s e c ->
  c < 300 /\ exists t0, t = t0 ++ [(mkAtt s e, OStatus c)].
Proof.
  induction 1; intros Hr; try discriminate.
  - inversion Hr; subst. split; [lia|]. now exists [].
  - destruct (IHgood_trace Hr) as (Hc & t0 & ->). split; [exact Hc|]. now eexists (_ :: t0).
  - destruct (IHgood_trace Hr) as (Hc & t0 & ->). split; [exact Hc|]. now eexists (_ :: t0).
Qed.

(* once the encoding has been dropped it stays dropped *)
Lemma good_trace_noenc L nb i t res : good_trace L nb i false t res -> Forall (fun ao => a_enc (fst ao) = false) t.
Proof.
  remember false as enc eqn:Ee. induction 1; subst; try discriminate.
  - constructor; [reflexivity|constructor].
  - constructor; [reflexivity|]. now apply IHgood_trace.
  - constructor; [reflexivity|constructor].
Qed.

Lemma dr_len_ge nbases retries : 0 < nbases -> nbases <= dr_len nbases retries.
Proof.
  intros Hn. unfold dr_len, dr_repeat_cond. destruct (nbases <? retries) eqn:E; [|lia].
  assert (G : forall fuel nrep, (Z.to_nat (retries - nrep) <= fuel)%nat -> 0 <= nrep ->
            retries <= repeat_loop fuel nbases retries nrep \/ (nrep < retries /\ False)).
  { induction fuel as [|f IH]; intros nrep Hf H0.
    - left. cbn. lia.
    - cbn [repeat_loop]. unfold dr_repeat_loop_cond. destruct (nrep <? retries) eqn:E2; [|left; lia].
      destruct (IH (nrep + nbases)) as [G|[_ []]]; [lia|lia|]. left. exact G. }
  destruct (G (Z.to_nat retries) 0) as [G1|[_ []]]; [lia|lia|]. lia.
Qed.

Lemma do_request_spec nbases retries enc script : 0 < nbases ->
  exists t res, do_request nbases retries enc script = (t, res) /\
    good_trace (dr_len nbases retries) nbases 0 enc t res /\ zlen t <= 2 * dr_len nbases retries.
Proof.
  intros Hn. unfold do_request. pose proof (dr_len_ge nbases retries Hn) as HL.
  destruct (dr_loop_spec (dr_len nbases retries) nbases (Z.to_nat (2 * dr_len nbases retries + 2)) 0 enc script [])
    as (t & res & E & G); [lia|unfold dr_measure; destruct enc; lia|].
  exists t, res. cbn [app] in E. split; [exact E|]. split; [exact G|].
  apply good_trace_length in G. unfold dr_measure in G. destruct enc; lia.
Qed.

Section TransportProofs.
  Variable compress decompress : bytes -> bytes -> bytes.
  Hypothesis Hrt : forall e x, decompress e (compress e x) = x.
  Lemma server_sees_upload upload advertised a :
    server_sees decompress (attempt_wire compress upload advertised a) = upload.
  Proof.
    unfold attempt_wire, server_sees.
    replace (dr_builds_request_per_attempt && list_eqb Z.eqb br_calls [0; 1]) with true by reflexivity.
    destruct (creq_plain_cond (if a_enc a then select_encoding advertised else [])); [reflexivity|apply Hrt].
  Qed.
End TransportProofs.

(* ================================================================== 7. PE checksum *)
Definition isb (b : Z) : Prop := 0 <= b < 256.
Definition byte_range : list Z := map Z.of_nat (seq 0 256).
Lemma in_byte_range b : isb b -> In b byte_range.
Proof.
  intros H. unfold byte_range. apply in_map_iff. exists (Z.to_nat b). split; [unfold isb in H; lia|].
  apply in_seq. unfold isb in H. lia.
Qed.
Lemma ck_word_all : forallb (fun hi => forallb (fun lo => ck_word lo hi =? lo + 256 * hi) byte_range) byte_range = true.
Proof. vm_compute. reflexivity. Qed.
Lemma ck_word_val lo hi : isb lo -> isb hi -> ck_word lo hi = lo + 256 * hi.
Proof.
  intros Hl Hh. pose proof ck_word_all as H. rewrite forallb_forall in H.
  specialize (H hi (in_byte_range hi Hh)). rewrite forallb_forall in H.
  specialize (H lo (in_byte_range lo Hl)). lia.
Qed.

Lemma land_65535 x : 0 <= x -> Z.land 65535 x = x mod 65536.
Proof. intros H. rewrite Z.land_comm. change 65535 with (Z.ones 16). now rewrite Z.land_ones by lia. Qed.

Lemma ck_fold_add s v : 0 <= s <= 65535 -> 0 <= v <= 65535 ->
  ck_fold (wrap32 (s + v)) = ones_add s v /\ 0 <= ones_add s v <= 65535.
Proof.
  intros Hs Hv. unfold ck_fold, wrap32, ones_add. rewrite (Z.mod_small (s + v)) by lia.
  rewrite Z.shiftr_div_pow2 by lia. change (2 ^ 16) with 65536.
  rewrite land_65535 by (assert (0 <= (s + v) / 65536) by (apply Z.div_pos; lia); lia).
  destruct (s + v >? 65535) eqn:E; split; lia.
Qed.
Lemma ck_final_fold_id s : 0 <= s <= 65535 -> ck_final_fold s = s.
Proof.
  intros Hs. unfold ck_final_fold. rewrite Z.shiftr_div_pow2 by lia. change (2 ^ 16) with 65536.
  rewrite land_65535 by (assert (0 <= s / 65536) by (apply Z.div_pos; lia); lia). lia.
Qed.

Lemma pair_ind (P : list Z -> Prop) :
  P [] -> (forall x, P [x]) -> (forall x y r, P r -> P (x :: y :: r)) -> forall l : list Z, P l.
Proof. intros H0 H1 H2. fix IH 1. intros [|x [|y r]]; [exact H0|apply H1|apply H2, IH]. Qed.

Definition evenlen (d : bytes) : Prop := zlen d mod 2 = 0.
Lemma evenlen_cons2 x y r : evenlen (x :: y :: r) <-> evenlen r.
Proof. unfold evenlen. rewrite !zlen_cons. split; lia. Qed.

(* the model's zeroing, word by word at absolute position a *)
Fixpoint wmask (c a : Z) (d : bytes) : bytes :=
  match d with
  | lo :: hi :: r => (if ck_zero_cond a c then [0; 0] else [lo; hi]) ++ wmask c (a + 2) r
  | rest => rest
  end.

Lemma fold_ones_range l : forall s, 0 <= s <= 65535 -> Forall (fun w => 0 <= w <= 65535) l ->
  0 <= fold_left ones_add l s <= 65535.
Proof.
  induction l as [|w l IH]; intros s Hs Hl; [exact Hs|]. inversion Hl; subst. cbn [fold_left]. apply IH; [|assumption].
  unfold ones_add. destruct (s + w >? 65535) eqn:E; lia.
Qed.

Lemma ck_words_wmask c pos : forall d, Forall isb d -> evenlen d -> forall i s, 0 <= s <= 65535 ->
  ck_words c pos i d s = fold_left ones_add (words (wmask c (pos + i) d)) s /\ 0 <= ck_words c pos i d s <= 65535.
Proof.
  intros d. induction d as [| x | x y r IH] using pair_ind; intros Hb He i s Hs.
  - cbn. split; [reflexivity|exact Hs].
  - unfold evenlen in He. cbn in He. discriminate.
  - inversion Hb as [|? ? Hx Hb1]; subst. inversion Hb1 as [|? ? Hy Hb2]; subst. apply evenlen_cons2 in He.
    cbn [ck_words wmask]. unfold ck_abs.
    set (z := ck_zero_cond (pos + i) c).
    assert (Hv : 0 <= (if z then 0 else ck_word x y) <= 65535).
    { destruct z; [lia|]. rewrite ck_word_val by assumption. unfold isb in *. lia. }
    destruct (ck_fold_add s _ Hs Hv) as [Hf Hr]. rewrite Hf.
    destruct (IH Hb2 He (i + 2) _ Hr) as [E R]. rewrite E. split.
    + replace (pos + (i + 2)) with (pos + i + 2) by lia.
      destruct z; cbn [app words fold_left]; [reflexivity|]. now rewrite ck_word_val by assumption.
    + rewrite <- E. exact R.
Qed.

Lemma words_app a b : evenlen a -> words (a ++ b) = words a ++ words b.
Proof.
  induction a as [| x | x y r IH] using pair_ind; intros He.
  - reflexivity.
  - unfold evenlen in He. cbn in He. discriminate.
  - apply evenlen_cons2 in He. cbn [app words]. now rewrite IH.
Qed.
Lemma wmask_app c : forall p a d, evenlen p -> wmask c a (p ++ d) = wmask c a p ++ wmask c (a + zlen p) d.
Proof.
  intros p. induction p as [| x | x y r IH] using pair_ind; intros a d He.
  - cbn [app wmask]. change (zlen (@nil Z)) with 0. now rewrite Z.add_0_r.
  - unfold evenlen in He. cbn in He. discriminate.
  - apply evenlen_cons2 in He. cbn [app wmask]. rewrite IH by exact He. rewrite <- app_assoc. f_equal. f_equal. f_equal.
    rewrite !zlen_cons. lia.
Qed.
Lemma zlen_wmask c : forall d a, zlen (wmask c a d) = zlen d.
Proof.
  intros d. induction d as [| x | x y r IH] using pair_ind; intros a; [reflexivity|reflexivity|].
  cbn [wmask]. rewrite zlen_app, IH. destruct (ck_zero_cond a c); rewrite !zlen_cons; change (zlen (@nil Z)) with 0; lia.
Qed.

(* padding of an odd write *)
Definition pad (d : bytes) : bytes := if ck_write_odd_cond (zlen d) then d ++ [0] else d.
Lemma odd_cond_spec n : 0 <= n -> ck_write_odd_cond n = negb (n mod 2 =? 0).
Proof. intros H. unfold ck_write_odd_cond. now rewrite Z.rem_mod_nonneg by lia. Qed.
Lemma pad_even d : evenlen d -> pad d = d.
Proof. intros H. unfold pad. rewrite odd_cond_spec by apply zlen_nonneg. unfold evenlen in H. rewrite H. reflexivity. Qed.
Lemma pad_cons2 x y r : pad (x :: y :: r) = x :: y :: pad r.
Proof.
  unfold pad. rewrite !odd_cond_spec by apply zlen_nonneg. rewrite !zlen_cons.
  replace ((1 + (1 + zlen r)) mod 2 =? 0) with (zlen r mod 2 =? 0) by (pose proof (zlen_nonneg r); lia).
  destruct (negb (zlen r mod 2 =? 0)); reflexivity.
Qed.
Lemma pad_app p d : evenlen p -> pad (p ++ d) = p ++ pad d.
Proof.
  induction p as [| x | x y r IH] using pair_ind; intros He.
  - reflexivity.
  - unfold evenlen in He. cbn in He. discriminate.
  - apply evenlen_cons2 in He. cbn [app]. rewrite pad_cons2. now rewrite IH.
Qed.
Lemma evenlen_pad d : evenlen (pad d).
Proof.
  unfold pad. rewrite odd_cond_spec by apply zlen_nonneg. unfold evenlen.
  destruct (zlen d mod 2 =? 0) eqn:E; cbn [negb]; [lia|]. rewrite zlen_app. change (zlen [0]) with 1. pose proof (zlen_nonneg d). lia.
Qed.
Lemma Forall_isb_pad d : Forall isb d -> Forall isb (pad d).
Proof. intros H. unfold pad. destruct (ck_write_odd_cond (zlen d)); [|exact H]. apply Forall_app. split; [exact H|]. constructor; [unfold isb; lia|constructor]. Qed.

(* the specification's byte-wise zeroing *)
Definition zf (c a : Z) (d : bytes) : bytes := if c <? 0 then d else zero_field_from c a d.

(* for an even field offset (or none) word-wise zeroing of the padded data and byte-wise zeroing of the data denote the
   same 16-bit words *)
Lemma words_wmask_zf c : c < 0 \/ c mod 2 = 0 -> forall d a, a mod 2 = 0 ->
  words (wmask c a (pad d)) = words (zf c a d).
Proof.
  intros Hc d. induction d as [| x | x y r IH] using pair_ind; intros a Ha.
  - unfold zf. destruct (c <? 0); reflexivity.
  - unfold pad. rewrite odd_cond_spec by apply zlen_nonneg. change (zlen [x]) with 1. cbn [Z.modulo Z.div_eucl Z.pos_div_eucl Z.eqb negb app wmask].
    replace (1 mod 2 =? 0) with false by reflexivity. cbn [negb app wmask].
    unfold zf, ck_zero_cond. destruct (c <? 0) eqn:Ec.
    + replace (c >=? 0) with false by lia. cbn [andb app words]. f_equal. lia.
    + replace (c >=? 0) with true by lia. cbn [andb zero_field_from].
      destruct ((a =? c) || (a =? c + 2)) eqn:Ez.
      * replace ((c <=? a) && (a <? c + 4)) with true by lia. reflexivity.
      * replace ((c <=? a) && (a <? c + 4)) with false by lia. cbn [app words]. f_equal. lia.
  - rewrite pad_cons2. cbn [wmask]. rewrite words_app.
    2:{ unfold evenlen. destruct (ck_zero_cond a c); reflexivity. }
    rewrite IH by lia. unfold zf, ck_zero_cond. destruct (c <? 0) eqn:Ec.
    + replace (c >=? 0) with false by lia. reflexivity.
    + replace (c >=? 0) with true by lia. cbn [andb zero_field_from].
      replace (a + 1 + 1) with (a + 2) by lia.
      destruct ((a =? c) || (a =? c + 2)) eqn:Ez.
      * replace ((c <=? a) && (a <? c + 4)) with true by lia.
        replace ((c <=? a + 1) && (a + 1 <? c + 4)) with true by lia. reflexivity.
      * replace ((c <=? a) && (a <? c + 4)) with false by lia.
        replace ((c <=? a + 1) && (a + 1 <? c + 4)) with false by lia. reflexivity.
Qed.

Definition F (l : bytes) : Z := fold_left ones_add (words l) 0.
Definition ck_inv (c : Z) (p : bytes) (h : ck) : Prop :=
  ck_pos h = c /\ ck_off h = zlen p /\ ck_sum h = F (wmask c 0 p) /\ ck_size h = wrap32 (zlen p) /\ ck_odd h = false
  /\ 0 <= ck_sum h <= 65535.

Lemma wrap32_add a b : wrap32 (wrap32 a + b) = wrap32 (a + b).
Proof. unfold wrap32. now rewrite Zplus_mod_idemp_l. Qed.

(* one write onto a consistent state: the sum becomes that of the (padded) longer prefix *)
Lemma ck_write_step c p h d : evenlen p -> Forall isb d -> ck_inv c p h ->
  exists h', ck_write h d = Ok h' /\ ck_pos h' = c /\ ck_off h' = zlen (p ++ d) /\
             ck_sum h' = F (wmask c 0 (pad (p ++ d))) /\ ck_size h' = wrap32 (zlen (p ++ d)) /\
             ck_odd h' = ck_write_odd_cond (zlen d) /\ 0 <= ck_sum h' <= 65535.
Proof.
  intros Hp Hb (Hc & Ho & Hs & Hz & Hodd & Hr). unfold ck_write, ck_odd_err_cond. rewrite Hodd.
  change (if ck_write_odd_cond (zlen d) then d ++ [0] else d) with (pad d).
  eexists. split; [reflexivity|]. cbn [ck_pos ck_off ck_sum ck_size ck_odd orb].
  destruct (ck_words_wmask (ck_pos h) (ck_off h) (pad d) (Forall_isb_pad d Hb) (evenlen_pad d) 0 (ck_sum h) Hr) as [E R].
  rewrite Hc, Ho in *. repeat split; try lia.
  - unfold ck_pos_advance. rewrite zlen_app. lia.
  - rewrite E, Hs. rewrite pad_app by exact Hp. rewrite wmask_app by exact Hp. unfold F.
    rewrite words_app by (unfold evenlen; rewrite zlen_wmask; exact Hp).
    rewrite fold_left_app. now rewrite Z.add_0_r, Z.add_0_l.
  - rewrite Hz, wrap32_add, zlen_app. reflexivity.
Qed.

Lemma ck_write_all_spec c : c < 0 \/ c mod 2 = 0 -> forall ds p h, evenlen p -> Forall isb (concat ds) ->
  ck_split_ok ds = true -> ck_inv c p h ->
  exists h', ck_write_all h ds = Ok h' /\ ck_sum h' = F (zf c 0 (p ++ concat ds)) /\
             ck_size h' = wrap32 (zlen (p ++ concat ds)) /\ 0 <= ck_sum h' <= 65535.
Proof.
  intros Hc ds. induction ds as [|d r IH]; intros p h Hp Hb Hok Hi.
  - exists h. cbn [ck_write_all concat]. rewrite app_nil_r. destruct Hi as (_ & _ & Hs & Hz & _ & Hr).
    split; [reflexivity|]. split; [|split; assumption].
    rewrite Hs. unfold F. rewrite <- (pad_even p Hp) at 1. now rewrite words_wmask_zf by (auto; reflexivity).
  - cbn [concat] in Hb. apply Forall_app in Hb as [Hbd Hbr].
    destruct (ck_write_step c p h d Hp Hbd Hi) as (h1 & E1 & H1c & H1o & H1s & H1z & H1odd & H1r).
    cbn [ck_write_all bind]. rewrite E1. cbn [bind].
    destruct r as [|d2 r'].
    + exists h1. cbn [ck_write_all concat]. rewrite app_nil_r. split; [reflexivity|]. split; [|split; assumption].
      rewrite H1s. unfold F. now rewrite words_wmask_zf by (auto; reflexivity).
    + cbn [ck_split_ok] in Hok. apply andb_true_iff in Hok as [Hev Hok].
      assert (Hed : evenlen d).
      { unfold evenlen. rewrite Z.rem_mod_nonneg in Hev by (pose proof (zlen_nonneg d); lia). lia. }
      assert (Hpd : evenlen (p ++ d)) by (unfold evenlen in *; rewrite zlen_app; lia).
      destruct (IH (p ++ d) h1 Hpd Hbr Hok) as (h2 & E2 & H2s & H2z & H2r).
      { repeat split; try assumption; try lia.
        - rewrite H1s. now rewrite pad_even by exact Hpd.
        - rewrite H1odd, odd_cond_spec by apply zlen_nonneg. unfold evenlen in Hed. now rewrite Hed. }
      exists h2. split; [exact E2|]. cbn [concat]. rewrite app_assoc. split; [exact H2s|split; assumption].
Qed.

Lemma ck_run_spec pe_start ds : pe_start <= 0 \/ pe_start mod 2 = 0 -> Forall isb (concat ds) -> ck_split_ok ds = true ->
  ck_run pe_start ds = Ok (spec_cksum pe_start (concat ds)).
Proof.
  intros Hpe Hb Hok. unfold ck_run, spec_cksum.
  set (c := if pe_start <=? 0 then -1 else pe_start + 88).
  assert (Hc : c < 0 \/ c mod 2 = 0) by (subst c; destruct (pe_start <=? 0) eqn:E; lia).
  destruct (ck_write_all_spec c Hc ds [] (ck_new pe_start) ltac:(reflexivity) Hb Hok) as (h & E & Hs & Hz & Hr).
  { unfold ck_inv, ck_new, ck_new_none_cond, ck_new_pos. cbn [ck_pos ck_off ck_sum ck_size ck_odd wmask].
    repeat split; try reflexivity; lia. }
  rewrite E. cbn [bind app] in *. f_equal. unfold ck_sum_out. rewrite ck_final_fold_id by exact Hr.
  rewrite Hs, Hz. unfold F, zf, zero_field, wrap32. rewrite Zplus_mod_idemp_r. reflexivity.
Qed.
