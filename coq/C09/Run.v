(* C09/Run.v — evaluation of the models and specifications on harness cases. *)
From Relic Require Import Base.Prelude Base.Enc Base.Val Generated.C09_gen C09.Model C09.Upload.

(* the k-th write gets the next sizes[k] bytes (fewer if the data runs out, possibly none); the rest is one last write.
   Same definition as cut() in harness/p/c09/hashers.go *)
Fixpoint cut (sizes : list Z) (d : bytes) : list bytes :=
  match sizes with
  | [] => match d with [] => [] | _ => [d] end
  | s :: r => ztake s d :: cut r (zdrop s d)
  end.

Definition vzs (v : val) : list Z := map vz (vl v).
Definition VBs (l : list bytes) : val := VL (map VB l).
Definition blocks_eqb (a b : list bytes) : bool := list_eqb bytes_eqb a b.
Definition status_code {A} (r : result A) : Z := match r with Ok _ => 0 | Err e => 100 + e | Panic e => 200 + e end.

(* 1. merkle: [entries cdir eocd [script...]] ->
      [status [block preimages of script 0] top-prefix [same-as-script-0 flags for every script] equals-spec] *)
Definition run_merkle (v : val) : val :=
  let entries := vb (vnth 0 v) in
  let cdir := vb (vnth 1 v) in
  let eocd := vb (vnth 2 v) in
  let scripts := map vzs (vl (vnth 3 v)) in
  let results := map (fun sc => merkle_run merkleBlock (cut sc entries) cdir eocd) scripts in
  match results with
  | Ok b0 :: _ =>
      VL [VZ 0; VBs (map (block_preimage merkle_block_prefix) b0); VB (top_prefix merkle_top_prefix (zlen b0));
          VL (map (fun r => match r with Ok b => of_bool (blocks_eqb b b0) | _ => VZ (status_code r) end) results);
          of_bool (blocks_eqb b0 (apk_spec_chunks entries cdir eocd))]
  | r :: _ => VL [VZ (status_code r); VL []; VB []; VL []; VZ 0]
  | [] => VL [VZ 99; VL []; VB []; VL []; VZ 0]
  end.

(* 2. / 3. reader loops: [data [script...]] -> [[blocks of script 0] [same flags] equals-spec] *)
Definition run_loop (f : rd -> list bytes) (B : Z) (v : val) : val :=
  let data := vb (vnth 0 v) in
  let scripts := map vzs (vl (vnth 1 v)) in
  let results := map (fun sc => f (mkRd data sc)) scripts in
  match results with
  | b0 :: _ => VL [VBs b0; VL (map (fun b => of_bool (blocks_eqb b b0)) results); of_bool (blocks_eqb b0 (chunks B data))]
  | [] => VL [VL []; VL []; VZ 0]
  end.

(* 4. PE section pages: [pagesz data ptr size [script...]] -> [status [[offset preimage]...] [same flags] equals-spec] *)
Definition page_eqb (a b : Z * bytes) : bool := (fst a =? fst b) && bytes_eqb (snd a) (snd b).
Definition run_pe_section (v : val) : val :=
  let pagesz := vz (vnth 0 v) in
  let data := vb (vnth 1 v) in
  let ptr := vz (vnth 2 v) in
  let size := vz (vnth 3 v) in
  let scripts := map vzs (vl (vnth 4 v)) in
  let results := map (fun sc => pe_section pagesz (mkRd data sc) ptr size) scripts in
  match results with
  | Ok (p0, _, last) :: _ =>
      VL [VZ 0; VL (map (fun p => VL [VZ (fst p); VB (page_preimage pagesz (snd p) 0)]) p0);
          VL (map (fun r => match r with Ok (p, _, l) => of_bool (list_eqb page_eqb p p0 && (l =? last)) | _ => VZ (status_code r) end) results);
          of_bool (list_eqb page_eqb p0 (pe_spec_pages pagesz ptr (ztake size data))); VZ last]
  | r :: _ => VL [VZ (status_code r); VL []; VL []; VZ 0; VZ 0]
  | [] => VL [VZ 99; VL []; VL []; VZ 0; VZ 0]
  end.

(* 5. PE checksum: [pe_start data [script...]] -> [[[status sum split_ok]...] spec] *)
Definition run_cksum (v : val) : val :=
  let pe_start := vz (vnth 0 v) in
  let data := vb (vnth 1 v) in
  let scripts := map vzs (vl (vnth 2 v)) in
  VL [VL (map (fun sc => let ds := cut sc data in
                         match ck_run pe_start ds with
                         | Ok s => VL [VZ 0; VZ s; of_bool (ck_split_ok ds)]
                         | r => VL [VZ (status_code r); VZ 0; of_bool (ck_split_ok ds)]
                         end) scripts);
      VZ (spec_cksum pe_start data)].

(* 6. doRequest: [nbases retries enc [outcome...]] with outcome = -1 transient connection error, -2 permanent, else status
      -> [[[server enc]...] result-kind server enc code]   result-kind: 0 accepted 1 failed 2 exhausted 3 fuel *)
Definition voutcome (v : val) : outcome :=
  let z := vz v in if z =? -1 then OConnTemp else if z =? -2 then OConnPerm else OStatus z.
Definition run_request (v : val) : val :=
  let '(t, res) := do_request (vz (vnth 0 v)) (vz (vnth 1 v)) (vbool (vnth 2 v)) (map voutcome (vl (vnth 3 v))) in
  VL [VL (map (fun ao => VL [VZ (a_server (fst ao)); of_bool (a_enc (fst ao))]) t);
      match res with
      | DrAccepted s e c => VL [VZ 0; VZ s; of_bool e; VZ c]
      | DrFailed _ => VL [VZ 1; VZ 0; VZ 0; VZ 0]
      | DrExhausted => VL [VZ 2; VZ 0; VZ 0; VZ 0]
      | DrFuel => VL [VZ 3; VZ 0; VZ 0; VZ 0]
      end].

(* 7. selectEncoding: [item...] -> [chosen spec-chosen] *)
Definition run_select (v : val) : val :=
  let items := map vb (vl v) in VL [VB (select_encoding items); VB (spec_select items)].

(* 8. ZipToTar framing: [dirloc file] -> [[name content]...] *)
Definition run_tar (v : val) : val :=
  match zip_to_tar (vz (vnth 0 v)) (vb (vnth 1 v)) with
  | Ok ms => VL (map (fun m => VL [VB (fst m); VB (snd m)]) ms)
  | _ => VL []
  end.

(* 9. a translated function against scripted effect outcomes: [which [outcome of effect 0, 1, ...] [opaque condition values]]
      -> [result [[effect args...]...]]   which: 0 compress 1 CompressRequest goroutine 2 DecompressRequest 3 Middleware
      4 buildRequest 5 tarAddStream *)
Definition sworld := (list Z * list (list Z))%type.
Definition eff_script (fn : Z) (args : list Z) (w : sworld) : Z * sworld :=
  (nth (Z.to_nat fn) (fst w) E_UNKNOWN_EFFECT, (fst w, snd w ++ [fn :: args])).
Definition run_errflow (v : val) : val :=
  let which := vz (vnth 0 v) in
  let outs := vzs (vnth 1 v) in
  let opqs := vzs (vnth 2 v) in
  let opq := fun k => negb (nth (Z.to_nat k) opqs 0 =? 0) in
  let '(prog, res) :=
    if which =? 0 then (compress_prog, compress_prog_result)
    else if which =? 1 then (creq_goroutine_prog, creq_goroutine_prog_result)
    else if which =? 2 then (dreq_prog, dreq_prog_result)
    else if which =? 3 then (middleware_prog, middleware_prog_result)
    else if which =? 4 then (br_prog, br_prog_result)
    else (taraddstream_prog, taraddstream_prog_result) in
  let '(e, w) := run_prog eff_script opq prog res (outs, []) in
  VL [VZ e; VL (map VZs (snd w))].

(* 10. one upload attempt through the framed codec: [[advertised item...] data fail [read size...] cut] ->
       [content-encoding wire-length termination(-1 = never) server-view spec-view standalone-view client-error]
       view = [0] (nothing digested) or [1 bytes] *)
Definition vview (x : sview) : val := match x with SErr => VL [VZ 0] | SOk b => VL [VZ 1; VB b] end.
Definition run_upload (v : val) : val :=
  let adv := map vb (vl (vnth 0 v)) in
  let src := mkUS (vb (vnth 1 v)) (vz (vnth 2 v)) (vzs (vnth 3 v)) in
  let w := fc_client_wire adv src (vz (vnth 4 v)) in
  let '(ce, body, term) := w in
  VL [VB ce; VZ (zlen body); VZ (match term with Some e => e | None => -1 end);
      vview (fc_server_view no_opaque w); vview (spec_view src); vview (standalone_view src); VZ (client_body_error w)].

(* 11. the middleware on a Content-Encoding value: [ce [opaque condition values]] -> [handler-calls decoder-installed refusals codec-kind] *)
Definition run_middleware (v : val) : val :=
  let ce := vb (vnth 0 v) in
  let opqs := vzs (vnth 1 v) in
  let opq := fun k => negb (nth (Z.to_nat k) opqs 0 =? 0) in
  let '(_, w) := run_prog (eff_middleware opq) opq middleware_prog middleware_prog_result (mkMW ce false 0 0) in
  VL [VZ (m_ran w); of_bool (m_decoded w); VZ (m_refused w); VZ (decompress_kind ce); VZ (setup_kind ce)].

(* 12. doRequest with failing sources: [nbases retries enc [[behaviour fail temporary]...]] -> as run_request *)
Definition run_attempts (v : val) : val :=
  let ins := map (fun a => mkAI (voutcome (vnth 0 a)) (mkUS [] (vz (vnth 1 a)) []) (vbool (vnth 2 a))) (vl (vnth 3 v)) in
  let '(t, res) := do_request (vz (vnth 0 v)) (vz (vnth 1 v)) (vbool (vnth 2 v)) (map attempt_outcome ins) in
  VL [VL (map (fun ao => VL [VZ (a_server (fst ao)); of_bool (a_enc (fst ao))]) t);
      match res with
      | DrAccepted s e c => VL [VZ 0; VZ s; of_bool e; VZ c]
      | DrFailed _ => VL [VZ 1; VZ 0; VZ 0; VZ 0]
      | DrExhausted => VL [VZ 2; VZ 0; VZ 0; VZ 0]
      | DrFuel => VL [VZ 3; VZ 0; VZ 0; VZ 0]
      end].

Definition run (v : val) : val :=
  let k := vz (vnth 0 v) in
  let a := vnth 1 v in
  if k =? 1 then run_merkle a
  else if k =? 2 then run_loop addfile_blocks appx_block_size a
  else if k =? 3 then run_loop hashpages macho_page_size a
  else if k =? 4 then run_pe_section a
  else if k =? 5 then run_cksum a
  else if k =? 6 then run_request a
  else if k =? 7 then run_select a
  else if k =? 8 then run_tar a
  else if k =? 9 then run_errflow a
  else if k =? 10 then run_upload a
  else if k =? 11 then run_middleware a
  else if k =? 12 then run_attempts a
  else VL [].
