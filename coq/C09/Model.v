(* C09/Model.v — executable models for "upload stream, chunking and transport never change what gets signed".
   Definitions only.  Constants, branch conditions and call tables come from Generated/C09_gen.v (srcgen).
   Sections:  1 SPEC chunking   2 scripted reader (io.ReadFull / io.CopyN)   3 APK merkle hasher   4 AppX block map
              5 Mach-O code pages   6 PE section page hashes   7 PE checksum   8 tar framing of zip uploads
              9 encoding negotiation   10 client doRequest *)
From Relic Require Import Base.Prelude Base.Enc Generated.C09_gen.

(* ================================================================== 1. SPEC: chunking *)
(* written from the format descriptions (Android APK v2 "1 MB chunks, last one may be shorter", AppxBlockMap "64 KiB
   blocks", Authenticode / Mach-O page hashes): consecutive pieces of B bytes, the last one possibly short, no empty piece *)
Fixpoint chunks_aux (fuel : nat) (B : Z) (l : bytes) : list bytes :=
  match fuel with
  | O => []
  | S f => match l with
           | [] => []
           | _ => ztake B l :: chunks_aux f B (zdrop B l)
           end
  end.
Definition chunks (B : Z) (l : bytes) : list bytes := chunks_aux (length l) B l.

(* declarative characterisation used by the uniqueness lemma *)
Fixpoint wf_chunks (B : Z) (cs : list bytes) : Prop :=
  match cs with
  | [] => True
  | c :: rest => match rest with
                 | [] => 0 < zlen c <= B
                 | _ => zlen c = B /\ wf_chunks B rest
                 end
  end.

Definition zeros (n : Z) : bytes := repeat 0 (Z.to_nat n).
Definition wrap32 (z : Z) : Z := z mod 2 ^ 32.

(* ================================================================== 2. scripted reader *)
(* An io.Reader over `r_data` that returns at most `s` bytes (at least 1) on the k-th Read call, s being the k-th entry
   of the script; when the script is exhausted Read fills the buffer.  This is the "schedule" the property quantifies over. *)
Record rd := mkRd { r_data : bytes; r_script : list Z }.
Definition rd_read (r : rd) (want : Z) : bytes * rd :=
  let k := match r_script r with [] => want | s :: _ => Z.min want (Z.max 1 s) end in
  (ztake k (r_data r), mkRd (zdrop k (r_data r)) (tl (r_script r))).

(* repeated Read calls of at most min(bufsz, still wanted) bytes until n bytes arrived or EOF: io.ReadFull (bufsz = n) and
   io.CopyN = io.Copy(LimitReader) (bufsz = 32 KiB) — Go library semantics, recorded as an assumption *)
Fixpoint pull (fuel : nat) (bufsz : Z) (r : rd) (n : Z) (acc : bytes) : bytes * rd :=
  match fuel with
  | O => (acc, r)
  | S f =>
      if n <=? 0 then (acc, r) else
      match r_data r with
      | [] => (acc, r)
      | _ => let '(got, r') := rd_read r (Z.min bufsz n) in pull f bufsz r' (n - zlen got) (acc ++ got)
      end
  end.
Definition io_copy_buf : Z := 32768.
Definition read_full (r : rd) (n : Z) : bytes * rd := pull (S (Z.to_nat n)) n r n [].
Definition copy_n (r : rd) (n : Z) : bytes * rd := pull (S (Z.to_nat n)) io_copy_buf r n [].

(* ================================================================== 3. APK v2 merkle hasher (signers/apk/merkle.go) *)
(* m_buf is h.buf[:h.n]; m_blocks are the byte strings handed to h.block, in order *)
Record mh := mkMH { m_blocks : list bytes; m_buf : bytes }.
Definition m_n (h : mh) : Z := zlen (m_buf h).
Definition mh_init : mh := mkMH [] [].

(* phase 2: for len(d) >= merkleBlock { block(d[:B]); d = d[B:] } *)
Fixpoint direct_loop (fuel : nat) (B : Z) (d : bytes) (acc : list bytes) : list bytes * bytes :=
  match fuel with
  | O => (acc, d)
  | S f => if merkle_direct_cond B (zlen d) then direct_loop f B (zdrop B d) (acc ++ [ztake B d]) else (acc, d)
  end.

(* Panic 1: slice bounds out of range in phase 1; Panic 2: phase 3 overfills the buffer (copy truncates, h.n exceeds
   cap(h.buf); the next flush/Write then panics — every complete run ends in Finish, which flushes) *)
Definition mwrite (B : Z) (h : mh) (d : bytes) : result mh :=
  let n := m_n h in
  r1 <- (if merkle_complete_cond B n (zlen d) then
           if (B - n <? 0) || (zlen d <? B - n) then Panic 1
           else Ok (mkMH (m_blocks h ++ [m_buf h ++ ztake (B - n) d]) [], zdrop (B - n) d)
         else Ok (h, d)) ;;
  let '(h1, d1) := r1 in
  let '(bs, d2) := direct_loop (S (length d1)) B d1 [] in
  let h2 := mkMH (m_blocks h1 ++ bs) (m_buf h1) in
  if merkle_save_cond (zlen d2) then
    if m_n h2 + zlen d2 >? B then Panic 2
    else Ok (mkMH (m_blocks h2) (m_buf h2 ++ d2))
  else Ok h2.

Definition mflush (h : mh) : mh :=
  if merkle_flush_cond (m_n h) then mkMH (m_blocks h ++ [m_buf h]) [] else h.

Fixpoint mwrite_all (B : Z) (h : mh) (ds : list bytes) : result mh :=
  match ds with
  | [] => Ok h
  | d :: r => h' <- mwrite B h d ;; mwrite_all B h' r
  end.

(* Finish: the generated call table (0 = h.flush, 1 = h.Write(next argument), 2 = master.Write) is interpreted in order;
   the generated argument table says which byte string each h.Write receives (0 = central directory, 1 = end of directory) *)
Fixpoint run_finish (B : Z) (ops : list Z) (args : list Z) (cdir eocd : bytes) (h : mh) : result mh :=
  match ops with
  | [] => Ok h
  | op :: ops' =>
      if op =? 0 then run_finish B ops' args cdir eocd (mflush h)
      else if op =? 1 then
        match args with
        | a :: args' =>
            h' <- mwrite B h (if a =? 0 then cdir else if a =? 1 then eocd else []) ;;
            run_finish B ops' args' cdir eocd h'
        | [] => Err 1
        end
      else run_finish B ops' args cdir eocd h
  end.
Definition merkle_finish (B : Z) (h : mh) (cdir eocd : bytes) : result (list bytes) :=
  h' <- run_finish B finish_calls finish_write_args cdir eocd h ;;
  if negb (m_n h' =? 0) then Err 2 else Ok (m_blocks h').

(* the whole digest computation: entries written in pieces `ds`, then Finish *)
Definition merkle_run (B : Z) (ds : list bytes) (cdir eocd : bytes) : result (list bytes) :=
  h <- mwrite_all B mh_init ds ;; merkle_finish B h cdir eocd.

(* hash preimages: the model never hashes; the orchestrator applies SHA-2 to these *)
Definition block_preimage (pfx : Z) (c : bytes) : bytes := pfx :: le_enc 4 (zlen c) ++ c.
Definition top_prefix (pfx : Z) (count : Z) : bytes := pfx :: le_enc 4 count.

(* SPEC (source.android.com/security/apksigning/v2, "integrity-protected contents"): sections 1 (zip entries), 3 (central
   directory) and 4 (end of central directory) are each split into consecutive 1 MB chunks; chunk digest =
   H(0xa5 ‖ u32le length ‖ chunk); top digest = H(0x5a ‖ u32le number of chunks ‖ chunk digests) *)
Definition apk_chunk_size : Z := 1048576.
Definition apk_chunk_prefix : Z := 165.  (* 0xa5 *)
Definition apk_top_prefix : Z := 90.     (* 0x5a *)
Definition apk_spec_chunks (entries cdir eocd : bytes) : list bytes :=
  chunks apk_chunk_size entries ++ chunks apk_chunk_size cdir ++ chunks apk_chunk_size eocd.

(* ================================================================== 4. AppX block map (lib/signappx/blockmap.go AddFile) *)
Definition bm_limit : Z := if list_eqb Z.eqb bm_copyn_limit [0] then blockMapSize else 0.
Fixpoint addfile_loop (fuel : nat) (r : rd) (acc : list bytes) : list bytes :=
  match fuel with
  | O => acc
  | S f =>
      let '(got, r') := copy_n r bm_limit in
      let acc' := if bm_block_cond (zlen got) then acc ++ [got] else acc in
      (* io.CopyN reports io.EOF exactly when fewer than the requested bytes arrived: `if err == io.EOF { break }` *)
      if zlen got <? bm_limit then acc' else addfile_loop f r' acc'
  end.
Definition addfile_blocks (r : rd) : list bytes := addfile_loop (S (length (r_data r))) r [].
(* SPEC (AppxBlockMap schema): a file is described by one Block element per 64 KiB of uncompressed data *)
Definition appx_block_size : Z := 65536.
(* the verifier's expectation of the number of blocks (verifyBlockMap) *)
Definition bm_verifier_accepts_count (nblocks usize : Z) : bool := negb (bm_count_bad nblocks usize).

(* ================================================================== 5. Mach-O code directory pages (csblob hashPages) *)
Definition cs_page_size : Z := 2 ^ cs_page_log2.
Fixpoint hashpages_loop (fuel : nat) (r : rd) (acc : list bytes) : list bytes :=
  match fuel with
  | O => acc
  | S f =>
      let '(got, r') := read_full r cs_page_size in
      if hp_stop_cond (zlen got) then acc else hashpages_loop f r' (acc ++ [got])
  end.
Definition hashpages (r : rd) : list bytes := hashpages_loop (S (length (r_data r))) r [].
(* SPEC (Apple code signing): one code slot per 4096-byte page of the code, the last page may be short *)
Definition macho_page_size : Z := 4096.

(* ================================================================== 6. PE section page hashes (pedigest.go imageHasher.section) *)
Definition E_SHORT := 1.
Fixpoint pe_section_loop (fuel : nat) (pagesz : Z) (r : rd) (position remaining : Z) (acc : list (Z * bytes))
  : result (list (Z * bytes) * rd * Z) :=
  match fuel with
  | O => Err 99
  | S f =>
      if pe_sec_loop_cond remaining then
        let n := if pe_sec_clip_cond remaining pagesz then pagesz else remaining in
        let '(got, r') := read_full r n in
        if zlen got <? n then Err E_SHORT else
        let position' := wrap32 (position + n) in
        pe_section_loop f pagesz r' position' (remaining - n) (acc ++ [(position, got)])
      else Ok (acc, r, position)
  end.
Definition pe_section (pagesz : Z) (r : rd) (ptr size : Z) : result (list (Z * bytes) * rd * Z) :=
  pe_section_loop (S (Z.to_nat size)) pagesz r ptr size [].
(* what addPageHash feeds the hash for a non-empty page *)
Definition page_preimage (pagesz : Z) (page : bytes) (removed : Z) : bytes :=
  page ++ zeros (pe_needzero pagesz (zlen page) removed).
(* SPEC (Authenticode PE page hashes): every page-size piece of a section's raw data, at its file offset, zero padded *)
Fixpoint number_pages (pos : Z) (cs : list bytes) : list (Z * bytes) :=
  match cs with
  | [] => []
  | c :: r => (pos, c) :: number_pages (pos + zlen c) r
  end.
Definition pe_spec_pages (pagesz ptr : Z) (raw : bytes) : list (Z * bytes) := number_pages ptr (chunks pagesz raw).
Definition pe_spec_page_preimage (pagesz : Z) (page : bytes) : bytes := page ++ zeros (pagesz - zlen page).

(* ================================================================== 7. PE checksum (lib/authenticode/checksum.go) *)
(* ck_pos = h.cksumPos (absolute offset of the CheckSum field, -1 = none), ck_off = h.pos (bytes written so far) *)
Record ck := mkCk { ck_pos : Z; ck_off : Z; ck_sum : Z; ck_size : Z; ck_odd : bool }.
Definition ck_new (pe_start : Z) : ck :=
  mkCk (if ck_new_none_cond pe_start then -1 else ck_new_pos pe_start) 0 0 0 false.
(* the word loop: d has even length (an odd write was padded with one zero byte) *)
Fixpoint ck_words (ckpos pos i : Z) (d : bytes) (sum : Z) : Z :=
  match d with
  | lo :: hi :: r =>
      let val := if ck_zero_cond (ck_abs pos i) ckpos then 0 else ck_word lo hi in
      ck_words ckpos pos (i + 2) r (ck_fold (wrap32 (sum + val)))
  | _ => sum
  end.
Definition E_ODD := 1.
Definition ck_write (h : ck) (d : bytes) : result ck :=
  let n := zlen d in
  if ck_odd_err_cond (ck_odd h) then Err E_ODD else
  let odd := ck_write_odd_cond n in
  let d' := if odd then d ++ [0] else d in
  Ok (mkCk (ck_pos h) (ck_off h + ck_pos_advance n) (ck_words (ck_pos h) (ck_off h) 0 d' (ck_sum h))
           (wrap32 (ck_size h + n)) (ck_odd h || odd)).
Fixpoint ck_write_all (h : ck) (ds : list bytes) : result ck :=
  match ds with
  | [] => Ok h
  | d :: r => h' <- ck_write h d ;; ck_write_all h' r
  end.
Definition ck_sum_out (h : ck) : Z := wrap32 (ck_final_fold (ck_sum h) + ck_size h).
Definition ck_run (pe_start : Z) (ds : list bytes) : result Z :=
  h <- ck_write_all (ck_new pe_start) ds ;; Ok (ck_sum_out h).

(* SPEC (the published description of the PE image checksum): the file is read as little-endian 16-bit words (an odd
   trailing byte is a word on its own), the four bytes of the CheckSum field count as zero, words are added with
   end-around carry, and the file length is added to the folded sum *)
Fixpoint zero_field_from (P a : Z) (d : bytes) : bytes :=
  match d with
  | [] => []
  | b :: r => (if (P <=? a) && (a <? P + 4) then 0 else b) :: zero_field_from P (a + 1) r
  end.
Definition zero_field (P : Z) (data : bytes) : bytes := if P <? 0 then data else zero_field_from P 0 data.
Fixpoint words (d : bytes) : list Z :=
  match d with
  | lo :: hi :: r => (lo + 256 * hi) :: words r
  | [lo] => [lo]
  | [] => []
  end.
Definition ones_add (a b : Z) : Z := let s := a + b in if s >? 65535 then s - 65535 else s.
Definition spec_cksum (pe_start : Z) (data : bytes) : Z :=
  let P := if pe_start <=? 0 then -1 else pe_start + 88 in
  wrap32 (fold_left ones_add (words (zero_field P data)) 0 + zlen data).
(* splits the hasher accepts: every write but the last has even length (io.Copy from a regular file: 32 KiB reads) *)
Fixpoint ck_split_ok (ds : list bytes) : bool :=
  match ds with
  | [] => true
  | [d] => true
  | d :: r => (Z.rem (zlen d) 2 =? 0) && ck_split_ok r
  end.

(* ================================================================== 8. tar framing of zip uploads (zipslicer/tarzip.go) *)
Definition tar_name (k : Z) : bytes := if k =? 0 then tar_member_cd else if k =? 1 then tar_member_zip else [].
Definition off_of (k dirloc : Z) : Z := if k =? 0 then 0 else if k =? 1 then dirloc else -1.
Definition size_of (k dirloc size : Z) : Z := if k =? 0 then size - dirloc else if k =? 1 then size else -1.
(* ZipToTar: size from Stat, FindDirectory, then for the j-th tarAddStream a header (name, size_j) followed by
   io.CopyN(size_j) from io.NewSectionReader(file, offset_j, length_j) — positioned reads, no shared file offset.
   A section shorter than the announced size makes CopyN fail (E_TARZIP_SHORT) *)
Definition E_TARZIP_SHORT := 2.
Definition tar_member (dirloc : Z) (f : bytes) (j : nat) : result (bytes * bytes) :=
  let size := zlen f in
  let want := size_of (nth j ziptotar_sizes 99) dirloc size in
  let section := ztake (size_of (nth j ziptotar_lengths 99) dirloc size) (zdrop (off_of (nth j ziptotar_offsets 99) dirloc) f) in
  if zlen section <? want then Err E_TARZIP_SHORT
  else Ok (tar_name (nth j ziptotar_members 99), ztake want section).
Fixpoint collect {A} (l : list (result A)) : result (list A) :=
  match l with
  | [] => Ok []
  | r :: t => x <- r ;; xs <- collect t ;; Ok (x :: xs)
  end.
Definition zip_to_tar (dirloc : Z) (f : bytes) : result (list (bytes * bytes)) :=
  collect (map (tar_member dirloc f) (seq 0 (length ziptotar_members))).
(* no producer moves the file offset the next GetReader (or Apply) relies on *)
Definition ziptotar_is_zero_trailer : bool := match ziptotar_trailer_arg with [0] => true | _ => false end.
Definition producers_use_positioned_reads : bool :=
  ziptotar_is_zero_trailer && ziptotar_no_seek && taraddstream_no_seek && macho_send_no_seek && dmg_send_no_seek && msitotar_no_seek.
(* ReadZipTar: first member must be the directory (read whole), second the zip, streamed *)
Definition E_TARZIP := 1.
Definition read_zip_tar (members : list (bytes * bytes)) : result (bytes * bytes) :=
  match members with
  | (n1, zipdir) :: (n2, contents) :: rest =>
      if readziptar_first_bad n1 then Err E_TARZIP else
      if readziptar_second_bad n2 then Err E_TARZIP else
      match rest with [] => Ok (zipdir, contents) | _ => Err E_TARZIP end   (* zipTarReader: a further member is "invalid tarzip" *)
  | _ => Err E_TARZIP
  end.

(* ================================================================== 9. encoding negotiation (lib/compresshttp selectEncoding) *)
Fixpoint pref_of (tbl : list (bytes * Z)) (e : bytes) : Z :=
  match tbl with
  | [] => 0
  | (k, v) :: r => if bytes_eqb k e then v else pref_of r e
  end.
(* items: the comma separated tokens of the Accept-Encoding value with parameters and blanks stripped *)
Fixpoint sel_loop (items : list bytes) (pref : Z) (best : bytes) : bytes :=
  match items with
  | [] => best
  | e :: r => let p2 := pref_of enc_prefs e in
              if sel_better_cond p2 pref then sel_loop r p2 e else sel_loop r pref best
  end.
Definition select_encoding (items : list bytes) : bytes := sel_loop items 0 [].
(* SPEC: snappy is preferred to gzip, gzip to no compression; unknown tokens are ignored *)
Definition mem_bytes (e : bytes) (l : list bytes) : bool := existsb (bytes_eqb e) l.
Definition spec_select (items : list bytes) : bytes :=
  if mem_bytes [120; 45; 115; 110; 97; 112; 112; 121; 45; 102; 114; 97; 109; 101; 100] items
  then [120; 45; 115; 110; 97; 112; 112; 121; 45; 102; 114; 97; 109; 101; 100]       (* "x-snappy-framed" *)
  else if mem_bytes [103; 122; 105; 112] items then [103; 122; 105; 112]             (* "gzip" *)
  else [].

(* ================================================================== 10. client doRequest (cmdline/remotecmd/client.go) *)
Inductive outcome := OConnTemp | OConnPerm | OStatus (code : Z).
Record attempt := mkAtt { a_server : Z; a_enc : bool }.
Inductive dr_result :=
| DrAccepted (server : Z) (enc : bool) (code : Z)
| DrFailed (last : outcome)
| DrExhausted           (* range loop ran off the end: the function returns whatever the last iteration left *)
| DrFuel.

Fixpoint repeat_loop (fuel : nat) (nbases min_attempts nrep : Z) : Z :=
  match fuel with
  | O => nrep
  | S f => if dr_repeat_loop_cond nrep min_attempts then repeat_loop f nbases min_attempts (nrep + nbases) else nrep
  end.
(* length of `bases` after the repetition step *)
Definition dr_len (nbases retries : Z) : Z :=
  if dr_repeat_cond nbases retries then repeat_loop (Z.to_nat retries) nbases retries 0 else nbases.

Definition outcome_temporary (o : outcome) : bool :=
  match o with OConnTemp => true | OConnPerm => false | OStatus c => status_is_temporary c end.

(* one pass of `for i, base := range bases` with the goto restart; every attempt consumes one scripted outcome (a missing
   entry means the server answers 200) *)
Fixpoint dr_loop (fuel : nat) (L nb i : Z) (enc : bool) (script : list outcome) (acc : list (attempt * outcome))
  : list (attempt * outcome) * dr_result :=
  match fuel with
  | O => (acc, DrFuel)
  | S f =>
      if L <=? i then (acc, DrExhausted) else
      let o := hd (OStatus 200) script in
      let script' := tl script in
      let srv := i mod nb in
      let acc' := acc ++ [(mkAtt srv enc, o)] in
      let '(has_resp, code) := match o with OStatus c => (true, c) | _ => (false, 0) end in
      if has_resp && dr_success_cond code then
        (acc', if dr_success_breaks then DrAccepted srv enc code else DrFuel)
      else if dr_fallback_cond has_resp code enc then
        dr_loop f L nb (if dr_fallback_restarts then 0 else i + 1)
                (if dr_fallback_clears_encoding then false else enc) script' acc'
      else if dr_next_cond (outcome_temporary o) i L then dr_loop f L nb (i + 1) enc script' acc'
      else (acc', DrFailed o)
  end.
Definition do_request (nbases retries : Z) (enc : bool) (script : list outcome) : list (attempt * outcome) * dr_result :=
  let L := dr_len nbases retries in
  dr_loop (Z.to_nat (2 * L + 2)) L nbases 0 enc script [].

(* body of one attempt: buildRequest calls GetReader anew (br_calls, dr_builds_request_per_attempt) and compresses it with
   the encoding selected from what the directory advertised; the server undoes the Content-Encoding it was told *)
Section Transport.
  Variable compress decompress : bytes -> bytes -> bytes.
  Definition attempt_wire (upload : bytes) (advertised : list bytes) (a : attempt) : bytes * bytes :=
    let e := if a_enc a then select_encoding advertised else [] in
    if dr_builds_request_per_attempt && list_eqb Z.eqb br_calls [0; 1]
    then (e, if creq_plain_cond e then upload else compress e upload)
    else (e, []).       (* a body reader reused across attempts is exhausted after the first one *)
  Definition server_sees (wire : bytes * bytes) : bytes :=
    let '(e, body) := wire in if creq_plain_cond e then body else decompress e body.
End Transport.
