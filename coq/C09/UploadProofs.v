(* C09/UploadProofs.v — lemmas about the error path of an upload (model in C09/Upload.v). *)
From Relic Require Import Base.Prelude Base.Enc Generated.C09_gen C09.Model C09.Proofs C09.Upload.

(* ================================================================== 1. the translated functions do what their reference says *)
(* symbolic execution of a generated program against arbitrary effects: destruct every guard and every effect result *)
Ltac ef_go eff opq :=
  cbn;
  repeat first
   [ progress (repeat match goal with
                      | H : (?x =? 0) = _ |- _ => rewrite H
                      | H : eff ?n ?a ?w = _ |- _ => rewrite H
                      end; cbn)
   | match goal with |- context [?x =? 0] => is_var x; let E := fresh "E" in destruct (x =? 0) eqn:E; cbn end
   | match goal with |- context [opq ?k] => destruct (opq k); cbn end
   | match goal with |- context [eff ?n ?a ?w] =>
       let e := fresh "e" in let w' := fresh "w" in let Q := fresh "Q" in destruct (eff n a w) as [e w'] eqn:Q; cbn end ];
  try reflexivity;
  repeat match goal with H : (?x =? 0) = true |- _ => apply Z.eqb_eq in H; try subst x end; try reflexivity.

Section Refine.
  Variable W : Type.
  Variable eff : Z -> list Z -> W -> Z * W.
  Variable opq : Z -> bool.
  Lemma compress_refines w : run_prog eff opq compress_prog compress_prog_result w = spec_compress W eff w.
  Proof. unfold run_prog, exec_fn, compress_prog, compress_prog_result, spec_compress. ef_go eff opq. Qed.
  Lemma goroutine_refines w : run_prog eff opq creq_goroutine_prog creq_goroutine_prog_result w = spec_goroutine W eff w.
  Proof. unfold run_prog, exec_fn, creq_goroutine_prog, creq_goroutine_prog_result, spec_goroutine. ef_go eff opq. Qed.
  Lemma dreq_refines w : run_prog eff opq dreq_prog dreq_prog_result w = spec_dreq W eff w.
  Proof. unfold run_prog, exec_fn, dreq_prog, dreq_prog_result, spec_dreq. ef_go eff opq. Qed.
  Lemma middleware_refines w :
    snd (run_prog eff opq middleware_prog middleware_prog_result w) = snd (spec_middleware W eff opq w).
  Proof. unfold run_prog, exec_fn, middleware_prog, middleware_prog_result, spec_middleware. ef_go eff opq. Qed.
  Lemma build_refines w : run_prog eff opq br_prog br_prog_result w = spec_build W eff opq w.
  Proof. unfold run_prog, exec_fn, br_prog, br_prog_result, spec_build. ef_go eff opq. Qed.
  Lemma taradd_refines w : run_prog eff opq taraddstream_prog taraddstream_prog_result w = spec_taradd W eff w.
  Proof. unfold run_prog, exec_fn, taraddstream_prog, taraddstream_prog_result, spec_taradd. ef_go eff opq. Qed.
  (* CompressRequest itself never fails *)
  Lemma creq_outer_nil w : fst (run_prog eff opq creq_outer_prog creq_outer_prog_result w) = 0.
  Proof. unfold run_prog, exec_fn, creq_outer_prog, creq_outer_prog_result. ef_go eff opq. Qed.
End Refine.

(* the same encoding name selects the same codec on both sides, and both refuse the same names *)
Lemma codec_sides_agree enc : setup_kind enc = decompress_kind enc.
Proof.
  unfold setup_kind, decompress_kind.
  repeat match goal with |- context [bytes_eqb enc ?c] => destruct (bytes_eqb enc c) end; reflexivity.
Qed.

Lemma select_encoding_range adv :
  select_encoding adv = [] \/ select_encoding adv = enc_gzip \/ select_encoding adv = enc_snappy.
Proof.
  rewrite select_encoding_spec. unfold spec_select.
  destruct (mem_bytes _ adv); [right; right; reflexivity|]. destruct (mem_bytes _ adv); [right; left; reflexivity|]. now left.
Qed.

(* ================================================================== 2. pipe *)
Lemma pipe_write_cases p out :
  p_cut (fst (pipe_write p out)) = p_cut p /\ p_term (fst (pipe_write p out)) = p_term p /\
  ((snd (pipe_write p out) = E_CLOSED_PIPE /\ 0 <= p_cut p) \/
   (snd (pipe_write p out) = 0 /\ p_bytes (fst (pipe_write p out)) = p_bytes p ++ out)).
Proof.
  unfold pipe_write. destruct ((0 <=? p_cut p) && (p_cut p <? zlen (p_bytes p) + zlen out)) eqn:E; cbn; auto.
  split; [reflexivity|]. split; [reflexivity|]. left. split; [reflexivity|lia].
Qed.
Lemma pipe_write_open p out : p_cut p = -1 -> pipe_write p out = (mkP (p_bytes p ++ out) (-1) (p_term p), 0).
Proof. intros H. unfold pipe_write. rewrite H. reflexivity. Qed.

(* ================================================================== 3. io.Copy through the compressor into the pipe *)
Section UploadProofs.
  Variable St : Type.
  Variable enc_init : Z -> St.
  Variable enc_write : St -> bytes -> St * bytes.
  Variable enc_close : St -> bytes.
  Variable dec : Z -> bytes -> option bytes.
  Notation xwrite := (xwrite St enc_write).
  Notation xclose := (xclose St enc_close).
  Notation xdec := (xdec dec).
  Notation enc_run := (enc_run St enc_write).
  Notation copy_loop := (copy_loop St enc_write).
  Notation eff_compress := (eff_compress St enc_init enc_write enc_close).
  Notation eff_goroutine := (eff_goroutine St enc_init enc_write enc_close).
  Notation client_wire := (client_wire St enc_init enc_write enc_close).
  Notation server_view := (server_view dec).
  Notation codec_roundtrip := (codec_roundtrip St enc_init enc_write enc_close dec).

  (* effect tables, one equation per entry *)
  Lemma eff_compress_0 a w : eff_compress 0 a w =
    (if setup_kind (w_encname St w) <? 0 then (E_UNACCEPTABLE, w)
     else (0, mkUW St (w_encname St w) (setup_kind (w_encname St w)) (w_src St w) (w_fail St w) (enc_init (setup_kind (w_encname St w))) (w_pipe St w))).
  Proof. reflexivity. Qed.
  Lemma eff_compress_1 a w : eff_compress 1 a w =
    (let '(e, (r', s', p')) := copy_loop (S (length (r_data (w_src St w)))) (w_kind St w) (w_src St w) (w_fail St w) (w_enc St w) (w_pipe St w) in
     (e, mkUW St (w_encname St w) (w_kind St w) r' (w_fail St w) s' p')).
  Proof. reflexivity. Qed.
  Lemma eff_compress_2 a w : eff_compress 2 a w =
    (let '(p', e) := pipe_write (w_pipe St w) (xclose (w_kind St w) (w_enc St w)) in
     (e, mkUW St (w_encname St w) (w_kind St w) (w_src St w) (w_fail St w) (w_enc St w) p')).
  Proof. reflexivity. Qed.
  Lemma eff_goroutine_0 a w : eff_goroutine 0 a w = run_compress St enc_init enc_write enc_close w.
  Proof. reflexivity. Qed.
  Lemma eff_goroutine_1 a w : eff_goroutine 1 a w = (0, w).
  Proof. reflexivity. Qed.
  Lemma eff_goroutine_2 a w : eff_goroutine 2 a w =
    (0, mkUW St (w_encname St w) (w_kind St w) (w_src St w) (w_fail St w) (w_enc St w) (pipe_close (w_pipe St w) (hd 0 a))).
  Proof. reflexivity. Qed.

  Lemma enc_run_app k s a b :
    enc_run k s (a ++ b) = (fst (enc_run k (fst (enc_run k s a)) b), snd (enc_run k s a) ++ snd (enc_run k (fst (enc_run k s a)) b)).
  Proof.
    revert s. induction a as [|c a IH]; intros s; cbn [app Upload.enc_run].
    - cbn. now destruct (enc_run k s b).
    - destruct (xwrite k s c) as [s1 o1]. rewrite IH. destruct (enc_run k s1 a) as [s2 o2]. cbn [fst snd].
      destruct (enc_run k s2 b) as [s3 o3]. cbn [fst snd]. now rewrite app_assoc.
  Qed.
  Lemma enc_run_cons k s c r :
    enc_run k s (c :: r) = (fst (enc_run k (fst (xwrite k s c)) r), snd (xwrite k s c) ++ snd (enc_run k (fst (xwrite k s c)) r)).
  Proof. cbn [Upload.enc_run]. destruct (xwrite k s c) as [s1 o1]. cbn [fst snd]. now destruct (enc_run k s1 r). Qed.

  (* the copy either stops on a pipe that lost its reader, or it has pushed the whole source — cut into reads of at most
     32 KiB — through the encoder into the pipe and reports exactly the source's own end (0 = EOF, else its error) *)
  Lemma copy_loop_spec k : forall fuel r fail s p, (length (r_data r) < fuel)%nat ->
    exists e r' s' p', copy_loop fuel k r fail s p = (e, (r', s', p')) /\ p_cut p' = p_cut p /\ p_term p' = p_term p /\
      ((e = E_CLOSED_PIPE /\ 0 <= p_cut p) \/
       (e = fail /\ exists cs, concat cs = r_data r /\ Forall (fun c => zlen c <= io_copy_buf) cs /\
                               s' = fst (enc_run k s cs) /\ p_bytes p' = p_bytes p ++ snd (enc_run k s cs))).
  Proof.
    induction fuel as [|f IH]; intros r fail s p Hf; [lia|].
    cbn [Upload.copy_loop]. destruct (r_data r) as [|x t] eqn:Ed.
    - exists fail, r, s, p. repeat split; auto. right. split; [reflexivity|]. exists []. cbn. rewrite app_nil_r. auto.
    - assert (Hne : r_data r <> []) by (rewrite Ed; discriminate).
      pose proof (rd_read_spec r io_copy_buf ltac:(reflexivity) Hne) as Hs.
      destruct (rd_read r io_copy_buf) as [got r1] eqn:Er. destruct Hs as (n & Hn & Hgot & Hr1).
      assert (Hlg : zlen got = Z.min n (zlen (r_data r))) by (subst got; apply zlen_ztake_min; lia).
      assert (Hpos : 0 < zlen (r_data r)) by (rewrite Ed, zlen_cons; pose proof (zlen_nonneg t); lia).
      destruct (xwrite k s got) as [s1 out] eqn:Ew.
      pose proof (pipe_write_cases p out) as (Hc & Ht & Hpw). destruct (pipe_write p out) as [p1 e1]. cbn [fst snd] in *.
      destruct Hpw as [[He Hcut]|[He Hb]].
      + subst e1. cbn. exists E_CLOSED_PIPE, r1, s1, p1. repeat split; auto.
      + subst e1. cbn.
        assert (Hlen : (length (r_data r1) < f)%nat).
        { rewrite Hr1. unfold zdrop. rewrite skipn_length. rewrite Ed in *. cbn [length] in *. unfold zlen in Hlg. lia. }
        destruct (IH r1 fail s1 p1 Hlen) as (e & r' & s' & p' & E & Hc' & Ht' & Hres).
        exists e, r', s', p'. split; [exact E|]. split; [congruence|]. split; [congruence|].
        destruct Hres as [[Hres Hcut]|(Hfail & cs & Hcat & Hall & Hs' & Hp')]; [left; split; [exact Hres|congruence]|]. right. split; [exact Hfail|].
        exists (got :: cs). rewrite <- Ed. split; [|split; [|split]].
        * cbn [concat]. rewrite Hcat, Hgot, Hr1. apply ztake_zdrop.
        * constructor; [lia|exact Hall].
        * rewrite enc_run_cons, Ew. cbn [fst snd]. exact Hs'.
        * rewrite enc_run_cons, Ew. cbn [fst snd]. rewrite Hp', Hb. now rewrite app_assoc.
  Qed.

  (* ================================================================ 4. compress on the stream world *)
  (* outcome of compress for an encoding the client selects (kind k > 0), on an open pipe: either the pipe lost its reader,
     or the result is the source's own end; and when the result is nil the pipe holds the complete, closed encoding *)
  Lemma run_compress_spec ename k src fail cut s0 :
    setup_kind ename = k -> 0 <= k ->
    let w0 := mkUW St ename 0 src fail s0 (mkP [] cut None) in
    exists e w1, run_compress St enc_init enc_write enc_close w0 = (e, w1) /\
      p_term (w_pipe St w1) = None /\
      ((e = E_CLOSED_PIPE /\ 0 <= cut) \/
       (e = fail /\ fail <> 0) \/
       (e = 0 /\ fail = 0 /\ exists cs, concat cs = r_data src /\ Forall (fun c => zlen c <= io_copy_buf) cs /\
          p_bytes (w_pipe St w1) = snd (enc_run k (enc_init k) cs) ++ xclose k (fst (enc_run k (enc_init k) cs)))).
  Proof.
    intros Hk Hk0 w0. unfold run_compress, run_compress_with. rewrite compress_refines. unfold spec_compress.
    rewrite eff_compress_0. subst w0. cbn [w_encname w_src w_fail w_pipe]. rewrite Hk.
    replace (k <? 0) with false by lia. change (0 =? 0) with true. cbv iota.
    rewrite eff_compress_1. cbn [w_src w_kind w_fail w_enc w_pipe w_encname].
    destruct (copy_loop_spec k (S (length (r_data src))) src fail (enc_init k) (mkP [] cut None) ltac:(lia))
      as (e & r' & s' & p' & E & Hc & Ht & Hres).
    rewrite E. cbn [p_cut p_term p_bytes] in *.
    destruct (e =? 0) eqn:E0.
    - (* the copy succeeded: Close *)
      rewrite eff_compress_2. cbn [w_src w_kind w_fail w_enc w_pipe w_encname].
      pose proof (pipe_write_cases p' (xclose k s')) as (Hc2 & Ht2 & Hpw). destruct (pipe_write p' (xclose k s')) as [p2 e2].
      cbn [fst snd] in *. eexists _, _. split; [reflexivity|]. cbn [w_pipe]. split; [congruence|].
      destruct Hpw as [[He Hcut]|[He Hb]]; [left; split; [exact He|congruence]|]. right. right.
      destruct Hres as [[Hres _]|(Hfail & cs & Hcat & Hall & Hs' & Hp')]; [unfold E_CLOSED_PIPE in Hres; lia|].
      split; [exact He|]. split; [lia|]. exists cs. repeat split; auto. rewrite Hb, Hp', Hs'. reflexivity.
    - eexists _, _. split; [reflexivity|]. cbn [w_pipe]. split; [congruence|].
      destruct Hres as [Hres|(Hfail & _)]; [now left|]. right. left. split; [exact Hfail|lia].
  Qed.

  (* ================================================================ 5. the server side *)
  (* the middleware hands the request to the handler exactly when the Content-Encoding is one it can decode, and then the
     body has been replaced by the decoder *)
  Lemma middleware_spec opq ce :
    let w := snd (run_prog (eff_middleware opq) opq middleware_prog middleware_prog_result (mkMW ce false 0 0)) in
    if decompress_kind ce <? 0 then m_ran w = 0 else (m_ran w = 1 /\ m_decoded w = dreq_body_is_decoder).
  Proof.
    cbv zeta. rewrite middleware_refines. unfold spec_middleware.
    change (eff_middleware opq 0 [] (mkMW ce false 0 0)) with (run_prog eff_dreq opq dreq_prog dreq_prog_result (mkMW ce false 0 0)).
    rewrite dreq_refines. unfold spec_dreq.
    change (eff_dreq 0 [] (mkMW ce false 0 0)) with (if decompress_kind ce <? 0 then E_UNACCEPTABLE else 0, mkMW ce false 0 0).
    destruct (decompress_kind ce <? 0) eqn:Ek.
    - reflexivity.
    - change (0 =? 0) with true. cbv iota. destruct (opq 1 || opq 2); split; reflexivity.
  Qed.

  Lemma server_view_cases opq ce body term :
    server_view opq (ce, body, term) =
      if decompress_kind ce <? 0 then SErr else
      match term with
      | Some 0 => match xdec (decompress_kind ce) body with Some b => SOk b | None => SErr end
      | _ => SErr
      end.
  Proof.
    unfold Upload.server_view. pose proof (middleware_spec opq ce) as H. cbv zeta in H.
    destruct (run_prog (eff_middleware opq) opq middleware_prog middleware_prog_result (mkMW ce false 0 0)) as [e w].
    cbn [snd] in H. destruct (decompress_kind ce <? 0).
    - rewrite H. reflexivity.
    - destruct H as [H1 H2]. rewrite H1, H2. reflexivity.
  Qed.

  (* ================================================================ 6. one attempt, end to end *)
  Hypothesis Hrt : codec_roundtrip.

  Lemma xdec_roundtrip k cs : 0 <= k -> Forall (fun c => zlen c <= io_copy_buf) cs ->
    xdec k (snd (enc_run k (enc_init k) cs) ++ xclose k (fst (enc_run k (enc_init k) cs))) = Some (concat cs).
  Proof.
    intros Hk Hall. unfold Upload.xdec, Upload.xclose. destruct (k =? 0) eqn:E0.
    - rewrite app_nil_r. f_equal. clear Hall. generalize (enc_init k). induction cs as [|c r IH]; intros s; [reflexivity|].
      rewrite enc_run_cons. unfold Upload.xwrite. rewrite E0. cbn [fst snd concat]. now rewrite IH.
    - apply Hrt; [lia|exact Hall].
  Qed.

  (* the server digests something only if the source was read to its end without error and the pipe kept its reader,
     and then it digests exactly the client-side stream — for every advertised encoding list, read schedule, abandonment
     point and every value of the conditions the translation left opaque *)
  Theorem upload_integrity opq adv src cut b :
    server_view opq (client_wire adv src cut) = SOk b -> b = u_data src /\ u_fail src = 0.
  Proof.
    unfold Upload.client_wire, Upload.client_wire_with. destruct (select_encoding_range adv) as [Hs|Hs].
    - rewrite Hs. change (creq_plain_cond []) with true. cbv iota. change br_body_is_stream with true. cbv iota.
      rewrite server_view_cases. change (decompress_kind [] <? 0) with false. cbv iota.
      destruct (u_fail src) as [|q|q]; try discriminate. change (decompress_kind []) with 0. unfold Upload.xdec. cbn [Z.eqb].
      intros H. inversion H. auto.
    - assert (Hk : exists k, setup_kind (select_encoding adv) = k /\ 0 < k /\ creq_plain_cond (select_encoding adv) = false).
      { destruct Hs as [Hs|Hs]; rewrite Hs; [exists 1|exists 2]; repeat split; reflexivity. }
      destruct Hk as (k & Hk & Hk0 & Hpl). rewrite Hpl. change creq_wired with true. cbv iota.
      rewrite goroutine_refines. unfold spec_goroutine. fold eff_goroutine. rewrite eff_goroutine_0.
      destruct (run_compress_spec (select_encoding adv) k (mkRd (u_data src) (u_script src)) (u_fail src) cut (enc_init 0) Hk ltac:(lia))
        as (e & w1 & E & Hterm & Hres). cbv zeta in E. rewrite E.
      rewrite eff_goroutine_1, eff_goroutine_2. cbn [hd w_pipe pipe_close p_bytes p_term].
      rewrite server_view_cases. rewrite <- codec_sides_agree, Hk. replace (k <? 0) with false by lia.
      destruct Hres as [[He _]|[(He & Hf)|(He & Hf & cs & Hcat & Hall & Hb)]].
      + subst e. cbn. discriminate.
      + subst e. destruct (u_fail src); try lia; discriminate.
      + subst e. rewrite Hb, xdec_roundtrip by (auto; lia). cbn [r_data] in Hcat. rewrite Hcat. intros H. inversion H. auto.
  Qed.

  (* with a reader that stays (the attempt is not abandoned) the server's view is the specification's: the full stream
     when the source is healthy, nothing when it fails — identically under every encoding *)
  Theorem upload_eq_spec opq adv src : server_view opq (client_wire adv src (-1)) = spec_view src.
  Proof.
    unfold Upload.client_wire, Upload.client_wire_with, spec_view. destruct (select_encoding_range adv) as [Hs|Hs].
    - rewrite Hs. change (creq_plain_cond []) with true. cbv iota. change br_body_is_stream with true. cbv iota.
      rewrite server_view_cases. change (decompress_kind [] <? 0) with false. cbv iota.
      destruct (u_fail src) as [|q|q]; try reflexivity.
    - assert (Hk : exists k, setup_kind (select_encoding adv) = k /\ 0 < k /\ creq_plain_cond (select_encoding adv) = false).
      { destruct Hs as [Hs|Hs]; rewrite Hs; [exists 1|exists 2]; repeat split; reflexivity. }
      destruct Hk as (k & Hk & Hk0 & Hpl). rewrite Hpl. change creq_wired with true. cbv iota.
      rewrite goroutine_refines. unfold spec_goroutine. fold eff_goroutine. rewrite eff_goroutine_0.
      destruct (run_compress_spec (select_encoding adv) k (mkRd (u_data src) (u_script src)) (u_fail src) (-1) (enc_init 0) Hk ltac:(lia))
        as (e & w1 & E & Hterm & Hres). cbv zeta in E.
      rewrite E. rewrite eff_goroutine_1, eff_goroutine_2. cbn [hd w_pipe pipe_close p_bytes p_term].
      rewrite server_view_cases. rewrite <- codec_sides_agree, Hk. replace (k <? 0) with false by lia.
      destruct Hres as [[He Hcut]|[(He & Hf)|(He & Hf & cs & Hcat & Hall & Hb)]]; [lia| |].
      + subst e. destruct (u_fail src); try lia; reflexivity.
      + subst e. rewrite Hb, xdec_roundtrip by (auto; lia). cbn [r_data] in Hcat. rewrite Hcat, Hf. reflexivity.
  Qed.

  (* a source that fails is never turned into a body the server accepts: nothing is signed, and the client's transport
     sees the failure (the source's own error, or the lost reader) — exactly as without compression *)
  Theorem upload_fault_aborts opq adv src cut : u_fail src <> 0 ->
    server_view opq (client_wire adv src cut) = SErr /\ client_body_error (client_wire adv src cut) <> 0.
  Proof.
    intros Hf. split.
    - destruct (server_view opq (client_wire adv src cut)) eqn:E; [reflexivity|].
      apply upload_integrity in E. destruct E. contradiction.
    - unfold Upload.client_wire, Upload.client_wire_with. destruct (select_encoding_range adv) as [Hs|Hs].
      + rewrite Hs. change (creq_plain_cond []) with true. cbv iota. change br_body_is_stream with true. cbv iota. exact Hf.
      + assert (Hk : exists k, setup_kind (select_encoding adv) = k /\ 0 < k /\ creq_plain_cond (select_encoding adv) = false).
        { destruct Hs as [Hs|Hs]; rewrite Hs; [exists 1|exists 2]; repeat split; reflexivity. }
        destruct Hk as (k & Hk & Hk0 & Hpl). rewrite Hpl. change creq_wired with true. cbv iota.
        rewrite goroutine_refines. unfold spec_goroutine. fold eff_goroutine. rewrite eff_goroutine_0.
        destruct (run_compress_spec (select_encoding adv) k (mkRd (u_data src) (u_script src)) (u_fail src) cut (enc_init 0) Hk ltac:(lia))
          as (e & w1 & E & Hterm & Hres). cbv zeta in E. rewrite E.
        rewrite eff_goroutine_1, eff_goroutine_2. cbn [hd w_pipe pipe_close p_bytes p_term]. unfold client_body_error. cbn [snd].
        destruct Hres as [[He _]|[(He & _)|(He & Hf0 & _)]]; subst e; [unfold E_CLOSED_PIPE; lia|exact Hf|contradiction].
  Qed.

  (* whatever the two servers advertise, the server's view of the same stream is the same *)
  Corollary upload_encoding_independent opq1 opq2 adv1 adv2 src :
    server_view opq1 (client_wire adv1 src (-1)) = server_view opq2 (client_wire adv2 src (-1)).
  Proof. now rewrite !upload_eq_spec. Qed.
End UploadProofs.

(* ================================================================== 7. standalone signing reads the same stream *)
Lemma read_all_spec : forall fuel r fail acc, (length (r_data r) < fuel)%nat ->
  read_all fuel r fail acc = if fail =? 0 then SOk (acc ++ r_data r) else SErr.
Proof.
  induction fuel as [|f IH]; intros r fail acc Hf; [lia|].
  cbn [read_all]. destruct (r_data r) as [|x t] eqn:Ed.
  - now rewrite app_nil_r.
  - assert (Hne : r_data r <> []) by (rewrite Ed; discriminate).
    pose proof (rd_read_spec r 512 ltac:(reflexivity) Hne) as Hs.
    destruct (rd_read r 512) as [got r1]. destruct Hs as (n & Hn & Hgot & Hr1).
    assert (Hlg : zlen got = Z.min n (zlen (r_data r))) by (subst got; apply zlen_ztake_min; lia).
    assert (Hpos : 0 < zlen (r_data r)) by (rewrite Ed, zlen_cons; pose proof (zlen_nonneg t); lia).
    rewrite IH.
    + rewrite <- app_assoc, Hgot, Hr1, ztake_zdrop, Ed. reflexivity.
    + rewrite Hr1. unfold zdrop. rewrite skipn_length. rewrite Ed in *. cbn [length] in *. unfold zlen in Hlg. lia.
Qed.
Lemma standalone_spec src : standalone_view src = spec_view src.
Proof. unfold standalone_view, spec_view. rewrite read_all_spec by (cbn; lia). reflexivity. Qed.

(* ================================================================== 8. attempts inside doRequest *)
Lemma dr_loop_trace L nb : forall fuel i enc script acc t res,
  dr_loop fuel L nb i enc script acc = (t, res) ->
  exists t', t = acc ++ t' /\ map snd t' = pad_take (OStatus 200) (length t') script.
Proof.
  induction fuel as [|f IH]; intros i enc script acc t res H; cbn [dr_loop] in H.
  - inversion H. exists []. now rewrite app_nil_r.
  - destruct (L <=? i); [inversion H; exists []; now rewrite app_nil_r|].
    set (o := hd (OStatus 200) script) in *.
    assert (Hrec : forall i' enc', dr_loop f L nb i' enc' (tl script) (acc ++ [(mkAtt (i mod nb) enc, o)]) = (t, res) ->
                   exists t', t = acc ++ t' /\ map snd t' = pad_take (OStatus 200) (length t') script).
    { intros i' enc' Hr. destruct (IH _ _ _ _ _ _ Hr) as (t1 & -> & Hm).
      exists ((mkAtt (i mod nb) enc, o) :: t1). rewrite <- app_assoc. split; [reflexivity|]. cbn [map snd length pad_take]. now rewrite Hm. }
    destruct (match o with OStatus c => (true, c) | _ => (false, 0) end) as [has_resp code].
    repeat match type of H with
           | (if ?c then _ else _) = _ => destruct c
           end;
      first [ eapply Hrec; exact H
            | inversion H; exists [(mkAtt (i mod nb) enc, o)]; split; reflexivity ].
Qed.

Lemma nth_pad_take {A} (d : A) : forall n k l, (k < n)%nat -> nth k (pad_take d n l) d = nth k l d.
Proof.
  induction n as [|n IH]; intros k l Hk; [lia|]. cbn [pad_take]. destruct k as [|k].
  - destruct l; reflexivity.
  - cbn [nth]. rewrite IH by lia. destruct l; [destruct k; reflexivity|reflexivity].
Qed.

(* the attempt whose response doRequest accepts read its stream without error (attempts whose source fails surface as a
   transport error and are never accepted), and the host answered it with that status *)
Lemma accepted_attempt_healthy nbases retries enc ins t res s e c :
  0 < nbases -> do_request nbases retries enc (map attempt_outcome ins) = (t, res) -> res = DrAccepted s e c ->
  let a := nth (length t - 1) ins healthy_default in
  u_fail (ai_src a) = 0 /\ ai_beh a = OStatus c.
Proof.
  intros Hn Hd Hr a.
  destruct (do_request_spec nbases retries enc (map attempt_outcome ins) Hn) as (t1 & res1 & E & G & _).
  rewrite Hd in E. inversion E; subst t1 res1. clear E.
  destruct (good_trace_accept _ _ _ _ _ _ _ _ _ G Hr) as (_ & t0 & Ht).
  unfold do_request in Hd. apply dr_loop_trace in Hd. destruct Hd as (t' & Ht' & Hm). cbn [app] in Ht'. subst t'.
  assert (Hlast : nth (length t - 1) (map snd t) (OStatus 200) = OStatus c).
  { rewrite Ht, map_app, app_length. cbn [length map snd]. rewrite app_nth2 by (rewrite map_length; lia).
    rewrite map_length. replace (length t0 + 1 - 1 - length t0)%nat with 0%nat by lia. reflexivity. }
  assert (Hlen : (length t - 1 < length t)%nat) by (rewrite Ht, app_length; cbn; lia).
  rewrite Hm, nth_pad_take in Hlast by exact Hlen.
  change (OStatus 200) with (attempt_outcome healthy_default) in Hlast. rewrite map_nth in Hlast. fold a in Hlast.
  unfold attempt_outcome in Hlast. destruct (u_fail (ai_src a) =? 0) eqn:Ef.
  - split; [lia|exact Hlast].
  - destruct (ai_temp a && dr_build_error_returns); discriminate.
Qed.

(* ================================================================== 9. the concrete framed codec round-trips *)
Lemma fc2_enc_run k : k <> 0 -> forall cs s,
  enc_run fc2_state fc2_write k s cs = ((fst s, snd s + zlen (concat cs)), concat (map fc_frame cs)).
Proof.
  intros Hk. induction cs as [|c r IH]; intros s; cbn [Upload.enc_run concat map].
  - rewrite zlen_nil, Z.add_0_r. now destruct s.
  - unfold xwrite. replace (k =? 0) with false by lia. unfold fc2_write at 1. rewrite IH. cbn [fst snd].
    rewrite zlen_app. f_equal. f_equal. lia.
Qed.

Lemma fc_dec_frames k : forall cs fuel acc tail,
  Forall (fun c => zlen c <= io_copy_buf) cs -> (length (concat (map fc_frame cs) ++ tail) < fuel)%nat ->
  exists fuel', (length tail < fuel')%nat /\
    fc2_dec_loop fuel k (concat (map fc_frame cs) ++ tail) acc = fc2_dec_loop fuel' k tail (acc ++ concat cs).
Proof.
  induction cs as [|c r IH]; intros fuel acc tail Hall Hf.
  - exists fuel. cbn in *. now rewrite app_nil_r.
  - inversion Hall as [|? ? Hc Hr]; subst. cbn [map concat] in *. destruct c as [|x c'].
    + cbn [fc_frame app] in *. apply IH; assumption.
    + change (fc_frame (x :: c')) with (1 :: le_enc 4 (zlen (x :: c')) ++ x :: c') in *.
      set (c := x :: c') in *. destruct fuel as [|f]; [lia|].
      assert (Hn : 0 < zlen c <= io_copy_buf) by (subst c; rewrite zlen_cons in *; pose proof (zlen_nonneg c'); lia).
      rewrite <- !app_assoc in *. cbn [app] in Hf |- *. rewrite <- !app_assoc in *.
      cbn [fc2_dec_loop]. change (1 =? 1) with true. cbv iota.
      set (rest := le_enc 4 (zlen c) ++ c ++ concat (map fc_frame r) ++ tail) in *.
      assert (H4 : ztake 4 rest = le_enc 4 (zlen c)).
      { subst rest. rewrite ztake_app_l by (rewrite le_enc_zlen; lia). apply ztake_all. rewrite le_enc_zlen. lia. }
      assert (Hd4 : zdrop 4 rest = c ++ concat (map fc_frame r) ++ tail).
      { subst rest. rewrite zdrop_app_r by (rewrite le_enc_zlen; lia). rewrite le_enc_zlen. reflexivity. }
      rewrite H4, Hd4, le_dec_enc by (change (256 ^ Z.of_nat 4) with 4294967296; unfold io_copy_buf in Hn; lia).
      assert (Hlr : 4 <= zlen rest) by (subst rest; rewrite zlen_app, le_enc_zlen; pose proof (zlen_nonneg (c ++ concat (map fc_frame r) ++ tail)); lia).
      replace (zlen rest <? 4) with false by lia. replace (zlen c <=? 0) with false by lia.
      replace (zlen (c ++ concat (map fc_frame r) ++ tail) <? zlen c) with false
        by (rewrite zlen_app; pose proof (zlen_nonneg (concat (map fc_frame r) ++ tail)); lia).
      cbn [orb]. rewrite zdrop_app_r by lia. rewrite Z.sub_diag, zdrop_0.
      rewrite ztake_app_l by lia. rewrite ztake_all by lia.
      destruct (IH f (acc ++ c) tail Hr) as (fuel' & Hf' & E).
      { subst rest. cbn [length] in Hf. rewrite !app_length in Hf. rewrite app_length. lia. }
      exists fuel'. split; [exact Hf'|]. rewrite E, <- app_assoc. reflexivity.
Qed.

Lemma fc2_roundtrip : codec_roundtrip fc2_state fc2_init fc2_write fc2_close fc2_dec.
Proof.
  intros k cs Hk Hall. rewrite fc2_enc_run by lia. unfold fc2_init. cbn [fst snd]. unfold fc2_close, fc2_dec. cbn [fst snd].
  rewrite Z.add_0_l.
  destruct (fc_dec_frames k cs (S (length (concat (map fc_frame cs) ++ (if k =? 1 then fc_trailer (zlen (concat cs)) else []))))
              [] (if k =? 1 then fc_trailer (zlen (concat cs)) else []) Hall ltac:(lia)) as (fuel' & Hf & E).
  refine (eq_trans E _). cbn [app]. destruct fuel' as [|f]; [lia|]. destruct (k =? 1) eqn:E1.
  - unfold fc_trailer. cbn [fc2_dec_loop]. change (0 =? 1) with false. change (0 =? 0) with true. rewrite E1. cbv iota. cbn [andb].
    rewrite le_enc_zlen. change (Z.of_nat 4 =? 4) with true. cbn [andb].
    rewrite le_dec_enc by (pose proof (Z.mod_pos_bound (zlen (concat cs)) (2 ^ 32) ltac:(lia)); change (256 ^ Z.of_nat 4) with (2 ^ 32); lia).
    now rewrite Z.eqb_refl.
  - cbn [fc2_dec_loop]. rewrite E1. reflexivity.
Qed.
