(* C09/Properties.v — property theorems only. Each is closed by a lemma of C09/Proofs.v. *)
From Relic Require Import Base.Prelude Base.Enc Generated.C09_gen C09.Model C09.Proofs C09.Upload C09.UploadProofs.

(* ------------------------------------------------------------------ shared chunk library *)
(* 1. a byte string has exactly one decomposition into full B-blocks followed by one short non-empty block, and it is
      `chunks B` — whatever produced the blocks *)
Theorem chunks_characterised : forall B, 0 < B -> forall cs l, wf_chunks B cs -> concat cs = l -> cs = chunks B l.
Proof. exact C09.Proofs.chunks_characterised. Qed.

(* ------------------------------------------------------------------ scripted reads *)
(* 2. io.ReadFull / io.CopyN style transfers deliver the same bytes under every read-size script *)
Theorem read_full_script_indep : forall r n, 0 < n ->
  fst (read_full r n) = ztake n (r_data r) /\ r_data (snd (read_full r n)) = zdrop n (r_data r).
Proof. exact C09.Proofs.read_full_spec. Qed.
Theorem copy_n_script_indep : forall r n,
  fst (copy_n r n) = ztake n (r_data r) /\ r_data (snd (copy_n r n)) = zdrop n (r_data r).
Proof. exact C09.Proofs.copy_n_spec. Qed.

(* ------------------------------------------------------------------ APK v2 merkle hasher *)
(* 3. every split of the entry stream into Write calls: a Write never fails, and after flush the blocks are chunks B of
      everything written (the three-phase buffering is invisible) *)
Theorem merkle_split_indep : forall B ds, 0 < B ->
  exists h, mwrite_all B mh_init ds = Ok h /\
            m_blocks (mflush h) = chunks B (concat ds) /\ m_buf (mflush h) = [].
Proof.
  intros B ds HB. destruct (C09.Proofs.mwrite_all_spec B HB ds mh_init (C09.Proofs.minv_init B HB)) as (h & E & Hi & A).
  exists h. split; [exact E|]. destruct (C09.Proofs.mflush_spec B HB h Hi) as [H1 H2]. rewrite H1, H2, A. split; reflexivity.
Qed.

(* 4. the complete digest input equals the Android v2 definition: sections 1, 3, 4 chunked separately at 1 MiB, for every
      split of section 1 into writes.  Constants 1 MiB / 0xa5 / 0x5a are the specification's, compared with the source's. *)
Theorem merkle_eq_spec : forall ds cdir eocd,
  merkle_run merkleBlock ds cdir eocd = Ok (apk_spec_chunks (concat ds) cdir eocd) /\
  merkle_block_prefix = apk_chunk_prefix /\ merkle_top_prefix = apk_top_prefix.
Proof.
  intros. split; [|split; reflexivity].
  apply (C09.Proofs.merkle_run_spec merkleBlock ltac:(reflexivity)); reflexivity.
Qed.

(* ------------------------------------------------------------------ AppX block map *)
(* 5. AddFile's io.CopyN loop yields the 64 KiB blocks of the member for every read-size script, no empty block *)
Theorem blockmap_split_indep : forall r, addfile_blocks r = chunks appx_block_size (r_data r).
Proof. intros r. unfold addfile_blocks. rewrite C09.Proofs.addfile_loop_spec by lia. reflexivity. Qed.

(* ------------------------------------------------------------------ Mach-O code pages *)
(* 6. hashPages' io.ReadFull loop yields the 4 KiB pages for every read-size script *)
Theorem codepages_split_indep : forall r, hashpages r = chunks macho_page_size (r_data r).
Proof. intros r. unfold hashpages. rewrite C09.Proofs.hashpages_loop_spec by lia. reflexivity. Qed.

(* ------------------------------------------------------------------ PE page hashes *)
(* 7. imageHasher.section: for every read-size script the pages are the page-size pieces of the section's raw data at their
      file offsets, the image digest receives exactly the raw data, and the reader is left at the end of the section *)
Theorem pagehash_split_indep : forall pagesz r ptr size, 0 < pagesz ->
  0 <= size <= zlen (r_data r) -> 0 <= ptr -> ptr + size < 2 ^ 32 ->
  exists r', pe_section pagesz r ptr size = Ok (pe_spec_pages pagesz ptr (ztake size (r_data r)), r', ptr + size)
             /\ r_data r' = zdrop size (r_data r)
             /\ concat (map snd (pe_spec_pages pagesz ptr (ztake size (r_data r)))) = ztake size (r_data r).
Proof.
  intros pagesz r ptr size HP Hs Hp Hw. unfold pe_section.
  destruct (C09.Proofs.pe_section_loop_spec pagesz HP (S (Z.to_nat size)) r ptr size [] Hs Hp Hw ltac:(lia)) as (r' & E & Hd).
  exists r'. split; [exact E|]. split; [exact Hd|].
  unfold pe_spec_pages. rewrite C09.Proofs.concat_number_pages. apply C09.Proofs.concat_chunks. exact HP.
Qed.
(* the page padding addPageHash applies is the specification's zero fill *)
Theorem page_preimage_eq_spec : forall pagesz page, page_preimage pagesz page 0 = pe_spec_page_preimage pagesz page.
Proof. intros. unfold page_preimage, pe_spec_page_preimage, pe_needzero. now rewrite Z.sub_0_r. Qed.

(* ------------------------------------------------------------------ PE checksum *)
(* 8. for every split into writes of which only the last may be odd (io.Copy from a regular file), with an even CheckSum
      field offset (or none), the hasher computes the published algorithm — whatever boundary falls on the field *)
Theorem cksum_split_indep : forall pe_start ds,
  pe_start <= 0 \/ pe_start mod 2 = 0 -> all_bytes (concat ds) = true -> ck_split_ok ds = true ->
  ck_run pe_start ds = Ok (spec_cksum pe_start (concat ds)).
Proof.
  intros pe_start ds Hp Hb Hok. apply C09.Proofs.ck_run_spec; [exact Hp| |exact Hok].
  apply all_bytes_forall in Hb. exact Hb.
Qed.
(* an odd write that is not the last is refused, never mis-summed *)
Theorem cksum_odd_mid_refused : forall h d1 d2 h1,
  ck_write h d1 = Ok h1 -> zlen d1 mod 2 = 1 -> ck_write h1 d2 = Err E_ODD.
Proof.
  intros h d1 d2 h1 H Hodd. unfold ck_write in *. destruct (ck_odd_err_cond (ck_odd h)); [discriminate|].
  inversion H; subst. cbn [ck_odd]. unfold ck_odd_err_cond, ck_write_odd_cond.
  rewrite Z.rem_mod_nonneg by (pose proof (zlen_nonneg d1); lia). rewrite Hodd. cbn. now rewrite orb_true_r.
Qed.
(* with an ODD field offset (odd e_lfanew) the field is never zeroed: the full statement fails there. Such images are
   outside the PE format (NT headers are 4-byte aligned); witness kept for the record *)
Theorem cksum_odd_field_refuted : exists pe_start data,
  all_bytes data = true /\ ck_run pe_start [data] <> Ok (spec_cksum pe_start data).
Proof. exists 1, (repeat 1 100%nat). split; [reflexivity|]. vm_compute. discriminate. Qed.

(* ------------------------------------------------------------------ tar framing of zip uploads *)
(* 9. what ReadZipTar hands the server-side signer is the complete zip and its central directory *)
Theorem zip_tar_roundtrip : forall dirloc f, 0 <= dirloc <= zlen f ->
  exists ms, zip_to_tar dirloc f = Ok ms /\ read_zip_tar ms = Ok (zdrop dirloc f, f).
Proof. exact C09.Proofs.zip_tar_roundtrip. Qed.
(* the upload stream is a function of the file alone: ZipToTar, tarAddStream, the Mach-O and DMG producers and MsiToTar
   contain no Seek call (positioned reads only), so a producer left over from an abandoned attempt cannot disturb the
   next GetReader.  Source fact re-read by srcgen on every run; the schedules themselves are exercised by the harness. *)
Theorem reader_repeatable : producers_use_positioned_reads = true.
Proof. reflexivity. Qed.

(* ------------------------------------------------------------------ compression negotiation *)
(* 10. selectEncoding = "snappy over gzip over nothing, unknown tokens ignored" *)
Theorem select_encoding_eq_spec : forall items, select_encoding items = spec_select items.
Proof. exact C09.Proofs.select_encoding_spec. Qed.

(* ------------------------------------------------------------------ client transport *)
(* 11. every failover history: the attempts form a good trace (servers in order, moving on only after a transient failure,
       one restart without compression after a 406, accepted response below 300), and there are at most 2·|servers| *)
Theorem request_replay : forall nbases retries enc script, 0 < nbases ->
  exists t res, do_request nbases retries enc script = (t, res) /\
    good_trace (dr_len nbases retries) nbases 0 enc t res /\ zlen t <= 2 * dr_len nbases retries.
Proof. exact C09.Proofs.do_request_spec. Qed.
Theorem accepted_below_300 : forall L nb i enc t res s e c,
  good_trace L nb i enc t res -> res = DrAccepted s e c -> c < 300 /\ exists t0, t = t0 ++ [(mkAtt s e, OStatus c)].
Proof. exact C09.Proofs.good_trace_accept. Qed.
Theorem no_encoding_after_fallback : forall L nb i t res,
  good_trace L nb i false t res -> Forall (fun ao => a_enc (fst ao) = false) t.
Proof. exact C09.Proofs.good_trace_noenc. Qed.
(* 12. whatever attempt is accepted, the server decodes exactly the client-side transform's bytes, provided the codec
       round-trips (library assumption, premise of the theorem; checked on every harness case) *)
Theorem transport_invariant : forall (compress decompress : bytes -> bytes -> bytes),
  (forall e x, decompress e (compress e x) = x) ->
  forall upload advertised a, server_sees decompress (attempt_wire compress upload advertised a) = upload.
Proof. exact C09.Proofs.server_sees_upload. Qed.

(* ------------------------------------------------------------------ error path of an upload (C09/Upload.v) *)
(* The bodies of compress, the goroutine of CompressRequest, DecompressRequest, the Middleware handler, buildRequest and
   tarAddStream are translated by srcgen into programs (Generated/C09_gen.v); 13-18 say that each program, run against
   ARBITRARY effects (every outcome of every call), does what its reference says. *)
(* 13. compress: first failure wins — a failed setup, a failed copy (read error of the source or write error of the pipe)
       or a failed Close is the result; Close (which terminates the encoded stream) happens only after a complete copy *)
Theorem compress_returns_first_error : forall W (eff : Z -> list Z -> W -> Z * W) opq w,
  run_prog eff opq compress_prog compress_prog_result w = spec_compress W eff w.
Proof. exact C09.UploadProofs.compress_refines. Qed.
(* 14. the goroutine closes the pipe with exactly compress's result (never a clean close after a failure) *)
Theorem goroutine_closes_pipe_with_result : forall W (eff : Z -> list Z -> W -> Z * W) opq w,
  run_prog eff opq creq_goroutine_prog creq_goroutine_prog_result w = spec_goroutine W eff w.
Proof. exact C09.UploadProofs.goroutine_refines. Qed.
(* 15. DecompressRequest installs the decoder exactly when decompress succeeded and returns its error *)
Theorem decompress_request_guards_body : forall W (eff : Z -> list Z -> W -> Z * W) opq w,
  run_prog eff opq dreq_prog dreq_prog_result w = spec_dreq W eff w.
Proof. exact C09.UploadProofs.dreq_refines. Qed.
(* 16. the middleware never hands a request it could not decode to the signing handler, otherwise exactly once *)
Theorem middleware_refuses_undecodable : forall W (eff : Z -> list Z -> W -> Z * W) opq w,
  snd (run_prog eff opq middleware_prog middleware_prog_result w) = snd (spec_middleware W eff opq w).
Proof. exact C09.UploadProofs.middleware_refines. Qed.
(* 17. buildRequest returns every failure, in particular of GetReader and CompressRequest (no request is sent) *)
Theorem build_request_returns_errors : forall W (eff : Z -> list Z -> W -> Z * W) opq w,
  run_prog eff opq br_prog br_prog_result w = spec_build W eff opq w.
Proof. exact C09.UploadProofs.build_refines. Qed.
(* 18. tarAddStream (every member of a zip upload): a failing or short member source is an error *)
Theorem tar_member_error_returned : forall W (eff : Z -> list Z -> W -> Z * W) opq w,
  run_prog eff opq taraddstream_prog taraddstream_prog_result w = spec_taradd W eff w.
Proof. exact C09.UploadProofs.taradd_refines. Qed.
(* 19. client and server select the same codec for every Content-Encoding value, and refuse the same values *)
Theorem codec_sides_agree : forall enc, setup_kind enc = decompress_kind enc.
Proof. exact C09.UploadProofs.codec_sides_agree. Qed.
(* every pipe-backed transform (zip family, MSI, Mach-O, DMG) closes its pipe with the producer's error *)
Theorem producers_close_with_error : producers_propagate_errors = true.
Proof. reflexivity. Qed.

(* 20. MAIN: for every stream codec that round-trips complete streams (library assumption, the only premise), every
       advertised encoding list, every source (any data, any read sizes, failing or not after any number of bytes), every
       point at which the reading side of the pipe goes away, and every value of the conditions left opaque: whatever the
       signing handler gets to digest is the complete client-side stream, and the source did not fail *)
Theorem upload_integrity : forall St enc_init enc_write enc_close dec,
  codec_roundtrip St enc_init enc_write enc_close dec ->
  forall opq adv src cut b,
    server_view dec opq (client_wire St enc_init enc_write enc_close adv src cut) = SOk b ->
    b = u_data src /\ u_fail src = 0.
Proof. exact C09.UploadProofs.upload_integrity. Qed.
(* 21. a source that fails (after any number of bytes) aborts the attempt under every encoding: the handler digests
       nothing and the client's transport sees an error *)
Theorem upload_fault_aborts : forall St enc_init enc_write enc_close dec,
  codec_roundtrip St enc_init enc_write enc_close dec ->
  forall opq adv src cut, u_fail src <> 0 ->
    server_view dec opq (client_wire St enc_init enc_write enc_close adv src cut) = SErr /\
    client_body_error (client_wire St enc_init enc_write enc_close adv src cut) <> 0.
Proof. exact C09.UploadProofs.upload_fault_aborts. Qed.
(* 22. with a reader that stays, the server's view equals the specification (full stream iff the source is healthy) —
       hence it is the same under identity, gzip, snappy and after a 406 fallback, and the same as standalone signing *)
Theorem upload_eq_spec : forall St enc_init enc_write enc_close dec,
  codec_roundtrip St enc_init enc_write enc_close dec ->
  forall opq adv src, server_view dec opq (client_wire St enc_init enc_write enc_close adv src (-1)) = spec_view src.
Proof. exact C09.UploadProofs.upload_eq_spec. Qed.
Theorem upload_encoding_independent : forall St enc_init enc_write enc_close dec,
  codec_roundtrip St enc_init enc_write enc_close dec ->
  forall opq1 opq2 adv1 adv2 src,
    server_view dec opq1 (client_wire St enc_init enc_write enc_close adv1 src (-1)) =
    server_view dec opq2 (client_wire St enc_init enc_write enc_close adv2 src (-1)).
Proof. exact C09.UploadProofs.upload_encoding_independent. Qed.
Theorem standalone_eq_spec : forall src, standalone_view src = spec_view src.
Proof. exact C09.UploadProofs.standalone_spec. Qed.
(* 23. inside doRequest: attempts whose stream fails surface as transport errors (transient or not as httperror.Temporary
       says); the attempt whose response is accepted read its stream completely, under every failover history *)
Theorem accepted_attempt_healthy : forall nbases retries enc ins t res s e c,
  0 < nbases -> do_request nbases retries enc (map attempt_outcome ins) = (t, res) -> res = DrAccepted s e c ->
  let a := nth (length t - 1) ins healthy_default in
  u_fail (ai_src a) = 0 /\ ai_beh a = OStatus c.
Proof. exact C09.UploadProofs.accepted_attempt_healthy. Qed.
(* 24. the premise of 20-22 is satisfiable by a codec with real framing (a trailer-terminated kind standing for gzip, a
       trailer-less kind standing for snappy-framed where every frame boundary is a valid end), so 20 holds for it outright *)
Theorem framed_codec_roundtrips : codec_roundtrip fc2_state fc2_init fc2_write fc2_close fc2_dec.
Proof. exact C09.UploadProofs.fc2_roundtrip. Qed.
Theorem upload_integrity_framed : forall opq adv src cut b,
  fc_server_view opq (fc_client_wire adv src cut) = SOk b -> b = u_data src /\ u_fail src = 0.
Proof. exact (C09.UploadProofs.upload_integrity _ _ _ _ _ C09.UploadProofs.fc2_roundtrip). Qed.

(* ------------------------------------------------------------------ non-vacuity *)
Example merkle_three_phase_example :
  (* B = 4: a write that completes the buffer, then hashes a block directly, then saves a remainder *)
  merkle_run 4 [[1; 2; 3]; [4; 5; 6; 7; 8; 9]; [10]] [11; 12; 13; 14; 15] [16] =
  Ok [[1; 2; 3; 4]; [5; 6; 7; 8]; [9; 10]; [11; 12; 13; 14]; [15]; [16]].
Proof. reflexivity. Qed.
Example blockmap_example :
  map zlen (addfile_blocks (mkRd (repeat 7 (Z.to_nat 70000)) [1; 65535; 3; 100000])) = [65536; 4464].
Proof. vm_compute. reflexivity. Qed.
Example cksum_straddle_example :
  (* the field (offset 90) straddles the write boundary at 92, and lies exactly on the boundary at 90 *)
  let data := map (fun n => Z.of_nat n mod 251) (seq 0 120) in
  ck_run 2 [ztake 92 data; zdrop 92 data] = Ok (spec_cksum 2 data) /\
  ck_run 2 [ztake 90 data; zdrop 90 data] = Ok (spec_cksum 2 data) /\ ck_run 2 [data] = Ok (spec_cksum 2 data).
Proof. vm_compute. repeat split. Qed.
Example failover_example :
  do_request 3 0 true [OStatus 503; OStatus 406; OConnTemp; OStatus 200] =
  ([(mkAtt 0 true, OStatus 503); (mkAtt 1 true, OStatus 406); (mkAtt 0 false, OConnTemp); (mkAtt 1 false, OStatus 200)],
   DrAccepted 1 false 200).
Proof. reflexivity. Qed.
(* a healthy 5-byte upload in reads of 2 bytes, and the same source failing after 3 bytes, under snappy and gzip *)
Example upload_examples :
  fc_server_view no_opaque (fc_client_wire [enc_snappy; enc_gzip] (mkUS [1; 2; 3; 4; 5] 0 [2; 2]) (-1)) = SOk [1; 2; 3; 4; 5] /\
  fc_server_view no_opaque (fc_client_wire [enc_gzip] (mkUS [1; 2; 3; 4; 5] 0 [2; 2]) (-1)) = SOk [1; 2; 3; 4; 5] /\
  fc_server_view no_opaque (fc_client_wire [enc_snappy] (mkUS [1; 2; 3] 5 [2; 2]) (-1)) = SErr /\
  fc_client_wire [enc_snappy] (mkUS [1; 2; 3] 5 [2; 2]) (-1) = (enc_snappy, [1; 2; 0; 0; 0; 1; 2; 1; 1; 0; 0; 0; 3], Some 5) /\
  fc_server_view no_opaque (fc_client_wire [] (mkUS [1; 2; 3] 5 [2; 2]) (-1)) = SErr.
Proof. vm_compute. repeat split. Qed.
(* what 13 and 20 exclude: with Close moved into a deferred closure that assigns the named result (the read error is
   replaced by Close's nil), the same failing source is accepted by the server as a complete 3-byte stream *)
Example deferred_close_variant_refuted :
  fc_server_view no_opaque (fc_client_wire_with compress_prog_deferred_close 0 [enc_snappy] (mkUS [1; 2; 3] 5 [2; 2]) (-1)) = SOk [1; 2; 3] /\
  fc_server_view no_opaque (fc_client_wire_with compress_prog_deferred_close 0 [enc_gzip] (mkUS [1; 2; 3] 5 [2; 2]) (-1)) = SOk [1; 2; 3].
Proof. vm_compute. split; reflexivity. Qed.
