(* FmtPGP/ClearProofs.v — relic's cleartext signature path (ClearModel.detach_clearsign / merge_clearsign) against the RFC 4880
   reader: lines are never broken, merged or truncated; documents with a line the reader cannot hold are refused; nothing hangs. *)
From Relic Require Import Base.Prelude Generated.FmtPGP_gen FmtPGP.ClearModel FmtPGP.ClearLib.

(* ------------------------------------------------------------------ small list facts *)
Lemma nolf_dec l : forallb (fun b => negb (b =? LF)) l = true -> ~ In LF l.
Proof.
  induction l as [|b r IH]; [intros _ []|]. cbn [forallb]. intros H. apply andb_true_iff in H as [H1 H2].
  intros [->|Hin]; [discriminate H1|exact (IH H2 Hin)].
Qed.
Lemma nocr_dec l : forallb (fun b => negb (b =? CR)) l = true -> ~ In CR l.
Proof.
  induction l as [|b r IH]; [intros _ []|]. cbn [forallb]. intros H. apply andb_true_iff in H as [H1 H2].
  intros [->|Hin]; [discriminate H1|exact (IH H2 Hin)].
Qed.
Lemma split_first (P : bytes -> bool) ls :
  Forall (fun l => P l = false) ls \/
  exists a1 x a2, ls = a1 ++ x :: a2 /\ Forall (fun l => P l = false) a1 /\ P x = true.
Proof.
  induction ls as [|l r IH]; [left; constructor|].
  destruct (P l) eqn:E.
  - right. exists [], l, r. repeat split; [constructor|exact E].
  - destruct IH as [IH|[a1 [x [a2 [-> [H1 H2]]]]]].
    + left. constructor; assumption.
    + right. exists (l :: a1), x, a2. repeat split; [constructor; assumption|exact H2].
Qed.
Lemma app_eq_same_length {A} (a a' b b' : list A) : length a = length a' -> a ++ b = a' ++ b' -> a = a' /\ b = b'.
Proof.
  revert a'. induction a as [|x a IH]; intros [|y a'] Hl H; try discriminate Hl.
  - split; [reflexivity|exact H].
  - cbn [app] in H. injection H as -> H. injection Hl as Hl. destruct (IH a' Hl H) as [-> ->]. split; reflexivity.
Qed.

(* ------------------------------------------------------------------ the scanner on a list of raw lines *)
Definition short (max : Z) (l : bytes) : Prop := scan_too_long max (zlen l) = false.

Lemma scan_raw_short max a b : Forall (short max) a -> b <> [] ->
  scan_raw max (a ++ b) = (map drop_cr a ++ fst (scan_raw max b), snd (scan_raw max b)).
Proof.
  intros Ha Hb. induction Ha as [|l a Hl _ IH].
  - cbn [app map]. destruct (scan_raw max b); reflexivity.
  - cbn [app scan_raw map]. unfold short in Hl. rewrite Hl.
    destruct (a ++ b) as [|y q] eqn:E; [apply app_eq_nil in E as [_ E]; contradiction|].
    rewrite IH. reflexivity.
Qed.
Lemma scan_raw_long max a1 l a2 : Forall (short max) a1 -> scan_too_long max (zlen l) = true ->
  scan_raw max (a1 ++ l :: a2) = (map drop_cr a1, true).
Proof.
  intros Ha Hl. induction Ha as [|x a Hx _ IH].
  - cbn [app scan_raw map]. rewrite Hl. reflexivity.
  - cbn [app scan_raw map]. unfold short in Hx. rewrite Hx.
    destruct (a ++ l :: a2) as [|y q] eqn:E; [apply app_eq_nil in E as [_ E]; discriminate E|].
    rewrite IH. reflexivity.
Qed.
Lemma scan_raw_all_short max raw : Forall (short max) raw -> scan_raw max raw = (map drop_cr (drop_last_empty raw), false).
Proof.
  induction 1 as [|l r Hl _ IH]; [reflexivity|].
  cbn [scan_raw]. unfold short in Hl. rewrite Hl. destruct r as [|y q].
  - destruct l as [|z l]; [reflexivity|]. cbn [drop_last_empty map].
    replace (zlen (z :: l) =? 0) with false by (rewrite zlen_cons; pose proof (zlen_nonneg l); lia). reflexivity.
  - rewrite IH. rewrite (dle_cons_more l (y :: q)) by discriminate. reflexivity.
Qed.
Lemma scan_raw_dichotomy max raw :
  (Forall (short max) raw /\ scan_raw max raw = (map drop_cr (drop_last_empty raw), false)) \/
  (exists a1 l a2, raw = a1 ++ l :: a2 /\ Forall (short max) a1 /\ scan_too_long max (zlen l) = true /\ scan_raw max raw = (map drop_cr a1, true)).
Proof.
  destruct (split_first (fun l => scan_too_long max (zlen l)) raw) as [H|[a1 [l [a2 [-> [H1 H2]]]]]].
  - left. split; [exact H|apply scan_raw_all_short; exact H].
  - right. exists a1, l, a2. repeat split; try assumption. apply scan_raw_long; assumption.
Qed.

(* ------------------------------------------------------------------ headClearSign / tailClearSign on tokens *)
Definition nosig (t : bytes) : Prop := bytes_eqb t pgp_cs_sig_header = false.

Lemma head_body_eq t :
  head_body pgp_cs_head_steps t = if bytes_eqb t pgp_cs_sig_header then ([], true) else (t ++ pgp_cs_crlf, false).
Proof.
  cbv [head_body pgp_cs_head_steps Z.eqb Pos.eqb pgp_cs_head_is_sig].
  destruct (bytes_eqb t pgp_cs_sig_header); [reflexivity|]. cbn [app]. rewrite app_nil_r. reflexivity.
Qed.
Lemma head_loop_nosig ts r : Forall nosig ts ->
  head_loop (ts ++ r) = (concat (map (fun t => t ++ pgp_cs_crlf) ts) ++ fst (head_loop r), snd (head_loop r)).
Proof.
  induction 1 as [|t ts Ht _ IH].
  - cbn [app map concat]. destruct (head_loop r); reflexivity.
  - cbn [app head_loop map concat]. rewrite head_body_eq. unfold nosig in Ht. rewrite Ht. rewrite IH.
    cbn [fst snd]. rewrite <- !app_assoc. reflexivity.
Qed.
Lemma head_loop_sig r : head_loop (pgp_cs_sig_header :: r) = ([], true).
Proof.
  cbn [head_loop]. rewrite head_body_eq.
  replace (bytes_eqb pgp_cs_sig_header pgp_cs_sig_header) with true by (symmetry; apply list_eqb_Z_eq; reflexivity). reflexivity.
Qed.
Lemma head_loop_nosig_only ts : Forall nosig ts -> snd (head_loop ts) = false.
Proof. intros H. rewrite <- (app_nil_r ts). rewrite head_loop_nosig by exact H. reflexivity. Qed.

Lemma tail_emit_eq t : tail_emit t = t ++ [CR; LF].
Proof. cbv [tail_emit pgp_cs_tail_writes map concat fst snd Z.eqb]. rewrite app_nil_r. reflexivity. Qed.
Lemma tail_loop_cons copying t r :
  tail_loop copying (t :: r) =
  (if copying || bytes_eqb t pgp_cs_sig_header then t ++ [CR; LF] else []) ++ tail_loop (copying || bytes_eqb t pgp_cs_sig_header) r.
Proof.
  cbn [tail_loop]. rewrite tail_emit_eq.
  change (existsb (Z.eqb 5) pgp_cs_tail_steps) with true. cbn [andb].
  unfold pgp_cs_tail_copy_cond. change pgp_cs_tail_sets_copying with true. rewrite andb_true_r.
  destruct copying; [reflexivity|]. cbn [orb]. destruct (bytes_eqb t pgp_cs_sig_header); reflexivity.
Qed.
Lemma tail_loop_skip ts r : Forall nosig ts -> tail_loop false (ts ++ r) = tail_loop false r.
Proof.
  induction 1 as [|t ts Ht _ IH]; [reflexivity|].
  cbn [app]. rewrite tail_loop_cons. unfold nosig in Ht. rewrite Ht. cbn [orb app]. exact IH.
Qed.
Lemma tail_loop_copy ts : tail_loop true ts = concat (map (fun t => t ++ [CR; LF]) ts).
Proof.
  induction ts as [|t ts IH]; [reflexivity|]. rewrite tail_loop_cons. cbn [orb map concat]. rewrite IH. reflexivity.
Qed.
Lemma sig_is_sig : bytes_eqb pgp_cs_sig_header pgp_cs_sig_header = true.
Proof. apply list_eqb_Z_eq. reflexivity. Qed.

(* ------------------------------------------------------------------ the lines of the encoder's stream *)
Definition raw_pre (hname doc : bytes) : list bytes :=
  tl pgp_esc_start :: (hash_hdr ++ hname) :: [] :: map esc_line (doc_lines doc).

Lemma doc_lines_nolf doc : Forall (fun l => ~ In LF l) (doc_lines doc).
Proof. apply dle_Forall, split_lf_pieces_nolf. Qed.
Lemma hash_line_nolf hname : ~ In LF hname -> ~ In LF (hash_hdr ++ hname).
Proof.
  intros Hn H. apply in_app_or in H as [H|H]; [|exact (Hn H)].
  revert H. apply nolf_dec. reflexivity.
Qed.
Lemma raw_pre_nolf hname doc : ~ In LF hname -> Forall (fun l => ~ In LF l) (raw_pre hname doc).
Proof.
  intros Hn. unfold raw_pre. constructor; [apply nolf_dec; reflexivity|].
  constructor; [apply hash_line_nolf; exact Hn|]. constructor; [intros []|].
  apply Forall_map. eapply Forall_impl; [|apply doc_lines_nolf]. intros l Hl. apply esc_line_nolf. exact Hl.
Qed.
Lemma stream_lines hname doc arest : ~ In LF hname ->
  split_lf (clearsign_stream hname doc (pgp_cs_sig_header ++ LF :: arest)) =
  raw_pre hname doc ++ pgp_cs_sig_header :: split_lf (arest ++ pgp_cs_crlf).
Proof.
  intros Hn. unfold clearsign_stream, enc_stream. change pgp_cs_clearsign_writes_crlf with true. cbv iota.
  rewrite enc_body_eq_lines. rewrite <- !app_assoc. cbn [app].
  rewrite split_lf_app_lf by (apply nolf_dec; reflexivity).
  rewrite (app_assoc hash_hdr hname). rewrite split_lf_app_lf by (apply hash_line_nolf; exact Hn).
  rewrite split_lf_cons_lf.
  replace (map (fun l => esc_line l ++ [LF]) (doc_lines doc)) with (map (fun l => l ++ [LF]) (map esc_line (doc_lines doc)))
    by (rewrite map_map; reflexivity).
  rewrite split_lf_lines.
  2:{ apply Forall_map. eapply Forall_impl; [|apply doc_lines_nolf]. intros l Hl. apply esc_line_nolf. exact Hl. }
  rewrite split_lf_app_lf by (apply nolf_dec; reflexivity).
  unfold raw_pre. cbn [app]. reflexivity.
Qed.
Lemma pre_tokens hname doc : ~ In CR hname -> map drop_cr (raw_pre hname doc) = raw_pre hname doc.
Proof.
  intros Hn. unfold raw_pre. cbn [map].
  assert (E1 : drop_cr (tl pgp_esc_start) = tl pgp_esc_start) by reflexivity.
  assert (E2 : drop_cr (hash_hdr ++ hname) = hash_hdr ++ hname).
  { apply drop_cr_noCR. intros H. apply in_app_or in H as [H|H]; [|exact (Hn H)]. revert H. apply nocr_dec. reflexivity. }
  assert (E3 : map drop_cr (map esc_line (doc_lines doc)) = map esc_line (doc_lines doc)).
  { rewrite map_map. apply map_ext. intros l. apply drop_cr_stripped, esc_line_stripped. }
  rewrite E1, E2, E3. reflexivity.
Qed.
Lemma pre_nosig hname doc : Forall nosig (raw_pre hname doc).
Proof.
  unfold raw_pre, nosig. constructor; [reflexivity|]. constructor; [reflexivity|]. constructor; [reflexivity|].
  apply Forall_map. apply Forall_forall. intros l _. change pgp_cs_sig_header with spec_begin_sig. apply esc_line_not_marker.
Qed.
Lemma pre_prefix_tokens hname doc a1 x a2 : ~ In CR hname -> raw_pre hname doc = a1 ++ x :: a2 ->
  map drop_cr a1 = a1 /\ Forall nosig a1.
Proof.
  intros Hn E. pose proof (pre_tokens hname doc Hn) as Ht. pose proof (pre_nosig hname doc) as Hs.
  rewrite E in Ht, Hs. rewrite map_app in Ht.
  apply app_eq_same_length in Ht as [Ht _]; [|apply map_length].
  split; [exact Ht|]. apply Forall_app in Hs as [Hs _]. exact Hs.
Qed.

(* ------------------------------------------------------------------ headClearSign on the encoder's stream *)
Lemma sig_short_head : scan_too_long pgp_cs_head_max_token (zlen pgp_cs_sig_header) = false.
Proof. reflexivity. Qed.
Lemma sig_short_tail : scan_too_long pgp_cs_tail_max_token (zlen pgp_cs_sig_header) = false.
Proof. reflexivity. Qed.

Lemma head_ok hname doc arest : ~ In LF hname -> ~ In CR hname ->
  Forall (short pgp_cs_head_max_token) (raw_pre hname doc) ->
  head_clearsign (clearsign_stream hname doc (pgp_cs_sig_header ++ LF :: arest)) =
  (concat (map (fun t => t ++ pgp_cs_crlf) (raw_pre hname doc)), 0).
Proof.
  intros Hlf Hcr Hs. unfold head_clearsign, read_lines. change (pgp_cs_head_reader =? 1) with true. cbv iota.
  unfold scan_lines. rewrite stream_lines by exact Hlf.
  rewrite scan_raw_short by (try exact Hs; discriminate).
  rewrite pre_tokens by exact Hcr.
  pose proof (split_lf_nonempty (arest ++ pgp_cs_crlf)) as Hne.
  assert (Esig : fst (scan_raw pgp_cs_head_max_token (pgp_cs_sig_header :: split_lf (arest ++ pgp_cs_crlf))) =
                 pgp_cs_sig_header :: fst (scan_raw pgp_cs_head_max_token (split_lf (arest ++ pgp_cs_crlf)))).
  { cbn [scan_raw]. rewrite sig_short_head. destruct (split_lf (arest ++ pgp_cs_crlf)) as [|y q]; [contradiction|].
    destruct (scan_raw pgp_cs_head_max_token (y :: q)). reflexivity. }
  rewrite Esig. rewrite head_loop_nosig by apply pre_nosig. rewrite head_loop_sig. cbn [fst snd]. rewrite app_nil_r. reflexivity.
Qed.
Lemma head_long hname doc arest : ~ In LF hname -> ~ In CR hname ->
  ~ Forall (short pgp_cs_head_max_token) (raw_pre hname doc) ->
  snd (head_clearsign (clearsign_stream hname doc (pgp_cs_sig_header ++ LF :: arest))) = E_TOOLONG.
Proof.
  intros Hlf Hcr Hs. unfold head_clearsign, read_lines. change (pgp_cs_head_reader =? 1) with true. cbv iota.
  unfold scan_lines. rewrite stream_lines by exact Hlf.
  destruct (split_first (fun l => scan_too_long pgp_cs_head_max_token (zlen l)) (raw_pre hname doc)) as [H|[a1 [l [a2 [E [H1 H2]]]]]];
    [contradiction|].
  rewrite E. rewrite <- app_assoc. cbn [app]. rewrite scan_raw_long by assumption.
  destruct (pre_prefix_tokens hname doc a1 l a2 Hcr E) as [Ht Hn]. rewrite Ht.
  pose proof (head_loop_nosig_only a1 Hn) as Hf. destruct (head_loop a1) as [o f]. cbn [snd] in Hf. subst f. reflexivity.
Qed.

(* ------------------------------------------------------------------ tailClearSign on the encoder's stream *)
Lemma tail_ok hname doc arest : ~ In LF hname -> ~ In CR hname ->
  Forall (short pgp_cs_tail_max_token) (raw_pre hname doc) ->
  Forall (short pgp_cs_tail_max_token) (split_lf (arest ++ pgp_cs_crlf)) ->
  tail_clearsign (clearsign_stream hname doc (pgp_cs_sig_header ++ LF :: arest)) =
  Ok (concat (map (fun t => t ++ [CR; LF]) (pgp_cs_sig_header :: map drop_cr (drop_last_empty (split_lf (arest ++ pgp_cs_crlf)))))).
Proof.
  intros Hlf Hcr Hs Ha. unfold tail_clearsign, read_lines. change (pgp_cs_tail_reader =? 1) with true. cbv iota.
  unfold scan_lines. rewrite stream_lines by exact Hlf.
  pose proof (split_lf_nonempty (arest ++ pgp_cs_crlf)) as Hne.
  rewrite scan_raw_all_short.
  2:{ apply Forall_app. split; [exact Hs|]. constructor; [exact sig_short_tail|exact Ha]. }
  cbn [andb]. rewrite dle_app by discriminate. rewrite dle_cons_more by exact Hne.
  rewrite map_app. cbn [map]. rewrite pre_tokens by exact Hcr.
  rewrite tail_loop_skip by apply pre_nosig.
  rewrite tail_loop_cons. change (drop_cr pgp_cs_sig_header) with pgp_cs_sig_header. rewrite sig_is_sig. cbn [orb].
  rewrite tail_loop_copy. reflexivity.
Qed.
Lemma tail_long hname doc arest : ~ In LF hname ->
  ~ Forall (short pgp_cs_tail_max_token) (raw_pre hname doc ++ pgp_cs_sig_header :: split_lf (arest ++ pgp_cs_crlf)) ->
  tail_clearsign (clearsign_stream hname doc (pgp_cs_sig_header ++ LF :: arest)) = Err E_TOOLONG.
Proof.
  intros Hlf Hs. unfold tail_clearsign, read_lines. change (pgp_cs_tail_reader =? 1) with true. cbv iota.
  unfold scan_lines. rewrite stream_lines by exact Hlf.
  destruct (scan_raw_dichotomy pgp_cs_tail_max_token (raw_pre hname doc ++ pgp_cs_sig_header :: split_lf (arest ++ pgp_cs_crlf)))
    as [[H _]|[a1 [l [a2 [_ [_ [_ E]]]]]]]; [contradiction|].
  rewrite E. reflexivity.
Qed.

(* ------------------------------------------------------------------ DetachClearSign / MergeClearSign *)
Definition armor_of (arest : bytes) : bytes := pgp_cs_sig_header ++ LF :: arest.
(* the signature block relic hands to the client: the armor lines of the encoder, each terminated by CR LF *)
Definition block_of (arest : bytes) : bytes :=
  concat (map (fun t => t ++ [CR; LF]) (pgp_cs_sig_header :: map drop_cr (drop_last_empty (split_lf (arest ++ pgp_cs_crlf))))).

Lemma detach_cases hname doc arest : ~ In LF hname -> ~ In CR hname ->
  (Forall (short pgp_cs_tail_max_token) (raw_pre hname doc) /\ Forall (short pgp_cs_tail_max_token) (split_lf (arest ++ pgp_cs_crlf)) /\
   detach_clearsign hname doc (armor_of arest) = Ok (block_of arest)) \/
  (~ Forall (short pgp_cs_tail_max_token) (raw_pre hname doc ++ pgp_cs_sig_header :: split_lf (arest ++ pgp_cs_crlf)) /\
   detach_clearsign hname doc (armor_of arest) = Err E_TOOLONG).
Proof.
  intros Hlf Hcr. unfold detach_clearsign, pipe_result, armor_of. change pgp_cs_detach_closes_pipe with true. rewrite orb_true_r.
  destruct (split_first (fun l => scan_too_long pgp_cs_tail_max_token (zlen l)) (raw_pre hname doc ++ pgp_cs_sig_header :: split_lf (arest ++ pgp_cs_crlf)))
    as [H|[a1 [l [a2 [E [H1 H2]]]]]].
  - left. apply Forall_app in H as [Hp Hr]. inversion Hr as [|? ? _ Hr']; subst.
    split; [exact Hp|]. split; [exact Hr'|]. apply tail_ok; assumption.
  - right. assert (Hn : ~ Forall (short pgp_cs_tail_max_token) (raw_pre hname doc ++ pgp_cs_sig_header :: split_lf (arest ++ pgp_cs_crlf))).
    { intros HF. rewrite E in HF. apply Forall_app in HF as [_ HF]. inversion HF as [|? ? Hl _]; subst. unfold short in Hl. congruence. }
    split; [exact Hn|]. apply tail_long; assumption.
Qed.
Lemma merge_cases hname doc arest sig : ~ In LF hname -> ~ In CR hname ->
  (Forall (short pgp_cs_head_max_token) (raw_pre hname doc) /\
   merge_clearsign hname doc (armor_of arest) sig = Ok (concat (map (fun t => t ++ pgp_cs_crlf) (raw_pre hname doc)) ++ sig)) \/
  (~ Forall (short pgp_cs_head_max_token) (raw_pre hname doc) /\ merge_clearsign hname doc (armor_of arest) sig = Err E_TOOLONG).
Proof.
  intros Hlf Hcr. unfold merge_clearsign, pipe_result, armor_of. change pgp_cs_merge_closes_pipe with true.
  change pgp_cs_merge_returns_head_err with true. change (existsb (Z.eqb 3) pgp_cs_merge_calls) with true. cbn [negb].
  destruct (split_first (fun l => scan_too_long pgp_cs_head_max_token (zlen l)) (raw_pre hname doc)) as [H|[a1 [l [a2 [E [H1 H2]]]]]].
  - left. split; [exact H|]. rewrite head_ok by assumption. rewrite orb_true_r. reflexivity.
  - right. assert (Hn : ~ Forall (short pgp_cs_head_max_token) (raw_pre hname doc)).
    { intros HF. rewrite E in HF. apply Forall_app in HF as [_ HF]. inversion HF as [|? ? Hl _]; subst. unfold short in Hl. congruence. }
    split; [exact Hn|]. pose proof (head_long hname doc arest Hlf Hcr Hn) as Hst.
    destruct (head_clearsign _) as [o st]. cbn [snd] in Hst. subst st. rewrite orb_true_r. reflexivity.
Qed.

(* ------------------------------------------------------------------ the RFC reader on relic's output *)
Lemma spec_body_lines ls s0 srest : bytes_eqb (rstrip s0) spec_begin_sig = true ->
  spec_body (map (fun t => t ++ [CR]) (map esc_line ls) ++ s0 :: srest) = Some (map rstrip ls, s0 :: srest).
Proof.
  intros Hs. induction ls as [|l ls IH].
  - cbn [map app spec_body]. rewrite Hs. reflexivity.
  - cbn [map app spec_body]. rewrite rstrip_app_blank by reflexivity. rewrite esc_line_stripped, esc_line_not_marker.
    rewrite IH. rewrite esc_line_undash. reflexivity.
Qed.
Lemma crlf_lines ls : concat (map (fun t => t ++ pgp_cs_crlf) ls) = concat (map (fun l => l ++ [LF]) (map (fun t => t ++ [CR]) ls)).
Proof.
  rewrite map_map. f_equal. apply map_ext. intros t. rewrite <- app_assoc. reflexivity.
Qed.
Lemma read_merged hname doc X : ~ In LF hname ->
  spec_read_cleartext (concat (map (fun t => t ++ pgp_cs_crlf) (raw_pre hname doc)) ++ pgp_cs_sig_header ++ [CR; LF] ++ X) =
  Some (mkClear [rstrip (hash_hdr ++ hname)] (map rstrip (doc_lines doc)) (split_lf (pgp_cs_sig_header ++ [CR; LF] ++ X))).
Proof.
  intros Hn. unfold spec_read_cleartext. rewrite crlf_lines. rewrite split_lf_lines.
  2:{ apply Forall_map. eapply Forall_impl; [|apply raw_pre_nolf; exact Hn]. intros l Hl H. apply in_app_or in H as [H|[H|[]]]; [exact (Hl H)|discriminate H]. }
  assert (Es : split_lf (pgp_cs_sig_header ++ [CR; LF] ++ X) = (pgp_cs_sig_header ++ [CR]) :: split_lf X).
  { change (pgp_cs_sig_header ++ [CR; LF] ++ X) with (pgp_cs_sig_header ++ [CR] ++ LF :: X). rewrite app_assoc.
    apply split_lf_app_lf. apply nolf_dec. reflexivity. }
  rewrite Es. unfold raw_pre. cbn [map app].
  replace (bytes_eqb (rstrip (tl pgp_esc_start ++ [CR])) spec_begin_msg) with true by reflexivity.
  cbn [spec_headers]. rewrite rstrip_app_blank by reflexivity.
  assert (Eh : rstrip (hash_hdr ++ hname) = 72 :: rstrip (tl hash_hdr ++ hname)) by (unfold hash_hdr; cbn [app tl]; apply rstrip_cons_nonblank; reflexivity).
  rewrite Eh. change (rstrip [CR]) with (@nil Z). cbv beta iota.
  rewrite spec_body_lines by reflexivity. reflexivity.
Qed.

Lemma Ok_inj {A} (a b : A) : Ok a = Ok b -> a = b.
Proof. congruence. Qed.
Lemma block_form arest : exists X, block_of arest = pgp_cs_sig_header ++ [CR; LF] ++ X.
Proof. unfold block_of. cbn [map concat]. rewrite <- app_assoc. eexists. reflexivity. Qed.

(* ------------------------------------------------------------------ theorems *)
(* every successful run: the RFC reader gets the Hash header, the lines of the document (trailing blanks removed: nothing broken,
   merged or truncated), as text exactly what the encoder hashed = the RFC canonical text, and the signature block bit by bit *)
Theorem cs_roundtrip hname doc real_rest fake_rest sig M : ~ In LF hname -> ~ In CR hname ->
  detach_clearsign hname doc (armor_of real_rest) = Ok sig ->
  merge_clearsign hname doc (armor_of fake_rest) sig = Ok M ->
  sig = block_of real_rest /\
  exists c, spec_read_cleartext M = Some c /\
            ct_headers c = [rstrip (hash_hdr ++ hname)] /\
            ct_lines c = map rstrip (doc_lines doc) /\
            ct_text c = enc_hashed doc /\ ct_text c = spec_canon doc /\
            ct_sig c = split_lf sig.
Proof.
  intros Hlf Hcr Hd Hm.
  destruct (detach_cases hname doc real_rest Hlf Hcr) as [[_ [_ E]]|[_ E]]; rewrite E in Hd; [|discriminate Hd].
  apply Ok_inj in Hd. subst sig. split; [reflexivity|].
  destruct (merge_cases hname doc fake_rest (block_of real_rest) Hlf Hcr) as [[_ E2]|[_ E2]]; rewrite E2 in Hm; [|discriminate Hm].
  apply Ok_inj in Hm. subst M.
  destruct (block_form real_rest) as [X EX]. rewrite EX.
  rewrite read_merged by exact Hlf. eexists. split; [reflexivity|]. cbn [ct_headers ct_lines ct_sig].
  split; [reflexivity|]. split; [reflexivity|]. split; [|split; reflexivity].
  unfold ct_text. cbn [ct_lines]. symmetry. apply enc_hashed_eq_canon.
Qed.

(* C03: the same, as a statement about the payload only: as many lines as the document has, each equal to the document's line
   without its trailing blanks *)
Theorem cs_text_preserved hname doc real_rest fake_rest sig M : ~ In LF hname -> ~ In CR hname ->
  detach_clearsign hname doc (armor_of real_rest) = Ok sig ->
  merge_clearsign hname doc (armor_of fake_rest) sig = Ok M ->
  exists c, spec_read_cleartext M = Some c /\ ct_lines c = map rstrip (doc_lines doc) /\ length (ct_lines c) = length (doc_lines doc).
Proof.
  intros Hlf Hcr Hd Hm. destruct (cs_roundtrip hname doc real_rest fake_rest sig M Hlf Hcr Hd Hm) as [_ [c [Hr [_ [Hl _]]]]].
  exists c. split; [exact Hr|]. split; [exact Hl|]. rewrite Hl. apply map_length.
Qed.

(* which documents are signed and which are refused: the limit is the scanner's token size *)
Definition line_fits (max : Z) (l : bytes) : Prop := zlen (esc_line l) < max.
Lemma short_iff max l : go_bufio_scan_full_is_error max max = true -> (short max l <-> zlen l < max).
Proof.
  intros Hfull. unfold short, scan_too_long. rewrite Hfull, andb_true_r. split; intros H; lia.
Qed.
Lemma full_head : go_bufio_scan_full_is_error pgp_cs_head_max_token pgp_cs_head_max_token = true. Proof. reflexivity. Qed.
Lemma full_tail : go_bufio_scan_full_is_error pgp_cs_tail_max_token pgp_cs_tail_max_token = true. Proof. reflexivity. Qed.

Lemma pre_short max hname doc : go_bufio_scan_full_is_error max max = true -> 40 < max -> zlen hname + 6 < max ->
  Forall (line_fits max) (doc_lines doc) -> Forall (short max) (raw_pre hname doc).
Proof.
  intros Hfull Hmax Hh Hd. unfold raw_pre.
  constructor; [apply short_iff; [exact Hfull|]; change (zlen (tl pgp_esc_start)) with 34; lia|].
  constructor; [apply short_iff; [exact Hfull|]; rewrite zlen_app; change (zlen hash_hdr) with 6; lia|].
  constructor; [apply short_iff; [exact Hfull|]; change (zlen (@nil Z)) with 0; lia|].
  apply Forall_map. eapply Forall_impl; [|exact Hd]. intros l Hl. apply short_iff; [exact Hfull|exact Hl].
Qed.
Lemma pre_not_short max hname doc : go_bufio_scan_full_is_error max max = true ->
  Exists (fun l => max <= zlen (esc_line l)) (doc_lines doc) -> ~ Forall (short max) (raw_pre hname doc).
Proof.
  intros Hfull He HF. unfold raw_pre in HF. inversion HF as [|? ? _ HF1]; subst. inversion HF1 as [|? ? _ HF2]; subst.
  inversion HF2 as [|? ? _ HF3]; subst. rewrite Forall_map in HF3 by idtac.
  apply Exists_exists in He as [l [Hin Hl]]. rewrite Forall_forall in HF3. specialize (HF3 l Hin).
  apply short_iff in HF3; [lia|exact Hfull].
Qed.

Lemma head_max_big : 40 < pgp_cs_head_max_token. Proof. reflexivity. Qed.
Lemma tail_max_big : 40 < pgp_cs_tail_max_token. Proof. reflexivity. Qed.

Theorem cs_refuses_long_line hname doc real_rest fake_rest sig : ~ In LF hname -> ~ In CR hname ->
  (Exists (fun l => pgp_cs_tail_max_token <= zlen (esc_line l)) (doc_lines doc) ->
   detach_clearsign hname doc (armor_of real_rest) = Err E_TOOLONG) /\
  (Exists (fun l => pgp_cs_head_max_token <= zlen (esc_line l)) (doc_lines doc) ->
   merge_clearsign hname doc (armor_of fake_rest) sig = Err E_TOOLONG).
Proof.
  intros Hlf Hcr. split; intros He.
  - destruct (detach_cases hname doc real_rest Hlf Hcr) as [[Hp _]|[_ E]]; [|exact E].
    exfalso. revert Hp. apply pre_not_short; [exact full_tail|exact He].
  - destruct (merge_cases hname doc fake_rest sig Hlf Hcr) as [[Hp _]|[_ E]]; [|exact E].
    exfalso. revert Hp. apply pre_not_short; [exact full_head|exact He].
Qed.
Theorem cs_signs_short_lines hname doc real_rest fake_rest : ~ In LF hname -> ~ In CR hname ->
  zlen hname + 6 < pgp_cs_tail_max_token -> zlen hname + 6 < pgp_cs_head_max_token ->
  Forall (line_fits pgp_cs_tail_max_token) (doc_lines doc) -> Forall (line_fits pgp_cs_head_max_token) (doc_lines doc) ->
  Forall (fun l => zlen l < pgp_cs_tail_max_token) (split_lf (real_rest ++ pgp_cs_crlf)) ->
  exists M, detach_clearsign hname doc (armor_of real_rest) = Ok (block_of real_rest) /\
            merge_clearsign hname doc (armor_of fake_rest) (block_of real_rest) = Ok M.
Proof.
  intros Hlf Hcr Hht Hhh Hdt Hdh Ha.
  destruct (detach_cases hname doc real_rest Hlf Hcr) as [[_ [_ E]]|[Hn _]].
  - destruct (merge_cases hname doc fake_rest (block_of real_rest) Hlf Hcr) as [[_ E2]|[Hn _]].
    + eexists. split; [exact E|exact E2].
    + exfalso. apply Hn. apply pre_short; [exact full_head|exact head_max_big|exact Hhh|exact Hdh].
  - exfalso. apply Hn. apply Forall_app. split.
    + apply pre_short; [exact full_tail|exact tail_max_big|exact Hht|exact Hdt].
    + constructor; [exact sig_short_tail|]. eapply Forall_impl; [|exact Ha]. intros l Hl. apply short_iff; [exact full_tail|exact Hl].
Qed.

(* C11: whatever the document and whatever the encoder writes as armor, neither call blocks for ever *)
Theorem cs_no_hang hname doc armor fake_armor sig :
  (forall p, detach_clearsign hname doc armor <> Panic p) /\ (forall p, merge_clearsign hname doc fake_armor sig <> Panic p).
Proof.
  split; intros p.
  - unfold detach_clearsign, pipe_result. change pgp_cs_detach_closes_pipe with true. rewrite orb_true_r.
    unfold tail_clearsign. destruct (read_lines _ _ _ _) as [toks err]. destruct (err && _); discriminate.
  - unfold merge_clearsign, pipe_result. change pgp_cs_merge_closes_pipe with true. destruct (head_clearsign _) as [o st].
    rewrite orb_true_r. destruct (_ || _); discriminate.
Qed.

(* symbolic cryptography: if the library's signature is good for the text the encoder hashed, an RFC 4880 verifier accepts relic's file *)
Section Verify.
  Variable sig_ok : bytes -> list bytes -> bool.     (* canonical text -> armor lines of the signature -> verdict of the packet-level check *)
  Definition rfc_verify (msg : bytes) : bool :=
    match spec_read_cleartext msg with Some c => sig_ok (ct_text c) (ct_sig c) | None => false end.
  Theorem cs_sign_then_verify hname doc real_rest fake_rest sig M : ~ In LF hname -> ~ In CR hname ->
    detach_clearsign hname doc (armor_of real_rest) = Ok sig ->
    merge_clearsign hname doc (armor_of fake_rest) sig = Ok M ->
    sig_ok (enc_hashed doc) (split_lf sig) = true ->
    rfc_verify M = true.
  Proof.
    intros Hlf Hcr Hd Hm Hok. destruct (cs_roundtrip hname doc real_rest fake_rest sig M Hlf Hcr Hd Hm) as [_ [c [Hr [_ [_ [Ht [_ Hs]]]]]]].
    unfold rfc_verify. rewrite Hr, Ht, Hs. exact Hok.
  Qed.
End Verify.
