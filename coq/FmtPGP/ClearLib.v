(* FmtPGP/ClearLib.v — lemmas about lines (split_lf / join / rstrip / drop_cr) and the equivalence of the encoder's byte-level
   state machine (go-crypto dashEscaper, ClearModel.esc_out / esc_hash) with the line-level description of RFC 4880 7.1. *)
From Relic Require Import Base.Prelude Generated.FmtPGP_gen FmtPGP.ClearModel.

(* ------------------------------------------------------------------ split_lf *)
Lemma split_lf_nonempty l : split_lf l <> [].
Proof.
  destruct l as [|b r]; cbn [split_lf]; [discriminate|].
  destruct (split_lf r); [discriminate|]. destruct (b =? LF); discriminate.
Qed.
Lemma split_lf_cons_lf r : split_lf (LF :: r) = [] :: split_lf r.
Proof.
  cbn [split_lf]. pose proof (split_lf_nonempty r). destruct (split_lf r); [contradiction|].
  change (LF =? LF) with true. reflexivity.
Qed.
Lemma split_lf_cons_other b r : b <> LF ->
  split_lf (b :: r) = match split_lf r with cur :: rest => (b :: cur) :: rest | [] => [[]] end.
Proof.
  intros Hb. cbn [split_lf]. destruct (split_lf r); [reflexivity|].
  destruct (Z.eqb_spec b LF); [contradiction|reflexivity].
Qed.
Lemma split_lf_app_lf a b : ~ In LF a -> split_lf (a ++ LF :: b) = a :: split_lf b.
Proof.
  induction a as [|x a IH]; intros Hn.
  - cbn [app]. apply split_lf_cons_lf.
  - cbn [app]. rewrite split_lf_cons_other by (intros ->; apply Hn; left; reflexivity).
    rewrite IH by (intros H; apply Hn; right; exact H). reflexivity.
Qed.
Lemma split_lf_nolf a : ~ In LF a -> split_lf a = [a].
Proof.
  induction a as [|x a IH]; intros Hn; [reflexivity|].
  rewrite split_lf_cons_other by (intros ->; apply Hn; left; reflexivity).
  rewrite IH by (intros H; apply Hn; right; exact H). reflexivity.
Qed.
Lemma split_lf_pieces_nolf d : Forall (fun l => ~ In LF l) (split_lf d).
Proof.
  induction d as [|b r IH]; [constructor; [intros []|constructor]|].
  destruct (Z.eqb_spec b LF) as [->|Hb].
  - rewrite split_lf_cons_lf. constructor; [intros []|exact IH].
  - rewrite split_lf_cons_other by exact Hb. destruct (split_lf r) as [|cur rest]; [constructor; [intros []|constructor]|].
    inversion IH as [|? ? H1 H2]; subst. constructor; [|exact H2].
    intros [H|H]; [congruence|exact (H1 H)].
Qed.
(* lines, each followed by LF, then something else *)
Lemma split_lf_lines ls t : Forall (fun l => ~ In LF l) ls ->
  split_lf (concat (map (fun l => l ++ [LF]) ls) ++ t) = ls ++ split_lf t.
Proof.
  induction 1 as [|l ls Hl _ IH]; [reflexivity|].
  cbn [map concat app]. rewrite <- !app_assoc. cbn [app]. rewrite split_lf_app_lf by exact Hl. rewrite IH. reflexivity.
Qed.

(* ------------------------------------------------------------------ drop_last_empty, join *)
Lemma dle_cons_nonempty (l : bytes) r : l <> [] -> drop_last_empty (l :: r) = l :: drop_last_empty r.
Proof. intros Hl. cbn [drop_last_empty]. destruct r; [|reflexivity]. destruct l; [contradiction|reflexivity]. Qed.
Lemma dle_cons_more (l : bytes) r : r <> [] -> drop_last_empty (l :: r) = l :: drop_last_empty r.
Proof. intros Hr. cbn [drop_last_empty]. destruct r; [contradiction|reflexivity]. Qed.
Lemma dle_app a b : b <> [] -> drop_last_empty (a ++ b) = a ++ drop_last_empty b.
Proof.
  intros Hb. induction a as [|x a IH]; [reflexivity|].
  cbn [app]. rewrite dle_cons_more by (destruct a; [exact Hb|discriminate]). rewrite IH. reflexivity.
Qed.
Lemma dle_Forall (P : bytes -> Prop) ls : Forall P ls -> Forall P (drop_last_empty ls).
Proof.
  induction 1 as [|l r Hl Hr IH]; [constructor|].
  cbn [drop_last_empty]. destruct r; [destruct l; constructor; [exact Hl|constructor]|constructor; assumption].
Qed.
Lemma dle_split_cons_nonempty b r : drop_last_empty (split_lf (b :: r)) <> [].
Proof.
  pose proof (split_lf_nonempty r) as Hn.
  destruct (Z.eqb_spec b LF) as [->|Hb].
  - rewrite split_lf_cons_lf, dle_cons_more by exact Hn. discriminate.
  - rewrite split_lf_cons_other by exact Hb. destruct (split_lf r); [contradiction|].
    rewrite dle_cons_nonempty by discriminate. discriminate.
Qed.
Lemma join_cons sep x r : join sep (x :: r) = x ++ match r with [] => [] | _ => sep ++ join sep r end.
Proof. cbn [join]. destruct r; [symmetry; apply app_nil_r|reflexivity]. Qed.

(* ------------------------------------------------------------------ rstrip *)
Lemma rstrip_cons_nonblank b r : is_blank b = false -> rstrip (b :: r) = b :: rstrip r.
Proof. intros Hb. cbn [rstrip]. destruct (rstrip r); [rewrite Hb|]; reflexivity. Qed.
Lemma rstrip_cons_blank b r : is_blank b = true -> rstrip (b :: r) = match rstrip r with [] => [] | r' => b :: r' end.
Proof. intros Hb. cbn [rstrip]. destruct (rstrip r); [rewrite Hb|]; reflexivity. Qed.
Lemma rstrip_In x l : In x (rstrip l) -> In x l.
Proof.
  induction l as [|b r IH]; [intros []|].
  cbn [rstrip]. destruct (rstrip r) as [|y r'] eqn:E.
  - destruct (is_blank b); [intros []|]. intros [H|[]]. left. exact H.
  - intros [H|H]; [left; exact H|right; apply IH; exact H].
Qed.
Lemma rstrip_app_blank l b : is_blank b = true -> rstrip (l ++ [b]) = rstrip l.
Proof.
  intros Hb. induction l as [|x l IH].
  - cbn [app rstrip]. rewrite Hb. reflexivity.
  - cbn [app rstrip]. rewrite IH. reflexivity.
Qed.
Lemma rstrip_idem l : rstrip (rstrip l) = rstrip l.
Proof.
  induction l as [|b r IH]; [reflexivity|].
  cbn [rstrip]. destruct (rstrip r) as [|y r'] eqn:E.
  - destruct (is_blank b) eqn:Hb; [reflexivity|]. cbn [rstrip]. rewrite Hb. reflexivity.
  - change (rstrip (b :: y :: r')) with (match rstrip (y :: r') with [] => if is_blank b then [] else [b] | r'' => b :: r'' end).
    rewrite IH. reflexivity.
Qed.
(* a line without trailing blanks does not end in CR *)
Lemma drop_cr_stripped x : rstrip x = x -> drop_cr x = x.
Proof.
  induction x as [|b r IH]; [reflexivity|].
  intros H. cbn [drop_cr]. destruct r as [|c r'].
  - cbn [rstrip] in H. destruct (is_blank b) eqn:Hb; [discriminate H|].
    destruct (Z.eqb_spec b CR) as [->|]; [discriminate Hb|reflexivity].
  - f_equal. apply IH.
    change (rstrip (b :: c :: r')) with (match rstrip (c :: r') with [] => if is_blank b then [] else [b] | r'' => b :: r'' end) in H.
    destruct (rstrip (c :: r')) as [|z q].
    + destruct (is_blank b); discriminate H.
    + injection H as H1 H2. congruence.
Qed.
Lemma drop_cr_noCR l : ~ In CR l -> drop_cr l = l.
Proof.
  induction l as [|b r IH]; [reflexivity|]. intros Hn. cbn [drop_cr]. destruct r as [|c r'].
  - destruct (Z.eqb_spec b CR) as [->|]; [exfalso; apply Hn; left; reflexivity|reflexivity].
  - f_equal. apply IH. intros H. apply Hn. right. exact H.
Qed.

(* ------------------------------------------------------------------ esc_line *)
Lemma esc_line_nolf l : ~ In LF l -> ~ In LF (esc_line l).
Proof.
  intros Hn. unfold esc_line. destruct (rstrip l) as [|b r] eqn:E; [intros []|].
  assert (Hs : forall x, In x (b :: r) -> In x l) by (intros x Hx; apply rstrip_In; rewrite E; exact Hx).
  destruct (b =? 45).
  - intros [H|[H|H]]; [discriminate H|discriminate H|]. apply Hn. apply Hs. exact H.
  - intros H. apply Hn. apply Hs. exact H.
Qed.
Lemma esc_line_stripped l : rstrip (esc_line l) = esc_line l.
Proof.
  unfold esc_line. pose proof (rstrip_idem l) as Hi. destruct (rstrip l) as [|b r] eqn:E; [reflexivity|].
  destruct (b =? 45) eqn:Hb; [|exact Hi].
  apply Z.eqb_eq in Hb. subst b.
  rewrite (rstrip_cons_nonblank 45) by reflexivity.
  cbn [rstrip]. cbn [rstrip] in Hi. destruct (rstrip r) as [|z r''].
  - injection Hi as <-. reflexivity.
  - injection Hi as Hi. rewrite Hi. reflexivity.
Qed.
Lemma esc_line_undash l : rstrip (undash (esc_line l ++ [CR])) = rstrip l.
Proof.
  unfold esc_line. pose proof (rstrip_idem l) as Hi. destruct (rstrip l) as [|b r] eqn:E; [reflexivity|].
  destruct (b =? 45) eqn:Hb.
  - apply Z.eqb_eq in Hb. subst b. cbn [app undash].
    change (45 :: r ++ [CR]) with ((45 :: r) ++ [CR]). rewrite rstrip_app_blank by reflexivity. exact Hi.
  - assert (Hu : undash ((b :: r) ++ [CR]) = (b :: r) ++ [CR]).
    { cbn [app undash]. destruct b as [|p|p]; try reflexivity.
      do 6 (destruct p as [p|p|]; try reflexivity). discriminate Hb. }
    rewrite Hu, rstrip_app_blank by reflexivity. exact Hi.
Qed.
Lemma esc_line_not_marker l : bytes_eqb (esc_line l) spec_begin_sig = false.
Proof.
  unfold esc_line. destruct (rstrip l) as [|b r]; [reflexivity|].
  destruct (b =? 45) eqn:Hb; [reflexivity|].
  unfold bytes_eqb, spec_begin_sig. cbn [list_eqb]. rewrite Hb. reflexivity.
Qed.

(* ------------------------------------------------------------------ the encoder, line by line *)
Lemma esc_tests b : pgp_esc_is_ws b = is_blank b /\ pgp_esc_is_dash b = (b =? 45) /\ pgp_esc_is_lf b = (b =? LF).
Proof. repeat split. Qed.
Lemma esc_consts : pgp_esc_dash_escape = [45; 32] /\ pgp_esc_crlf = [CR; LF].
Proof. split; reflexivity. Qed.
Lemma Ews b : pgp_esc_is_ws b = is_blank b. Proof. reflexivity. Qed.
Lemma Edash b : pgp_esc_is_dash b = (b =? 45). Proof. reflexivity. Qed.
Lemma Elf b : pgp_esc_is_lf b = (b =? LF). Proof. reflexivity. Qed.
Lemma Ede : pgp_esc_dash_escape = [45; 32]. Proof. reflexivity. Qed.
Lemma Ecrlf : pgp_esc_crlf = [CR; LF]. Proof. reflexivity. Qed.

Definition body_of (ls : list bytes) : bytes := concat (map (fun l => esc_line l ++ [LF]) (drop_last_empty ls)).
Definition mid (ws cur : bytes) : bytes := match rstrip cur with [] => [] | s => ws ++ s end.
Definition tailh (rest : list bytes) : bytes :=
  match drop_last_empty rest with [] => [] | ls => [CR; LF] ++ join [CR; LF] (map rstrip ls) end.
Definition canon_of (ls : list bytes) : bytes := join [CR; LF] (map rstrip (drop_last_empty ls)).

Lemma blank_not_special b : is_blank b = true -> b <> LF /\ (b =? 45) = false.
Proof.
  unfold is_blank. intros H. split.
  - intros ->. discriminate H.
  - destruct (Z.eqb_spec b 45) as [->|]; [discriminate H|reflexivity].
Qed.
Lemma mid_blank ws b cur : is_blank b = true -> mid (ws ++ [b]) cur = mid ws (b :: cur).
Proof.
  intros Hb. unfold mid. rewrite rstrip_cons_blank by exact Hb.
  destruct (rstrip cur); [reflexivity|]. rewrite <- app_assoc. reflexivity.
Qed.
Lemma mid_nonblank ws b cur : is_blank b = false -> mid ws (b :: cur) = ws ++ b :: rstrip cur.
Proof. intros Hb. unfold mid. rewrite rstrip_cons_nonblank by exact Hb. reflexivity. Qed.
Lemma mid_nil_ws cur : mid [] cur = rstrip cur.
Proof. unfold mid. destruct (rstrip cur); reflexivity. Qed.
Lemma mid_nil ws : mid ws [] = [].
Proof. reflexivity. Qed.
Lemma body_of_cons l r : l <> [] \/ r <> [] -> body_of (l :: r) = esc_line l ++ [LF] ++ body_of r.
Proof.
  intros H. unfold body_of.
  assert (E : drop_last_empty (l :: r) = l :: drop_last_empty r) by (destruct H; [apply dle_cons_nonempty|apply dle_cons_more]; assumption).
  rewrite E. cbn [map concat]. rewrite <- app_assoc. reflexivity.
Qed.
Lemma esc_line_blank_first b cur : is_blank b = true -> esc_line (b :: cur) = mid [b] cur.
Proof.
  intros Hb. unfold esc_line, mid. rewrite rstrip_cons_blank by exact Hb.
  destruct (rstrip cur); [reflexivity|]. rewrite (proj2 (blank_not_special b Hb)). reflexivity.
Qed.

(* what the encoder writes: every line of the document without its trailing blanks, dash-escaped, followed by LF *)
Lemma esc_out_lines data :
  esc_out true [] data = body_of (split_lf data) /\
  (forall ws, esc_out false ws data =
     match split_lf data with cur :: rest => mid ws cur ++ [LF] ++ body_of rest | [] => [] end).
Proof.
  induction data as [|b r [IHb IHm]]; [split; [reflexivity|intros ws; reflexivity]|].
  pose proof (split_lf_nonempty r) as Hne.
  destruct (is_blank b) eqn:Hb.
  - (* whitespace: buffered *)
    destruct (blank_not_special b Hb) as [Hlf Hd].
    rewrite split_lf_cons_other by exact Hlf.
    split; [|intros ws]; cbn [esc_out]; rewrite Ews, Hb.
    + cbn [app]. rewrite IHm. destruct (split_lf r) as [|cur rest]; [contradiction|].
      rewrite body_of_cons by (left; discriminate). rewrite esc_line_blank_first by exact Hb. reflexivity.
    + rewrite IHm. destruct (split_lf r) as [|cur rest]; [contradiction|].
      rewrite mid_blank by exact Hb. reflexivity.
  - destruct (Z.eqb_spec b LF) as [->|Hlf].
    + (* line feed *)
      rewrite split_lf_cons_lf.
      split; [|intros ws]; cbn [esc_out]; rewrite Ews, Hb, Elf; change (LF =? LF) with true.
      * change (pgp_esc_is_dash LF) with false. cbv iota. rewrite IHb.
        rewrite body_of_cons by (right; exact Hne). reflexivity.
      * rewrite IHb. reflexivity.
    + rewrite split_lf_cons_other by exact Hlf.
      split; [|intros ws]; cbn [esc_out]; rewrite Ews, Hb, Elf, ?Edash; (destruct (Z.eqb_spec b LF) as [|_]; [contradiction|]).
      * destruct (b =? 45) eqn:Hd.
        -- rewrite Ede, IHm. destruct (split_lf r) as [|cur rest]; [contradiction|].
           rewrite body_of_cons by (left; discriminate). rewrite mid_nil_ws.
           unfold esc_line. rewrite rstrip_cons_nonblank by exact Hb. rewrite Hd. reflexivity.
        -- rewrite IHm. destruct (split_lf r) as [|cur rest]; [contradiction|].
           rewrite body_of_cons by (left; discriminate). rewrite mid_nil_ws.
           unfold esc_line. rewrite rstrip_cons_nonblank by exact Hb. rewrite Hd. reflexivity.
      * rewrite IHm. destruct (split_lf r) as [|cur rest]; [contradiction|].
        rewrite mid_nonblank by exact Hb. rewrite mid_nil_ws. rewrite <- !app_assoc. reflexivity.
Qed.

Lemma join_tailh x rest : join [CR; LF] (x :: map rstrip (drop_last_empty rest)) = x ++ tailh rest.
Proof. rewrite join_cons. unfold tailh. destruct (drop_last_empty rest); reflexivity. Qed.
Lemma esc_hash_not_first b r : esc_hash true false [] (b :: r) = pgp_esc_crlf ++ esc_hash true true [] (b :: r).
Proof. reflexivity. Qed.

(* what the encoder hashes: the lines without trailing blanks, joined with CR LF, nothing after the last one *)
Lemma esc_hash_lines data :
  esc_hash true true [] data = canon_of (split_lf data) /\
  esc_hash true false [] data = tailh (split_lf data) /\
  (forall ws, esc_hash false false ws data =
     match split_lf data with cur :: rest => mid ws cur ++ tailh rest | [] => [] end).
Proof.
  induction data as [|b r [IH1 [IH2 IHm]]]; [repeat split|].
  pose proof (split_lf_nonempty r) as Hne.
  assert (Hfirst : esc_hash true true [] (b :: r) = canon_of (split_lf (b :: r))).
  { destruct (is_blank b) eqn:Hb.
    - destruct (blank_not_special b Hb) as [Hlf Hd].
      rewrite split_lf_cons_other by exact Hlf. cbn [esc_hash andb negb app]. rewrite Ews, Hb. cbn [app].
      rewrite IHm. destruct (split_lf r) as [|cur rest]; [contradiction|].
      unfold canon_of. rewrite dle_cons_nonempty by discriminate. cbn [map]. rewrite join_tailh.
      f_equal. unfold mid. rewrite rstrip_cons_blank by exact Hb. destruct (rstrip cur); reflexivity.
    - destruct (Z.eqb_spec b LF) as [->|Hlf].
      + rewrite split_lf_cons_lf. cbn [esc_hash andb negb app]. rewrite Ews, Hb, Elf. change (LF =? LF) with true.
        change (pgp_esc_is_dash LF) with false. cbv iota. rewrite IH2.
        unfold canon_of. rewrite dle_cons_more by exact Hne. cbn [map]. rewrite join_tailh. reflexivity.
      + rewrite split_lf_cons_other by exact Hlf. cbn [esc_hash andb negb app]. rewrite Ews, Hb, Elf, Edash.
        destruct (Z.eqb_spec b LF) as [|_]; [contradiction|].
        assert (E : (if b =? 45 then b :: esc_hash false false [] r else b :: esc_hash false false [] r) = b :: esc_hash false false [] r)
          by (destruct (b =? 45); reflexivity).
        rewrite E, IHm. destruct (split_lf r) as [|cur rest]; [contradiction|].
        unfold canon_of. rewrite dle_cons_nonempty by discriminate. cbn [map]. rewrite join_tailh.
        rewrite rstrip_cons_nonblank by exact Hb. rewrite mid_nil_ws. reflexivity. }
  split; [exact Hfirst|]. split.
  - rewrite esc_hash_not_first, Hfirst, Ecrlf. unfold tailh, canon_of.
    pose proof (dle_split_cons_nonempty b r). destruct (drop_last_empty (split_lf (b :: r))); [contradiction|reflexivity].
  - intros ws. destruct (is_blank b) eqn:Hb.
    + destruct (blank_not_special b Hb) as [Hlf Hd].
      rewrite split_lf_cons_other by exact Hlf. cbn [esc_hash andb negb app]. rewrite Ews, Hb.
      rewrite IHm. destruct (split_lf r) as [|cur rest]; [contradiction|].
      rewrite mid_blank by exact Hb. reflexivity.
    + destruct (Z.eqb_spec b LF) as [->|Hlf].
      * rewrite split_lf_cons_lf. cbn [esc_hash andb negb app]. rewrite Ews, Hb, Elf. change (LF =? LF) with true. cbv iota.
        rewrite IH2. reflexivity.
      * rewrite split_lf_cons_other by exact Hlf. cbn [esc_hash andb negb app]. rewrite Ews, Hb, Elf.
        destruct (Z.eqb_spec b LF) as [|_]; [contradiction|].
        rewrite IHm. destruct (split_lf r) as [|cur rest]; [contradiction|].
        rewrite mid_nonblank by exact Hb. rewrite mid_nil_ws. rewrite <- !app_assoc. reflexivity.
Qed.

Theorem enc_hashed_eq_canon doc : enc_hashed doc = spec_canon doc.
Proof. exact (proj1 (esc_hash_lines doc)). Qed.
Theorem enc_body_eq_lines doc : enc_body doc = concat (map (fun l => esc_line l ++ [LF]) (doc_lines doc)).
Proof. exact (proj1 (esc_out_lines doc)). Qed.
