(* FmtPGP/Model.v — the OpenPGP packet framing relic writes itself (lib/pgptools/inline.go): the new-format packet header of
   serializeHeader and the literal data packet of serializeLiteral, which carries the payload of `relic sign --inline`.
   Octet expressions and thresholds are the generated definitions of Generated/FmtPGP_gen.v.  The SPEC side is the packet
   reader of RFC 4880 section 4.2 / 5.9, written from the RFC (it shares nothing with the encoder). *)
From Relic Require Import Base.Prelude Base.Enc Generated.FmtPGP_gen.

Definition E_TOOBIG := 1.

(* ---- relic: serializeHeader.  Every octet is stored into a [6]byte, i.e. truncated to 8 bits. *)
Definition pgp_hdr (ptype length : Z) : bytes :=
  wrap8 (pgp_tag_octet ptype) ::
  if pgp_len_one_octet length then [wrap8 (pgp_one_b1 length)]
  else if pgp_len_two_octet length then
    let l := if pgp_two_subtracts_192 then length - 192 else length in
    [wrap8 (pgp_two_b1 l); wrap8 (pgp_two_b2 l)]
  else [wrap8 (pgp_five_b1 length); wrap8 (pgp_five_b2 length); wrap8 (pgp_five_b3 length); wrap8 (pgp_five_b4 length); wrap8 (pgp_five_b5 length)].

(* ---- relic: serializeLiteral (binary mode, file name, zero timestamp, then size bytes of content) *)
Definition pgp_literal_body (name content : bytes) : bytes :=
  let name' := if pgp_name_too_long (zlen name) then (if pgp_name_cut_255 then ztake 255 name else name) else name in
  [98] ++ [wrap8 (zlen name')] ++ name' ++ [0; 0; 0; 0] ++ content.
Definition pgp_literal (name content : bytes) : result bytes :=
  let body := pgp_literal_body name content in
  if pgp_literal_too_big (zlen body) then Err E_TOOBIG
  else Ok (pgp_hdr (if pgp_literal_is_tag_11 then 11 else 0) (zlen body) ++ body).

(* ---- SPEC: RFC 4880 4.2: packet tag octet (bit 7 set; bit 6: new format, tag = low 6 bits), 4.2.2 new-format body lengths:
   first octet < 192: that is the length; 192..223: ((o1-192) << 8) + o2 + 192; 255: four-octet big-endian length;
   224..254: partial body length (a DIFFERENT meaning: a chunk of 2^(o1 & 0x1f) octets follows, then another length) *)
Inductive plen := Definite (n : Z) | Partial (chunk : Z).
Definition spec_new_len (l : bytes) : option (plen * bytes) :=
  match l with
  | o1 :: r =>
      if o1 <? 192 then Some (Definite o1, r)
      else if o1 <? 224 then match r with o2 :: r' => Some (Definite ((o1 - 192) * 256 + o2 + 192), r') | _ => None end
      else if o1 <? 255 then Some (Partial (2 ^ (o1 - 224)), r)
      else match r with a :: b :: c :: d :: r' => Some (Definite (((a * 256 + b) * 256 + c) * 256 + d), r') | _ => None end
  | [] => None
  end.
(* one new-format packet with a definite length: (tag, body, rest) *)
Definition spec_packet (l : bytes) : option (Z * bytes * bytes) :=
  match l with
  | t :: r =>
      if (t <? 192) || (255 <? t) then None            (* not a new-format tag octet *)
      else match spec_new_len r with
           | Some (Definite n, r') => if zlen r' <? n then None else Some (t - 192, ztake n r', zdrop n r')
           | _ => None
           end
  | [] => None
  end.
(* 5.9 literal data packet body: format octet, file name length + name, four-octet date, data *)
Definition spec_literal (body : bytes) : option (Z * bytes * bytes) :=
  match body with
  | fmt :: nl :: r => if zlen r <? nl + 4 then None else Some (fmt, ztake nl r, zdrop (nl + 4) r)
  | _ => None
  end.
(* what an OpenPGP reader gets out of relic's packet: Some (file name, content) *)
Definition spec_read_literal (l : bytes) : option (bytes * bytes * bytes) :=
  match spec_packet l with
  | Some (tag, body, rest) =>
      if tag =? 11 then match spec_literal body with Some (_, name, data) => Some (name, data, rest) | None => None end else None
  | None => None
  end.
