(* FmtPGP/Run.v — input [kind ...]:
   kind 0: header (a = ptype, b = length) -> [octets spec_len]
   kind 1: literal (a = name bytes, b = content bytes) -> [status packet spec_name spec_content spec_ok]
   kind 2: cleartext signature [2 hash_name doc real_armor fake_armor sig] ->
           [stream  detach_status detach_out  merge_status merge_out  hashed_text  canon_eq  read_ok]
           stream = what pgptools.ClearSign writes for (doc, real_armor); detach = DetachClearSign; merge = MergeClearSign of `sig`
           (status 0 = ok, 2 = token too long, 3 = no signature block, 77 = never returns);
           canon_eq: the encoder's hashed text equals the RFC canonical text of the document;
           read_ok: the RFC reader gets exactly (Hash header, canonical text, the lines of sig) out of the merged output
   kind 3: raw stream through headClearSign / tailClearSign [3 stream] -> [head_status head_out tail_status tail_out] *)
From Relic Require Import Base.Prelude Base.Enc Base.Val Generated.FmtPGP_gen FmtPGP.Model FmtPGP.ClearModel.
Definition res_status {A} (r : result A) : Z := match r with Ok _ => 0 | Err e => e | Panic _ => 77 end.
Definition res_bytes (r : result bytes) : bytes := match r with Ok b => b | _ => [] end.
Definition list_bytes_eqb (a b : list bytes) : bool := list_eqb bytes_eqb a b.
Definition run_clear (v : val) : val :=
  let hn := vb (vnth 1 v) in let doc := vb (vnth 2 v) in let arm := vb (vnth 3 v) in let fake := vb (vnth 4 v) in let sig := vb (vnth 5 v) in
  let d := detach_clearsign hn doc arm in
  let m := merge_clearsign hn doc fake sig in
  let hashed := enc_hashed doc in
  let read_ok := match m with
                 | Ok g => match spec_read_cleartext g with
                           | Some c => list_bytes_eqb (ct_headers c) [rstrip (hash_hdr ++ hn)] && bytes_eqb (ct_text c) hashed && list_bytes_eqb (ct_sig c) (split_lf sig)
                           | None => false
                           end
                 | _ => false
                 end in
  VL [VB (clearsign_stream hn doc arm); VZ (res_status d); VB (res_bytes d); VZ (res_status m); VB (res_bytes m); VB hashed;
      of_bool (bytes_eqb hashed (spec_canon doc)); of_bool read_ok].
Definition run_hooks (v : val) : val :=
  let s := vb (vnth 1 v) in
  let '(ho, hs) := head_clearsign s in
  let t := tail_clearsign s in
  VL [VZ hs; VB ho; VZ (res_status t); VB (res_bytes t)].
Definition run (v : val) : val :=
  let k := vz (vnth 0 v) in
  if k =? 0 then VL [VB (pgp_hdr (vz (vnth 1 v)) (vz (vnth 2 v)));
                     match spec_new_len (tl (pgp_hdr (vz (vnth 1 v)) (vz (vnth 2 v)))) with
                     | Some (Definite n, []) => VZ n | Some (Partial _, _) => VZ (-2) | _ => VZ (-1) end]
  else if k =? 2 then run_clear v
  else if k =? 3 then run_hooks v
  else match pgp_literal (vb (vnth 1 v)) (vb (vnth 2 v)) with
       | Ok g => match spec_read_literal g with
                 | Some (n, c, r) => VL [VZ 0; VB g; VB n; VB c; VZ (if zlen r =? 0 then 1 else 0)]
                 | None => VL [VZ 0; VB g; VB []; VB []; VZ 0]
                 end
       | Err e => VL [VZ e; VB []; VB []; VB []; VZ 0]
       | Panic p => VL [VZ 99; VB []; VB []; VB []; VZ 0]
       end.
