(* FmtPGP/Run.v — input [kind a b]: kind 0: header (a = ptype, b = length) -> [octets]; kind 1: literal (a = name bytes, b = content bytes)
   -> [status packet spec_name spec_content spec_ok] *)
From Relic Require Import Base.Prelude Base.Enc Base.Val Generated.FmtPGP_gen FmtPGP.Model.
Definition run (v : val) : val :=
  let k := vz (vnth 0 v) in
  if k =? 0 then VL [VB (pgp_hdr (vz (vnth 1 v)) (vz (vnth 2 v)));
                     match spec_new_len (tl (pgp_hdr (vz (vnth 1 v)) (vz (vnth 2 v)))) with
                     | Some (Definite n, []) => VZ n | Some (Partial _, _) => VZ (-2) | _ => VZ (-1) end]
  else match pgp_literal (vb (vnth 1 v)) (vb (vnth 2 v)) with
       | Ok g => match spec_read_literal g with
                 | Some (n, c, r) => VL [VZ 0; VB g; VB n; VB c; VZ (if zlen r =? 0 then 1 else 0)]
                 | None => VL [VZ 0; VB g; VB []; VB []; VZ 0]
                 end
       | Err e => VL [VZ e; VB []; VB []; VB []; VZ 0]
       | Panic p => VL [VZ 99; VB []; VB []; VB []; VZ 0]
       end.
