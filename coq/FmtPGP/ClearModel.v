(* FmtPGP/ClearModel.v — cleartext signatures (`relic sign -T pgp --clearsign`), lib/pgptools/clearsign.go.

   relic makes a cleartext signature in two halves.  Signing side (DetachClearSign): the OpenPGP library's cleartext encoder
   (go-crypto clearsign.Encode -> dashEscaper) runs over the document, its output goes through a pipe into tailClearSign, which
   splits it into LINES and keeps only the armored signature block.  Client side (MergeClearSign): the encoder runs again with a
   fake key over the local copy of the document, headClearSign splits that stream into LINES, re-emits every line up to the
   signature marker with CR LF, and the real signature block is appended.

   Modelled here, executable:
     * the encoder's byte-level state machine (dashEscaper.Write / Close): what it writes (dash-escaped text) and what it hashes;
       its decisions (whitespace set, dash test, LF test, escape prefix) are generated from the library source;
     * the two line readers the Go standard library offers and relic could use: bufio.Scanner with ScanLines (token limit, one
       trailing CR dropped, final unterminated line) and bufio.Reader.ReadLine with the isPrefix result discarded (fragments of the
       buffer size); which one is in use, with which limit, is a generated definition (pgp_cs_head_reader / pgp_cs_tail_reader);
     * headClearSign / tailClearSign as interpreters of the generated loop bodies (step lists, marker test, terminators written);
     * the pipe between encoder and reader: a reader that stops before the end of the stream leaves the encoder blocked for ever
       unless the goroutine closes the read side first (generated: pgp_cs_detach_closes_pipe / pgp_cs_merge_closes_pipe).
   SPEC side (written from RFC 4880 section 7 / 7.1 / 5.2.4, shares nothing with the above): spec_canon, the canonical text of a
   document that a text-mode signature covers, and spec_read_cleartext, a reader of the cleartext signature framework. *)
From Relic Require Import Base.Prelude Generated.FmtPGP_gen.

Definition LF : Z := 10.
Definition CR : Z := 13.
Definition E_TOOLONG : Z := 2.   (* bufio.Scanner: token too long *)
Definition E_NOSIG : Z := 3.     (* signature block not found *)
Definition P_HANG : Z := 3.      (* the call never returns (convention of C11: Panic P_HANG) *)

(* ------------------------------------------------------------------ lines *)
(* pieces between line feeds: k line feeds give k+1 pieces *)
Fixpoint split_lf (l : bytes) : list bytes :=
  match l with
  | [] => [[]]
  | b :: r => match split_lf r with
              | cur :: rest => if b =? LF then [] :: cur :: rest else (b :: cur) :: rest
              | [] => [[]]
              end
  end.
Fixpoint join (sep : bytes) (ls : list bytes) : bytes :=
  match ls with
  | [] => []
  | x :: r => match r with [] => x | _ => x ++ sep ++ join sep r end
  end.

(* ------------------------------------------------------------------ the encoder: go-crypto clearsign.dashEscaper
   state: atBeginningOfLine, isFirstLine, the buffered whitespace.  esc_out = what reaches `buffered` (Write for every byte of
   the document, then Close up to the armor), esc_hash = what reaches `toHash`. *)
Fixpoint esc_out (bol : bool) (ws : bytes) (data : bytes) : bytes :=
  match data with
  | [] => if bol then [] else [LF]                       (* Close: if !atBeginningOfLine { WriteByte(lf) } *)
  | b :: r =>
      if pgp_esc_is_ws b then esc_out false (ws ++ [b]) r
      else if bol then
        (if pgp_esc_is_dash b then pgp_esc_dash_escape ++ b :: esc_out false ws r
         else if pgp_esc_is_lf b then b :: esc_out true ws r
         else b :: esc_out false ws r)
      else
        (if pgp_esc_is_lf b then b :: esc_out true [] r
         else ws ++ b :: esc_out false [] r)
  end.
Fixpoint esc_hash (bol first : bool) (ws : bytes) (data : bytes) : bytes :=
  match data with
  | [] => []
  | b :: r =>
      let pre := if bol && negb first then pgp_esc_crlf else [] in
      let first' := if bol then false else first in
      pre ++
      (if pgp_esc_is_ws b then esc_hash false first' (ws ++ [b]) r
       else if bol then
         (if pgp_esc_is_dash b then b :: esc_hash false first' ws r
          else if pgp_esc_is_lf b then esc_hash true first' ws r
          else b :: esc_hash false first' ws r)
       else
         (if pgp_esc_is_lf b then esc_hash true first' [] r
          else ws ++ b :: esc_hash false first' [] r))
  end.
Definition enc_body (doc : bytes) : bytes := esc_out true [] doc.
Definition enc_hashed (doc : bytes) : bytes := esc_hash true true [] doc.

Definition hash_hdr : bytes := [72; 97; 115; 104; 58; 32].       (* "Hash: " *)
(* EncodeMulti: start[1:] LF "Hash: " name LF LF, then the body, then the armored signature written by armor.Encode *)
Definition enc_stream (hname doc armor : bytes) : bytes :=
  tl pgp_esc_start ++ [LF] ++ hash_hdr ++ hname ++ [LF] ++ [LF] ++ enc_body doc ++ armor.
(* pgptools.ClearSign: the encoder's output followed by crlf *)
Definition clearsign_stream (hname doc armor : bytes) : bytes :=
  enc_stream hname doc armor ++ (if pgp_cs_clearsign_writes_crlf then pgp_cs_crlf else []).

(* ------------------------------------------------------------------ line readers of the Go standard library *)
(* bufio.dropCR *)
Fixpoint drop_cr (l : bytes) : bytes :=
  match l with
  | [] => []
  | b :: r => match r with [] => if b =? CR then [] else [b] | _ => b :: drop_cr r end
  end.
(* bufio.Scanner.Scan: the buffer grows 4096, 8192, ... up to max_token bytes; when it is full, starts at the beginning of the
   line and holds no LF, the test `len(s.buf) >= s.maxTokenSize || ...` decides between growing and ErrTooLong.  A line of n
   bytes (LF not counted) fills a buffer of max bytes without showing its LF iff max <= n. *)
Definition scan_too_long (max n : Z) : bool := (max <=? n) && go_bufio_scan_full_is_error max max.
(* tokens returned before the scanner stops, and whether it stopped with ErrTooLong (otherwise: end of input) *)
Fixpoint scan_raw (max : Z) (raw : list bytes) : list bytes * bool :=
  match raw with
  | [] => ([], false)
  | l :: rest =>
      if scan_too_long max (zlen l) then ([], true)
      else match rest with
           | [] => (if zlen l =? 0 then [] else [drop_cr l], false)   (* at EOF a non-empty unterminated line is a token *)
           | _ => let '(t, e) := scan_raw max rest in (drop_cr l :: t, e)
           end
  end.
Definition scan_lines (max : Z) (data : bytes) : list bytes * bool := scan_raw max (split_lf data).

(* bufio.Reader.ReadLine with isPrefix thrown away: a line that does not fit the buffer comes back in pieces *)
Fixpoint span_lf (l : bytes) : bytes * option bytes :=
  match l with
  | [] => ([], None)
  | b :: r => if b =? LF then ([], Some r) else let '(c, m) := span_lf r in (b :: c, m)
  end.
Fixpoint readline_frags (fuel : nat) (bufsize : Z) (data : bytes) : list bytes :=
  match fuel with
  | O => []
  | S f =>
      match data with
      | [] => []
      | _ =>
          let '(cur, more) := span_lf data in
          if bufsize <=? zlen cur then
            (* ReadSlice: ErrBufferFull with bufsize bytes; a CR in the last position is put back *)
            let frag := ztake bufsize cur in
            let frag' := if last frag 0 =? CR then ztake (bufsize - 1) cur else frag in
            frag' :: readline_frags f bufsize (zdrop (zlen frag') data)
          else match more with
               | Some rest => drop_cr cur :: readline_frags f bufsize rest
               | None => [cur]
               end
      end
  end.
Definition read_lines (kind max bufsize : Z) (data : bytes) : list bytes * bool :=
  if kind =? 1 then scan_lines max data
  else (readline_frags (S (length data)) bufsize data, false).

(* ------------------------------------------------------------------ headClearSign *)
(* one iteration of the loop body for one line: (bytes written, left the function through the marker test) *)
Fixpoint head_body (steps : list Z) (line : bytes) : bytes * bool :=
  match steps with
  | [] => ([], false)
  | s :: r =>
      if s =? 1 then (if pgp_cs_head_is_sig line pgp_cs_sig_header then ([], true) else head_body r line)
      else let '(o, st) := head_body r line in
           ((if s =? 2 then line else if s =? 3 then pgp_cs_crlf else []) ++ o, st)
  end.
Fixpoint head_loop (toks : list bytes) : bytes * bool :=
  match toks with
  | [] => ([], false)
  | t :: r => let '(o, stop) := head_body pgp_cs_head_steps t in
              if stop then (o, true) else let '(o', f) := head_loop r in (o ++ o', f)
  end.
(* (bytes written to w, status: 0 = nil error) *)
Definition head_clearsign (stream : bytes) : bytes * Z :=
  let '(toks, err) := read_lines pgp_cs_head_reader pgp_cs_head_max_token pgp_cs_head_bufsize stream in
  let '(o, found) := head_loop toks in
  (o, if found then 0 else if err && pgp_cs_head_returns_scan_err then E_TOOLONG else E_NOSIG).
(* did the function read its input to the end?  after the marker it drains r; otherwise only a reader error stops it early *)
Definition head_reads_all (stream : bytes) : bool :=
  let '(toks, err) := read_lines pgp_cs_head_reader pgp_cs_head_max_token pgp_cs_head_bufsize stream in
  if snd (head_loop toks) then pgp_cs_head_drains else negb err.

(* ------------------------------------------------------------------ tailClearSign *)
Definition tail_emit (line : bytes) : bytes :=
  concat (map (fun w => if fst w =? 0 then line else snd w) pgp_cs_tail_writes).
Fixpoint tail_loop (copying : bool) (toks : list bytes) : bytes :=
  match toks with
  | [] => []
  | t :: r =>
      let c := existsb (Z.eqb 5) pgp_cs_tail_steps && pgp_cs_tail_copy_cond copying t pgp_cs_sig_header in
      (if c then tail_emit t else []) ++ tail_loop (if c && pgp_cs_tail_sets_copying then true else copying) r
  end.
Definition tail_clearsign (stream : bytes) : result bytes :=
  let '(toks, err) := read_lines pgp_cs_tail_reader pgp_cs_tail_max_token pgp_cs_tail_bufsize stream in
  if err && pgp_cs_tail_returns_scan_err then Err E_TOOLONG else Ok (tail_loop false toks).
Definition tail_reads_all (stream : bytes) : bool :=
  negb (snd (read_lines pgp_cs_tail_reader pgp_cs_tail_max_token pgp_cs_tail_bufsize stream)).

(* ------------------------------------------------------------------ the pipe: io.Pipe between ClearSign and the reading goroutine.
   The encoder always has bytes left to write after the cleartext (the armor, then crlf), every Write blocks until it is consumed,
   and the caller waits for the encoder before it collects the goroutine's result.  So if the reader returns before the end of the
   stream and does not close the read side, nothing ever returns. *)
Definition pipe_result {A} (closes reads_all : bool) (r : result A) : result A :=
  if reads_all || closes then r else Panic P_HANG.

Definition detach_clearsign (hname doc armor : bytes) : result bytes :=
  let s := clearsign_stream hname doc armor in
  pipe_result pgp_cs_detach_closes_pipe (tail_reads_all s) (tail_clearsign s).

(* fake_armor: the armor the encoder writes for the fake key; sig: the block obtained from the signing side *)
Definition merge_clearsign (hname doc fake_armor sig : bytes) : result bytes :=
  let s := clearsign_stream hname doc fake_armor in
  let '(o, st) := head_clearsign s in
  pipe_result pgp_cs_merge_closes_pipe (head_reads_all s)
    (if (st =? 0) || negb pgp_cs_merge_returns_head_err
     then Ok (o ++ (if existsb (Z.eqb 3) pgp_cs_merge_calls then sig else []))
     else Err st).

(* ------------------------------------------------------------------ SPEC: RFC 4880
   5.2.4 / 7.1: a text document is hashed with its line endings converted to <CR><LF>; for cleartext signatures trailing
   whitespace (space, tab) of every line is removed; the line ending before the signature armor is not part of the text.
   CR counts as trailing whitespace here because it belongs to a <CR><LF> line ending. *)
Definition is_blank (b : Z) : bool := ((b =? 32) || (b =? 9)) || (b =? 13).
Fixpoint rstrip (l : bytes) : bytes :=
  match l with
  | [] => []
  | b :: r => match rstrip r with
              | [] => if is_blank b then [] else [b]
              | r' => b :: r'
              end
  end.
(* the lines of a text: every LF ends a line; what follows the last LF is a line only if it is not empty *)
Fixpoint drop_last_empty (ls : list bytes) : list bytes :=
  match ls with
  | [] => []
  | l :: r => match r with [] => (match l with [] => [] | _ => [l] end) | _ => l :: drop_last_empty r end
  end.
Definition doc_lines (doc : bytes) : list bytes := drop_last_empty (split_lf doc).
Definition spec_canon (doc : bytes) : bytes := join [CR; LF] (map rstrip (doc_lines doc)).

(* 7: "-----BEGIN PGP SIGNED MESSAGE-----", one or more "Hash" armor headers, exactly one empty line, the dash-escaped cleartext,
   the armored signature.  7.1: a line starting with "- " has these two octets removed. *)
Definition spec_begin_msg : bytes :=
  [45; 45; 45; 45; 45; 66; 69; 71; 73; 78; 32; 80; 71; 80; 32; 83; 73; 71; 78; 69; 68; 32; 77; 69; 83; 83; 65; 71; 69; 45; 45; 45; 45; 45].
Definition spec_begin_sig : bytes :=
  [45; 45; 45; 45; 45; 66; 69; 71; 73; 78; 32; 80; 71; 80; 32; 83; 73; 71; 78; 65; 84; 85; 82; 69; 45; 45; 45; 45; 45].
Definition undash (l : bytes) : bytes :=
  match l with
  | 45 :: 32 :: r => r
  | _ => l
  end.
Fixpoint spec_headers (ls : list bytes) : option (list bytes * list bytes) :=
  match ls with
  | [] => None
  | l :: r => match rstrip l with
              | [] => Some ([], r)
              | h => match spec_headers r with Some (hs, b) => Some (h :: hs, b) | None => None end
              end
  end.
(* (cleartext lines, lines of the signature armor as found) *)
Fixpoint spec_body (ls : list bytes) : option (list bytes * list bytes) :=
  match ls with
  | [] => None
  | l :: r => if bytes_eqb (rstrip l) spec_begin_sig then Some ([], l :: r)
              else match spec_body r with Some (t, s) => Some (rstrip (undash l) :: t, s) | None => None end
  end.
Record cleartext := mkClear { ct_headers : list bytes; ct_lines : list bytes; ct_sig : list bytes }.
Definition ct_text (c : cleartext) : bytes := join [CR; LF] (ct_lines c).
Definition spec_read_cleartext (msg : bytes) : option cleartext :=
  match split_lf msg with
  | l0 :: r =>
      if bytes_eqb (rstrip l0) spec_begin_msg then
        match spec_headers r with
        | Some (hs, b) => match spec_body b with Some (t, s) => Some (mkClear hs t s) | None => None end
        | None => None
        end
      else None
  | [] => None
  end.

(* the text an escaped line stands for, and the escaped form of a line (used to state which documents are refused) *)
Definition esc_line (l : bytes) : bytes :=
  match rstrip l with
  | [] => []
  | b :: r => if b =? 45 then 45 :: 32 :: b :: r else b :: r
  end.
