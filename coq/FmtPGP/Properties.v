(* FmtPGP/Properties.v — OpenPGP packet framing written by relic's inline signer (lib/pgptools/inline.go). Statements only. *)
From Relic Require Import Base.Prelude Base.Enc Generated.FmtPGP_gen FmtPGP.Model.
From Relic Require FmtPGP.Proofs.

(* C05 / C01: for EVERY length a 32-bit length field can hold, the length octets serializeHeader writes are read back by an
   RFC 4880 reader as a DEFINITE length equal to that length (in particular never as a partial-body-length marker 224..254,
   which is what an off-by-one at the 191/192 or 8383/8384 boundary produces) *)
Theorem pgp_len_roundtrip : forall n t rest, 0 <= n < 4294967296 ->
  spec_new_len (tl (pgp_hdr t n) ++ rest) = Some (Definite n, rest).
Proof. exact FmtPGP.Proofs.len_roundtrip. Qed.
Theorem pgp_tag_roundtrip : forall t n, 0 <= t < 64 -> hd 0 (pgp_hdr t n) = 192 + t.
Proof. exact FmtPGP.Proofs.tag_roundtrip. Qed.
(* C03 / C05: a standard reader recovers exactly (file name cut to 255 octets, content) from the literal data packet that carries
   the payload of an inline-signed message, whatever follows the packet; relic refuses (Err) only above 4 GiB *)
Theorem pgp_literal_roundtrip : forall name content g rest, pgp_literal name content = Ok g ->
  spec_read_literal (g ++ rest) = Some (ztake 255 name, content, rest).
Proof. exact FmtPGP.Proofs.literal_roundtrip. Qed.

(* non-vacuity, at the boundaries *)
Example len_191 : tl (pgp_hdr 11 191) = [191]. Proof. reflexivity. Qed.
Example len_192 : tl (pgp_hdr 11 192) = [192; 0]. Proof. reflexivity. Qed.
Example len_8383 : tl (pgp_hdr 11 8383) = [223; 255]. Proof. reflexivity. Qed.
Example len_8384 : tl (pgp_hdr 11 8384) = [255; 0; 0; 32; 192]. Proof. reflexivity. Qed.
Example literal_small : pgp_literal [97] [1; 2; 3] = Ok [203; 10; 98; 1; 97; 0; 0; 0; 0; 1; 2; 3]. Proof. reflexivity. Qed.
