(* FmtPGP/Properties.v — OpenPGP packet framing written by relic's inline signer (lib/pgptools/inline.go). Statements only. *)
From Relic Require Import Base.Prelude Base.Enc Generated.FmtPGP_gen FmtPGP.Model.
From Relic Require FmtPGP.Proofs.

(* C05 / C01: for EVERY length a 32-bit length field can hold, the length octets serializeHeader writes are read back by an
   RFC 4880 reader as a DEFINITE length equal to that length (in particular never as a partial-body-length marker 224..254,
   which is what an off-by-one at the 191/192 or 8383/8384 boundary produces) *)
Theorem pgp_len_roundtrip : forall n t rest, 0 <= n < 4294967296 ->
  spec_new_len (tl (pgp_hdr t n) ++ rest) = Some (Definite n, rest).
Proof. exact FmtPGP.Proofs.len_roundtrip. Qed.
Theorem pgp_tag_roundtrip : forall t n, 0 <= t < 64 -> hd 0 (pgp_hdr t n) = 192 + t.
Proof. exact FmtPGP.Proofs.tag_roundtrip. Qed.
(* C03 / C05: a standard reader recovers exactly (file name cut to 255 octets, content) from the literal data packet that carries
   the payload of an inline-signed message, whatever follows the packet; relic refuses (Err) only above 4 GiB *)
Theorem pgp_literal_roundtrip : forall name content g rest, pgp_literal name content = Ok g ->
  spec_read_literal (g ++ rest) = Some (ztake 255 name, content, rest).
Proof. exact FmtPGP.Proofs.literal_roundtrip. Qed.

(* non-vacuity, at the boundaries *)
Example len_191 : tl (pgp_hdr 11 191) = [191]. Proof. reflexivity. Qed.
Example len_192 : tl (pgp_hdr 11 192) = [192; 0]. Proof. reflexivity. Qed.
Example len_8383 : tl (pgp_hdr 11 8383) = [223; 255]. Proof. reflexivity. Qed.
Example len_8384 : tl (pgp_hdr 11 8384) = [255; 0; 0; 32; 192]. Proof. reflexivity. Qed.
Example literal_small : pgp_literal [97] [1; 2; 3] = Ok [203; 10; 98; 1; 97; 0; 0; 0; 0; 1; 2; 3]. Proof. reflexivity. Qed.

(* ================================================================== cleartext signatures (lib/pgptools/clearsign.go) *)
From Relic Require Import FmtPGP.ClearModel.
From Relic Require FmtPGP.ClearLib FmtPGP.ClearProofs.
Import FmtPGP.ClearProofs.

(* C05: the text the OpenPGP encoder hashes for ANY document is the canonical text of RFC 4880 5.2.4 / 7.1 (lines cut at LF, trailing
   blanks and the CR of a CR LF ending removed, CR LF between lines, nothing after the last line) ... *)
Theorem pgp_cs_hashed_eq_spec : forall doc, enc_hashed doc = spec_canon doc.
Proof. exact FmtPGP.ClearLib.enc_hashed_eq_canon. Qed.
(* ... and the cleartext it writes is every line of the document without its trailing blanks, dash-escaped, followed by LF *)
Theorem pgp_cs_body_eq_spec : forall doc, enc_body doc = concat (map (fun l => esc_line l ++ [LF]) (doc_lines doc)).
Proof. exact FmtPGP.ClearLib.enc_body_eq_lines. Qed.

(* C01 / C05: for EVERY document (any number of lines, every line length) and every armor the library writes: whenever the signing
   side (DetachClearSign) and the client side (MergeClearSign) both succeed, an RFC 4880 section 7 reader takes relic's output apart
   into the Hash header, the lines of the document (none broken, merged or truncated), as text exactly what was hashed, and the
   signature block exactly as the signing side delivered it, which is the library's armor line by line *)
Theorem pgp_cs_roundtrip : forall hname doc real_rest fake_rest sig M, ~ In LF hname -> ~ In CR hname ->
  detach_clearsign hname doc (armor_of real_rest) = Ok sig ->
  merge_clearsign hname doc (armor_of fake_rest) sig = Ok M ->
  sig = block_of real_rest /\
  exists c, spec_read_cleartext M = Some c /\
            ct_headers c = [rstrip (hash_hdr ++ hname)] /\
            ct_lines c = map rstrip (doc_lines doc) /\
            ct_text c = enc_hashed doc /\ ct_text c = spec_canon doc /\
            ct_sig c = split_lf sig.
Proof. exact FmtPGP.ClearProofs.cs_roundtrip. Qed.
(* C01 / C05: hence the signature verifies for any verifier that follows the RFC (packet-level check symbolic) *)
Theorem pgp_cs_sign_then_verify : forall (sig_ok : bytes -> list bytes -> bool) hname doc real_rest fake_rest sig M,
  ~ In LF hname -> ~ In CR hname ->
  detach_clearsign hname doc (armor_of real_rest) = Ok sig ->
  merge_clearsign hname doc (armor_of fake_rest) sig = Ok M ->
  sig_ok (enc_hashed doc) (split_lf sig) = true ->
  rfc_verify sig_ok M = true.
Proof. exact FmtPGP.ClearProofs.cs_sign_then_verify. Qed.
(* C03: the payload view *)
Theorem pgp_cs_text_preserved : forall hname doc real_rest fake_rest sig M, ~ In LF hname -> ~ In CR hname ->
  detach_clearsign hname doc (armor_of real_rest) = Ok sig ->
  merge_clearsign hname doc (armor_of fake_rest) sig = Ok M ->
  exists c, spec_read_cleartext M = Some c /\ ct_lines c = map rstrip (doc_lines doc) /\ length (ct_lines c) = length (doc_lines doc).
Proof. exact FmtPGP.ClearProofs.cs_text_preserved. Qed.
(* C01 / C11: a document with an emitted line (trailing blanks removed, "- " added in front of a dash) as long as the token limit of
   the line reader -- the generated pgp_cs_tail_max_token / pgp_cs_head_max_token, today bufio.MaxScanTokenSize = 65536 on both
   sides -- is REFUSED with an error: by the signing side, and by the client side ... *)
Theorem pgp_cs_refuses_long_line : forall hname doc real_rest fake_rest sig, ~ In LF hname -> ~ In CR hname ->
  (Exists (fun l => pgp_cs_tail_max_token <= zlen (esc_line l)) (doc_lines doc) ->
   detach_clearsign hname doc (armor_of real_rest) = Err E_TOOLONG) /\
  (Exists (fun l => pgp_cs_head_max_token <= zlen (esc_line l)) (doc_lines doc) ->
   merge_clearsign hname doc (armor_of fake_rest) sig = Err E_TOOLONG).
Proof. exact FmtPGP.ClearProofs.cs_refuses_long_line. Qed.
(* ... and every other document is signed (the armor lines of the library are 64 characters, hash names a few) *)
Theorem pgp_cs_signs_short_lines : forall hname doc real_rest fake_rest, ~ In LF hname -> ~ In CR hname ->
  zlen hname + 6 < pgp_cs_tail_max_token -> zlen hname + 6 < pgp_cs_head_max_token ->
  Forall (line_fits pgp_cs_tail_max_token) (doc_lines doc) -> Forall (line_fits pgp_cs_head_max_token) (doc_lines doc) ->
  Forall (fun l => zlen l < pgp_cs_tail_max_token) (split_lf (real_rest ++ pgp_cs_crlf)) ->
  exists M, detach_clearsign hname doc (armor_of real_rest) = Ok (block_of real_rest) /\
            merge_clearsign hname doc (armor_of fake_rest) (block_of real_rest) = Ok M.
Proof. exact FmtPGP.ClearProofs.cs_signs_short_lines. Qed.
(* C11: neither call can block for ever, whatever the document and whatever the encoder writes *)
Theorem pgp_cs_no_hang : forall hname doc armor fake_armor sig,
  (forall p, detach_clearsign hname doc armor <> Panic p) /\ (forall p, merge_clearsign hname doc fake_armor sig <> Panic p).
Proof. exact FmtPGP.ClearProofs.cs_no_hang. Qed.

(* non-vacuity: a small document with a dash line, trailing blanks, CR LF, a lone CR and no final newline; both sides succeed *)
Definition ex_sha256 : bytes := [83; 72; 65; 50; 53; 54].
Definition ex_rest : bytes := [10; 65; 66; 67; 68; 10; 61; 69; 70; 71; 72; 10; 45; 45; 45; 45; 45; 69; 78; 68].
Definition ex_doc : bytes := [45; 97; 32; 10; 32; 32; 10; 98; 13; 99; 13; 10; 100].
Example cs_small_detach : detach_clearsign ex_sha256 ex_doc (armor_of ex_rest) = Ok (block_of ex_rest).
Proof. vm_compute. reflexivity. Qed.
Example cs_small_merge : exists M, merge_clearsign ex_sha256 ex_doc (armor_of ex_rest) (block_of ex_rest) = Ok M /\
  option_map ct_text (spec_read_cleartext M) = Some [45; 97; 13; 10; 13; 10; 98; 13; 99; 13; 10; 100].
Proof. eexists. split; vm_compute; reflexivity. Qed.
(* the limit (today 65536 on both sides): a line one byte below it is signed, a line of exactly that many bytes is refused *)
Definition ex_line (n : Z) : bytes := repeat 97 (Z.to_nat n).
Example cs_limit_below : let n := Z.min pgp_cs_tail_max_token pgp_cs_head_max_token - 1 in
  is_ok (detach_clearsign ex_sha256 (ex_line n) (armor_of ex_rest)) = true /\
  is_ok (merge_clearsign ex_sha256 (ex_line n) (armor_of ex_rest) (block_of ex_rest)) = true.
Proof. split; vm_compute; reflexivity. Qed.
Example cs_limit_at : detach_clearsign ex_sha256 (ex_line pgp_cs_tail_max_token) (armor_of ex_rest) = Err E_TOOLONG /\
                      merge_clearsign ex_sha256 (ex_line pgp_cs_head_max_token) (armor_of ex_rest) (block_of ex_rest) = Err E_TOOLONG.
Proof. split; vm_compute; reflexivity. Qed.
Example cs_limit_hyp : Exists (fun l => pgp_cs_tail_max_token <= zlen (esc_line l)) (doc_lines (ex_line pgp_cs_tail_max_token)).
Proof.
  assert (H : existsb (fun l => pgp_cs_tail_max_token <=? zlen (esc_line l)) (doc_lines (ex_line pgp_cs_tail_max_token)) = true) by (vm_compute; reflexivity).
  apply existsb_exists in H as [l [Hin Hl]]. apply Exists_exists. exists l. split; [exact Hin|lia].
Qed.
