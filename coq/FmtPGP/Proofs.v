From Relic Require Import Base.Prelude Base.Enc Generated.FmtPGP_gen FmtPGP.Model.

Lemma ztake_app_exact {A} (a b : list A) : ztake (zlen a) (a ++ b) = a.
Proof. unfold ztake, zlen. rewrite Nat2Z.id, firstn_app, Nat.sub_diag, firstn_all. cbn. apply app_nil_r. Qed.
Lemma zdrop_app_exact {A} (a b : list A) : zdrop (zlen a) (a ++ b) = b.
Proof. unfold zdrop, zlen. rewrite Nat2Z.id, skipn_app, Nat.sub_diag, skipn_all. reflexivity. Qed.
Lemma shiftr_div n k : 0 <= k -> Z.shiftr n k = n / 2 ^ k.
Proof. intros H. apply Z.shiftr_div_pow2. exact H. Qed.

(* the length octets decode to the length, for every length a 32-bit field can hold: never a partial-length marker *)
Theorem len_roundtrip n t rest : 0 <= n < 4294967296 ->
  spec_new_len (tl (pgp_hdr t n) ++ rest) = Some (Definite n, rest).
Proof.
  intros Hn. unfold pgp_hdr. cbn [tl].
  unfold pgp_len_one_octet, pgp_len_two_octet.
  destruct (n <? 192) eqn:E1.
  - cbn [app spec_new_len]. unfold pgp_one_b1, wrap8. rewrite !Z.mod_mod by lia. rewrite Z.mod_small by lia. rewrite E1. reflexivity.
  - destruct (n <? 8384) eqn:E2.
    + change pgp_two_subtracts_192 with true. cbv iota. cbn [app spec_new_len].
      unfold pgp_two_b1, pgp_two_b2, wrap8. rewrite shiftr_div by lia. change (2 ^ 8) with 256.
      set (l := n - 192). assert (Hl : 0 <= l < 8192) by lia.
      assert (Hq : 0 <= l / 256 < 32) by (split; [apply Z.div_pos; lia|apply Z.div_lt_upper_bound; lia]).
      rewrite (Z.mod_small (l / 256)) by lia. rewrite (Z.mod_small (192 + l / 256)) by lia. rewrite Z.mod_mod by lia.
      replace (192 + l / 256 <? 192) with false by lia. replace (192 + l / 256 <? 224) with true by lia.
      f_equal. f_equal. f_equal. pose proof (Z.div_mod l 256 ltac:(lia)). lia.
    + cbn [app spec_new_len]. unfold pgp_five_b1, pgp_five_b2, pgp_five_b3, pgp_five_b4, pgp_five_b5, wrap8.
      rewrite !shiftr_div by lia. change (2 ^ 24) with 16777216. change (2 ^ 16) with 65536. change (2 ^ 8) with 256.
      change (255 mod 256) with 255. cbv iota. change (255 <? 192) with false. change (255 <? 224) with false. change (255 <? 255) with false. cbv iota.
      rewrite !Z.mod_mod by lia. f_equal. f_equal. f_equal.
      pose proof (Z.div_mod n 256 ltac:(lia)). pose proof (Z.div_mod (n / 256) 256 ltac:(lia)). pose proof (Z.div_mod (n / 65536) 256 ltac:(lia)).
      assert (n / 65536 = n / 256 / 256) by (rewrite Z.div_div by lia; reflexivity).
      assert (n / 16777216 = n / 65536 / 256) by (rewrite Z.div_div by lia; reflexivity).
      assert (0 <= n / 16777216 < 256) by (split; [apply Z.div_pos; lia|apply Z.div_lt_upper_bound; lia]).
      rewrite (Z.mod_small (n / 16777216)) by lia. lia.
Qed.
Theorem tag_roundtrip t n : 0 <= t < 64 -> hd 0 (pgp_hdr t n) = 192 + t.
Proof.
  intros Ht. unfold pgp_hdr. cbn [hd]. unfold pgp_tag_octet, wrap8. rewrite (Z.mod_small t) by lia.
  change (Z.lor 128 64) with 192.
  assert (Z.lor 192 t = 192 + t) as ->.
  { assert (Hf : forall k, (k < 64)%nat -> Z.lor 192 (Z.of_nat k) = 192 + Z.of_nat k).
    { intros k Hk. do 64 (destruct k as [|k]; [reflexivity|]). lia. }
    specialize (Hf (Z.to_nat t)). rewrite Z2Nat.id in Hf by lia. apply Hf. lia. }
  apply Z.mod_small. lia.
Qed.

Lemma hdr_shape t n : exists o ls, pgp_hdr t n = o :: ls /\ o = hd 0 (pgp_hdr t n) /\ ls = tl (pgp_hdr t n).
Proof. unfold pgp_hdr. eexists. eexists. split; [reflexivity|]. split; reflexivity. Qed.

Lemma literal_form name content g : pgp_literal name content = Ok g ->
  g = pgp_hdr 11 (zlen (pgp_literal_body name content)) ++ pgp_literal_body name content /\ zlen (pgp_literal_body name content) <= 4294967295.
Proof.
  unfold pgp_literal. destruct (pgp_literal_too_big _) eqn:E.
  - intros H. inversion H.
  - intros H. split.
    + injection H as <-. reflexivity.
    + unfold pgp_literal_too_big in E. assert (Hc : Z.shiftl 2 31 - 1 = 4294967295) by reflexivity. rewrite Hc in E. lia.
Qed.
Lemma body_form name content : exists name', pgp_literal_body name content = [98] ++ [zlen name'] ++ name' ++ [0; 0; 0; 0] ++ content /\
  name' = ztake 255 name /\ 0 <= zlen name' <= 255.
Proof.
  unfold pgp_literal_body, pgp_name_too_long. change pgp_name_cut_255 with true.
  set (name' := if zlen name >? 255 then ztake 255 name else name). exists name'.
  assert (Hn : name' = ztake 255 name) by (unfold name'; destruct (zlen name >? 255) eqn:En; [reflexivity|symmetry; apply ztake_all; lia]).
  assert (Hln : 0 <= zlen name' <= 255).
  { rewrite Hn. pose proof (zlen_nonneg (ztake 255 name)). split; [lia|]. unfold zlen, ztake. rewrite firstn_length. lia. }
  split; [|split; assumption]. unfold wrap8. rewrite Z.mod_small by lia. reflexivity.
Qed.
(* a standard reader gets exactly (file name cut to 255 octets, content) out of relic's literal data packet *)
Theorem literal_roundtrip name content g rest : pgp_literal name content = Ok g ->
  spec_read_literal (g ++ rest) = Some (ztake 255 name, content, rest).
Proof.
  intros H. apply literal_form in H as [-> Hle].
  destruct (body_form name content) as [name' [Hbody [Hn Hln]]].
  remember (pgp_literal_body name content) as body eqn:Eb.
  pose proof (zlen_nonneg body) as Hb0.
  destruct (hdr_shape 11 (zlen body)) as [o [ls [Hs [Ho Hl]]]]. rewrite Hs. rewrite <- !app_assoc. cbn [app].
  unfold spec_read_literal, spec_packet. rewrite Ho, (tag_roundtrip 11 (zlen body)) by lia.
  change ((192 + 11 <? 192) || (255 <? 192 + 11)) with false. cbv iota.
  rewrite Hl, len_roundtrip by lia.
  rewrite zlen_app. replace (zlen body + zlen rest <? zlen body) with false by (pose proof (zlen_nonneg rest); lia).
  rewrite ztake_app_exact, zdrop_app_exact. change (192 + 11 - 192 =? 11) with true. cbv iota.
  assert (Hlit : spec_literal ([98] ++ [zlen name'] ++ name' ++ [0; 0; 0; 0] ++ content) = Some (98, name', content)).
  { cbn [app spec_literal]. set (r := name' ++ 0 :: 0 :: 0 :: 0 :: content).
    assert (Hr : zlen r = zlen name' + 4 + zlen content) by (unfold r; rewrite zlen_app, !zlen_cons; lia).
    replace (zlen r <? zlen name' + 4) with false by (pose proof (zlen_nonneg content); lia).
    f_equal. f_equal; [f_equal; unfold r; apply ztake_app_exact|].
    unfold r. replace (name' ++ 0 :: 0 :: 0 :: 0 :: content) with ((name' ++ [0; 0; 0; 0]) ++ content) by (rewrite <- app_assoc; reflexivity).
    replace (zlen name' + 4) with (zlen (name' ++ [0; 0; 0; 0])) by (rewrite zlen_app; reflexivity).
    apply zdrop_app_exact. }
  rewrite Hbody, Hlit, Hn. reflexivity.
Qed.
