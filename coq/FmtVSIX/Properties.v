(* FmtVSIX/Properties.v — Visual Studio extension packages / OPC digital signatures (signers/vsix). Statements only; proofs are in
   FmtVSIX/Proofs*.v.  Model and specification side: FmtVSIX/Model.v.  A package is the list of its ZIP members (name, content).
   Symbolic, as section variables with explicit hypotheses: the digests H / sha1, base64, the XML readers ct_read / rels_read of Go's
   encoding/xml (their writers ct_marshal / rels_marshal are byte-exact models), XML-DSig signing and verification of the package Object
   (xsign / xvrfy over tbs, ser / deser of the signature part: unit C19), the certificate parser cert_key, the token check ts_ok.
   Classes used below: fname_ok f — no "/" in calcFileName's result (it is base32); chain_ok — that for every certificate of the chain;
   name_ok n — every segment of n is ordinary (not empty, not "." or "..") and n has no "?" (true of every OPC part name);
   ct_ok t — the segments of a content type after the first are ordinary; conventional sp — the signature parts named by the package's
   relationships live below /package/services/digital-signature/ under lower-case part names. *)
From Relic Require Import Base.Prelude FmtVSIX.Lib Generated.FmtVSIX_gen FmtVSIX.Model.
From Relic Require Import FmtVSIX.ProofsA FmtVSIX.ProofsB FmtVSIX.ProofsC FmtVSIX.ProofsD FmtVSIX.ProofsE FmtVSIX.ProofsF FmtVSIX.ProofsG.
From Relic Require Generated.C19_gen C19.Model.

(* ================================================================== C11: no index / slice out of range, for all inputs *)
(* the generated panic conditions of every translated decision (ContentTypes.Find's ext[0] / ext[1:], makeSignature's, checkManifest's p[:i], ...)
   are unsatisfiable: a removed guard changes the generated condition and this statement with it *)
Theorem vsix_decisions_no_panic : forall ovr ext n,
  vsix_keep_file_panics n = false /\ vsix_mangle_keeps_panics n = false /\ vsix_mangle_parses_panics n = false /\
  vsix_ct_find_panics ovr ext n = false /\ vsix_ref_uri_panics ovr ext n = false /\ vsix_ref_path_panics n = false /\
  vsix_rel_path_panics n = false /\ vsix_newrels_name_panics n = false /\ vsix_cert_rels_name_panics n = false /\
  vsix_rels_find_path_panics n = false /\ vsix_rels_target_panics n = false /\ vsix_rs_cert_path_panics n = false /\
  vsix_sig_name_panics n = false /\ vsix_cert_path_panics n = false /\ vsix_rs_top_panics = false.
Proof. exact decisions_no_panic. Qed.
(* the verifier returns an error or a verdict for EVERY package, whatever the XML readers, the XML-DSig layer, the certificate parser and the token
   check answer *)
Theorem vsix_verify_no_panic : forall H b64d rels_read pubk sigv pubk_eqb xvrfy tbs deser cert_key ts_ok pk p,
  verify H b64d rels_read pubk sigv pubk_eqb xvrfy tbs deser cert_key ts_ok pk <> Panic p.
Proof. intros. apply verify_no_panic. Qed.
(* signing: the only way not to return is an endless run of relationship Id collisions while writing the detached-certificates relationships *)
Theorem vsix_sign_no_panic : forall H sha1 b64 ct_read key pubk sigv pub xsign tbs ser o sg pk p,
  sign H sha1 b64 ct_read key pubk sigv pub xsign tbs ser o sg pk = Panic p -> p = P_HANG /\ so_detach sigv o = true.
Proof. intros until p. apply sign_no_panic. Qed.

(* ================================================================== C03 / C08: which members are kept *)
(* for EVERY member name keepFile removes exactly: "_rels/", "[Content_Types].xml", names whose last segment ends in .rels / .psdsxs / .psdor, and
   names below package/services/digital-signature/ — stated without path.Ext *)
Theorem vsix_keepfile_eq_conventional : forall n, vsix_keep_file n = negb (conv_sig_related n).
Proof. exact keepfile_eq_conventional. Qed.
(* against the specification's classification (content types stream, signature-related parts found through relationships, package relationships,
   part relationships, payload parts, ZIP items that are no parts): on the standard domain — lower-case part names that are no relationships parts and
   look like signature infrastructure only if the relationships say so — a member is kept (hence digested and referenced) exactly when the
   specification calls it a payload part *)
Theorem vsix_part_classification_eq_spec : forall sp n, conventional sp -> std_name sp n = true -> (vsix_keep_file n = true <-> spec_class sp n = C_PART).
Proof. exact classification_eq_spec. Qed.
(* C08: every part the package's relationships make signature related (conventional layout) is removed by signing *)
Theorem vsix_sig_related_is_dropped : forall sp n, conventional sp -> exact_sig sp n = true -> vsix_keep_file n = false.
Proof. exact sig_related_is_dropped. Qed.
(* ... and outside that domain, one witness per class of difference (all replayed on the real code):
   relationships that are payload are dropped (recorded as C03:spec:vsix:payload-changed@relationships) *)
Theorem vsix_rels_dropped_refuted : exists n1 n2, spec_class sp_none n1 = C_RELS /\ vsix_keep_file n1 = false /\ spec_class sp_none n2 = C_ROOT_RELS /\ vsix_keep_file n2 = false.
Proof. exact rels_dropped_refuted. Qed.
Theorem vsix_rels_lost_refuted : exists g, wsign (w_o false None) w_sg pk_rels = Ok g /\ files_get g N_ROOT = Some (rels_marshal w_rl1) /\ length w_rl1 = 1%nat /\ files_get pk_rels N_ROOT = Some [82].
Proof. exact rels_lost_refuted. Qed.
(* payload parts that use the extensions or the folder reserved for signature infrastructure are dropped *)
Theorem vsix_sig_extension_payload_dropped_refuted : exists n1 n2, spec_class sp_none n1 = C_PART /\ vsix_keep_file n1 = false /\ spec_class sp_none n2 = C_PART /\ vsix_keep_file n2 = false.
Proof. exact sig_extension_payload_dropped_refuted. Qed.
(* a ZIP item that is no part (a directory entry) is kept, digested, and referenced by the manifest under a URI that is no part name *)
Theorem vsix_directory_entry_signed_refuted : exists n, spec_class sp_none n = C_NOT_A_PART /\ vsix_keep_file n = true /\
  forall ovr ext, exists t, vsix_ref_uri ovr ext n = [47] ++ n ++ [63; 67; 111; 110; 116; 101; 110; 116; 84; 121; 112; 101; 61] ++ t.
Proof. exact directory_entry_signed_refuted. Qed.
(* names that are equivalent (ASCII case ignored) to the content types stream or the package relationships part are kept as payload *)
Theorem vsix_case_variant_kept_refuted : spec_class sp_none n_ct_lower = C_CT_STREAM /\ vsix_keep_file n_ct_lower = true /\
  spec_class sp_none n_rels_upper = C_ROOT_RELS /\ vsix_keep_file n_rels_upper = true.
Proof. exact case_variant_kept_refuted. Qed.
(* a signature part in another tool's layout is kept as payload *)
Theorem vsix_foreign_layout_kept_refuted : spec_class sp_office n_office_sig = C_SIG /\ vsix_keep_file n_office_sig = true.
Proof. exact foreign_layout_kept_refuted. Qed.

(* C03 / C08: the members keepFile keeps come through byte-identical and in order; everything else in the output is one of the new parts, none of which
   a later signing keeps *)
Theorem vsix_payload_kept : forall H sha1 b64 ct_read key pubk sigv pub xsign tbs ser o sg pk g, chain_ok key sg ->
  sign H sha1 b64 ct_read key pubk sigv pub xsign tbs ser o sg pk = Ok g ->
  filter keepf g = filter keepf pk /\ exists added, g = filter keepf pk ++ added /\ Forall (fun m : member => vsix_keep_file (fst m) = false) added.
Proof. intros until g. apply payload_kept. Qed.
Theorem vsix_new_parts_not_kept : forall f, fname_ok f ->
  vsix_keep_file (vsix_newrels_name []) = false /\ vsix_keep_file (vsix_newrels_name vsix_origin_path) = false /\ vsix_keep_file vsix_origin_name = false /\
  vsix_keep_file (vsix_sig_name f) = false /\ vsix_keep_file (vsix_cert_path f) = false /\ vsix_keep_file (vsix_cert_rels_name (vsix_sig_name f)) = false /\
  vsix_keep_file vsix_newct_name = false.
Proof. exact new_names_not_kept. Qed.

(* ================================================================== C03 / C05: the regenerated content types stream *)
(* it is the last member: the package's declarations (later duplicates winning) with relic's own extensions set, Defaults and Overrides sorted; a reader
   that follows ECMA-376 Part 2 10.1.2.4 finds a type for every name relic found one for ... *)
Theorem vsix_content_types_wellformed : forall H sha1 b64 ct_read key pubk sigv pub xsign tbs ser o sg pk g, chain_ok key sg ->
  sign H sha1 b64 ct_read key pubk sigv pub xsign tbs ser o sg pk = Ok g ->
  exists ct, ct_scan ct_read pk ct_empty = Some ct /\
    files_get g vsix_newct_name = Some (ct_marshal (ct_doc_of (new_ctypes ct (so_detach sigv o)))) /\
    (forall n, last_segment n <> [] -> vsix_ct_find (ct_ovr ct) (ct_ext ct) n <> [] -> exists t, spec_ct_of (ct_doc_of (new_ctypes ct (so_detach sigv o))) n = Some t).
Proof.
  intros until g. intros Hc Hs. destruct (output_content_types _ _ _ _ _ _ _ _ _ _ _ _ _ _ _ Hc Hs) as [ct [A B]].
  exists ct. split; [exact A|]. split; [exact B|]. intros n Hn Hf. apply ct_find_implies_spec; assumption.
Qed.
(* ... and gives the new parts their specified types, unless the package declares a case variant of one of relic's extensions or an Override for them *)
Theorem vsix_new_parts_types : forall ct hc f, fname_ok f -> no_variant ct ->
  (forall n, find (fun o => ieq (fst o) (SLASH :: n)) (sorted_entries (ct_ovr ct)) = None) ->
  spec_ct_of (ct_doc_of (new_ctypes ct hc)) N_ROOT = Some (aget vsix_content_types [114; 101; 108; 115]) /\
  spec_ct_of (ct_doc_of (new_ctypes ct hc)) N_OREL = Some (aget vsix_content_types [114; 101; 108; 115]) /\
  spec_ct_of (ct_doc_of (new_ctypes ct hc)) N_ORIG = Some (aget vsix_content_types [112; 115; 100; 111; 114]) /\
  spec_ct_of (ct_doc_of (new_ctypes ct hc)) (vsix_sig_name f) = Some (aget vsix_content_types [112; 115; 100; 115; 120; 115]).
Proof. exact new_parts_types. Qed.
(* newCtypes overwrites what the package declared for relic's extensions: with detached certificates a payload certificate's declared type changes, and
   its Reference, written before, names the old one *)
Theorem vsix_content_type_redeclared_refuted :
  chosen_type (ct_ovr ct_cer) (ct_ext ct_cer) n_cer = [120; 47; 99] /\ spec_ct_of w_ct_cer n_cer = Some [120; 47; 99] /\
  spec_ct_of (ct_doc_of (new_ctypes ct_cer true)) n_cer = Some (aget vsix_content_types [99; 101; 114]) /\ aget vsix_content_types [99; 101; 114] <> [120; 47; 99].
Proof. exact content_type_redeclared_refuted. Qed.

(* ================================================================== C01 / C05: the manifest *)
(* the package Object makeSignature builds is read back by checkManifest's Unmarshal as exactly the (URI, DigestMethod, DigestValue) triples written *)
Theorem vsix_manifest_roundtrip : forall refs alg time,
  manifest_refs (package_object refs alg time) = map (fun r => mkRef (fst r) (hash_uri_of alg) (snd r)) refs.
Proof. exact manifest_roundtrip. Qed.
(* every Reference of the manifest is (part name "?ContentType=" the chosen type, base64 of the digest of the bytes the OUTPUT package holds under that name),
   for a kept member or one of the three new signed parts (package relationships, origin relationships, origin) *)
Theorem vsix_reference_is_part_digest : forall H sha1 b64 ct_read key pubk sigv pub xsign tbs ser o sg pk g, chain_ok key sg ->
  sign H sha1 b64 ct_read key pubk sigv pub xsign tbs ser o sg pk = Ok g ->
  exists refs ct,
    ct_scan ct_read pk ct_empty = Some ct /\
    files_get g (vsix_sig_name (sg_fname key sg)) = Some (ser (make_sigdoc key pubk sigv pub xsign tbs o sg (package_object refs (so_alg sigv o) (so_time sigv o)))) /\
    forall r, In r (manifest_refs (package_object refs (so_alg sigv o) (so_time sigv o))) ->
      exists n c, mr_uri r = uri_of (ct_ovr ct) (ct_ext ct) n /\ files_get g n = Some c /\ mr_dv r = b64 (H (so_alg sigv o) c) /\
                  mr_alg r = hash_uri_of (so_alg sigv o) /\ signed_name g n.
Proof. intros until g. apply reference_is_part_digest. Qed.
(* C05: on names and tables in one letter case (no Override with an empty type, the extension not one relic redeclares) the type written into the URI is the
   type a reader that follows 10.1.2.4 finds for that part in the regenerated content types stream ... *)
Theorem vsix_reference_type_eq_spec : forall ct hc n, lower_table (ct_ovr ct) -> lower_table (ct_ext ct) -> has_upper n = false -> last_segment n <> [] ->
  vsix_ct_find (ct_ovr ct) (ct_ext ct) n <> [] ->
  (aget (ct_ovr ct) (SLASH :: n) = [] -> ahas (ct_ovr ct) (SLASH :: n) = false) ->
  (forall e, path_ext (path_base n) = DOT :: e -> ~ In e (akeys vsix_content_types)) ->
  spec_ct_of (ct_doc_of (new_ctypes ct hc)) n = Some (chosen_type (ct_ovr ct) (ct_ext ct) n) /\ chosen_type (ct_ovr ct) (ct_ext ct) n = vsix_ct_find (ct_ovr ct) (ct_ext ct) n.
Proof. exact reference_type_eq_spec. Qed.
(* ... in general it is not (extensions and Override names match case-insensitively in the specification, case-sensitively in relic): *)
Theorem vsix_reference_type_case_refuted : exists g, wsign (w_o false None) w_sg pk_case = Ok g /\
  chosen_type (ct_ovr ct0) (ct_ext ct0) n_TXT = vsix_default_content_type /\
  spec_ct_of (ct_doc_of (new_ctypes ct0 false)) n_TXT = Some [116; 47; 112] /\ spec_ct_of w_ct1 n_TXT = Some [116; 47; 112].
Proof. exact reference_type_case_refuted. Qed.
(* checkManifest resolves the URI of a Reference back to the member it was written for: for part names and ordinary content types *)
Theorem vsix_reference_resolves_to_part : forall ovr ext n, name_ok n -> Forall ct_ok (map snd ovr) -> Forall ct_ok (map snd ext) ->
  vsix_ref_uri ovr ext n = uri_of ovr ext n /\ vsix_ref_path (vsix_ref_uri ovr ext n) = n.
Proof.
  intros ovr ext n Hn Ho He. split; [apply ref_uri_form|]. rewrite ref_uri_form. apply ref_path_of_uri; [exact Hn|apply chosen_type_ok; assumption].
Qed.
(* relationship targets are resolved from the package root whatever the source part: a relative target resolves elsewhere than the specification says *)
Theorem vsix_relative_target_refuted : exists t, vsix_rels_find_path t <> spec_resolve vsix_origin_path t /\ spec_resolve vsix_origin_path t = vsix_sig_name [102].
Proof. exact relative_target_refuted. Qed.

(* ================================================================== C01: sign then verify *)
Theorem vsix_sign_then_verify : forall H sha1 b64 b64d ct_read rels_read key pubk sigv pub pubk_eqb xsign xvrfy tbs ser deser cert_key ts_ok,
  (forall l, rels_read (rels_marshal l) = Some l) -> (forall sd, deser (ser sd) = Some sd) -> (forall k m, xvrfy (pub k) m (xsign k m) = true) ->
  (forall x, b64d (b64 x) = Some x) -> (forall p, pubk_eqb p p = true) ->
  forall o sg pk g,
  so_detach sigv o = false -> chain_ok key sg ->
  (match so_tsa sigv o with Some f => forall sv, ts_ok (f sv) sv = true | None => True end) ->
  (exists d, In d (map snd (sg_chain key sg)) /\ cert_key d = Some (pub (sg_key key sg))) ->
  (forall m, In m pk -> vsix_keep_file (fst m) = true -> name_ok (fst m)) ->
  (forall ct, ct_scan ct_read pk ct_empty = Some ct -> Forall ct_ok (map snd (ct_ovr ct)) /\ Forall ct_ok (map snd (ct_ext ct))) ->
  sign H sha1 b64 ct_read key pubk sigv pub xsign tbs ser o sg pk = Ok g ->
  verify H b64d rels_read pubk sigv pubk_eqb xvrfy tbs deser cert_key ts_ok g = Ok (mkV pubk (pub (sg_key key sg)) (so_alg sigv o) (is_some (so_tsa sigv o))).
Proof. exact sign_then_verify. Qed.
(* the name hypothesis is needed: a Reference URI never resolves to a name with "?", so such a member is signed and then not found *)
Theorem vsix_sign_then_verify_name_refuted :
  (exists n, vsix_keep_file n = true /\ forall ovr ext, vsix_ref_path (vsix_ref_uri ovr ext n) <> n) /\
  wsign (w_o false None) w_sg pk_q = Ok g_q /\ wverify (sd_of (refs_of g_q ct0) None) (fun _ _ => true) g_q = Err E_REF_MISSING.
Proof. split; [exact name_refuted|exact sign_then_verify_name_refuted]. Qed.
(* the token hypothesis is needed (recorded as C10:sign:vsix:unverifiable-timestamp-attached): signing attaches whatever the authority returned *)
Theorem vsix_timestamp_unverified_refuted : exists tsa, wsign (w_o false (Some tsa)) w_sg pk0 = Ok g0 /\
  wverify (sd_of (refs_of g0 ct0) (Some tsa)) (fun _ _ => false) g0 = Err E_TIMESTAMP.
Proof. exact timestamp_unverified_refuted. Qed.
(* refusals: an unreadable content types stream, a digest XML-DSig has no name for; nothing else *)
Theorem vsix_sign_refuses_clean : forall H sha1 b64 ct_read key pubk sigv pub xsign tbs ser o sg pk e,
  sign H sha1 b64 ct_read key pubk sigv pub xsign tbs ser o sg pk = Err e -> e = E_CT_PARSE \/ e = E_HASH.
Proof. intros until e. apply sign_refuses_clean. Qed.

(* ================================================================== C02: what an accepted signature covers *)
(* every kept member and each of the three new signed parts has exactly one Reference (names sorted, no name twice), carrying the digest of the bytes the
   output holds under that name *)
Theorem vsix_manifest_covers_all_signed_parts : forall H sha1 b64 ct_read key pubk sigv pub xsign tbs ser o sg pk g, chain_ok key sg ->
  sign H sha1 b64 ct_read key pubk sigv pub xsign tbs ser o sg pk = Ok g ->
  exists refs ct NS,
    ct_scan ct_read pk ct_empty = Some ct /\
    files_get g (vsix_sig_name (sg_fname key sg)) = Some (ser (make_sigdoc key pubk sigv pub xsign tbs o sg (package_object refs (so_alg sigv o) (so_time sigv o)))) /\
    NoDup NS /\ Sorted.Sorted leb_prop NS /\ map mr_uri (manifest_refs (package_object refs (so_alg sigv o) (so_time sigv o))) = map (uri_of (ct_ovr ct) (ct_ext ct)) NS /\
    forall n, signed_name g n ->
      In n NS /\ exists c, files_get g n = Some c /\
        In (mkRef (uri_of (ct_ovr ct) (ct_ext ct) n) (hash_uri_of (so_alg sigv o)) (b64 (H (so_alg sigv o) c))) (manifest_refs (package_object refs (so_alg sigv o) (so_time sigv o))).
Proof. intros until g. apply manifest_covers_all_signed_parts. Qed.
(* two packages accepted with the same signature part agree on every part a Reference of its manifest resolves to, and have it (digest collision-free as a premise) *)
Theorem vsix_protect : forall H b64d rels_read pubk sigv pubk_eqb xvrfy tbs deser cert_key ts_ok g1 g2 v1 v2 sigblob c1 c2 sd,
  (forall a x y, H a x = H a y -> x = y) ->
  verify H b64d rels_read pubk sigv pubk_eqb xvrfy tbs deser cert_key ts_ok g1 = Ok v1 ->
  verify H b64d rels_read pubk sigv pubk_eqb xvrfy tbs deser cert_key ts_ok g2 = Ok v2 ->
  read_signature rels_read pubk cert_key g1 = Ok (sigblob, c1) -> read_signature rels_read pubk cert_key g2 = Ok (sigblob, c2) -> deser sigblob = Some sd ->
  forall r, In r (manifest_refs (sd_obj pubk sigv sd)) ->
    files_get g1 (vsix_ref_path (mr_uri r)) = files_get g2 (vsix_ref_path (mr_uri r)) /\ files_get g1 (vsix_ref_path (mr_uri r)) <> None.
Proof. intros until sd. apply protect. Qed.
(* what is NOT bound.  Members no Reference covers (recorded as C02:spec:vsix:unlisted-member) ... *)
Theorem vsix_unlisted_member_refuted : exists extra, extra <> [] /\ wverify (sd_of (refs_of g0 ct0) None) (fun _ _ => true) (g0 ++ extra) = Ok (mkV Z 5 5 false).
Proof. exact unlisted_member_refuted. Qed.
(* ... the content types stream (replaced or removed: every part's declared type changes; the ContentType written into the URIs is not compared) ... *)
Theorem vsix_content_types_unbound_refuted :
  wverify (sd_of (refs_of g0 ct0) None) (fun _ _ => true) (filter (fun m => negb (bytes_eqb (fst m) CT)) g0 ++ [(CT, [66])]) = Ok (mkV Z 5 5 false) /\
  wverify (sd_of (refs_of g0 ct0) None) (fun _ _ => true) (filter (fun m => negb (bytes_eqb (fst m) CT)) g0) = Ok (mkV Z 5 5 false).
Proof. exact content_types_unbound_refuted. Qed.
(* ... an earlier member with the name of a signed part (only the last member of a name is looked at) ... *)
Theorem vsix_shadowed_duplicate_refuted : wverify (sd_of (refs_of g0 ct0) None) (fun _ _ => true) ((n_txt, [6; 6; 6]) :: g0) = Ok (mkV Z 5 5 false).
Proof. exact shadowed_duplicate_refuted. Qed.
(* ... and the Transforms of a Reference are not looked at (a Reference that declares the relationships transform is digested as the raw part) *)
Theorem vsix_transforms_ignored_refuted : forall uri hu dv ts,
  mref_of (Relic.C19.Model.el [82; 101; 102; 101; 114; 101; 110; 99; 101] [Relic.C19.Model.mkattr [] Relic.C19.Model.s_URI uri]
             [Relic.C19.Model.el [84; 114; 97; 110; 115; 102; 111; 114; 109; 115] [] ts;
              Relic.C19.Model.alg_el [68; 105; 103; 101; 115; 116; 77; 101; 116; 104; 111; 100] hu;
              Relic.C19.Model.el [68; 105; 103; 101; 115; 116; 86; 97; 108; 117; 101] [] [Relic.C19.Model.CharData dv]])
  = mref_of (Relic.C19.Model.vsix_reference uri hu dv).
Proof. exact transforms_ignored_refuted. Qed.

(* ================================================================== C08: re-signing *)
(* the digest table does not depend on an existing signature *)
Theorem vsix_digest_ignores_signature : forall H sha1 b64 ct_read key pubk sigv pub xsign tbs ser o sg pk g alg st st', chain_ok key sg ->
  sign H sha1 b64 ct_read key pubk sigv pub xsign tbs ser o sg pk = Ok g ->
  mangle H ct_read alg pk (mkM [] [] ct_empty) = Ok st -> mangle H ct_read alg g (mkM [] [] ct_empty) = Ok st' ->
  m_kept st' = m_kept st /\ m_dig st' = m_dig st.
Proof. intros until st'. apply digest_ignores_signature. Qed.
(* signing a signed package: the kept members are the original's; every other member of the result is a new part of the second signing (the first signing's
   origin, relationships, signature, certificates and content types stream are gone); the result verifies under the second key and digest; it is signed *)
Theorem vsix_resign : forall H sha1 b64 b64d ct_read rels_read key pubk sigv pub pubk_eqb xsign xvrfy tbs ser deser cert_key ts_ok,
  (forall l, rels_read (rels_marshal l) = Some l) -> (forall sd, deser (ser sd) = Some sd) -> (forall k m, xvrfy (pub k) m (xsign k m) = true) ->
  (forall x, b64d (b64 x) = Some x) -> (forall p, pubk_eqb p p = true) ->
  forall o1 sg1 o2 sg2 pk g1 g2,
  chain_ok key sg1 -> chain_ok key sg2 -> so_detach sigv o2 = false ->
  (match so_tsa sigv o2 with Some f => forall sv, ts_ok (f sv) sv = true | None => True end) ->
  (exists d, In d (map snd (sg_chain key sg2)) /\ cert_key d = Some (pub (sg_key key sg2))) ->
  (forall m, In m pk -> vsix_keep_file (fst m) = true -> name_ok (fst m)) ->
  (forall ct, ct_scan ct_read g1 ct_empty = Some ct -> Forall ct_ok (map snd (ct_ovr ct)) /\ Forall ct_ok (map snd (ct_ext ct))) ->
  sign H sha1 b64 ct_read key pubk sigv pub xsign tbs ser o1 sg1 pk = Ok g1 -> sign H sha1 b64 ct_read key pubk sigv pub xsign tbs ser o2 sg2 g1 = Ok g2 ->
  filter keepf g2 = filter keepf pk /\
  (exists added, g2 = filter keepf pk ++ added /\ Forall (fun m : member => vsix_keep_file (fst m) = false) added) /\
  verify H b64d rels_read pubk sigv pubk_eqb xvrfy tbs deser cert_key ts_ok g2 = Ok (mkV pubk (pub (sg_key key sg2)) (so_alg sigv o2) (is_some (so_tsa sigv o2))) /\
  is_signed rels_read pubk cert_key g2 = true.
Proof. exact resign. Qed.
(* the is-signed probe: false (NotSignedError) without package relationships or without an origin relationship in them *)
Theorem vsix_is_signed_spec : forall H b64d rels_read pubk sigv pubk_eqb xvrfy tbs deser cert_key ts_ok pk,
  (files_get pk N_ROOT = None \/ exists c l, files_get pk N_ROOT = Some c /\ rels_read c = Some l /\ Forall (fun r => r_type r <> vsix_sig_origin_type) l) ->
  is_signed rels_read pubk cert_key pk = false /\ verify H b64d rels_read pubk sigv pubk_eqb xvrfy tbs deser cert_key ts_ok pk = Err E_NOT_SIGNED.
Proof.
  intros until pk. intros [Hn|[c [l [Hn [Hr Hl]]]]]; [apply not_signed_without_root_rels; exact Hn|eapply not_signed_without_origin; eassumption].
Qed.

(* ================================================================== the hypotheses are satisfiable; regressions *)
(* a concrete package signs and verifies under oracles consistent with what sign wrote; a changed part, a removed part, an appended duplicate are rejected *)
Example vsix_baseline : wsign (w_o false None) w_sg pk0 = Ok g0 /\ manifest_refs (sd_obj Z bytes (sd_of (refs_of g0 ct0) None)) <> [] /\
  length (refs_of g0 ct0) = 4%nat /\ wverify (sd_of (refs_of g0 ct0) None) (fun _ _ => true) g0 = Ok (mkV Z 5 5 false).
Proof. exact w_baseline. Qed.
Example vsix_tamper_examples :
  wverify (sd_of (refs_of g0 ct0) None) (fun _ _ => true) (map (fun m => if bytes_eqb (fst m) n_txt then (fst m, [8]) else m) g0) = Err E_MISMATCH /\
  wverify (sd_of (refs_of g0 ct0) None) (fun _ _ => true) (filter (fun m => negb (bytes_eqb (fst m) n_txt)) g0) = Err E_REF_MISSING /\
  wverify (sd_of (refs_of g0 ct0) None) (fun _ _ => true) (g0 ++ [(n_txt, [8])]) = Err E_MISMATCH.
Proof. exact tamper_examples. Qed.
(* detached certificates: eight members, the verifier finds the certificate through the signature part's relationships; signing again with embedded
   certificates leaves six members and the same kept ones *)
Example vsix_detached_example : wsign (w_o true None) w_sg pk0 = Ok g0d /\ length g0d = 8%nat /\
  verify wH (fun x => Some x) wrels_d Z bytes Z.eqb (fun p m s => bytes_eqb s (p :: m)) (fun a _ => [a]) (fun c => if bytes_eqb c [7] then Some sd_d else None)
         (fun d => if bytes_eqb d [48; 1] then Some 5 else None) (fun _ _ => true) g0d = Ok (mkV Z 5 5 false) /\
  sd_x509 Z bytes sd_d = [] /\
  filter keepf (unwrap (wsign (w_o false None) w_sg g0d)) = filter keepf pk0 /\ length (unwrap (wsign (w_o false None) w_sg g0d)) = 6%nat.
Proof. exact detached_example. Qed.
Example vsix_refusal_example : wsign (w_o false None) w_sg [(CT, [3]); (n_txt, [9])] = Err E_CT_PARSE.
Proof. exact refusal_example. Qed.
Example name_ok_inhabited : name_ok [108; 105; 98; 47; 116; 111; 111; 108; 46; 100; 108; 108] /\ ct_ok [116; 101; 120; 116; 47; 112; 108; 97; 105; 110; 59; 32; 99; 104; 97; 114; 115; 101; 116; 61; 117; 116; 102; 45; 56].
Proof. split; [split; [split; [discriminate|vm_compute; repeat constructor]|reflexivity]|vm_compute; repeat constructor]. Qed.
Example conventional_inhabited : conventional (mkSP [vsix_origin_path] [vsix_sig_name [102]] []) /\ std_name (mkSP [vsix_origin_path] [vsix_sig_name [102]] []) [108; 105; 98; 47; 116; 111; 111; 108; 46; 100; 108; 108] = true.
Proof. split; [repeat constructor|vm_compute; reflexivity]. Qed.
(* the regression of 1ce9395 / 71ceea3 (a member without extension): no index out of range, the default type *)
Example vsix_no_extension_regression : vsix_ref_uri [] [] [76; 73; 67; 69; 78; 83; 69] = [47; 76; 73; 67; 69; 78; 83; 69] ++ Q_CT ++ vsix_default_content_type /\ vsix_ref_uri_panics [] [] [76; 73; 67; 69; 78; 83; 69] = false.
Proof. split; vm_compute; reflexivity. Qed.
