(* FmtVSIX/ProofsE.v — re-signing, totality, and the witnesses: concrete packages on which the faithful model departs from the
   full statements (each is replayed on the real code by the harness). *)
From Relic Require Import Base.Prelude FmtVSIX.Lib Generated.FmtVSIX_gen FmtVSIX.Model FmtVSIX.ProofsA FmtVSIX.ProofsB FmtVSIX.ProofsC FmtVSIX.ProofsD.
From Relic Require Generated.C19_gen C19.Model.

(* ================================================================== a Reference URI never resolves to a name with "?" *)
Lemma has_byte_ztake c n s : has_byte c s = false -> has_byte c (ztake n s) = false.
Proof.
  unfold ztake. generalize (Z.to_nat n). intros k. revert s. induction k as [|k IH]; intros s Hs; [reflexivity|]. destruct s as [|x s]; [reflexivity|].
  cbn [firstn]. unfold has_byte in *. cbn [existsb] in *. apply orb_false_iff in Hs as [H1 H2]. rewrite H1. cbn [orb]. apply IH. exact H2.
Qed.
Lemma index_byte_prefix_clean s c : 0 <= index_byte s c -> has_byte c (ztake (index_byte s c) s) = false.
Proof.
  induction s as [|x s IH]; intros Hi; [reflexivity|]. cbn [index_byte] in *. destruct (x =? c) eqn:E; [reflexivity|].
  destruct (index_byte s c <? 0) eqn:En; [lia|]. assert (0 <= index_byte s c) by lia.
  unfold ztake. replace (Z.to_nat (index_byte s c + 1)) with (S (Z.to_nat (index_byte s c))) by lia. cbn [firstn]. unfold has_byte. cbn [existsb]. rewrite E. cbn [orb].
  apply IH. assumption.
Qed.
Lemma ref_path_no_question u : has_byte 63 (vsix_ref_path u) = false.
Proof.
  unfold vsix_ref_path. cbv zeta. set (p := path_join _). destruct (index_byte p 63 >=? 0) eqn:E.
  - unfold zslice. rewrite zdrop_0. replace (index_byte p 63 - 0) with (index_byte p 63) by lia. apply index_byte_prefix_clean. lia.
  - apply Bool.not_true_is_false. intros Hb. unfold has_byte in Hb. apply existsb_exists in Hb as [x [Hin Hx]]. apply Z.eqb_eq in Hx. subst x.
    apply in_split in Hin as [a [b ->]].
    assert (Hidx : 0 <= index_byte (a ++ 63 :: b) 63).
    { clear. induction a as [|y a IH]; cbn [app index_byte]; [rewrite Z.eqb_refl; lia|]. destruct (y =? 63); [lia|]. destruct (index_byte (a ++ 63 :: b) 63 <? 0) eqn:En; lia. }
    lia.
Qed.
(* C01: a member whose name contains "?" is kept, digested and referenced, but its Reference can never resolve to it *)
Lemma name_refuted : exists n, vsix_keep_file n = true /\ forall ovr ext, vsix_ref_path (vsix_ref_uri ovr ext n) <> n.
Proof.
  exists [119; 63; 46; 116; 120; 116]. split; [vm_compute; reflexivity|]. intros ovr ext E.
  pose proof (ref_path_no_question (vsix_ref_uri ovr ext [119; 63; 46; 116; 120; 116])) as Hq. rewrite E in Hq. vm_compute in Hq. discriminate.
Qed.

Lemma rels_append_nil_eq sha1 c t :
  rels_append sha1 [] c t = Ok [mkRel (vsix_rels_target c) (subst_s [82; 37; 115] (hex_upper (ztake vsix_rels_id_bytes (sha1 (c ++ t))))) (vsix_rels_type t)].
Proof. reflexivity. Qed.

Section Resign.
  Variable H : Z -> bytes -> bytes.
  Variable sha1 : bytes -> bytes.
  Variable b64 : bytes -> bytes.
  Variable b64d : bytes -> option bytes.
  Variable ct_read : bytes -> option ctdoc.
  Variable rels_read : bytes -> option (list rel).
  Variables key pubk sigv : Type.
  Variable pub : key -> pubk.
  Variable pubk_eqb : pubk -> pubk -> bool.
  Variable xsign : key -> bytes -> sigv.
  Variable xvrfy : pubk -> bytes -> sigv -> bool.
  Variable tbs : Z -> node -> bytes.
  Variable ser : sigdoc pubk sigv -> bytes.
  Variable deser : bytes -> option (sigdoc pubk sigv).
  Variable cert_key : bytes -> option pubk.
  Variable ts_ok : bytes -> sigv -> bool.
  Notation sign := (sign H sha1 b64 ct_read key pubk sigv pub xsign tbs ser).
  Notation verify := (verify H b64d rels_read pubk sigv pubk_eqb xvrfy tbs deser cert_key ts_ok).
  Notation mangle := (mangle H ct_read).
  Hypothesis rels_roundtrip : forall l, rels_read (rels_marshal l) = Some l.
  Hypothesis deser_ser : forall sd, deser (ser sd) = Some sd.
  Hypothesis sign_correct : forall k m, xvrfy (pub k) m (xsign k m) = true.
  Hypothesis b64_roundtrip : forall x, b64d (b64 x) = Some x.
  Hypothesis pubk_eqb_refl : forall p, pubk_eqb p p = true.

  (* C08: the digests signing computes do not depend on an existing signature: the kept members and their digest table are the same for a package and
     for any signed version of it *)
  Lemma digest_ignores_signature o sg pk g alg st st' : chain_ok key sg -> sign o sg pk = Ok g ->
    mangle alg pk (mkM [] [] ct_empty) = Ok st -> mangle alg g (mkM [] [] ct_empty) = Ok st' ->
    m_kept st' = m_kept st /\ m_dig st' = m_dig st.
  Proof.
    intros Hc Hs M1 M2. destruct (payload_kept _ _ _ _ _ _ _ _ _ _ _ _ _ _ _ Hc Hs) as [Hf _].
    destruct (mangle_spec _ _ _ _ _ _ M1) as [K1 [D1 _]]. destruct (mangle_spec _ _ _ _ _ _ M2) as [K2 [D2 _]].
    cbn [m_kept m_dig app] in *. rewrite K1, K2, D1, D2, Hf. split; reflexivity.
  Qed.

  (* C08: signing a signed package: the members keepFile keeps are those of the original, in order; every other member of the result is one of the
     second signing's new parts (the first signing's origin, relationships, signature, certificate parts and content types stream are gone); and the
     result verifies under the second key and digest *)
  Theorem resign o1 sg1 o2 sg2 pk g1 g2 :
    chain_ok key sg1 -> chain_ok key sg2 -> so_detach sigv o2 = false ->
    (match so_tsa sigv o2 with Some f => forall sv, ts_ok (f sv) sv = true | None => True end) ->
    (exists d, In d (map snd (sg_chain key sg2)) /\ cert_key d = Some (pub (sg_key key sg2))) ->
    (forall m, In m pk -> vsix_keep_file (fst m) = true -> name_ok (fst m)) ->
    (forall ct, ct_scan ct_read g1 ct_empty = Some ct -> Forall ct_ok (map snd (ct_ovr ct)) /\ Forall ct_ok (map snd (ct_ext ct))) ->
    sign o1 sg1 pk = Ok g1 -> sign o2 sg2 g1 = Ok g2 ->
    filter keepf g2 = filter keepf pk /\
    (exists added, g2 = filter keepf pk ++ added /\ Forall (fun m : member => vsix_keep_file (fst m) = false) added) /\
    verify g2 = Ok (mkV pubk (pub (sg_key key sg2)) (so_alg sigv o2) (is_some (so_tsa sigv o2))) /\
    is_signed rels_read pubk cert_key g2 = true.
  Proof.
    intros Hc1 Hc2 Hd Hts Hleaf Hnames Htypes S1 S2.
    destruct (payload_kept _ _ _ _ _ _ _ _ _ _ _ _ _ _ _ Hc1 S1) as [F1 _].
    destruct (payload_kept _ _ _ _ _ _ _ _ _ _ _ _ _ _ _ Hc2 S2) as [F2 [added [G2 A2]]].
    rewrite F1 in F2, G2. split; [exact F2|]. split; [exists added; split; assumption|]. split.
    - apply (sign_then_verify H sha1 b64 b64d ct_read rels_read key pubk sigv pub pubk_eqb xsign xvrfy tbs ser deser cert_key ts_ok
               rels_roundtrip deser_ser sign_correct b64_roundtrip pubk_eqb_refl o2 sg2 g1 g2 Hd Hc2 Hts Hleaf); [|exact Htypes|exact S2].
      intros m Hm Hk. apply Hnames; [|exact Hk].
      assert (Hm' : In m (filter keepf g1)) by (apply filter_In; split; [exact Hm|exact Hk]). rewrite F1 in Hm'. apply filter_In in Hm'. tauto.
    - apply (is_signed_of_signed H sha1 b64 b64d ct_read rels_read key pubk sigv pub xsign xvrfy tbs ser cert_key ts_ok rels_roundtrip sign_correct b64_roundtrip o2 sg2 g1 g2 Hd Hc2 S2).
  Qed.

  (* C01: the only refusals: an unreadable content types stream, a digest XML-DSig has no name for; nothing has been written then *)
  Lemma sign_refuses_clean o sg pk e : sign o sg pk = Err e -> e = E_CT_PARSE \/ e = E_HASH.
  Proof.
    unfold Model.sign. rewrite shapes_hold. cbn [negb].
    destruct (mangle (so_alg sigv o) pk (mkM [] [] ct_empty)) as [st| |] eqn:Em; cbn [bind].
    - unfold new_rels. rewrite !rels_append_nil_eq. cbn [bind]. unfold add_file. cbn [fst snd bind].
      destruct (if vsix_sign_adds_certs (so_detach sigv o) then _ else _) as [certs| |] eqn:Ec; cbn [bind].
      + destruct (bytes_eqb (hash_uri_of (so_alg sigv o)) []); [intros E; injection E as <-; right; reflexivity|].
        unfold make_refs. rewrite existsb_all_false by (intros x; apply ref_uri_no_panic). cbn [bind]. discriminate.
      + destruct (vsix_sign_adds_certs (so_detach sigv o)); [|discriminate]. unfold add_certs in Ec.
        assert (forall ch l e', cert_rels sha1 ch l <> Err e').
        { induction ch as [|[fn d] ch IH]; intros l e'; [discriminate|]. cbn [cert_rels]. unfold rels_append.
          destruct (id_loop sha1 _ _ l) as [i| |] eqn:Ei; cbn [bind]; [apply IH| |discriminate].
          exfalso. revert Ei. generalize (vsix_cert_path fn ++ vsix_cert_rel_type). generalize (S (length l) * 4)%nat. intros n. induction n as [|n IHn]; intros pre; [discriminate|].
          cbn [id_loop]. destruct (existsb _ l); [apply IHn|discriminate]. }
        destruct (cert_rels sha1 (sg_chain key sg) []) eqn:Ecr; cbn [bind] in Ec; try discriminate. exfalso. exact (H0 _ _ _ Ecr).
      + discriminate.
    - intros E. injection E as <-. left.
      revert Em. generalize (mkM [] [] ct_empty). induction pk as [|[n c] pk IH]; intros st; [discriminate|]. cbn [Model.mangle].
      change (vsix_mangle_keeps_panics n) with false. cbv iota. destruct (vsix_mangle_keeps n); [apply IH|]. destruct (vsix_mangle_parses n); [|apply IH].
      destruct (ct_read c); [apply IH|]. intros E. injection E as <-. reflexivity.
    - discriminate.
  Qed.

  (* C11: no index / slice out of range anywhere: sign can only fail to return if relationship Ids keep colliding (detached certificates only) *)
  Lemma sign_no_panic o sg pk p : sign o sg pk = Panic p -> p = P_HANG /\ so_detach sigv o = true.
  Proof.
    unfold Model.sign. rewrite shapes_hold. cbn [negb].
    destruct (mangle (so_alg sigv o) pk (mkM [] [] ct_empty)) as [st| |] eqn:Em; cbn [bind]; [|discriminate|exfalso; exact (mangle_no_panic _ _ _ _ _ _ Em)].
    unfold new_rels. rewrite !rels_append_nil_eq. cbn [bind]. unfold add_file. cbn [fst snd bind].
    change (vsix_sign_adds_certs (so_detach sigv o)) with (so_detach sigv o).
    destruct (so_detach sigv o) eqn:Ed.
    - destruct (add_certs sha1 key sg _) as [certs| |] eqn:Ec; cbn [bind].
      + destruct (bytes_eqb _ []); [discriminate|]. unfold make_refs. rewrite existsb_all_false by (intros x; apply ref_uri_no_panic). cbn [bind]. discriminate.
      + discriminate.
      + intros E. injection E as <-. split; [|reflexivity].
        unfold add_certs in Ec.
        assert (forall ch l q, cert_rels sha1 ch l = Panic q -> q = P_HANG).
        { induction ch as [|[fn d] ch IH]; intros l q; [discriminate|]. cbn [cert_rels]. unfold rels_append.
          destruct (id_loop sha1 _ _ l) as [i| |] eqn:Ei; cbn [bind]; [apply IH|discriminate|].
          intros E. injection E as <-. revert Ei. generalize (vsix_cert_path fn ++ vsix_cert_rel_type). generalize (S (length l) * 4)%nat. intros n. induction n as [|n IHn]; intros pre.
          - cbn. intros E. injection E as <-. reflexivity.
          - cbn [id_loop]. destruct (existsb _ l); [apply IHn|discriminate]. }
        destruct (cert_rels sha1 (sg_chain key sg) []) eqn:Ecr; cbn [bind] in Ec; try discriminate. injection Ec as <-. exact (H0 _ _ _ Ecr).
    - cbn [bind]. destruct (bytes_eqb _ []); [discriminate|]. unfold make_refs. rewrite existsb_all_false by (intros x; apply ref_uri_no_panic). cbn [bind]. discriminate.
  Qed.
  Lemma cert_loop_no_panic pk l : forall p, Model.cert_loop pubk cert_key pk l <> Panic p.
  Proof.
    induction l as [|r l IH]; intros p; [discriminate|]. cbn [Model.cert_loop]. destruct (vsix_rs_skip_rel (r_type r)); [apply IH|].
    change (vsix_rs_cert_path_panics (r_target r)) with false. cbv iota. unfold read_zip.
    destruct (files_get pk _); [change (vsix_readzip_missing true) with false|change (vsix_readzip_missing false) with true]; cbv iota; cbn [bind]; [|discriminate].
    destruct (cert_key b); [|discriminate]. destruct (Model.cert_loop pubk cert_key pk l) eqn:E; cbn [bind]; try discriminate. exfalso. exact (IH _ eq_refl).
  Qed.
  Lemma parse_rels_no_panic pk path p : parse_rels rels_read pk path <> Panic p.
  Proof.
    unfold parse_rels, read_zip. destruct (files_get pk path); [change (vsix_readzip_missing true) with false|change (vsix_readzip_missing false) with true]; cbv iota; cbn [bind]; [|discriminate].
    destruct (rels_read b); discriminate.
  Qed.
  Lemma read_signature_no_panic pk p : read_signature rels_read pubk cert_key pk <> Panic p.
  Proof.
    unfold Model.read_signature. change vsix_rs_top_panics with false. cbv iota.
    destruct (vsix_rs_no_root_rels _); [discriminate|].
    destruct (parse_rels rels_read pk vsix_rs_top) as [r| |] eqn:E1; cbn [bind]; [|discriminate|exfalso; exact (parse_rels_no_panic _ _ _ E1)].
    destruct (vsix_rs_no_origin _); [discriminate|]. change (vsix_rel_path_panics (rels_find vsix_rs_origin_type r)) with false. cbv iota.
    destruct (parse_rels rels_read pk (vsix_rel_path _)) as [r2| |] eqn:E2; cbn [bind]; [|discriminate|exfalso; exact (parse_rels_no_panic _ _ _ E2)].
    destruct (vsix_rs_no_sigpath _); [discriminate|]. unfold read_zip at 1.
    destruct (files_get pk (rels_find vsix_rs_sig_type r2)); [change (vsix_readzip_missing true) with false|change (vsix_readzip_missing false) with true]; cbv iota; cbn [bind]; [|discriminate].
    change (vsix_rel_path_panics (rels_find vsix_rs_sig_type r2)) with false. cbv iota.
    destruct (vsix_rs_has_cert_rels _); cbn [bind]; [|discriminate].
    destruct (parse_rels rels_read pk (vsix_rel_path (rels_find vsix_rs_sig_type r2))) as [r3| |] eqn:E3; cbn [bind]; [|discriminate|exfalso; exact (parse_rels_no_panic _ _ _ E3)].
    destruct (Model.cert_loop pubk cert_key pk r3) eqn:E4; cbn [bind]; try discriminate. exfalso. exact (cert_loop_no_panic _ _ _ E4).
  Qed.
  Lemma check_refs_no_panic pk l p : check_refs H b64d pk l <> Panic p.
  Proof.
    induction l as [|r l IH]; [discriminate|]. cbn [Model.check_refs]. unfold check_ref at 1. rewrite ref_path_no_panic.
    destruct (files_get pk _).
    - change (vsix_cm_missing true) with false. cbv iota. destruct (vsix_cm_bad_alg _); [discriminate|]. destruct (b64d _); [|discriminate].
      destruct (vsix_cm_mismatch _); [discriminate|]. cbn [bind]. exact IH.
    - change (vsix_cm_missing false) with true. cbv iota. discriminate.
  Qed.
  (* C11: the verifier never panics, whatever the package and whatever the XML readers, the XML-DSig layer and the certificate parser answer *)
  Lemma verify_no_panic pk p : verify pk <> Panic p.
  Proof.
    unfold Model.verify. rewrite shapes_hold. cbn [negb].
    destruct (read_signature rels_read pubk cert_key pk) as [sc| |] eqn:E; cbn [bind]; [|discriminate|exfalso; exact (read_signature_no_panic _ _ E)].
    destruct (deser (fst sc)); [|discriminate]. destruct (negb _); [discriminate|]. unfold check_manifest.
    destruct (check_refs H b64d pk _) as [[]| |] eqn:Ec; cbn [bind]; [|discriminate|exfalso; exact (check_refs_no_panic _ _ _ Ec)].
    destruct (match sd_ts pubk sigv s with Some _ => _ | None => _ end); [discriminate|]. destruct (vsix_verify_no_leaf _); discriminate.
  Qed.
End Resign.

(* ================================================================== witnesses: concrete packages, table oracles *)
Definition wH (a : Z) (c : bytes) : bytes := a :: c.
Definition wsha1 (p : bytes) : bytes := [1; 2; 3; 4; 5].
Definition w_ct1 : ctdoc := ([([116; 120; 116], [116; 47; 112])], []).            (* Default Extension="txt" ContentType="t/p" *)
Definition w_ct_cer : ctdoc := ([([99; 101; 114], [120; 47; 99])], []).            (* Default Extension="cer" ContentType="x/c" *)
Definition wct (c : bytes) : option ctdoc := match c with [1] => Some w_ct1 | [2] => Some w_ct_cer | [3] => None | _ => Some ([], []) end.
Definition wser (sd : sigdoc Z bytes) : bytes := [7].
Definition wsign (o : sopts bytes) (sg : signer Z) (pk : package) : result package :=
  sign wH wsha1 (fun x => x) wct Z Z bytes (fun k => k) (fun k m => k :: m) (fun a _ => [a]) wser o sg pk.
Definition w_sg : signer Z := mkSigner Z 5 [102] [([102], [48; 1])].
Definition w_o (detach : bool) (tsa : option (bytes -> bytes)) : sopts bytes := mkOpts bytes 5 [50] detach tsa.
Definition CT : bytes := vsix_content_types_path.
Definition n_txt : bytes := [97; 46; 116; 120; 116].            (* a.txt *)
Definition n_TXT : bytes := [65; 46; 84; 88; 84].               (* A.TXT *)
Definition n_cer : bytes := [99; 47; 97; 46; 99; 101; 114].     (* c/a.cer *)

(* the verifier's oracles for a package relic signed: the two relationship documents relic wrote, the signature part, the certificate *)
Definition w_rl1 : list rel := match rels_append wsha1 [] vsix_origin_path vsix_sig_origin_type with Ok l => l | _ => [] end.
Definition w_rl2 : list rel := match rels_append wsha1 [] (vsix_sig_name [102]) vsix_sig_type with Ok l => l | _ => [] end.
Definition wrels (c : bytes) : option (list rel) :=
  if bytes_eqb c (rels_marshal w_rl1) then Some w_rl1 else if bytes_eqb c (rels_marshal w_rl2) then Some w_rl2 else None.
Definition wverify (sd : sigdoc Z bytes) (ts : bytes -> bytes -> bool) (pk : package) : result (vresult Z) :=
  verify wH (fun x => Some x) wrels Z bytes Z.eqb (fun p m s => bytes_eqb s (p :: m)) (fun a _ => [a]) (fun c => if bytes_eqb c [7] then Some sd else None)
         (fun d => if bytes_eqb d [48; 1] then Some 5 else None) ts pk.
Definition sd_of (refs : list (bytes * bytes)) (tsa : option (bytes -> bytes)) : sigdoc Z bytes :=
  make_sigdoc Z Z bytes (fun k => k) (fun k m => k :: m) (fun a _ => [a]) (w_o false tsa) w_sg (package_object refs 5 [50]).
Definition refs_of (g : package) (ct : ctab) : list (bytes * bytes) :=
  map (fun n => (vsix_ref_uri (ct_ovr ct) (ct_ext ct) n, wH 5 (match files_get g n with Some c => c | None => [] end)))
      (ssort (filter (fun n => vsix_keep_file n || bytes_eqb n N_ROOT || bytes_eqb n N_OREL || bytes_eqb n N_ORIG) (nodup (list_eq_dec Z.eq_dec) (map fst g)))).
Definition unwrap (r : result package) : package := match r with Ok g => g | _ => [] end.

(* a well-formed package signs and verifies (the oracles are consistent with what sign wrote) *)
Definition pk0 : package := [(CT, [1]); (n_txt, [9])].
Definition g0 : package := Eval vm_compute in unwrap (wsign (w_o false None) w_sg pk0).
Definition ct0 : ctab := ct_merge ct_empty w_ct1.
Lemma w_baseline : wsign (w_o false None) w_sg pk0 = Ok g0 /\ manifest_refs (sd_obj Z bytes (sd_of (refs_of g0 ct0) None)) <> [] /\
  length (refs_of g0 ct0) = 4%nat /\ wverify (sd_of (refs_of g0 ct0) None) (fun _ _ => true) g0 = Ok (mkV Z 5 5 false).
Proof. repeat split; try (vm_compute; reflexivity). vm_compute. discriminate. Qed.

(* C02 (recorded): members that no Reference covers may be added, and ... *)
Lemma unlisted_member_refuted : exists extra, extra <> [] /\ wverify (sd_of (refs_of g0 ct0) None) (fun _ _ => true) (g0 ++ extra) = Ok (mkV Z 5 5 false).
Proof. exists [([101; 118; 105; 108; 46; 100; 108; 108], [77; 90])]. split; [discriminate|vm_compute; reflexivity]. Qed.
(* ... the content types stream is covered by nothing: it can be replaced (every part's declared type changes) or removed *)
Lemma content_types_unbound_refuted :
  wverify (sd_of (refs_of g0 ct0) None) (fun _ _ => true) (filter (fun m => negb (bytes_eqb (fst m) CT)) g0 ++ [(CT, [66])]) = Ok (mkV Z 5 5 false) /\
  wverify (sd_of (refs_of g0 ct0) None) (fun _ _ => true) (filter (fun m => negb (bytes_eqb (fst m) CT)) g0) = Ok (mkV Z 5 5 false).
Proof. split; vm_compute; reflexivity. Qed.
(* ... and of two members with one name only the last is looked at *)
Lemma shadowed_duplicate_refuted : wverify (sd_of (refs_of g0 ct0) None) (fun _ _ => true) ((n_txt, [6; 6; 6]) :: g0) = Ok (mkV Z 5 5 false).
Proof. vm_compute. reflexivity. Qed.
(* ... while a change to a referenced part, its removal, or a change to one of the three signed infrastructure parts is rejected *)
Lemma tamper_examples :
  wverify (sd_of (refs_of g0 ct0) None) (fun _ _ => true) (map (fun m => if bytes_eqb (fst m) n_txt then (fst m, [8]) else m) g0) = Err E_MISMATCH /\
  wverify (sd_of (refs_of g0 ct0) None) (fun _ _ => true) (filter (fun m => negb (bytes_eqb (fst m) n_txt)) g0) = Err E_REF_MISSING /\
  wverify (sd_of (refs_of g0 ct0) None) (fun _ _ => true) (g0 ++ [(n_txt, [8])]) = Err E_MISMATCH.
Proof. repeat split; vm_compute; reflexivity. Qed.
(* Transforms of a Reference are not looked at: a Reference that declares the relationships transform is digested as the raw part *)
Lemma transforms_ignored_refuted : forall uri hu dv ts,
  mref_of (Relic.C19.Model.el [82; 101; 102; 101; 114; 101; 110; 99; 101] [Relic.C19.Model.mkattr [] Relic.C19.Model.s_URI uri]
             [Relic.C19.Model.el [84; 114; 97; 110; 115; 102; 111; 114; 109; 115] [] ts;
              Relic.C19.Model.alg_el [68; 105; 103; 101; 115; 116; 77; 101; 116; 104; 111; 100] hu;
              Relic.C19.Model.el [68; 105; 103; 101; 115; 116; 86; 97; 108; 117; 101] [] [Relic.C19.Model.CharData dv]])
  = mref_of (Relic.C19.Model.vsix_reference uri hu dv).
Proof. intros. unfold mref_of, Relic.C19.Model.vsix_reference. cbn. reflexivity. Qed.

(* C10 (recorded): a token the verifier rejects is attached all the same, and signing reports success *)
Lemma timestamp_unverified_refuted : exists tsa, wsign (w_o false (Some tsa)) w_sg pk0 = Ok g0 /\
  wverify (sd_of (refs_of g0 ct0) (Some tsa)) (fun _ _ => false) g0 = Err E_TIMESTAMP.
Proof. exists (fun _ => [0]). split; vm_compute; reflexivity. Qed.

(* C01: a member name with "?": signed, then relic's own verifier looks for another name *)
Definition pk_q : package := [(CT, [1]); ([119; 63; 46; 116; 120; 116], [9])].
Definition g_q : package := Eval vm_compute in unwrap (wsign (w_o false None) w_sg pk_q).
Lemma sign_then_verify_name_refuted : wsign (w_o false None) w_sg pk_q = Ok g_q /\
  wverify (sd_of (refs_of g_q ct0) None) (fun _ _ => true) g_q = Err E_REF_MISSING.
Proof. split; vm_compute; reflexivity. Qed.

(* C05: extension matching is case sensitive in relic, case insensitive in the specification: the Reference names another type than the package declares *)
Definition pk_case : package := [(CT, [1]); (n_TXT, [9])].
Lemma reference_type_case_refuted : exists g, wsign (w_o false None) w_sg pk_case = Ok g /\
  chosen_type (ct_ovr ct0) (ct_ext ct0) n_TXT = vsix_default_content_type /\
  spec_ct_of (ct_doc_of (new_ctypes ct0 false)) n_TXT = Some [116; 47; 112] /\ spec_ct_of w_ct1 n_TXT = Some [116; 47; 112].
Proof. eexists. repeat split; vm_compute; reflexivity. Qed.
(* C03 / C05: newCtypes overwrites what the package declared for relic's own extensions: with detached certificates a payload certificate's type changes,
   and its Reference (written before) names the old one *)
Definition ct_cer : ctab := ct_merge ct_empty w_ct_cer.
Lemma content_type_redeclared_refuted :
  chosen_type (ct_ovr ct_cer) (ct_ext ct_cer) n_cer = [120; 47; 99] /\ spec_ct_of w_ct_cer n_cer = Some [120; 47; 99] /\
  spec_ct_of (ct_doc_of (new_ctypes ct_cer true)) n_cer = Some (aget vsix_content_types [99; 101; 114]) /\ aget vsix_content_types [99; 101; 114] <> [120; 47; 99].
Proof. repeat split; try (vm_compute; reflexivity). vm_compute. discriminate. Qed.
(* C05: relationship targets are taken from the package root, whatever the source part: a relative target resolves elsewhere than the specification says *)
Lemma relative_target_refuted : exists t, vsix_rels_find_path t <> spec_resolve vsix_origin_path t /\ spec_resolve vsix_origin_path t = vsix_sig_name [102].
Proof. exists [120; 109; 108; 45; 115; 105; 103; 110; 97; 116; 117; 114; 101; 47; 102; 46; 112; 115; 100; 115; 120; 115]. split; [vm_compute; discriminate|vm_compute; reflexivity]. Qed.
(* C03 (recorded): package relationships that are payload are gone after signing: the new package relationships part holds the origin relationship only *)
Definition pk_rels : package := [(CT, [1]); (n_txt, [9]); (N_ROOT, [82])].
Lemma rels_lost_refuted : exists g, wsign (w_o false None) w_sg pk_rels = Ok g /\ files_get g N_ROOT = Some (rels_marshal w_rl1) /\ length w_rl1 = 1%nat /\ files_get pk_rels N_ROOT = Some [82].
Proof. eexists. repeat split; vm_compute; reflexivity. Qed.
(* an unreadable content types stream is refused *)
Lemma refusal_example : wsign (w_o false None) w_sg [(CT, [3]); (n_txt, [9])] = Err E_CT_PARSE.
Proof. vm_compute. reflexivity. Qed.
(* detached certificates: sign, verify (certificates found through the signature part's relationships), sign again with embedded certificates *)
Definition w_rl3 : list rel := match cert_rels wsha1 [([102], [48; 1])] [] with Ok l => l | _ => [] end.
Definition wrels_d (c : bytes) : option (list rel) := if bytes_eqb c (rels_marshal w_rl3) then Some w_rl3 else wrels c.
Definition g0d : package := Eval vm_compute in unwrap (wsign (w_o true None) w_sg pk0).
Definition sd_d : sigdoc Z bytes := make_sigdoc Z Z bytes (fun k => k) (fun k m => k :: m) (fun a _ => [a]) (w_o true None) w_sg (package_object (refs_of g0d ct0) 5 [50]).
Lemma detached_example : wsign (w_o true None) w_sg pk0 = Ok g0d /\ length g0d = 8%nat /\
  verify wH (fun x => Some x) wrels_d Z bytes Z.eqb (fun p m s => bytes_eqb s (p :: m)) (fun a _ => [a]) (fun c => if bytes_eqb c [7] then Some sd_d else None)
         (fun d => if bytes_eqb d [48; 1] then Some 5 else None) (fun _ _ => true) g0d = Ok (mkV Z 5 5 false) /\
  sd_x509 Z bytes sd_d = [] /\
  filter keepf (unwrap (wsign (w_o false None) w_sg g0d)) = filter keepf pk0 /\ length (unwrap (wsign (w_o false None) w_sg g0d)) = 6%nat.
Proof. repeat split; vm_compute; reflexivity. Qed.
