(* FmtVSIX/ProofsB.v — the part names sign builds from the certificate's file name, the package Object read back by checkManifest,
   and the round trip Reference URI -> part name. *)
From Relic Require Import Base.Prelude FmtVSIX.Lib Generated.FmtVSIX_gen FmtVSIX.Model FmtVSIX.ProofsA.
From Relic Require Generated.C19_gen C19.Model.

(* ================================================================== names derived from calcFileName *)
Definition fname_ok (f : bytes) : Prop := has_byte SLASH f = false.
Definition X_SIG : bytes := [46; 112; 115; 100; 115; 120; 115].      (* .psdsxs *)
Definition X_CER : bytes := [46; 99; 101; 114].                      (* .cer *)
Definition L_SIG : list bytes := [[112; 97; 99; 107; 97; 103; 101]; [115; 101; 114; 118; 105; 99; 101; 115]; [100; 105; 103; 105; 116; 97; 108; 45; 115; 105; 103; 110; 97; 116; 117; 114; 101];
                                  [120; 109; 108; 45; 115; 105; 103; 110; 97; 116; 117; 114; 101]].
Definition L_CER : list bytes := [[112; 97; 99; 107; 97; 103; 101]; [115; 101; 114; 118; 105; 99; 101; 115]; [100; 105; 103; 105; 116; 97; 108; 45; 115; 105; 103; 110; 97; 116; 117; 114; 101];
                                  [99; 101; 114; 116; 105; 102; 105; 99; 97; 116; 101]].
Definition P_SIG : bytes := vsix_xml_sig_path ++ [SLASH].
Definition P_CER : bytes := vsix_xml_cert_path ++ [SLASH].

Lemma beq_length a b : bytes_eqb a b = true -> length a = length b.
Proof. intros H. apply beq_eq in H. congruence. Qed.
Lemma normal_long e : (3 <= length e)%nat -> normal e = true.
Proof.
  intros H. unfold normal, is_dot, is_dotdot.
  assert (A : (zlen e =? 0) = false) by (unfold zlen; lia).
  assert (B : bytes_eqb e [DOT] = false) by (destruct (bytes_eqb e [DOT]) eqn:E; [apply beq_length in E; cbn in E; lia|reflexivity]).
  assert (C : bytes_eqb e [DOT; DOT] = false) by (destruct (bytes_eqb e [DOT; DOT]) eqn:E; [apply beq_length in E; cbn in E; lia|reflexivity]).
  rewrite A, B, C. reflexivity.
Qed.
Lemma npath_ext_elem f x : fname_ok f -> has_byte SLASH x = false -> (3 <= length x)%nat -> npath [f ++ x].
Proof.
  intros Hf Hx Hl. split; [discriminate|]. constructor; [|constructor]. split.
  - apply normal_long. rewrite app_length. lia.
  - rewrite has_byte_app, Hf, Hx. reflexivity.
Qed.
Lemma npath_L_SIG : npath L_SIG. Proof. split; [discriminate|]. repeat constructor. Qed.
Lemma npath_L_CER : npath L_CER. Proof. split; [discriminate|]. repeat constructor. Qed.

Lemma sig_name_form f : fname_ok f -> vsix_sig_name f = P_SIG ++ f ++ X_SIG /\ vsix_sig_name f = join_with SLASH (L_SIG ++ [f ++ X_SIG]).
Proof.
  intros Hf. assert (E : vsix_sig_name f = join_with SLASH (L_SIG ++ [f ++ X_SIG])).
  { unfold vsix_sig_name. change [112; 97; 99; 107; 97; 103; 101; 47; 115; 101; 114; 118; 105; 99; 101; 115; 47; 100; 105; 103; 105; 116; 97; 108; 45; 115; 105; 103; 110; 97; 116; 117; 114; 101; 47; 120; 109; 108; 45; 115; 105; 103; 110; 97; 116; 117; 114; 101]
      with (join_with SLASH L_SIG). apply path_join2_npath; [exact npath_L_SIG|]. apply npath_ext_elem; [exact Hf|reflexivity|cbn; lia]. }
  split; [|exact E]. rewrite E. reflexivity.
Qed.
Lemma cert_path_form f : fname_ok f -> vsix_cert_path f = P_CER ++ f ++ X_CER /\ vsix_cert_path f = join_with SLASH (L_CER ++ [f ++ X_CER]).
Proof.
  intros Hf. assert (E : vsix_cert_path f = join_with SLASH (L_CER ++ [f ++ X_CER])).
  { unfold vsix_cert_path. change [112; 97; 99; 107; 97; 103; 101; 47; 115; 101; 114; 118; 105; 99; 101; 115; 47; 100; 105; 103; 105; 116; 97; 108; 45; 115; 105; 103; 110; 97; 116; 117; 114; 101; 47; 99; 101; 114; 116; 105; 102; 105; 99; 97; 116; 101]
      with (join_with SLASH L_CER). apply path_join2_npath; [exact npath_L_CER|]. apply npath_ext_elem; [exact Hf|reflexivity|cbn; lia]. }
  split; [|exact E]. rewrite E. reflexivity.
Qed.
Lemma npath_sig f : fname_ok f -> npath (L_SIG ++ [f ++ X_SIG]).
Proof. intros Hf. apply npath_app; [exact npath_L_SIG|]. apply npath_ext_elem; [exact Hf|reflexivity|cbn; lia]. Qed.
(* the Target Append writes for the signature part, read back by Find, is the part's name *)
Lemma find_target_sig f : fname_ok f -> vsix_rels_find_path (vsix_rels_target (vsix_sig_name f)) = vsix_sig_name f.
Proof.
  intros Hf. destruct (sig_name_form f Hf) as [_ E]. rewrite E. unfold vsix_rels_find_path, vsix_rels_target.
  change ([47] ++ ?x) with (SLASH :: x). rewrite clean_rooted_npath by (apply npath_sig; exact Hf).
  change ([46; 47] ++ SLASH :: ?x) with (DOT :: SLASH :: SLASH :: x). apply clean_dot_slash_slash_npath. apply npath_sig. exact Hf.
Qed.
Lemma find_target_origin : vsix_rels_find_path (vsix_rels_target vsix_origin_path) = vsix_origin_path.
Proof. vm_compute. reflexivity. Qed.

(* path.Base / path.Dir of  dir/elem *)
Lemma drop_slashes_head c r : (c =? SLASH) = false -> drop_slashes (c :: r) = c :: r.
Proof. intros H. cbn. rewrite H. reflexivity. Qed.
Lemma last_app_single {A} (l : list A) x d : last (l ++ [x]) d = x.
Proof. apply last_last. Qed.
Lemma join_snoc l e : l <> [] -> join_with SLASH (l ++ [e]) = join_with SLASH l ++ SLASH :: e.
Proof. intros H. rewrite join_app by (first [exact H|discriminate]). reflexivity. Qed.
Lemma elem_last_not_slash e : normal e = true -> has_byte SLASH e = false -> exists c r, rev e = c :: r /\ (c =? SLASH) = false.
Proof.
  intros Hn Hs. destruct (rev e) as [|c r] eqn:E.
  - exfalso. assert (e = []) by (rewrite <- (rev_involutive e), E; reflexivity). subst e. cbn in Hn. discriminate.
  - exists c, r. split; [reflexivity|]. assert (Hin : In c e) by (apply in_rev; rewrite E; left; reflexivity).
    destruct (c =? SLASH) eqn:Ec; [|reflexivity]. exfalso. unfold has_byte in Hs.
    assert (existsb (fun x => x =? SLASH) e = true) by (apply existsb_exists; exists c; split; assumption). congruence.
Qed.
Lemma path_base_npath l e : l <> [] -> npath (l ++ [e]) -> path_base (join_with SLASH (l ++ [e])) = e.
Proof.
  intros Hl Hp. pose proof (join_nonempty _ Hp) as Hne. unfold path_base.
  destruct (join_with SLASH (l ++ [e])) as [|p0 pr] eqn:Ej; [contradiction|]. rewrite <- Ej.
  assert (He : normal e = true /\ has_byte SLASH e = false).
  { destruct Hp as [_ F]. apply Forall_app in F as [_ F]. inversion F; subst. assumption. }
  destruct (elem_last_not_slash e (proj1 He) (proj2 He)) as [c [r [Er Ec]]].
  rewrite join_snoc by exact Hl. rewrite rev_app_distr. cbn [rev]. rewrite <- app_assoc. rewrite Er. cbn [app].
  rewrite drop_slashes_head by exact Ec.
  change (c :: r ++ SLASH :: rev (join_with SLASH l)) with ((c :: r) ++ [SLASH] ++ rev (join_with SLASH l)). rewrite <- Er.
  replace (rev e ++ [SLASH] ++ rev (join_with SLASH l)) with (rev (join_with SLASH l ++ SLASH :: e)) by (rewrite rev_app_distr; cbn [rev]; rewrite <- app_assoc; reflexivity).
  rewrite rev_involutive, <- join_snoc by exact Hl. rewrite split_join_npath by exact Hp. rewrite last_app_single.
  destruct e; [cbn in He; destruct He; discriminate|reflexivity].
Qed.
Lemma keep_from_slash_skip a b : has_byte SLASH a = false -> keep_from_slash (a ++ SLASH :: b) = SLASH :: b.
Proof.
  induction a as [|c a IH]; intros H; [cbn; reflexivity|]. cbn in H. apply orb_false_iff in H as [H1 H2]. cbn [app keep_from_slash]. rewrite H1. exact (IH H2).
Qed.
Lemma has_byte_rev c s : has_byte c (rev s) = has_byte c s.
Proof.
  unfold has_byte. induction s as [|x s IH]; [reflexivity|]. cbn [rev existsb]. rewrite existsb_app, IH. cbn. rewrite orb_false_r. apply orb_comm.
Qed.
Lemma npath_prefix l1 l2 : l1 <> [] -> npath (l1 ++ l2) -> npath l1.
Proof. intros H [_ F]. apply Forall_app in F as [F _]. split; assumption. Qed.
Lemma path_clean_rel p x r : p = x :: r -> (x =? SLASH) = false ->
  path_clean p = match join_with SLASH (rev (clean_elems false [] (split_on SLASH p))) with [] => [DOT] | o => o end.
Proof. intros -> H. unfold path_clean. rewrite H. destruct (join_with SLASH _); reflexivity. Qed.
Lemma path_dir_npath l e : l <> [] -> npath (l ++ [e]) -> path_dir (join_with SLASH (l ++ [e])) = join_with SLASH l.
Proof.
  intros Hl Hp. unfold path_dir. rewrite join_snoc by exact Hl. rewrite rev_app_distr. cbn [rev]. rewrite <- app_assoc. cbn [app].
  assert (He : has_byte SLASH e = false) by (destruct Hp as [_ F]; apply Forall_app in F as [_ F]; inversion F; subst; tauto).
  rewrite keep_from_slash_skip by (rewrite has_byte_rev; exact He).
  cbn [rev]. rewrite rev_involutive.
  pose proof (npath_prefix _ _ Hl Hp) as Hpl.
  destruct (join_head_not_slash l Hpl) as [x [r [E Hx]]].
  assert (Hsp : split_on SLASH (join_with SLASH l ++ [SLASH]) = l ++ [[]]).
  { change (join_with SLASH l ++ [SLASH]) with (join_with SLASH l ++ SLASH :: []). rewrite <- (join_snoc l []) by exact Hl.
    apply split_join; [destruct l; discriminate|]. apply Forall_app. split; [apply npath_noslash; exact Hpl|repeat constructor]. }
  rewrite (path_clean_rel (join_with SLASH l ++ [SLASH]) x (r ++ [SLASH])) by (first [rewrite E; reflexivity|exact Hx]).
  rewrite Hsp. rewrite clean_elems_app. rewrite (clean_elems_normal false [] l) by (apply npath_normal; exact Hpl). cbn [clean_elems zlen length Z.of_nat Z.eqb orb].
  rewrite app_nil_r, rev_involutive. rewrite E. reflexivity.
Qed.
Lemma path_join3_npath a b c : npath a -> npath b -> npath c ->
  path_join [join_with SLASH a; join_with SLASH b; join_with SLASH c] = join_with SLASH (a ++ b ++ c).
Proof.
  intros Ha Hb Hc. unfold path_join. cbn [filter].
  assert (N : forall l, npath l -> (zlen (join_with SLASH l) =? 0) = false).
  { intros l Hl. pose proof (join_nonempty l Hl). destruct (join_with SLASH l) as [|x0 t0]; [contradiction|]. rewrite zlen_cons. pose proof (zlen_nonneg t0). lia. }
  rewrite (N a Ha), (N b Hb), (N c Hc). cbn [negb].
  change (join_with SLASH [join_with SLASH a; join_with SLASH b; join_with SLASH c])
    with (join_with SLASH a ++ SLASH :: (join_with SLASH b ++ SLASH :: join_with SLASH c)).
  rewrite <- (join_app SLASH b c) by (first [exact (proj1 Hb)|exact (proj1 Hc)]).
  rewrite <- (join_app SLASH a (b ++ c)) by (first [exact (proj1 Ha)|destruct b; [destruct Hb; contradiction|discriminate]]).
  apply clean_npath. apply npath_app; [exact Ha|apply npath_app; assumption].
Qed.
Definition S_RELS : bytes := [95; 114; 101; 108; 115].
Definition X_RELS : bytes := [46; 114; 101; 108; 115].
Lemma rel_path_npath l e : l <> [] -> npath (l ++ [e]) -> vsix_rel_path (join_with SLASH (l ++ [e])) = join_with SLASH (l ++ [S_RELS; e ++ X_RELS]).
Proof.
  intros Hl Hp. unfold vsix_rel_path. cbv zeta. rewrite path_base_npath, path_dir_npath by assumption.
  assert (He : normal e = true /\ has_byte SLASH e = false) by (destruct Hp as [_ F]; apply Forall_app in F as [_ F]; inversion F; subst; assumption).
  assert (Hd : bytes_eqb e [46] = false).
  { destruct He as [Hn _]. unfold normal, is_dot in Hn. change [DOT] with [46] in Hn. destruct (bytes_eqb e [46]); [rewrite andb_false_r in Hn; cbn in Hn; discriminate|reflexivity]. }
  rewrite Hd.
  change [95; 114; 101; 108; 115] with (join_with SLASH [S_RELS]).
  change (e ++ [46; 114; 101; 108; 115]) with (join_with SLASH [e ++ X_RELS]).
  rewrite path_join3_npath.
  - reflexivity.
  - exact (npath_prefix _ _ Hl Hp).
  - split; [discriminate|]. repeat constructor.
  - split; [discriminate|]. constructor; [|constructor]. split.
    + apply normal_long. rewrite app_length. cbn. lia.
    + rewrite has_byte_app, (proj2 He). reflexivity.
Qed.
Lemma sig_rels_name_form f : fname_ok f -> vsix_rel_path (vsix_sig_name f) = P_SIG ++ S_RELS ++ [SLASH] ++ f ++ X_SIG ++ X_RELS.
Proof.
  intros Hf. destruct (sig_name_form f Hf) as [_ E]. rewrite E. rewrite rel_path_npath by (first [discriminate|apply npath_sig; exact Hf]).
  cbn [L_SIG app join_with]. rewrite <- !app_assoc. reflexivity.
Qed.

(* keepFile drops every name sign adds *)
Lemma keep_prefixed x : vsix_keep_file (digsig_prefix ++ x) = false.
Proof. rewrite keepfile_eq_conventional. apply negb_false_iff. apply conv_of_prefix. apply has_prefix_app. Qed.
Lemma new_names_not_kept f : fname_ok f ->
  vsix_keep_file (vsix_newrels_name []) = false /\ vsix_keep_file (vsix_newrels_name vsix_origin_path) = false /\ vsix_keep_file vsix_origin_name = false /\
  vsix_keep_file (vsix_sig_name f) = false /\ vsix_keep_file (vsix_cert_path f) = false /\ vsix_keep_file (vsix_cert_rels_name (vsix_sig_name f)) = false /\
  vsix_keep_file vsix_newct_name = false.
Proof.
  intros Hf. repeat split; try (vm_compute; reflexivity).
  - rewrite (proj1 (sig_name_form f Hf)). exact (keep_prefixed ([120; 109; 108; 45; 115; 105; 103; 110; 97; 116; 117; 114; 101; 47] ++ f ++ X_SIG)).
  - rewrite (proj1 (cert_path_form f Hf)). exact (keep_prefixed ([99; 101; 114; 116; 105; 102; 105; 99; 97; 116; 101; 47] ++ f ++ X_CER)).
  - unfold vsix_cert_rels_name. rewrite sig_rels_name_form by exact Hf.
    exact (keep_prefixed ([120; 109; 108; 45; 115; 105; 103; 110; 97; 116; 117; 114; 101; 47] ++ S_RELS ++ [SLASH] ++ f ++ X_SIG ++ X_RELS)).
Qed.

(* ================================================================== the package Object read back *)
Section Obj.
  Variables (H : Z -> bytes -> bytes) (b64 : bytes -> bytes).
  Lemma mref_of_reference uri hu dv : mref_of (Relic.C19.Model.vsix_reference uri hu dv) = mkRef uri hu dv.
  Proof. unfold mref_of, Relic.C19.Model.vsix_reference. cbn. rewrite app_nil_r. reflexivity. Qed.
  Lemma manifest_roundtrip refs alg time :
    manifest_refs (package_object refs alg time) = map (fun r => mkRef (fst r) (hash_uri_of alg) (snd r)) refs.
  Proof.
    unfold manifest_refs, package_object, Relic.C19.Model.vsix_object.
    set (hu := hash_uri_of alg).
    assert (K : forall l, kids_named [82; 101; 102; 101; 114; 101; 110; 99; 101] (Relic.C19.Model.el [77; 97; 110; 105; 102; 101; 115; 116] [] (map (fun r => Relic.C19.Model.vsix_reference (fst r) hu (snd r)) l))
                          = map (fun r => Relic.C19.Model.vsix_reference (fst r) hu (snd r)) l).
    { intros l. unfold kids_named. cbn [n_kids Relic.C19.Model.el]. induction l as [|r l IH]; [reflexivity|]. cbn [map filter]. rewrite IH. reflexivity. }
    match goal with |- flat_map ?f (kids_named ?t (Relic.C19.Model.el ?o ?a [?m; ?sp])) = _ =>
      change (kids_named t (Relic.C19.Model.el o a [m; sp])) with [m]; change (flat_map f [m]) with (f m ++ []) end.
    rewrite app_nil_r.
    change (nth 1 (field_path vsix_cm_manifest_fields 0) []) with [82; 101; 102; 101; 114; 101; 110; 99; 101].
    rewrite K. rewrite map_map. apply map_ext. intros r. apply mref_of_reference.
  Qed.
End Obj.

(* ================================================================== Reference URI -> part name *)
(* a name whose segments are ordinary (every part name is), without "?" *)
Definition name_ok (n : bytes) : Prop := npath (split_on SLASH n) /\ has_byte 63 n = false.
(* a content type whose segments after the first are ordinary: "a/b", "a/b; c=d", ... (not "a/..", "a//b") *)
Definition ct_ok (t : bytes) : Prop := Forall (fun e => normal e = true) (tl (split_on SLASH t)).
Definition Q_CT : bytes := [63; 67; 111; 110; 116; 101; 110; 116; 84; 121; 112; 101; 61].      (* ?ContentType= *)

Lemma split_on_noslash_all c s : Forall (fun e => has_byte c e = false) (split_on c s).
Proof.
  induction s as [|x r IH]; [repeat constructor|]. cbn [split_on]. destruct (x =? c) eqn:E; [constructor; [reflexivity|exact IH]|].
  pose proof (split_on_nonempty c r) as Hn. destruct (split_on c r) as [|h t]; [contradiction|]. inversion IH; subst. constructor; [|assumption].
  unfold has_byte. cbn [existsb]. rewrite E. assumption.
Qed.
(* splitting a concatenation: the last piece of the left part and the first of the right part merge *)
Lemma split_on_app_gen c a b : split_on c (a ++ b) = removelast (split_on c a) ++ [last (split_on c a) [] ++ hd [] (split_on c b)] ++ tl (split_on c b).
Proof.
  induction a as [|x a IH].
  - cbn. pose proof (split_on_nonempty c b). destruct (split_on c b); [contradiction|reflexivity].
  - cbn [app split_on]. destruct (x =? c).
    + rewrite IH. pose proof (split_on_nonempty c a) as Hn. destruct (split_on c a) as [|h t] eqn:Es; [contradiction|]. reflexivity.
    + rewrite IH. pose proof (split_on_nonempty c a) as Hn. destruct (split_on c a) as [|h t] eqn:Es; [contradiction|].
      destruct t as [|h2 t]; reflexivity.
Qed.
Lemma removelast_last_npath l : npath l -> npath (removelast l ++ [last l []]).
Proof. intros H. rewrite <- app_removelast_last by exact (proj1 H). exact H. Qed.
Lemma ref_path_of_uri n t : name_ok n -> ct_ok t -> vsix_ref_path ([47] ++ n ++ Q_CT ++ t) = n.
Proof.
  intros [Hn Hq] Ht. unfold ct_ok in Ht. unfold vsix_ref_path. cbv zeta.
  set (L := removelast (split_on SLASH n) ++ [last (split_on SLASH n) [] ++ hd [] (split_on SLASH (Q_CT ++ t))] ++ tl (split_on SLASH (Q_CT ++ t))).
  assert (EL : n ++ Q_CT ++ t = join_with SLASH L).
  { rewrite <- (join_split SLASH (n ++ Q_CT ++ t)). rewrite split_on_app_gen. reflexivity. }
  assert (Hsq : split_on SLASH (Q_CT ++ t) = (Q_CT ++ hd [] (split_on SLASH t)) :: tl (split_on SLASH t)).
  { rewrite split_on_app_gen. change (split_on SLASH Q_CT) with [Q_CT]. cbn [removelast last app]. reflexivity. }
  assert (HL : npath L).
  { unfold L. rewrite Hsq. cbn [hd tl]. split; [destruct (removelast (split_on SLASH n)); discriminate|].
    pose proof (removelast_last_npath _ Hn) as [_ F]. apply Forall_app in F as [F1 F2]. inversion F2 as [|? ? [Hl1 Hl2] _]; subst.
    apply Forall_app. split; [exact F1|]. apply Forall_app. split.
    - constructor; [|constructor]. split.
      + apply normal_long. rewrite !app_length. cbn. lia.
      + rewrite !has_byte_app, Hl2. cbn [orb]. change (has_byte SLASH Q_CT) with false. cbn [orb].
        pose proof (split_on_noslash_all SLASH t) as Fa. pose proof (split_on_nonempty SLASH t). destruct (split_on SLASH t); [contradiction|]. inversion Fa; subst. assumption.
    - pose proof (split_on_noslash_all SLASH t) as Fa. pose proof (split_on_nonempty SLASH t). destruct (split_on SLASH t) as [|t0 tr]; [contradiction|].
      inversion Fa as [|? ? Fa1 Fa2]; subst.
      cbn [tl] in *. rewrite Forall_forall in *. intros e He. split; [apply Ht; exact He|apply Fa2; exact He]. }
  assert (Ep : path_join [[46; 47] ++ [47] ++ n ++ Q_CT ++ t] = n ++ Q_CT ++ t).
  { unfold path_join. cbn [filter app]. change (zlen (46 :: 47 :: 47 :: n ++ Q_CT ++ t) =? 0) with (zlen (DOT :: SLASH :: SLASH :: (n ++ Q_CT ++ t)) =? 0).
    assert (Z : (zlen (DOT :: SLASH :: SLASH :: (n ++ Q_CT ++ t)) =? 0) = false) by (rewrite !zlen_cons; pose proof (zlen_nonneg (n ++ Q_CT ++ t)); lia).
    rewrite Z. cbn [negb join_with]. rewrite EL. apply clean_dot_slash_slash_npath. exact HL. }
  rewrite Ep. change (Q_CT ++ t) with (63 :: [67; 111; 110; 116; 101; 110; 116; 84; 121; 112; 101; 61] ++ t).
  rewrite index_byte_first by exact Hq.
  assert (G : (zlen n >=? 0) = true) by (pose proof (zlen_nonneg n); lia). rewrite G.
  unfold zslice. rewrite zdrop_0. replace (zlen n - 0) with (zlen n) by lia. rewrite ztake_app_l by lia. apply ztake_all. lia.
Qed.
(* the Reference URI makeSignature writes: "/" name "?ContentType=" type, the type being the package's, relic's own table's or the default *)
Definition chosen_type (ovr ext : assoc) (n : bytes) : bytes := zdrop (1 + zlen n + zlen Q_CT) (vsix_ref_uri ovr ext n).
Lemma ref_uri_form ovr ext n : vsix_ref_uri ovr ext n = [47] ++ n ++ Q_CT ++ chosen_type ovr ext n.
Proof.
  unfold chosen_type. unfold vsix_ref_uri. cbv zeta. set (t := if bytes_eqb _ [] then _ else _).
  rewrite <- !app_assoc. change (([47] ++ n ++ [63; 67; 111; 110; 116; 101; 110; 116; 84; 121; 112; 101; 61] ++ t)) with ([47] ++ n ++ Q_CT ++ t).
  f_equal. f_equal. f_equal. rewrite app_assoc, app_assoc. rewrite zdrop_app_r by (rewrite !zlen_app; cbn; lia).
  rewrite !zlen_app. replace (1 + zlen n + zlen Q_CT - (zlen [47] + zlen n + zlen Q_CT)) with 0 by (cbn; lia). reflexivity.
Qed.
Lemma aget_in m k : aget m k = [] \/ In (aget m k) (map snd m).
Proof.
  induction m as [|[k' v] m IH]; [left; reflexivity|]. cbn. destruct (bytes_eqb k' k); [right; left; reflexivity|].
  destruct IH as [IH|IH]; [left; exact IH|right; right; exact IH].
Qed.
Lemma ct_ok_nil : ct_ok []. Proof. constructor. Qed.
Lemma chosen_type_ok ovr ext n : Forall ct_ok (map snd ovr) -> Forall ct_ok (map snd ext) -> ct_ok (chosen_type ovr ext n).
Proof.
  intros Ho He.
  assert (A : forall m k, Forall ct_ok (map snd m) -> ct_ok (aget m k)).
  { intros m k F. destruct (aget_in m k) as [E|E]; [rewrite E; exact ct_ok_nil|]. rewrite Forall_forall in F. exact (F _ E). }
  assert (T : Forall ct_ok (map snd vsix_content_types)) by (repeat constructor).
  assert (D : ct_ok vsix_default_content_type) by (repeat constructor).
  assert (F : ct_ok (vsix_ct_find ovr ext n)).
  { unfold vsix_ct_find. cbv zeta. destruct (negb (bytes_eqb (aget ovr ([47] ++ n)) [])); [apply A; exact Ho|].
    destruct (_ && _); [|exact ct_ok_nil]. destruct (negb (bytes_eqb (aget ext _) [])); [apply A; exact He|exact ct_ok_nil]. }
  pose proof (ref_uri_form ovr ext n) as E. unfold vsix_ref_uri in E. cbv zeta in E.
  match type of E with ((_ ++ _) ++ ?t = _) => set (t0 := t) in * end.
  assert (Et : t0 = chosen_type ovr ext n).
  { rewrite <- !app_assoc in E. apply app_inv_head in E. apply app_inv_head in E. apply app_inv_head in E. exact E. }
  rewrite <- Et. unfold t0.
  destruct (bytes_eqb (vsix_ct_find ovr ext n) []) eqn:E1.
  - destruct (_ && _).
    + destruct (bytes_eqb (aget vsix_content_types _) []) eqn:E2; [exact D|]. apply A. exact T.
    + rewrite E1. exact D.
  - rewrite E1. exact F.
Qed.
