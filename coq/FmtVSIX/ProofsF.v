(* FmtVSIX/ProofsF.v — the regenerated content types stream, read by the specification's look-up (10.1.2.4). *)
From Relic Require Import Base.Prelude FmtVSIX.Lib Generated.FmtVSIX_gen FmtVSIX.Model FmtVSIX.ProofsA FmtVSIX.ProofsB FmtVSIX.ProofsC.
From Relic Require Generated.C19_gen C19.Model.

Lemma find_exists {A} (f : A -> bool) l x : In x l -> f x = true -> exists y, find f l = Some y.
Proof.
  induction l as [|a l IH]; intros Hin Hf; [destruct Hin|]. cbn [find]. destruct (f a) eqn:E; [eexists; reflexivity|].
  destruct Hin as [->|Hin]; [congruence|]. exact (IH Hin Hf).
Qed.
Lemma ieq_refl a : ieq a a = true. Proof. unfold ieq. apply beq_refl. Qed.
Lemma aget_nonempty_has m k : aget m k <> [] -> ahas m k = true.
Proof.
  induction m as [|[k' v] m IH]; cbn; [congruence|]. destruct (bytes_eqb k' k); [reflexivity|]. exact IH.
Qed.
Lemma sorted_entries_in m k : ahas m k = true -> In (k, aget m k) (sorted_entries m).
Proof. intros Hh. unfold sorted_entries. apply in_map_iff. exists k. split; [reflexivity|]. apply ssort_in. apply ahas_in. exact Hh. Qed.
Lemma ahas_aset_all m l k : ahas m k = true -> ahas (aset_all m l) k = true.
Proof.
  unfold aset_all. revert m. induction l as [|[k' v'] l IH]; intros m Hh; [exact Hh|]. cbn [fold_left fst snd]. apply IH. rewrite ahas_aset, Hh. apply orb_true_r.
Qed.
Lemma ahas_aset_all_new m l k v : In (k, v) l -> ahas (aset_all m l) k = true.
Proof.
  unfold aset_all. revert m. induction l as [|[k' v'] l IH]; intros m Hin; [destruct Hin|]. cbn [fold_left fst snd].
  destruct Hin as [E|Hin]; [injection E as -> ->; apply (ahas_aset_all (aset m k v) l); rewrite ahas_aset, beq_refl; reflexivity|exact (IH _ Hin)].
Qed.

(* splitting at every occurrence of c *)
Lemma split_on_app_any c a b : split_on c (a ++ c :: b) = split_on c a ++ split_on c b.
Proof.
  induction a as [|x a IH]; [cbn [app]; apply split_on_cons_sep|]. cbn [app split_on]. rewrite IH. destruct (x =? c); [reflexivity|].
  pose proof (split_on_nonempty c a) as Hn. destruct (split_on c a) as [|h t]; [contradiction|]. reflexivity.
Qed.
(* Go's path.Ext of the base name and the specification's "characters after the last dot of the last segment" agree on names whose last segment is not empty *)
Lemma path_base_last_segment n : last_segment n <> [] -> path_base n = last_segment n.
Proof.
  intros Hne. unfold path_base. destruct n as [|n0 nr] eqn:En; [exfalso; apply Hne; reflexivity|]. rewrite <- En in *.
  assert (Hlast : exists c r, rev n = c :: r /\ (c =? SLASH) = false).
  { destruct (rev n) as [|c r] eqn:Er; [exfalso; assert (n = []) by (rewrite <- (rev_involutive n), Er; reflexivity); congruence|].
    exists c, r. split; [reflexivity|]. destruct (c =? SLASH) eqn:Ec; [|reflexivity]. exfalso. apply Z.eqb_eq in Ec. subst c.
    assert (Hn : n = rev r ++ [SLASH]) by (rewrite <- (rev_involutive n), Er; reflexivity). apply Hne. unfold last_segment. rewrite Hn.
    change (rev r ++ [SLASH]) with (rev r ++ SLASH :: []). rewrite split_on_app_any. cbn [split_on]. apply last_last. }
  destruct Hlast as [c [r [Er Ec]]]. rewrite Er. cbn [drop_slashes]. rewrite Ec. rewrite <- Er, rev_involutive. fold (last_segment n).
  destruct (last_segment n); [contradiction|reflexivity].
Qed.
Lemma spec_extension_of_ext n k : last_segment n <> [] -> path_ext (path_base n) = DOT :: k -> spec_extension n = Some k.
Proof.
  intros Hne He. rewrite path_base_last_segment in He by exact Hne. unfold spec_extension. fold (last_segment n).
  destruct (path_ext_suffix (last_segment n)) as [a Ha]. rewrite He in Ha.
  destruct (path_ext_head (last_segment n)) as [E|[t [E [_ Hd]]]]; [congruence|]. rewrite He in E. injection E as <-.
  rewrite Ha, split_on_app_any, (split_on_no DOT k Hd), rev_app_distr. cbn [rev app].
  pose proof (split_on_nonempty DOT a) as Hn. destruct (rev (split_on DOT a)) as [|x xs] eqn:Er; [|reflexivity].
  exfalso. apply Hn. rewrite <- (rev_involutive (split_on DOT a)), Er. reflexivity.
Qed.

(* C03 / C05: whatever relic found a type for, a reader that follows 10.1.2.4 finds a type for in the regenerated stream (Overrides first, then the
   extension, both ignoring ASCII case) *)
Lemma ct_find_implies_spec ct hc n : last_segment n <> [] -> vsix_ct_find (ct_ovr ct) (ct_ext ct) n <> [] ->
  exists t, spec_ct_of (ct_doc_of (new_ctypes ct hc)) n = Some t.
Proof.
  intros Hne Hf. unfold spec_ct_of, ct_doc_of. cbn [fst snd new_ctypes ct_ovr ct_ext].
  destruct (find (fun o => ieq (fst o) (SLASH :: n)) (sorted_entries (ct_ovr ct))) as [o|] eqn:Eo; [eexists; reflexivity|].
  unfold vsix_ct_find in Hf. cbv zeta in Hf.
  destruct (negb (bytes_eqb (aget (ct_ovr ct) ([47] ++ n)) [])) eqn:E1.
  - exfalso. apply negb_true_iff, beq_neq in E1.
    destruct (find_exists (fun o : bytes * bytes => ieq (fst o) (SLASH :: n)) _ _ (sorted_entries_in (ct_ovr ct) ([47] ++ n) (aget_nonempty_has _ _ E1)) (ieq_refl _)) as [y Hy].
    change ([47] ++ n) with (SLASH :: n) in Hy. congruence.
  - destruct (bytes_eqb (path_ext (path_base n)) []) eqn:E2; cbn [negb andb] in Hf; [congruence|].
    destruct (path_ext_head (path_base n)) as [E|[k [E _]]]; [rewrite E in E2; cbn in E2; discriminate|].
    rewrite E in Hf. change (nthz (DOT :: k) 0 =? 46) with true in Hf. cbv iota in Hf.
    assert (Ek : zslice 1 (zlen (DOT :: k)) (DOT :: k) = k).
    { unfold zslice. rewrite zlen_cons. replace (1 + zlen k - 1) with (zlen k) by lia. change (zdrop 1 (DOT :: k)) with k. apply ztake_all. lia. }
    rewrite Ek in Hf. destruct (negb (bytes_eqb (aget (ct_ext ct) k) [])) eqn:E3; [|congruence].
    apply negb_true_iff, beq_neq in E3. rewrite (spec_extension_of_ext n k Hne E).
    destruct (find_exists (fun x : bytes * bytes => ieq (fst x) k) _ _
                (sorted_entries_in (aset_all (ct_ext ct) (filter (fun e => negb (vsix_newct_skip (fst e) hc)) vsix_content_types)) k (ahas_aset_all _ _ _ (aget_nonempty_has _ _ E3))) (ieq_refl _)) as [y Hy].
    rewrite Hy. eexists. reflexivity.
Qed.
(* the parts sign adds get the content types the specification gives them, unless the package declared a case variant of one of relic's extensions *)
Definition no_variant (ct : ctab) : Prop :=
  forall k, In k (akeys (ct_ext ct)) -> forall e, In e (akeys vsix_content_types) -> ieq k e = true -> k = e.
Lemma aget_aset_all_last m l k v : NoDup (map fst l) -> In (k, v) l -> aget (aset_all m l) k = v.
Proof.
  unfold aset_all. revert m. induction l as [|[k' v'] l IH]; intros m Hnd Hin; [destruct Hin|]. cbn [fold_left fst snd]. inversion Hnd as [|? ? Hni Hnd']; subst.
  destruct Hin as [E|Hin]; [|exact (IH _ Hnd' Hin)]. injection E as -> ->.
  assert (G : forall l m, ~ In k (map fst l) -> aget (fold_left (fun m kv => aset m (fst kv) (snd kv)) l m) k = aget m k).
  { clear. induction l as [|[a b] l IH]; intros m Hn; [reflexivity|]. cbn [fold_left fst snd]. rewrite IH by (intros Hc; apply Hn; right; exact Hc).
    apply aget_aset_other. intros ->. apply Hn. left. reflexivity. }
  rewrite G by exact Hni. apply aget_aset_same.
Qed.
Lemma akeys_aset_all m l k : In k (akeys (aset_all m l)) -> In k (akeys m) \/ In k (map fst l).
Proof.
  unfold aset_all. revert m. induction l as [|[k' v'] l IH]; intros m Hin; [left; exact Hin|]. cbn [fold_left fst snd] in Hin.
  destruct (IH _ Hin) as [H1|H1]; [|right; right; exact H1]. apply ahas_in in H1. rewrite ahas_aset in H1. apply orb_true_iff in H1 as [H1|H1].
  - apply beq_eq in H1. subst k'. right. left. reflexivity.
  - left. apply ahas_in. exact H1.
Qed.
Lemma new_part_type ct hc n e t : no_variant ct -> In (e, t) (filter (fun x => negb (vsix_newct_skip (fst x) hc)) vsix_content_types) ->
  last_segment n <> [] -> path_ext (path_base n) = DOT :: e ->
  find (fun o => ieq (fst o) (SLASH :: n)) (sorted_entries (ct_ovr ct)) = None ->
  spec_ct_of (ct_doc_of (new_ctypes ct hc)) n = Some t.
Proof.
  intros Hnv Hin Hne He Hov. unfold spec_ct_of, ct_doc_of. cbn [fst snd new_ctypes ct_ovr ct_ext]. rewrite Hov. rewrite (spec_extension_of_ext n e Hne He).
  set (L := filter (fun x => negb (vsix_newct_skip (fst x) hc)) vsix_content_types) in *.
  set (M := aset_all (ct_ext ct) L).
  assert (NdL : NoDup (map fst L)).
  { assert (Nd : NoDup (map fst vsix_content_types)) by (repeat constructor; cbn; intuition discriminate).
    unfold L. clear -Nd. induction vsix_content_types as [|x l IH]; [constructor|]. cbn [filter]. inversion Nd; subst. destruct (negb _); [|exact (IH H2)].
    cbn [map]. constructor; [|exact (IH H2)]. intros Hc. apply H1. apply in_map_iff in Hc as [y [Ey Hy]]. apply filter_In in Hy as [Hy _]. apply in_map_iff. exists y. split; assumption. }
  assert (Hv : aget M e = t) by (apply aget_aset_all_last; assumption).
  assert (Hh : ahas M e = true) by (eapply ahas_aset_all_new; exact Hin).
  destruct (find (fun x => ieq (fst x) e) (sorted_entries M)) as [[k v]|] eqn:Ef.
  - apply find_some in Ef as [Hin' Hieq]. cbn [fst] in Hieq. unfold sorted_entries in Hin'. apply in_map_iff in Hin' as [k0 [E0 Hk0]]. injection E0 as <- <-.
    apply (proj1 (ssort_in _ _)) in Hk0.
    assert (k0 = e); [|subst k0; rewrite Hv; reflexivity].
    destruct (akeys_aset_all _ _ _ Hk0) as [Hold|Hnew].
    + apply (Hnv k0 Hold e); [|exact Hieq]. apply filter_In in Hin as [Hin _]. apply (in_map fst) in Hin. exact Hin.
    + (* both are keys of relic's table, all lower case *)
      assert (Low : forall x, In x (map fst vsix_content_types) -> to_lower x = x) by (intros x Hx; cbn in Hx; intuition (subst x; reflexivity)).
      assert (Hk0' : In k0 (map fst vsix_content_types)) by (apply in_map_iff in Hnew as [y [Ey Hy]]; apply filter_In in Hy as [Hy _]; apply in_map_iff; exists y; split; assumption).
      assert (He' : In e (map fst vsix_content_types)) by (apply filter_In in Hin as [Hin _]; apply (in_map fst) in Hin; exact Hin).
      unfold ieq in Hieq. rewrite (Low _ Hk0'), (Low _ He') in Hieq. apply beq_eq in Hieq. exact Hieq.
  - exfalso. destruct (find_exists (fun x : bytes * bytes => ieq (fst x) e) _ _ (sorted_entries_in M e Hh) (ieq_refl _)) as [y Hy]. congruence.
Qed.

(* ---- on names and tables in one letter case the type written into a Reference URI is the type a 10.1.2.4 reader finds in the regenerated stream *)
Definition lower_table (m : assoc) : Prop := forall k, In k (akeys m) -> has_upper k = false.
Lemma find_exact_key (m : assoc) K L : (forall k, In k L -> has_upper k = false) -> has_upper K = false ->
  find (fun o : bytes * bytes => ieq (fst o) K) (map (fun k => (k, aget m k)) L) = if existsb (bytes_eqb K) L then Some (K, aget m K) else None.
Proof.
  intros HL HK. induction L as [|k L IH]; [reflexivity|]. cbn [map find existsb fst].
  rewrite (ieq_noupper k K (HL k (or_introl eq_refl)) HK). rewrite (beq_sym K k).
  destruct (bytes_eqb k K) eqn:E; [apply beq_eq in E; subst k; reflexivity|]. cbn [orb]. apply IH. intros x Hx. apply HL. right. exact Hx.
Qed.
Lemma find_sorted_exact m K : lower_table m -> has_upper K = false ->
  find (fun o : bytes * bytes => ieq (fst o) K) (sorted_entries m) = if ahas m K then Some (K, aget m K) else None.
Proof.
  intros Hm HK. unfold sorted_entries. rewrite find_exact_key by (first [intros k Hk; apply Hm; apply ssort_in; exact Hk|exact HK]).
  assert (E : existsb (bytes_eqb K) (ssort (akeys m)) = ahas m K).
  { apply eq_true_iff_eq. rewrite existsb_exists, ahas_in. split.
    - intros [x [Hx Ex]]. apply beq_eq in Ex. subst x. apply ssort_in. exact Hx.
    - intros Hin. exists K. split; [apply ssort_in; exact Hin|apply beq_refl]. }
  rewrite E. reflexivity.
Qed.
Lemma aget_none m k : ahas m k = false -> aget m k = [].
Proof. induction m as [|[k' v] m IH]; [reflexivity|]. cbn. destruct (bytes_eqb k' k); [discriminate|exact IH]. Qed.
Lemma aget_aset_all_other m l k : ~ In k (map fst l) -> aget (aset_all m l) k = aget m k.
Proof.
  unfold aset_all. revert m. induction l as [|[a b] l IH]; intros m Hn; [reflexivity|]. cbn [fold_left fst snd]. rewrite IH by (intros Hc; apply Hn; right; exact Hc).
  apply aget_aset_other. intros ->. apply Hn. left. reflexivity.
Qed.
Lemma reference_type_eq_spec ct hc n : lower_table (ct_ovr ct) -> lower_table (ct_ext ct) -> has_upper n = false -> last_segment n <> [] ->
  vsix_ct_find (ct_ovr ct) (ct_ext ct) n <> [] ->
  (aget (ct_ovr ct) (SLASH :: n) = [] -> ahas (ct_ovr ct) (SLASH :: n) = false) ->
  (forall e, path_ext (path_base n) = DOT :: e -> ~ In e (akeys vsix_content_types)) ->
  spec_ct_of (ct_doc_of (new_ctypes ct hc)) n = Some (chosen_type (ct_ovr ct) (ct_ext ct) n) /\ chosen_type (ct_ovr ct) (ct_ext ct) n = vsix_ct_find (ct_ovr ct) (ct_ext ct) n.
Proof.
  intros Lo Le Hn Hne Hf Hempty Hres.
  assert (Ech : chosen_type (ct_ovr ct) (ct_ext ct) n = vsix_ct_find (ct_ovr ct) (ct_ext ct) n).
  { pose proof (ref_uri_form (ct_ovr ct) (ct_ext ct) n) as E. unfold vsix_ref_uri in E. cbv zeta in E.
    assert (Eb : bytes_eqb (vsix_ct_find (ct_ovr ct) (ct_ext ct) n) [] = false) by (apply beq_neq; exact Hf). rewrite Eb in E. rewrite Eb in E.
    rewrite <- !app_assoc in E. apply app_inv_head in E. apply app_inv_head in E. apply app_inv_head in E. symmetry. exact E. }
  split; [|exact Ech]. rewrite Ech.
  unfold spec_ct_of, ct_doc_of. cbn [fst snd new_ctypes ct_ovr ct_ext].
  assert (Hsl : has_upper (SLASH :: n) = false) by (unfold has_upper; cbn [existsb]; exact Hn).
  rewrite (find_sorted_exact (ct_ovr ct) (SLASH :: n) Lo Hsl).
  unfold vsix_ct_find in *. cbv zeta in *. change ([47] ++ n) with (SLASH :: n) in *.
  destruct (bytes_eqb (aget (ct_ovr ct) (SLASH :: n)) []) eqn:E1; cbn [negb] in *.
  - apply beq_eq in E1. rewrite (Hempty E1).
    destruct (bytes_eqb (path_ext (path_base n)) []) eqn:E2; cbn [negb andb] in Hf; [congruence|].
    destruct (path_ext_head (path_base n)) as [E|[k [E [Hks Hkd]]]]; [rewrite E in E2; cbn in E2; discriminate|].
    rewrite E in *. change (nthz (DOT :: k) 0 =? 46) with true in *. cbv iota in *. cbn [negb andb] in *.
    assert (Ek : zslice 1 (zlen (DOT :: k)) (DOT :: k) = k).
    { unfold zslice. rewrite zlen_cons. replace (1 + zlen k - 1) with (zlen k) by lia. change (zdrop 1 (DOT :: k)) with k. apply ztake_all. lia. }
    rewrite Ek in *. destruct (bytes_eqb (aget (ct_ext ct) k) []) eqn:E3; cbn [negb] in *; [congruence|].
    rewrite (spec_extension_of_ext n k Hne E).
    set (L := filter (fun x => negb (vsix_newct_skip (fst x) hc)) vsix_content_types).
    assert (Hk_up : has_upper k = false).
    { assert (Hin : In k (akeys (ct_ext ct))) by (apply ahas_in; apply aget_nonempty_has; apply beq_neq; exact E3). exact (Le k Hin). }
    assert (LoM : lower_table (aset_all (ct_ext ct) L)).
    { intros x Hx. destruct (akeys_aset_all _ _ _ Hx) as [H1|H1]; [exact (Le x H1)|].
      apply in_map_iff in H1 as [y [Ey Hy]]. apply filter_In in Hy as [Hy _]. subst x. cbn in Hy. intuition (subst y; reflexivity). }
    rewrite (find_sorted_exact _ k LoM Hk_up).
    assert (Hnot : ~ In k (map fst L)).
    { intros Hc. apply (Hres k eq_refl). apply in_map_iff in Hc as [y [Ey Hy]]. apply filter_In in Hy as [Hy _]. apply in_map_iff. exists y. split; assumption. }
    rewrite (ahas_aset_all (ct_ext ct) L k) by (apply aget_nonempty_has; apply beq_neq; exact E3).
    rewrite aget_aset_all_other by exact Hnot. reflexivity.
  - assert (Eh : ahas (ct_ovr ct) (SLASH :: n) = true) by (apply aget_nonempty_has; apply beq_neq; exact E1). rewrite Eh. reflexivity.
Qed.
