(* FmtVSIX/ProofsA.v — the loop-free decisions: no index / slice out of range for any input; keepFile as a name-level rule;
   the classification of member names against the specification's, with the differences as witnesses. *)
From Relic Require Import Base.Prelude FmtVSIX.Lib Generated.FmtVSIX_gen FmtVSIX.Model.

(* ================================================================== no panic *)
Lemma ct_find_no_panic ovr ext n : vsix_ct_find_panics ovr ext n = false.
Proof.
  unfold vsix_ct_find_panics. cbv zeta.
  destruct (negb (bytes_eqb (aget ovr ([47] ++ n)) [])); [reflexivity|].
  destruct (bytes_eqb (path_ext (path_base n)) []) eqn:E; cbn [negb andb orb]; [reflexivity|].
  destruct (path_ext_index_ok _ E) as [H1 H2]. rewrite H1, H2. cbn [negb orb]. destruct (nthz _ 0 =? 46); reflexivity.
Qed.
Lemma ref_uri_no_panic ovr ext n : vsix_ref_uri_panics ovr ext n = false.
Proof.
  unfold vsix_ref_uri_panics. cbv zeta. rewrite ct_find_no_panic. cbn [orb].
  destruct (bytes_eqb (vsix_ct_find ovr ext n) []); cbn [andb]; [|reflexivity].
  destruct (bytes_eqb (path_ext (path_base n)) []) eqn:E; cbn [negb andb orb]; [reflexivity|].
  destruct (path_ext_index_ok _ E) as [H1 H2]. rewrite H1, H2. cbn [negb orb andb]. destruct (nthz _ 0 =? 46); reflexivity.
Qed.
Lemma ref_path_no_panic uri : vsix_ref_path_panics uri = false.
Proof.
  unfold vsix_ref_path_panics. cbv zeta. set (p := path_join _).
  destruct (index_byte p 63 >=? 0) eqn:E; [|reflexivity]. cbn [andb]. unfold slice_ok.
  pose proof (index_byte_le p 63). lia.
Qed.
Lemma decisions_no_panic : forall ovr ext n,
  vsix_keep_file_panics n = false /\ vsix_mangle_keeps_panics n = false /\ vsix_mangle_parses_panics n = false /\
  vsix_ct_find_panics ovr ext n = false /\ vsix_ref_uri_panics ovr ext n = false /\ vsix_ref_path_panics n = false /\
  vsix_rel_path_panics n = false /\ vsix_newrels_name_panics n = false /\ vsix_cert_rels_name_panics n = false /\
  vsix_rels_find_path_panics n = false /\ vsix_rels_target_panics n = false /\ vsix_rs_cert_path_panics n = false /\
  vsix_sig_name_panics n = false /\ vsix_cert_path_panics n = false /\ vsix_rs_top_panics = false.
Proof.
  intros. repeat split; try reflexivity; [apply ct_find_no_panic|apply ref_uri_no_panic|apply ref_path_no_panic].
Qed.

(* ================================================================== keepFile as a rule on names *)
Lemma split_single c r h : split_on c r = [h] -> has_byte c r = false /\ r = h.
Proof.
  revert h; induction r as [|x r IH]; intros h Hs.
  - cbn in Hs. injection Hs as <-. split; reflexivity.
  - cbn [split_on] in Hs. destruct (x =? c) eqn:E.
    + injection Hs as _ Hs. exfalso. exact (split_on_nonempty c r Hs).
    + destruct (split_on c r) as [|h0 t] eqn:Es; [exfalso; exact (split_on_nonempty c r Es)|].
      injection Hs as <- ->. destruct (IH h0 eq_refl) as [A B]. unfold has_byte. cbn [existsb]. rewrite E. cbn [orb]. split; [exact A|congruence].
Qed.
Lemma split_multi c r h t : split_on c r = h :: t -> t <> [] -> has_byte c r = true.
Proof.
  intros Hs Ht. destruct (has_byte c r) eqn:E; [reflexivity|]. rewrite (split_on_no c r E) in Hs. injection Hs as _ <-. contradiction.
Qed.
Lemma path_ext_cons_slash_in x r : has_byte SLASH r = true -> path_ext (x :: r) = path_ext r.
Proof. intros H. cbn [path_ext]. rewrite H. cbn [negb]. rewrite andb_false_r. destruct (path_ext r); reflexivity. Qed.
Lemma path_ext_slash r : path_ext (SLASH :: r) = path_ext r.
Proof. cbn [path_ext]. change (SLASH =? DOT) with false. cbn [andb]. destruct (path_ext r); reflexivity. Qed.
Lemma path_ext_last_segment n : path_ext n = path_ext (last_segment n).
Proof.
  unfold last_segment. induction n as [|x r IH]; [reflexivity|]. cbn [split_on].
  destruct (x =? SLASH) eqn:E.
  - apply Z.eqb_eq in E. subst x. rewrite path_ext_slash, IH.
    pose proof (split_on_nonempty SLASH r) as Hn. destruct (split_on SLASH r) as [|h t] eqn:Es; [contradiction|]. reflexivity.
  - pose proof (split_on_nonempty SLASH r) as Hn. destruct (split_on SLASH r) as [|h t] eqn:Es; [contradiction|].
    destruct t as [|h2 t].
    + destruct (split_single _ _ _ Es) as [A B]. subst h. reflexivity.
    + rewrite path_ext_cons_slash_in by (eapply split_multi; [exact Es|discriminate]). rewrite IH. reflexivity.
Qed.
Lemma last_segment_noslash n : has_byte SLASH (last_segment n) = false.
Proof.
  unfold last_segment. induction n as [|x r IH]; [reflexivity|]. cbn [split_on].
  pose proof (split_on_nonempty SLASH r) as Hn. destruct (split_on SLASH r) as [|h t] eqn:Es; [contradiction|].
  destruct (x =? SLASH) eqn:E; [exact IH|].
  destruct t as [|h2 t]; [|exact IH]. cbn [last] in *. unfold has_byte. cbn [existsb]. rewrite E. exact IH.
Qed.
Lemma has_suffix_split s x : has_suffix s x = true <-> exists a, s = a ++ x.
Proof.
  unfold has_suffix. split.
  - intros H. destruct (has_prefix_split _ _ H) as [y Hy]. exists (rev y).
    rewrite <- (rev_involutive s), Hy, rev_app_distr, rev_involutive. reflexivity.
  - intros [a ->]. rewrite rev_app_distr. apply has_prefix_app.
Qed.
(* e = "." ++ t with neither "." nor "/" in t: the extension of a name is e exactly when its last segment ends with e *)
Lemma ext_is_suffix n t : has_byte SLASH t = false -> has_byte DOT t = false ->
  bytes_eqb (path_ext n) (DOT :: t) = has_suffix (last_segment n) (DOT :: t).
Proof.
  intros Hs Hd. rewrite path_ext_last_segment. set (sg := last_segment n).
  apply eq_true_iff_eq. rewrite beq_eq, has_suffix_split. split.
  - intros E. destruct (path_ext_suffix sg) as [a Ha]. exists a. rewrite <- E. exact Ha.
  - intros [a Ha]. rewrite Ha. apply path_ext_dot_tail; assumption.
Qed.
Lemma keepfile_eq_conventional n : vsix_keep_file n = negb (conv_sig_related n).
Proof.
  unfold vsix_keep_file, conv_sig_related, ends_with_ext.
  change [46; 114; 101; 108; 115] with (DOT :: [114; 101; 108; 115]).
  change [46; 112; 115; 100; 115; 120; 115] with (DOT :: [112; 115; 100; 115; 120; 115]).
  change [46; 112; 115; 100; 111; 114] with (DOT :: [112; 115; 100; 111; 114]).
  change s_rels_ext with (DOT :: [114; 101; 108; 115]).
  rewrite !ext_is_suffix by reflexivity.
  change ([95; 114; 101; 108; 115] ++ [47]) with (s_rels_dir ++ [SLASH]).
  destruct (bytes_eqb n (s_rels_dir ++ [SLASH])), (bytes_eqb n _), (has_suffix _ (DOT :: [114; 101; 108; 115])), (has_suffix _ (DOT :: [112; 115; 100; 115; 120; 115])),
    (has_suffix _ (DOT :: [112; 115; 100; 111; 114])), (has_prefix n _); reflexivity.
Qed.

(* ================================================================== against the specification's classes *)
Definition digsig_prefix : bytes := vsix_digsig_path ++ [SLASH].
Definition has_upper (n : bytes) : bool := existsb (fun c => (65 <=? c) && (c <=? 90)) n.
(* the conventional layout: every signature-related part the package's relationships name lives below /package/services/digital-signature/,
   names in lower case *)
Definition conventional (sp : sigparts) : Prop :=
  Forall (fun x => has_prefix x digsig_prefix = true /\ has_upper x = false /\ spec_part_name_ok x = true) (sp_origins sp ++ sp_sigs sp ++ sp_certs sp).
Definition exact_sig (sp : sigparts) (n : bytes) : bool :=
  existsb (bytes_eqb n) (sp_origins sp ++ sp_sigs sp ++ sp_certs sp) || existsb (fun x => bytes_eqb n (spec_rels_of x)) (sp_origins sp ++ sp_sigs sp).
(* the domain on which relic's rule and the specification agree: part names in lower case (except the content types stream under its exact name)
   that are no relationships parts, and that look like signature infrastructure only if they are *)
Definition std_name (sp : sigparts) (n : bytes) : bool :=
  spec_part_name_ok n && negb (has_upper n) && negb (spec_is_rels_part n) && negb (bytes_eqb n (to_lower vsix_content_types_path))
  && (negb (conv_sig_related n) || exact_sig sp n).

Lemma to_lower_noupper n : has_upper n = false -> to_lower n = n.
Proof.
  induction n as [|c r IH]; [reflexivity|]. unfold has_upper, to_lower. cbn [existsb map]. intros H. apply orb_false_iff in H as [H1 H2].
  rewrite H1. f_equal. apply IH. exact H2.
Qed.
Lemma ieq_noupper a b : has_upper a = false -> has_upper b = false -> ieq a b = bytes_eqb a b.
Proof. intros Ha Hb. unfold ieq. rewrite (to_lower_noupper _ Ha), (to_lower_noupper _ Hb). reflexivity. Qed.
Lemma existsb_ext_in {A} (f g : A -> bool) l : (forall x, In x l -> f x = g x) -> existsb f l = existsb g l.
Proof.
  induction l as [|x l IH]; intros H; [reflexivity|]. cbn. rewrite (H x (or_introl eq_refl)), IH; [reflexivity|].
  intros y Hy. apply H. right. exact Hy.
Qed.
(* the relationships part of a part below the signature folder is below the signature folder *)
Lemma split_on_prefix_digsig x : has_prefix x digsig_prefix = true ->
  exists r, split_on SLASH x = [112; 97; 99; 107; 97; 103; 101] :: [115; 101; 114; 118; 105; 99; 101; 115] :: [100; 105; 103; 105; 116; 97; 108; 45; 115; 105; 103; 110; 97; 116; 117; 114; 101] :: split_on SLASH r /\
            x = digsig_prefix ++ r.
Proof.
  intros H. destruct (has_prefix_split _ _ H) as [r ->]. exists r. split; [|reflexivity].
  change (digsig_prefix ++ r) with ([112; 97; 99; 107; 97; 103; 101] ++ SLASH :: ([115; 101; 114; 118; 105; 99; 101; 115] ++ SLASH :: ([100; 105; 103; 105; 116; 97; 108; 45; 115; 105; 103; 110; 97; 116; 117; 114; 101] ++ SLASH :: r))).
  rewrite !split_on_app by reflexivity. reflexivity.
Qed.
Lemma rels_of_keeps_prefix x : has_prefix x digsig_prefix = true -> has_prefix (spec_rels_of x) digsig_prefix = true.
Proof.
  intros H. destruct (split_on_prefix_digsig x H) as [r [Hs _]]. unfold spec_rels_of. rewrite Hs.
  pose proof (split_on_nonempty SLASH r) as Hn.
  destruct (rev (split_on SLASH r)) as [|lastseg rd] eqn:Er.
  { exfalso. apply Hn. rewrite <- (rev_involutive (split_on SLASH r)), Er. reflexivity. }
  cbn [rev]. rewrite Er. repeat rewrite <- app_assoc. cbn [app]. try rewrite rev_app_distr. cbn [rev app].
  repeat rewrite <- app_assoc. cbn [app].
  destruct (rev rd ++ [s_rels_dir; lastseg ++ s_rels_ext]) as [|t0 tl0] eqn:Et; [destruct (rev rd); discriminate|].
  reflexivity.
Qed.
Lemma conv_of_prefix n : has_prefix n digsig_prefix = true -> conv_sig_related n = true.
Proof. intros H. unfold conv_sig_related. change (has_prefix n _) with (has_prefix n digsig_prefix) at 1. rewrite H. rewrite !orb_true_r. reflexivity. Qed.

(* C08: whatever the package's relationships make signature related (conventional layout, names taken literally) is removed by signing *)
Lemma sig_related_is_dropped sp n : conventional sp -> exact_sig sp n = true -> vsix_keep_file n = false.
Proof.
  intros Hc He. rewrite keepfile_eq_conventional. apply negb_false_iff. apply conv_of_prefix.
  unfold exact_sig in He. apply orb_true_iff in He as [He|He]; apply existsb_exists in He as [x [Hin Hx]]; apply beq_eq in Hx; subst n.
  - unfold conventional in Hc. rewrite Forall_forall in Hc. exact (proj1 (Hc x Hin)).
  - apply rels_of_keeps_prefix. unfold conventional in Hc. rewrite Forall_forall in Hc. apply (Hc x).
    rewrite app_assoc. apply in_or_app. left. exact Hin.
Qed.

Lemma rels_of_is_rels_part x : spec_part_name_ok x = true -> spec_is_rels_part (spec_rels_of x) = true.
Proof.
  intros Hok. unfold spec_rels_of, spec_is_rels_part.
  pose proof (split_on_nonempty SLASH x) as Hn.
  destruct (rev (split_on SLASH x)) as [|lastseg rd] eqn:Er.
  { exfalso. apply Hn. rewrite <- (rev_involutive (split_on SLASH x)), Er. reflexivity. }
  assert (Hf : Forall (fun sg => has_byte SLASH sg = false) (rev rd ++ [s_rels_dir; lastseg ++ s_rels_ext])).
  { assert (Hall : Forall (fun sg => has_byte SLASH sg = false) (split_on SLASH x)).
    { clear. induction x as [|c r IH]; [repeat constructor|]. cbn [split_on]. destruct (c =? SLASH) eqn:E; [constructor; [reflexivity|exact IH]|].
      pose proof (split_on_nonempty SLASH r) as Hn. destruct (split_on SLASH r) as [|h t]; [contradiction|]. inversion IH; subst. constructor; [|assumption].
      unfold has_byte. cbn [existsb]. rewrite E. assumption. }
    rewrite <- (rev_involutive (split_on SLASH x)), Er in Hall. cbn [rev] in Hall. apply Forall_app in Hall as [H1 H2]. inversion H2; subst.
    apply Forall_app. split; [exact H1|]. constructor; [reflexivity|]. constructor; [|constructor]. rewrite has_byte_app. rewrite H3. reflexivity. }
  rewrite split_join by (try exact Hf; destruct (rev rd); discriminate).
  rewrite rev_app_distr. cbn [rev app]. unfold ieq. rewrite beq_refl. cbn [andb].
  unfold to_lower. rewrite map_app. apply has_suffix_split. eexists. reflexivity.
Qed.

(* C03 / C08: on the standard domain a member is kept (and signed) exactly when the specification classifies it as a payload part *)
Lemma classification_eq_spec sp n : conventional sp -> std_name sp n = true -> (vsix_keep_file n = true <-> spec_class sp n = C_PART).
Proof.
  intros Hc Hs. unfold std_name in Hs. repeat (apply andb_true_iff in Hs as [Hs ?]).
  rename H into Hsig, H0 into Hnct, H1 into Hnrels, H2 into Hnup, Hs into Hok.
  apply negb_true_iff in Hnct, Hnrels, Hnup.
  assert (Hct : spec_is_ct_stream n = false).
  { unfold spec_is_ct_stream, ieq. rewrite (to_lower_noupper _ Hnup). exact Hnct. }
  assert (Hroot : ieq n (spec_rels_of []) = false).
  { destruct (ieq n (spec_rels_of [])) eqn:E; [|reflexivity]. exfalso.
    unfold ieq in E. rewrite (to_lower_noupper _ Hnup) in E. apply beq_eq in E. subst n. vm_compute in Hnrels. discriminate. }
  assert (Hmem : mem_i n (sp_origins sp ++ sp_sigs sp ++ sp_certs sp) || existsb (fun x => ieq n (spec_rels_of x)) (sp_origins sp ++ sp_sigs sp) = exact_sig sp n).
  { unfold mem_i, exact_sig. unfold conventional in Hc. rewrite Forall_forall in Hc. f_equal.
    - apply existsb_ext_in. intros x Hx. apply ieq_noupper; [exact Hnup|exact (proj1 (proj2 (Hc x Hx)))].
    - apply existsb_ext_in. intros x Hx.
      assert (Hx' : In x (sp_origins sp ++ sp_sigs sp ++ sp_certs sp)) by (rewrite app_assoc; apply in_or_app; left; exact Hx).
      destruct (ieq n (spec_rels_of x)) eqn:E.
      + (* n would be a relationships part *)
        exfalso. pose proof (rels_of_is_rels_part x (proj2 (proj2 (Hc x Hx')))) as Hr.
        assert (spec_is_rels_part n = true); [|congruence].
        unfold ieq in E. apply beq_eq in E.
        (* spec_is_rels_part only looks at lower-cased segments: it is invariant under ASCII case *)
        assert (Inv : forall a b, to_lower a = to_lower b -> spec_is_rels_part a = spec_is_rels_part b).
        { clear. intros a b Hab. unfold spec_is_rels_part.
          assert (Hsp : forall s, map to_lower (split_on SLASH s) = split_on SLASH (to_lower s)).
          { induction s as [|c r IH]; [reflexivity|]. cbn [split_on to_lower map].
            assert (Ec : ((if (65 <=? c) && (c <=? 90) then c + 32 else c) =? SLASH) = (c =? SLASH)).
            { unfold SLASH. destruct ((65 <=? c) && (c <=? 90)) eqn:Eu; [|reflexivity]. lia. }
            rewrite Ec. destruct (c =? SLASH); [cbn [map]; rewrite IH; reflexivity|].
            fold (to_lower r). rewrite <- IH. destruct (split_on SLASH r); reflexivity. }
          assert (Hl : forall l, match rev l with lastseg :: dir :: _ => ieq dir s_rels_dir && has_suffix (to_lower lastseg) s_rels_ext | _ => false end =
                                 match rev (map to_lower l) with lastseg :: dir :: _ => ieq dir s_rels_dir && has_suffix (to_lower lastseg) s_rels_ext | _ => false end).
          { intros l. rewrite <- map_rev. destruct (rev l) as [|x [|y t]]; [reflexivity|reflexivity|]. cbn [map].
            unfold ieq. assert (Idem : forall z, to_lower (to_lower z) = to_lower z).
            { induction z as [|c r IH]; [reflexivity|]. cbn [to_lower map]. fold (to_lower r). fold (to_lower (to_lower r)). rewrite IH. f_equal.
              destruct ((65 <=? c) && (c <=? 90)) eqn:Eu; [|rewrite Eu; reflexivity].
              assert (((65 <=? c + 32) && (c + 32 <=? 90)) = false) by lia. rewrite H. reflexivity. }
            rewrite !Idem. reflexivity. }
          rewrite (Hl (split_on SLASH a)), (Hl (split_on SLASH b)), !Hsp, Hab. reflexivity. }
        rewrite (Inv n (spec_rels_of x) E). exact Hr.
      + symmetry. apply beq_neq. intros ->. unfold ieq in E. rewrite beq_refl in E. discriminate. }
  unfold spec_class. rewrite Hct, Hok. cbn [negb]. rewrite Hmem, Hroot, Hnrels.
  rewrite keepfile_eq_conventional.
  destruct (exact_sig sp n) eqn:Ee.
  - split; [|discriminate]. intros Hk. exfalso. pose proof (sig_related_is_dropped sp n Hc Ee) as Hd.
    rewrite keepfile_eq_conventional in Hd. congruence.
  - rewrite orb_false_r in Hsig. rewrite Hsig. split; reflexivity.
Qed.

(* ---- where they differ: witnesses (each is replayed on the real code by the harness) *)
Definition sp_none : sigparts := mkSP [] [] [].
Definition n_part_rels : bytes := [99; 111; 110; 116; 101; 110; 116; 47; 95; 114; 101; 108; 115; 47; 100; 111; 99; 46; 120; 109; 108; 46; 114; 101; 108; 115].   (* content/_rels/doc.xml.rels *)
Definition n_root_rels : bytes := [95; 114; 101; 108; 115; 47; 46; 114; 101; 108; 115].                                                                              (* _rels/.rels *)
Definition n_psdor : bytes := [100; 111; 99; 115; 47; 114; 101; 97; 100; 109; 101; 46; 112; 115; 100; 111; 114].                                                    (* docs/readme.psdor *)
Definition n_folder : bytes := digsig_prefix ++ [110; 111; 116; 101; 115; 46; 116; 120; 116].                                                                         (* package/services/digital-signature/notes.txt *)
Definition n_dir : bytes := [108; 105; 98; 47].                                                                                                                       (* lib/ *)
Definition n_ct_lower : bytes := to_lower vsix_content_types_path.                                                                                                    (* [content_types].xml *)
Definition n_rels_upper : bytes := [95; 82; 69; 76; 83; 47; 46; 82; 69; 76; 83].                                                                                      (* _RELS/.RELS *)
Definition n_office_sig : bytes := [95; 120; 109; 108; 115; 105; 103; 110; 97; 116; 117; 114; 101; 115; 47; 115; 105; 103; 49; 46; 120; 109; 108].                    (* _xmlsignatures/sig1.xml *)
Definition sp_office : sigparts := mkSP [[95; 120; 109; 108; 115; 105; 103; 110; 97; 116; 117; 114; 101; 115; 47; 111; 114; 105; 103; 105; 110; 46; 115; 105; 103; 115]] [n_office_sig] [].
(* payload relationships (part level and package level) are dropped *)
Lemma rels_dropped_refuted : exists n1 n2, spec_class sp_none n1 = C_RELS /\ vsix_keep_file n1 = false /\ spec_class sp_none n2 = C_ROOT_RELS /\ vsix_keep_file n2 = false.
Proof. exists n_part_rels, n_root_rels. repeat split; vm_compute; reflexivity. Qed.
(* payload parts that use the extensions / the folder of signature infrastructure are dropped *)
Lemma sig_extension_payload_dropped_refuted : exists n1 n2, spec_class sp_none n1 = C_PART /\ vsix_keep_file n1 = false /\ spec_class sp_none n2 = C_PART /\ vsix_keep_file n2 = false.
Proof. exists n_psdor, n_folder. repeat split; vm_compute; reflexivity. Qed.
(* a ZIP item that is no part (a directory entry) is kept and, being kept, digested and referenced *)
Lemma directory_entry_signed_refuted : exists n, spec_class sp_none n = C_NOT_A_PART /\ vsix_keep_file n = true /\
  forall ovr ext, exists t, vsix_ref_uri ovr ext n = [47] ++ n ++ [63; 67; 111; 110; 116; 101; 110; 116; 84; 121; 112; 101; 61] ++ t.
Proof.
  exists n_dir. split; [vm_compute; reflexivity|]. split; [vm_compute; reflexivity|].
  intros. eexists. unfold vsix_ref_uri. cbv zeta. rewrite <- !app_assoc. reflexivity.
Qed.
(* names equivalent, ignoring ASCII case, to the content types stream / the package relationships part are kept as payload *)
Lemma case_variant_kept_refuted : spec_class sp_none n_ct_lower = C_CT_STREAM /\ vsix_keep_file n_ct_lower = true /\
  spec_class sp_none n_rels_upper = C_ROOT_RELS /\ vsix_keep_file n_rels_upper = true.
Proof. repeat split; vm_compute; reflexivity. Qed.
(* another tool's layout: its signature part is kept as payload (the relationships that led to it are dropped) *)
Lemma foreign_layout_kept_refuted : spec_class sp_office n_office_sig = C_SIG /\ vsix_keep_file n_office_sig = true.
Proof. split; vm_compute; reflexivity. Qed.
