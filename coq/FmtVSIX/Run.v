(* FmtVSIX/Run.v — evaluation of the model and of the specification side on harness cases.  input [kind ...]:
   kind 0: [0 name] -> [keep relpath ext base dir clean join conv_sig_related spec_part_name_ok spec_is_rels_part spec_is_ct_stream any_panic]
   kind 1: [1 defaults overrides names] (content types document in document order) ->
           [finds (ContentTypes.Find after Parse)  marshal (Parse then Marshal)  spec_finds ([1 type] | [0])  uris (Reference URI)  paths (part the URI resolves to)]
   kind 2: [2 pairs sha1tab] (Append each (zipPath, relType), Marshal) -> [status bytes]
   kind 3: [3 rels rtype source] -> [Find result; spec targets of that type resolved against source]
   kind 4: [4 members cttab htab sha1tab alg time detach fname chain] -> [status members]; the signature part's content is the list of its
           references, each field preceded by its 4-byte big-endian length: URI, DigestMethod algorithm, DigestValue (= the raw digest: base64 is the identity here)
   kind 5: [5 members relstab sigtab certtab htab b64tab] -> [status alg timestamped read_status]
   kind 6: [6 members relstab] -> [classes (one per member) origins sigs certs]
   tables: cttab [[content ok defaults overrides]], htab [[alg content digest]], sha1tab [[preimage digest]], relstab [[content ok [[target id type]]]],
           sigtab [[content ok keyid alg object sig_ok x509s ts(0 none, 1 valid, 2 invalid)]], certtab [[der keyid]], b64tab [[text ok decoded]] *)
From Relic Require Import Base.Prelude Base.Enc Base.Val FmtVSIX.Lib Generated.FmtVSIX_gen FmtVSIX.Model.
From Relic Require C19.Model.

Definition vpair (v : val) : bytes * bytes := (vb (vnth 0 v), vb (vnth 1 v)).
Definition vpairs (v : val) : list (bytes * bytes) := map vpair (vl v).
Definition vbs (v : val) : list bytes := map vb (vl v).
Definition vrel (v : val) : rel := mkRel (vb (vnth 0 v)) (vb (vnth 1 v)) (vb (vnth 2 v)).
Definition of_bytes_list (l : list bytes) : val := VL (map VB l).
Definition of_members (p : package) : val := VL (map (fun m => VL [VB (fst m); VB (snd m)]) p).
Definition res_status {A} (r : result A) : Z := match r with Ok _ => 0 | Err e => e | Panic p => 90 + p end.

Fixpoint tab_find (k : bytes) (rows : list val) : option val :=
  match rows with
  | [] => None
  | r :: t => if bytes_eqb (vb (vnth 0 r)) k then Some r else tab_find k t
  end.

Definition vattr (v : val) : Relic.C19.Model.attr := Relic.C19.Model.mkattr (vb (vnth 0 v)) (vb (vnth 1 v)) (vb (vnth 2 v)).
(* node encoding: [0 space tag [[space key value]...] [children]] | [1 chardata] | [2 comment] | [3 target inst] | [4 directive] *)
Fixpoint vnode (v : val) : node :=
  match v with
  | VL (VZ k :: rest) =>
      if k =? 0 then
        match rest with
        | VB sp :: VB tag :: VL attrs :: VL ch :: _ => Relic.C19.Model.Elem sp tag (map vattr attrs) (map vnode ch)
        | _ => Relic.C19.Model.CharData []
        end
      else match rest with
           | VB d :: more =>
               if k =? 1 then Relic.C19.Model.CharData d
               else if k =? 2 then Relic.C19.Model.Comment d
               else if k =? 3 then Relic.C19.Model.ProcInst d (match more with VB i :: _ => i | _ => [] end)
               else Relic.C19.Model.Directive d
           | _ => Relic.C19.Model.CharData []
           end
  | _ => Relic.C19.Model.CharData []
  end.

Definition be4 (n : Z) : bytes := be_enc 4 n.
Definition enc_field (b : bytes) : bytes := be4 (zlen b) ++ b.

Section Tables.
  Variables cttab htab sha1tab relstab sigtab certtab b64tab : list val.
  Definition Ht (alg : Z) (c : bytes) : bytes :=
    match find (fun r => (vz (vnth 0 r) =? alg) && bytes_eqb (vb (vnth 1 r)) c) htab with Some r => vb (vnth 2 r) | None => [] end.
  Definition sha1t (p : bytes) : bytes := match tab_find p sha1tab with Some r => vb (vnth 1 r) | None => [] end.
  Definition ct_readt (c : bytes) : option ctdoc :=
    match tab_find c cttab with Some r => if vbool (vnth 1 r) then Some (vpairs (vnth 2 r), vpairs (vnth 3 r)) else None | None => None end.
  Definition rels_readt (c : bytes) : option (list rel) :=
    match tab_find c relstab with Some r => if vbool (vnth 1 r) then Some (map vrel (vl (vnth 2 r))) else None | None => None end.
  Definition b64dt (t : bytes) : option bytes :=
    match tab_find t b64tab with Some r => if vbool (vnth 1 r) then Some (vb (vnth 2 r)) else None | None => None end.
  Definition cert_keyt (d : bytes) : option bytes := match tab_find d certtab with Some r => Some (vb (vnth 1 r)) | None => None end.
  (* signature values carry the two oracle answers: [signature verifies; timestamp token verifies] *)
  Definition xvrfyt (p : bytes) (m : bytes) (sv : bytes) : bool := nth 0 sv 0 =? 1.
  Definition ts_okt (tok : bytes) (sv : bytes) : bool := nth 1 sv 0 =? 1.
  Definition desert (c : bytes) : option (sigdoc bytes bytes) :=
    match tab_find c sigtab with
    | Some r => if vbool (vnth 1 r)
                then Some (mkSig bytes bytes (vb (vnth 2 r)) (vz (vnth 3 r)) (vnode (vnth 4 r))
                                 [vz (vnth 5 r); if vz (vnth 7 r) =? 2 then 0 else 1] (vbs (vnth 6 r))
                                 (if vz (vnth 7 r) =? 0 then None else Some [1]))
                else None
    | None => None
    end.
  (* the signature part the model writes, readable by the check: its references *)
  Definition sert (sd : sigdoc bytes bytes) : bytes :=
    flat_map (fun r => enc_field (mr_uri r) ++ enc_field (mr_alg r) ++ enc_field (mr_dv r)) (manifest_refs (sd_obj bytes bytes sd)).

  Definition run_sign (v : val) : val :=
    let pk := map vpair (vl (vnth 1 v)) in
    let o := mkOpts bytes (vz (vnth 5 v)) (vb (vnth 6 v)) (vbool (vnth 7 v)) None in
    let sg := mkSigner bytes [107] (vb (vnth 8 v)) (vpairs (vnth 9 v)) in
    let r := sign Ht sha1t (fun x => x) ct_readt bytes bytes bytes (fun k => k) (fun _ _ => [1; 1]) (fun _ _ => []) sert o sg pk in
    VL [VZ (res_status r); match r with Ok g => of_members g | _ => VL [] end].
  Definition run_verify (v : val) : val :=
    let pk := map vpair (vl (vnth 1 v)) in
    let r := verify Ht b64dt rels_readt bytes bytes bytes_eqb xvrfyt (fun _ _ => []) desert cert_keyt ts_okt pk in
    let rs := read_signature rels_readt bytes cert_keyt pk in
    VL [VZ (res_status r);
        match r with Ok x => VZ (v_alg bytes x) | _ => VZ 0 end;
        match r with Ok x => of_bool (v_timestamped bytes x) | _ => VZ 0 end;
        VZ (res_status rs)].
End Tables.

Definition any_panic (n : bytes) : bool :=
  vsix_keep_file_panics n || vsix_rel_path_panics n || vsix_rels_find_path_panics n || vsix_rels_target_panics n || vsix_sig_name_panics n || vsix_cert_path_panics n
  || vsix_ref_path_panics n || vsix_ct_find_panics [] [] n || vsix_ref_uri_panics [] [] n.
Definition run_name (n : bytes) : val :=
  VL [of_bool (vsix_keep_file n); VB (vsix_rel_path n); VB (path_ext n); VB (path_base n); VB (path_dir n); VB (path_clean n); VB (path_join [[46; 47] ++ n]);
      of_bool (conv_sig_related n); of_bool (spec_part_name_ok n); of_bool (spec_is_rels_part n); of_bool (spec_is_ct_stream n); of_bool (any_panic n)].
Definition run_ct (v : val) : val :=
  let d : ctdoc := (vpairs (vnth 1 v), vpairs (vnth 2 v)) in
  let c := ct_merge ct_empty d in
  let names := vbs (vnth 3 v) in
  VL [of_bytes_list (map (fun n => if vsix_ct_find_panics (ct_ovr c) (ct_ext c) n then [80; 65; 78; 73; 67] else vsix_ct_find (ct_ovr c) (ct_ext c) n) names);
      VB (ct_marshal (ct_doc_of c));
      VL (map (fun n => match spec_ct_of d n with Some t => VL [VZ 1; VB t] | None => VL [VZ 0] end) names);
      of_bytes_list (map (fun n => vsix_ref_uri (ct_ovr c) (ct_ext c) n) names);
      of_bytes_list (map (fun n => vsix_ref_path (vsix_ref_uri (ct_ovr c) (ct_ext c) n)) names)].
Definition run_rels (v : val) : val :=
  let sha := sha1t (vl (vnth 2 v)) in
  let r := fold_left (fun acc p => l <- acc ;; rels_append sha l (fst p) (snd p)) (vpairs (vnth 1 v)) (Ok []) in
  VL [VZ (res_status r); match r with Ok l => VB (rels_marshal l) | _ => VB [] end].
Definition run_find (v : val) : val :=
  let l := map vrel (vl (vnth 1 v)) in
  let rt := vb (vnth 2 v) in
  VL [VB (rels_find rt l); of_bytes_list (map (fun r => spec_resolve (vb (vnth 3 v)) (r_target r)) (filter (fun r => bytes_eqb (r_type r) rt) l))].
Definition run_classes (v : val) : val :=
  let pk := map vpair (vl (vnth 1 v)) in
  let sp := spec_sigparts (rels_readt (vl (vnth 2 v))) pk in
  VL [VZs (map (fun m => spec_class sp (fst m)) pk); of_bytes_list (sp_origins sp); of_bytes_list (sp_sigs sp); of_bytes_list (sp_certs sp)].

Definition run (v : val) : val :=
  let k := vz (vnth 0 v) in
  if k =? 0 then run_name (vb (vnth 1 v))
  else if k =? 1 then run_ct v
  else if k =? 2 then run_rels v
  else if k =? 3 then run_find v
  else if k =? 4 then run_sign (vl (vnth 2 v)) (vl (vnth 3 v)) (vl (vnth 4 v)) v
  else if k =? 5 then run_verify (vl (vnth 5 v)) (vl (vnth 2 v)) (vl (vnth 3 v)) (vl (vnth 4 v)) (vl (vnth 6 v)) v
  else run_classes v.
