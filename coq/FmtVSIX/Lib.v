(* FmtVSIX/Lib.v — byte-string versions of the Go library functions the VSIX signer calls (strings.HasPrefix, strings.IndexByte,
   path.Ext / Base / Dir / Clean / Join, sort.Strings, map[string]string), written from the Go documentation and sources of package
   path; the correspondence harness compares them with the real functions.  Plus the checks behind the generated `_panics`
   conditions (index_ok / slice_ok) and the lemmas the proofs need. *)
From Relic Require Import Base.Prelude.
From Coq Require Import Permutation Sorted.

Definition SLASH : Z := 47.
Definition DOT : Z := 46.

(* ------------------------------------------------------------------ indexing *)
Definition index_ok (i len : Z) : bool := (0 <=? i) && (i <? len).
Definition slice_ok (lo hi len : Z) : bool := (0 <=? lo) && (lo <=? hi) && (hi <=? len).
Definition nthz (s : bytes) (i : Z) : Z := nth (Z.to_nat i) s 0.

(* ------------------------------------------------------------------ strings *)
Fixpoint has_prefix (s p : bytes) {struct p} : bool :=
  match p with
  | [] => true
  | x :: p' => match s with y :: s' => (x =? y) && has_prefix s' p' | [] => false end
  end.
Fixpoint index_byte (s : bytes) (c : Z) : Z :=
  match s with
  | [] => -1
  | x :: r => if x =? c then 0 else let i := index_byte r c in if i <? 0 then -1 else i + 1
  end.
Definition has_byte (c : Z) (s : bytes) : bool := existsb (fun x => x =? c) s.
Definition to_lower (s : bytes) : bytes := map (fun c => if (65 <=? c) && (c <=? 90) then c + 32 else c) s.
Definition ieq (a b : bytes) : bool := bytes_eqb (to_lower a) (to_lower b).
Definition has_suffix (s x : bytes) : bool := has_prefix (rev s) (rev x).

Fixpoint split_on (c : Z) (s : bytes) : list bytes :=
  match s with
  | [] => [[]]
  | x :: r => if x =? c then [] :: split_on c r
              else match split_on c r with h :: t => (x :: h) :: t | [] => [[x]] end
  end.
Fixpoint join_with (c : Z) (l : list bytes) : bytes :=
  match l with
  | [] => []
  | [a] => a
  | a :: r => a ++ c :: join_with c r
  end.

(* ------------------------------------------------------------------ package path *)
(* Ext: the suffix beginning at the final dot in the final slash-separated element; empty if there is no dot *)
Fixpoint path_ext (p : bytes) : bytes :=
  match p with
  | [] => []
  | c :: r => match path_ext r with
              | [] => if (c =? DOT) && negb (has_byte SLASH r) then c :: r else []
              | e => e
              end
  end.
(* Clean *)
Definition is_dot (e : bytes) : bool := bytes_eqb e [DOT].
Definition is_dotdot (e : bytes) : bool := bytes_eqb e [DOT; DOT].
Fixpoint clean_elems (rooted : bool) (stack : list bytes) (elems : list bytes) : list bytes :=   (* stack: innermost first *)
  match elems with
  | [] => stack
  | e :: r =>
      if (zlen e =? 0) || is_dot e then clean_elems rooted stack r
      else if is_dotdot e then
        match stack with
        | top :: st' => if is_dotdot top then clean_elems rooted (e :: stack) r else clean_elems rooted st' r
        | [] => if rooted then clean_elems rooted [] r else clean_elems rooted [e] r
        end
      else clean_elems rooted (e :: stack) r
  end.
Definition path_clean (p : bytes) : bytes :=
  match p with
  | [] => [DOT]
  | c :: _ =>
      let rooted := c =? SLASH in
      let out := join_with SLASH (rev (clean_elems rooted [] (split_on SLASH p))) in
      if rooted then SLASH :: out else match out with [] => [DOT] | _ => out end
  end.
(* Join: empty elements are ignored, the result is cleaned; the empty string if there is nothing to join *)
Definition path_join (elems : list bytes) : bytes :=
  match filter (fun e => negb (zlen e =? 0)) elems with
  | [] => []
  | ne => path_clean (join_with SLASH ne)
  end.
(* Base: trailing slashes removed, then the last element; "." for the empty path, "/" for slashes only *)
Fixpoint drop_slashes (rs : bytes) : bytes :=
  match rs with c :: r => if c =? SLASH then drop_slashes r else rs | [] => [] end.
Definition path_base (p : bytes) : bytes :=
  match p with
  | [] => [DOT]
  | _ => match last (split_on SLASH (rev (drop_slashes (rev p)))) [] with
         | [] => [SLASH]
         | b => b
         end
  end.
(* Dir: everything up to and including the final slash, cleaned *)
Fixpoint keep_from_slash (rs : bytes) : bytes :=
  match rs with c :: r => if c =? SLASH then rs else keep_from_slash r | [] => [] end.
Definition path_dir (p : bytes) : bytes := path_clean (rev (keep_from_slash (rev p))).

(* ------------------------------------------------------------------ map[string]string with "" as the zero value; insertion order kept *)
Definition assoc := list (bytes * bytes).
Fixpoint aget (m : assoc) (k : bytes) : bytes :=
  match m with [] => [] | (k', v) :: r => if bytes_eqb k' k then v else aget r k end.
Fixpoint ahas (m : assoc) (k : bytes) : bool :=
  match m with [] => false | (k', _) :: r => bytes_eqb k' k || ahas r k end.
Fixpoint aset (m : assoc) (k v : bytes) : assoc :=
  match m with
  | [] => [(k, v)]
  | (k', v') :: r => if bytes_eqb k' k then (k, v) :: r else (k', v') :: aset r k v
  end.
Definition akeys (m : assoc) : list bytes := map fst m.

(* ------------------------------------------------------------------ sort.Strings (bytewise order; the result does not depend on the algorithm) *)
Fixpoint bytes_leb (a b : bytes) : bool :=
  match a, b with
  | [], _ => true
  | _ :: _, [] => false
  | x :: a', y :: b' => (x <? y) || ((x =? y) && bytes_leb a' b')
  end.
Fixpoint sins (k : bytes) (l : list bytes) : list bytes :=
  match l with [] => [k] | x :: r => if bytes_leb k x then k :: l else x :: sins k r end.
Definition ssort (l : list bytes) : list bytes := fold_right sins [] l.

(* ================================================================== lemmas *)
Lemma beq_refl a : bytes_eqb a a = true.
Proof. apply list_eqb_Z_eq. reflexivity. Qed.
Lemma beq_eq a b : bytes_eqb a b = true <-> a = b.
Proof. apply list_eqb_Z_eq. Qed.
Lemma beq_neq a b : bytes_eqb a b = false <-> a <> b.
Proof.
  split; intros H.
  - intros E. apply beq_eq in E. congruence.
  - destruct (bytes_eqb a b) eqn:E; [apply beq_eq in E; contradiction|reflexivity].
Qed.
Lemma beq_sym a b : bytes_eqb a b = bytes_eqb b a.
Proof.
  destruct (bytes_eqb a b) eqn:E.
  - apply beq_eq in E. subst. symmetry. apply beq_refl.
  - symmetry. apply beq_neq. apply beq_neq in E. congruence.
Qed.

Lemma has_prefix_app p x : has_prefix (p ++ x) p = true.
Proof. induction p as [|c p IH]; [reflexivity|]. cbn. rewrite Z.eqb_refl. exact IH. Qed.
Lemma has_prefix_split s p : has_prefix s p = true -> exists x, s = p ++ x.
Proof.
  revert s; induction p as [|c p IH]; intros s H; [exists s; reflexivity|].
  destruct s as [|y s]; [discriminate|]. cbn in H. apply andb_true_iff in H as [H1 H2].
  apply Z.eqb_eq in H1. subst y. destruct (IH _ H2) as [x ->]. exists x. reflexivity.
Qed.

(* --- index_byte *)
Lemma index_byte_range s c : -1 <= index_byte s c < zlen s \/ (s = [] /\ index_byte s c = -1).
Proof.
  induction s as [|x r IH]; [right; split; reflexivity|]. left. cbn [index_byte]. rewrite zlen_cons.
  destruct (x =? c); [pose proof (zlen_nonneg r); lia|].
  destruct (index_byte r c <? 0) eqn:E; [pose proof (zlen_nonneg r); lia|].
  destruct IH as [IH|[-> IH]]; [lia|]. cbn in E. discriminate.
Qed.
Lemma index_byte_le s c : index_byte s c <= zlen s.
Proof. destruct (index_byte_range s c) as [H|[-> H]]; [lia|]. rewrite H. cbn. lia. Qed.
Lemma index_byte_ge s c : -1 <= index_byte s c.
Proof. destruct (index_byte_range s c) as [H|[-> H]]; [lia|]. rewrite H. lia. Qed.
Lemma index_byte_none s c : has_byte c s = false -> index_byte s c = -1.
Proof.
  induction s as [|x r IH]; [reflexivity|]. cbn. intros H. apply orb_false_iff in H as [H1 H2].
  rewrite H1, (IH H2). reflexivity.
Qed.
(* the first occurrence: s = a ++ c :: b with no c in a *)
Lemma index_byte_first a c b : has_byte c a = false -> index_byte (a ++ c :: b) c = zlen a.
Proof.
  induction a as [|x a IH]; intros H.
  - cbn. rewrite Z.eqb_refl. reflexivity.
  - cbn in H. apply orb_false_iff in H as [H1 H2]. cbn [app index_byte]. rewrite H1, (IH H2), zlen_cons.
    destruct (zlen a <? 0) eqn:E; [pose proof (zlen_nonneg a); lia|lia].
Qed.

(* --- split / join *)
Lemma split_on_nonempty c s : split_on c s <> [].
Proof. destruct s as [|x r]; cbn; [discriminate|]. destruct (x =? c); [discriminate|]. destruct (split_on c r); discriminate. Qed.
Lemma split_on_no c s : has_byte c s = false -> split_on c s = [s].
Proof.
  induction s as [|x r IH]; [reflexivity|]. cbn. intros H. apply orb_false_iff in H as [H1 H2].
  rewrite H1, (IH H2). reflexivity.
Qed.
Lemma split_on_cons_sep c b : split_on c (c :: b) = [] :: split_on c b.
Proof. cbn. rewrite Z.eqb_refl. reflexivity. Qed.
Lemma split_on_app c a b : has_byte c a = false -> split_on c (a ++ c :: b) = a :: split_on c b.
Proof.
  induction a as [|x a IH]; intros H; [apply split_on_cons_sep|].
  cbn in H. apply orb_false_iff in H as [H1 H2]. cbn [app split_on]. rewrite H1, (IH H2). reflexivity.
Qed.
Lemma split_join c l : l <> [] -> Forall (fun e => has_byte c e = false) l -> split_on c (join_with c l) = l.
Proof.
  induction l as [|a l IH]; intros Hn Hf; [contradiction|]. inversion Hf as [|? ? Ha Hl]; subst.
  destruct l as [|b l]; [cbn; apply split_on_no; exact Ha|].
  change (join_with c (a :: b :: l)) with (a ++ c :: join_with c (b :: l)).
  rewrite split_on_app by exact Ha. rewrite IH by (try discriminate; assumption). reflexivity.
Qed.
Lemma join_split c s : join_with c (split_on c s) = s.
Proof.
  induction s as [|x r IH]; [reflexivity|]. cbn [split_on].
  destruct (x =? c) eqn:E.
  - apply Z.eqb_eq in E. subst x. pose proof (split_on_nonempty c r) as Hn.
    destruct (split_on c r) as [|h t] eqn:Es; [contradiction|]. cbn [join_with app]. cbn [join_with] in IH. rewrite IH. reflexivity.
  - pose proof (split_on_nonempty c r) as Hn. destruct (split_on c r) as [|h t] eqn:Es; [contradiction|].
    destruct t as [|h2 t]; cbn [join_with] in *; [rewrite IH; reflexivity|]. cbn [app]. rewrite IH. reflexivity.
Qed.
Lemma has_byte_app c a b : has_byte c (a ++ b) = has_byte c a || has_byte c b.
Proof. unfold has_byte. apply existsb_app. Qed.
Lemma join_app c l1 l2 : l1 <> [] -> l2 <> [] -> join_with c (l1 ++ l2) = join_with c l1 ++ c :: join_with c l2.
Proof.
  induction l1 as [|a l1 IH]; intros H1 H2; [contradiction|].
  destruct l1 as [|b l1].
  - destruct l2 as [|x l2]; [contradiction|]. reflexivity.
  - change ((a :: b :: l1) ++ l2) with (a :: (b :: l1) ++ l2).
    change (join_with c (a :: (b :: l1) ++ l2)) with (a ++ c :: join_with c ((b :: l1) ++ l2)).
    rewrite IH by (try discriminate; assumption).
    change (join_with c (a :: b :: l1)) with (a ++ c :: join_with c (b :: l1)). rewrite <- app_assoc. reflexivity.
Qed.

(* --- clean *)
(* a normal element: not empty, not "." and not ".." *)
Definition normal (e : bytes) : bool := negb (zlen e =? 0) && negb (is_dot e) && negb (is_dotdot e).
Lemma clean_elems_app rooted st l1 l2 : clean_elems rooted st (l1 ++ l2) = clean_elems rooted (clean_elems rooted st l1) l2.
Proof.
  revert st; induction l1 as [|e l1 IH]; intros st; [reflexivity|]. cbn [app clean_elems].
  destruct ((zlen e =? 0) || is_dot e); [apply IH|].
  destruct (is_dotdot e); [|apply IH].
  destruct st as [|top st']; [destruct rooted; apply IH|]. destruct (is_dotdot top); apply IH.
Qed.
Lemma clean_elems_normal rooted st l : Forall (fun e => normal e = true) l -> clean_elems rooted st l = rev l ++ st.
Proof.
  revert st; induction l as [|e l IH]; intros st H; [reflexivity|]. inversion H as [|? ? He Hl]; subst.
  unfold normal in He. apply andb_true_iff in He as [He H3]. apply andb_true_iff in He as [H1 H2].
  cbn [clean_elems]. apply negb_true_iff in H1, H2, H3. rewrite H1, H2, H3. cbn [orb].
  rewrite IH by exact Hl. cbn [rev]. rewrite <- app_assoc. reflexivity.
Qed.
(* a path made of normal elements (relative, no trailing slash) *)
Definition npath (l : list bytes) : Prop := l <> [] /\ Forall (fun e => normal e = true /\ has_byte SLASH e = false) l.
Lemma npath_normal l : npath l -> Forall (fun e => normal e = true) l.
Proof. intros [_ H]. eapply Forall_impl; [|exact H]. intros e [A _]. exact A. Qed.
Lemma npath_noslash l : npath l -> Forall (fun e => has_byte SLASH e = false) l.
Proof. intros [_ H]. eapply Forall_impl; [|exact H]. intros e [_ A]. exact A. Qed.
Lemma join_nonempty l : npath l -> join_with SLASH l <> [].
Proof.
  intros [Hn Hf]. destruct l as [|a l]; [contradiction|]. inversion Hf as [|? ? [Ha _] _]; subst.
  unfold normal in Ha. destruct a as [|x a]; [cbn in Ha; discriminate|]. destruct l; cbn; discriminate.
Qed.
Lemma join_head_not_slash l : npath l -> exists x r, join_with SLASH l = x :: r /\ (x =? SLASH) = false.
Proof.
  intros [Hn Hf]. destruct l as [|a l]; [contradiction|]. inversion Hf as [|? ? [Ha Hs] _]; subst.
  destruct a as [|x a]; [cbn in Ha; discriminate|]. cbn in Hs. apply orb_false_iff in Hs as [Hx _].
  exists x. destruct l; cbn [join_with app]; eexists; (split; [reflexivity|exact Hx]).
Qed.
Lemma split_join_npath l : npath l -> split_on SLASH (join_with SLASH l) = l.
Proof. intros H. apply split_join; [exact (proj1 H)|apply npath_noslash; exact H]. Qed.
Lemma clean_npath l : npath l -> path_clean (join_with SLASH l) = join_with SLASH l.
Proof.
  intros H. destruct (join_head_not_slash l H) as [x [r [E Hx]]]. unfold path_clean. rewrite E, Hx. rewrite <- E.
  rewrite split_join_npath by exact H.
  rewrite clean_elems_normal by (apply npath_normal; exact H). rewrite app_nil_r, rev_involutive.
  rewrite E. reflexivity.
Qed.
Lemma clean_rooted_npath l : npath l -> path_clean (SLASH :: join_with SLASH l) = SLASH :: join_with SLASH l.
Proof.
  intros H. unfold path_clean. change (SLASH =? SLASH) with true. cbv iota.
  rewrite split_on_cons_sep. rewrite split_join_npath by exact H.
  cbn [clean_elems zlen length Z.of_nat Z.eqb orb]. rewrite clean_elems_normal by (apply npath_normal; exact H).
  rewrite app_nil_r, rev_involutive. reflexivity.
Qed.
(* "./" ++ "/" ++ p : what Find makes of the Target Append wrote, and what checkManifest makes of a Reference URI *)
Lemma clean_dot_slash_slash_npath l : npath l -> path_clean (DOT :: SLASH :: SLASH :: join_with SLASH l) = join_with SLASH l.
Proof.
  intros H. unfold path_clean. change (DOT =? SLASH) with false. cbv iota.
  change (DOT :: SLASH :: SLASH :: join_with SLASH l) with ([DOT] ++ SLASH :: ([] ++ SLASH :: join_with SLASH l)).
  rewrite split_on_app by reflexivity. rewrite split_on_app by reflexivity.
  rewrite split_join_npath by exact H.
  change (clean_elems false [] ([DOT] :: [] :: l)) with (clean_elems false [] l).
  rewrite clean_elems_normal by (apply npath_normal; exact H). rewrite app_nil_r, rev_involutive.
  destruct (join_with SLASH l) eqn:E; [exfalso; exact (join_nonempty l H E)|reflexivity].
Qed.
Lemma npath_app l1 l2 : npath l1 -> npath l2 -> npath (l1 ++ l2).
Proof.
  intros [N1 F1] [N2 F2]. split; [destruct l1; [contradiction|discriminate]|]. apply Forall_app. split; assumption.
Qed.
Lemma path_join2_npath l1 e : npath l1 -> npath [e] -> path_join [join_with SLASH l1; e] = join_with SLASH (l1 ++ [e]).
Proof.
  intros H1 H2. unfold path_join. cbn [filter].
  assert (A : (zlen (join_with SLASH l1) =? 0) = false).
  { pose proof (join_nonempty l1 H1). destruct (join_with SLASH l1) as [|x0 t0]; [contradiction|]. rewrite zlen_cons. pose proof (zlen_nonneg t0). lia. }
  assert (B : (zlen e =? 0) = false).
  { destruct H2 as [_ F]. inversion F as [|? ? [Hn _] _]; subst. unfold normal in Hn. destruct (zlen e =? 0); [discriminate|reflexivity]. }
  rewrite A, B. cbn [negb]. change (join_with SLASH [join_with SLASH l1; e]) with (join_with SLASH l1 ++ SLASH :: join_with SLASH [e]).
  rewrite <- join_app by (first [exact (proj1 H1)|discriminate]). apply clean_npath. apply npath_app; assumption.
Qed.

(* --- ext *)
Lemma path_ext_suffix p : exists a, p = a ++ path_ext p.
Proof.
  induction p as [|c r [a IH]]; [exists []; reflexivity|]. cbn [path_ext].
  destruct (path_ext r) as [|e0 e] eqn:E.
  - destruct ((c =? DOT) && negb (has_byte SLASH r)); [exists []; reflexivity|exists (c :: r); rewrite app_nil_r; reflexivity].
  - exists (c :: a). cbn [app]. f_equal. exact IH.
Qed.
Lemma path_ext_nil_nodot r : path_ext r = [] -> has_byte SLASH r = false -> has_byte DOT r = false.
Proof.
  induction r as [|x r IH]; intros He Hs; [reflexivity|].
  cbn [path_ext] in He. unfold has_byte in Hs. cbn [existsb] in Hs. apply orb_false_iff in Hs as [Hs1 Hs2]. fold (has_byte SLASH r) in Hs2.
  destruct (path_ext r) eqn:E; [|discriminate]. rewrite Hs2 in He. cbn [negb] in He. rewrite andb_true_r in He.
  destruct (x =? DOT) eqn:Ex; [discriminate|]. unfold has_byte. cbn [existsb]. rewrite Ex. cbn [orb]. apply IH; [reflexivity|exact Hs2].
Qed.
Lemma path_ext_head p : path_ext p = [] \/ exists r, path_ext p = DOT :: r /\ has_byte SLASH r = false /\ has_byte DOT r = false.
Proof.
  induction p as [|c r IH]; [left; reflexivity|]. cbn [path_ext].
  destruct IH as [IH|[t [IH [H1 H2]]]].
  - rewrite IH. destruct (c =? DOT) eqn:Ec; cbn [andb]; [|left; reflexivity].
    destruct (has_byte SLASH r) eqn:Es; cbn [negb]; [left; reflexivity|]. right. apply Z.eqb_eq in Ec. subst c. exists r.
    split; [reflexivity|]. split; [exact Es|]. apply path_ext_nil_nodot; assumption.
  - rewrite IH. right. exists t. split; [reflexivity|]. split; assumption.
Qed.
Lemma path_ext_index_ok p : bytes_eqb (path_ext p) [] = false -> index_ok 0 (zlen (path_ext p)) = true /\ slice_ok 1 (zlen (path_ext p)) (zlen (path_ext p)) = true.
Proof.
  intros H. destruct (path_ext p) as [|x e]; [discriminate|]. rewrite zlen_cons. pose proof (zlen_nonneg e).
  unfold index_ok, slice_ok. split; lia.
Qed.
(* the extension of  a ++ e  where e is the last element (no slash in it) *)
Lemma path_ext_noslash_app a e : has_byte SLASH e = false -> path_ext e <> [] -> path_ext (a ++ e) = path_ext e.
Proof.
  intros Hs Hne. induction a as [|c a IH]; [reflexivity|]. cbn [app path_ext]. rewrite IH.
  destruct (path_ext e); [contradiction|reflexivity].
Qed.
Lemma path_ext_dot_tail e t : has_byte SLASH t = false -> has_byte DOT t = false -> path_ext (e ++ DOT :: t) = DOT :: t.
Proof.
  intros Hs Hd.
  assert (T : path_ext t = []).
  { clear Hs. induction t as [|x t IHt]; [reflexivity|]. cbn in Hd. apply orb_false_iff in Hd as [H1 H2]. cbn [path_ext]. rewrite (IHt H2), H1. reflexivity. }
  assert (B : path_ext (DOT :: t) = DOT :: t).
  { cbn [path_ext]. rewrite T, Hs. reflexivity. }
  induction e as [|c e IH]; [exact B|]. cbn [app path_ext]. rewrite IH. reflexivity.
Qed.

(* --- assoc *)
Lemma aget_aset_same m k v : aget (aset m k v) k = v.
Proof.
  induction m as [|[k' v'] m IH]; cbn; [rewrite beq_refl; reflexivity|].
  destruct (bytes_eqb k' k) eqn:E; cbn; [rewrite beq_refl; reflexivity|rewrite E; exact IH].
Qed.
Lemma aget_aset_other m k v k2 : k2 <> k -> aget (aset m k v) k2 = aget m k2.
Proof.
  intros Hn. induction m as [|[k' v'] m IH]; cbn.
  - assert (E : bytes_eqb k k2 = false) by (apply beq_neq; congruence). rewrite E. reflexivity.
  - destruct (bytes_eqb k' k) eqn:E; cbn.
    + apply beq_eq in E. subst k'. assert (E2 : bytes_eqb k k2 = false) by (apply beq_neq; congruence). rewrite E2. reflexivity.
    + destruct (bytes_eqb k' k2); [reflexivity|exact IH].
Qed.
Lemma ahas_aset m k v k2 : ahas (aset m k v) k2 = bytes_eqb k k2 || ahas m k2.
Proof.
  induction m as [|[k' v'] m IH]; cbn; [rewrite orb_false_r; reflexivity|].
  destruct (bytes_eqb k' k) eqn:E; cbn.
  - apply beq_eq in E. subst k'. destruct (bytes_eqb k k2); reflexivity.
  - rewrite IH. destruct (bytes_eqb k' k2), (bytes_eqb k k2); reflexivity.
Qed.
Lemma ahas_in m k : ahas m k = true <-> In k (akeys m).
Proof.
  induction m as [|[k' v'] m IH]; cbn; [split; [discriminate|contradiction]|].
  rewrite orb_true_iff, IH, beq_eq. reflexivity.
Qed.
Lemma akeys_aset_nodup m k v : NoDup (akeys m) -> NoDup (akeys (aset m k v)).
Proof.
  induction m as [|[k' v'] m IH]; intros H; cbn; [constructor; [intros []|constructor]|].
  inversion H as [|? ? Hni Hnd]; subst. destruct (bytes_eqb k' k) eqn:E; cbn.
  - apply beq_eq in E. subst k'. constructor; assumption.
  - constructor; [|apply IH; exact Hnd]. intros Hin. apply ahas_in in Hin. rewrite ahas_aset in Hin.
    apply orb_true_iff in Hin as [Hin|Hin]; [apply beq_eq in Hin; subst; rewrite beq_refl in E; discriminate|apply ahas_in in Hin; contradiction].
Qed.

(* --- sort *)
Lemma sins_perm k l : Permutation (k :: l) (sins k l).
Proof.
  induction l as [|x r IH]; [apply Permutation_refl|]. cbn. destruct (bytes_leb k x); [apply Permutation_refl|].
  eapply perm_trans; [apply perm_swap|]. apply perm_skip. exact IH.
Qed.
Lemma ssort_perm l : Permutation l (ssort l).
Proof.
  induction l as [|x r IH]; [apply Permutation_refl|]. cbn. eapply perm_trans; [|apply sins_perm]. apply perm_skip. exact IH.
Qed.
Lemma ssort_in l x : In x (ssort l) <-> In x l.
Proof. split; intros H; [eapply Permutation_in; [apply Permutation_sym, ssort_perm|exact H]|eapply Permutation_in; [apply ssort_perm|exact H]]. Qed.
Lemma ssort_nodup l : NoDup l -> NoDup (ssort l).
Proof. intros H. eapply Permutation_NoDup; [apply ssort_perm|exact H]. Qed.
Lemma bytes_leb_total a b : bytes_leb a b = false -> bytes_leb b a = true.
Proof.
  revert b; induction a as [|x a IH]; intros [|y b]; cbn; try discriminate; try reflexivity. intros H.
  apply orb_false_iff in H as [H1 H2]. destruct (y <? x) eqn:E; [reflexivity|]. cbn.
  assert (x = y) by lia. subst y. rewrite Z.eqb_refl in *. cbn in *. apply IH. exact H2.
Qed.
Lemma bytes_leb_trans a b c : bytes_leb a b = true -> bytes_leb b c = true -> bytes_leb a c = true.
Proof.
  revert b c; induction a as [|x a IH]; intros [|y b] [|z c]; cbn; try discriminate; try reflexivity. intros H1 H2.
  apply orb_true_iff in H1, H2. apply orb_true_iff.
  destruct H1 as [H1|H1], H2 as [H2|H2].
  - left. lia.
  - apply andb_true_iff in H2 as [H2 _]. left. lia.
  - apply andb_true_iff in H1 as [H1 _]. left. lia.
  - apply andb_true_iff in H1 as [H1 H1']. apply andb_true_iff in H2 as [H2 H2']. right. apply andb_true_iff. split; [lia|]. eapply IH; eassumption.
Qed.
Definition leb_prop (a b : bytes) : Prop := bytes_leb a b = true.
Lemma sins_sorted k l : Sorted leb_prop l -> Sorted leb_prop (sins k l).
Proof.
  induction l as [|x r IH]; intros H; cbn; [repeat constructor|]. destruct (bytes_leb k x) eqn:E.
  - constructor; [exact H|constructor; exact E].
  - inversion H as [|? ? Hs Hh]; subst. constructor; [apply IH; exact Hs|].
    destruct r as [|y r]; cbn; [constructor; apply bytes_leb_total; exact E|].
    destruct (bytes_leb k y); constructor; [apply bytes_leb_total; exact E|inversion Hh; assumption].
Qed.
Lemma ssort_sorted l : Sorted leb_prop (ssort l).
Proof. induction l as [|x r IH]; cbn; [constructor|apply sins_sorted; exact IH]. Qed.
