(* FmtVSIX/ProofsG.v — the two readings of the manifest lemma, and the content types stream of the output. *)
From Relic Require Import Base.Prelude FmtVSIX.Lib Generated.FmtVSIX_gen FmtVSIX.Model FmtVSIX.ProofsA FmtVSIX.ProofsB FmtVSIX.ProofsC FmtVSIX.ProofsF.
From Relic Require Generated.C19_gen C19.Model.

Section Manifest.
  Variable H : Z -> bytes -> bytes.
  Variable sha1 : bytes -> bytes.
  Variable b64 : bytes -> bytes.
  Variable ct_read : bytes -> option ctdoc.
  Variables key pubk sigv : Type.
  Variable pub : key -> pubk.
  Variable xsign : key -> bytes -> sigv.
  Variable tbs : Z -> node -> bytes.
  Variable ser : sigdoc pubk sigv -> bytes.
  Notation sign := (sign H sha1 b64 ct_read key pubk sigv pub xsign tbs ser).

  Lemma reference_is_part_digest o sg pk g : chain_ok key sg -> sign o sg pk = Ok g ->
    exists refs ct,
      ct_scan ct_read pk ct_empty = Some ct /\
      files_get g (vsix_sig_name (sg_fname key sg)) = Some (ser (make_sigdoc key pubk sigv pub xsign tbs o sg (package_object refs (so_alg sigv o) (so_time sigv o)))) /\
      forall r, In r (manifest_refs (package_object refs (so_alg sigv o) (so_time sigv o))) ->
        exists n c, mr_uri r = uri_of (ct_ovr ct) (ct_ext ct) n /\ files_get g n = Some c /\ mr_dv r = b64 (H (so_alg sigv o) c) /\
                    mr_alg r = hash_uri_of (so_alg sigv o) /\ signed_name g n.
  Proof.
    intros Hc Hs. destruct (manifest_of_signed _ _ _ _ _ _ _ _ _ _ _ _ _ _ _ Hc Hs) as [refs [ct [NS [Hct [Hsig [_ [_ [HNS [D [Hman HD]]]]]]]]]].
    exists refs, ct. split; [exact Hct|]. split; [exact Hsig|]. intros r Hr. rewrite Hman in Hr. apply in_map_iff in Hr as [n [<- Hn]].
    destruct (HD n Hn) as [c [Hg HDc]]. exists n, c. cbn [mr_uri mr_dv mr_alg]. rewrite HDc. repeat split; try reflexivity; [exact Hg|apply HNS; exact Hn].
  Qed.
  Lemma manifest_covers_all_signed_parts o sg pk g : chain_ok key sg -> sign o sg pk = Ok g ->
    exists refs ct NS,
      ct_scan ct_read pk ct_empty = Some ct /\
      files_get g (vsix_sig_name (sg_fname key sg)) = Some (ser (make_sigdoc key pubk sigv pub xsign tbs o sg (package_object refs (so_alg sigv o) (so_time sigv o)))) /\
      NoDup NS /\ Sorted.Sorted leb_prop NS /\ map mr_uri (manifest_refs (package_object refs (so_alg sigv o) (so_time sigv o))) = map (uri_of (ct_ovr ct) (ct_ext ct)) NS /\
      forall n, signed_name g n ->
        In n NS /\ exists c, files_get g n = Some c /\
          In (mkRef (uri_of (ct_ovr ct) (ct_ext ct) n) (hash_uri_of (so_alg sigv o)) (b64 (H (so_alg sigv o) c))) (manifest_refs (package_object refs (so_alg sigv o) (so_time sigv o))).
  Proof.
    intros Hc Hs. destruct (manifest_of_signed _ _ _ _ _ _ _ _ _ _ _ _ _ _ _ Hc Hs) as [refs [ct [NS [Hct [Hsig [Hnd [Hso [HNS [D [Hman HD]]]]]]]]]].
    exists refs, ct, NS. split; [exact Hct|]. split; [exact Hsig|]. split; [exact Hnd|]. split; [exact Hso|]. split.
    - rewrite Hman, map_map. reflexivity.
    - intros n Hn. apply HNS in Hn. split; [exact Hn|]. destruct (HD n Hn) as [c [Hg HDc]]. exists c. split; [exact Hg|].
      rewrite Hman. apply in_map_iff. exists n. split; [rewrite HDc; reflexivity|exact Hn].
  Qed.

  (* the content types stream of the output is the last member; it is the marshalled table: the package's declarations with relic's own extensions set *)
  Lemma output_content_types o sg pk g : chain_ok key sg -> sign o sg pk = Ok g ->
    exists ct, ct_scan ct_read pk ct_empty = Some ct /\ files_get g vsix_newct_name = Some (ct_marshal (ct_doc_of (new_ctypes ct (so_detach sigv o)))).
  Proof.
    intros Hc Hs. destruct (sign_inv _ _ _ _ _ _ _ _ _ _ _ _ _ _ _ Hs) as [s [id1 [id2 [_ [Hct [_ [_ [_ [_ [_ [_ [_ Hg]]]]]]]]]]]].
    exists (sp_ct s). split; [exact Hct|]. rewrite Hg.
    match goal with |- files_get (?a ++ ?b ++ [?x; ?y]) _ = _ => replace (a ++ b ++ [x; y]) with (((a ++ b) ++ [x]) ++ [y]) by (rewrite <- !app_assoc; reflexivity) end.
    rewrite files_get_snoc, beq_refl. reflexivity.
  Qed.
End Manifest.

(* the three signed infrastructure parts and the signature part get their specified types from the regenerated stream *)
Lemma new_parts_types ct hc f : fname_ok f -> no_variant ct ->
  (forall n, find (fun o => ieq (fst o) (SLASH :: n)) (sorted_entries (ct_ovr ct)) = None) ->
  spec_ct_of (ct_doc_of (new_ctypes ct hc)) N_ROOT = Some (aget vsix_content_types [114; 101; 108; 115]) /\
  spec_ct_of (ct_doc_of (new_ctypes ct hc)) N_OREL = Some (aget vsix_content_types [114; 101; 108; 115]) /\
  spec_ct_of (ct_doc_of (new_ctypes ct hc)) N_ORIG = Some (aget vsix_content_types [112; 115; 100; 111; 114]) /\
  spec_ct_of (ct_doc_of (new_ctypes ct hc)) (vsix_sig_name f) = Some (aget vsix_content_types [112; 115; 100; 115; 120; 115]).
Proof.
  intros Hf Hnv Hov.
  assert (In_ : forall e, e <> [99; 101; 114] -> In e (map fst vsix_content_types) -> In (e, aget vsix_content_types e) (filter (fun x => negb (vsix_newct_skip (fst x) hc)) vsix_content_types)).
  { intros e Hne Hin. apply filter_In. split.
    - cbn in Hin. cbn. intuition (subst e; cbn; tauto).
    - unfold vsix_newct_skip. cbn [fst]. assert (bytes_eqb e [99; 101; 114] = false) by (apply beq_neq; exact Hne). rewrite H. reflexivity. }
  repeat split.
  - apply (new_part_type ct hc N_ROOT [114; 101; 108; 115]); try assumption; [apply In_; [discriminate|cbn; tauto]|vm_compute; discriminate|vm_compute; reflexivity|apply Hov].
  - apply (new_part_type ct hc N_OREL [114; 101; 108; 115]); try assumption; [apply In_; [discriminate|cbn; tauto]|vm_compute; discriminate|vm_compute; reflexivity|apply Hov].
  - apply (new_part_type ct hc N_ORIG [112; 115; 100; 111; 114]); try assumption; [apply In_; [discriminate|cbn; tauto]|vm_compute; discriminate|vm_compute; reflexivity|apply Hov].
  - assert (Hl : last_segment (vsix_sig_name f) = f ++ X_SIG).
    { destruct (sig_name_form f Hf) as [_ E]. unfold last_segment. rewrite E. rewrite split_join_npath by (apply npath_sig; exact Hf). apply last_last. }
    apply (new_part_type ct hc (vsix_sig_name f) [112; 115; 100; 115; 120; 115]); try assumption.
    + apply In_; [discriminate|cbn; tauto].
    + rewrite Hl. destruct f; discriminate.
    + rewrite path_base_last_segment by (rewrite Hl; destruct f; discriminate). rewrite Hl.
      apply (path_ext_dot_tail f [112; 115; 100; 115; 120; 115]); reflexivity.
    + apply Hov.
Qed.
