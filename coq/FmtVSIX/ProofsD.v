(* FmtVSIX/ProofsD.v — sign then verify, re-signing, what an accepted signature binds. *)
From Relic Require Import Base.Prelude FmtVSIX.Lib Generated.FmtVSIX_gen FmtVSIX.Model FmtVSIX.ProofsA FmtVSIX.ProofsB FmtVSIX.ProofsC.
From Relic Require Generated.C19_gen C19.Model.

Lemma hash_uri_roundtrip alg : hash_uri_of alg <> [] -> hash_of_uri (hash_uri_of alg) = alg /\ hash_available alg = true.
Proof.
  unfold hash_uri_of. cbn [find Relic.Generated.C19_gen.hash_uris fst snd].
  destruct (3 =? alg) eqn:E3; [intros _; apply Z.eqb_eq in E3; subst alg; split; vm_compute; reflexivity|].
  destruct (4 =? alg) eqn:E4; [intros _; apply Z.eqb_eq in E4; subst alg; split; vm_compute; reflexivity|].
  destruct (5 =? alg) eqn:E5; [intros _; apply Z.eqb_eq in E5; subst alg; split; vm_compute; reflexivity|].
  destruct (6 =? alg) eqn:E6; [intros _; apply Z.eqb_eq in E6; subst alg; split; vm_compute; reflexivity|].
  destruct (7 =? alg) eqn:E7; [intros _; apply Z.eqb_eq in E7; subst alg; split; vm_compute; reflexivity|].
  intros Hn. exfalso. apply Hn. reflexivity.
Qed.

Lemma name_ok_consts : name_ok N_ROOT /\ name_ok N_OREL /\ name_ok N_ORIG.
Proof. repeat split; try discriminate; try (vm_compute; reflexivity); vm_compute; repeat constructor. Qed.

Section Verify.
  Variable H : Z -> bytes -> bytes.
  Variable sha1 : bytes -> bytes.
  Variable b64 : bytes -> bytes.
  Variable b64d : bytes -> option bytes.
  Variable ct_read : bytes -> option ctdoc.
  Variable rels_read : bytes -> option (list rel).
  Variables key pubk sigv : Type.
  Variable pub : key -> pubk.
  Variable pubk_eqb : pubk -> pubk -> bool.
  Variable xsign : key -> bytes -> sigv.
  Variable xvrfy : pubk -> bytes -> sigv -> bool.
  Variable tbs : Z -> node -> bytes.
  Variable ser : sigdoc pubk sigv -> bytes.
  Variable deser : bytes -> option (sigdoc pubk sigv).
  Variable cert_key : bytes -> option pubk.
  Variable ts_ok : bytes -> sigv -> bool.
  Notation sign := (sign H sha1 b64 ct_read key pubk sigv pub xsign tbs ser).
  Notation verify := (verify H b64d rels_read pubk sigv pubk_eqb xvrfy tbs deser cert_key ts_ok).
  Notation read_signature := (read_signature rels_read pubk cert_key).
  Notation check_ref := (check_ref H b64d).
  Notation check_refs := (check_refs H b64d).
  Notation ct_scan := (ct_scan ct_read).

  (* ---- the hypotheses about the symbolic parts *)
  Hypothesis rels_roundtrip : forall l, rels_read (rels_marshal l) = Some l.           (* encoding/xml: Unmarshal after Marshal *)
  Hypothesis deser_ser : forall sd, deser (ser sd) = Some sd.                          (* the signature part parses back (unit C19) *)
  Hypothesis sign_correct : forall k m, xvrfy (pub k) m (xsign k m) = true.
  Hypothesis b64_roundtrip : forall x, b64d (b64 x) = Some x.
  Hypothesis pubk_eqb_refl : forall p, pubk_eqb p p = true.

  Lemma files_get_added3 (s : sign_parts) :
    files_get (signed_prefix s) N_ROOT = Some (sp_c1 s) /\ files_get (signed_prefix s) N_OREL = Some (sp_c2 s) /\ files_get (signed_prefix s) N_ORIG = Some [].
  Proof.
    destruct (N_consts) as [_ [_ [_ [_ [D1 [D2 D3]]]]]].
    unfold signed_prefix, added3.
    replace (sp_kept s ++ [(N_ROOT, sp_c1 s); (N_OREL, sp_c2 s); (N_ORIG, [])]) with (((sp_kept s ++ [(N_ROOT, sp_c1 s)]) ++ [(N_OREL, sp_c2 s)]) ++ [(N_ORIG, [])]) by (rewrite <- !app_assoc; reflexivity).
    rewrite !files_get_snoc. rewrite !beq_refl.
    assert (E1 : bytes_eqb N_ORIG N_ROOT = false) by (apply beq_neq; congruence).
    assert (E2 : bytes_eqb N_OREL N_ROOT = false) by (apply beq_neq; congruence).
    assert (E3 : bytes_eqb N_ORIG N_OREL = false) by (apply beq_neq; congruence).
    rewrite E1, E2, E3. repeat split; reflexivity.
  Qed.

  Lemma sig_rels_absent o sg pk g : chain_ok key sg -> so_detach sigv o = false -> sign o sg pk = Ok g ->
    files_get g (vsix_rel_path (vsix_sig_name (sg_fname key sg))) = None.
  Proof.
    intros Hc Hd Hs. destruct (sign_inv _ _ _ _ _ _ _ _ _ _ _ _ _ _ _ Hs) as [s [id1 [id2 [Hk [_ [_ [_ [_ [_ [Hcerts [_ [_ Hg]]]]]]]]]]]].
    rewrite Hd in Hcerts. set (f := sg_fname key sg) in *. pose proof (proj1 Hc) as Hf. fold f in Hf.
    assert (Form : vsix_rel_path (vsix_sig_name f) = digsig_prefix ++ [120; 109; 108; 45; 115; 105; 103; 110; 97; 116; 117; 114; 101; 47] ++ S_RELS ++ [SLASH] ++ f ++ X_SIG ++ X_RELS)
      by (rewrite sig_rels_name_form by exact Hf; reflexivity).
    apply files_get_none. intros m Hm E. rewrite Hg, Hcerts in Hm. unfold signed_prefix in Hm. cbn [app] in Hm.
    apply in_app_or in Hm as [Hm|Hm].
    - apply in_app_or in Hm as [Hm|Hm].
      + rewrite Hk in Hm. apply filter_In in Hm as [_ Hkeep]. unfold keepf in Hkeep. rewrite E, Form, keep_prefixed in Hkeep. discriminate.
      + unfold added3 in Hm. destruct Hm as [Hm|[Hm|[Hm|[]]]]; subst m; cbn [fst] in E; rewrite Form in E.
        * vm_compute in E. discriminate.
        * apply (f_equal (fun l => nth 35 l 0)) in E. vm_compute in E. discriminate.
        * apply (f_equal (fun l => nth 35 l 0)) in E. vm_compute in E. discriminate.
    - destruct Hm as [Hm|[Hm|[]]]; subst m; cbn [fst] in E.
      + rewrite Form, (proj1 (sig_name_form f Hf)) in E. apply (f_equal (@length Z)) in E. unfold P_SIG in E. rewrite !app_length in E. cbn in E. lia.
      + rewrite Form in E. vm_compute in E. discriminate.
  Qed.

  Lemma check_refs_all g l : (forall r, In r l -> check_ref g r = Ok tt) -> check_refs g l = Ok tt.
  Proof. induction l as [|r l IH]; intros Hl; [reflexivity|]. cbn [Model.check_refs]. rewrite (Hl r (or_introl eq_refl)). cbn [bind]. apply IH. intros x Hx. apply Hl. right. exact Hx. Qed.

  Lemma rels_find_single rt t id ty : vsix_rels_find_hit ty rt = true -> rels_find rt [mkRel t id ty] = vsix_rels_find_path t.
  Proof. intros Hh. unfold rels_find. cbn [find r_type r_target]. rewrite Hh. reflexivity. Qed.
  Lemma read_signature_of g rl1 rl2 f sigfile : fname_ok f ->
    files_get g N_ROOT = Some (rels_marshal rl1) -> files_get g N_OREL = Some (rels_marshal rl2) ->
    rels_find vsix_rs_origin_type rl1 = vsix_origin_path -> rels_find vsix_rs_sig_type rl2 = vsix_sig_name f ->
    files_get g (vsix_sig_name f) = Some sigfile -> files_get g (vsix_rel_path (vsix_sig_name f)) = None ->
    read_signature g = Ok (sigfile, []).
  Proof.
    intros Hf F1 F2 E1 E2 Hsig Habs.
    assert (Ne : vsix_rs_no_sigpath (vsix_sig_name f) = false) by (unfold vsix_rs_no_sigpath; rewrite (proj1 (sig_name_form f Hf)); reflexivity).
    unfold Model.read_signature. change vsix_rs_top_panics with false. cbv iota. change vsix_rs_top with N_ROOT. rewrite F1.
    change (vsix_rs_no_root_rels (is_some (Some (rels_marshal rl1)))) with false. cbv iota.
    unfold parse_rels, read_zip. rewrite F1. change (vsix_readzip_missing true) with false. cbv iota. cbn [bind]. rewrite rels_roundtrip. cbn [bind].
    rewrite E1. change (vsix_rs_no_origin vsix_origin_path) with false. cbv iota.
    change (vsix_rel_path_panics vsix_origin_path) with false. cbv iota.
    change (vsix_rel_path vsix_origin_path) with N_OREL. rewrite F2. cbv iota. cbn [bind]. rewrite rels_roundtrip. cbn [bind].
    rewrite E2, Ne, Hsig. cbv iota. cbn [bind]. change (vsix_rel_path_panics (vsix_sig_name f)) with false. cbv iota.
    rewrite Habs. change (vsix_rs_has_cert_rels (is_some None)) with false. cbv iota. cbn [bind]. reflexivity.
  Qed.

  (* C01: whatever is signed verifies, naming the configured key and the requested digest.  Conditions: certificates inside the signature part
     (the detached variant is exercised by the harness and by the Example in Properties.v), member names that are part names (segments ordinary,
     no "?"), content types whose segments after the first are ordinary, a chain that contains the signing certificate, and - when a timestamp
     authority is configured - a token that verifies (signing itself does not check it: see the witness) *)
  Theorem sign_then_verify o sg pk g :
    so_detach sigv o = false -> chain_ok key sg ->
    (match so_tsa sigv o with Some f => forall sv, ts_ok (f sv) sv = true | None => True end) ->
    (exists d, In d (map snd (sg_chain key sg)) /\ cert_key d = Some (pub (sg_key key sg))) ->
    (forall m, In m pk -> vsix_keep_file (fst m) = true -> name_ok (fst m)) ->
    (forall ct, ct_scan pk ct_empty = Some ct -> Forall ct_ok (map snd (ct_ovr ct)) /\ Forall ct_ok (map snd (ct_ext ct))) ->
    sign o sg pk = Ok g ->
    verify g = Ok (mkV pubk (pub (sg_key key sg)) (so_alg sigv o) (is_some (so_tsa sigv o))).
  Proof.
    intros Hd Hc Hts Hleaf Hnames Htypes Hs.
    destruct (sign_inv _ _ _ _ _ _ _ _ _ _ _ _ _ _ _ Hs) as [s [id1 [id2 [Hk [Hct [Hr1 [Hc1 [Hr2 [Hc2 [Hcerts [Hhash [_ Hg]]]]]]]]]]]].
    destruct (manifest_of_signed _ _ _ _ _ _ _ _ _ _ _ _ _ _ _ Hc Hs) as [refs [ct [NS [Hct' [Hsig [_ [_ [HNS [D [Hman HD]]]]]]]]]].
    assert (ct = sp_ct s) by congruence. subst ct. clear Hct'.
    pose proof (sig_rels_absent _ _ _ _ Hc Hd Hs) as Habs.
    pose proof (proj1 Hc) as Hf. set (f := sg_fname key sg) in *. set (alg := so_alg sigv o) in *.
    destruct (payload_kept _ _ _ _ _ _ _ _ _ _ _ _ _ _ _ Hc Hs) as [Hfilt _].
    assert (Tail : forall n, In n (names (signed_prefix s)) -> files_get g n = files_get (signed_prefix s) n).
    { intros n Hn. rewrite Hg. eapply signed_names; eassumption. }
    destruct (files_get_added3 s) as [G1 [G2 G3]].
    assert (In3 : In N_ROOT (names (signed_prefix s)) /\ In N_OREL (names (signed_prefix s)) /\ In N_ORIG (names (signed_prefix s))).
    { unfold signed_prefix, names, added3. rewrite map_app. cbn [map fst]. repeat split; apply in_or_app; right; cbn; tauto. }
    destruct In3 as [I1 [I2 I3]].
    assert (F1 : files_get g N_ROOT = Some (rels_marshal (sp_rl1 s))) by (rewrite (Tail _ I1), G1, Hc1; reflexivity).
    assert (F2 : files_get g N_OREL = Some (rels_marshal (sp_rl2 s))) by (rewrite (Tail _ I2), G2, Hc2; reflexivity).
    (* ---- readSignature *)
    assert (RS : read_signature g = Ok (ser (make_sigdoc key pubk sigv pub xsign tbs o sg (package_object refs alg (so_time sigv o))), [])).
    { apply (read_signature_of g (sp_rl1 s) (sp_rl2 s) f); try assumption.
      - rewrite Hr1. rewrite rels_find_single by apply beq_refl. apply find_target_origin.
      - rewrite Hr2. rewrite rels_find_single by apply beq_refl. apply find_target_sig. exact Hf. }
    (* ---- checkManifest *)
    assert (CM : check_manifest H b64d g (package_object refs alg (so_time sigv o)) = Ok tt).
    { unfold check_manifest. rewrite Hman. apply check_refs_all. intros r Hr. apply in_map_iff in Hr as [n [<- Hn]].
      destruct (HD n Hn) as [c [Hgc HDc]]. apply HNS in Hn.
      assert (Hok : name_ok n).
      { destruct Hn as [[Hkeep Hin]|[Eq|[Eq|Eq]]]; try (subst n; apply name_ok_consts).
        unfold names in Hin. apply in_map_iff in Hin as [m [Em Hm]]. subst n.
        assert (Hm' : In m (filter keepf g)) by (apply filter_In; split; [exact Hm|exact Hkeep]).
        rewrite Hfilt in Hm'. apply filter_In in Hm' as [Hm' _]. apply Hnames; [exact Hm'|exact Hkeep]. }
      destruct (Htypes _ Hct) as [To Te].
      unfold Model.check_ref. cbn [mr_uri mr_alg mr_dv]. rewrite ref_path_no_panic. unfold uri_of.
      rewrite ref_path_of_uri by (first [exact Hok|apply chosen_type_ok; assumption]). rewrite Hgc.
      change (vsix_cm_missing true) with false. cbv iota.
      destruct (hash_uri_roundtrip alg Hhash) as [Hr Ha]. rewrite Hr, Ha. change (vsix_cm_bad_alg true) with false. cbv iota.
      rewrite b64_roundtrip, HDc, beq_refl. reflexivity. }
    (* ---- verify *)
    set (obj := package_object refs alg (so_time sigv o)) in *.
    set (SD := make_sigdoc key pubk sigv pub xsign tbs o sg obj) in *.
    assert (P1 : sd_key pubk sigv SD = pub (sg_key key sg)) by reflexivity.
    assert (P2 : sd_alg pubk sigv SD = alg) by reflexivity.
    assert (P3 : sd_obj pubk sigv SD = obj) by reflexivity.
    assert (P4 : sd_sigv pubk sigv SD = xsign (sg_key key sg) (tbs alg obj)) by reflexivity.
    assert (P5 : sd_x509 pubk sigv SD = map snd (sg_chain key sg)) by (unfold SD, make_sigdoc; cbn [sd_x509]; rewrite Hd; reflexivity).
    assert (P6 : sd_ts pubk sigv SD = match so_tsa sigv o with Some tf => Some (tf (xsign (sg_key key sg) (tbs alg obj))) | None => None end) by reflexivity.
    unfold Model.verify. rewrite shapes_hold. cbn [negb]. rewrite RS. cbn [bind fst snd]. rewrite deser_ser.
    rewrite P1, P2, P3, P4, P5, P6. rewrite sign_correct. cbn [negb]. rewrite CM. cbn [bind].
    assert (Leaf : existsb (fun c => match cert_key c with Some p => pubk_eqb p (pub (sg_key key sg)) | None => false end) ([] ++ map snd (sg_chain key sg)) = true).
    { destruct Hleaf as [d [Hin Hk']]. apply existsb_exists. exists d. split; [exact Hin|]. rewrite Hk'. apply pubk_eqb_refl. }
    rewrite Leaf. change (vsix_verify_no_leaf true) with false. cbv iota.
    destruct (so_tsa sigv o) as [tf|]; cbn [is_some].
    - change (vsix_ts_absent true) with false. cbv iota. rewrite Hts. reflexivity.
    - change (vsix_ts_absent false) with true. cbv iota. reflexivity.
  Qed.

  (* C08: the is-signed probe *)
  Lemma is_signed_of_signed o sg pk g : so_detach sigv o = false -> chain_ok key sg -> sign o sg pk = Ok g -> is_signed rels_read pubk cert_key g = true.
  Proof.
    intros Hd Hc Hs.
    destruct (sign_inv _ _ _ _ _ _ _ _ _ _ _ _ _ _ _ Hs) as [s [id1 [id2 [Hk [Hct [Hr1 [Hc1 [Hr2 [Hc2 [Hcerts [Hhash [_ Hg]]]]]]]]]]]].
    destruct (manifest_of_signed _ _ _ _ _ _ _ _ _ _ _ _ _ _ _ Hc Hs) as [refs [ct [NS [_ [Hsig _]]]]].
    pose proof (sig_rels_absent _ _ _ _ Hc Hd Hs) as Habs. pose proof (proj1 Hc) as Hf. set (f := sg_fname key sg) in *.
    assert (Tail : forall n, In n (names (signed_prefix s)) -> files_get g n = files_get (signed_prefix s) n).
    { intros n Hn. rewrite Hg. eapply signed_names; eassumption. }
    destruct (files_get_added3 s) as [G1 [G2 G3]].
    assert (I1 : In N_ROOT (names (signed_prefix s))) by (unfold signed_prefix, names, added3; rewrite map_app; apply in_or_app; right; cbn; tauto).
    assert (I2 : In N_OREL (names (signed_prefix s))) by (unfold signed_prefix, names, added3; rewrite map_app; apply in_or_app; right; cbn; tauto).
    assert (F1 : files_get g N_ROOT = Some (rels_marshal (sp_rl1 s))) by (rewrite (Tail _ I1), G1, Hc1; reflexivity).
    assert (F2 : files_get g N_OREL = Some (rels_marshal (sp_rl2 s))) by (rewrite (Tail _ I2), G2, Hc2; reflexivity).
    unfold is_signed. erewrite (read_signature_of g (sp_rl1 s) (sp_rl2 s) f); [reflexivity|exact Hf|exact F1|exact F2| | |exact Hsig|exact Habs].
    - rewrite Hr1. rewrite rels_find_single by apply beq_refl. apply find_target_origin.
    - rewrite Hr2. rewrite rels_find_single by apply beq_refl. apply find_target_sig. exact Hf.
  Qed.
  Lemma not_signed_without_root_rels pk : files_get pk N_ROOT = None -> is_signed rels_read pubk cert_key pk = false /\ verify pk = Err E_NOT_SIGNED.
  Proof.
    intros Hn. unfold is_signed, Model.verify, Model.read_signature. rewrite shapes_hold. cbn [negb]. change vsix_rs_top_panics with false. cbv iota. change vsix_rs_top with N_ROOT. rewrite Hn.
    split; reflexivity.
  Qed.
  Lemma find_none_types l : Forall (fun r => r_type r <> vsix_sig_origin_type) l -> find (fun r => vsix_rels_find_hit (r_type r) vsix_rs_origin_type) l = None.
  Proof.
    induction l as [|r l IH]; intros Hl; [reflexivity|]. inversion Hl as [|? ? Hr' Hl']; subst. cbn [find]. unfold vsix_rels_find_hit at 1. change vsix_rs_origin_type with vsix_sig_origin_type.
    assert (E : bytes_eqb (r_type r) vsix_sig_origin_type = false) by (apply beq_neq; exact Hr'). rewrite E. apply IH. exact Hl'.
  Qed.
  Lemma not_signed_without_origin pk c l : files_get pk N_ROOT = Some c -> rels_read c = Some l -> Forall (fun r => r_type r <> vsix_sig_origin_type) l ->
    is_signed rels_read pubk cert_key pk = false /\ verify pk = Err E_NOT_SIGNED.
  Proof.
    intros Hn Hr Hl.
    assert (E : Model.read_signature rels_read pubk cert_key pk = Err E_NOT_SIGNED).
    { unfold Model.read_signature. change vsix_rs_top_panics with false. cbv iota. change vsix_rs_top with N_ROOT. rewrite Hn.
      change (vsix_rs_no_root_rels (is_some (Some c))) with false. cbv iota. unfold parse_rels, read_zip. rewrite Hn. change (vsix_readzip_missing true) with false. cbv iota. cbn [bind].
      rewrite Hr. cbn [bind]. assert (Ef : rels_find vsix_rs_origin_type l = []) by (unfold rels_find; rewrite find_none_types by exact Hl; reflexivity).
      rewrite Ef. reflexivity. }
    unfold is_signed, Model.verify. rewrite shapes_hold, E. split; reflexivity.
  Qed.

  (* ---- C02: what an accepted signature binds *)
  Lemma check_refs_inv g l : check_refs g l = Ok tt -> forall r, In r l -> check_ref g r = Ok tt.
  Proof.
    induction l as [|r0 l IH]; intros Hc r Hr; [destruct Hr|]. cbn [Model.check_refs] in Hc.
    destruct (check_ref g r0) as [[]| |] eqn:E; cbn [bind] in Hc; try discriminate.
    destruct Hr as [<-|Hr]; [exact E|exact (IH Hc r Hr)].
  Qed.
  Lemma check_ref_inv g r : check_ref g r = Ok tt ->
    exists c refv, files_get g (vsix_ref_path (mr_uri r)) = Some c /\ b64d (mr_dv r) = Some refv /\ refv = H (hash_of_uri (mr_alg r)) c /\ hash_available (hash_of_uri (mr_alg r)) = true.
  Proof.
    unfold Model.check_ref. rewrite ref_path_no_panic.
    destruct (files_get g (vsix_ref_path (mr_uri r))) as [c|]; [|change (vsix_cm_missing false) with true; cbv iota; discriminate].
    change (vsix_cm_missing true) with false. cbv iota. unfold vsix_cm_bad_alg.
    destruct (hash_available (hash_of_uri (mr_alg r))) eqn:Ea; cbn [negb]; [|discriminate].
    destruct (b64d (mr_dv r)) as [refv|]; [|discriminate]. unfold vsix_cm_mismatch.
    destruct (bytes_eqb refv (H (hash_of_uri (mr_alg r)) c)) eqn:Eb; cbn [negb]; [|discriminate].
    intros _. exists c, refv. apply beq_eq in Eb. split; [reflexivity|]. split; [reflexivity|]. split; [exact Eb|reflexivity].
  Qed.
  Lemma verify_inv g v : verify g = Ok v ->
    exists sigblob certs sd, read_signature g = Ok (sigblob, certs) /\ deser sigblob = Some sd /\
      xvrfy (sd_key pubk sigv sd) (tbs (sd_alg pubk sigv sd) (sd_obj pubk sigv sd)) (sd_sigv pubk sigv sd) = true /\
      check_refs g (manifest_refs (sd_obj pubk sigv sd)) = Ok tt /\ v_key pubk v = sd_key pubk sigv sd /\ v_alg pubk v = sd_alg pubk sigv sd.
  Proof.
    unfold Model.verify. rewrite shapes_hold. cbn [negb].
    destruct (read_signature g) as [[sigblob certs]| |] eqn:Er; cbn [bind]; try discriminate. cbn [fst snd].
    destruct (deser sigblob) as [sd|] eqn:Ed; [|discriminate].
    destruct (xvrfy _ _ _) eqn:Ex; cbn [negb]; [|discriminate].
    unfold check_manifest. destruct (check_refs g _) as [[]| |] eqn:Ec; cbn [bind]; try discriminate.
    destruct (match sd_ts pubk sigv sd with Some _ => _ | None => _ end); [discriminate|].
    destruct (vsix_verify_no_leaf _); [discriminate|]. intros Hv. injection Hv as <-.
    exists sigblob, certs, sd. repeat split; try assumption; reflexivity.
  Qed.
  (* two packages accepted with the same signature part: every part a Reference of its manifest resolves to exists in both and has the same bytes
     (collision freedom of the digest as an explicit premise) *)
  Theorem protect g1 g2 v1 v2 sigblob c1 c2 sd :
    (forall a x y, H a x = H a y -> x = y) ->
    verify g1 = Ok v1 -> verify g2 = Ok v2 -> read_signature g1 = Ok (sigblob, c1) -> read_signature g2 = Ok (sigblob, c2) -> deser sigblob = Some sd ->
    forall r, In r (manifest_refs (sd_obj pubk sigv sd)) ->
      files_get g1 (vsix_ref_path (mr_uri r)) = files_get g2 (vsix_ref_path (mr_uri r)) /\ files_get g1 (vsix_ref_path (mr_uri r)) <> None.
  Proof.
    intros Hinj V1 V2 R1 R2 Hd r Hr.
    destruct (verify_inv _ _ V1) as [b1 [cs1 [sd1 [R1' [D1 [_ [C1 _]]]]]]]. destruct (verify_inv _ _ V2) as [b2 [cs2 [sd2 [R2' [D2 [_ [C2 _]]]]]]].
    rewrite R1 in R1'. injection R1' as <- <-. rewrite R2 in R2'. injection R2' as <- <-.
    rewrite Hd in D1, D2. injection D1 as <-. injection D2 as <-.
    destruct (check_ref_inv _ _ (check_refs_inv _ _ C1 r Hr)) as [x1 [v1' [F1 [B1 [E1 _]]]]].
    destruct (check_ref_inv _ _ (check_refs_inv _ _ C2 r Hr)) as [x2 [v2' [F2 [B2 [E2 _]]]]].
    rewrite B1 in B2. injection B2 as <-. rewrite F1, F2. split; [|discriminate]. f_equal. eapply Hinj. rewrite <- E1, <- E2. reflexivity.
  Qed.
End Verify.
