(* FmtVSIX/ProofsC.v — what sign produces: the kept members followed by the new parts; the digest table and the manifest. *)
From Relic Require Import Base.Prelude FmtVSIX.Lib Generated.FmtVSIX_gen FmtVSIX.Model FmtVSIX.ProofsA FmtVSIX.ProofsB.
From Relic Require Generated.C19_gen C19.Model.

Definition keepf (m : member) : bool := vsix_keep_file (fst m).
Definition names (p : package) : list bytes := map fst p.

(* ---- files_get: the last member of a name *)
Lemma files_get_snoc p n0 c0 n : files_get (p ++ [(n0, c0)]) n = if bytes_eqb n0 n then Some c0 else files_get p n.
Proof. unfold files_get. rewrite rev_app_distr. cbn [rev app find fst snd]. destruct (bytes_eqb n0 n); reflexivity. Qed.
Lemma files_get_app_notin p t n : (forall m, In m t -> fst m <> n) -> files_get (p ++ t) n = files_get p n.
Proof.
  revert p. induction t as [|[n0 c0] t IH] using rev_ind; intros p Hn; [rewrite app_nil_r; reflexivity|].
  rewrite app_assoc, files_get_snoc.
  assert (E : bytes_eqb n0 n = false) by (apply beq_neq; apply (Hn (n0, c0)); apply in_or_app; right; left; reflexivity).
  rewrite E. apply IH. intros m Hm. apply Hn. apply in_or_app. left. exact Hm.
Qed.
Lemma files_get_none p n : (forall m, In m p -> fst m <> n) -> files_get p n = None.
Proof. intros H. rewrite <- (app_nil_l p). rewrite files_get_app_notin by exact H. reflexivity. Qed.
Lemma files_get_in p n c : files_get p n = Some c -> In (n, c) p.
Proof.
  unfold files_get. intros Hc. destruct (find (fun m : bytes * bytes => bytes_eqb (fst m) n) (rev p)) as [[n' c']|] eqn:E; [|discriminate Hc].
  cbn [snd] in Hc. injection Hc as Hc. subst c'.
  apply find_some in E as [Hin Heq]. cbn in Heq. apply beq_eq in Heq. subst n'. apply in_rev. exact Hin.
Qed.
Lemma files_get_filter p n : vsix_keep_file n = true -> files_get (filter keepf p) n = files_get p n.
Proof.
  intros Hk. induction p as [|[n0 c0] p IH] using rev_ind; [reflexivity|]. rewrite filter_app. cbn [filter]. unfold keepf at 2. cbn [fst].
  destruct (vsix_keep_file n0) eqn:E.
  - rewrite !files_get_snoc, IH. reflexivity.
  - rewrite app_nil_r, files_get_snoc, IH. assert (bytes_eqb n0 n = false) by (apply beq_neq; intros ->; congruence). rewrite H. reflexivity.
Qed.
Lemma files_get_some_name p n : In n (names p) -> exists c, files_get p n = Some c.
Proof.
  induction p as [|[n0 c0] p IH] using rev_ind; [intros []|]. unfold names. rewrite map_app. intros Hin. rewrite files_get_snoc.
  destruct (bytes_eqb n0 n) eqn:E; [eexists; reflexivity|]. apply in_app_or in Hin as [Hin|[Hin|[]]]; [exact (IH Hin)|].
  cbn in Hin. subst n0. rewrite beq_refl in E. discriminate.
Qed.

Lemma existsb_all_false {A} (f : A -> bool) l : (forall x, f x = false) -> existsb f l = false.
Proof. intros Hf. induction l as [|a l IH]; [reflexivity|]. cbn. rewrite Hf, IH. reflexivity. Qed.

Section SignStructure.
  Variable H : Z -> bytes -> bytes.
  Variable sha1 : bytes -> bytes.
  Variable b64 : bytes -> bytes.
  Variable ct_read : bytes -> option ctdoc.
  Variables key pubk sigv : Type.
  Variable pub : key -> pubk.
  Variable xsign : key -> bytes -> sigv.
  Variable tbs : Z -> node -> bytes.
  Variable ser : sigdoc pubk sigv -> bytes.
  Notation sign := (sign H sha1 b64 ct_read key pubk sigv pub xsign tbs ser).
  Notation mangle := (mangle H ct_read).

  (* the digest table of a member list: every name maps to the digest of its last member *)
  Definition dig_fold (alg : Z) (p : package) (d : assoc) : assoc := fold_left (fun d m => aset d (fst m) (H alg (snd m))) p d.
  Lemma dig_fold_spec alg p n :
    match files_get p n with
    | Some c => ahas (dig_fold alg p []) n = true /\ aget (dig_fold alg p []) n = H alg c
    | None => ahas (dig_fold alg p []) n = false
    end.
  Proof.
    induction p as [|[n0 c0] p IH] using rev_ind; [reflexivity|]. unfold dig_fold in *. rewrite fold_left_app. cbn [fold_left fst snd].
    rewrite files_get_snoc. rewrite ahas_aset. destruct (bytes_eqb n0 n) eqn:E.
    - apply beq_eq in E. subst n0. cbn [orb]. split; [reflexivity|apply aget_aset_same].
    - cbn [orb]. assert (n <> n0) by (apply beq_neq in E; congruence).
      destruct (files_get p n); [rewrite aget_aset_other by assumption|]; exact IH.
  Qed.
  Lemma dig_fold_keys alg p : forall n, In n (akeys (dig_fold alg p [])) <-> In n (names p).
  Proof.
    intros n. rewrite <- ahas_in. pose proof (dig_fold_spec alg p n) as S. split.
    - intros Hh. destruct (files_get p n) eqn:E; [apply files_get_in in E; apply (in_map fst) in E; exact E|congruence].
    - intros Hin. destruct (files_get_some_name p n Hin) as [c Hc]. rewrite Hc in S. exact (proj1 S).
  Qed.
  Lemma dig_fold_nodup alg p d : NoDup (akeys d) -> NoDup (akeys (dig_fold alg p d)).
  Proof. revert d. unfold dig_fold. induction p as [|m p IH]; intros d Hd; [exact Hd|]. cbn [fold_left]. apply IH. apply akeys_aset_nodup. exact Hd. Qed.

  (* ---- the Mangle callback over the whole package *)
  Fixpoint ct_scan (pk : package) (ct : ctab) : option ctab :=
    match pk with
    | [] => Some ct
    | (n, c) :: r => if negb (vsix_keep_file n) && vsix_mangle_parses n
                     then match ct_read c with Some d => ct_scan r (ct_merge ct d) | None => None end
                     else ct_scan r ct
    end.
  Lemma mangle_spec alg pk st st' : mangle alg pk st = Ok st' ->
    m_kept st' = m_kept st ++ filter keepf pk /\ m_dig st' = dig_fold alg (filter keepf pk) (m_dig st) /\ ct_scan pk (m_ct st) = Some (m_ct st').
  Proof.
    revert st. induction pk as [|[n c] pk IH]; intros st Hm.
    - cbn in Hm. injection Hm as <-. rewrite app_nil_r. repeat split; reflexivity.
    - cbn [Model.mangle] in Hm. change (vsix_mangle_keeps_panics n) with false in Hm. cbv iota in Hm.
      change (vsix_mangle_keeps n) with (vsix_keep_file n) in Hm. cbn [filter ct_scan].
      change (keepf (n, c)) with (vsix_keep_file n).
      destruct (vsix_keep_file n) eqn:Ek; cbn [negb andb].
      + destruct (IH _ Hm) as [A [B C]]. cbn [m_kept m_dig m_ct] in *. rewrite A, B, <- app_assoc. split; [reflexivity|]. split; [reflexivity|exact C].
      + destruct (vsix_mangle_parses n); [|exact (IH _ Hm)].
        destruct (ct_read c); [|discriminate]. exact (IH _ Hm).
  Qed.
  Lemma mangle_no_panic alg pk st p : mangle alg pk st <> Panic p.
  Proof.
    revert st. induction pk as [|[n c] pk IH]; intros st; [discriminate|]. cbn [Model.mangle]. change (vsix_mangle_keeps_panics n) with false. cbv iota.
    destruct (vsix_mangle_keeps n); [apply IH|]. destruct (vsix_mangle_parses n); [|apply IH]. destruct (ct_read c); [apply IH|discriminate].
  Qed.

  (* ---- the shape of sign's result *)
  Definition N_ROOT : bytes := vsix_newrels_name [].
  Definition N_OREL : bytes := vsix_newrels_name vsix_origin_path.
  Definition N_ORIG : bytes := vsix_origin_name.
  Record sign_parts := mkSP' {
    sp_kept : package; sp_c1 : bytes; sp_c2 : bytes; sp_certs : package; sp_refs : list (bytes * bytes); sp_ct : ctab;
    sp_rl1 : list rel; sp_rl2 : list rel }.
  Definition added3 (s : sign_parts) : package := [(N_ROOT, sp_c1 s); (N_OREL, sp_c2 s); (N_ORIG, [])].
  Definition signed_prefix (s : sign_parts) : package := sp_kept s ++ added3 s.

  Lemma rels_append_nil c t l : rels_append sha1 [] c t = Ok l -> exists id, l = [mkRel (vsix_rels_target c) id (vsix_rels_type t)].
  Proof.
    unfold rels_append. cbn [length Nat.mul id_loop existsb]. cbn [bind app]. intros E. injection E as <-. eexists. reflexivity.
  Qed.
  Lemma sign_inv o sg pk g : sign o sg pk = Ok g ->
    exists s id1 id2,
      sp_kept s = filter keepf pk /\
      ct_scan pk ct_empty = Some (sp_ct s) /\
      sp_rl1 s = [mkRel (vsix_rels_target vsix_origin_path) id1 vsix_sig_origin_type] /\ sp_c1 s = rels_marshal (sp_rl1 s) /\
      sp_rl2 s = [mkRel (vsix_rels_target (vsix_sig_name (sg_fname key sg))) id2 vsix_sig_type] /\ sp_c2 s = rels_marshal (sp_rl2 s) /\
      (if so_detach sigv o then add_certs sha1 key sg (vsix_sig_name (sg_fname key sg)) = Ok (sp_certs s) else sp_certs s = []) /\
      hash_uri_of (so_alg sigv o) <> [] /\
      sp_refs s = map (fun n => (vsix_ref_uri (ct_ovr (sp_ct s)) (ct_ext (sp_ct s)) n, b64 (aget (dig_fold (so_alg sigv o) (signed_prefix s) []) n)))
                      (ssort (akeys (dig_fold (so_alg sigv o) (signed_prefix s) []))) /\
      g = signed_prefix s ++ sp_certs s ++
          [(vsix_sig_name (sg_fname key sg), ser (make_sigdoc key pubk sigv pub xsign tbs o sg (package_object (sp_refs s) (so_alg sigv o) (so_time sigv o))));
           (vsix_newct_name, ct_marshal (ct_doc_of (new_ctypes (sp_ct s) (so_detach sigv o))))].
  Proof.
    unfold Model.sign. rewrite shapes_hold. cbn [negb].
    destruct (mangle (so_alg sigv o) pk (mkM [] [] ct_empty)) as [st| |] eqn:Em; cbn [bind]; try discriminate.
    destruct (mangle_spec _ _ _ _ Em) as [Mk [Md Mc]]. cbn [m_kept m_dig m_ct app] in Mk, Md, Mc.
    unfold new_rels.
    destruct (rels_append sha1 [] (vsix_sign_rels1_child _) (vsix_sign_rels1_type _)) as [rl1| |] eqn:E1; cbn [bind]; try discriminate.
    destruct (rels_append sha1 [] (vsix_sign_rels2_child _) (vsix_sign_rels2_type _)) as [rl2| |] eqn:E2; cbn [bind]; try discriminate.
    destruct (rels_append_nil _ _ _ E1) as [id1 R1]. destruct (rels_append_nil _ _ _ E2) as [id2 R2].
    unfold add_file. cbn [fst snd m_kept m_dig m_ct].
    change (vsix_sign_adds_certs (so_detach sigv o)) with (so_detach sigv o).
    destruct (if so_detach sigv o then add_certs sha1 key sg (vsix_sig_name (sg_fname key sg)) else Ok []) as [certs| |] eqn:Ec; cbn [bind]; try discriminate.
    destruct (bytes_eqb (hash_uri_of (so_alg sigv o)) []) eqn:Eh; [discriminate|].
    unfold make_refs. cbn [m_ct m_dig].
    match goal with |- context [existsb ?f ?l] => assert (Ex : existsb f l = false) end.
    { apply existsb_all_false. intros x. apply ref_uri_no_panic. }
    rewrite Ex. cbn [bind]. intros Hg. injection Hg as <-.
    set (s := mkSP' (m_kept st) (rels_marshal rl1) (rels_marshal rl2) certs
                    (map (fun n => (vsix_ref_uri (ct_ovr (m_ct st)) (ct_ext (m_ct st)) n,
                                    b64 (aget (aset (aset (aset (m_dig st) (vsix_newrels_name (vsix_sign_rels1_parent (vsix_sig_name (sg_fname key sg)))) (H (so_alg sigv o) (rels_marshal rl1)))
                                                          (vsix_newrels_name (vsix_sign_rels2_parent (vsix_sig_name (sg_fname key sg)))) (H (so_alg sigv o) (rels_marshal rl2)))
                                                    vsix_origin_name (H (so_alg sigv o) vsix_origin_content)) n)))
                         (ssort (akeys (aset (aset (aset (m_dig st) (vsix_newrels_name (vsix_sign_rels1_parent (vsix_sig_name (sg_fname key sg)))) (H (so_alg sigv o) (rels_marshal rl1)))
                                                    (vsix_newrels_name (vsix_sign_rels2_parent (vsix_sig_name (sg_fname key sg)))) (H (so_alg sigv o) (rels_marshal rl2)))
                                             vsix_origin_name (H (so_alg sigv o) vsix_origin_content)))))
                    (m_ct st) rl1 rl2).
    assert (Ed : aset (aset (aset (m_dig st) (vsix_newrels_name (vsix_sign_rels1_parent (vsix_sig_name (sg_fname key sg)))) (H (so_alg sigv o) (rels_marshal rl1)))
                            (vsix_newrels_name (vsix_sign_rels2_parent (vsix_sig_name (sg_fname key sg)))) (H (so_alg sigv o) (rels_marshal rl2)))
                      vsix_origin_name (H (so_alg sigv o) vsix_origin_content) = dig_fold (so_alg sigv o) (signed_prefix s) []).
    { unfold signed_prefix, added3, dig_fold. rewrite fold_left_app. cbn [sp_kept sp_c1 sp_c2 s fold_left fst snd].
      rewrite Md, Mk. reflexivity. }
    exists s, id1, id2. cbn [sp_kept sp_ct sp_rl1 sp_rl2 sp_c1 sp_c2 sp_certs sp_refs s].
    split; [exact Mk|]. split; [exact Mc|]. split; [exact R1|]. split; [reflexivity|]. split; [exact R2|]. split; [reflexivity|].
    split; [destruct (so_detach sigv o); [exact Ec|injection Ec as <-; reflexivity]|].
    split; [intros E0; rewrite E0 in Eh; discriminate|].
    fold s. rewrite <- Ed. split; [reflexivity|].
    unfold signed_prefix, added3. cbn [sp_kept sp_c1 sp_c2 s]. rewrite <- !app_assoc. reflexivity.
  Qed.

  (* the names of the parts sign appends *)
  Definition chain_ok (sg : signer key) : Prop := fname_ok (sg_fname key sg) /\ Forall (fun c => fname_ok (fst c)) (sg_chain key sg).
  Lemma N_consts : N_ROOT = ProofsA.n_root_rels /\ vsix_keep_file N_ROOT = false /\ vsix_keep_file N_OREL = false /\ vsix_keep_file N_ORIG = false /\
                   N_ROOT <> N_OREL /\ N_ROOT <> N_ORIG /\ N_OREL <> N_ORIG.
  Proof. repeat split; try (vm_compute; reflexivity); vm_compute; discriminate. Qed.
  Lemma add_certs_names sg sn l : chain_ok sg -> add_certs sha1 key sg sn = Ok l ->
    Forall (fun m : bytes * bytes => (exists f, fname_ok f /\ fst m = vsix_cert_path f) \/ fst m = vsix_cert_rels_name sn) l.
  Proof.
    intros [_ Hc] Ha. unfold add_certs in Ha. destruct (cert_rels sha1 (sg_chain key sg) []) as [rl| |]; cbn [bind] in Ha; try discriminate. injection Ha as <-.
    apply Forall_app. split.
    - rewrite Forall_map. eapply Forall_impl; [|exact Hc]. intros c Hf. left. exists (fst c). split; [exact Hf|reflexivity].
    - constructor; [right; reflexivity|constructor].
  Qed.
  (* none of the appended parts is kept by a later signing; the parts after the first three are not in the digest table *)
  Lemma tail_names o sg s : chain_ok sg ->
    (if so_detach sigv o then add_certs sha1 key sg (vsix_sig_name (sg_fname key sg)) = Ok (sp_certs s) else sp_certs s = []) ->
    forall m x y, In m (sp_certs s ++ [(vsix_sig_name (sg_fname key sg), x); (vsix_newct_name, y)]) ->
      vsix_keep_file (fst m) = false /\ fst m <> N_ROOT /\ fst m <> N_OREL /\ fst m <> N_ORIG.
  Proof.
    intros Hc Hs m x y Hin.
    assert (Pfx : forall n r, n = digsig_prefix ++ r -> (nth 0 r 0 =? 120) || (nth 0 r 0 =? 99) = true -> vsix_keep_file n = false /\ n <> N_ROOT /\ n <> N_OREL /\ n <> N_ORIG).
    { intros n r -> Hr. split; [apply keep_prefixed|]. repeat split; intros E.
      - vm_compute in E. discriminate.
      - apply (f_equal (fun l => nth 35 l 0)) in E. change (nth 35 (digsig_prefix ++ r) 0) with (nth 0 r 0) in E. change (nth 35 N_OREL 0) with 95 in E. rewrite E in Hr. discriminate.
      - apply (f_equal (fun l => nth 35 l 0)) in E. change (nth 35 (digsig_prefix ++ r) 0) with (nth 0 r 0) in E. change (nth 35 N_ORIG 0) with 111 in E. rewrite E in Hr. discriminate. }
    assert (Sig : forall f, fname_ok f -> vsix_keep_file (vsix_sig_name f) = false /\ vsix_sig_name f <> N_ROOT /\ vsix_sig_name f <> N_OREL /\ vsix_sig_name f <> N_ORIG).
    { intros f Hf. apply (Pfx _ ([120; 109; 108; 45; 115; 105; 103; 110; 97; 116; 117; 114; 101; 47] ++ f ++ X_SIG)); [|reflexivity].
      rewrite (proj1 (sig_name_form f Hf)). reflexivity. }
    apply in_app_or in Hin as [Hin|[Hin|[Hin|[]]]].
    - destruct (so_detach sigv o); [|rewrite Hs in Hin; destruct Hin].
      pose proof (add_certs_names _ _ _ Hc Hs) as F. rewrite Forall_forall in F. destruct (F m Hin) as [[f [Hf E]]|E]; rewrite E.
      + apply (Pfx _ ([99; 101; 114; 116; 105; 102; 105; 99; 97; 116; 101; 47] ++ f ++ X_CER)); [|reflexivity]. rewrite (proj1 (cert_path_form f Hf)). reflexivity.
      + unfold vsix_cert_rels_name. rewrite sig_rels_name_form by exact (proj1 Hc).
        apply (Pfx _ ([120; 109; 108; 45; 115; 105; 103; 110; 97; 116; 117; 114; 101; 47] ++ S_RELS ++ [SLASH] ++ sg_fname key sg ++ X_SIG ++ X_RELS)); reflexivity.
    - subst m. cbn [fst]. apply Sig. exact (proj1 Hc).
    - subst m. cbn [fst]. repeat split; try (vm_compute; reflexivity); vm_compute; discriminate.
  Qed.

  (* C03 / C08: the members keepFile keeps come through unchanged, in order; everything else in the output is one of the new parts, none of which a
     later signing keeps *)
  Lemma payload_kept o sg pk g : chain_ok sg -> sign o sg pk = Ok g ->
    filter keepf g = filter keepf pk /\ exists added, g = filter keepf pk ++ added /\ Forall (fun m : member => vsix_keep_file (fst m) = false) added.
  Proof.
    intros Hc Hs. destruct (sign_inv _ _ _ _ Hs) as [s [id1 [id2 [Hk [_ [_ [_ [_ [_ [Hcerts [_ [_ Hg]]]]]]]]]]]].
    assert (Fadd : Forall (fun m : member => vsix_keep_file (fst m) = false)
                     (added3 s ++ sp_certs s ++ [(vsix_sig_name (sg_fname key sg), ser (make_sigdoc key pubk sigv pub xsign tbs o sg (package_object (sp_refs s) (so_alg sigv o) (so_time sigv o))));
                                                 (vsix_newct_name, ct_marshal (ct_doc_of (new_ctypes (sp_ct s) (so_detach sigv o))))])).
    { apply Forall_app. split.
      - destruct N_consts as [_ [A [B [C _]]]]. repeat constructor; assumption.
      - rewrite Forall_forall. intros m Hm. exact (proj1 (tail_names o sg s Hc Hcerts m _ _ Hm)). }
    split.
    - rewrite Hg. unfold signed_prefix. rewrite <- app_assoc, filter_app, Hk.
      assert (E : forall l, Forall (fun m : member => vsix_keep_file (fst m) = false) l -> filter keepf l = []).
      { induction l as [|m l IH]; intros F; [reflexivity|]. inversion F as [|? ? Hm Hl]; subst. cbn [filter]. unfold keepf at 1. rewrite Hm. apply IH. assumption. }
      rewrite (E _ Fadd), app_nil_r.
      clear. induction pk as [|m pk IH]; [reflexivity|]. cbn [filter]. destruct (keepf m) eqn:Ek; [cbn [filter]; rewrite Ek, IH; reflexivity|exact IH].
    - eexists. split; [rewrite Hg; unfold signed_prefix; rewrite Hk, <- app_assoc; reflexivity|exact Fadd].
  Qed.

  (* C01 / C05 / C02: every Reference of the manifest is (URI of a member name with the chosen content type, digest of the bytes the OUTPUT holds
     under that name), and every kept member and each of the three new signed parts has one *)
  Lemma signed_names o sg s pk n : chain_ok sg -> sp_kept s = filter keepf pk ->
    (if so_detach sigv o then add_certs sha1 key sg (vsix_sig_name (sg_fname key sg)) = Ok (sp_certs s) else sp_certs s = []) ->
    In n (names (signed_prefix s)) -> forall x y,
    files_get (signed_prefix s ++ sp_certs s ++ [(vsix_sig_name (sg_fname key sg), x); (vsix_newct_name, y)]) n = files_get (signed_prefix s) n.
  Proof.
    intros Hc Hkept Hs Hin x y. apply files_get_app_notin. intros m Hm E.
    destruct (tail_names o sg s Hc Hs m x y Hm) as [Hk [H1 [H2 H3]]]. rewrite E in *.
    unfold signed_prefix, names in Hin. rewrite map_app in Hin. apply in_app_or in Hin as [Hin|Hin].
    - apply in_map_iff in Hin as [[n' c'] [En Hin']]. cbn in En. subst n'. rewrite Hkept in Hin'. apply filter_In in Hin' as [_ Hk']. unfold keepf in Hk'. cbn in Hk'. congruence.
    - unfold added3 in Hin. cbn [map fst In] in Hin. destruct Hin as [E1|[E1|[E1|[]]]]; congruence.
  Qed.

  Definition uri_of (ovr ext : assoc) (n : bytes) : bytes := [47] ++ n ++ Q_CT ++ chosen_type ovr ext n.
  Definition signed_name (g : package) (n : bytes) : Prop := (vsix_keep_file n = true /\ In n (names g)) \/ n = N_ROOT \/ n = N_OREL \/ n = N_ORIG.
  Lemma manifest_of_signed o sg pk g : chain_ok sg -> sign o sg pk = Ok g ->
    exists refs ct NS,
      ct_scan pk ct_empty = Some ct /\
      files_get g (vsix_sig_name (sg_fname key sg)) = Some (ser (make_sigdoc key pubk sigv pub xsign tbs o sg (package_object refs (so_alg sigv o) (so_time sigv o)))) /\
      NoDup NS /\ Sorted.Sorted leb_prop NS /\
      (forall n, In n NS <-> signed_name g n) /\
      exists D, manifest_refs (package_object refs (so_alg sigv o) (so_time sigv o)) =
                  map (fun n => mkRef (uri_of (ct_ovr ct) (ct_ext ct) n) (hash_uri_of (so_alg sigv o)) (b64 (D n))) NS /\
                (forall n, In n NS -> exists c, files_get g n = Some c /\ D n = H (so_alg sigv o) c).
  Proof.
    intros Hc Hs. destruct (sign_inv _ _ _ _ Hs) as [s [id1 [id2 [Hk [Hct [_ [_ [_ [_ [Hcerts [_ [Hrefs Hg]]]]]]]]]]]].
    set (alg := so_alg sigv o) in *. set (D := dig_fold alg (signed_prefix s) []) in *.
    exists (sp_refs s), (sp_ct s), (ssort (akeys D)).
    split; [exact Hct|].
    assert (Tail : forall n, In n (names (signed_prefix s)) -> files_get g n = files_get (signed_prefix s) n).
    { intros n Hn. rewrite Hg. eapply signed_names; eassumption. }
    assert (Hsn : forall n, In n (names (signed_prefix s)) <-> signed_name g n).
    { intros n. unfold signed_name. split.
      - intros Hn. unfold signed_prefix, names in Hn. rewrite map_app in Hn. apply in_app_or in Hn as [Hn|Hn].
        + left. apply in_map_iff in Hn as [[n' c'] [En Hin']]. cbn in En. subst n'. split.
          * rewrite Hk in Hin'. apply filter_In in Hin' as [_ Hk']. exact Hk'.
          * rewrite Hg. unfold names, signed_prefix. rewrite !map_app. apply in_or_app. left. apply in_or_app. left. apply in_map_iff. exists (n, c'). split; [reflexivity|exact Hin'].
        + right. unfold added3 in Hn. cbn [map fst In] in Hn. destruct Hn as [E1|[E1|[E1|[]]]]; subst n; tauto.
      - intros [[Hkeep Hin]|Hconst].
        + rewrite Hg in Hin. unfold names in Hin. rewrite map_app in Hin. apply in_app_or in Hin as [Hin|Hin]; [exact Hin|].
          exfalso. apply in_map_iff in Hin as [m [Em Hm]]. destruct (tail_names o sg s Hc Hcerts m _ _ Hm) as [Hk' _]. rewrite Em in Hk'. congruence.
        + unfold signed_prefix, names. rewrite map_app. apply in_or_app. right. unfold added3. cbn [map fst In]. destruct Hconst as [E1|[E1|E1]]; subst n; tauto. }
    split.
    { (* the signature part is the last but one member *)
      assert (E : bytes_eqb vsix_newct_name (vsix_sig_name (sg_fname key sg)) = false) by (rewrite (proj1 (sig_name_form _ (proj1 Hc))); reflexivity).
      rewrite Hg.
      match goal with |- files_get (?a ++ ?b ++ [?x; ?y]) _ = _ => replace (a ++ b ++ [x; y]) with (((a ++ b) ++ [x]) ++ [y]) by (rewrite <- !app_assoc; reflexivity) end.
      rewrite files_get_snoc, E, files_get_snoc, beq_refl. reflexivity. }
    split; [apply ssort_nodup; apply dig_fold_nodup; constructor|]. split; [apply ssort_sorted|].
    split; [intros n; unfold D; rewrite ssort_in, dig_fold_keys; apply Hsn|].
    exists (aget D). split.
    - rewrite manifest_roundtrip, Hrefs, map_map. apply map_ext. intros n. cbn [fst snd]. unfold uri_of. rewrite <- ref_uri_form. reflexivity.
    - intros n Hn. unfold D in Hn. rewrite ssort_in, dig_fold_keys in Hn. destruct (files_get_some_name _ _ Hn) as [c Hc'].
      exists c. split; [rewrite (Tail n Hn); exact Hc'|]. pose proof (dig_fold_spec alg (signed_prefix s) n) as S. rewrite Hc' in S. exact (proj2 S).
  Qed.
End SignStructure.
