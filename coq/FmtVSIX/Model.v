(* FmtVSIX/Model.v — Visual Studio extension packages (OPC digital signatures, signers/vsix), executable definitions only.
   A package is the list of its ZIP members (name, uncompressed content) in central-directory order; how members are removed and
   appended at the byte level is unit C17's subject.
   FAITHFUL side: the Mangle callback (keepFile, parseTypes), ContentTypes.Parse / Find / Marshal, newRels / addFile / addOrigin /
   addCerts, oxfRelationships.Append / Marshal / Find, makeSignature's manifest (names sorted, content type choice, Reference URI,
   digest), newCtypes, the order of sign; readSignature, checkManifest (incl. the Unmarshal of the package Object), verify.
   Every constant and loop-free decision is a definition of Generated/FmtVSIX_gen.v; the package Object is C19.Model.vsix_object.
   SYMBOLIC (section variables, no axioms): the digest functions, base64, the XML reader (encoding/xml Unmarshal of content types
   and relationships documents), XML-DSig signing and verification of the package Object (unit C19's subject), certificates,
   the RFC 3161 token check.
   SPEC side (written from ECMA-376 Part 2 "Open Packaging Conventions": part names 8.1.1 / 9.1.1, content types 10.1.2.4,
   relationships 9.3 / 8.3, digital signatures 13): part name grammar, content type look-up, relationships part names and their
   sources, target resolution, the parts a package's relationships make signature related. *)
From Relic Require Import Base.Prelude FmtVSIX.Lib Generated.FmtVSIX_gen.
From Relic Require Generated.C19_gen C19.Model.

Definition node := Relic.C19.Model.node.
Definition member := (bytes * bytes)%type.
Definition package := list member.

(* error classes (driver: harness/p/fmtvsix classify) *)
Definition E_CT_PARSE := 1.      (* parsing [Content_Types].xml *)
Definition E_HASH := 2.          (* sign: unsupported digest algorithm *)
Definition E_SHAPE := 3.         (* the source no longer has the shape this model transcribes *)
Definition E_NOT_SIGNED := 10.   (* NotSignedError *)
Definition E_RELS_PARSE := 11.   (* error parsing rels *)
Definition E_MISSING := 12.      (* file missing from zip *)
Definition E_XMLDSIG := 13.      (* the signature part does not parse / xmldsig.Verify fails *)
Definition E_REF_MISSING := 14.  (* validation failed: file not found *)
Definition E_BAD_ALG := 15.      (* validation failed: unsupported digest algorithm *)
Definition E_BAD_DIGEST := 16.   (* validation failed: invalid digest *)
Definition E_MISMATCH := 17.     (* validation failed: digest mismatch *)
Definition E_TIMESTAMP := 18.    (* timestamp check failed *)
Definition E_NO_LEAF := 19.      (* leaf x509 certificate not found *)
Definition E_CERT_PARSE := 20.   (* failed to parse certificate *)
Definition P_INDEX := 1.         (* index / slice out of range *)
Definition P_HANG := 2.          (* a loop that never ends *)

Definition is_some {A} (o : option A) : bool := match o with Some _ => true | None => false end.
Definition guard {A} (panics : bool) (v : A) : result A := if panics then Panic P_INDEX else Ok v.

(* the shapes the hand-written control flow relies on; a changed shape stops the build (reported as a broken obligation) *)
Definition shapes_ok : bool :=
  vsix_mangle_kept_is_digested && negb vsix_mangle_kept_is_deleted && vsix_mangle_dropped_is_deleted && vsix_mangle_parse_calls_parse_types
  && vsix_parse_types_parses_blob && vsix_ct_parse_sets_ext && vsix_ct_parse_sets_ovr && vsix_ct_marshal_sorts_ext && vsix_ct_marshal_sorts_ovr
  && list_eqb Z.eqb vsix_ct_marshal_calls [0; 0; 1] && vsix_newct_sets_ext && vsix_newct_ranges_table
  && vsix_rels_marshal_writes_header && vsix_rels_find_miss_is_empty && vsix_rels_id_hashes_path_then_type && vsix_rels_id_retry_appends_zero && vsix_rels_appends
  && list_eqb Z.eqb vsix_newrels_calls [0; 1; 3; 2] && vsix_addfile_digests && vsix_addfile_adds
  && negb vsix_certs_are_digested && vsix_certs_added_raw && vsix_certs_whole_chain
  && vsix_ms_sorts_names && vsix_ms_names_are_digest_keys && vsix_ms_digest_is_base64 && vsix_ms_digest_method_is_hash_uri && vsix_ms_hash_uri_from_table
  && vsix_ms_rec_c14n_keyvalue && vsix_ms_x509_unless_detached && vsix_ms_signs_enveloping && vsix_ms_timestamps_when_configured
  && negb vsix_ms_verifies_timestamp && negb vsix_ms_checks_timestamp && vsix_ms_time_value
  && list_eqb Z.eqb vsix_sign_calls [0; 1; 1; 2; 3; 4; 5; 6; 7; 8]
  && list_eqb Z.eqb vsix_rs_calls [0; 1; 2; 1; 0; 2; 3; 0; 1; 0; 3; 4] && vsix_rs_origin_rels_by_relpath && vsix_rs_reads_sigpath && vsix_readzip_by_name
  && vsix_cm_alg_per_reference && vsix_cm_decodes_digest_value && negb vsix_cm_looks_at_transforms && vsix_cm_all_references
  && list_eqb Z.eqb vsix_verify_calls [0; 1; 2; 3; 4; 5; 6] && vsix_verify_last_name_wins && vsix_verify_root_signature && vsix_verify_checks_referenced_object
  && vsix_cm_missing_is_error && vsix_cm_bad_alg_is_error && vsix_cm_bad_digest_is_error && vsix_cm_mismatch_is_error
  && vsix_rs_no_root_rels_is_not_signed && vsix_rs_no_origin_is_not_signed && vsix_rs_no_sigpath_is_not_signed && vsix_readzip_missing_is_error && vsix_verify_no_leaf_is_error.
Example shapes_hold : shapes_ok = true. Proof. vm_compute. reflexivity. Qed.
(* the package Object makeSignature builds is the one unit C19 transcribes (tag names in creation order) *)
Definition s (l : bytes) := l.
Example shape_object_elements : firstn 9 vsix_ms_elements =
  [[77;97;110;105;102;101;115;116]; [82;101;102;101;114;101;110;99;101]; [68;105;103;101;115;116;77;101;116;104;111;100]; [68;105;103;101;115;116;86;97;108;117;101];
   [83;105;103;110;97;116;117;114;101;80;114;111;112;101;114;116;105;101;115]; [83;105;103;110;97;116;117;114;101;80;114;111;112;101;114;116;121];
   [83;105;103;110;97;116;117;114;101;84;105;109;101]; [70;111;114;109;97;116]; [86;97;108;117;101]]
  /\ vsix_ms_object_tag = Relic.C19.Model.s_Object /\ vsix_ms_object_id = [105;100;80;97;99;107;97;103;101;79;98;106;101;99;116].
Proof. repeat split; reflexivity. Qed.

(* ================================================================== XML writers (encoding/xml Marshal of two flat documents) *)
(* EscapeString: the five predefined entities as numeric / named references, TAB LF CR as character references, other control characters
   replaced by U+FFFD.  Bytes >= 0x80 are passed through (the harness only writes valid UTF-8; invalid sequences would become U+FFFD). *)
Definition xml_esc_byte (c : Z) : bytes :=
  if c =? 34 then [38; 35; 51; 52; 59]            (* &#34; *)
  else if c =? 39 then [38; 35; 51; 57; 59]       (* &#39; *)
  else if c =? 38 then [38; 97; 109; 112; 59]     (* &amp; *)
  else if c =? 60 then [38; 108; 116; 59]         (* &lt; *)
  else if c =? 62 then [38; 103; 116; 59]         (* &gt; *)
  else if c =? 9 then [38; 35; 120; 57; 59]       (* &#x9; *)
  else if c =? 10 then [38; 35; 120; 65; 59]      (* &#xA; *)
  else if c =? 13 then [38; 35; 120; 68; 59]      (* &#xD; *)
  else if c <? 32 then [239; 191; 189]            (* U+FFFD *)
  else [c].
Definition xml_esc (v : bytes) : bytes := flat_map xml_esc_byte v.
Definition xml_attr (kv : bytes * bytes) : bytes := [32] ++ fst kv ++ [61; 34] ++ xml_esc (snd kv) ++ [34].
Definition xml_leaf (tag : bytes) (attrs : list (bytes * bytes)) : bytes :=
  [60] ++ tag ++ flat_map xml_attr attrs ++ [62] ++ [60; 47] ++ tag ++ [62].
Definition xml_root (tag ns : bytes) (inner : bytes) : bytes :=
  [60] ++ tag ++ xml_attr ([120; 109; 108; 110; 115], ns) ++ [62] ++ inner ++ [60; 47] ++ tag ++ [62].
(* the single element name of a field list entry *)
Definition field_tag (fs : list (Z * list bytes)) (i : nat) : bytes := match nth i fs (0, []) with (_, [t]) => t | _ => [] end.
Definition field_path (fs : list (Z * list bytes)) (i : nat) : list bytes := snd (nth i fs (0, [])).

(* ------------------------------------------------------------------ content types (lib/signappx ContentTypes) *)
Record ctab := mkCt { ct_ovr : assoc; ct_ext : assoc }.
Definition ct_empty : ctab := mkCt [] [].
Definition ctdoc := (list (bytes * bytes) * list (bytes * bytes))%type.      (* Default (Extension, ContentType)*, Override (PartName, ContentType)* in document order *)
Definition aset_all (m : assoc) (l : list (bytes * bytes)) : assoc := fold_left (fun m kv => aset m (fst kv) (snd kv)) l m.
Definition ct_merge (c : ctab) (d : ctdoc) : ctab :=
  mkCt (if vsix_ct_parse_sets_ovr then aset_all (ct_ovr c) (snd d) else ct_ovr c)
       (if vsix_ct_parse_sets_ext then aset_all (ct_ext c) (fst d) else ct_ext c).
Definition sorted_entries (m : assoc) : list (bytes * bytes) := map (fun k => (k, aget m k)) (ssort (akeys m)).
Definition ct_doc_of (c : ctab) : ctdoc := (sorted_entries (ct_ext c), sorted_entries (ct_ovr c)).
Fixpoint subst_s (fmt arg : bytes) : bytes :=      (* fmt.Sprintf with one %s verb *)
  match fmt with
  | 37 :: 115 :: r => arg ++ r
  | c :: r => c :: subst_s r arg
  | [] => []
  end.
Definition ct_marshal (d : ctdoc) : bytes :=
  subst_s vsix_ct_xml_hdr_fmt (if vsix_ct_standalone_is_yes vsix_ct_marshal_standalone then vsix_ct_standalone_yes else vsix_ct_standalone_no)
  ++ xml_root vsix_ct_root vsix_ct_xmlns
       (flat_map (fun e => xml_leaf (field_tag vsix_ct_fields 0) (combine vsix_ct_default_attrs [fst e; snd e])) (fst d)
        ++ flat_map (fun e => xml_leaf (field_tag vsix_ct_fields 1) (combine vsix_ct_override_attrs [fst e; snd e])) (snd d)).
(* newCtypes: the signer's own extensions replace whatever the package declared for them *)
Definition new_ctypes (c : ctab) (has_cer : bool) : ctab :=
  mkCt (ct_ovr c) (aset_all (ct_ext c) (filter (fun e => negb (vsix_newct_skip (fst e) has_cer)) vsix_content_types)).

(* ------------------------------------------------------------------ relationships (rels.go) *)
Record rel := mkRel { r_target : bytes; r_id : bytes; r_type : bytes }.
Definition hex_digit_upper (n : Z) : Z := if n <? 10 then 48 + n else 55 + n.
Definition hex_upper (b : bytes) : bytes := flat_map (fun c => [hex_digit_upper (c / 16); hex_digit_upper (c mod 16)]) b.
Definition rels_marshal (l : list rel) : bytes :=
  vsix_xml_header ++ xml_root vsix_rels_root vsix_rels_xmlns
    (flat_map (fun r => xml_leaf (field_tag vsix_rels_fields 0) (combine vsix_rel_attrs [r_target r; r_id r; r_type r])) l).
Definition rels_find (rtype : bytes) (l : list rel) : bytes :=
  match find (fun r => vsix_rels_find_hit (r_type r) rtype) l with
  | Some r => vsix_rels_find_path (r_target r)
  | None => []
  end.

Section Model.
  (* ---- symbolic primitives *)
  Variable H : Z -> bytes -> bytes.                      (* crypto.Hash id -> content -> digest *)
  Variable sha1 : bytes -> bytes.                        (* the digest relationship Ids are derived from *)
  Variable b64 : bytes -> bytes.                         (* base64.StdEncoding.EncodeToString *)
  Variable b64d : bytes -> option bytes.                 (* ...DecodeString *)
  Variable ct_read : bytes -> option ctdoc.              (* xml.Unmarshal into xmlContentTypes *)
  Variable rels_read : bytes -> option (list rel).       (* xml.Unmarshal into oxfRelationships *)
  Variables key pubk sigv : Type.
  Variable pub : key -> pubk.
  Variable pubk_eqb : pubk -> pubk -> bool.
  Variable xsign : key -> bytes -> sigv.                 (* the signature value over the canonical SignedInfo *)
  Variable xvrfy : pubk -> bytes -> sigv -> bool.
  Variable tbs : Z -> node -> bytes.                     (* canonical SignedInfo for (digest algorithm, canonical package Object): unit C19 *)
  (* the signature part as xmldsig.Verify reads it: KeyValue, algorithm, the referenced Object, SignatureValue, embedded certificates, timestamp token *)
  Record sigdoc := mkSig { sd_key : pubk; sd_alg : Z; sd_obj : node; sd_sigv : sigv; sd_x509 : list bytes; sd_ts : option bytes }.
  Variable ser : sigdoc -> bytes.
  Variable deser : bytes -> option sigdoc.
  Variable cert_key : bytes -> option pubk.              (* x509.ParseCertificates of a certificate part: its public key, None if unparsable *)
  Variable ts_ok : bytes -> sigv -> bool.                (* pkcs9.Verify of the token against the signature value *)

  (* ---- Append: the Id is "R" + upper-case hex of the first bytes of SHA-1 of zipPath ++ relType ++ zero bytes; on a collision a zero byte is appended *)
  Fixpoint id_loop (fuel : nat) (pre : bytes) (l : list rel) : result bytes :=
    match fuel with
    | O => Panic P_HANG
    | S f =>
        let id := subst_s [82; 37; 115] (hex_upper (ztake vsix_rels_id_bytes (sha1 pre))) in
        if existsb (fun r => bytes_eqb (r_id r) id) l then id_loop f (pre ++ [0]) l else Ok id
    end.
  Definition rels_append (l : list rel) (zip_path rel_type : bytes) : result (list rel) :=
    id <- id_loop (S (length l) * 4) (zip_path ++ rel_type) l ;;
    Ok (l ++ [mkRel (vsix_rels_target zip_path) id (vsix_rels_type rel_type)]).

  (* ---- mangleZip: the callback over the members in order *)
  Record mstate := mkM { m_kept : package; m_dig : assoc; m_ct : ctab }.
  Fixpoint mangle (alg : Z) (pk : package) (st : mstate) : result mstate :=
    match pk with
    | [] => Ok st
    | (n, c) :: r =>
        if vsix_mangle_keeps_panics n then Panic P_INDEX
        else if vsix_mangle_keeps n then mangle alg r (mkM (m_kept st ++ [(n, c)]) (aset (m_dig st) n (H alg c)) (m_ct st))
        else if vsix_mangle_parses n then
          match ct_read c with
          | Some d => mangle alg r (mkM (m_kept st) (m_dig st) (ct_merge (m_ct st) d))
          | None => Err E_CT_PARSE
          end
        else mangle alg r st
    end.

  (* ---- makeSignature: one (URI, DigestValue) per digest table entry, names sorted *)
  Definition hash_uri_of (alg : Z) : bytes :=
    match find (fun p => fst p =? alg) Relic.Generated.C19_gen.hash_uris with Some p => snd p | None => [] end.
  Definition make_refs (ct : ctab) (dig : assoc) : result (list (bytes * bytes)) :=
    let names := ssort (akeys dig) in
    if existsb (fun n => vsix_ref_uri_panics (ct_ovr ct) (ct_ext ct) n) names then Panic P_INDEX
    else Ok (map (fun n => (vsix_ref_uri (ct_ovr ct) (ct_ext ct) n, b64 (aget dig n))) names).
  Definition package_object (refs : list (bytes * bytes)) (alg : Z) (time : bytes) : node :=
    Relic.C19.Model.vsix_object refs (hash_uri_of alg) vsix_ns_digsig vsix_ts_format_xml time.

  (* ---- sign *)
  Record signer := mkSigner { sg_key : key; sg_fname : bytes; sg_chain : list (bytes * bytes) }.   (* chain: (calcFileName, DER) leaf first *)
  Record sopts := mkOpts { so_alg : Z; so_time : bytes; so_detach : bool; so_tsa : option (sigv -> bytes) }.
  Definition add_file (alg : Z) (st : mstate) (name content : bytes) (added : package) : mstate * package :=
    (mkM (m_kept st) (aset (m_dig st) name (H alg content)) (m_ct st), added ++ [(name, content)]).
  Definition new_rels (alg : Z) (st : mstate) (parent child rtype : bytes) (added : package) : result (mstate * package) :=
    rl <- rels_append [] child rtype ;;
    Ok (add_file alg st (vsix_newrels_name parent) (rels_marshal rl) added).
  Fixpoint cert_rels (chain : list (bytes * bytes)) (l : list rel) : result (list rel) :=
    match chain with
    | [] => Ok l
    | (fn, _) :: r => l' <- rels_append l (vsix_cert_path fn) vsix_cert_rel_type ;; cert_rels r l'
    end.
  Definition add_certs (sg : signer) (sig_name : bytes) : result package :=
    rl <- cert_rels (sg_chain sg) [] ;;
    Ok (map (fun c => (vsix_cert_path (fst c), snd c)) (sg_chain sg) ++ [(vsix_cert_rels_name sig_name, rels_marshal rl)]).
  Definition make_sigdoc (o : sopts) (sg : signer) (obj : node) : sigdoc :=
    let sv := xsign (sg_key sg) (tbs (so_alg o) obj) in
    mkSig (pub (sg_key sg)) (so_alg o) obj sv
          (if so_detach o then [] else map snd (sg_chain sg))
          (match so_tsa o with Some f => Some (f sv) | None => None end).
  Definition sign (o : sopts) (sg : signer) (pk : package) : result package :=
    if negb shapes_ok then Err E_SHAPE else
    st <- mangle (so_alg o) pk (mkM [] [] ct_empty) ;;
    let alg := so_alg o in
    let sig_name := vsix_sig_name (sg_fname sg) in
    p1 <- new_rels alg st (vsix_sign_rels1_parent sig_name) (vsix_sign_rels1_child sig_name) (vsix_sign_rels1_type sig_name) [] ;;
    p2 <- new_rels alg (fst p1) (vsix_sign_rels2_parent sig_name) (vsix_sign_rels2_child sig_name) (vsix_sign_rels2_type sig_name) (snd p1) ;;
    let p3 := add_file alg (fst p2) vsix_origin_name vsix_origin_content (snd p2) in
    certs <- (if vsix_sign_adds_certs (so_detach o) then add_certs sg sig_name else Ok []) ;;
    if bytes_eqb (hash_uri_of alg) [] then Err E_HASH else
    refs <- make_refs (m_ct (fst p3)) (m_dig (fst p3)) ;;
    let sigfile := ser (make_sigdoc o sg (package_object refs alg (so_time o))) in
    let ct' := new_ctypes (m_ct (fst p3)) (vsix_sign_ctypes_has_cer (so_detach o)) in
    Ok (m_kept (fst p3) ++ snd p3 ++ certs ++ [(vsix_sign_sig_part sig_name, sigfile); (vsix_newct_name, ct_marshal (ct_doc_of ct'))]).

  (* ---- verify *)
  (* files[f.Name] = f for every member in order: the LAST member of a name is the one looked at *)
  Definition files_get (pk : package) (n : bytes) : option bytes :=
    match find (fun m => bytes_eqb (fst m) n) (rev pk) with Some m => Some (snd m) | None => None end.
  Definition read_zip (pk : package) (path : bytes) : result bytes :=
    match files_get pk path with
    | Some c => if vsix_readzip_missing true then Err E_MISSING else Ok c
    | None => if vsix_readzip_missing false then Err E_MISSING else Ok []
    end.
  Definition parse_rels (pk : package) (path : bytes) : result (list rel) :=
    c <- read_zip pk path ;;
    match rels_read c with Some l => Ok l | None => Err E_RELS_PARSE end.
  Fixpoint cert_loop (pk : package) (l : list rel) : result (list bytes) :=
    match l with
    | [] => Ok []
    | r :: t =>
        if vsix_rs_skip_rel (r_type r) then cert_loop pk t
        else if vsix_rs_cert_path_panics (r_target r) then Panic P_INDEX
        else
          blob <- read_zip pk (vsix_rs_cert_path (r_target r)) ;;
          match cert_key blob with
          | None => Err E_CERT_PARSE
          | Some _ => rest <- cert_loop pk t ;; Ok (blob :: rest)
          end
    end.
  Definition read_signature (pk : package) : result (bytes * list bytes) :=
    if vsix_rs_top_panics then Panic P_INDEX else
    if vsix_rs_no_root_rels (is_some (files_get pk vsix_rs_top)) then Err E_NOT_SIGNED else
    r <- parse_rels pk vsix_rs_top ;;
    let origin := rels_find vsix_rs_origin_type r in
    if vsix_rs_no_origin origin then Err E_NOT_SIGNED else
    if vsix_rel_path_panics origin then Panic P_INDEX else
    r2 <- parse_rels pk (vsix_rel_path origin) ;;
    let sigpath := rels_find vsix_rs_sig_type r2 in
    if vsix_rs_no_sigpath sigpath then Err E_NOT_SIGNED else
    sigblob <- read_zip pk sigpath ;;
    if vsix_rel_path_panics sigpath then Panic P_INDEX else
    certs <- (if vsix_rs_has_cert_rels (is_some (files_get pk (vsix_rel_path sigpath)))
              then r3 <- parse_rels pk (vsix_rel_path sigpath) ;; cert_loop pk r3
              else Ok []) ;;
    Ok (sigblob, certs).

  (* xml.Unmarshal of the package Object into oxmlManifest, at tree level: paths match local names in any namespace, every Manifest child
     contributes its Reference children, a repeated attribute / DigestMethod / DigestValue overwrites the earlier one *)
  Definition n_elem (n : node) : bool := match n with Relic.C19.Model.Elem _ _ _ _ => true | _ => false end.
  Definition n_tag (n : node) : bytes := match n with Relic.C19.Model.Elem _ t _ _ => t | _ => [] end.
  Definition n_attrs (n : node) : list Relic.C19.Model.attr := match n with Relic.C19.Model.Elem _ _ a _ => a | _ => [] end.
  Definition n_kids (n : node) : list node := match n with Relic.C19.Model.Elem _ _ _ c => c | _ => [] end.
  Definition n_text (n : node) : bytes := flat_map (fun c => match c with Relic.C19.Model.CharData d => d | _ => [] end) (n_kids n).
  Definition kids_named (tag : bytes) (n : node) : list node := filter (fun c => n_elem c && bytes_eqb (n_tag c) tag) (n_kids n).
  Definition last_attr (key : bytes) (attrs : list Relic.C19.Model.attr) (dflt : bytes) : bytes :=
    fold_left (fun acc a => if bytes_eqb (Relic.Generated.C19_gen.a3_key a) key then Relic.Generated.C19_gen.a3_val a else acc) attrs dflt.
  Record mref := mkRef { mr_uri : bytes; mr_alg : bytes; mr_dv : bytes }.
  Definition mref_of (r : node) : mref :=
    mkRef (last_attr (hd [] (field_path vsix_cm_reference_fields 0)) (n_attrs r) [])
          (fold_left (fun acc dm => last_attr (hd [] (field_path vsix_cm_method_fields 0)) (n_attrs dm) acc) (kids_named (hd [] (field_path vsix_cm_reference_fields 2)) r) [])
          (fold_left (fun _ dv => n_text dv) (kids_named (hd [] (field_path vsix_cm_reference_fields 3)) r) []).
  Definition manifest_refs (obj : node) : list mref :=
    flat_map (fun m => map mref_of (kids_named (nth 1 (field_path vsix_cm_manifest_fields 0) []) m)) (kids_named (nth 0 (field_path vsix_cm_manifest_fields 0) []) obj).

  (* xmldsig.HashAlgorithm: strip the first matching namespace prefix, look the name up *)
  Fixpoint strip_ns (pfxs : list bytes) (u : bytes) : bytes :=
    match pfxs with
    | [] => u
    | p :: r => if has_prefix u p then skipn (length p) u else strip_ns r u
    end.
  Definition hash_of_uri (u : bytes) : Z :=
    let a := strip_ns Relic.Generated.C19_gen.ns_prefixes u in
    match find (fun p => bytes_eqb a (snd p)) Relic.Generated.C19_gen.hash_names with Some p => fst p | None => 0 end.
  Definition hash_available (h : Z) : bool := (3 <=? h) && (h <=? 7).

  Definition check_ref (pk : package) (r : mref) : result unit :=
    if vsix_ref_path_panics (mr_uri r) then Panic P_INDEX else
    match files_get pk (vsix_ref_path (mr_uri r)) with
    | None => if vsix_cm_missing false then Err E_REF_MISSING else Ok tt
    | Some c =>
        if vsix_cm_missing true then Err E_REF_MISSING else
        let h := hash_of_uri (mr_alg r) in
        if vsix_cm_bad_alg (hash_available h) then Err E_BAD_ALG else
        match b64d (mr_dv r) with
        | None => Err E_BAD_DIGEST
        | Some refv => if vsix_cm_mismatch (bytes_eqb refv (H h c)) then Err E_MISMATCH else Ok tt
        end
    end.
  Fixpoint check_refs (pk : package) (l : list mref) : result unit :=
    match l with [] => Ok tt | r :: t => _ <- check_ref pk r ;; check_refs pk t end.
  Definition check_manifest (pk : package) (obj : node) : result unit := check_refs pk (manifest_refs obj).

  Record vresult := mkV { v_key : pubk; v_alg : Z; v_timestamped : bool }.
  Definition verify (pk : package) : result vresult :=
    if negb shapes_ok then Err E_SHAPE else
    sc <- read_signature pk ;;
    match deser (fst sc) with
    | None => Err E_XMLDSIG
    | Some sd =>
        if negb (xvrfy (sd_key sd) (tbs (sd_alg sd) (sd_obj sd)) (sd_sigv sd)) then Err E_XMLDSIG else
        _ <- check_manifest pk (sd_obj sd) ;;
        if (match sd_ts sd with Some tok => if vsix_ts_absent true then false else negb (ts_ok tok (sd_sigv sd)) | None => if vsix_ts_absent false then false else true end)
        then Err E_TIMESTAMP else
        let has_leaf := existsb (fun c => match cert_key c with Some p => pubk_eqb p (sd_key sd) | None => false end) (snd sc ++ sd_x509 sd) in
        if vsix_verify_no_leaf has_leaf then Err E_NO_LEAF else
        Ok (mkV (sd_key sd) (sd_alg sd) (is_some (sd_ts sd)))
    end.
  Definition is_signed (pk : package) : bool := match read_signature pk with Ok _ => true | _ => false end.
End Model.

(* ================================================================== SPECIFICATION side (ECMA-376 Part 2) *)
(* 9.1.1.1 / 8.1.1.1 part names, here without the leading slash (the ZIP item name, 10.2.3): one or more non-empty segments separated by
   "/", each made of pchar characters (unreserved, sub-delims, ":", "@", percent-encoded triplets), no segment ending in ".", at least one
   non-dot character per segment (so neither "." nor ".."), no percent-encoded "/" or "\" *)
Definition is_alpha (c : Z) : bool := ((65 <=? c) && (c <=? 90)) || ((97 <=? c) && (c <=? 122)).
Definition is_digit (c : Z) : bool := (48 <=? c) && (c <=? 57).
Definition is_hex (c : Z) : bool := is_digit c || ((65 <=? c) && (c <=? 70)) || ((97 <=? c) && (c <=? 102)).
Definition is_pchar_plain (c : Z) : bool :=
  is_alpha c || is_digit c || existsb (fun x => x =? c) [45; 46; 95; 126; 33; 36; 38; 39; 40; 41; 42; 43; 44; 59; 61; 58; 64].
Fixpoint seg_chars_ok (sg : bytes) : bool :=
  match sg with
  | [] => true
  | 37 :: a :: b :: r => is_hex a && is_hex b && negb ((a =? 50) && ((b =? 70) || (b =? 102))) && negb ((a =? 53) && ((b =? 67) || (b =? 99))) && seg_chars_ok r
  | c :: r => is_pchar_plain c && seg_chars_ok r
  end.
Definition spec_segment_ok (sg : bytes) : bool :=
  negb (zlen sg =? 0) && seg_chars_ok sg && negb (last sg 0 =? DOT) && existsb (fun c => negb (c =? DOT)) sg.
Definition spec_part_name_ok (n : bytes) : bool := forallb spec_segment_ok (split_on SLASH n).

(* 10.1.2.4 content type of a part: an Override whose PartName is equivalent to the part name (ASCII case-insensitive, 8.1.1 [M1.12]) wins;
   else the Default whose Extension matches, case-insensitively, the characters after the last "." of the last segment; else none *)
Definition spec_extension (n : bytes) : option bytes :=
  let lastseg := last (split_on SLASH n) [] in
  match rev (split_on DOT lastseg) with
  | e :: _ :: _ => Some e
  | _ => None
  end.
Definition spec_ct_of (d : ctdoc) (n : bytes) : option bytes :=
  match find (fun o => ieq (fst o) (SLASH :: n)) (snd d) with
  | Some o => Some (snd o)
  | None => match spec_extension n with
            | Some e => match find (fun x => ieq (fst x) e) (fst d) with Some x => Some (snd x) | None => None end
            | None => None
            end
  end.
(* the content types stream is not a part (10.1.2.1) *)
Definition spec_is_ct_stream (n : bytes) : bool := ieq n [91; 67; 111; 110; 116; 101; 110; 116; 95; 84; 121; 112; 101; 115; 93; 46; 120; 109; 108].
(* 9.3.1 [M1.30]: the relationships part of source part /a/b is /a/_rels/b.rels, of the package /_rels/.rels *)
Definition s_rels_dir : bytes := [95; 114; 101; 108; 115].      (* _rels *)
Definition s_rels_ext : bytes := [46; 114; 101; 108; 115].      (* .rels *)
Definition spec_is_rels_part (n : bytes) : bool :=
  match rev (split_on SLASH n) with
  | lastseg :: dir :: _ => ieq dir s_rels_dir && has_suffix (to_lower lastseg) s_rels_ext
  | _ => false
  end.
Definition spec_rels_of (source : bytes) : bytes :=      (* source = [] for the package root *)
  match rev (split_on SLASH source) with
  | lastseg :: rdir => join_with SLASH (rev rdir ++ [s_rels_dir; lastseg ++ s_rels_ext])
  | [] => []
  end.
(* 8.3.? target resolution: a relationship Target is a relative reference resolved against the source part's name (RFC 3986 5.2), the
   package root for package relationships *)
Fixpoint remove_dots (stack : list bytes) (segs : list bytes) : list bytes :=     (* stack: innermost first *)
  match segs with
  | [] => rev stack
  | sg :: r => if bytes_eqb sg [DOT] then remove_dots stack r
               else if bytes_eqb sg [DOT; DOT] then remove_dots (tl stack) r
               else remove_dots (sg :: stack) r
  end.
Definition spec_resolve (source target : bytes) : bytes :=
  match target with
  | 47 :: t => join_with SLASH (remove_dots [] (split_on SLASH t))
  | _ => join_with SLASH (remove_dots [] (removelast (split_on SLASH source) ++ split_on SLASH target))
  end.
(* 13.2: the signature origin part is the target of the package relationship of the origin type, signature parts are the targets of the origin's
   relationships of the signature type, certificate parts the targets of a signature part's relationships of the certificate type *)
Definition s_origin_type : bytes := [104;116;116;112;58;47;47;115;99;104;101;109;97;115;46;111;112;101;110;120;109;108;102;111;114;109;97;116;115;46;111;114;103;47;112;97;99;107;97;103;101;47;50;48;48;54;47;114;101;108;97;116;105;111;110;115;104;105;112;115;47;100;105;103;105;116;97;108;45;115;105;103;110;97;116;117;114;101;47;111;114;105;103;105;110].
Definition s_signature_type : bytes := [104;116;116;112;58;47;47;115;99;104;101;109;97;115;46;111;112;101;110;120;109;108;102;111;114;109;97;116;115;46;111;114;103;47;112;97;99;107;97;103;101;47;50;48;48;54;47;114;101;108;97;116;105;111;110;115;104;105;112;115;47;100;105;103;105;116;97;108;45;115;105;103;110;97;116;117;114;101;47;115;105;103;110;97;116;117;114;101].
Definition s_certificate_type : bytes := [104;116;116;112;58;47;47;115;99;104;101;109;97;115;46;111;112;101;110;120;109;108;102;111;114;109;97;116;115;46;111;114;103;47;112;97;99;107;97;103;101;47;50;48;48;54;47;114;101;108;97;116;105;111;110;115;104;105;112;115;47;100;105;103;105;116;97;108;45;115;105;103;110;97;116;117;114;101;47;99;101;114;116;105;102;105;99;97;116;101].
Definition spec_get (pk : package) (n : bytes) : option bytes :=     (* part look-up: names are equivalent ignoring ASCII case; duplicates are not allowed, the first is taken *)
  match find (fun m => ieq (fst m) n) pk with Some m => Some (snd m) | None => None end.
Definition spec_targets (rels_read : bytes -> option (list rel)) (pk : package) (source rtype : bytes) : list bytes :=
  match spec_get pk (spec_rels_of source) with
  | Some c => match rels_read c with
              | Some l => map (fun r => spec_resolve source (r_target r)) (filter (fun r => bytes_eqb (r_type r) rtype) l)
              | None => []
              end
  | None => []
  end.
Record sigparts := mkSP { sp_origins : list bytes; sp_sigs : list bytes; sp_certs : list bytes }.
Definition spec_sigparts (rels_read : bytes -> option (list rel)) (pk : package) : sigparts :=
  let os := spec_targets rels_read pk [] s_origin_type in
  let ss := flat_map (fun o => spec_targets rels_read pk o s_signature_type) os in
  let cs := flat_map (fun sg => spec_targets rels_read pk sg s_certificate_type) ss in
  mkSP os ss cs.
Definition mem_i (n : bytes) (l : list bytes) : bool := existsb (ieq n) l.
(* classes of a ZIP item *)
Definition C_CT_STREAM := 1.     (* the content types stream: regenerated *)
Definition C_SIG := 2.           (* origin, signature, certificate parts and their relationships parts: replaced on signing *)
Definition C_ROOT_RELS := 3.     (* package relationships: the origin relationship is replaced, the others are payload *)
Definition C_RELS := 4.          (* relationships of payload parts: payload *)
Definition C_PART := 5.          (* payload part *)
Definition C_NOT_A_PART := 6.    (* a ZIP item whose name is no part name (directory entries, ...): not addressable, cannot be referenced *)
Definition spec_class (sp : sigparts) (n : bytes) : Z :=
  let sigs := sp_origins sp ++ sp_sigs sp ++ sp_certs sp in
  if spec_is_ct_stream n then C_CT_STREAM
  else if negb (spec_part_name_ok n) then C_NOT_A_PART
  else if mem_i n sigs || existsb (fun x => ieq n (spec_rels_of x)) (sp_origins sp ++ sp_sigs sp) then C_SIG
  else if ieq n (spec_rels_of []) then C_ROOT_RELS
  else if spec_is_rels_part n then C_RELS
  else C_PART.
(* the name-level rule for the conventional layout (signature infrastructure under /package/services/digital-signature/, the three extensions
   reserved for relationships, origin and signature parts): what keepFile amounts to, stated without path.Ext *)
Definition last_segment (n : bytes) : bytes := last (split_on SLASH n) [].
Definition ends_with_ext (n e : bytes) : bool :=      (* last segment = x ++ e with no "." in e's tail: e is ".rels" etc. *)
  has_suffix (last_segment n) e.
Definition conv_sig_related (n : bytes) : bool :=
  bytes_eqb n (s_rels_dir ++ [SLASH]) || bytes_eqb n [91; 67; 111; 110; 116; 101; 110; 116; 95; 84; 121; 112; 101; 115; 93; 46; 120; 109; 108]
  || ends_with_ext n s_rels_ext || ends_with_ext n [46; 112; 115; 100; 115; 120; 115] || ends_with_ext n [46; 112; 115; 100; 111; 114]
  || has_prefix n [112; 97; 99; 107; 97; 103; 101; 47; 115; 101; 114; 118; 105; 99; 101; 115; 47; 100; 105; 103; 105; 116; 97; 108; 45; 115; 105; 103; 110; 97; 116; 117; 114; 101; 47].
