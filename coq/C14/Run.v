(* C14/Run.v — evaluation of the models on harness cases.
   [ [ [name body opts] ... ] [schedule] ]                    -> request interleaving model (tok n = n): [ [done key body opts]... ] log-length
   [ 1 E [ [name pin]... ] [ [0 i ok] | [1 d] ... ] ]         -> timed cache: per thread [state ok key-name key-id fetched], cache [[name id exp]...], order of effect
   [ 2 rate unit burst [ [t maxwait] ... ] ]                  -> limiter: admitted [[t act tokens]...]
   [ 3 rate unit burst slack [acts] ]                         -> window_ok
   [ 4 ntok n [ [0 i ok] [1] [2] [3] [4 d] [5 timer] ... ] ]  -> shutdown machine: pcs, file, clean, no-ping-after-close, returned, forced, tokens closed, lines
   [ 5 n [ [i ok] ... ] ]                                     -> timestamper: per thread [state value], constructions
   [ 6 nlis n [ [0 i] [1 i] [2 sig] [3] [4 d] [5 k] ... ] ]   -> process-level shutdown machine (thread step / handler step / signal /
                                                                 watcher receive / tick / k round-robin rounds over all goroutines):
                                                                 [alive how code forced tokens-closed closing spec_ok] handler codes, goroutines *)
From Relic Require Import Base.Prelude Base.Val Generated.C14_gen C14.Model.
From Relic Require C14.ModelCache C14.ModelRate C14.ModelShut C14.ModelInit C14.ModelProc.

Definition run_iso (v : val) : val :=
  let rqs := map (fun r => mkRq (vz (vnth 0 r)) (vz (vnth 1 r)) (vz (vnth 2 r))) (vl (vnth 0 v)) in
  let sched := map (fun x => Z.to_nat (vz x)) (vl (vnth 1 v)) in
  let '(pcs, sh) := C14.Model.run (fun n => n) rqs sched in
  VL [VL (map (fun p => match response p with Some s => VL [VZ 1; VZ (s_key s); VZ (s_body s); VZ (s_opts s)] | None => VL [VZ 0] end) pcs);
      VZ (zlen (sh_log sh))].

Section CacheRun.
Import C14.ModelCache.
(* the harness token: a key of the requested name; its id is the pinned id, or 100 + name when none is pinned *)
Definition htok : tokenT := fun n p => Some (mkKey n (if p =? 0 then 100 + n else p)).
Definition run_cache (v : val) : val :=
  let E := vz (vnth 1 v) in
  let rqs := map (fun r => mkCReq (vz (vnth 0 r)) (vz (vnth 1 r))) (vl (vnth 2 v)) in
  let evs := map (fun e => if vz (vnth 0 e) =? 0 then CStep (Z.to_nat (vz (vnth 1 e))) (vbool (vnth 2 e)) else CTick (vz (vnth 1 e))) (vl (vnth 3 v)) in
  let s := crun E htok rqs evs in
  let thr := map (fun t => match t_pc t with
                           | CDone (Some k) => VL [VZ 2; VZ 1; VZ (k_name k); VZ (k_id k); of_bool (t_fetched t)]
                           | CDone None => VL [VZ 2; VZ 0; VZ 0; VZ 0; of_bool (t_fetched t)]
                           | CNew => VL [VZ 0; VZ 0; VZ 0; VZ 0; VZ 0]
                           | _ => VL [VZ 1; VZ 0; VZ 0; VZ 0; of_bool (t_fetched t)]
                           end) (cs_thr s) in
  VL [VL thr; VL (map (fun e => VL [VZ (e_name e); VZ (k_id (e_key e)); VZ (e_exp e)]) (cs_cache s));
      VL (map (fun o => VZ (Z.of_nat (l_thread o))) (history s));
      of_bool (list_eqb (fun a b => match a, b with (i, ra), (j, rb) => Nat.eqb i j &&
                  match ra, rb with Some x, Some y => (k_name x =? k_name y) && (k_id x =? k_id y) | None, None => true | _, _ => false end end)
                  (snd (seq_run E htok rqs (history s)))
                  (map (fun o => (l_thread o, match nth_error (cs_thr s) (l_thread o) with
                                              | Some t => match t_pc t with CDone r | CRet r => r | _ => None end | None => None end)) (history s)))].
End CacheRun.

Section RateRun.
Import C14.ModelRate.
Definition run_rate (v : val) : val :=
  let L := relic_new_limiter (vz (vnth 1 v)) (vz (vnth 2 v)) (vz (vnth 3 v)) in
  let calls := map (fun c => (vz (vnth 0 c), vz (vnth 1 c))) (vl (vnth 4 v)) in
  VL (map (fun e => VL [VZ (ev_t e); VZ (ev_act e); VZ (ev_tok e)]) (C14.ModelRate.run L calls)).
Definition run_window (v : val) : val :=
  of_bool (window_ok (vz (vnth 1 v)) (vz (vnth 2 v)) (vz (vnth 3 v)) (vz (vnth 4 v)) (map vz (vl (vnth 5 v)))).
End RateRun.

Section ShutRun.
Import C14.ModelShut.
Definition pc_code (p : hpc) : Z :=
  match p with HNew => 0 | HRefused => 1 | HRun k => 10 + Z.of_nat k | HHalf k => 30 + Z.of_nat k | HDone => 2 | HErr => 3 end.
Definition run_shut (v : val) : val :=
  let ntok := Z.to_nat (vz (vnth 1 v)) in
  let n := Z.to_nat (vz (vnth 2 v)) in
  let evs := map (fun e => let c := vz (vnth 0 e) in
                           if c =? 0 then EReq (Z.to_nat (vz (vnth 1 e))) (vbool (vnth 2 e))
                           else if c =? 1 then EShutdown else if c =? 2 then EGo else if c =? 3 then EWait
                           else if c =? 4 then ETick (vz (vnth 1 e)) else EHealth (vbool (vnth 1 e))) (vl (vnth 3 v)) in
  let line := fun i => [200 + Z.of_nat i] in
  let s := srun line ntok n evs in
  VL [VL (map (fun p => VZ (pc_code p)) (ss_req s)); VB (ss_file s); of_bool (clean (ss_trace s)); of_bool (no_ping_after_close (ss_trace s));
      of_bool (ss_returned s); of_bool (ss_forced s); of_bool (ss_tok_closed s);
      VL (map (fun l => VB l) (fst (read_lines (ss_file s)))); VB (snd (read_lines (ss_file s)))].
End ShutRun.

Section InitRun.
Import C14.ModelInit.
Definition run_ts (v : val) : val :=
  let n := Z.to_nat (vz (vnth 1 v)) in
  let evs := map (fun e => TStep (Z.to_nat (vz (vnth 0 e))) (vbool (vnth 1 e))) (vl (vnth 2 v)) in
  let s := trun n evs in
  VL [VL (map (fun p => match p with TDone (Some a) => VL [VZ 2; VZ a] | TDone None => VL [VZ 2; VZ 0] | TNew => VL [VZ 0; VZ 0] | _ => VL [VZ 1; VZ 0] end) (ts_thr s));
      VZ (zlen (ts_made s))].
End InitRun.

Section ProcRun.
Import C14.ModelProc.
Definition ppc_code (p : ppc) : Z :=
  match p with PNew => 0 | PRefused => 1 | PRun k => 10 + Z.of_nat k | PDone => 2 | PCut => 4 | PTokGone => 5 end.
(* one round: every goroutine that exists at the beginning of the round takes one step, in order *)
Definition round (nlis : nat) (s : pstate) : pstate := fold_left (pstep real_progs nlis) (map PThr (seq 0 (length (p_thr s)))) s.
Fixpoint rounds (nlis k : nat) (s : pstate) : pstate := match k with O => s | S j => rounds nlis j (round nlis s) end.
Definition run_proc (v : val) : val :=
  let nlis := Z.to_nat (vz (vnth 1 v)) in
  let n := Z.to_nat (vz (vnth 2 v)) in
  let stepv := fun s e =>
    let c := vz (vnth 0 e) in
    if c =? 0 then pstep real_progs nlis s (PThr (Z.to_nat (vz (vnth 1 e))))
    else if c =? 1 then pstep real_progs nlis s (PReq (Z.to_nat (vz (vnth 1 e))))
    else if c =? 2 then pstep real_progs nlis s (PSig (vz (vnth 1 e)))
    else if c =? 3 then pstep real_progs nlis s PWatch
    else if c =? 4 then pstep real_progs nlis s (PTick (vz (vnth 1 e)))
    else rounds nlis (Z.to_nat (vz (vnth 1 e))) s in
  let s := fold_left stepv (vl (vnth 3 v)) (pinit real_progs n) in
  VL [VL [of_bool (p_alive s); VZ (p_how s); VZ (p_code s); of_bool (p_forced s); of_bool (p_tok_closed s); of_bool (p_closing s); of_bool (spec_ok s)];
      VL (map (fun p => VZ (ppc_code p)) (p_req s)); VZ (zlen (p_thr s)); VZ (Z.of_nat (p_eg s))].
End ProcRun.

Definition run (v : val) : val :=
  match vnth 0 v with
  | VL _ => run_iso v
  | VZ 1 => run_cache v
  | VZ 2 => run_rate v
  | VZ 3 => run_window v
  | VZ 4 => run_shut v
  | VZ 5 => run_ts v
  | VZ 6 => run_proc v
  | _ => VL []
  end.
