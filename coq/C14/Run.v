(* C14/Run.v — input [ [ [name body opts] ... ] [schedule] ] with tok n = n; output [ [done key body opts]... ] *)
From Relic Require Import Base.Prelude Base.Val Generated.C14_gen C14.Model.
Definition run (v : val) : val :=
  let rqs := map (fun r => mkRq (vz (vnth 0 r)) (vz (vnth 1 r)) (vz (vnth 2 r))) (vl (vnth 0 v)) in
  let sched := map (fun x => Z.to_nat (vz x)) (vl (vnth 1 v)) in
  let '(pcs, sh) := C14.Model.run (fun n => n) rqs sched in
  VL [VL (map (fun p => match response p with Some s => VL [VZ 1; VZ (s_key s); VZ (s_body s); VZ (s_opts s)] | None => VL [VZ 0] end) pcs);
      VZ (zlen (sh_log sh))].
